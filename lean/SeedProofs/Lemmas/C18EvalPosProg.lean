/-
  Lemmas/C18EvalPosProg.lean — the program-level corollaries of the fuel induction of C18EvalPos.lean.

  * `evalProg_pos`: the induction started from the state `evalProg` builds (one scope cell holding the built-in `print`
    binding, declared at `(0,0)`).
  * `ProgMark stmts`: the marks of the program closed under what `interpolate` does at run time with a marked string
    literal (the position attached to a slot; the positions stored in the slot's expression once parsed).
    `eval_uses_node_pos`: every position of an error of `evalProg n stmts` is such a mark.
  * `eval_uses_node_pos_partial`: for a program without interpolation slots, every position of the error is a position
    stored in the tree `stmts`.
  * with the parser theorem `node_pos` (C18NodePos.lean) and the lexer facts of Scan.lean: the positions are token
    starts of the source (`diag_pos_is_source_pos_partial`, `diag_pos_source_or_slot`) and their lines lie in the source.
-/
import SeedProofs.Lemmas.C18EvalPos
import SeedProofs.Lemmas.C18NodePosSrc
namespace Seed
open Gen (Leaf)

/-! ## positions of an error, in terms of a set of positions -/

/-- every position anywhere in the error satisfies `S`: the `line:col` of every `atLoc` node, the call position of every
    user-function and builtin call frame; a position inside the leaf's payload (AlreadyInScope and DupParamName cite
    the position of the earlier declaration) satisfies `S` or is the `(0,0)` the built-in `print` is declared at -/
def Err.AllPos (S : Loc → Prop) : Err → Prop
  | .leaf l => ∀ p, p ∈ l.locs → S p ∨ p = (0, 0)
  | .atLoc line col e => S (line, col) ∧ Err.AllPos S e
  | .funcCall _ cl e => S cl ∧ Err.AllPos S e
  | .builtinCall _ cl e => S cl ∧ Err.AllPos S e

theorem Err.LocsIn.allPos {M : Mark → Prop} {S : Loc → Prop} (hm : ∀ l, M (.loc l) → S l) :
    ∀ {e : Err}, Err.LocsIn M e → Err.AllPos S e
  | .leaf _, h => fun p hp => (h p hp).imp (hm p) id
  | .atLoc _ _ _, h => ⟨hm _ h.1, Err.LocsIn.allPos hm h.2⟩
  | .funcCall _ _ _, h => ⟨hm _ h.1, Err.LocsIn.allPos hm h.2⟩
  | .builtinCall _ _ _, h => ⟨hm _ h.1, Err.LocsIn.allPos hm h.2⟩

theorem Err.AllPos.mono {S S' : Loc → Prop} (hs : ∀ l, S l → S' l) : ∀ {e : Err}, Err.AllPos S e → Err.AllPos S' e
  | .leaf _, h => fun p hp => (h p hp).imp (hs p) id
  | .atLoc _ _ _, h => ⟨hs _ h.1, Err.AllPos.mono hs h.2⟩
  | .funcCall _ _ _, h => ⟨hs _ h.1, Err.AllPos.mono hs h.2⟩
  | .builtinCall _ _ _, h => ⟨hs _ h.1, Err.AllPos.mono hs h.2⟩

/-- the position the diagnostic starts with (the outermost `atLoc` / builtin call below the user call frames) is one of
    the positions of the error -/
def Err.headPos : Err → Option Loc
  | .leaf _ => none
  | .atLoc line col _ => some (line, col)
  | .builtinCall _ cl _ => some cl
  | .funcCall _ _ e => Err.headPos e

theorem Err.AllPos.headPos {S : Loc → Prop} : ∀ {e : Err} {l : Loc}, Err.AllPos S e → e.headPos = some l → S l
  | .leaf _, _, _, h => by cases h
  | .atLoc _ _ _, _, h, hl => by cases hl; exact h.1
  | .builtinCall _ _ _, _, h, hl => by cases hl; exact h.1
  | .funcCall _ _ _, _, h, hl => Err.AllPos.headPos h.2 hl

/-- the positions of the error's nodes, outermost first: `line:col` of `atLoc`, call positions of the call frames -/
def Err.positions : Err → List Loc
  | .leaf _ => []
  | .atLoc line col e => (line, col) :: Err.positions e
  | .funcCall _ cl e => cl :: Err.positions e
  | .builtinCall _ cl e => cl :: Err.positions e

/-- the positions inside the payload of the error's leaf -/
def Err.payloadLocs : Err → List Loc
  | .leaf l => l.locs
  | .atLoc _ _ e => Err.payloadLocs e
  | .funcCall _ _ e => Err.payloadLocs e
  | .builtinCall _ _ e => Err.payloadLocs e

/-- `AllPos` spelled out over the two lists -/
theorem Err.allPos_iff {S : Loc → Prop} : ∀ {e : Err},
    Err.AllPos S e ↔ (∀ l, l ∈ e.positions → S l) ∧ (∀ p, p ∈ e.payloadLocs → S p ∨ p = (0, 0))
  | .leaf _ => ⟨fun h => ⟨fun _ hl => (nomatch hl), h⟩, fun h => h.2⟩
  | .atLoc _ _ e => by
    simp only [Err.AllPos, Err.positions, Err.payloadLocs, List.mem_cons, Err.allPos_iff (e := e)]
    constructor
    · rintro ⟨h1, h2, h3⟩; exact ⟨fun l hl => hl.elim (fun h => h ▸ h1) (h2 l), h3⟩
    · rintro ⟨h1, h2⟩; exact ⟨h1 _ (Or.inl rfl), fun l hl => h1 l (Or.inr hl), h2⟩
  | .funcCall _ _ e => by
    simp only [Err.AllPos, Err.positions, Err.payloadLocs, List.mem_cons, Err.allPos_iff (e := e)]
    constructor
    · rintro ⟨h1, h2, h3⟩; exact ⟨fun l hl => hl.elim (fun h => h ▸ h1) (h2 l), h3⟩
    · rintro ⟨h1, h2⟩; exact ⟨h1 _ (Or.inl rfl), fun l hl => h1 l (Or.inr hl), h2⟩
  | .builtinCall _ _ e => by
    simp only [Err.AllPos, Err.positions, Err.payloadLocs, List.mem_cons, Err.allPos_iff (e := e)]
    constructor
    · rintro ⟨h1, h2, h3⟩; exact ⟨fun l hl => hl.elim (fun h => h ▸ h1) (h2 l), h3⟩
    · rintro ⟨h1, h2⟩; exact ⟨h1 _ (Or.inl rfl), fun l hl => h1 l (Or.inr hl), h2⟩

/-! ## `evalProg` -/

/-- the global binding of `print`, as `evalProg` declares it -/
def printBinding : Expr × SVal := (.mk (.Var c!"print") (0, 0), SVal.plain (.builtin c!"print" .print))

/-- the state in which the program's statements start: one scope cell with `print`, declared at `(0,0)` -/
def progState : State := ⟨#[.scope [(c!"print", SVal.plain (.builtin c!"print" .print), (0, 0))]], []⟩

theorem declareAll_print (k : Nat) :
    declareAll (k + 2) (State.init.alloc (.scope [])).2 [0] [printBinding] = .ok () progState := by
  unfold declareAll printBinding
  simp only []
  unfold bindNext
  simp only []
  unfold bindNextName
  unfold declareAll
  cases k <;> rfl

theorem inv_progState (M : Mark → Prop) : PosInv M progState := by
  intro a c h
  simp only [progState] at h
  cases a with
  | zero =>
    simp at h; subst h
    intro x hx
    simp at hx; subst hx
    exact Or.inr rfl
  | succ a => simp at h

/-- from fuel 3 on, `evalProg` is the statement list run in `progState` under the scope chain `[0]` -/
theorem evalProg_eq (k : Nat) (stmts : List Stmt) :
    evalProg (k + 3) stmts =
      (evalStmts (k + 2) progState [0] stmts).bind fun esc σ =>
        match esc with
        | .none => .ok () σ
        | .brk l => errAt l Leaf.BreakOutsideLoop σ
        | .cont l => errAt l Leaf.ContinueOutsideLoop σ
        | .ret _ l => errAt l Leaf.ReturnOutsideFunction σ := by
  unfold evalProg
  simp only []
  conv => lhs; arg 1; unfold evalBlock
  simp only []
  have := declareAll_print k
  unfold printBinding at this
  show Res.bind (Res.bind (declareAll (k + 2) (State.init.alloc (.scope [])).2 [0] _) _) _ = _
  rw [this]
  rfl

theorem evalProg_small (stmts : List Stmt) : evalProg 0 stmts = .timeout ∧ evalProg 1 stmts = .timeout ∧ evalProg 2 stmts = .timeout := by
  refine ⟨?_, ?_, ?_⟩
  · unfold evalProg; simp only []; unfold evalBlock; rfl
  · unfold evalProg; simp only []; unfold evalBlock; simp only []; unfold declareAll; rfl
  · unfold evalProg; simp only []; unfold evalBlock; simp only []; unfold declareAll; simp only []; unfold bindNext; rfl

/-- the fuel induction applied to a whole program whose marks satisfy a slot-closed `M` -/
theorem evalProg_pos {M : Mark → Prop} (hM : SlotClosed M) (n : Nat) (stmts : List Stmt) (hg : Marked M (Stmt.marksL stmts)) :
    Res.Pos M PTriv (evalProg n stmts) := by
  rcases n with _ | _ | _ | k
  · rw [(evalProg_small stmts).1]; trivial
  · rw [(evalProg_small stmts).2.1]; trivial
  · rw [(evalProg_small stmts).2.2]; trivial
  · rw [evalProg_eq]
    apply Res.Pos.bind ((evalPosAll hM (k + 2)).evalStmts _ _ _ (inv_progState M) hg)
    intro esc σ hi hesc
    cases esc with
    | none => exact Res.Pos.ok hi trivial
    | brk l => exact Res.Pos.errAt hesc (leafOK_of_nil rfl) hi
    | cont l => exact Res.Pos.errAt hesc (leafOK_of_nil rfl) hi
    | ret v l => exact Res.Pos.errAt hesc (leafOK_of_nil rfl) hi

/-! ## the marks of a program, closed under run-time slot parsing -/

/-- the text of slot `sl` of the literal `s`, as `interpolate` cuts it out -/
def slotText (s : List Char) (sl : Nat × Nat) : List Char := sliceChars s (sl.1 + 2) (sl.2 - 1)

/-- the position `interpolate` attaches to everything that goes wrong in slot `sl` of a literal located at `loc` -/
def slotPos (loc : Loc) (sl : Nat × Nat) : Loc := (loc.1, loc.2 + sl.1 + 4)

inductive ProgMark (stmts : List Stmt) : Mark → Prop
  /-- stored in the tree -/
  | tree {m : Mark} : m ∈ Stmt.marksL stmts → ProgMark stmts m
  /-- the position attached to a slot of a marked interpolated literal -/
  | slotCol {s : List Char} {slots : List (Nat × Nat)} {loc : Loc} {sl : Nat × Nat} :
      ProgMark stmts (.str s slots loc) → sl ∈ slots → ProgMark stmts (.loc (slotPos loc sl))
  /-- stored in the expression a slot of a marked interpolated literal parses to -/
  | slotAst {s : List Char} {slots : List (Nat × Nat)} {loc : Loc} {sl : Nat × Nat} {ast : Expr} {m : Mark} :
      ProgMark stmts (.str s slots loc) → sl ∈ slots → parseExprTop (slotText s sl) = .ok ast → m ∈ ast.marks →
      ProgMark stmts m

theorem progMark_slotClosed (stmts : List Stmt) : SlotClosed (ProgMark stmts) := by
  intro s slots loc hm sl hsl
  exact ⟨ProgMark.slotCol hm hsl, fun ast hp m hmem => ProgMark.slotAst hm hsl hp hmem⟩

/-- **`eval_uses_node_pos`.**  every position of an error of `evalProg n stmts` is a mark of the program:
    stored in the tree, or produced from a string literal of the tree by run-time slot parsing -/
theorem eval_uses_node_pos {n : Nat} {stmts : List Stmt} {e : Err} {σ : State} (h : evalProg n stmts = .err e σ) :
    e.AllPos (fun l => ProgMark stmts (.loc l)) := by
  have := evalProg_pos (progMark_slotClosed stmts) n stmts (fun m hm => ProgMark.tree hm)
  rw [h] at this
  exact this.1.allPos (fun _ hl => hl)

/-- … and the invariant holds in the state the error is returned in (and in the final state of a successful run) -/
theorem evalProg_inv (n : Nat) (stmts : List Stmt) :
    match evalProg n stmts with
    | .ok _ σ => PosInv (ProgMark stmts) σ
    | .err _ σ => PosInv (ProgMark stmts) σ
    | .crash _ σ => PosInv (ProgMark stmts) σ
    | .timeout => True := by
  have := evalProg_pos (progMark_slotClosed stmts) n stmts (fun m hm => ProgMark.tree hm)
  cases h : evalProg n stmts <;> rw [h] at this
  · exact this.1
  · exact this.2
  · exact this
  · trivial

/-! ## programs without interpolation slots -/

def Mark.str? : Mark → Option (List Char × List (Nat × Nat) × Loc)
  | .loc _ => none
  | .str s slots l => some (s, slots, l)

/-- the interpolated string literals of a statement list, with their slot tables and positions -/
def Stmt.strsL (stmts : List Stmt) : List (List Char × List (Nat × Nat) × Loc) := (Stmt.marksL stmts).filterMap Mark.str?

/-- no string literal of the program has an interpolation slot -/
def NoSlots (stmts : List Stmt) : Prop := ∀ x, x ∈ Stmt.strsL stmts → x.2.1 = []

instance (stmts : List Stmt) : Decidable (NoSlots stmts) := by unfold NoSlots; infer_instance

theorem NoSlots.mark {stmts : List Stmt} (h : NoSlots stmts) {s : List Char} {slots : List (Nat × Nat)} {l : Loc}
    (hm : Mark.str s slots l ∈ Stmt.marksL stmts) : slots = [] :=
  h (s, slots, l) (List.mem_filterMap.mpr ⟨_, hm, rfl⟩)

theorem progMark_noSlots {stmts : List Stmt} (h : NoSlots stmts) {m : Mark} (hm : ProgMark stmts m) : m ∈ Stmt.marksL stmts := by
  induction hm with
  | tree hm => exact hm
  | slotCol _ hsl ih => rw [h.mark ih] at hsl; cases hsl
  | slotAst _ hsl _ _ ih => rw [h.mark ih] at hsl; cases hsl

/-- **`eval_uses_node_pos_partial`** ("every position is stored in the tree" is false when slots are evaluated).  for a
    program without interpolation slots: every position of an error of
    `evalProg n stmts` is a position stored in the tree `stmts` -/
theorem eval_uses_node_pos_partial {n : Nat} {stmts : List Stmt} {e : Err} {σ : State} (hns : NoSlots stmts)
    (h : evalProg n stmts = .err e σ) : e.AllPos (· ∈ Stmt.locsL stmts) :=
  (eval_uses_node_pos h).mono fun _ hl => mem_locs_iff.mpr (progMark_noSlots hns hl)

/-! ## from tree positions to source positions -/

def Mark.pos : Mark → Loc
  | .loc l => l
  | .str _ _ l => l

/-- marks whose position is the start of a token of `T` -/
def TokM (T : List Span) (m : Mark) : Prop := LocOK T m.pos

theorem marked_exprsL {M : Mark → Prop} : ∀ {es : List Expr}, (∀ x, x ∈ es → Marked M x.marks) → Marked M (Expr.marksL es)
  | [], _ => marked_nil
  | e :: r, h => by
    rw [Expr.marksL, marked_append]
    exact ⟨h e List.mem_cons_self, marked_exprsL fun x hx => h x (List.mem_cons_of_mem _ hx)⟩
theorem marked_itemsL {M : Mark → Prop} : ∀ {es : List ListItem}, (∀ x, x ∈ es → Marked M x.marks) → Marked M (ListItem.marksL es)
  | [], _ => marked_nil
  | e :: r, h => by
    rw [ListItem.marksL, marked_append]
    exact ⟨h e List.mem_cons_self, marked_itemsL fun x hx => h x (List.mem_cons_of_mem _ hx)⟩
theorem marked_propsL {M : Mark → Prop} : ∀ {es : List PropItem}, (∀ x, x ∈ es → Marked M x.marks) → Marked M (PropItem.marksL es)
  | [], _ => marked_nil
  | e :: r, h => by
    rw [PropItem.marksL, marked_append]
    exact ⟨h e List.mem_cons_self, marked_propsL fun x hx => h x (List.mem_cons_of_mem _ hx)⟩
theorem marked_stmtsL {M : Mark → Prop} : ∀ {es : List Stmt}, (∀ x, x ∈ es → Marked M x.marks) → Marked M (Stmt.marksL es)
  | [], _ => marked_nil
  | e :: r, h => by
    rw [Stmt.marksL, marked_append]
    exact ⟨h e List.mem_cons_self, marked_stmtsL fun x hx => h x (List.mem_cons_of_mem _ hx)⟩
theorem marked_branchesL {M : Mark → Prop} : ∀ {es : List Branch}, (∀ x, x ∈ es → Marked M x.marks) → Marked M (Branch.marksL es)
  | [], _ => marked_nil
  | e :: r, h => by
    rw [Branch.marksL, marked_append]
    exact ⟨h e List.mem_cons_self, marked_branchesL fun x hx => h x (List.mem_cons_of_mem _ hx)⟩
theorem marked_stmtsLO {M : Mark → Prop} : ∀ {o : Option (List Stmt)}, (∀ s, o = some s → ∀ x, x ∈ s → Marked M x.marks) →
    Marked M (Stmt.marksLO o)
  | none, _ => marked_nil
  | some s, h => marked_stmtsL (h s rfl)
theorem marked_optE {M : Mark → Prop} : ∀ {o : Option Expr}, (∀ x, o = some x → Marked M x.marks) → Marked M (Expr.marksO o)
  | none, _ => marked_nil
  | some e, h => h e rfl

mutual
theorem RawPosOK.marks {T : List Span} : ∀ {r : RawExpr}, RawPosOK T r → Marked (TokM T) r.marks
  | _, .null => marked_nil
  | _, .bool => marked_nil
  | _, .int => marked_nil
  | _, .str => marked_nil
  | _, .var => marked_nil
  | _, .binop ho hl hr => by
    simp only [RawExpr.marks, marked_cons, marked_append]; exact ⟨ho, hl.marks, hr.marks⟩
  | _, .list h => by
    simp only [RawExpr.marks]; exact marked_itemsL fun x hx => (h x hx).marks
  | _, .index he hi => by
    simp only [RawExpr.marks, marked_append]; exact ⟨he.marks, hi.marks⟩
  | _, .rangeIndex he ha hb => by
    simp only [RawExpr.marks, marked_append]
    exact ⟨he.marks, marked_optE fun x hx => (ha x hx).marks, marked_optE fun x hx => (hb x hx).marks⟩
  | _, .range ha hb => by
    simp only [RawExpr.marks, marked_append]; exact ⟨ha.marks, hb.marks⟩
  | _, .object h => by
    simp only [RawExpr.marks]; exact marked_propsL fun x hx => (h x hx).marks
  | _, .prop he => by
    simp only [RawExpr.marks]; exact he.marks
  | _, .func ha hs => by
    simp only [RawExpr.marks, marked_append]
    exact ⟨marked_exprsL fun x hx => (ha x hx).marks, marked_stmtsL fun x hx => (hs x hx).marks⟩
  | _, .call hf ha => by
    simp only [RawExpr.marks, marked_append]
    exact ⟨hf.marks, marked_itemsL fun x hx => (ha x hx).marks⟩
theorem PosOK.marks {T : List Span} : ∀ {e : Expr}, PosOK T e → Marked (TokM T) e.marks
  | .mk raw l, .mk hr hl => by
    simp only [Expr.marks, marked_cons, marked_append]
    refine ⟨hl, ?_, hr.marks⟩
    intro m hm
    cases raw <;> simp [RawExpr.strMark] at hm
    rename_i s slots
    cases slots <;> simp at hm
    subst hm; exact hl
theorem ItemPosOK.marks {T : List Span} : ∀ {e : ListItem}, ItemPosOK T e → Marked (TokM T) e.marks
  | _, .mk h => by simp only [ListItem.marks]; exact h.marks
theorem PropPosOK.marks {T : List Span} : ∀ {e : PropItem}, PropPosOK T e → Marked (TokM T) e.marks
  | _, .pair hn hv => by simp only [PropItem.marks, marked_append]; exact ⟨hn.marks, hv.marks⟩
  | _, .single h => by simp only [PropItem.marks]; exact h.marks
theorem StmtPosOK.marks {T : List Span} : ∀ {s : Stmt}, StmtPosOK T s → Marked (TokM T) s.marks
  | _, .block h => by simp only [Stmt.marks]; exact marked_stmtsL fun x hx => (h x hx).marks
  | _, .expr h => by simp only [Stmt.marks]; exact h.marks
  | _, .declare hl hr => by simp only [Stmt.marks, marked_append]; exact ⟨hl.marks, hr.marks⟩
  | _, .assign hl hr => by simp only [Stmt.marks, marked_append]; exact ⟨hl.marks, hr.marks⟩
  | _, .opAssign hl ho hr => by simp only [Stmt.marks, marked_cons, marked_append]; exact ⟨ho, hl.marks, hr.marks⟩
  | .If bs els, .ifs hb he => by
    simp only [Stmt.marks, marked_append]
    exact ⟨marked_branchesL fun x hx => (hb x hx).marks, marked_stmtsLO fun s hs x hx => (he s hs x hx).marks⟩
  | _, .whiles hc hs => by
    simp only [Stmt.marks, marked_append]; exact ⟨hc.marks, marked_stmtsL fun x hx => (hs x hx).marks⟩
  | _, .fors hl hi hs => by
    simp only [Stmt.marks, marked_append]; exact ⟨hl.marks, hi.marks, marked_stmtsL fun x hx => (hs x hx).marks⟩
  | _, .brk h => by simp only [Stmt.marks, marked_cons]; exact ⟨h, marked_nil⟩
  | _, .cont h => by simp only [Stmt.marks, marked_cons]; exact ⟨h, marked_nil⟩
  | _, .func hn ha hs => by
    simp only [Stmt.marks, marked_cons, marked_append]
    exact ⟨hn, marked_exprsL fun x hx => (ha x hx).marks, marked_stmtsL fun x hx => (hs x hx).marks⟩
  | _, .ret hl he => by simp only [Stmt.marks, marked_cons]; exact ⟨hl, he.marks⟩
theorem BranchPosOK.marks {T : List Span} : ∀ {b : Branch}, BranchPosOK T b → Marked (TokM T) b.marks
  | _, .mk hc hs => by
    simp only [Branch.marks, marked_append]; exact ⟨hc.marks, marked_stmtsL fun x hx => (hs x hx).marks⟩
end

/-- the marks of a parsed program sit at token starts of its token stream -/
theorem parseProg_marks {src : List Char} {stmts : List Stmt} (h : parseProg src = .ok stmts) :
    Marked (TokM (lexAll src).1) (Stmt.marksL stmts) :=
  marked_stmtsL fun x hx => (node_pos h x hx).marks

/-- the marks of a parsed slot expression sit at token starts of the slot text's token stream -/
theorem parseExprTop_marks {src : List Char} {e : Expr} (h : parseExprTop src = .ok e) : Marked (TokM (lexAll src).1) e.marks :=
  (node_pos_expr h).marks

/-- `l` is the position of the first character of a token of `src`: the token `sp` of the token stream starts at `l`,
    it is what `nextToken` returns from some offset `k'`, whitespace and comments from `k'` end at offset `i`, and `l` is
    the line/column of offset `i` -/
def TokStart (src : List Char) (l : Loc) : Prop :=
  ∃ sp k' i j, sp ∈ (lexAll src).1 ∧ sp.start = l ∧ k' ≤ i ∧ i < j ∧ i < src.length ∧ j ≤ src.length ∧
    nextToken ((Scanner.new src).advance k') = .tok sp ((Scanner.new src).advance j) ∧
    ((Scanner.new src).advance k').skipWs = (Scanner.new src).advance i ∧ l = posOf src i

theorem locOK_tokStart {src : List Char} {l : Loc} (h : LocOK (lexAll src).1 l) : TokStart src l := by
  obtain ⟨sp, hm, rfl⟩ := h
  have hraw : sp ∈ (lexRaw (src.length + 1) ((Scanner.new src).advance 0)).1 := suppress_subset _ _ _ hm
  obtain ⟨k', s', _, hn⟩ := lexRaw_mem_reach src _ 0 sp hraw
  obtain ⟨i, j, h1, h2, h3, h4, h5, h6, h7, _⟩ := nextToken_tok_reach hn
  subst h7
  exact ⟨sp, k', i, j, hm, rfl, h1, h2, h3, h4, hn, h5, by rw [h6, scan_pos]⟩

theorem TokStart.is_posOf {src : List Char} {l : Loc} (h : TokStart src l) : ∃ i, i < src.length ∧ l = posOf src i := by
  obtain ⟨_, _, i, _, _, _, _, _, hi, _, _, _, hl⟩ := h
  exact ⟨i, hi, hl⟩

/-- a token start lies on a line of the source: lines are counted from 1, and there are `1 +` (number of line feeds) -/
theorem TokStart.line {src : List Char} {l : Loc} (h : TokStart src l) : 1 ≤ l.1 ∧ l.1 ≤ 1 + src.count '\n' := by
  obtain ⟨i, hi, rfl⟩ := h.is_posOf
  have hne : src ≠ [] := by intro h0; subst h0; simp at hi
  rw [posOf_of_ne_nil hne]
  simp only [lineOf]
  have : (src.take (i + 1)).count '\n' ≤ src.count '\n' := (List.take_sublist _ _).count_le _
  omega

/-- **`diag_pos_is_source_pos`, for programs without interpolation slots.**  if the source parses to `stmts` and running
    `stmts` fails with `e`, every position in `e` is the position `posOf src i` of the first character of a token -/
theorem diag_pos_is_source_pos_partial {src : List Char} {stmts : List Stmt} {n : Nat} {e : Err} {σ : State}
    (hp : parseProg src = .ok stmts) (hns : NoSlots stmts) (h : evalProg n stmts = .err e σ) : e.AllPos (TokStart src) :=
  (eval_uses_node_pos h).mono fun _ hl => locOK_tokStart (parseProg_marks hp _ (progMark_noSlots hns hl))

/-- a position produced by run-time slot parsing: the position attached to slot `sl` of a reachable interpolated literal
    `s` at `loc`, or a token start *of the slot text* (line 1 is the slot's first line, whatever line the literal is on) -/
def SlotDerived (stmts : List Stmt) (l : Loc) : Prop :=
  ∃ s slots loc sl, ProgMark stmts (.str s slots loc) ∧ sl ∈ slots ∧
    (l = slotPos loc sl ∨ ((∃ ast, parseExprTop (slotText s sl) = .ok ast) ∧ TokStart (slotText s sl) l))

theorem progMark_source_or_slot {src : List Char} {stmts : List Stmt} (hp : parseProg src = .ok stmts) {m : Mark}
    (hm : ProgMark stmts m) : TokStart src m.pos ∨ SlotDerived stmts m.pos := by
  cases hm with
  | tree hm => exact Or.inl (locOK_tokStart (parseProg_marks hp _ hm))
  | slotCol hs hsl => exact Or.inr ⟨_, _, _, _, hs, hsl, Or.inl rfl⟩
  | slotAst hs hsl hpe hmem => exact Or.inr ⟨_, _, _, _, hs, hsl, Or.inr ⟨⟨_, hpe⟩, locOK_tokStart (parseExprTop_marks hpe _ hmem)⟩⟩

/-- **`diag_pos_is_source_pos`, general form.**  every position in the error is the first character of a token of the
    source, or comes from run-time slot parsing (and then it is *not* in general a source position: known findings K2/K4) -/
theorem diag_pos_source_or_slot {src : List Char} {stmts : List Stmt} {n : Nat} {e : Err} {σ : State}
    (hp : parseProg src = .ok stmts) (h : evalProg n stmts = .err e σ) :
    e.AllPos (fun l => TokStart src l ∨ SlotDerived stmts l) :=
  (eval_uses_node_pos h).mono fun _ hl => progMark_source_or_slot hp hl

/-- every mark reachable from a parsed program has line ≥ 1 -/
theorem progMark_line_ge_one {src : List Char} {stmts : List Stmt} (hp : parseProg src = .ok stmts) {m : Mark}
    (hm : ProgMark stmts m) : 1 ≤ m.pos.1 := by
  induction hm with
  | tree hm => exact (locOK_tokStart (parseProg_marks hp _ hm)).line.1
  | slotCol _ _ ih => exact ih
  | slotAst _ _ hpe hmem _ => exact (locOK_tokStart (parseExprTop_marks hpe _ hmem)).line.1

/-- **`diag_line_ge_one`.**  every position of a run-time diagnostic has line ≥ 1 (slots included) -/
theorem diag_line_ge_one {src : List Char} {stmts : List Stmt} {n : Nat} {e : Err} {σ : State}
    (hp : parseProg src = .ok stmts) (h : evalProg n stmts = .err e σ) : e.AllPos (fun l => 1 ≤ l.1) :=
  (eval_uses_node_pos h).mono fun _ hl => progMark_line_ge_one hp hl

/-- … and, without interpolation slots, at most `1 +` the number of line feeds of the source -/
theorem diag_line_in_source_partial {src : List Char} {stmts : List Stmt} {n : Nat} {e : Err} {σ : State}
    (hp : parseProg src = .ok stmts) (hns : NoSlots stmts) (h : evalProg n stmts = .err e σ) :
    e.AllPos (fun l => 1 ≤ l.1 ∧ l.1 ≤ 1 + src.count '\n') :=
  (diag_pos_is_source_pos_partial hp hns h).mono fun _ hl => hl.line

/-! ## running concrete programs (support for `example`s: `Stmt` and `Err` have no decidable equality) -/

def progOf (src : List Char) : List Stmt := match parseProg src with | .ok s => s | _ => []
def parsesOk (src : List Char) : Bool := match parseProg src with | .ok _ => true | _ => false
def errOf (n : Nat) (stmts : List Stmt) : Option Err := match evalProg n stmts with | .err e _ => some e | _ => none

theorem parseProg_progOf {src : List Char} (h : parsesOk src = true) : parseProg src = .ok (progOf src) := by
  unfold parsesOk at h; unfold progOf
  split at h
  · rename_i s hs; rw [hs]
  · cases h

theorem errOf_map {α} {n : Nat} {stmts : List Stmt} {f : Err → α} {x : α} (h : (errOf n stmts).map f = some x) :
    ∃ e σ, evalProg n stmts = .err e σ ∧ f e = x := by
  unfold errOf at h
  split at h
  · rename_i e σ he; exact ⟨e, σ, he, by simpa using h⟩
  · cases h

theorem not_locOK_of_all {T : List Span} {l : Loc} (h : T.all (fun sp => sp.start != l) = true) : ¬ LocOK T l := by
  rintro ⟨sp, hm, he⟩
  have := List.all_eq_true.mp h sp hm
  simp [he] at this

theorem TokStart.locOK {src : List Char} {l : Loc} (h : TokStart src l) : LocOK (lexAll src).1 l := by
  obtain ⟨sp, _, _, _, hm, hs, _⟩ := h
  exact ⟨sp, hm, hs⟩

end Seed
