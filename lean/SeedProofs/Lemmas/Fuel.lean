/-
  Fuel.lean — "more fuel changes nothing but time-outs": the order `Le` on results and its congruence rules,
  and fuel monotonicity of the heap-recursive primitives (`eqVal`, `render`, `validateArgs`, `applyBinOp`,
  `callBuiltin`).
-/
import SeedModel.Eval
namespace Seed

/-- `r ⊑ r'`: `r` is a time-out or the same as `r'` -/
def Res.Le {α} (r r' : Res α) : Prop := r = .timeout ∨ r = r'

namespace Res.Le
theorem refl {α} (r : Res α) : Res.Le r r := Or.inr rfl
theorem of_eq {α} {r r' : Res α} (h : r = r') : Res.Le r r' := Or.inr h
theorem timeout {α} (r : Res α) : Res.Le .timeout r := Or.inl rfl

theorem bind {α β} {r r' : Res α} {f g : α → State → Res β} (h : Res.Le r r') (hf : ∀ a σ, Res.Le (f a σ) (g a σ)) :
    Res.Le (r.bind f) (r'.bind g) := by
  rcases h with h | h
  · subst h; exact Or.inl rfl
  · subst h
    cases r with
    | ok a σ => exact hf a σ
    | err e σ => exact Or.inr rfl
    | crash w σ => exact Or.inr rfl
    | timeout => exact Or.inl rfl

theorem map {α β} {r r' : Res α} (f : α → β) (h : Res.Le r r') : Res.Le (r.map f) (r'.map f) := by
  rcases h with h | h
  · subst h; exact Or.inl rfl
  · subst h; exact Or.inr rfl

theorem mapErr {α} {r r' : Res α} (f : Err → Err) (h : Res.Le r r') : Res.Le (r.mapErr f) (r'.mapErr f) := by
  rcases h with h | h
  · subst h; exact Or.inl rfl
  · subst h; exact Or.inr rfl

theorem trans {α} {a b c : Res α} (h1 : Res.Le a b) (h2 : Res.Le b c) : Res.Le a c := by
  rcases h1 with h | h
  · exact Or.inl h
  · subst h; exact h2
end Res.Le

/-! ### `eqVal` -/

def EqRes.Le (r r' : EqRes) : Prop := r = .timeout ∨ r = r'

theorem EqRes.Le.refl (r : EqRes) : EqRes.Le r r := Or.inr rfl

theorem EqRes.Le.prefixPath (p : List Char) {r r' : EqRes} (h : EqRes.Le r r') :
    EqRes.Le (r.prefixPath p) (r'.prefixPath p) := by
  rcases h with h | h
  · subst h; exact Or.inl rfl
  · subst h; exact Or.inr rfl

/-- unfold the function on both sides of a `Le` goal exactly once -/
macro "unfold_le " f:ident : tactic =>
  `(tactic| ((conv => arg 1; unfold $f); (conv => arg 2; unfold $f)))

theorem eq_mono (n : Nat) :
    (∀ σ a b, EqRes.Le (eqVal n σ a b) (eqVal (n + 1) σ a b)) ∧
    (∀ σ i xs ys, EqRes.Le (eqItems n σ i xs ys) (eqItems (n + 1) σ i xs ys)) ∧
    (∀ σ xs ys, EqRes.Le (eqProps n σ xs ys) (eqProps (n + 1) σ xs ys)) := by
  induction n with
  | zero =>
    refine ⟨?_, ?_, ?_⟩ <;> intros <;> left
    · unfold eqVal; rfl
    · unfold eqItems; rfl
    · unfold eqProps; rfl
  | succ n ih =>
    obtain ⟨ihV, ihI, ihP⟩ := ih
    refine ⟨?_, ?_, ?_⟩
    · intro σ a b
      unfold_le eqVal
      repeat' first
        | exact EqRes.Le.refl _
        | exact ihI _ _ _ _
        | exact ihP _ _ _
        | split
    · intro σ i xs ys
      unfold_le eqItems
      split
      · rename_i x xs' y ys'
        rcases ihV σ x.v y.v with h | h
        · rw [h]; exact Or.inl rfl
        · rw [h]
          repeat' first
            | exact EqRes.Le.refl _
            | exact ihI _ _ _ _
            | split
      · exact EqRes.Le.refl _
    · intro σ xs ys
      unfold_le eqProps
      split
      · exact EqRes.Le.refl _
      · split
        · exact EqRes.Le.refl _
        · rename_i k x xs' _ y hy
          rcases ihV σ x.v y.v with h | h
          · rw [h]; exact Or.inl rfl
          · rw [h]
            repeat' first
              | exact EqRes.Le.refl _
              | exact ihP _ _ _
              | split

/-! ### `render` -/

def RenderRes.Le (r r' : RenderRes) : Prop := r = .timeout ∨ r = r'

theorem RenderRes.Le.refl (r : RenderRes) : RenderRes.Le r r := Or.inr rfl

theorem render_mono (n : Nat) :
    (∀ σ held v, RenderRes.Le (render n σ held v) (render (n + 1) σ held v)) ∧
    (∀ σ held items, RenderRes.Le (renderItems n σ held items) (renderItems (n + 1) σ held items)) ∧
    (∀ σ held props, RenderRes.Le (renderProps n σ held props) (renderProps (n + 1) σ held props)) := by
  induction n with
  | zero =>
    refine ⟨?_, ?_, ?_⟩ <;> intros <;> left
    · unfold render; rfl
    · unfold renderItems; rfl
    · unfold renderProps; rfl
  | succ n ih =>
    obtain ⟨ihV, ihI, ihP⟩ := ih
    refine ⟨?_, ?_, ?_⟩
    · intro σ held v
      unfold_le render
      split <;> try exact RenderRes.Le.refl _
      · split
        · exact RenderRes.Le.refl _
        · split
          · exact RenderRes.Le.refl _
          · rename_i a _ _ items _
            rcases ihI σ (a :: held) items with h | h
            · rw [h]; exact Or.inl rfl
            · rw [h]; exact RenderRes.Le.refl _
      · split
        · exact RenderRes.Le.refl _
        · split
          · exact RenderRes.Le.refl _
          · rename_i a _ _ props _
            rcases ihP σ (a :: held) props with h | h
            · rw [h]; exact Or.inl rfl
            · rw [h]; exact RenderRes.Le.refl _
    · intro σ held items
      unfold_le renderItems
      split
      · exact RenderRes.Le.refl _
      · rename_i x r
        rcases ihV σ held x.v with h | h
        · rw [h]; exact Or.inl rfl
        · rw [h]
          split
          · rcases ihI σ held r with h2 | h2
            · rw [h2]; exact Or.inl rfl
            · rw [h2]; exact RenderRes.Le.refl _
          · exact RenderRes.Le.refl _
    · intro σ held props
      unfold_le renderProps
      split
      · exact RenderRes.Le.refl _
      · rename_i k x r
        rcases ihV σ held x.v with h | h
        · rw [h]; exact Or.inl rfl
        · rw [h]
          split
          · rcases ihP σ held r with h2 | h2
            · rw [h2]; exact Or.inl rfl
            · rw [h2]; exact RenderRes.Le.refl _
          · exact RenderRes.Le.refl _

/-- `m ≤ n` form -/
theorem eqVal_mono {m n : Nat} (h : m ≤ n) (σ : State) (a b : Val) : EqRes.Le (eqVal m σ a b) (eqVal n σ a b) := by
  induction h with
  | refl => exact EqRes.Le.refl _
  | step _ ih =>
    rcases ih with h | h
    · exact Or.inl h
    · rw [h]; exact (eq_mono _).1 σ a b

theorem render_mono' {m n : Nat} (h : m ≤ n) (σ : State) (held : List Addr) (v : Val) :
    RenderRes.Le (render m σ held v) (render n σ held v) := by
  induction h with
  | refl => exact RenderRes.Le.refl _
  | step _ ih =>
    rcases ih with h | h
    · exact Or.inl h
    · rw [h]; exact (render_mono _).1 σ held v

/-! ### `validateArgs` -/

def OptLe {α} (a b : Option α) : Prop := a = none ∨ a = b

theorem validateArgs_mono (n : Nat) (q : List Expr) (names : List (List Char × Loc)) :
    OptLe (validateArgs n q names) (validateArgs (n + 1) q names) := by
  induction n generalizing q names with
  | zero => left; unfold validateArgs; rfl
  | succ n ih =>
    conv => arg 1; unfold validateArgs
    conv => arg 2; unfold validateArgs
    repeat' first
      | exact Or.inr rfl
      | exact ih _ _
      | split

theorem validateArgs_mono' {m n : Nat} (h : m ≤ n) (q : List Expr) (names : List (List Char × Loc)) :
    OptLe (validateArgs m q names) (validateArgs n q names) := by
  induction h with
  | refl => exact Or.inr rfl
  | step _ ih =>
    rcases ih with h | h
    · exact Or.inl h
    · rw [h]; exact validateArgs_mono _ q names

/-! ### helpers of the evaluator that use the fuel only through the primitives above -/

theorem applyBinOp_mono (n : Nat) (σ : State) (op : BinaryOp) (loc : Loc) (a b : Val) :
    Res.Le (applyBinOp n σ op loc a b) (applyBinOp (n + 1) σ op loc a b) := by
  unfold applyBinOp
  cases op <;> try exact Res.Le.refl _
  all_goals
    simp only []
    rcases (eq_mono n).1 σ a b with h | h
    · rw [h]; exact Or.inl rfl
    · rw [h]; exact Res.Le.refl _

theorem callBuiltin_mono (n : Nat) (σ : State) (f : BuiltinId) (this : Option SVal) (args : List SVal) :
    Res.Le (callBuiltin n σ f this args) (callBuiltin (n + 1) σ f this args) := by
  unfold callBuiltin
  cases f <;> try exact Res.Le.refl _
  simp only []
  split
  · exact Res.Le.refl _
  · split
    · exact Res.Le.refl _
    · split
      · exact Res.Le.refl _
      · rename_i a _ _
        rcases (render_mono n).1 σ [] a.v with h | h
        · rw [h]; exact Or.inl rfl
        · rw [h]; exact Res.Le.refl _

theorem opAssignValue_mono (n : Nat) (σ : State) (cur rhs : SVal) (op : Option (BinaryOp × Loc)) :
    Res.Le (opAssignValue n σ cur rhs op) (opAssignValue (n + 1) σ cur rhs op) := by
  unfold opAssignValue
  split
  · exact Res.Le.refl _
  · exact Res.Le.map _ (applyBinOp_mono _ _ _ _ _ _)

theorem bindNextName_mono (n : Nat) (σ : State) (sc : List Addr) (names : List (List Char)) (name : List Char) (loc : Loc)
    (rhs : SVal) (op : Option (BinaryOp × Loc)) (decl : Bool) :
    Res.Le (bindNextName n σ sc names name loc rhs op decl) (bindNextName (n + 1) σ sc names name loc rhs op decl) := by
  unfold bindNextName
  repeat' first
    | exact Res.Le.refl _
    | (apply Res.Le.bind (applyBinOp_mono _ _ _ _ _ _); intro _ _; exact Res.Le.refl _)
    | split

end Seed
