/-
  C14Routes3.lean — (5) the routes composed, in the style of `C14.stored_method_keeps_this_list`: a function value
  `⟨fa, s⟩` (read as `o.name`, so `s = some (that object)`; or never read from an object, `s = none`) is stored in a
  list `q := [e]` and then reached and called

    * as the item of `for [i, job] in q { job(args); … }`                         (`queue_for_call`),
    * through a spread argument `g(q..)` with `fn g(f) { return f(); }`             (`queue_spread_call`),
    * through `b.hn[0]()` where `b := {"hn": q}` holds that list                  (`queue_handlers_call`);

  each time the body of `fa` runs with `callBindings … s …`: `this` = the object the value was read from BEFORE it
  was stored — not the list, not `b`, not the loop — and no `this` binding at all for `s = none`.  Then the
  whole-program examples through `Seed.run` (lex, parse, evaluate).
-/
import SeedProofs.Lemmas.C14Routes2
import SeedModel.Run
import SeedProofs.Lemmas.C15Utf8
namespace Seed.C14R
open Seed Gen

/-! ## helpers -/

/-- how `evalStmts` continues after a statement -/
def stmtsNext (n : Nat) (sc : List Addr) (rest : List Stmt) (esc : Escape) (σ1 : State) : Res Escape :=
  match esc with
  | .none => evalStmts n σ1 sc rest
  | other => .ok other σ1

theorem evalStmts_cons' (n : Nat) (σ : State) (sc : List Addr) (st : Stmt) (r : List Stmt) :
    evalStmts (n + 1) σ sc (st :: r) = (evalStmt n σ sc st).bind (stmtsNext n sc r) := by
  rw [evalStmts_cons]; rfl

theorem int_index (n : Nat) (σ : State) (sc : List Addr) (k : Nat) (l : Loc) :
    evalToIndex (n + 3) σ sc (.mk (.Int (Int.ofNat k)) l) = .ok k σ := by
  rw [evalToIndex, evalToInt, evalExpr]
  simp [Res.bind, SVal.plain]
  intro h; omega

/-- every key survives the trip through its byte string (as in C15) -/
theorem utf8_rt (cs : List Char) : utf8Decode (utf8Encode cs) = .ok cs := by
  unfold utf8Decode
  rw [C15U.decode_encode_aux cs _ 0 [] (by have := C15U.length_le_encode cs; omega)]
  simp

/-! ## `q := [e]` -/

/-- the state after `q := [e]` in a state `σ1` (the one `e` leaves) whose innermost scope cell `A0` holds `ms`: a new
    list cell (address `σ1.heap.size`) holding `[v]` — `v` the value of `e`, source included — and `q ↦` that list -/
def listDeclared (σ1 : State) (A0 : Addr) (q : List Char) (lx : Loc) (ms : ScopeMap) (v : SVal) : State :=
  (σ1.alloc (.list [v])).2.set A0 (.scope ((q, SVal.plain (.list σ1.heap.size), lx) :: ms))

theorem declare_singleton_list {n : Nat} {σ σ1 : State} {A0 : Addr} {sc' : List Addr} {e : Expr} {v : SVal}
    {ms : ScopeMap} {q : List Char} (lx ll : Loc)
    (he : evalExpr (n + 1) σ (A0 :: sc') e = .ok v σ1) (hq : q ≠ c!"_") (hs : σ1.getScope A0 = some ms)
    (hfresh : scopeLookup q ms = none) :
    evalStmt (n + 4) σ (A0 :: sc') (.Declare (.mk (.Var q) lx) (.mk (.List [.mk e false] false) ll)) =
      .ok .none (listDeclared σ1 A0 q lx ms v) ∧
    (listDeclared σ1 A0 q lx ms v).getScope A0 = some ((q, SVal.plain (.list σ1.heap.size), lx) :: ms) ∧
    scopeGet (listDeclared σ1 A0 q lx ms v) (A0 :: sc') q = some (SVal.plain (.list σ1.heap.size)) ∧
    (listDeclared σ1 A0 q lx ms v).getList σ1.heap.size = some [v] ∧
    (listDeclared σ1 A0 q lx ms v).heap.size = σ1.heap.size + 1 ∧
    (∀ fa fr, σ1.getFunc fa = some fr → (listDeclared σ1 A0 q lx ms v).getFunc fa = some fr) := by
  have hlist : evalExpr (n + 3) σ (A0 :: sc') (.mk (.List [.mk e false] false) ll) =
      .ok (SVal.plain (.list σ1.heap.size)) (σ1.alloc (.list [v])).2 := by
    rw [evalExpr]
    simp only [Bool.false_eq_true, if_false]
    rw [evalListItems_cons_plain, he]
    simp only [Res.bind]
    rw [evalListItems_nil]; rfl
  have hs' : (σ1.alloc (.list [v])).2.getScope A0 = some ms := by
    rw [getScope_eq_some] at hs ⊢
    rw [σ1.alloc_heap_old _ (heap_lt_of_some hs)]; exact hs
  refine ⟨declare_var_stmt lx hlist hq hs' hfresh, getScope_set_same (getScope_lt hs') _,
    scopeGet_declared sc' q _ lx hs', ?_, ?_, fun fa fr h => ?_⟩
  · unfold listDeclared
    rw [getList_set_scope hs']; exact getList_alloc_new σ1 [v]
  · unfold listDeclared
    rw [State.size_set, State.alloc_size]
  · exact funcsStable_good.setScope _ _ ms _ hs' fa fr (funcsStable_good.alloc σ1 _ fa fr h)

/-! ## (5a) the `for` route -/

/-- **`q := [e]; for [i, job] in q { job(args); restBody }; rest`.**  `e` evaluates to the function value `⟨fa, s⟩`.
    In the (only) iteration the call `job(args)` runs `fa`'s body with `callBindings … s …`: the source the value had
    when it was stored in the list. -/
theorem queue_for_call {n : Nat} {σ σ1 σ3 σL : State} {A0 : Addr} {sc' : List Addr} {e : Expr} {fa : Addr}
    {s : Option Val} {ms : ScopeMap} {q : List Char} {args : List ListItem} {argVals : List SVal} {fr : FuncRec}
    (lx ll lq2 : Loc) (i : List Char) (li : Loc) (job : List Char) (lj lp lj2 lc : Loc) (restBody rest : List Stmt)
    (he : evalExpr (n + 1) σ (A0 :: sc') e = .ok ⟨.func fa, s⟩ σ1)
    (hq : q ≠ c!"_") (hs : σ1.getScope A0 = some ms) (hfresh : scopeLookup q ms = none)
    (hjob : job ≠ c!"_") (hij : i ≠ job)
    (hσL : σL = listDeclared σ1 A0 q lx ms ⟨.func fa, s⟩)
    (hargs : evalListItems (n + 3) (forEntry σL i li (SVal.plain (.int 0)) job lj ⟨.func fa, s⟩)
      ((σL.heap.size + 1) :: A0 :: sc') args [] = .ok argVals σ3)
    (hstill : scopeGet σ3 ((σL.heap.size + 1) :: A0 :: sc') job = some ⟨.func fa, s⟩)
    (hfr : σ3.getFunc fa = some fr) (hok : arityOk fr.collect fr.args.length argVals.length = true) :
    evalStmts (n + 12) σ (A0 :: sc')
        (.Declare (.mk (.Var q) lx) (.mk (.List [.mk e false] false) ll) ::
         .For (pairPat i li job lj lp) (.mk (.Var q) lq2)
           (.Expr (.mk (.Call (.mk (.Var job) lj2) args) lc) :: restBody) :: rest) =
      ((((((evalBlock (n + 3) (callPlainVals σ3 fr argVals).2 fr.closure
                (callBindings fr (callPlainVals σ3 fr argVals).1 s lc) fr.stmts).mapErr
              (Err.funcCall fr.name lc)).bind finishCall).bind fun _ σ5 =>
            evalStmts (n + 6) σ5 ((σL.heap.size + 1) :: A0 :: sc') restBody).bind
          (forNext (n + 8) (A0 :: sc') (pairPat i li job lj lp) []
            (.Expr (.mk (.Call (.mk (.Var job) lj2) args) lc) :: restBody))).bind
        (stmtsNext (n + 10) (A0 :: sc') rest)) ∧
    CalleeThis (callPlainVals σ3 fr argVals).2 fr (callPlainVals σ3 fr argVals).1 s lc := by
  subst hσL
  obtain ⟨hd, _, hget, hlst, _, _⟩ := declare_singleton_list lx ll he hq hs hfresh
  have h := for_item_call (n := n + 1) i li job lj lp lj2 lc restBody (src_var lq2 hget) rfl hlst hjob hij hargs hstill
    hfr hok
  refine ⟨?_, h.2⟩
  rw [evalStmts_cons_ok _ (evalStmt_mono hd (by simp) (by omega : n + 4 ≤ n + 11)), evalStmts_cons', h.1]
  rfl

/-- **`q := [o.name]; for [i, job] in q { job(args); … }`: the call runs with `this = a`**, the object `o` evaluated to
    when the method was read — the list it was stored in and the loop it is reached through add and remove nothing -/
theorem stored_method_keeps_this_for {n : Nat} {σ σ1 σ3 σL : State} {A0 : Addr} {sc' : List Addr} {o : Expr} {ov : SVal}
    {a fa : Addr} {m : ObjMap} {name : List Char} {s : Option Val} {ms : ScopeMap} {q : List Char}
    {args : List ListItem} {argVals : List SVal} {fr : FuncRec}
    (lx ll lpr lq2 : Loc) (i : List Char) (li : Loc) (job : List Char) (lj lp lj2 lc : Loc) (restBody rest : List Stmt)
    (ho : evalExpr n σ (A0 :: sc') o = .ok ov σ1) (hov : ov.v = .obj a)
    (hm : σ1.getObj a = some m) (hk : objGet name m = some ⟨.func fa, s⟩)
    (hq : q ≠ c!"_") (hs : σ1.getScope A0 = some ms) (hfresh : scopeLookup q ms = none)
    (hjob : job ≠ c!"_") (hij : i ≠ job)
    (hσL : σL = listDeclared σ1 A0 q lx ms ⟨.func fa, some (.obj a)⟩)
    (hargs : evalListItems (n + 3) (forEntry σL i li (SVal.plain (.int 0)) job lj ⟨.func fa, some (.obj a)⟩)
      ((σL.heap.size + 1) :: A0 :: sc') args [] = .ok argVals σ3)
    (hstill : scopeGet σ3 ((σL.heap.size + 1) :: A0 :: sc') job = some ⟨.func fa, some (.obj a)⟩)
    (hfr : σ3.getFunc fa = some fr) (hok : arityOk fr.collect fr.args.length argVals.length = true) :
    evalStmts (n + 12) σ (A0 :: sc')
        (.Declare (.mk (.Var q) lx) (.mk (.List [.mk (.mk (.Prop o name false) lpr) false] false) ll) ::
         .For (pairPat i li job lj lp) (.mk (.Var q) lq2)
           (.Expr (.mk (.Call (.mk (.Var job) lj2) args) lc) :: restBody) :: rest) =
      ((((((evalBlock (n + 3) (callPlainVals σ3 fr argVals).2 fr.closure
                (callBindings fr (callPlainVals σ3 fr argVals).1 (some (.obj a)) lc) fr.stmts).mapErr
              (Err.funcCall fr.name lc)).bind finishCall).bind fun _ σ5 =>
            evalStmts (n + 6) σ5 ((σL.heap.size + 1) :: A0 :: sc') restBody).bind
          (forNext (n + 8) (A0 :: sc') (pairPat i li job lj lp) []
            (.Expr (.mk (.Call (.mk (.Var job) lj2) args) lc) :: restBody))).bind
        (stmtsNext (n + 10) (A0 :: sc') rest)) ∧
    BodyThis (callPlainVals σ3 fr argVals).2 fr (callPlainVals σ3 fr argVals).1 (some (.obj a)) lc (.obj a) := by
  have h := queue_for_call lx ll lq2 i li job lj lp lj2 lc restBody rest (prop_read_src lpr ho hov hm hk) hq hs hfresh
    hjob hij hσL hargs hstill hfr hok
  exact ⟨h.1, h.2.1 _ rfl⟩

/-! ## (5b) the spread route -/

/-- the state in which the body of `fn g(f) { … }` starts when it is called from `σ2` with the one argument `v` -/
def apEntry (σ2 : State) (f : List Char) (lf : Loc) (v : SVal) : State :=
  (σ2.alloc (.scope [])).2.set σ2.heap.size (.scope [(f, v, lf)])

/-- **`g(args)` with `fn g(f) { return f(); }`** (`g`: any plain function value of exactly that shape) when the argument
    list — however it is written — evaluates to the single value `⟨fa, s⟩`: inside `g` the call `f()` runs `fa`'s body
    with `callBindings … s …`; the result of the whole call is that of the inner call, its error wrapped in `g`'s
    frame. -/
theorem ap_call {k : Nat} {σ σ1 σ2 : State} {sc clo : List Addr} {g : Expr} {args : List ListItem} {fa pa : Addr}
    {f : List Char} {s : Option Val} {fr : FuncRec} {apName : Option (List Char)} (lf lr lf2 lc2 loc : Loc)
    (hargs : evalListItems (k + 6) σ sc args [] = .ok [⟨.func fa, s⟩] σ1)
    (hg : evalExpr (k + 6) σ1 sc g = .ok ⟨.func pa, none⟩ σ2)
    (hap : σ2.getFunc pa =
      some ⟨apName, [.mk (.Var f) lf], false, [.Return lr (.mk (.Call (.mk (.Var f) lf2) []) lc2)], clo⟩)
    (hf : f ≠ c!"_") (hfr : σ2.getFunc fa = some fr) (hok : arityOk fr.collect fr.args.length 0 = true) :
    evalCall (k + 7) σ sc g args loc =
      (((evalBlock (k + 1) (callPlainVals (apEntry σ2 f lf ⟨.func fa, s⟩) fr []).2 fr.closure
            (callBindings fr (callPlainVals (apEntry σ2 f lf ⟨.func fa, s⟩) fr []).1 s lc2) fr.stmts).mapErr
          (Err.funcCall fr.name lc2)).bind finishCall).mapErr (Err.funcCall apName loc) ∧
    CalleeThis (callPlainVals (apEntry σ2 f lf ⟨.func fa, s⟩) fr []).2 fr
      (callPlainVals (apEntry σ2 f lf ⟨.func fa, s⟩) fr []).1 s lc2 := by
  refine ⟨?_, calleeThis _ _ _ _ _⟩
  have hsA : (σ2.alloc (.scope [])).2.getScope σ2.heap.size = some [] := getScope_eq_some.mpr (σ2.alloc_heap_new _)
  have hfr3 : (apEntry σ2 f lf ⟨.func fa, s⟩).getFunc fa = some fr :=
    funcsStable_good.setScope _ _ [] _ hsA fa fr (funcsStable_good.alloc σ2 _ fa fr hfr)
  have hcall := evalCall_func_ok lc2
    (evalListItems_nil k (apEntry σ2 f lf ⟨.func fa, s⟩) (σ2.heap.size :: clo) [])
    (src_var (n := k) lf2 (scopeGet_declared clo f ⟨.func fa, s⟩ lf hsA)) rfl hfr3 hok
  suffices H : ∀ X : Res SVal,
      evalCall (k + 2) (apEntry σ2 f lf ⟨.func fa, s⟩) (σ2.heap.size :: clo) (.mk (.Var f) lf2) [] lc2 = X →
      evalCall (k + 7) σ sc g args loc = X.mapErr (Err.funcCall apName loc) from
    H _ hcall
  intro X hX
  rw [evalCall_func_ok loc hargs hg rfl hap (by rfl)]
  rw [callPlainVals_no_rest _ rfl]
  simp only [callBindings, List.zip_cons_cons, List.zip_nil_left]
  rw [evalBlock_succ, declareAll_cons, bindNext_var,
    bindNextName_declare lf _ hf (by simp) hsA (by rfl)]
  simp only [Res.bind]
  rw [declareAll_nil]
  simp only []
  rw [evalStmts_cons, evalStmt, evalExpr]
  show ((((evalCall (k + 2) (apEntry σ2 f lf ⟨.func fa, s⟩) (σ2.heap.size :: clo) (.mk (.Var f) lf2) [] lc2).bind
    _).bind _).mapErr _).bind _ = _
  rw [hX]
  cases X <;> rfl

/-- **`g(e..)`** where `e` is a list holding the one item `⟨fa, s⟩`: the parameter gets the stored item, and `f()`
    inside runs with the item's stored source -/
theorem spread_arg_call {k : Nat} {σ σ1 σ2 : State} {sc clo : List Addr} {g e : Expr} {lv : SVal} {a fa pa : Addr}
    {f : List Char} {s : Option Val} {fr : FuncRec} {apName : Option (List Char)} (lf lr lf2 lc2 loc : Loc)
    (he : evalExpr (k + 5) σ sc e = .ok lv σ1) (hlv : lv.v = .list a) (hl : σ1.getList a = some [⟨.func fa, s⟩])
    (hg : evalExpr (k + 6) σ1 sc g = .ok ⟨.func pa, none⟩ σ2)
    (hap : σ2.getFunc pa =
      some ⟨apName, [.mk (.Var f) lf], false, [.Return lr (.mk (.Call (.mk (.Var f) lf2) []) lc2)], clo⟩)
    (hf : f ≠ c!"_") (hfr : σ2.getFunc fa = some fr) (hok : arityOk fr.collect fr.args.length 0 = true) :
    evalCall (k + 7) σ sc g [.mk e true] loc =
      (((evalBlock (k + 1) (callPlainVals (apEntry σ2 f lf ⟨.func fa, s⟩) fr []).2 fr.closure
            (callBindings fr (callPlainVals (apEntry σ2 f lf ⟨.func fa, s⟩) fr []).1 s lc2) fr.stmts).mapErr
          (Err.funcCall fr.name lc2)).bind finishCall).mapErr (Err.funcCall apName loc) ∧
    CalleeThis (callPlainVals (apEntry σ2 f lf ⟨.func fa, s⟩) fr []).2 fr
      (callPlainVals (apEntry σ2 f lf ⟨.func fa, s⟩) fr []).1 s lc2 :=
  ap_call lf lr lf2 lc2 loc (by simpa using spread_last [] he hlv hl) hg hap hf hfr hok

/-- **`q := [e]; g(q..); rest`** -/
theorem queue_spread_call {n : Nat} {σ σ1 σ2 σL : State} {A0 : Addr} {sc' clo : List Addr} {e g : Expr} {fa pa : Addr}
    {s : Option Val} {ms : ScopeMap} {q f : List Char} {fr : FuncRec} {apName : Option (List Char)}
    (lx ll lq2 lf lr lf2 lc2 lc : Loc) (rest : List Stmt)
    (he : evalExpr (n + 1) σ (A0 :: sc') e = .ok ⟨.func fa, s⟩ σ1)
    (hq : q ≠ c!"_") (hs : σ1.getScope A0 = some ms) (hfresh : scopeLookup q ms = none)
    (hσL : σL = listDeclared σ1 A0 q lx ms ⟨.func fa, s⟩)
    (hg : evalExpr (n + 6) σL (A0 :: sc') g = .ok ⟨.func pa, none⟩ σ2)
    (hap : σ2.getFunc pa =
      some ⟨apName, [.mk (.Var f) lf], false, [.Return lr (.mk (.Call (.mk (.Var f) lf2) []) lc2)], clo⟩)
    (hf : f ≠ c!"_") (hfr : σ2.getFunc fa = some fr) (hok : arityOk fr.collect fr.args.length 0 = true) :
    evalStmts (n + 11) σ (A0 :: sc')
        (.Declare (.mk (.Var q) lx) (.mk (.List [.mk e false] false) ll) ::
         .Expr (.mk (.Call g [.mk (.mk (.Var q) lq2) true]) lc) :: rest) =
      (((((evalBlock (n + 1) (callPlainVals (apEntry σ2 f lf ⟨.func fa, s⟩) fr []).2 fr.closure
              (callBindings fr (callPlainVals (apEntry σ2 f lf ⟨.func fa, s⟩) fr []).1 s lc2) fr.stmts).mapErr
            (Err.funcCall fr.name lc2)).bind finishCall).mapErr (Err.funcCall apName lc)).bind fun _ σ5 =>
        evalStmts (n + 9) σ5 (A0 :: sc') rest) ∧
    CalleeThis (callPlainVals (apEntry σ2 f lf ⟨.func fa, s⟩) fr []).2 fr
      (callPlainVals (apEntry σ2 f lf ⟨.func fa, s⟩) fr []).1 s lc2 := by
  subst hσL
  obtain ⟨hd, _, hget, hlst, _, _⟩ := declare_singleton_list lx ll he hq hs hfresh
  have h := spread_arg_call (k := n) lf lr lf2 lc2 lc (src_var (n := n + 4) lq2 hget) rfl hlst hg hap hf hfr hok
  refine ⟨?_, h.2⟩
  rw [evalStmts_cons_ok _ (evalStmt_mono hd (by simp) (by omega : n + 4 ≤ n + 10)), call_stmt_then, h.1]

/-- **`q := [o.name]; g(q..)` with `fn g(f) { return f(); }`: `f()` runs with `this = a`** -/
theorem stored_method_keeps_this_spread {n : Nat} {σ σ1 σ2 σL : State} {A0 : Addr} {sc' clo : List Addr} {o g : Expr}
    {ov : SVal} {a fa pa : Addr} {m : ObjMap} {name : List Char} {s : Option Val} {ms : ScopeMap} {q f : List Char}
    {fr : FuncRec} {apName : Option (List Char)} (lx ll lpr lq2 lf lr lf2 lc2 lc : Loc) (rest : List Stmt)
    (ho : evalExpr n σ (A0 :: sc') o = .ok ov σ1) (hov : ov.v = .obj a)
    (hm : σ1.getObj a = some m) (hk : objGet name m = some ⟨.func fa, s⟩)
    (hq : q ≠ c!"_") (hs : σ1.getScope A0 = some ms) (hfresh : scopeLookup q ms = none)
    (hσL : σL = listDeclared σ1 A0 q lx ms ⟨.func fa, some (.obj a)⟩)
    (hg : evalExpr (n + 6) σL (A0 :: sc') g = .ok ⟨.func pa, none⟩ σ2)
    (hap : σ2.getFunc pa =
      some ⟨apName, [.mk (.Var f) lf], false, [.Return lr (.mk (.Call (.mk (.Var f) lf2) []) lc2)], clo⟩)
    (hf : f ≠ c!"_") (hfr : σ2.getFunc fa = some fr) (hok : arityOk fr.collect fr.args.length 0 = true) :
    evalStmts (n + 11) σ (A0 :: sc')
        (.Declare (.mk (.Var q) lx) (.mk (.List [.mk (.mk (.Prop o name false) lpr) false] false) ll) ::
         .Expr (.mk (.Call g [.mk (.mk (.Var q) lq2) true]) lc) :: rest) =
      (((((evalBlock (n + 1) (callPlainVals (apEntry σ2 f lf ⟨.func fa, some (.obj a)⟩) fr []).2 fr.closure
              (callBindings fr (callPlainVals (apEntry σ2 f lf ⟨.func fa, some (.obj a)⟩) fr []).1 (some (.obj a)) lc2)
              fr.stmts).mapErr
            (Err.funcCall fr.name lc2)).bind finishCall).mapErr (Err.funcCall apName lc)).bind fun _ σ5 =>
        evalStmts (n + 9) σ5 (A0 :: sc') rest) ∧
    BodyThis (callPlainVals (apEntry σ2 f lf ⟨.func fa, some (.obj a)⟩) fr []).2 fr
      (callPlainVals (apEntry σ2 f lf ⟨.func fa, some (.obj a)⟩) fr []).1 (some (.obj a)) lc2 (.obj a) := by
  have h := queue_spread_call lx ll lq2 lf lr lf2 lc2 lc rest (prop_read_src lpr ho hov hm hk) hq hs hfresh hσL hg hap
    hf hfr hok
  exact ⟨h.1, h.2.1 _ rfl⟩

/-! ## (5c) the `b.handlers[0]` route -/

/-- the state after `b := {"hn": q}` in a state `σL` whose innermost scope cell `A0` holds `msL` and where `q` is `lv`:
    a new object cell (address `σL.heap.size`) holding `hn ↦ lv` and `b ↦` that object -/
def objDeclared (σL : State) (A0 : Addr) (b : List Char) (lb : Loc) (msL : ScopeMap) (hn : List Char) (lv : SVal) :
    State :=
  (σL.alloc (.obj [(hn, lv)])).2.set A0 (.scope ((b, SVal.plain (.obj σL.heap.size), lb) :: msL))

theorem declare_object_pair {n : Nat} {σL : State} {A0 : Addr} {sc' : List Addr} {q b hn : List Char} {lv : SVal}
    {msL : ScopeMap} (lb lo lk lq2 : Loc)
    (hqv : scopeGet σL (A0 :: sc') q = some lv) (hb : b ≠ c!"_") (hsL : σL.getScope A0 = some msL)
    (hbfresh : scopeLookup b msL = none) :
    evalStmt (n + 5) σL (A0 :: sc')
        (.Declare (.mk (.Var b) lb) (.mk (.Object [.Pair (.mk (.Str hn none) lk) (.mk (.Var q) lq2)]) lo)) =
      .ok .none (objDeclared σL A0 b lb msL hn lv) ∧
    scopeGet (objDeclared σL A0 b lb msL hn lv) (A0 :: sc') b = some (SVal.plain (.obj σL.heap.size)) ∧
    (objDeclared σL A0 b lb msL hn lv).getObj σL.heap.size = some [(hn, lv)] ∧
    (∀ a xs, σL.getList a = some xs → (objDeclared σL A0 b lb msL hn lv).getList a = some xs) ∧
    (∀ fa fr, σL.getFunc fa = some fr → (objDeclared σL A0 b lb msL hn lv).getFunc fa = some fr) := by
  have hobj : evalExpr (n + 4) σL (A0 :: sc') (.mk (.Object [.Pair (.mk (.Str hn none) lk) (.mk (.Var q) lq2)]) lo) =
      .ok (SVal.plain (.obj σL.heap.size)) (σL.alloc (.obj [(hn, lv)])).2 := by
    rw [evalExpr, evalProps, evalToStr, evalExpr]
    simp only [Res.bind, SVal.plain, utf8_rt hn]
    rw [src_var lq2 hqv]
    simp only []
    rw [evalProps]
    rfl
  have hs' : (σL.alloc (.obj [(hn, lv)])).2.getScope A0 = some msL := by
    rw [getScope_eq_some] at hsL ⊢
    rw [σL.alloc_heap_old _ (heap_lt_of_some hsL)]; exact hsL
  refine ⟨declare_var_stmt lb hobj hb hs' hbfresh, scopeGet_declared sc' b _ lb hs', ?_, fun a xs h => ?_,
    fun fa fr h => ?_⟩
  · unfold objDeclared
    rw [getObj_set_scope hs', getObj_eq_some]; exact σL.alloc_heap_new _
  · unfold objDeclared
    rw [getList_set_scope hs']; exact getList_alloc_old _ h
  · exact funcsStable_good.setScope _ _ msL _ hs' fa fr (funcsStable_good.alloc σL _ fa fr h)

/-- **`q := [e]; b := {"hn": q}; b.hn[0](); rest`.**  `e` evaluates to the function value `⟨fa, s⟩`.  The call runs
    `fa`'s body with `callBindings … s …`, from the state `σO` the two declarations leave: NOT with `this = b`, although
    the callee expression starts with a property read on `b` (that read gives the LIST the source `b`; the list does
    not pass it on, `index_list_through_prop`). -/
theorem queue_handlers_call {n : Nat} {σ σ1 σL σO : State} {A0 : Addr} {sc' : List Addr} {e : Expr} {fa : Addr}
    {s : Option Val} {ms : ScopeMap} {q b hn : List Char} {fr : FuncRec}
    (lx ll lq2 lb lo lk lb2 lp l0 li lc : Loc) (rest : List Stmt)
    (he : evalExpr (n + 1) σ (A0 :: sc') e = .ok ⟨.func fa, s⟩ σ1)
    (hq : q ≠ c!"_") (hs : σ1.getScope A0 = some ms) (hfresh : scopeLookup q ms = none)
    (hb : b ≠ c!"_") (hbq : b ≠ q) (hbfresh : scopeLookup b ms = none)
    (hfr : σ1.getFunc fa = some fr) (hok : arityOk fr.collect fr.args.length 0 = true)
    (hσL : σL = listDeclared σ1 A0 q lx ms ⟨.func fa, s⟩)
    (hσO : σO = objDeclared σL A0 b lb ((q, SVal.plain (.list σ1.heap.size), lx) :: ms) hn
      (SVal.plain (.list σ1.heap.size))) :
    evalStmts (n + 10) σ (A0 :: sc')
        (.Declare (.mk (.Var q) lx) (.mk (.List [.mk e false] false) ll) ::
         .Declare (.mk (.Var b) lb) (.mk (.Object [.Pair (.mk (.Str hn none) lk) (.mk (.Var q) lq2)]) lo) ::
         .Expr (.mk (.Call (.mk (.Index (.mk (.Prop (.mk (.Var b) lb2) hn false) lp) (.mk (.Int 0) l0)) li) []) lc) ::
         rest) =
      ((((evalBlock (n + 4) (callPlainVals σO fr []).2 fr.closure
            (callBindings fr (callPlainVals σO fr []).1 s lc) fr.stmts).mapErr
          (Err.funcCall fr.name lc)).bind finishCall).bind fun _ σ5 => evalStmts (n + 7) σ5 (A0 :: sc') rest) ∧
    CalleeThis (callPlainVals σO fr []).2 fr (callPlainVals σO fr []).1 s lc := by
  subst hσL
  obtain ⟨hd, hscL, hget, hlst, _, hfnL⟩ := declare_singleton_list lx ll he hq hs hfresh
  have hbf : scopeLookup b ((q, SVal.plain (.list σ1.heap.size), lx) :: ms) = none := by
    rw [scopeLookup_cons_ne hbq]; exact hbfresh
  obtain ⟨hd2, hgetb, hobj, hlists, hfnO⟩ :=
    declare_object_pair (n := n) (sc' := sc') (hn := hn) lb lo lk lq2 hget hb hscL hbf
  rw [← hσO] at hd2 hgetb hobj hlists hfnO
  have hcall := call_handlers_item (n := n + 2) (argVals := []) (name := hn) (i := 0) (s := s)
    (hv := SVal.plain (.list σ1.heap.size)) lp li lc
    (evalListItems_nil (n + 3) σO (A0 :: sc') []) (src_var (n := n + 1) lb2 hgetb) rfl hobj
    (by simp [objGet]) rfl (int_index n σO (A0 :: sc') 0 l0) (hlists _ _ hlst) rfl (hfnO _ _ (hfnL _ _ hfr)) hok
  refine ⟨?_, hcall.2⟩
  rw [evalStmts_cons_ok _ (evalStmt_mono hd (by simp) (by omega : n + 4 ≤ n + 9)),
    evalStmts_cons_ok _ (evalStmt_mono hd2 (by simp) (by omega : n + 5 ≤ n + 8)), call_stmt_then]
  exact congrArg (fun r : Res SVal => r.bind fun _ σ5 => evalStmts (n + 7) σ5 (A0 :: sc') rest) hcall.1

/-- **`q := [o.name]; b := {"hn": q}; b.hn[0]()` runs with `this = a`** — the object the method was read from — **not
    `b`** -/
theorem stored_method_keeps_this_handlers {n : Nat} {σ σ1 σL σO : State} {A0 : Addr} {sc' : List Addr} {o : Expr}
    {ov : SVal} {a fa : Addr} {m : ObjMap} {name : List Char} {s : Option Val} {ms : ScopeMap} {q b hn : List Char}
    {fr : FuncRec} (lx ll lpr lq2 lb lo lk lb2 lp l0 li lc : Loc) (rest : List Stmt)
    (ho : evalExpr n σ (A0 :: sc') o = .ok ov σ1) (hov : ov.v = .obj a)
    (hm : σ1.getObj a = some m) (hk : objGet name m = some ⟨.func fa, s⟩)
    (hq : q ≠ c!"_") (hs : σ1.getScope A0 = some ms) (hfresh : scopeLookup q ms = none)
    (hb : b ≠ c!"_") (hbq : b ≠ q) (hbfresh : scopeLookup b ms = none)
    (hfr : σ1.getFunc fa = some fr) (hok : arityOk fr.collect fr.args.length 0 = true)
    (hσL : σL = listDeclared σ1 A0 q lx ms ⟨.func fa, some (.obj a)⟩)
    (hσO : σO = objDeclared σL A0 b lb ((q, SVal.plain (.list σ1.heap.size), lx) :: ms) hn
      (SVal.plain (.list σ1.heap.size))) :
    evalStmts (n + 10) σ (A0 :: sc')
        (.Declare (.mk (.Var q) lx) (.mk (.List [.mk (.mk (.Prop o name false) lpr) false] false) ll) ::
         .Declare (.mk (.Var b) lb) (.mk (.Object [.Pair (.mk (.Str hn none) lk) (.mk (.Var q) lq2)]) lo) ::
         .Expr (.mk (.Call (.mk (.Index (.mk (.Prop (.mk (.Var b) lb2) hn false) lp) (.mk (.Int 0) l0)) li) []) lc) ::
         rest) =
      ((((evalBlock (n + 4) (callPlainVals σO fr []).2 fr.closure
            (callBindings fr (callPlainVals σO fr []).1 (some (.obj a)) lc) fr.stmts).mapErr
          (Err.funcCall fr.name lc)).bind finishCall).bind fun _ σ5 => evalStmts (n + 7) σ5 (A0 :: sc') rest) ∧
    BodyThis (callPlainVals σO fr []).2 fr (callPlainVals σO fr []).1 (some (.obj a)) lc (.obj a) := by
  have h := queue_handlers_call lx ll lq2 lb lo lk lb2 lp l0 li lc rest (prop_read_src lpr ho hov hm hk) hq hs hfresh hb
    hbq hbfresh hfr hok hσL hσO
  exact ⟨h.1, h.2.1 _ rfl⟩

/-- **a function that was never read from an object** (`e` evaluates to `⟨fa, none⟩`: the name of a `fn` statement, a
    function literal), **stored in `b.hn` and called as `b.hn[0]()`, has no `this` of its own**: the binding list is
    parameters × values — `b` is not bound as `this` — and (for parameter patterns that do not themselves bind the
    name) `this` resolves through the closure chain only in the state the body starts in -/
theorem plain_function_in_handlers_has_no_this {n : Nat} {σ σ1 σL σO : State} {A0 : Addr} {sc' : List Addr} {e : Expr}
    {fa : Addr} {ms : ScopeMap} {q b hn : List Char} {fr : FuncRec}
    (lx ll lq2 lb lo lk lb2 lp l0 li lc : Loc) (rest : List Stmt)
    (he : evalExpr (n + 1) σ (A0 :: sc') e = .ok ⟨.func fa, none⟩ σ1)
    (hq : q ≠ c!"_") (hs : σ1.getScope A0 = some ms) (hfresh : scopeLookup q ms = none)
    (hb : b ≠ c!"_") (hbq : b ≠ q) (hbfresh : scopeLookup b ms = none)
    (hfr : σ1.getFunc fa = some fr) (hok : arityOk fr.collect fr.args.length 0 = true)
    (hσL : σL = listDeclared σ1 A0 q lx ms ⟨.func fa, none⟩)
    (hσO : σO = objDeclared σL A0 b lb ((q, SVal.plain (.list σ1.heap.size), lx) :: ms) hn
      (SVal.plain (.list σ1.heap.size))) :
    evalStmts (n + 10) σ (A0 :: sc')
        (.Declare (.mk (.Var q) lx) (.mk (.List [.mk e false] false) ll) ::
         .Declare (.mk (.Var b) lb) (.mk (.Object [.Pair (.mk (.Str hn none) lk) (.mk (.Var q) lq2)]) lo) ::
         .Expr (.mk (.Call (.mk (.Index (.mk (.Prop (.mk (.Var b) lb2) hn false) lp) (.mk (.Int 0) l0)) li) []) lc) ::
         rest) =
      ((((evalBlock (n + 4) (callPlainVals σO fr []).2 fr.closure (fr.args.zip (callPlainVals σO fr []).1)
            fr.stmts).mapErr
          (Err.funcCall fr.name lc)).bind finishCall).bind fun _ σ5 => evalStmts (n + 7) σ5 (A0 :: sc') rest) ∧
    ((∀ p ∈ fr.args, c!"this" ∉ patVars p) → ∀ k σb,
      declareAll k ((callPlainVals σO fr []).2.alloc (.scope [])).2 ((callPlainVals σO fr []).2.heap.size :: fr.closure)
          (fr.args.zip (callPlainVals σO fr []).1) = .ok () σb →
      scopeGet σb ((callPlainVals σO fr []).2.heap.size :: fr.closure) c!"this" = scopeGet σb fr.closure c!"this" ∧
      (scopeGet σb fr.closure c!"this" = none → ∀ j l,
        evalExpr (j + 1) σb ((callPlainVals σO fr []).2.heap.size :: fr.closure) (.mk (.Var c!"this") l) =
          errAt l (Leaf.Undefined c!"this") σb)) := by
  have h := queue_handlers_call lx ll lq2 lb lo lk lb2 lp l0 li lc rest he hq hs hfresh hb hbq hbfresh hfr hok
    hσL hσO
  exact ⟨h.1, (h.2.2 rfl).2⟩

/-! ## examples for the composed theorems -/

def msE : ScopeMap :=
  [(c!"who", SVal.plain (.func 1), (1, 3)), (c!"a", SVal.plain (.obj 2), (2, 0)), (c!"ap", SVal.plain (.func 3), (2, 3))]

def objA : ObjMap := [(c!"name", SVal.plain (.str (utf8Encode c!"a"))), (c!"who", ⟨.func 1, none⟩)]

/-- scope 0: `who ↦ func 1` (`fn who() { return this.name; }`), `a ↦ object 2` (`{"name": "a", "who": who}`),
    `ap ↦ func 3` (`fn ap(f) { return f(); }`) -/
def σe : State := ⟨#[.scope msE, .func frWho, .obj objA, .func frAp], []⟩

def eA : Expr := .mk (.Var c!"a") (4, 10)
def eWho : Expr := .mk (.Var c!"who") (4, 10)

/-- after `queue := [a.who]`: cell 4 = `[⟨who, some a⟩]` -/
def σLe : State := listDeclared σe 0 c!"queue" (4, 0) msE ⟨.func 1, some (.obj 2)⟩
/-- … and the state the body of `for [_, job] in queue` starts in: cells 5 (`[0, ⟨who, some a⟩]`) and 6 (`job ↦ ⟨who, some a⟩`) -/
def σFe : State := forEntry σLe c!"_" (5, 5) (SVal.plain (.int 0)) c!"job" (5, 8) ⟨.func 1, some (.obj 2)⟩

/-- `queue := [a.who]; for [_, job] in queue { job(); }` — `who` runs with `this := a` (object 2) -/
example :
    evalStmts 13 σe [0]
        [.Declare (.mk (.Var c!"queue") (4, 0)) (.mk (.List [.mk (.mk (.Prop eA c!"who" false) (4, 11)) false] false) (4, 9)),
         .For (pairPat c!"_" (5, 5) c!"job" (5, 8) (5, 4)) (.mk (.Var c!"queue") (5, 16))
           [.Expr (.mk (.Call (.mk (.Var c!"job") (5, 24)) []) (5, 27))]] =
      ((((((evalBlock 4 σFe [0] [(.mk (.Var c!"this") (5, 27), SVal.plain (.obj 2))] frWho.stmts).mapErr
              (Err.funcCall (some c!"who") (5, 27))).bind finishCall).bind fun _ σ5 =>
            evalStmts 7 σ5 [6, 0] []).bind
          (forNext 9 [0] (pairPat c!"_" (5, 5) c!"job" (5, 8) (5, 4)) []
            [.Expr (.mk (.Call (.mk (.Var c!"job") (5, 24)) []) (5, 27))])).bind
        (stmtsNext 11 [0] [])) ∧
    BodyThis σFe frWho [] (some (.obj 2)) (5, 27) (.obj 2) :=
  stored_method_keeps_this_for (n := 1) (σ1 := σe) (σ3 := σFe) (σL := σLe) (ov := SVal.plain (.obj 2)) (a := 2) (fa := 1)
    (m := objA) (s := none) (ms := msE) (argVals := []) (fr := frWho)
    (4, 0) (4, 9) (4, 11) (5, 16) c!"_" (5, 5) c!"job" (5, 8) (5, 4) (5, 24) (5, 27) [] []
    (by with_unfolding_all rfl) rfl (by rfl) (by decide) (by decide) (by rfl) (by decide) (by decide) (by decide) rfl
    (by with_unfolding_all rfl) (by rfl) (by rfl) (by decide)

/-- `queue := [a.who]; ap(queue..);` — inside `ap`, `f()` runs `who` with `this := a` -/
example :
    evalStmts 12 σe [0]
        [.Declare (.mk (.Var c!"queue") (4, 0)) (.mk (.List [.mk (.mk (.Prop eA c!"who" false) (4, 11)) false] false) (4, 9)),
         .Expr (.mk (.Call (.mk (.Var c!"ap") (5, 0)) [.mk (.mk (.Var c!"queue") (5, 3)) true]) (5, 2))] =
      (((((evalBlock 2 (apEntry σLe c!"f" (2, 6) ⟨.func 1, some (.obj 2)⟩) [0]
              [(.mk (.Var c!"this") (2, 19), SVal.plain (.obj 2))] frWho.stmts).mapErr
            (Err.funcCall (some c!"who") (2, 19))).bind finishCall).mapErr (Err.funcCall (some c!"ap") (5, 2))).bind
        fun _ σ5 => evalStmts 10 σ5 [0] []) ∧
    BodyThis (apEntry σLe c!"f" (2, 6) ⟨.func 1, some (.obj 2)⟩) frWho [] (some (.obj 2)) (2, 19) (.obj 2) :=
  stored_method_keeps_this_spread (n := 1) (σ1 := σe) (σ2 := σLe) (σL := σLe) (ov := SVal.plain (.obj 2)) (a := 2)
    (fa := 1) (pa := 3) (m := objA) (s := none) (ms := msE) (fr := frWho) (clo := [0]) (apName := some c!"ap")
    (4, 0) (4, 9) (4, 11) (5, 3) (2, 6) (2, 11) (2, 18) (2, 19) (5, 2) []
    (by with_unfolding_all rfl) rfl (by rfl) (by decide) (by decide) (by rfl) (by decide) rfl
    (by with_unfolding_all rfl) (by rfl) (by decide) (by rfl) (by decide)

/-- after `b := {"handlers": queue}`: cell 5 = `{"handlers": list 4}` -/
def σOe : State :=
  objDeclared σLe 0 c!"b" (5, 0) ((c!"queue", SVal.plain (.list 4), (4, 0)) :: msE) c!"handlers" (SVal.plain (.list 4))

/-- `queue := [a.who]; b := {"handlers": queue}; b.handlers[0]();` — `who` runs with `this := a` (object 2), not `b`
    (object 5) -/
example :
    evalStmts 11 σe [0]
        [.Declare (.mk (.Var c!"queue") (4, 0)) (.mk (.List [.mk (.mk (.Prop eA c!"who" false) (4, 11)) false] false) (4, 9)),
         .Declare (.mk (.Var c!"b") (5, 0))
           (.mk (.Object [.Pair (.mk (.Str c!"handlers" none) (5, 6)) (.mk (.Var c!"queue") (5, 18))]) (5, 5)),
         .Expr (.mk (.Call (.mk (.Index (.mk (.Prop (.mk (.Var c!"b") (6, 0)) c!"handlers" false) (6, 1))
           (.mk (.Int 0) (6, 11))) (6, 10)) []) (6, 13))] =
      ((((evalBlock 5 σOe [0] [(.mk (.Var c!"this") (6, 13), SVal.plain (.obj 2))] frWho.stmts).mapErr
          (Err.funcCall (some c!"who") (6, 13))).bind finishCall).bind fun _ σ5 => evalStmts 8 σ5 [0] []) ∧
    BodyThis σOe frWho [] (some (.obj 2)) (6, 13) (.obj 2) :=
  stored_method_keeps_this_handlers (n := 1) (σ1 := σe) (σL := σLe) (σO := σOe) (ov := SVal.plain (.obj 2)) (a := 2)
    (fa := 1) (m := objA) (s := none) (ms := msE) (fr := frWho)
    (4, 0) (4, 9) (4, 11) (5, 18) (5, 0) (5, 5) (5, 6) (6, 0) (6, 1) (6, 11) (6, 10) (6, 13) []
    (by with_unfolding_all rfl) rfl (by rfl) (by decide) (by decide) (by rfl) (by decide) (by decide) (by decide)
    (by decide) (by rfl) (by decide) rfl rfl

/-- `queue := [who]; b := {"handlers": queue}; b.handlers[0]();` — `who` was never read from an object: its body runs
    with NO binding (`[]`), `b` is not its `this` -/
example :
    evalStmts 11 σe [0]
        [.Declare (.mk (.Var c!"queue") (4, 0)) (.mk (.List [.mk eWho false] false) (4, 9)),
         .Declare (.mk (.Var c!"b") (5, 0))
           (.mk (.Object [.Pair (.mk (.Str c!"handlers" none) (5, 6)) (.mk (.Var c!"queue") (5, 18))]) (5, 5)),
         .Expr (.mk (.Call (.mk (.Index (.mk (.Prop (.mk (.Var c!"b") (6, 0)) c!"handlers" false) (6, 1))
           (.mk (.Int 0) (6, 11))) (6, 10)) []) (6, 13))] =
      ((((evalBlock 5
            (objDeclared (listDeclared σe 0 c!"queue" (4, 0) msE ⟨.func 1, none⟩) 0 c!"b" (5, 0)
              ((c!"queue", SVal.plain (.list 4), (4, 0)) :: msE) c!"handlers" (SVal.plain (.list 4)))
            [0] [] frWho.stmts).mapErr
          (Err.funcCall (some c!"who") (6, 13))).bind finishCall).bind fun _ σ5 => evalStmts 8 σ5 [0] []) :=
  (plain_function_in_handlers_has_no_this (n := 1) (σ1 := σe) (fa := 1) (ms := msE) (fr := frWho)
    (4, 0) (4, 9) (5, 18) (5, 0) (5, 5) (5, 6) (6, 0) (6, 1) (6, 11) (6, 10) (6, 13) []
    (by with_unfolding_all rfl) (by decide) (by rfl) (by decide) (by decide) (by decide) (by decide)
    (by rfl) (by decide) rfl rfl).1

/-! ## whole programs (`run`: lex, parse, evaluate) -/

def progWho : List Char := c!"fn who() { return this.name; }\na := {\"name\": \"a\", \"who\": who};\n"

/-- (1) `b.handlers[0]()`: the list was read from `b`, the item keeps the source `a` it was stored with — through `.` and
    through `["…"]` -/
example : (run 100 c!"t.sd" (progWho ++
    c!"queue := [a.who];\nb := {\"name\": \"b\", \"handlers\": queue};\nprint(b.handlers[0]());\nprint(b[\"handlers\"][0]());\n")).out =
    [c!"a", c!"a"] := by decide +kernel

/-- (1) a function never read from an object, stored in `b.handlers`, has no `this` (it is not `b`) -/
example : (run 100 c!"t.sd" (progWho ++ c!"b := {\"name\": \"b\", \"handlers\": [who]};\nprint(b.handlers[0]());\n")).stderr =
    c!"t.sd:1:19: in 'who': 'this' is not defined\nStacktrace:\n  t.sd:4:7: in '<root>'\n" := by decide +kernel

/-- (2) through a spread argument and a spread list item -/
example : (run 100 c!"t.sd" (progWho ++
    c!"queue := [a.who];\nfn ap(f) { return f(); }\nprint(ap(queue..));\nxs := [queue..];\nprint(xs[0]());\n")).out =
    [c!"a", c!"a"] := by decide +kernel

/-- (3) as the item of a `for` loop -/
example : (run 100 c!"t.sd" (progWho ++ c!"queue := [a.who];\nfor [_, job] in queue { print(job()); }\n")).out =
    [c!"a"] := by decide +kernel

/-- (3) each item with its own source; the third (never read from an object) with none -/
example : (run 100 c!"t.sd" (progWho ++
    c!"c := {\"name\": \"c\", \"who\": who};\nqueue := [a.who, c.who, who];\nfor [i, job] in queue { print(job()); }\n")).out =
      [c!"a", c!"c"] ∧
    (run 100 c!"t.sd" (progWho ++
    c!"c := {\"name\": \"c\", \"who\": who};\nqueue := [a.who, c.who, who];\nfor [i, job] in queue { print(job()); }\n")).stderr =
      c!"t.sd:1:19: in 'who': 'this' is not defined\nStacktrace:\n  t.sd:5:31: in '<root>'\n" := by decide +kernel

/-- the hypotheses `i ≠ job` (of the `for` theorems) and `b ≠ q` (of the `handlers` theorems) are needed: without them the
    program stops before any call -/
example : (run 100 c!"t.sd" (progWho ++ c!"queue := [a.who];\nfor [job, job] in queue { print(job()); }\n")).stderr =
      c!"t.sd:4:11: 'job' is bound multiple times in this binding\n" ∧
    (run 100 c!"t.sd" (progWho ++
      c!"queue := [a.who];\nqueue := {\"handlers\": queue};\nprint(queue.handlers[0]());\n")).stderr =
      c!"t.sd:4:1: 'queue' is already defined in the current scope at [3:1]\n" := by decide +kernel

/-- (4) through a range read -/
example : (run 100 c!"t.sd" (progWho ++ c!"queue := [who, a.who];\nprint(queue[1:][0]());\nprint(queue[:1][0]());\n")).out =
      [c!"a"] ∧
    (run 100 c!"t.sd" (progWho ++ c!"queue := [who, a.who];\nprint(queue[1:][0]());\nprint(queue[:1][0]());\n")).stderr =
      c!"t.sd:1:19: in 'who': 'this' is not defined\nStacktrace:\n  t.sd:5:7: in '<root>'\n" := by decide +kernel

end Seed.C14R
