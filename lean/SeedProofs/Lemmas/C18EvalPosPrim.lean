/-
  Lemmas/C18EvalPosPrim.lean — the non-recursive steps of the evaluator keep the position invariant of
  C18EvalPosDefs.lean: binary operations (errors at the operator's position), builtins (position-free leaves; the call
  position is added by `evalCall`), `bindNextName` (the only writer of scope cells; AlreadyInScope cites the stored
  position of the earlier binding), `validateArgs` (DupParamName cites the position of the earlier parameter).
-/
import SeedProofs.Lemmas.C18EvalPosDefs
namespace Seed
open Gen (Leaf)

variable {M : Mark → Prop}

/-- a leaf without positions in its payload -/
theorem leafOK_of_nil {l : Leaf} (h : l.locs = []) : LeafOK M l := by
  intro p hp; rw [h] at hp; cases hp

/-- discharges `LeafOK M (Leaf.C …)` for the constructors that carry no position -/
macro "leaf_ok" : tactic => `(tactic| exact leafOK_of_nil rfl)

theorem arith_pos (op : BinaryOp) (loc : Loc) (a b : Int) {σ : State} (hi : PosInv M σ) (hl : M (.loc loc)) :
    Res.Pos M PTriv (arith op loc a b σ) := by
  unfold arith
  cases op <;> simp only [] <;> (repeat' split) <;>
    first
      | exact Res.Pos.ok hi trivial
      | exact Res.Pos.err (locsIn_at hl (leafOK_of_nil rfl)) hi

theorem applyBinOp_pos (n : Nat) (op : BinaryOp) (loc : Loc) (a b : Val) {σ : State} (hi : PosInv M σ) (hl : M (.loc loc)) :
    Res.Pos M PTriv (applyBinOp n σ op loc a b) := by
  unfold applyBinOp
  cases op <;> simp only [] <;> (repeat' split) <;>
    first
      | exact Res.Pos.ok hi trivial
      | exact Res.Pos.err (locsIn_at hl (leafOK_of_nil rfl)) hi
      | exact Res.Pos.crash hi
      | trivial
      | exact arith_pos _ _ _ _ hi hl
      | exact Res.Pos.ok (hi.alloc (c := .list _) trivial) trivial

/-- `op`'s operator position (if there is an operator) is marked -/
def OpGood (M : Mark → Prop) (op : Option (BinaryOp × Loc)) : Prop := ∀ o l, op = some (o, l) → M (.loc l)

theorem OpGood.none : OpGood M none := fun _ _ h => by cases h
theorem OpGood.some {o : BinaryOp} {l : Loc} (h : M (.loc l)) : OpGood M (some (o, l)) := fun _ _ e => by cases e; exact h

theorem opAssignValue_pos (n : Nat) (cur rhs : SVal) (op : Option (BinaryOp × Loc)) {σ : State} (hi : PosInv M σ)
    (ho : OpGood M op) : Res.Pos M PTriv (opAssignValue n σ cur rhs op) := by
  unfold opAssignValue
  split
  · exact Res.Pos.ok hi trivial
  · exact Res.Pos.map (applyBinOp_pos n _ _ _ _ hi (ho _ _ rfl)) (fun _ _ => trivial)

theorem render_err_locs (n : Nat) :
    (∀ σ held v l, render n σ held v = .err l → l.locs = []) ∧
    (∀ σ held items l, renderItems n σ held items = .err l → l.locs = []) ∧
    (∀ σ held props l, renderProps n σ held props = .err l → l.locs = []) := by
  induction n with
  | zero =>
    refine ⟨?_, ?_, ?_⟩ <;> intros <;> rename_i h
    · unfold render at h; cases h
    · unfold renderItems at h; cases h
    · unfold renderProps at h; cases h
  | succ n ih =>
    obtain ⟨ihV, ihI, ihP⟩ := ih
    refine ⟨?_, ?_, ?_⟩
    · intro σ held v l h
      unfold render at h
      simp only [] at h
      repeat' split at h
      all_goals first
        | (cases h; done)
        | (cases h; rfl)
        | (rename_i h2; exact ihI _ _ _ _ (by rw [h] at h2; exact h2))
        | (rename_i h2; exact ihP _ _ _ _ (by rw [h] at h2; exact h2))
        | (rename_i h2 _; exact ihI _ _ _ _ (by rw [h] at h2; exact h2))
        | (rename_i h2 _; exact ihP _ _ _ _ (by rw [h] at h2; exact h2))
        | (exact ihI _ _ _ _ h)
        | (exact ihP _ _ _ _ h)
    · intro σ held items l h
      unfold renderItems at h
      repeat' split at h
      all_goals first
        | (cases h; done)
        | (exact ihV _ _ _ _ h)
        | (exact ihI _ _ _ _ h)
        | (rename_i h2; exact ihV _ _ _ _ (h ▸ h2))
        | (rename_i h2; exact ihI _ _ _ _ (h ▸ h2))
        | (rename_i h2 _; exact ihV _ _ _ _ (h ▸ h2))
        | (rename_i h2 _; exact ihI _ _ _ _ (h ▸ h2))
    · intro σ held props l h
      unfold renderProps at h
      repeat' split at h
      all_goals first
        | (cases h; done)
        | (exact ihV _ _ _ _ h)
        | (exact ihP _ _ _ _ h)
        | (rename_i h2; exact ihV _ _ _ _ (h ▸ h2))
        | (rename_i h2; exact ihP _ _ _ _ (h ▸ h2))
        | (rename_i h2 _; exact ihV _ _ _ _ (h ▸ h2))
        | (rename_i h2 _; exact ihP _ _ _ _ (h ▸ h2))

theorem assertArgs_locs {name : List Char} {e g : Nat} {l : Leaf} (h : assertArgs name e g = some l) : l.locs = [] := by
  unfold assertArgs at h
  split at h
  · cases h
  · cases h; rfl

/-- a builtin fails with a bare leaf that carries no position -/
theorem callBuiltin_pos (n : Nat) (f : BuiltinId) (this : Option SVal) (args : List SVal) {σ : State} (hi : PosInv M σ) :
    Res.Pos M PTriv (callBuiltin n σ f this args) := by
  unfold callBuiltin
  cases f <;> simp only [] <;> (repeat' split) <;>
    first
      | exact Res.Pos.ok hi trivial
      | exact Res.Pos.ok (hi.print _) trivial
      | exact Res.Pos.crash hi
      | trivial
      | exact Res.Pos.err (leafOK_of_nil rfl) hi
      | exact Res.Pos.err (leafOK_of_nil (assertArgs_locs (by assumption))) hi
      | exact Res.Pos.err (leafOK_of_nil ((render_err_locs _).1 _ _ _ _ (by assumption))) hi

/-! ### scope cells -/

theorem scopeLookup_mem {k : List Char} {v : SVal} {l : Loc} : ∀ {m : ScopeMap}, scopeLookup k m = some (v, l) → (k, v, l) ∈ m
  | [], h => by cases h
  | (k', v', l') :: r, h => by
    unfold scopeLookup at h
    split at h
    · cases h; rename_i hk; subst hk; exact List.mem_cons_self
    · exact List.mem_cons_of_mem _ (scopeLookup_mem h)

theorem scopeSetVal_locs (k : List Char) (v : SVal) : ∀ (m : ScopeMap) x, x ∈ scopeSetVal k v m → ∃ y, y ∈ m ∧ y.2.2 = x.2.2
  | [], x, h => by cases h
  | (k', v', l') :: r, x, h => by
    unfold scopeSetVal at h
    split at h
    · rcases List.mem_cons.mp h with rfl | h
      · exact ⟨_, List.mem_cons_self, rfl⟩
      · exact ⟨x, List.mem_cons_of_mem _ h, rfl⟩
    · rcases List.mem_cons.mp h with rfl | h
      · exact ⟨_, List.mem_cons_self, rfl⟩
      · obtain ⟨y, hy, he⟩ := scopeSetVal_locs k v r x h
        exact ⟨y, List.mem_cons_of_mem _ hy, he⟩

theorem scopeAssign_inv {σ σ' : State} {sc : List Addr} {k : List Char} {v : SVal} (he : scopeAssign σ sc k v = some σ')
    (hi : PosInv M σ) : PosInv M σ' := by
  induction sc with
  | nil => simp [scopeAssign] at he
  | cons a r ih =>
    unfold scopeAssign at he
    split at he
    · cases he
    · split at he
      · injection he with he; subst he
        refine hi.set a (c := .scope _) ?_
        intro x hx
        obtain ⟨y, hy, hxy⟩ := scopeSetVal_locs _ _ _ x hx
        rw [← hxy]; exact hi.scope (by assumption) y hy
      · exact ih he

theorem scopeDeclare_inv {σ σ' : State} {sc : List Addr} {k : List Char} {loc : Loc} {v : SVal}
    (he : scopeDeclare σ sc k loc v = .ok σ') (hi : PosInv M σ) (hl : BindLoc M loc) : PosInv M σ' := by
  unfold scopeDeclare at he
  split at he
  · cases he
  · split at he
    · cases he
    · split at he
      · cases he
      · injection he with he; subst he
        refine hi.set _ (c := .scope _) ?_
        intro x hx
        rcases List.mem_cons.mp hx with rfl | hx
        · exact hl
        · exact hi.scope (by assumption) x hx

theorem scopeDeclare_dup {σ : State} {sc : List Addr} {k : List Char} {loc prev : Loc} {v : SVal}
    (he : scopeDeclare σ sc k loc v = .dup prev) (hi : PosInv M σ) : BindLoc M prev := by
  unfold scopeDeclare at he
  split at he
  · cases he
  · split at he
    · cases he
    · split at he
      · injection he with he; subst he
        exact hi.scope (by assumption) _ (scopeLookup_mem (by assumption))
      · cases he

theorem leafOK_alreadyInScope {name : List Char} {prev : Loc} (h : BindLoc M prev) :
    LeafOK M (Leaf.AlreadyInScope name prev.1 prev.2) := by
  intro p hp
  have : p = prev := by simpa [Gen.Leaf.locs] using hp
  rw [this]; exact h

theorem bindNextName_pos (n : Nat) (sc : List Addr) (names : List (List Char)) (name : List Char) (loc : Loc)
    (rhs : SVal) (op : Option (BinaryOp × Loc)) (decl : Bool) {σ : State} (hi : PosInv M σ) (hl : M (.loc loc))
    (ho : OpGood M op) : Res.Pos M PTriv (bindNextName n σ sc names name loc rhs op decl) := by
  unfold bindNextName
  repeat' first
    | exact Res.Pos.ok hi trivial
    | exact Res.Pos.errAt hl (leafOK_of_nil rfl) hi
    | exact Res.Pos.errAt hl (leafOK_of_nil rfl) ‹PosInv M _›
    | exact Res.Pos.crash hi
    | exact Res.Pos.ok (scopeDeclare_inv (by assumption) hi (Or.inl hl)) trivial
    | exact Res.Pos.errAt hl (leafOK_alreadyInScope (scopeDeclare_dup (by assumption) hi)) hi
    | exact Res.Pos.ok (scopeAssign_inv (by assumption) hi) trivial
    | exact Res.Pos.ok (scopeAssign_inv (by assumption) ‹PosInv M _›) trivial
    | (apply Res.Pos.bind (applyBinOp_pos _ _ _ _ _ hi (ho _ _ rfl)); intro _ _ _ _)
    | split
    | (dsimp only [])

/-! ### `validate_args` -/

/-- every expression of the list stores only marked positions -/
def GoodEs (M : Mark → Prop) (es : List Expr) : Prop := ∀ e, e ∈ es → Marked M e.marks

theorem GoodEs.nil : GoodEs M [] := fun _ h => by cases h
theorem GoodEs.cons {e : Expr} {es : List Expr} (he : Marked M e.marks) (h : GoodEs M es) : GoodEs M (e :: es) := by
  intro x hx
  rcases List.mem_cons.mp hx with rfl | hx
  · exact he
  · exact h x hx
theorem GoodEs.append {xs ys : List Expr} (hx : GoodEs M xs) (hy : GoodEs M ys) : GoodEs M (xs ++ ys) := by
  intro x h
  rcases List.mem_append.mp h with h | h
  · exact hx x h
  · exact hy x h
theorem GoodEs.reverse {xs : List Expr} (hx : GoodEs M xs) : GoodEs M xs.reverse := fun x h => hx x (List.mem_reverse.mp h)
theorem GoodEs.ofL {es : List Expr} (h : Marked M (Expr.marksL es)) : GoodEs M es := Marked.ofL h

/-- the outcome of flattening one parameter pattern: marked sub-patterns, or an error with marked positions -/
def QRes (M : Mark → Prop) : Except Err (List Expr) → Prop
  | .ok more => GoodEs M more
  | .error e => Err.LocsIn M e

theorem propsToQueue_pos (loc : Loc) (hl : M (.loc loc)) : ∀ (props : List PropItem) (acc : List Expr),
    Marked M (PropItem.marksL props) → GoodEs M acc → QRes M (propsToQueue loc props acc)
  | [], acc, _, ha => by unfold propsToQueue; exact ha.reverse
  | .Pair nm v :: r, acc, hp, ha => by
    unfold propsToQueue
    simp only [PropItem.marksL, PropItem.marks, marked_append] at hp
    exact propsToQueue_pos loc hl r _ hp.2 (GoodEs.cons hp.1.2 ha)
  | .Single e spread c :: r, acc, hp, ha => by
    unfold propsToQueue
    simp only [PropItem.marksL, PropItem.marks, marked_append] at hp
    split
    · exact locsIn_at hl (leafOK_of_nil rfl)
    · exact propsToQueue_pos loc hl r _ hp.2 (GoodEs.cons hp.1 ha)

theorem itemsToQueue_pos (loc : Loc) (hl : M (.loc loc)) : ∀ (items : List ListItem) (acc : List Expr),
    Marked M (ListItem.marksL items) → GoodEs M acc → QRes M (itemsToQueue loc items acc)
  | [], acc, _, ha => by unfold itemsToQueue; exact ha.reverse
  | .mk e spread :: r, acc, hp, ha => by
    unfold itemsToQueue
    simp only [ListItem.marksL, ListItem.marks, marked_append] at hp
    split
    · exact locsIn_at hl (leafOK_of_nil rfl)
    · exact itemsToQueue_pos loc hl r _ hp.2 (GoodEs.cons hp.1 ha)

theorem leafOK_dupParam {name : List Char} {l c : Nat} (h : M (.loc (l, c))) : LeafOK M (Leaf.DupParamName name l c) := by
  intro p hp
  have : p = (l, c) := by simpa [Gen.Leaf.locs] using hp
  rw [this]; exact Or.inl h

theorem lookupAssoc_mem {α β} [DecidableEq α] {k : α} {v : β} : ∀ {l : List (α × β)}, lookupAssoc k l = some v → (k, v) ∈ l
  | [], h => by cases h
  | (k', v') :: r, h => by
    unfold lookupAssoc at h
    split at h
    · cases h; rename_i hk; subst hk; exact List.mem_cons_self
    · exact List.mem_cons_of_mem _ (lookupAssoc_mem h)

theorem validateArgs_pos (n : Nat) : ∀ (q : List Expr) (names : List (List Char × Loc)), GoodEs M q →
    (∀ x, x ∈ names → M (.loc x.2)) → ∀ e, validateArgs n q names = some (some e) → Err.LocsIn M e := by
  induction n with
  | zero => intro q names _ _ e h; simp [validateArgs] at h
  | succ n ih =>
    intro q names hq hn e h
    unfold validateArgs at h
    split at h
    · cases h
    · rename_i raw loc q'
      have hg : Marked M (Expr.mk raw loc).marks := hq _ List.mem_cons_self
      have hq' : GoodEs M q' := fun x hx => hq x (List.mem_cons_of_mem _ hx)
      have hl : M (.loc loc) := hg.loc
      split at h
      · split at h
        · cases h
        · split at h
          · rename_i l c hlk
            simp only [Option.some.injEq] at h; subst h
            exact locsIn_at hl (leafOK_dupParam (hn _ (lookupAssoc_mem hlk)))
          · refine ih _ _ hq' ?_ e h
            intro x hx
            rcases List.mem_cons.mp hx with rfl | hx
            · exact hl
            · exact hn x hx
      · rename_i props
        have hp : Marked M (PropItem.marksL props) := by
          simp only [Expr.marks, RawExpr.marks, marked_cons, marked_append] at hg; exact hg.2.2
        have := propsToQueue_pos loc hl props [] hp GoodEs.nil
        split at h
        · rename_i e' he'; rw [he'] at this
          simp only [Option.some.injEq] at h; subst h; exact this
        · rename_i more he'; rw [he'] at this
          exact ih _ _ (hq'.append this) hn e h
      · rename_i items c
        have hp : Marked M (ListItem.marksL items) := by
          simp only [Expr.marks, RawExpr.marks, marked_cons, marked_append] at hg; exact hg.2.2
        have := itemsToQueue_pos loc hl items [] hp GoodEs.nil
        split at h
        · rename_i e' he'; rw [he'] at this
          simp only [Option.some.injEq] at h; subst h; exact this
        · rename_i more he'; rw [he'] at this
          exact ih _ _ (hq'.append this) hn e h
      · split at h
        · simp only [Option.some.injEq] at h; subst h
          exact locsIn_at hl (leafOK_of_nil rfl)
        · cases h

theorem validateArgsRes_pos (n : Nat) (args : List Expr) {σ : State} (hi : PosInv M σ) (ha : Marked M (Expr.marksL args)) :
    Res.Pos M PTriv (validateArgsRes n args σ) := by
  unfold validateArgsRes
  split
  · trivial
  · exact Res.Pos.err (validateArgs_pos n args [] (GoodEs.ofL ha) (fun _ h => by cases h) _ (by assumption)) hi
  · exact Res.Pos.ok hi trivial

end Seed
