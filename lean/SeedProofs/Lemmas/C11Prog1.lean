/-
  C11Prog1.lean — reading sequences through the evaluator: the index expression `e[i]`, the slice `e[a:b]` with
  present / omitted bounds, `+` on two list- or string-valued expressions, with the sub-evaluations as hypotheses
  and exact fuel.  Used by the end-to-end part of C11.
-/
import SeedProofs.Lemmas.C14This
namespace Seed
open Gen (Leaf)

/-! ### an integer-valued expression used as an index -/

/-- `eval_expr_to_index` on an expression whose value is the integer `k`: a negative `k` is the error at the index
    expression, otherwise the index is `k` -/
theorem evalToIndex_int {n : Nat} {σ σ' : State} {sc : List Addr} {e : Expr} {k : Int} {s : Option Val}
    (h : evalExpr n σ sc e = .ok ⟨.int k, s⟩ σ') :
    evalToIndex (n + 2) σ sc e = if k < 0 then errAt e.loc (Leaf.NegativeIndex k) σ' else .ok k.toNat σ' := by
  rw [evalToIndex, evalToInt, h]
  simp only [Res.bind]

/-- a value that is not an integer cannot be an index -/
theorem evalToIndex_non_int {n : Nat} {σ σ' : State} {sc : List Addr} {e : Expr} {v : SVal} (hv : ∀ k, v.v ≠ .int k)
    (h : evalExpr n σ sc e = .ok v σ') :
    evalToIndex (n + 2) σ sc e = errAt e.loc (Leaf.IncorrectType c!"index" c!"int" v.v.kind) σ' := by
  rw [evalToIndex, evalToInt, h]
  simp only [Res.bind]
  cases hvv : v.v <;> first | (exact absurd hvv (hv _)) | rfl

/-! ### range bounds -/

/-- a range bound: omitted (`none`, nothing is evaluated), or an expression that evaluates to the integer `k` -/
inductive Bound (n : Nat) (sc : List Addr) : State → Option Expr → Option Int → State → Prop
  | omitted (σ : State) : Bound n sc σ none none σ
  | given {σ σ' : State} {e : Expr} {k : Int} {s : Option Val} (h : evalExpr n σ sc e = .ok ⟨.int k, s⟩ σ') :
      Bound n sc σ (some e) (some k) σ'

/-- the bound is not a negative number -/
def NonNeg (r : Option Int) : Prop := ∀ k, r = some k → 0 ≤ k

instance (r : Option Int) : Decidable (NonNeg r) := by
  unfold NonNeg
  cases r with
  | none => exact isTrue (fun _ h => by cases h)
  | some k =>
    by_cases h : 0 ≤ k
    · exact isTrue (fun _ e => by cases e; exact h)
    · exact isFalse (fun f => h (f k rfl))

/-- the lower end of a range: the start bound, `0` when it is omitted -/
def rangeLo (ra : Option Int) : Nat := (ra.map Int.toNat).getD 0

/-- the upper end of a range: the end bound, the length `len` of the sequence when it is omitted -/
def rangeHi (rb : Option Int) (len : Nat) : Nat := (rb.map Int.toNat).getD len

theorem rangeLo_spec (k : Int) : rangeLo none = 0 ∧ rangeLo (some k) = k.toNat := ⟨rfl, rfl⟩
theorem rangeHi_spec (k : Int) (len : Nat) : rangeHi none len = len ∧ rangeHi (some k) len = k.toNat := ⟨rfl, rfl⟩

/-- an omitted or non-negative bound is handed on as is -/
theorem evalOptIndex_bound {n : Nat} {σ σ' : State} {sc : List Addr} {b : Option Expr} {r : Option Int}
    (h : Bound n sc σ b r σ') (hr : NonNeg r) :
    evalOptIndex (n + 3) σ sc b = .ok (r.map Int.toNat) σ' := by
  cases h with
  | omitted => rw [evalOptIndex]; rfl
  | given h =>
    rename_i e k s
    have hk : ¬ k < 0 := by have := hr k rfl; omega
    rw [evalOptIndex, evalToIndex_int h]
    simp only [hk, if_false, Res.map, Option.map]

/-- a negative bound is the error at the bound expression; nothing after it is evaluated -/
theorem evalOptIndex_bound_neg {n : Nat} {σ σ' : State} {sc : List Addr} {e : Expr} {k : Int}
    (h : Bound n sc σ (some e) (some k) σ') (hk : k < 0) :
    evalOptIndex (n + 3) σ sc (some e) = errAt e.loc (Leaf.NegativeIndex k) σ' := by
  cases h with
  | given h =>
    rw [evalOptIndex, evalToIndex_int h]
    simp only [hk, if_true, Res.map, errAt]

/-! ### `e[i]` -/

theorem evalExpr_index_list {n : Nat} {σ σ1 σ2 : State} {sc : List Addr} {e i : Expr} (loc : Loc) {a : Addr}
    {s si : Option Val} {k : Int} {xs : List SVal}
    (he : evalExpr n σ sc e = .ok ⟨.list a, s⟩ σ1) (hi : evalExpr n σ1 sc i = .ok ⟨.int k, si⟩ σ2)
    (hxs : σ2.getList a = some xs) :
    evalExpr (n + 3) σ sc (.mk (.Index e i) loc) =
      if k < 0 then errAt i.loc (Leaf.NegativeIndex k) σ2
      else match xs[k.toNat]? with
        | some v => .ok v σ2
        | none => errAt loc (Leaf.OutOfListBounds k.toNat) σ2 := by
  have he' := evalExpr_fuel_mono he (by simp) (by omega : n ≤ n + 2)
  rw [evalExpr, he']
  simp only [Res.bind, evalToIndex_int hi]
  by_cases hk : k < 0
  · simp only [hk, if_true, errAt]
  · simp only [hk, if_false, hxs]
    cases xs[k.toNat]? <;> rfl

theorem evalExpr_index_str {n : Nat} {σ σ1 σ2 : State} {sc : List Addr} {e i : Expr} (loc : Loc) {bs : Bytes}
    {s si : Option Val} {k : Int}
    (he : evalExpr n σ sc e = .ok ⟨.str bs, s⟩ σ1) (hi : evalExpr n σ1 sc i = .ok ⟨.int k, si⟩ σ2) :
    evalExpr (n + 3) σ sc (.mk (.Index e i) loc) =
      if k < 0 then errAt i.loc (Leaf.NegativeIndex k) σ2
      else match bs[k.toNat]? with
        | some b => .ok (SVal.plain (.str [b])) σ2
        | none => errAt loc (Leaf.OutOfStringBounds k.toNat) σ2 := by
  have he' := evalExpr_fuel_mono he (by simp) (by omega : n ≤ n + 2)
  rw [evalExpr, he']
  simp only [Res.bind, evalToIndex_int hi]
  by_cases hk : k < 0
  · simp only [hk, if_true, errAt]
  · simp only [hk, if_false]
    cases bs[k.toNat]? <;> rfl

/-! ### `e[a:b]` -/

/-- the slice of a list with both bounds acceptable to `eval_expr_to_index` -/
theorem evalExpr_range_list {n : Nat} {σ σ1 σ2 σ3 : State} {sc : List Addr} {e : Expr} {start stop : Option Expr}
    (loc : Loc) {ra rb : Option Int} {a : Addr} {s : Option Val} {xs : List SVal}
    (hA : Bound n sc σ start ra σ1) (hB : Bound n sc σ1 stop rb σ2) (hra : NonNeg ra) (hrb : NonNeg rb)
    (he : evalExpr n σ2 sc e = .ok ⟨.list a, s⟩ σ3) (hxs : σ3.getList a = some xs) :
    evalExpr (n + 4) σ sc (.mk (.RangeIndex e start stop) loc) =
      if rangeLo ra ≤ rangeHi rb xs.length ∧ rangeHi rb xs.length ≤ xs.length
      then .ok (SVal.plain (.list σ3.heap.size))
            (σ3.alloc (.list ((xs.drop (rangeLo ra)).take
              (rangeHi rb xs.length - rangeLo ra)))).2
      else errAt loc (Leaf.RangeOutOfListBounds (rangeLo ra) (rangeHi rb xs.length)) σ3 := by
  have he' := evalExpr_fuel_mono he (by simp) (by omega : n ≤ n + 3)
  unfold rangeLo rangeHi
  rw [evalExpr, evalOptIndex_bound hA hra]
  simp only [Res.bind]
  rw [evalOptIndex_bound hB hrb]
  simp only [he', hxs, Bool.and_eq_true, decide_eq_true_eq]
  split <;> rfl

theorem evalExpr_range_str {n : Nat} {σ σ1 σ2 σ3 : State} {sc : List Addr} {e : Expr} {start stop : Option Expr}
    (loc : Loc) {ra rb : Option Int} {s : Option Val} {bs : Bytes}
    (hA : Bound n sc σ start ra σ1) (hB : Bound n sc σ1 stop rb σ2) (hra : NonNeg ra) (hrb : NonNeg rb)
    (he : evalExpr n σ2 sc e = .ok ⟨.str bs, s⟩ σ3) :
    evalExpr (n + 4) σ sc (.mk (.RangeIndex e start stop) loc) =
      if rangeLo ra ≤ rangeHi rb bs.length ∧ rangeHi rb bs.length ≤ bs.length
      then .ok (SVal.plain (.str ((bs.drop (rangeLo ra)).take
              (rangeHi rb bs.length - rangeLo ra)))) σ3
      else errAt loc (Leaf.RangeOutOfStringBounds (rangeLo ra) (rangeHi rb bs.length)) σ3 := by
  have he' := evalExpr_fuel_mono he (by simp) (by omega : n ≤ n + 3)
  unfold rangeLo rangeHi
  rw [evalExpr, evalOptIndex_bound hA hra]
  simp only [Res.bind]
  rw [evalOptIndex_bound hB hrb]
  simp only [he', Bool.and_eq_true, decide_eq_true_eq]

/-- a negative start: the error at the start expression, the end and the sequence are not evaluated -/
theorem evalExpr_range_neg_start {n : Nat} {σ σ1 : State} {sc : List Addr} {e es : Expr} {stop : Option Expr}
    (loc : Loc) {k : Int} (hA : Bound n sc σ (some es) (some k) σ1) (hk : k < 0) :
    evalExpr (n + 4) σ sc (.mk (.RangeIndex e (some es) stop) loc) = errAt es.loc (Leaf.NegativeIndex k) σ1 := by
  rw [evalExpr, evalOptIndex_bound_neg hA hk]
  rfl

/-- a negative end (after an acceptable start): the error at the end expression, the sequence is not evaluated -/
theorem evalExpr_range_neg_stop {n : Nat} {σ σ1 σ2 : State} {sc : List Addr} {e ee : Expr} {start : Option Expr}
    (loc : Loc) {ra : Option Int} {k : Int} (hA : Bound n sc σ start ra σ1) (hra : NonNeg ra)
    (hB : Bound n sc σ1 (some ee) (some k) σ2) (hk : k < 0) :
    evalExpr (n + 4) σ sc (.mk (.RangeIndex e start (some ee)) loc) = errAt ee.loc (Leaf.NegativeIndex k) σ2 := by
  rw [evalExpr, evalOptIndex_bound hA hra]
  simp only [Res.bind]
  rw [evalOptIndex_bound_neg hB hk]
  rfl

/-! ### `e1 + e2` -/

theorem evalExpr_sum_lists {n : Nat} {σ σ1 σ2 : State} {sc : List Addr} {e1 e2 : Expr} (opLoc loc : Loc) {a b : Addr}
    {s t : Option Val} {xs ys : List SVal}
    (h1 : evalExpr n σ sc e1 = .ok ⟨.list a, s⟩ σ1) (h2 : evalExpr n σ1 sc e2 = .ok ⟨.list b, t⟩ σ2)
    (hxs : σ2.getList a = some xs) (hys : σ2.getList b = some ys) :
    evalExpr (n + 1) σ sc (.mk (.BinaryOp .Sum opLoc e1 e2) loc) =
      .ok (SVal.plain (.list σ2.heap.size)) (σ2.alloc (.list (xs ++ ys))).2 := by
  rw [evalExpr, h1]
  simp only [Res.bind, h2, applyBinOp, hxs, hys]
  rfl

theorem evalExpr_sum_strs {n : Nat} {σ σ1 σ2 : State} {sc : List Addr} {e1 e2 : Expr} (opLoc loc : Loc)
    {s t : Option Val} {xs ys : Bytes}
    (h1 : evalExpr n σ sc e1 = .ok ⟨.str xs, s⟩ σ1) (h2 : evalExpr n σ1 sc e2 = .ok ⟨.str ys, t⟩ σ2) :
    evalExpr (n + 1) σ sc (.mk (.BinaryOp .Sum opLoc e1 e2) loc) = .ok (SVal.plain (.str (xs ++ ys))) σ2 := by
  rw [evalExpr, h1]
  simp only [Res.bind, h2, applyBinOp]

/-! ### cells after an allocation -/

theorem getList_alloc_old {σ : State} (c : Cell) {a : Addr} {xs : List SVal} (h : σ.getList a = some xs) :
    (σ.alloc c).2.getList a = some xs := by
  rw [getList_eq_some] at h ⊢
  rw [σ.alloc_heap_old _ (heap_lt_of_some h)]; exact h

theorem getList_alloc_new (σ : State) (xs : List SVal) : (σ.alloc (.list xs)).2.getList σ.heap.size = some xs :=
  getList_eq_some.mpr (σ.alloc_heap_new _)

/-- allocating does not change what the names of a chain of existing scope cells resolve to -/
theorem scopeGet_alloc {σ : State} (c : Cell) {sc : List Addr} {x : List Char} {v : SVal}
    (h : scopeGet σ sc x = some v) : scopeGet (σ.alloc c).2 sc x = some v := by
  induction sc with
  | nil => simp [scopeGet] at h
  | cons a r ih =>
    simp only [scopeGet] at h ⊢
    cases hs : σ.getScope a with
    | none => simp [hs] at h
    | some m =>
      have hs' : (σ.alloc c).2.getScope a = some m := by
        rw [getScope_eq_some] at hs ⊢
        rw [σ.alloc_heap_old _ (heap_lt_of_some hs)]; exact hs
      simp only [hs] at h
      simp only [hs']
      cases hl : scopeLookup x m with
      | some p => simp only [hl] at h ⊢; exact h
      | none => simp only [hl] at h ⊢; exact ih h

end Seed
