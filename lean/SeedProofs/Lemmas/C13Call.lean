/-
  C13Call.lean — the call site (`evalCall`) as an equation: argument count rule, rest-parameter slice,
  parameter/`this` bindings; and the item loop of `evalListItems`.  Used by C13 and C14.
-/
import SeedProofs.Lemmas.C12Heap
namespace Seed
open Gen (Leaf)

/-! ### `evalListItems` one item at a time -/

theorem evalListItems_nil (n : Nat) (σ : State) (sc : List Addr) (acc : List SVal) :
    evalListItems (n + 1) σ sc [] acc = .ok acc σ := by
  rw [evalListItems]

theorem evalListItems_cons_plain (n : Nat) (σ : State) (sc : List Addr) (e : Expr) (r : List ListItem) (acc : List SVal) :
    evalListItems (n + 1) σ sc (.mk e false :: r) acc =
      (evalExpr n σ sc e).bind fun v σ1 => evalListItems n σ1 sc r (acc ++ [v]) := by
  rw [evalListItems]; rfl

theorem evalListItems_cons_spread {n : Nat} {σ σ1 : State} {sc : List Addr} {e : Expr} {v : SVal} {a : Addr}
    {xs : List SVal} (r : List ListItem) (acc : List SVal)
    (h : evalExpr n σ sc e = .ok v σ1) (hv : v.v = .list a) (hl : σ1.getList a = some xs) :
    evalListItems (n + 1) σ sc (.mk e true :: r) acc = evalListItems n σ1 sc r (acc ++ xs) := by
  rw [evalListItems, h]
  simp only [Res.bind, Bool.not_true, Bool.false_eq_true, if_false, hv, hl]

theorem evalListItems_cons_spread_nonlist {n : Nat} {σ σ1 : State} {sc : List Addr} {e : Expr} {v : SVal}
    (r : List ListItem) (acc : List SVal)
    (h : evalExpr n σ sc e = .ok v σ1) (hv : ∀ a, v.v ≠ .list a) :
    evalListItems (n + 1) σ sc (.mk e true :: r) acc = errAt e.loc (Leaf.SpreadNonListInList v.v.kind) σ1 := by
  rw [evalListItems, h]
  simp only [Res.bind, Bool.not_true, Bool.false_eq_true, if_false]

/-- an item whose evaluation fails ends the loop: later items are never evaluated -/
theorem evalListItems_cons_err {n : Nat} {σ σ1 : State} {sc : List Addr} {e : Expr} {er : Err} (sp : Bool)
    (r : List ListItem) (acc : List SVal) (h : evalExpr n σ sc e = .err er σ1) :
    evalListItems (n + 1) σ sc (.mk e sp :: r) acc = .err er σ1 := by
  rw [evalListItems, h]; rfl

/-- "pure" items: each evaluates to its value, without changing the state, at every fuel ≥ k -/
def PureItems (k : Nat) (σ : State) (sc : List Addr) : List ListItem → List SVal → Prop
  | [], [] => True
  | it :: r, v :: vs => it.isSpread = false ∧ (∀ m, k ≤ m → evalExpr m σ sc it.e = .ok v σ) ∧ PureItems k σ sc r vs
  | _, _ => False

theorem evalListItems_pure {k : Nat} {σ : State} {sc : List Addr} {items : List ListItem} {vs : List SVal}
    (h : PureItems k σ sc items vs) (d : Nat) (acc : List SVal) :
    evalListItems (k + items.length + 1 + d) σ sc items acc = .ok (acc ++ vs) σ := by
  induction items generalizing vs acc with
  | nil =>
    cases vs with
    | nil =>
      have e1 : k + ([] : List ListItem).length + 1 + d = (k + d) + 1 := by simp only [List.length_nil]; omega
      rw [e1, evalListItems_nil]; simp
    | cons _ _ => exact absurd h id
  | cons it r ih =>
    cases vs with
    | nil => exact absurd h id
    | cons v vs =>
      obtain ⟨e, sp⟩ := it
      obtain ⟨hsp, hev, hr⟩ := h
      simp only [ListItem.isSpread] at hsp
      subst hsp
      simp only [ListItem.e] at hev
      have e1 : k + (ListItem.mk e false :: r).length + 1 + d = (k + r.length + 1 + d) + 1 := by
        simp only [List.length_cons]; omega
      rw [e1, evalListItems_cons_plain, hev _ (by omega)]
      simp only [Res.bind]
      rw [ih hr, List.append_assoc]; rfl

/-! ### the call site -/

/-- the count rule: exactly `n`, or at least `n - 1` with a rest parameter -/
def arityOk (collect : Bool) (numParams got : Nat) : Bool :=
  if collect then decide (numParams - 1 ≤ got) else decide (numParams = got)

def arityErr (collect : Bool) (numParams got : Nat) : Leaf :=
  if collect then Leaf.TooFewArgs (numParams - 1) got else Leaf.ArgNumMismatch numParams got

/-- the values bound to the parameters: with a rest parameter the surplus goes to a fresh list -/
def callPlainVals (σ : State) (fr : FuncRec) (argVals : List SVal) : List SVal × State :=
  if fr.collect then
    (argVals.take (fr.args.length - 1) ++ [SVal.plain (.list σ.heap.size)],
     (σ.alloc (.list (argVals.drop (fr.args.length - 1)))).2)
  else (argVals, σ)

/-- parameters first, then `this` when (and only when) the callee value has a source -/
def callBindings (fr : FuncRec) (plainVals : List SVal) (src : Option Val) (loc : Loc) : List (Expr × SVal) :=
  match src with
  | some this => fr.args.zip plainVals ++ [(Expr.mk (.Var c!"this") loc, SVal.plain this)]
  | none => fr.args.zip plainVals

def finishCall (esc : Escape) (σ4 : State) : Res SVal :=
  match esc with
  | .none => .ok (SVal.plain .null) σ4
  | .brk l => errAt l Leaf.BreakOutsideLoop σ4
  | .cont l => errAt l Leaf.ContinueOutsideLoop σ4
  | .ret v _ => .ok v σ4

/-- `evalCall` on a user function, as one equation -/
theorem evalCall_func {n : Nat} {σ σ1 σ2 : State} {sc : List Addr} {f : Expr} {args : List ListItem} {loc : Loc}
    {argVals : List SVal} {fv : SVal} {a : Addr} {fr : FuncRec}
    (hargs : evalListItems n σ sc args [] = .ok argVals σ1)
    (hf : evalExpr n σ1 sc f = .ok fv σ2) (hv : fv.v = .func a) (hfr : σ2.getFunc a = some fr) :
    evalCall (n + 1) σ sc f args loc =
      if arityOk fr.collect fr.args.length argVals.length then
        ((evalBlock n (callPlainVals σ2 fr argVals).2 fr.closure
            (callBindings fr (callPlainVals σ2 fr argVals).1 fv.src loc) fr.stmts).mapErr
          (Err.funcCall fr.name loc)).bind finishCall
      else errAt loc (arityErr fr.collect fr.args.length argVals.length) σ2 := by
  rw [evalCall, hargs]
  simp only [Res.bind, hf, hv, hfr]
  cases hc : fr.collect with
  | true =>
    simp only [arityOk, arityErr, callPlainVals, hc, if_true, Bool.true_and, Bool.not_true, Bool.false_and,
      Bool.false_eq_true, if_false, decide_eq_true_eq]
    by_cases hle : fr.args.length - 1 ≤ argVals.length
    · have : ¬ (fr.args.length - 1 > argVals.length) := by omega
      simp only [this, hle, if_true, if_false, State.alloc]
      cases hs : fv.src <;> simp only [callBindings] <;> congr
    · have : fr.args.length - 1 > argVals.length := by omega
      simp only [this, hle, if_true, if_false]
  | false =>
    simp only [arityOk, arityErr, callPlainVals, hc, if_false, Bool.false_and, Bool.false_eq_true, Bool.not_false,
      Bool.true_and, decide_eq_true_eq]
    by_cases he : fr.args.length = argVals.length
    · simp only [he, ne_eq, not_true_eq_false, if_false, if_true]
      cases hs : fv.src <;> simp only [callBindings] <;> congr
    · simp only [he, ne_eq, not_false_eq_true, if_true, if_false]

/-- arguments are evaluated first: a failing argument list means the callee expression is never evaluated -/
theorem evalCall_args_err {n : Nat} {σ σ1 : State} {sc : List Addr} {f : Expr} {args : List ListItem} {loc : Loc} {e : Err}
    (hargs : evalListItems n σ sc args [] = .err e σ1) : evalCall (n + 1) σ sc f args loc = .err e σ1 := by
  rw [evalCall, hargs]; rfl

/-! ### facts about the parameter values -/

theorem callPlainVals_no_rest {σ : State} {fr : FuncRec} (argVals : List SVal) (h : fr.collect = false) :
    callPlainVals σ fr argVals = (argVals, σ) := by
  simp [callPlainVals, h]

theorem callPlainVals_rest {σ : State} {fr : FuncRec} (argVals : List SVal) (h : fr.collect = true) :
    callPlainVals σ fr argVals =
      (argVals.take (fr.args.length - 1) ++ [SVal.plain (.list σ.heap.size)],
       (σ.alloc (.list (argVals.drop (fr.args.length - 1)))).2) := by
  simp [callPlainVals, h]

/-- with a rest parameter every parameter gets a value -/
theorem callPlainVals_rest_length {σ : State} {fr : FuncRec} (argVals : List SVal) (h : fr.collect = true)
    (hpos : 0 < fr.args.length) (hok : arityOk fr.collect fr.args.length argVals.length = true) :
    (callPlainVals σ fr argVals).1.length = fr.args.length := by
  rw [callPlainVals_rest argVals h]
  simp only [arityOk, h, if_true, decide_eq_true_eq] at hok
  simp only [List.length_append, List.length_take, List.length_cons, List.length_nil]
  omega

/-- the rest parameter is a *fresh* list (its address was not in the heap before) holding exactly the surplus -/
theorem callPlainVals_rest_cell {σ : State} {fr : FuncRec} (argVals : List SVal) (h : fr.collect = true) :
    (callPlainVals σ fr argVals).2.getList σ.heap.size = some (argVals.drop (fr.args.length - 1)) ∧
    (∀ b, b < σ.heap.size → (callPlainVals σ fr argVals).2.heap[b]? = σ.heap[b]?) := by
  rw [callPlainVals_rest argVals h]
  exact ⟨getList_eq_some.mpr (σ.alloc_heap_new _), fun b hb => σ.alloc_heap_old _ hb⟩

end Seed
