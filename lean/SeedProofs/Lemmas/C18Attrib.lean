/-
  Lemmas/C18Attrib.lean — "attribution": WHICH stored position each kind of run-time diagnostic carries.

  `eval_uses_node_pos` (C18EvalPos*.lean) says every position of a diagnostic is SOME position stored in the tree;
  the theorems here say which one, construct by construct: if the sub-evaluations of a construct succeed and the
  construct itself fails, the error is `Err.at <the construct's own stored position> leaf` (`errAt p leaf σ`).

  Fuel: every theorem takes the sub-evaluations at some fuel `n` and concludes at every fuel `n + k + c`
  (`c` = the number of evaluator frames between the construct and the sub-evaluations), `k` arbitrary: fuel
  monotonicity (`monoAll`) lifts the hypotheses.
-/
import SeedProofs.Global
namespace Seed.C18A
open Seed Gen

/-! ## lifting results to larger fuel -/

theorem up {α} {f : Nat → Res α} (hmono : ∀ j, Res.Le (f j) (f (j + 1))) {n : Nat} {r : Res α}
    (h : f n = r) (hr : r ≠ .timeout) (k : Nat) : f (n + k) = r := by
  rcases Res.Le.of_step f hmono (Nat.le_add_right n k) with h' | h'
  · exact absurd (h ▸ h') hr
  · exact h' ▸ h

/-- `.ok … ≠ .timeout`, `.err … ≠ .timeout` -/
macro "nt" : tactic => `(tactic| (intro hnt; cases hnt))

section
variable {n : Nat} {σ : State} {sc : List Addr}

theorem upExpr {e : Expr} {r : Res SVal} (k : Nat) (h : evalExpr n σ sc e = r) (hr : r ≠ .timeout) :
    evalExpr (n + k) σ sc e = r :=
  up (f := fun j => evalExpr j σ sc e) (fun j => (monoAll j).evalExpr σ sc e) h hr k
theorem upToInt {d : List Char} {e : Expr} {r : Res Int} (k : Nat) (h : evalToInt n σ sc d e = r) (hr : r ≠ .timeout) :
    evalToInt (n + k) σ sc d e = r :=
  up (f := fun j => evalToInt j σ sc d e) (fun j => (monoAll j).evalToInt σ sc d e) h hr k
theorem upToIndex {e : Expr} {r : Res Nat} (k : Nat) (h : evalToIndex n σ sc e = r) (hr : r ≠ .timeout) :
    evalToIndex (n + k) σ sc e = r :=
  up (f := fun j => evalToIndex j σ sc e) (fun j => (monoAll j).evalToIndex σ sc e) h hr k
theorem upToStr {d : List Char} {e : Expr} {r : Res (List Char)} (k : Nat) (h : evalToStr n σ sc d e = r)
    (hr : r ≠ .timeout) : evalToStr (n + k) σ sc d e = r :=
  up (f := fun j => evalToStr j σ sc d e) (fun j => (monoAll j).evalToStr σ sc d e) h hr k
theorem upToBool {d : List Char} {e : Expr} {r : Res Bool} (k : Nat) (h : evalToBool n σ sc d e = r)
    (hr : r ≠ .timeout) : evalToBool (n + k) σ sc d e = r :=
  up (f := fun j => evalToBool j σ sc d e) (fun j => (monoAll j).evalToBool σ sc d e) h hr k
theorem upItems {items : List ListItem} {acc : List SVal} {r : Res (List SVal)} (k : Nat)
    (h : evalListItems n σ sc items acc = r) (hr : r ≠ .timeout) : evalListItems (n + k) σ sc items acc = r :=
  up (f := fun j => evalListItems j σ sc items acc) (fun j => (monoAll j).evalListItems σ sc items acc) h hr k
theorem upBlock {bs : List (Expr × SVal)} {ss : List Stmt} {r : Res Escape} (k : Nat)
    (h : evalBlock n σ sc bs ss = r) (hr : r ≠ .timeout) : evalBlock (n + k) σ sc bs ss = r :=
  up (f := fun j => evalBlock j σ sc bs ss) (fun j => (monoAll j).evalBlock σ sc bs ss) h hr k
theorem upStmts {ss : List Stmt} {r : Res Escape} (k : Nat)
    (h : evalStmts n σ sc ss = r) (hr : r ≠ .timeout) : evalStmts (n + k) σ sc ss = r :=
  up (f := fun j => evalStmts j σ sc ss) (fun j => (monoAll j).evalStmts σ sc ss) h hr k
theorem upBinOp {op : BinaryOp} {loc : Loc} {a b : Val} {r : Res Val} (k : Nat)
    (h : applyBinOp n σ op loc a b = r) (hr : r ≠ .timeout) : applyBinOp (n + k) σ op loc a b = r :=
  up (f := fun j => applyBinOp j σ op loc a b) (fun j => applyBinOp_mono j σ op loc a b) h hr k
end

/-! ## (1) binary operations: the OPERATOR's position -/

/-- the leaves `applyBinOp` can fail with -/
inductive OpFailLeaf (op : BinaryOp) (a b : Val) : Leaf → Prop
  /-- operand types the operator is not defined on -/
  | types : OpFailLeaf op a b (Leaf.InvalidOpTypes op a.kind b.kind)
  /-- the result leaves the 64-bit range, or the divisor of `/`, `%` is zero (the code reports both as an overflow) -/
  | overflow {x y : Int} : a = .int x → b = .int y → OpFailLeaf op a b (Leaf.IntOverflow op x y)
  /-- `==` / `!=` on values of different types (at the top or inside containers) -/
  | eqTypes {lt rt msg : List Char} : OpFailLeaf op a b (Leaf.InvalidEqOpTypes op lt rt msg)

theorem arith_err {op : BinaryOp} {loc : Loc} {x y : Int} {σ σ' : State} {e : Err}
    (h : arith op loc x y σ = .err e σ') : σ' = σ ∧ e = Err.at loc (Leaf.IntOverflow op x y) := by
  unfold arith at h
  simp only [intOverflow] at h
  repeat' split at h
  all_goals first
    | (cases h; done)
    | (cases h; exact ⟨rfl, rfl⟩)

/-- **every failure of `applyBinOp … loc …` is located at `loc`**, in the state it was called in, with one of the three
    leaves above -/
theorem applyBinOp_err_at {n : Nat} {σ σ' : State} {op : BinaryOp} {loc : Loc} {a b : Val} {e : Err}
    (h : applyBinOp n σ op loc a b = .err e σ') : σ' = σ ∧ ∃ leaf, e = Err.at loc leaf ∧ OpFailLeaf op a b leaf := by
  unfold applyBinOp at h
  simp only [invalidOpTypes] at h
  repeat' split at h
  all_goals first
    | (cases h; done)
    | (cases h; exact ⟨rfl, _, rfl, .types⟩)
    | (cases h; exact ⟨rfl, _, rfl, .eqTypes⟩)
    | (obtain ⟨h1, h2⟩ := arith_err h; exact ⟨h1, _, h2, .overflow rfl rfl⟩)

/-- the three kinds of failure exist (so the hypotheses below are satisfiable), each located at the `loc` handed in:
    a type mismatch, an overflow, a zero divisor -/
theorem applyBinOp_type_mismatch (n : Nat) (σ : State) (loc : Loc) (x : Int) (s : Bytes) :
    applyBinOp n σ .Sum loc (.int x) (.str s) = .err (Err.at loc (Leaf.InvalidOpTypes .Sum .Int .Str)) σ := rfl
theorem applyBinOp_overflow (n : Nat) (σ : State) (loc : Loc) :
    applyBinOp n σ .Sum loc (.int 9223372036854775807) (.int 1) =
      .err (Err.at loc (Leaf.IntOverflow .Sum 9223372036854775807 1)) σ := by
  simp [applyBinOp, arith, inI64, intOverflow, i64Min, i64MaxI]
theorem applyBinOp_zero_divisor (n : Nat) (σ : State) (loc : Loc) (x : Int) :
    applyBinOp n σ .Div loc (.int x) (.int 0) = .err (Err.at loc (Leaf.IntOverflow .Div x 0)) σ := by
  simp [applyBinOp, arith, intOverflow]

section binop
variable {n : Nat} {σ σ1 σ2 σ3 : State} {sc : List Addr} {op : BinaryOp} {opLoc loc : Loc} {lhs rhs : Expr}
  {l r : SVal} {e : Err}

/-- an error of the left operand passes through the operation unchanged (the outer node adds no position) -/
theorem binop_lhs_err (k : Nat) (h1 : evalExpr n σ sc lhs = .err e σ1) :
    evalExpr (n + k + 1) σ sc (.mk (.BinaryOp op opLoc lhs rhs) loc) = .err e σ1 := by
  conv => lhs; unfold evalExpr
  simp only [upExpr k h1 (by nt), Res.bind]

/-- … and so does an error of the right operand -/
theorem binop_rhs_err (k : Nat) (h1 : evalExpr n σ sc lhs = .ok l σ1) (h2 : evalExpr n σ1 sc rhs = .err e σ2) :
    evalExpr (n + k + 1) σ sc (.mk (.BinaryOp op opLoc lhs rhs) loc) = .err e σ2 := by
  conv => lhs; unfold evalExpr
  simp only [upExpr k h1 (by nt), upExpr k h2 (by nt), Res.bind]

/-- the operation succeeds -/
theorem binop_ok (k : Nat) {v : Val} (h1 : evalExpr n σ sc lhs = .ok l σ1) (h2 : evalExpr n σ1 sc rhs = .ok r σ2)
    (h3 : applyBinOp n σ2 op opLoc l.v r.v = .ok v σ3) :
    evalExpr (n + k + 1) σ sc (.mk (.BinaryOp op opLoc lhs rhs) loc) = .ok (SVal.plain v) σ3 := by
  conv => lhs; unfold evalExpr
  simp only [upExpr k h1 (by nt), upExpr k h2 (by nt), upBinOp k h3 (by nt), Res.bind]

/-- **(1)** both operands of `lhs op rhs` evaluate, the operation fails (type mismatch, overflow, zero divisor, `==` on
    different types): the diagnostic is located at `opLoc`, the position stored for the OPERATOR — not at the node's own
    `loc` (the start of the left operand), whatever `lhs` and `rhs` are -/
theorem binop_fail_at_opLoc (k : Nat) (h1 : evalExpr n σ sc lhs = .ok l σ1) (h2 : evalExpr n σ1 sc rhs = .ok r σ2)
    (h3 : applyBinOp n σ2 op opLoc l.v r.v = .err e σ3) :
    ∃ leaf, OpFailLeaf op l.v r.v leaf ∧ e = Err.at opLoc leaf ∧ σ3 = σ2 ∧
      evalExpr (n + k + 1) σ sc (.mk (.BinaryOp op opLoc lhs rhs) loc) = errAt opLoc leaf σ2 := by
  obtain ⟨hs, leaf, he, hl⟩ := applyBinOp_err_at h3
  subst hs he
  refine ⟨leaf, hl, rfl, rfl, ?_⟩
  conv => lhs; unfold evalExpr
  simp only [upExpr k h1 (by nt), upExpr k h2 (by nt), upBinOp k h3 (by nt), Res.bind, errAt]

end binop

/-- a concrete instance of the hypotheses: `1 + "a"`, operator stored at `(1,3)`, node at `(1,1)` -/
example : evalExpr 2 State.init [] (.mk (.BinaryOp .Sum (1, 3) (.mk (.Int 1) (1, 1)) (.mk (.Str c!"a" none) (1, 5))) (1, 1)) =
    errAt (1, 3) (Leaf.InvalidOpTypes .Sum .Int .Str) State.init := by
  obtain ⟨leaf, hl, he, _, h⟩ := binop_fail_at_opLoc (n := 1) (loc := (1, 1)) (lhs := .mk (.Int 1) (1, 1))
    (rhs := .mk (.Str c!"a" none) (1, 5)) 0 (σ := State.init) (σ1 := State.init) (σ2 := State.init) (sc := [])
    (l := SVal.plain (.int 1)) (r := SVal.plain (.str (utf8Encode c!"a")))
    (by unfold evalExpr; rfl) (by unfold evalExpr; rfl)
    (applyBinOp_type_mismatch 1 _ (1, 3) 1 _)
  have : leaf = Leaf.InvalidOpTypes .Sum .Int .Str := by
    simp only [Err.at, Err.atLoc.injEq, Err.leaf.injEq, true_and] at he; exact he.symm
  rw [← this]; exact h

/-! ### a left-nested chain `a op1 b op2 c` = `BinaryOp op2 p2 (BinaryOp op1 p1 a b) c`: each operator at its own token -/

section chain
variable {n : Nat} {σ σ1 σ2 σ3 σ4 σ5 : State} {sc : List Addr} {op1 op2 : BinaryOp} {p1 p2 l1 l2 : Loc} {a b c : Expr}
  {va vb vc : SVal} {e : Err}

/-- the FIRST (inner) operator fails: reported at `p1`, the first operator's position (and `c` is never evaluated) -/
theorem chain_inner_fails (k : Nat) (ha : evalExpr n σ sc a = .ok va σ1) (hb : evalExpr n σ1 sc b = .ok vb σ2)
    (hop : applyBinOp n σ2 op1 p1 va.v vb.v = .err e σ3) :
    ∃ leaf, OpFailLeaf op1 va.v vb.v leaf ∧
      evalExpr (n + k + 2) σ sc (.mk (.BinaryOp op2 p2 (.mk (.BinaryOp op1 p1 a b) l1) c) l2) = errAt p1 leaf σ2 := by
  obtain ⟨leaf, hl, _, _, h⟩ := binop_fail_at_opLoc (loc := l1) k ha hb hop
  exact ⟨leaf, hl, binop_lhs_err (n := n + k + 1) 0 h⟩

/-- the SECOND (outer) operator fails: reported at `p2`, the second operator's position -/
theorem chain_outer_fails (k : Nat) {v : Val} (ha : evalExpr n σ sc a = .ok va σ1) (hb : evalExpr n σ1 sc b = .ok vb σ2)
    (hop : applyBinOp n σ2 op1 p1 va.v vb.v = .ok v σ3) (hc : evalExpr n σ3 sc c = .ok vc σ4)
    (hop2 : applyBinOp n σ4 op2 p2 v vc.v = .err e σ5) :
    ∃ leaf, OpFailLeaf op2 v vc.v leaf ∧
      evalExpr (n + k + 2) σ sc (.mk (.BinaryOp op2 p2 (.mk (.BinaryOp op1 p1 a b) l1) c) l2) = errAt p2 leaf σ4 := by
  have hi := binop_ok (loc := l1) k ha hb hop
  have hc' : evalExpr (n + k + 1) σ3 sc c = .ok vc σ4 := upExpr (k + 1) hc (by nt)
  have hop2' : applyBinOp (n + k + 1) σ4 op2 p2 (SVal.plain v).v vc.v = .err e σ5 := upBinOp (k + 1) hop2 (by nt)
  obtain ⟨leaf, hl, _, _, h⟩ := binop_fail_at_opLoc (loc := l2) 0 hi hc' hop2'
  exact ⟨leaf, hl, h⟩

end chain

/-! ## (2) op-assignment: the op-assign OPERATOR's position, not the target's -/

section opassign
variable {n : Nat} {σ σ1 σ2 σ3 σ4 : State} {sc : List Addr} {op : BinaryOp} {opLoc loc : Loc} {rhs : Expr} {v cur : SVal}
  {e : Err}

/-- **(2a)** `x op= rhs`: `rhs` evaluates, `x` is defined, the operation fails: located at `opLoc` (not at `loc`, the
    position of `x`).  `name ≠ "_"` is needed: `_ op= rhs` binds nothing and never applies the operator
    (`opAssign_underscore_no_op` below). -/
theorem opAssign_var_fail_at_opLoc (k : Nat) {name : List Char} (hname : name ≠ c!"_")
    (h1 : evalExpr n σ sc rhs = .ok v σ1) (h2 : scopeGet σ1 sc name = some cur)
    (h3 : applyBinOp n σ1 op opLoc cur.v v.v = .err e σ2) :
    ∃ leaf, OpFailLeaf op cur.v v.v leaf ∧ e = Err.at opLoc leaf ∧
      evalStmt (n + k + 2) σ sc (.OpAssign (.mk (.Var name) loc) op opLoc rhs) = errAt opLoc leaf σ1 := by
  obtain ⟨hs, leaf, he, hl⟩ := applyBinOp_err_at h3
  subst he; rw [hs] at h3
  refine ⟨leaf, hl, rfl, ?_⟩
  have h1' : evalExpr (n + k + 1) σ sc rhs = .ok v σ1 := upExpr (k + 1) h1 (by nt)
  show evalStmt (n + k + 1 + 1) _ _ _ = _
  conv => lhs; unfold evalStmt
  simp only [h1', Res.bind]
  unfold bindNext
  simp only [bindNextName, hname, if_false, List.contains_nil, Bool.false_eq_true, h2, upBinOp k h3 (by nt), Res.bind, errAt]

/-- without `name ≠ "_"` the statement is false: `_ += "a"` with `_` … there is no `_`; the statement succeeds -/
theorem opAssign_underscore_no_op (n : Nat) (σ σ1 : State) (sc : List Addr) (op : BinaryOp) (opLoc loc : Loc) (rhs : Expr)
    (v : SVal) (h1 : evalExpr (n + 1) σ sc rhs = .ok v σ1) :
    evalStmt (n + 2) σ sc (.OpAssign (.mk (.Var c!"_") loc) op opLoc rhs) = .ok .none σ1 := by
  show evalStmt (n + 1 + 1) _ _ _ = _
  conv => lhs; unfold evalStmt
  simp only [h1, Res.bind]
  unfold bindNext
  simp only [bindNextName, if_true, Res.bind]

/-- **(2b)** `xs[i] op= rhs` on a list element: located at `opLoc` (not at `loc`, the position of the target `xs[i]`) -/
theorem opAssign_index_fail_at_opLoc (k : Nat) {ex locat : Expr} {a : Addr} {s : Option Val} {i : Nat} {items : List SVal}
    (h1 : evalExpr n σ sc rhs = .ok v σ1) (h2 : evalExpr n σ1 sc ex = .ok ⟨.list a, s⟩ σ2)
    (h3 : evalToIndex n σ2 sc locat = .ok i σ3) (h4 : σ3.getList a = some items) (h5 : items[i]? = some cur)
    (h6 : applyBinOp n σ3 op opLoc cur.v v.v = .err e σ4) :
    ∃ leaf, OpFailLeaf op cur.v v.v leaf ∧ e = Err.at opLoc leaf ∧
      evalStmt (n + k + 2) σ sc (.OpAssign (.mk (.Index ex locat) loc) op opLoc rhs) = errAt opLoc leaf σ3 := by
  obtain ⟨hs, leaf, he, hl⟩ := applyBinOp_err_at h6
  subst he; rw [hs] at h6
  refine ⟨leaf, hl, rfl, ?_⟩
  have h1' : evalExpr (n + k + 1) σ sc rhs = .ok v σ1 := upExpr (k + 1) h1 (by nt)
  show evalStmt (n + k + 1 + 1) _ _ _ = _
  conv => lhs; unfold evalStmt
  simp only [h1', Res.bind]
  unfold bindNext
  simp only [upExpr k h2 (by nt), upToIndex k h3 (by nt), h4, h5, opAssignValue, upBinOp k h6 (by nt), Res.bind, Res.map, errAt]

/-- **(2c)** `o[key] op= rhs` on an object property: located at `opLoc` -/
theorem opAssign_objIndex_fail_at_opLoc (k : Nat) {ex locat : Expr} {a : Addr} {s : Option Val} {name : List Char}
    {props : ObjMap}
    (h1 : evalExpr n σ sc rhs = .ok v σ1) (h2 : evalExpr n σ1 sc ex = .ok ⟨.obj a, s⟩ σ2)
    (h3 : evalToStr n σ2 sc c!"property" locat = .ok name σ3) (h4 : σ3.getObj a = some props)
    (h5 : objGet name props = some cur) (h6 : applyBinOp n σ3 op opLoc cur.v v.v = .err e σ4) :
    ∃ leaf, OpFailLeaf op cur.v v.v leaf ∧ e = Err.at opLoc leaf ∧
      evalStmt (n + k + 3) σ sc (.OpAssign (.mk (.Index ex locat) loc) op opLoc rhs) = errAt opLoc leaf σ3 := by
  obtain ⟨hs, leaf, he, hl⟩ := applyBinOp_err_at h6
  subst he; rw [hs] at h6
  refine ⟨leaf, hl, rfl, ?_⟩
  have h1' : evalExpr (n + k + 1 + 1) σ sc rhs = .ok v σ1 := upExpr (k + 2) h1 (by nt)
  have h2' : evalExpr (n + k + 1) σ1 sc ex = .ok ⟨.obj a, s⟩ σ2 := upExpr (k + 1) h2 (by nt)
  have h3' : evalToStr (n + k + 1) σ2 sc c!"property" locat = .ok name σ3 := upToStr (k + 1) h3 (by nt)
  show evalStmt (n + k + 1 + 1 + 1) _ _ _ = _
  conv => lhs; unfold evalStmt
  simp only [h1', Res.bind]
  unfold bindNext
  simp only [h2', h3', Res.bind]
  unfold bindProp
  simp only [h4, h5, opAssignValue, upBinOp k h6 (by nt), Res.bind, Res.map, errAt]

/-- **(2d)** `o.name op= rhs`: located at `opLoc` -/
theorem opAssign_prop_fail_at_opLoc (k : Nat) {ex : Expr} {a : Addr} {s : Option Val} {name : List Char} {props : ObjMap}
    (h1 : evalExpr n σ sc rhs = .ok v σ1) (h2 : evalExpr n σ1 sc ex = .ok ⟨.obj a, s⟩ σ2)
    (h4 : σ2.getObj a = some props) (h5 : objGet name props = some cur)
    (h6 : applyBinOp n σ2 op opLoc cur.v v.v = .err e σ4) :
    ∃ leaf, OpFailLeaf op cur.v v.v leaf ∧ e = Err.at opLoc leaf ∧
      evalStmt (n + k + 3) σ sc (.OpAssign (.mk (.Prop ex name false) loc) op opLoc rhs) = errAt opLoc leaf σ2 := by
  obtain ⟨hs, leaf, he, hl⟩ := applyBinOp_err_at h6
  subst he; rw [hs] at h6
  refine ⟨leaf, hl, rfl, ?_⟩
  have h1' : evalExpr (n + k + 1 + 1) σ sc rhs = .ok v σ1 := upExpr (k + 2) h1 (by nt)
  have h2' : evalExpr (n + k + 1) σ1 sc ex = .ok ⟨.obj a, s⟩ σ2 := upExpr (k + 1) h2 (by nt)
  show evalStmt (n + k + 1 + 1 + 1) _ _ _ = _
  conv => lhs; unfold evalStmt
  simp only [h1', Res.bind]
  unfold bindNext
  simp only [h2', Res.bind, Bool.false_eq_true, if_false]
  unfold bindProp
  simp only [h4, h5, opAssignValue, upBinOp k h6 (by nt), Res.bind, Res.map, errAt]

end opassign

/-! ## (3) names, calls, indices, properties: the node's own `loc`; a bad index value: the INDEX EXPRESSION's `loc` -/

section nodes
variable {n : Nat} {σ σ1 σ2 σ3 : State} {sc : List Addr} {loc : Loc}

/-- **(3a)** an undefined variable: at the variable node's own position (any fuel ≥ 1) -/
theorem undefined_var_at_loc (m : Nat) {name : List Char} (h : scopeGet σ sc name = none) :
    evalExpr (m + 1) σ sc (.mk (.Var name) loc) = errAt loc (Leaf.Undefined name) σ := by
  conv => lhs; unfold evalExpr
  simp only [h]

/-- `f(args)` is `evalCall` at the call node's `loc` -/
theorem call_eq (m : Nat) (f : Expr) (args : List ListItem) :
    evalExpr (m + 1) σ sc (.mk (.Call f args) loc) = evalCall m σ sc f args loc := by
  conv => lhs; unfold evalExpr

/-- **(3b)** calling a value that is not a function: at the CALL node's position (`loc` of `.Call`) -/
theorem call_non_func_at_loc (k : Nat) {f : Expr} {args : List ListItem} {argVals : List SVal} {fv : SVal}
    (h1 : evalListItems n σ sc args [] = .ok argVals σ1) (h2 : evalExpr n σ1 sc f = .ok fv σ2)
    (hb : ∀ name id, fv.v ≠ .builtin name id) (hf : ∀ a, fv.v ≠ .func a) :
    evalExpr (n + k + 2) σ sc (.mk (.Call f args) loc) = errAt loc (Leaf.CannotCallNonFunc fv.v.kind) σ2 := by
  show evalExpr (n + k + 1 + 1) _ _ _ = _
  rw [call_eq]
  conv => lhs; unfold evalCall
  simp only [upItems k h1 (by nt), upExpr k h2 (by nt), Res.bind]

/-- **(3c)** a wrong number of arguments (function without a collector): at the CALL node's position -/
theorem call_arity_mismatch_at_loc (k : Nat) {f : Expr} {args : List ListItem} {argVals : List SVal} {a : Addr}
    {s : Option Val} {fr : FuncRec}
    (h1 : evalListItems n σ sc args [] = .ok argVals σ1) (h2 : evalExpr n σ1 sc f = .ok ⟨.func a, s⟩ σ2)
    (h3 : σ2.getFunc a = some fr) (hc : fr.collect = false) (hne : fr.args.length ≠ argVals.length) :
    evalExpr (n + k + 2) σ sc (.mk (.Call f args) loc) =
      errAt loc (Leaf.ArgNumMismatch fr.args.length argVals.length) σ2 := by
  show evalExpr (n + k + 1 + 1) _ _ _ = _
  rw [call_eq]
  conv => lhs; unfold evalCall
  simp [upItems k h1 (by nt), upExpr k h2 (by nt), Res.bind, h3, hc, hne]

/-- … and too few arguments for a function with a collector: at the CALL node's position -/
theorem call_too_few_args_at_loc (k : Nat) {f : Expr} {args : List ListItem} {argVals : List SVal} {a : Addr}
    {s : Option Val} {fr : FuncRec}
    (h1 : evalListItems n σ sc args [] = .ok argVals σ1) (h2 : evalExpr n σ1 sc f = .ok ⟨.func a, s⟩ σ2)
    (h3 : σ2.getFunc a = some fr) (hc : fr.collect = true) (hlt : fr.args.length - 1 > argVals.length) :
    evalExpr (n + k + 2) σ sc (.mk (.Call f args) loc) =
      errAt loc (Leaf.TooFewArgs (fr.args.length - 1) argVals.length) σ2 := by
  show evalExpr (n + k + 1 + 1) _ _ _ = _
  rw [call_eq]
  conv => lhs; unfold evalCall
  simp [upItems k h1 (by nt), upExpr k h2 (by nt), Res.bind, h3, hc, hlt]

/-- **(3d)** a list index past the end: at the INDEX NODE's position (`loc` of `.Index`) -/
theorem index_list_oob_at_loc (k : Nat) {ex locat : Expr} {a : Addr} {s : Option Val} {i : Nat} {items : List SVal}
    (h1 : evalExpr n σ sc ex = .ok ⟨.list a, s⟩ σ1) (h2 : evalToIndex n σ1 sc locat = .ok i σ2)
    (h3 : σ2.getList a = some items) (h4 : items.length ≤ i) :
    evalExpr (n + k + 1) σ sc (.mk (.Index ex locat) loc) = errAt loc (Leaf.OutOfListBounds i) σ2 := by
  conv => lhs; unfold evalExpr
  simp only [upExpr k h1 (by nt), upToIndex k h2 (by nt), h3, Res.bind, List.getElem?_eq_none h4]

/-- … a string index past the end: at the index node's position -/
theorem index_str_oob_at_loc (k : Nat) {ex locat : Expr} {bs : Bytes} {s : Option Val} {i : Nat}
    (h1 : evalExpr n σ sc ex = .ok ⟨.str bs, s⟩ σ1) (h2 : evalToIndex n σ1 sc locat = .ok i σ2) (h4 : bs.length ≤ i) :
    evalExpr (n + k + 1) σ sc (.mk (.Index ex locat) loc) = errAt loc (Leaf.OutOfStringBounds i) σ2 := by
  conv => lhs; unfold evalExpr
  simp only [upExpr k h1 (by nt), upToIndex k h2 (by nt), Res.bind, List.getElem?_eq_none h4]

/-- **(3e)** a missing key `o[key]`: at the index node's position -/
theorem index_prop_missing_at_loc (k : Nat) {ex locat : Expr} {a : Addr} {s : Option Val} {name : List Char} {props : ObjMap}
    (h1 : evalExpr n σ sc ex = .ok ⟨.obj a, s⟩ σ1) (h2 : evalToStr n σ1 sc c!"property" locat = .ok name σ2)
    (h3 : σ2.getObj a = some props) (h4 : objGet name props = none) :
    evalExpr (n + k + 1) σ sc (.mk (.Index ex locat) loc) = errAt loc (Leaf.PropNotFound name) σ2 := by
  conv => lhs; unfold evalExpr
  simp only [upExpr k h1 (by nt), upToStr k h2 (by nt), h3, h4, Res.bind]

/-- … a missing property `o.name`: at the PROPERTY NODE's position (`loc` of `.Prop`) -/
theorem prop_missing_at_loc (k : Nat) {ex : Expr} {a : Addr} {s : Option Val} {name : List Char} {props : ObjMap}
    (h1 : evalExpr n σ sc ex = .ok ⟨.obj a, s⟩ σ1) (h3 : σ1.getObj a = some props) (h4 : objGet name props = none) :
    evalExpr (n + k + 1) σ sc (.mk (.Prop ex name false) loc) = errAt loc (Leaf.PropNotFound name) σ1 := by
  conv => lhs; unfold evalExpr
  simp only [upExpr k h1 (by nt), h3, h4, Res.bind, Bool.false_eq_true, if_false]

/-- … a property of a non-object: at the property node's position -/
theorem prop_on_non_object_at_loc (k : Nat) {ex : Expr} {v : SVal} {name : List Char}
    (h1 : evalExpr n σ sc ex = .ok v σ1) (hv : ∀ a, v.v ≠ .obj a) :
    evalExpr (n + k + 1) σ sc (.mk (.Prop ex name false) loc) = errAt loc (Leaf.PropAccessOnNonObject v.v.kind) σ1 := by
  conv => lhs; unfold evalExpr
  simp only [upExpr k h1 (by nt), Res.bind, Bool.false_eq_true, if_false]

/-- **(3f)** an index expression whose value is not an int: at the INDEX EXPRESSION's position `locat.loc` — not at the
    index node's `loc`, which is the start of the indexed expression.  (`evalToInt`, then through `evalToIndex`.) -/
theorem toInt_non_int_at_expr_loc (k : Nat) {descr : List Char} {e : Expr} {v : SVal}
    (h : evalExpr n σ sc e = .ok v σ1) (hv : ∀ j, v.v ≠ .int j) :
    evalToInt (n + k + 1) σ sc descr e = errAt e.loc (Leaf.IncorrectType descr c!"int" v.v.kind) σ1 := by
  conv => lhs; unfold evalToInt
  simp only [upExpr k h (by nt), Res.bind]

theorem toIndex_non_int_at_expr_loc (k : Nat) {e : Expr} {v : SVal}
    (h : evalExpr n σ sc e = .ok v σ1) (hv : ∀ j, v.v ≠ .int j) :
    evalToIndex (n + k + 2) σ sc e = errAt e.loc (Leaf.IncorrectType c!"index" c!"int" v.v.kind) σ1 := by
  show evalToIndex (n + k + 1 + 1) _ _ _ = _
  conv => lhs; unfold evalToIndex
  simp only [toInt_non_int_at_expr_loc k h hv, errAt, Res.bind]

/-- **(3g)** a negative index: at the INDEX EXPRESSION's position -/
theorem toIndex_negative_at_expr_loc (k : Nat) {e : Expr} {s : Option Val} {i : Int}
    (h : evalExpr n σ sc e = .ok ⟨.int i, s⟩ σ1) (hi : i < 0) :
    evalToIndex (n + k + 2) σ sc e = errAt e.loc (Leaf.NegativeIndex i) σ1 := by
  show evalToIndex (n + k + 1 + 1) _ _ _ = _
  conv => lhs; unfold evalToIndex
  have : evalToInt (n + k + 1) σ sc c!"index" e = .ok i σ1 := by
    conv => lhs; unfold evalToInt
    simp only [upExpr k h (by nt), Res.bind]
  simp only [this, Res.bind, hi, if_true]

/-- … seen from the index node `xs[e]` on a list: the error of the index expression is what the node returns, so the
    diagnostic is at `locat.loc` and not at the node's `loc` -/
theorem index_list_bad_index_at_index_expr_loc (k : Nat) {ex locat : Expr} {a : Addr} {s : Option Val} {e : Err}
    (h1 : evalExpr n σ sc ex = .ok ⟨.list a, s⟩ σ1) (h2 : evalToIndex n σ1 sc locat = .err e σ2) :
    evalExpr (n + k + 1) σ sc (.mk (.Index ex locat) loc) = .err e σ2 := by
  conv => lhs; unfold evalExpr
  simp only [upExpr k h1 (by nt), upToIndex k h2 (by nt), Res.bind]

/-- `xs[-1]`, `xs["a"]` in one statement each: a list, an index expression evaluating to a negative int / a non-int -/
theorem index_list_negative_at_index_expr_loc (k : Nat) {ex locat : Expr} {a : Addr} {s s' : Option Val} {i : Int}
    (h1 : evalExpr n σ sc ex = .ok ⟨.list a, s⟩ σ1) (h2 : evalExpr n σ1 sc locat = .ok ⟨.int i, s'⟩ σ2) (hi : i < 0) :
    evalExpr (n + k + 3) σ sc (.mk (.Index ex locat) loc) = errAt locat.loc (Leaf.NegativeIndex i) σ2 :=
  index_list_bad_index_at_index_expr_loc (n := n + k + 2) 0 (upExpr (k + 2) h1 (by nt))
    (toIndex_negative_at_expr_loc k h2 hi)

theorem index_list_non_int_at_index_expr_loc (k : Nat) {ex locat : Expr} {a : Addr} {s : Option Val} {v : SVal}
    (h1 : evalExpr n σ sc ex = .ok ⟨.list a, s⟩ σ1) (h2 : evalExpr n σ1 sc locat = .ok v σ2) (hv : ∀ j, v.v ≠ .int j) :
    evalExpr (n + k + 3) σ sc (.mk (.Index ex locat) loc) =
      errAt locat.loc (Leaf.IncorrectType c!"index" c!"int" v.v.kind) σ2 :=
  index_list_bad_index_at_index_expr_loc (n := n + k + 2) 0 (upExpr (k + 2) h1 (by nt))
    (toIndex_non_int_at_expr_loc k h2 hv)

end nodes

end Seed.C18A
