/-
  Lemmas/C18Attrib.lean — "attribution": WHICH stored position each kind of run-time diagnostic carries.

  `eval_uses_node_pos` (C18EvalPos*.lean) says every position of a diagnostic is SOME position stored in the tree;
  the theorems here say which one, construct by construct: if the sub-evaluations of a construct succeed and the
  construct itself fails, the error is `Err.at <the construct's own stored position> leaf` (`errAt p leaf σ`).

  Fuel: every theorem takes the sub-evaluations at some fuel `n` and concludes at every fuel `n + k + c`
  (`c` = the number of evaluator frames between the construct and the sub-evaluations), `k` arbitrary: fuel
  monotonicity (`monoAll`) lifts the hypotheses.
-/
import SeedProofs.Global
import SeedProofs.Lemmas.C18EvalPosProg
namespace Seed.C18A
open Seed Gen

/-! ## lifting results to larger fuel -/

theorem up {α} {f : Nat → Res α} (hmono : ∀ j, Res.Le (f j) (f (j + 1))) {n : Nat} {r : Res α}
    (h : f n = r) (hr : r ≠ .timeout) (k : Nat) : f (n + k) = r := by
  rcases Res.Le.of_step f hmono (Nat.le_add_right n k) with h' | h'
  · exact absurd (h ▸ h') hr
  · exact h' ▸ h

/-- `.ok … ≠ .timeout`, `.err … ≠ .timeout` -/
macro "nt" : tactic => `(tactic| (intro hnt; cases hnt))

section
variable {n : Nat} {σ : State} {sc : List Addr}

theorem upExpr {e : Expr} {r : Res SVal} (k : Nat) (h : evalExpr n σ sc e = r) (hr : r ≠ .timeout) :
    evalExpr (n + k) σ sc e = r :=
  up (f := fun j => evalExpr j σ sc e) (fun j => (monoAll j).evalExpr σ sc e) h hr k
theorem upToInt {d : List Char} {e : Expr} {r : Res Int} (k : Nat) (h : evalToInt n σ sc d e = r) (hr : r ≠ .timeout) :
    evalToInt (n + k) σ sc d e = r :=
  up (f := fun j => evalToInt j σ sc d e) (fun j => (monoAll j).evalToInt σ sc d e) h hr k
theorem upToIndex {e : Expr} {r : Res Nat} (k : Nat) (h : evalToIndex n σ sc e = r) (hr : r ≠ .timeout) :
    evalToIndex (n + k) σ sc e = r :=
  up (f := fun j => evalToIndex j σ sc e) (fun j => (monoAll j).evalToIndex σ sc e) h hr k
theorem upToStr {d : List Char} {e : Expr} {r : Res (List Char)} (k : Nat) (h : evalToStr n σ sc d e = r)
    (hr : r ≠ .timeout) : evalToStr (n + k) σ sc d e = r :=
  up (f := fun j => evalToStr j σ sc d e) (fun j => (monoAll j).evalToStr σ sc d e) h hr k
theorem upToBool {d : List Char} {e : Expr} {r : Res Bool} (k : Nat) (h : evalToBool n σ sc d e = r)
    (hr : r ≠ .timeout) : evalToBool (n + k) σ sc d e = r :=
  up (f := fun j => evalToBool j σ sc d e) (fun j => (monoAll j).evalToBool σ sc d e) h hr k
theorem upItems {items : List ListItem} {acc : List SVal} {r : Res (List SVal)} (k : Nat)
    (h : evalListItems n σ sc items acc = r) (hr : r ≠ .timeout) : evalListItems (n + k) σ sc items acc = r :=
  up (f := fun j => evalListItems j σ sc items acc) (fun j => (monoAll j).evalListItems σ sc items acc) h hr k
theorem upBlock {bs : List (Expr × SVal)} {ss : List Stmt} {r : Res Escape} (k : Nat)
    (h : evalBlock n σ sc bs ss = r) (hr : r ≠ .timeout) : evalBlock (n + k) σ sc bs ss = r :=
  up (f := fun j => evalBlock j σ sc bs ss) (fun j => (monoAll j).evalBlock σ sc bs ss) h hr k
theorem upStmts {ss : List Stmt} {r : Res Escape} (k : Nat)
    (h : evalStmts n σ sc ss = r) (hr : r ≠ .timeout) : evalStmts (n + k) σ sc ss = r :=
  up (f := fun j => evalStmts j σ sc ss) (fun j => (monoAll j).evalStmts σ sc ss) h hr k
theorem upBinOp {op : BinaryOp} {loc : Loc} {a b : Val} {r : Res Val} (k : Nat)
    (h : applyBinOp n σ op loc a b = r) (hr : r ≠ .timeout) : applyBinOp (n + k) σ op loc a b = r :=
  up (f := fun j => applyBinOp j σ op loc a b) (fun j => applyBinOp_mono j σ op loc a b) h hr k
end

/-! ## a state for the `example`s (each instantiates the hypotheses of the theorem before it)

  scope cell 0: `x = 1`, `s = "a"`, `xs = [5]`, `o = {k: 7}`, `f = fn() { break; }` (the `break` stored at 2:5),
  `g = fn(p) { }`, `h = fn(p, ..q) { }`, `c = fn() { continue; }` (the `continue` stored at 5:5) -/

abbrev V (name : List Char) (loc : Loc) : Expr := .mk (.Var name) loc
abbrev I (k : Int) (loc : Loc) : Expr := .mk (.Int k) loc
abbrev S (s : List Char) (loc : Loc) : Expr := .mk (.Str s none) loc

def frB : FuncRec := ⟨some c!"f", [], false, [.Break (2, 5)], [0]⟩
def frP : FuncRec := ⟨some c!"g", [V c!"p" (3, 6)], false, [], [0]⟩
def frC : FuncRec := ⟨some c!"h", [V c!"p" (4, 6), V c!"q" (4, 11)], true, [], [0]⟩
def frK : FuncRec := ⟨some c!"c", [], false, [.Continue (5, 5)], [0]⟩

def σe : State :=
  ⟨#[.scope [(c!"x", SVal.plain (.int 1), (1, 1)), (c!"s", SVal.plain (.str (utf8Encode c!"a")), (1, 1)),
            (c!"xs", SVal.plain (.list 1), (1, 1)), (c!"o", SVal.plain (.obj 2), (1, 1)),
            (c!"f", SVal.plain (.func 3), (1, 1)), (c!"g", SVal.plain (.func 4), (1, 1)),
            (c!"h", SVal.plain (.func 5), (1, 1)), (c!"c", SVal.plain (.func 6), (1, 1))],
     .list [SVal.plain (.int 5)], .obj [(c!"k", SVal.plain (.int 7))], .func frB, .func frP, .func frC, .func frK], []⟩

theorem ex_x (m : Nat) (l : Loc) : evalExpr (m + 1) σe [0] (V c!"x" l) = .ok (SVal.plain (.int 1)) σe := by
  conv => lhs; unfold evalExpr
  with_unfolding_all rfl
theorem ex_s (m : Nat) (l : Loc) : evalExpr (m + 1) σe [0] (V c!"s" l) = .ok (SVal.plain (.str (utf8Encode c!"a"))) σe := by
  conv => lhs; unfold evalExpr
  with_unfolding_all rfl
theorem ex_xs (m : Nat) (l : Loc) : evalExpr (m + 1) σe [0] (V c!"xs" l) = .ok ⟨.list 1, none⟩ σe := by
  conv => lhs; unfold evalExpr
  with_unfolding_all rfl
theorem ex_o (m : Nat) (l : Loc) : evalExpr (m + 1) σe [0] (V c!"o" l) = .ok ⟨.obj 2, none⟩ σe := by
  conv => lhs; unfold evalExpr
  with_unfolding_all rfl
theorem ex_lit (m : Nat) (t : List Char) (l : Loc) :
    evalExpr (m + 1) σe [0] (S t l) = .ok (SVal.plain (.str (utf8Encode t))) σe := by
  conv => lhs; unfold evalExpr
theorem ex_nope (m : Nat) (l : Loc) : evalExpr (m + 1) σe [0] (V c!"nope" l) = errAt l (Leaf.Undefined c!"nope") σe := by
  conv => lhs; unfold evalExpr
  with_unfolding_all rfl
theorem ex_noargs (m : Nat) : evalListItems (m + 1) σe [0] [] [] = .ok [] σe := by
  conv => lhs; unfold evalListItems

/-! ## (1) binary operations: the OPERATOR's position -/

/-- the leaves `applyBinOp` can fail with -/
inductive OpFailLeaf (op : BinaryOp) (a b : Val) : Leaf → Prop
  /-- operand types the operator is not defined on -/
  | types : OpFailLeaf op a b (Leaf.InvalidOpTypes op a.kind b.kind)
  /-- the result leaves the 64-bit range, or the divisor of `/`, `%` is zero (the code reports both as an overflow) -/
  | overflow {x y : Int} : a = .int x → b = .int y → OpFailLeaf op a b (Leaf.IntOverflow op x y)
  /-- `==` / `!=` on values of different types (at the top or inside containers) -/
  | eqTypes {lt rt msg : List Char} : OpFailLeaf op a b (Leaf.InvalidEqOpTypes op lt rt msg)

theorem arith_err {op : BinaryOp} {loc : Loc} {x y : Int} {σ σ' : State} {e : Err}
    (h : arith op loc x y σ = .err e σ') : σ' = σ ∧ e = Err.at loc (Leaf.IntOverflow op x y) := by
  unfold arith at h
  simp only [intOverflow] at h
  repeat' split at h
  all_goals first
    | (cases h; done)
    | (cases h; exact ⟨rfl, rfl⟩)

/-- **every failure of `applyBinOp … loc …` is located at `loc`**, in the state it was called in, with one of the three
    leaves above -/
theorem applyBinOp_err_at {n : Nat} {σ σ' : State} {op : BinaryOp} {loc : Loc} {a b : Val} {e : Err}
    (h : applyBinOp n σ op loc a b = .err e σ') : σ' = σ ∧ ∃ leaf, e = Err.at loc leaf ∧ OpFailLeaf op a b leaf := by
  unfold applyBinOp at h
  simp only [invalidOpTypes] at h
  repeat' split at h
  all_goals first
    | (cases h; done)
    | (cases h; exact ⟨rfl, _, rfl, .types⟩)
    | (cases h; exact ⟨rfl, _, rfl, .eqTypes⟩)
    | (obtain ⟨h1, h2⟩ := arith_err h; exact ⟨h1, _, h2, .overflow rfl rfl⟩)

/-- the three kinds of failure exist (so the hypotheses below are satisfiable), each located at the `loc` handed in:
    a type mismatch, an overflow, a zero divisor -/
theorem applyBinOp_type_mismatch (n : Nat) (σ : State) (loc : Loc) (x : Int) (s : Bytes) :
    applyBinOp n σ .Sum loc (.int x) (.str s) = .err (Err.at loc (Leaf.InvalidOpTypes .Sum .Int .Str)) σ := rfl
theorem applyBinOp_overflow (n : Nat) (σ : State) (loc : Loc) :
    applyBinOp n σ .Sum loc (.int 9223372036854775807) (.int 1) =
      .err (Err.at loc (Leaf.IntOverflow .Sum 9223372036854775807 1)) σ := by
  simp [applyBinOp, arith, inI64, intOverflow, i64Min, i64MaxI]
theorem applyBinOp_zero_divisor (n : Nat) (σ : State) (loc : Loc) (x : Int) :
    applyBinOp n σ .Div loc (.int x) (.int 0) = .err (Err.at loc (Leaf.IntOverflow .Div x 0)) σ := by
  simp [applyBinOp, arith, intOverflow]

section binop
variable {n : Nat} {σ σ1 σ2 σ3 : State} {sc : List Addr} {op : BinaryOp} {opLoc loc : Loc} {lhs rhs : Expr}
  {l r : SVal} {e : Err}

/-- an error of the left operand passes through the operation unchanged (the outer node adds no position) -/
theorem binop_lhs_err (k : Nat) (h1 : evalExpr n σ sc lhs = .err e σ1) :
    evalExpr (n + k + 1) σ sc (.mk (.BinaryOp op opLoc lhs rhs) loc) = .err e σ1 := by
  conv => lhs; unfold evalExpr
  simp only [upExpr k h1 (by nt), Res.bind]
example (k : Nat) : evalExpr (1 + k + 1) σe [0] (.mk (.BinaryOp .Sum (1, 6) (V c!"nope" (1, 1)) (V c!"x" (1, 8))) (1, 1)) =
    errAt (1, 1) (Leaf.Undefined c!"nope") σe := binop_lhs_err k (ex_nope 0 _)

/-- … and so does an error of the right operand -/
theorem binop_rhs_err (k : Nat) (h1 : evalExpr n σ sc lhs = .ok l σ1) (h2 : evalExpr n σ1 sc rhs = .err e σ2) :
    evalExpr (n + k + 1) σ sc (.mk (.BinaryOp op opLoc lhs rhs) loc) = .err e σ2 := by
  conv => lhs; unfold evalExpr
  simp only [upExpr k h1 (by nt), upExpr k h2 (by nt), Res.bind]
example (k : Nat) : evalExpr (1 + k + 1) σe [0] (.mk (.BinaryOp .Sum (1, 3) (V c!"x" (1, 1)) (V c!"nope" (1, 5))) (1, 1)) =
    errAt (1, 5) (Leaf.Undefined c!"nope") σe := binop_rhs_err k (ex_x 0 _) (ex_nope 0 _)

/-- the operation succeeds -/
theorem binop_ok (k : Nat) {v : Val} (h1 : evalExpr n σ sc lhs = .ok l σ1) (h2 : evalExpr n σ1 sc rhs = .ok r σ2)
    (h3 : applyBinOp n σ2 op opLoc l.v r.v = .ok v σ3) :
    evalExpr (n + k + 1) σ sc (.mk (.BinaryOp op opLoc lhs rhs) loc) = .ok (SVal.plain v) σ3 := by
  conv => lhs; unfold evalExpr
  simp only [upExpr k h1 (by nt), upExpr k h2 (by nt), upBinOp k h3 (by nt), Res.bind]
example (k : Nat) : evalExpr (1 + k + 1) σe [0] (.mk (.BinaryOp .Sum (1, 3) (V c!"x" (1, 1)) (V c!"x" (1, 5))) (1, 1)) =
    .ok (SVal.plain (.int 2)) σe :=
  binop_ok k (ex_x 0 _) (ex_x 0 _) (show applyBinOp 1 σe .Sum (1, 3) (.int 1) (.int 1) = .ok (.int 2) σe from by with_unfolding_all rfl)

/-- **(1)** both operands of `lhs op rhs` evaluate, the operation fails (type mismatch, overflow, zero divisor, `==` on
    different types): the diagnostic is located at `opLoc`, the position stored for the OPERATOR — not at the node's own
    `loc` (the start of the left operand), whatever `lhs` and `rhs` are -/
theorem binop_fail_at_opLoc (k : Nat) (h1 : evalExpr n σ sc lhs = .ok l σ1) (h2 : evalExpr n σ1 sc rhs = .ok r σ2)
    (h3 : applyBinOp n σ2 op opLoc l.v r.v = .err e σ3) :
    ∃ leaf, OpFailLeaf op l.v r.v leaf ∧ e = Err.at opLoc leaf ∧ σ3 = σ2 ∧
      evalExpr (n + k + 1) σ sc (.mk (.BinaryOp op opLoc lhs rhs) loc) = errAt opLoc leaf σ2 := by
  obtain ⟨hs, leaf, he, hl⟩ := applyBinOp_err_at h3
  subst hs he
  refine ⟨leaf, hl, rfl, rfl, ?_⟩
  conv => lhs; unfold evalExpr
  simp only [upExpr k h1 (by nt), upExpr k h2 (by nt), upBinOp k h3 (by nt), Res.bind, errAt]

end binop

/-- `x + s` with `x = 1`, `s = "a"`: the operator stored at `(1,3)`, the node (= its left operand) at `(1,1)` -/
example (k : Nat) : evalExpr (1 + k + 1) σe [0] (.mk (.BinaryOp .Sum (1, 3) (V c!"x" (1, 1)) (V c!"s" (1, 5))) (1, 1)) =
    errAt (1, 3) (Leaf.InvalidOpTypes .Sum .Int .Str) σe := by
  obtain ⟨leaf, _, he, _, h⟩ := binop_fail_at_opLoc (loc := (1, 1)) k (ex_x 0 (1, 1)) (ex_s 0 (1, 5))
    (applyBinOp_type_mismatch 1 σe (1, 3) 1 _)
  have : leaf = Leaf.InvalidOpTypes .Sum .Int .Str := by
    simp only [Err.at, Err.atLoc.injEq, Err.leaf.injEq, true_and] at he; exact he.symm
  rw [← this]; exact h

/-! ### a left-nested chain `a op1 b op2 c` = `BinaryOp op2 p2 (BinaryOp op1 p1 a b) c`: each operator at its own token -/

section chain
variable {n : Nat} {σ σ1 σ2 σ3 σ4 σ5 : State} {sc : List Addr} {op1 op2 : BinaryOp} {p1 p2 l1 l2 : Loc} {a b c : Expr}
  {va vb vc : SVal} {e : Err}

/-- the FIRST (inner) operator fails: reported at `p1`, the first operator's position (and `c` is never evaluated) -/
theorem chain_inner_fails (k : Nat) (ha : evalExpr n σ sc a = .ok va σ1) (hb : evalExpr n σ1 sc b = .ok vb σ2)
    (hop : applyBinOp n σ2 op1 p1 va.v vb.v = .err e σ3) :
    ∃ leaf, OpFailLeaf op1 va.v vb.v leaf ∧
      evalExpr (n + k + 2) σ sc (.mk (.BinaryOp op2 p2 (.mk (.BinaryOp op1 p1 a b) l1) c) l2) = errAt p1 leaf σ2 := by
  obtain ⟨leaf, hl, _, _, h⟩ := binop_fail_at_opLoc (loc := l1) k ha hb hop
  exact ⟨leaf, hl, binop_lhs_err (n := n + k + 1) 0 h⟩
/-- `x + s + x`: the first `+` (at 1:3) fails -/
example (k : Nat) := chain_inner_fails (op2 := .Sum) (p2 := (1, 7)) (l1 := (1, 1)) (l2 := (1, 1)) (c := V c!"x" (1, 9)) k
  (ex_x 0 (1, 1)) (ex_s 0 (1, 5)) (applyBinOp_type_mismatch 1 σe (1, 3) 1 _)

/-- the SECOND (outer) operator fails: reported at `p2`, the second operator's position -/
theorem chain_outer_fails (k : Nat) {v : Val} (ha : evalExpr n σ sc a = .ok va σ1) (hb : evalExpr n σ1 sc b = .ok vb σ2)
    (hop : applyBinOp n σ2 op1 p1 va.v vb.v = .ok v σ3) (hc : evalExpr n σ3 sc c = .ok vc σ4)
    (hop2 : applyBinOp n σ4 op2 p2 v vc.v = .err e σ5) :
    ∃ leaf, OpFailLeaf op2 v vc.v leaf ∧
      evalExpr (n + k + 2) σ sc (.mk (.BinaryOp op2 p2 (.mk (.BinaryOp op1 p1 a b) l1) c) l2) = errAt p2 leaf σ4 := by
  have hi := binop_ok (loc := l1) k ha hb hop
  have hc' : evalExpr (n + k + 1) σ3 sc c = .ok vc σ4 := upExpr (k + 1) hc (by nt)
  have hop2' : applyBinOp (n + k + 1) σ4 op2 p2 (SVal.plain v).v vc.v = .err e σ5 := upBinOp (k + 1) hop2 (by nt)
  obtain ⟨leaf, hl, _, _, h⟩ := binop_fail_at_opLoc (loc := l2) 0 hi hc' hop2'
  exact ⟨leaf, hl, h⟩
/-- `x + x + s`: the first `+` (at 1:3) gives 2, the second (at 1:7) fails -/
example (k : Nat) := chain_outer_fails (l1 := (1, 1)) (l2 := (1, 1)) k (ex_x 0 (1, 1)) (ex_x 0 (1, 5))
  (show applyBinOp 1 σe .Sum (1, 3) (.int 1) (.int 1) = .ok (.int 2) σe from by with_unfolding_all rfl)
  (ex_s 0 (1, 9)) (applyBinOp_type_mismatch 1 σe (1, 7) 2 _)

end chain

/-! ## (2) op-assignment: the op-assign OPERATOR's position, not the target's -/

section opassign
variable {n : Nat} {σ σ1 σ2 σ3 σ4 : State} {sc : List Addr} {op : BinaryOp} {opLoc loc : Loc} {rhs : Expr} {v cur : SVal}
  {e : Err}

/-- **(2a)** `x op= rhs`: `rhs` evaluates, `x` is defined, the operation fails: located at `opLoc` (not at `loc`, the
    position of `x`).  `name ≠ "_"` is needed: `_ op= rhs` binds nothing and never applies the operator
    (`opAssign_underscore_no_op` below). -/
theorem opAssign_var_fail_at_opLoc (k : Nat) {name : List Char} (hname : name ≠ c!"_")
    (h1 : evalExpr n σ sc rhs = .ok v σ1) (h2 : scopeGet σ1 sc name = some cur)
    (h3 : applyBinOp n σ1 op opLoc cur.v v.v = .err e σ2) :
    ∃ leaf, OpFailLeaf op cur.v v.v leaf ∧ e = Err.at opLoc leaf ∧
      evalStmt (n + k + 2) σ sc (.OpAssign (.mk (.Var name) loc) op opLoc rhs) = errAt opLoc leaf σ1 := by
  obtain ⟨hs, leaf, he, hl⟩ := applyBinOp_err_at h3
  subst he; rw [hs] at h3
  refine ⟨leaf, hl, rfl, ?_⟩
  have h1' : evalExpr (n + k + 1) σ sc rhs = .ok v σ1 := upExpr (k + 1) h1 (by nt)
  show evalStmt (n + k + 1 + 1) _ _ _ = _
  conv => lhs; unfold evalStmt
  simp only [h1', Res.bind]
  unfold bindNext
  simp only [bindNextName, hname, if_false, List.contains_nil, Bool.false_eq_true, h2, upBinOp k h3 (by nt), Res.bind, errAt]
/-- `x += "b"`: `x` at 1:1, `+=` at 1:3 -/
example (k : Nat) := opAssign_var_fail_at_opLoc (loc := (1, 1)) (name := c!"x") k (by decide) (ex_lit 0 c!"b" (1, 6))
  (show scopeGet σe [0] c!"x" = some (SVal.plain (.int 1)) from by with_unfolding_all rfl)
  (applyBinOp_type_mismatch 1 σe (1, 3) 1 _)

/-- without `name ≠ "_"` the statement is false: whatever the state holds under the name `_`, and whatever the operator
    would do, `_ op= rhs` evaluates `rhs` and succeeds (so it cannot be equal to `errAt opLoc …`) -/
theorem opAssign_underscore_no_op (n : Nat) (σ σ1 : State) (sc : List Addr) (op : BinaryOp) (opLoc loc : Loc) (rhs : Expr)
    (v : SVal) (h1 : evalExpr (n + 1) σ sc rhs = .ok v σ1) :
    evalStmt (n + 2) σ sc (.OpAssign (.mk (.Var c!"_") loc) op opLoc rhs) = .ok .none σ1 := by
  show evalStmt (n + 1 + 1) _ _ _ = _
  conv => lhs; unfold evalStmt
  simp only [h1, Res.bind]
  unfold bindNext
  simp only [bindNextName, if_true, Res.bind]
example := opAssign_underscore_no_op 0 σe σe [0] .Sum (1, 3) (1, 1) _ _ (ex_lit 0 c!"b" (1, 6))
/-- … through the whole pipeline: `_ += "a";` is accepted and does nothing -/
example : (run 60 c!"t.sd" c!"_ += \"a\";\n").status = .success := by decide +kernel

/-- **(2b)** `xs[i] op= rhs` on a list element: located at `opLoc` (not at `loc`, the position of the target `xs[i]`) -/
theorem opAssign_index_fail_at_opLoc (k : Nat) {ex locat : Expr} {a : Addr} {s : Option Val} {i : Nat} {items : List SVal}
    (h1 : evalExpr n σ sc rhs = .ok v σ1) (h2 : evalExpr n σ1 sc ex = .ok ⟨.list a, s⟩ σ2)
    (h3 : evalToIndex n σ2 sc locat = .ok i σ3) (h4 : σ3.getList a = some items) (h5 : items[i]? = some cur)
    (h6 : applyBinOp n σ3 op opLoc cur.v v.v = .err e σ4) :
    ∃ leaf, OpFailLeaf op cur.v v.v leaf ∧ e = Err.at opLoc leaf ∧
      evalStmt (n + k + 2) σ sc (.OpAssign (.mk (.Index ex locat) loc) op opLoc rhs) = errAt opLoc leaf σ3 := by
  obtain ⟨hs, leaf, he, hl⟩ := applyBinOp_err_at h6
  subst he; rw [hs] at h6
  refine ⟨leaf, hl, rfl, ?_⟩
  have h1' : evalExpr (n + k + 1) σ sc rhs = .ok v σ1 := upExpr (k + 1) h1 (by nt)
  show evalStmt (n + k + 1 + 1) _ _ _ = _
  conv => lhs; unfold evalStmt
  simp only [h1', Res.bind]
  unfold bindNext
  simp only [upExpr k h2 (by nt), upToIndex k h3 (by nt), h4, h5, opAssignValue, upBinOp k h6 (by nt), Res.bind, Res.map, errAt]
/-- `xs[0] += "b"`: target at 1:1, `+=` at 1:7 -/
example (k : Nat) := opAssign_index_fail_at_opLoc (loc := (1, 1)) (op := .Sum) (opLoc := (1, 7)) k
  (ex_lit 3 c!"b" (1, 10)) (ex_xs 3 (1, 1))
  (show evalToIndex 4 σe [0] (I 0 (1, 4)) = .ok 0 σe from by with_unfolding_all rfl)
  (show σe.getList 1 = some [SVal.plain (.int 5)] from by rfl) (show [SVal.plain (.int 5)][0]? = some (SVal.plain (.int 5)) from rfl)
  (applyBinOp_type_mismatch 4 σe (1, 7) 5 _)

/-- **(2c)** `o[key] op= rhs` on an object property: located at `opLoc` -/
theorem opAssign_objIndex_fail_at_opLoc (k : Nat) {ex locat : Expr} {a : Addr} {s : Option Val} {name : List Char}
    {props : ObjMap}
    (h1 : evalExpr n σ sc rhs = .ok v σ1) (h2 : evalExpr n σ1 sc ex = .ok ⟨.obj a, s⟩ σ2)
    (h3 : evalToStr n σ2 sc c!"property" locat = .ok name σ3) (h4 : σ3.getObj a = some props)
    (h5 : objGet name props = some cur) (h6 : applyBinOp n σ3 op opLoc cur.v v.v = .err e σ4) :
    ∃ leaf, OpFailLeaf op cur.v v.v leaf ∧ e = Err.at opLoc leaf ∧
      evalStmt (n + k + 3) σ sc (.OpAssign (.mk (.Index ex locat) loc) op opLoc rhs) = errAt opLoc leaf σ3 := by
  obtain ⟨hs, leaf, he, hl⟩ := applyBinOp_err_at h6
  subst he; rw [hs] at h6
  refine ⟨leaf, hl, rfl, ?_⟩
  have h1' : evalExpr (n + k + 1 + 1) σ sc rhs = .ok v σ1 := upExpr (k + 2) h1 (by nt)
  have h2' : evalExpr (n + k + 1) σ1 sc ex = .ok ⟨.obj a, s⟩ σ2 := upExpr (k + 1) h2 (by nt)
  have h3' : evalToStr (n + k + 1) σ2 sc c!"property" locat = .ok name σ3 := upToStr (k + 1) h3 (by nt)
  show evalStmt (n + k + 1 + 1 + 1) _ _ _ = _
  conv => lhs; unfold evalStmt
  simp only [h1', Res.bind]
  unfold bindNext
  simp only [h2', h3', Res.bind]
  unfold bindProp
  simp only [h4, h5, opAssignValue, upBinOp k h6 (by nt), Res.bind, Res.map, errAt]
/-- `o["k"] += "b"`: target at 1:1, `+=` at 1:8 -/
example (k : Nat) := opAssign_objIndex_fail_at_opLoc (loc := (1, 1)) (op := .Sum) (opLoc := (1, 8)) (cur := SVal.plain (.int 7)) k
  (ex_lit 2 c!"b" (1, 11)) (ex_o 2 (1, 1))
  (show evalToStr 3 σe [0] c!"property" (S c!"k" (1, 3)) = .ok c!"k" σe from by with_unfolding_all rfl)
  (show σe.getObj 2 = some [(c!"k", SVal.plain (.int 7))] from by rfl) (by decide)
  (applyBinOp_type_mismatch 3 σe (1, 8) 7 _)

/-- **(2d)** `o.name op= rhs`: located at `opLoc` -/
theorem opAssign_prop_fail_at_opLoc (k : Nat) {ex : Expr} {a : Addr} {s : Option Val} {name : List Char} {props : ObjMap}
    (h1 : evalExpr n σ sc rhs = .ok v σ1) (h2 : evalExpr n σ1 sc ex = .ok ⟨.obj a, s⟩ σ2)
    (h4 : σ2.getObj a = some props) (h5 : objGet name props = some cur)
    (h6 : applyBinOp n σ2 op opLoc cur.v v.v = .err e σ4) :
    ∃ leaf, OpFailLeaf op cur.v v.v leaf ∧ e = Err.at opLoc leaf ∧
      evalStmt (n + k + 3) σ sc (.OpAssign (.mk (.Prop ex name false) loc) op opLoc rhs) = errAt opLoc leaf σ2 := by
  obtain ⟨hs, leaf, he, hl⟩ := applyBinOp_err_at h6
  subst he; rw [hs] at h6
  refine ⟨leaf, hl, rfl, ?_⟩
  have h1' : evalExpr (n + k + 1 + 1) σ sc rhs = .ok v σ1 := upExpr (k + 2) h1 (by nt)
  have h2' : evalExpr (n + k + 1) σ1 sc ex = .ok ⟨.obj a, s⟩ σ2 := upExpr (k + 1) h2 (by nt)
  show evalStmt (n + k + 1 + 1 + 1) _ _ _ = _
  conv => lhs; unfold evalStmt
  simp only [h1', Res.bind]
  unfold bindNext
  simp only [h2', Res.bind, Bool.false_eq_true, if_false]
  unfold bindProp
  simp only [h4, h5, opAssignValue, upBinOp k h6 (by nt), Res.bind, Res.map, errAt]
/-- `o.k += "b"`: target at 1:1, `+=` at 1:5 -/
example (k : Nat) := opAssign_prop_fail_at_opLoc (loc := (1, 1)) (op := .Sum) (opLoc := (1, 5)) (name := c!"k")
  (cur := SVal.plain (.int 7)) k
  (ex_lit 0 c!"b" (1, 8)) (ex_o 0 (1, 1))
  (show σe.getObj 2 = some [(c!"k", SVal.plain (.int 7))] from by rfl) (by decide)
  (applyBinOp_type_mismatch 1 σe (1, 5) 7 _)

end opassign

/-! ## (3) names, calls, indices, properties: the node's own `loc`; a bad index value: the INDEX EXPRESSION's `loc` -/

section nodes
variable {n : Nat} {σ σ1 σ2 σ3 : State} {sc : List Addr} {loc : Loc}

/-- **(3a)** an undefined variable: at the variable node's own position (any fuel ≥ 1) -/
theorem undefined_var_at_loc (m : Nat) {name : List Char} (h : scopeGet σ sc name = none) :
    evalExpr (m + 1) σ sc (.mk (.Var name) loc) = errAt loc (Leaf.Undefined name) σ := by
  conv => lhs; unfold evalExpr
  simp only [h]
example (m : Nat) := undefined_var_at_loc (σ := σe) (sc := [0]) (loc := (3, 4)) (name := c!"nope") m (by with_unfolding_all rfl)

/-- `f(args)` is `evalCall` at the call node's `loc` -/
theorem call_eq (m : Nat) (f : Expr) (args : List ListItem) :
    evalExpr (m + 1) σ sc (.mk (.Call f args) loc) = evalCall m σ sc f args loc := by
  conv => lhs; unfold evalExpr

/-- **(3b)** calling a value that is not a function: at the CALL node's position (`loc` of `.Call`) -/
theorem call_non_func_at_loc (k : Nat) {f : Expr} {args : List ListItem} {argVals : List SVal} {fv : SVal}
    (h1 : evalListItems n σ sc args [] = .ok argVals σ1) (h2 : evalExpr n σ1 sc f = .ok fv σ2)
    (hb : ∀ name id, fv.v ≠ .builtin name id) (hf : ∀ a, fv.v ≠ .func a) :
    evalExpr (n + k + 2) σ sc (.mk (.Call f args) loc) = errAt loc (Leaf.CannotCallNonFunc fv.v.kind) σ2 := by
  show evalExpr (n + k + 1 + 1) _ _ _ = _
  rw [call_eq]
  conv => lhs; unfold evalCall
  simp only [upItems k h1 (by nt), upExpr k h2 (by nt), Res.bind]
/-- `x()` with `x = 1`: at the call node -/
example (k : Nat) := call_non_func_at_loc (loc := (7, 1)) k (ex_noargs 0) (ex_x 0 (7, 1))
  (fun _ _ h => by cases h) (fun _ h => by cases h)

/-- **(3c)** a wrong number of arguments (function without a collector): at the CALL node's position -/
theorem call_arity_mismatch_at_loc (k : Nat) {f : Expr} {args : List ListItem} {argVals : List SVal} {a : Addr}
    {s : Option Val} {fr : FuncRec}
    (h1 : evalListItems n σ sc args [] = .ok argVals σ1) (h2 : evalExpr n σ1 sc f = .ok ⟨.func a, s⟩ σ2)
    (h3 : σ2.getFunc a = some fr) (hc : fr.collect = false) (hne : fr.args.length ≠ argVals.length) :
    evalExpr (n + k + 2) σ sc (.mk (.Call f args) loc) =
      errAt loc (Leaf.ArgNumMismatch fr.args.length argVals.length) σ2 := by
  show evalExpr (n + k + 1 + 1) _ _ _ = _
  rw [call_eq]
  conv => lhs; unfold evalCall
  simp [upItems k h1 (by nt), upExpr k h2 (by nt), Res.bind, h3, hc, hne]
/-- `g()` for `fn g(p)` -/
example (k : Nat) := call_arity_mismatch_at_loc (loc := (7, 1)) k (ex_noargs 0)
  (show evalExpr 1 σe [0] (V c!"g" (7, 1)) = .ok ⟨.func 4, none⟩ σe from by with_unfolding_all rfl)
  (show σe.getFunc 4 = some frP from by rfl) rfl (by decide)

/-- … and too few arguments for a function with a collector: at the CALL node's position -/
theorem call_too_few_args_at_loc (k : Nat) {f : Expr} {args : List ListItem} {argVals : List SVal} {a : Addr}
    {s : Option Val} {fr : FuncRec}
    (h1 : evalListItems n σ sc args [] = .ok argVals σ1) (h2 : evalExpr n σ1 sc f = .ok ⟨.func a, s⟩ σ2)
    (h3 : σ2.getFunc a = some fr) (hc : fr.collect = true) (hlt : fr.args.length - 1 > argVals.length) :
    evalExpr (n + k + 2) σ sc (.mk (.Call f args) loc) =
      errAt loc (Leaf.TooFewArgs (fr.args.length - 1) argVals.length) σ2 := by
  show evalExpr (n + k + 1 + 1) _ _ _ = _
  rw [call_eq]
  conv => lhs; unfold evalCall
  simp [upItems k h1 (by nt), upExpr k h2 (by nt), Res.bind, h3, hc, hlt]
/-- `h()` for `fn h(p, ..q)` -/
example (k : Nat) := call_too_few_args_at_loc (loc := (7, 1)) k (ex_noargs 0)
  (show evalExpr 1 σe [0] (V c!"h" (7, 1)) = .ok ⟨.func 5, none⟩ σe from by with_unfolding_all rfl)
  (show σe.getFunc 5 = some frC from by rfl) rfl (by decide)

/-- **(3d)** a list index past the end: at the INDEX NODE's position (`loc` of `.Index`) -/
theorem index_list_oob_at_loc (k : Nat) {ex locat : Expr} {a : Addr} {s : Option Val} {i : Nat} {items : List SVal}
    (h1 : evalExpr n σ sc ex = .ok ⟨.list a, s⟩ σ1) (h2 : evalToIndex n σ1 sc locat = .ok i σ2)
    (h3 : σ2.getList a = some items) (h4 : items.length ≤ i) :
    evalExpr (n + k + 1) σ sc (.mk (.Index ex locat) loc) = errAt loc (Leaf.OutOfListBounds i) σ2 := by
  conv => lhs; unfold evalExpr
  simp only [upExpr k h1 (by nt), upToIndex k h2 (by nt), h3, Res.bind, List.getElem?_eq_none h4]
/-- `xs[3]` -/
example (k : Nat) := index_list_oob_at_loc (loc := (1, 1)) k (ex_xs 3 (1, 1))
  (show evalToIndex 4 σe [0] (I 3 (1, 4)) = .ok 3 σe from by with_unfolding_all rfl)
  (show σe.getList 1 = some [SVal.plain (.int 5)] from by rfl) (by decide)

/-- … a string index past the end: at the index node's position -/
theorem index_str_oob_at_loc (k : Nat) {ex locat : Expr} {bs : Bytes} {s : Option Val} {i : Nat}
    (h1 : evalExpr n σ sc ex = .ok ⟨.str bs, s⟩ σ1) (h2 : evalToIndex n σ1 sc locat = .ok i σ2) (h4 : bs.length ≤ i) :
    evalExpr (n + k + 1) σ sc (.mk (.Index ex locat) loc) = errAt loc (Leaf.OutOfStringBounds i) σ2 := by
  conv => lhs; unfold evalExpr
  simp only [upExpr k h1 (by nt), upToIndex k h2 (by nt), Res.bind, List.getElem?_eq_none h4]
/-- `s[3]` -/
example (k : Nat) := index_str_oob_at_loc (loc := (1, 1)) k
  (show evalExpr 4 σe [0] (V c!"s" (1, 1)) = .ok ⟨.str (utf8Encode c!"a"), none⟩ σe from ex_s 3 _)
  (show evalToIndex 4 σe [0] (I 3 (1, 3)) = .ok 3 σe from by with_unfolding_all rfl) (by decide)

/-- **(3e)** a missing key `o[key]`: at the index node's position -/
theorem index_prop_missing_at_loc (k : Nat) {ex locat : Expr} {a : Addr} {s : Option Val} {name : List Char} {props : ObjMap}
    (h1 : evalExpr n σ sc ex = .ok ⟨.obj a, s⟩ σ1) (h2 : evalToStr n σ1 sc c!"property" locat = .ok name σ2)
    (h3 : σ2.getObj a = some props) (h4 : objGet name props = none) :
    evalExpr (n + k + 1) σ sc (.mk (.Index ex locat) loc) = errAt loc (Leaf.PropNotFound name) σ2 := by
  conv => lhs; unfold evalExpr
  simp only [upExpr k h1 (by nt), upToStr k h2 (by nt), h3, h4, Res.bind]
/-- `o["z"]` -/
example (k : Nat) := index_prop_missing_at_loc (loc := (1, 1)) k (ex_o 2 (1, 1))
  (show evalToStr 3 σe [0] c!"property" (S c!"z" (1, 3)) = .ok c!"z" σe from by with_unfolding_all rfl)
  (show σe.getObj 2 = some [(c!"k", SVal.plain (.int 7))] from by rfl) (by decide)

/-- … a missing property `o.name`: at the PROPERTY NODE's position (`loc` of `.Prop`) -/
theorem prop_missing_at_loc (k : Nat) {ex : Expr} {a : Addr} {s : Option Val} {name : List Char} {props : ObjMap}
    (h1 : evalExpr n σ sc ex = .ok ⟨.obj a, s⟩ σ1) (h3 : σ1.getObj a = some props) (h4 : objGet name props = none) :
    evalExpr (n + k + 1) σ sc (.mk (.Prop ex name false) loc) = errAt loc (Leaf.PropNotFound name) σ1 := by
  conv => lhs; unfold evalExpr
  simp only [upExpr k h1 (by nt), h3, h4, Res.bind, Bool.false_eq_true, if_false]
/-- `o.z` -/
example (k : Nat) := prop_missing_at_loc (loc := (1, 1)) (name := c!"z") k (ex_o 0 (1, 1))
  (show σe.getObj 2 = some [(c!"k", SVal.plain (.int 7))] from by rfl) (by decide)

/-- … a property of a non-object: at the property node's position -/
theorem prop_on_non_object_at_loc (k : Nat) {ex : Expr} {v : SVal} {name : List Char}
    (h1 : evalExpr n σ sc ex = .ok v σ1) (hv : ∀ a, v.v ≠ .obj a) :
    evalExpr (n + k + 1) σ sc (.mk (.Prop ex name false) loc) = errAt loc (Leaf.PropAccessOnNonObject v.v.kind) σ1 := by
  conv => lhs; unfold evalExpr
  simp only [upExpr k h1 (by nt), Res.bind, Bool.false_eq_true, if_false]
/-- `x.z` -/
example (k : Nat) := prop_on_non_object_at_loc (loc := (1, 1)) (name := c!"z") k (ex_x 0 (1, 1)) (fun _ h => by cases h)

/-- **(3f)** an index expression whose value is not an int: at the INDEX EXPRESSION's position `locat.loc` — not at the
    index node's `loc`, which is the start of the indexed expression.  (`evalToInt`, then through `evalToIndex`.) -/
theorem toInt_non_int_at_expr_loc (k : Nat) {descr : List Char} {e : Expr} {v : SVal}
    (h : evalExpr n σ sc e = .ok v σ1) (hv : ∀ j, v.v ≠ .int j) :
    evalToInt (n + k + 1) σ sc descr e = errAt e.loc (Leaf.IncorrectType descr c!"int" v.v.kind) σ1 := by
  conv => lhs; unfold evalToInt
  simp only [upExpr k h (by nt), Res.bind]
example (k : Nat) := toInt_non_int_at_expr_loc (descr := c!"index") k (ex_s 0 (1, 4)) (fun _ h => by cases h)

theorem toIndex_non_int_at_expr_loc (k : Nat) {e : Expr} {v : SVal}
    (h : evalExpr n σ sc e = .ok v σ1) (hv : ∀ j, v.v ≠ .int j) :
    evalToIndex (n + k + 2) σ sc e = errAt e.loc (Leaf.IncorrectType c!"index" c!"int" v.v.kind) σ1 := by
  show evalToIndex (n + k + 1 + 1) _ _ _ = _
  conv => lhs; unfold evalToIndex
  simp only [toInt_non_int_at_expr_loc k h hv, errAt, Res.bind]
example (k : Nat) := toIndex_non_int_at_expr_loc k (ex_s 0 (1, 4)) (fun _ h => by cases h)

/-- **(3g)** a negative index: at the INDEX EXPRESSION's position -/
theorem toIndex_negative_at_expr_loc (k : Nat) {e : Expr} {s : Option Val} {i : Int}
    (h : evalExpr n σ sc e = .ok ⟨.int i, s⟩ σ1) (hi : i < 0) :
    evalToIndex (n + k + 2) σ sc e = errAt e.loc (Leaf.NegativeIndex i) σ1 := by
  show evalToIndex (n + k + 1 + 1) _ _ _ = _
  conv => lhs; unfold evalToIndex
  have : evalToInt (n + k + 1) σ sc c!"index" e = .ok i σ1 := by
    conv => lhs; unfold evalToInt
    simp only [upExpr k h (by nt), Res.bind]
  simp only [this, Res.bind, hi, if_true]
example (k : Nat) := toIndex_negative_at_expr_loc k
  (show evalExpr 1 σe [0] (I (-1) (1, 4)) = .ok ⟨.int (-1), none⟩ σe from by with_unfolding_all rfl) (by decide)

/-- … seen from the index node `xs[e]` on a list: the error of the index expression is what the node returns, so the
    diagnostic is at `locat.loc` and not at the node's `loc` -/
theorem index_list_bad_index_at_index_expr_loc (k : Nat) {ex locat : Expr} {a : Addr} {s : Option Val} {e : Err}
    (h1 : evalExpr n σ sc ex = .ok ⟨.list a, s⟩ σ1) (h2 : evalToIndex n σ1 sc locat = .err e σ2) :
    evalExpr (n + k + 1) σ sc (.mk (.Index ex locat) loc) = .err e σ2 := by
  conv => lhs; unfold evalExpr
  simp only [upExpr k h1 (by nt), upToIndex k h2 (by nt), Res.bind]
example (k : Nat) := index_list_bad_index_at_index_expr_loc (loc := (1, 1)) k (ex_xs 2 (1, 1))
  (toIndex_non_int_at_expr_loc 0 (ex_s 0 (1, 4)) (fun _ h => by cases h))

/-- `xs[-1]`, `xs["a"]` in one statement each: a list, an index expression evaluating to a negative int / a non-int -/
theorem index_list_negative_at_index_expr_loc (k : Nat) {ex locat : Expr} {a : Addr} {s s' : Option Val} {i : Int}
    (h1 : evalExpr n σ sc ex = .ok ⟨.list a, s⟩ σ1) (h2 : evalExpr n σ1 sc locat = .ok ⟨.int i, s'⟩ σ2) (hi : i < 0) :
    evalExpr (n + k + 3) σ sc (.mk (.Index ex locat) loc) = errAt locat.loc (Leaf.NegativeIndex i) σ2 :=
  index_list_bad_index_at_index_expr_loc (n := n + k + 2) 0 (upExpr (k + 2) h1 (by nt))
    (toIndex_negative_at_expr_loc k h2 hi)
/-- `xs[-1]`: the node at 1:1, the index expression at 1:4 -/
example (k : Nat) : evalExpr (1 + k + 3) σe [0] (.mk (.Index (V c!"xs" (1, 1)) (I (-1) (1, 4))) (1, 1)) =
    errAt (1, 4) (Leaf.NegativeIndex (-1)) σe :=
  index_list_negative_at_index_expr_loc k (ex_xs 0 (1, 1))
    (show evalExpr 1 σe [0] (I (-1) (1, 4)) = .ok ⟨.int (-1), none⟩ σe from by with_unfolding_all rfl) (by decide)

theorem index_list_non_int_at_index_expr_loc (k : Nat) {ex locat : Expr} {a : Addr} {s : Option Val} {v : SVal}
    (h1 : evalExpr n σ sc ex = .ok ⟨.list a, s⟩ σ1) (h2 : evalExpr n σ1 sc locat = .ok v σ2) (hv : ∀ j, v.v ≠ .int j) :
    evalExpr (n + k + 3) σ sc (.mk (.Index ex locat) loc) =
      errAt locat.loc (Leaf.IncorrectType c!"index" c!"int" v.v.kind) σ2 :=
  index_list_bad_index_at_index_expr_loc (n := n + k + 2) 0 (upExpr (k + 2) h1 (by nt))
    (toIndex_non_int_at_expr_loc k h2 hv)
/-- `xs[s]` -/
example (k : Nat) : evalExpr (1 + k + 3) σe [0] (.mk (.Index (V c!"xs" (1, 1)) (V c!"s" (1, 4))) (1, 1)) =
    errAt (1, 4) (Leaf.IncorrectType c!"index" c!"int" .Str) σe :=
  index_list_non_int_at_index_expr_loc k (ex_xs 0 (1, 1)) (ex_s 0 (1, 4)) (fun _ h => by cases h)

end nodes

/-! ## (4) `break` / `continue` / `return` outside their construct: the KEYWORD's position -/

/-- the parameter bindings and the state `evalCall` runs the body with (a copy of the `let`s of `evalCall`) -/
def callFrame (σ2 : State) (fr : FuncRec) (fv : SVal) (argVals : List SVal) (loc : Loc) : List (Expr × SVal) × State :=
  let (plainVals, σ3) :=
    if fr.collect then
      let (ra, σ3) := σ2.alloc (.list (argVals.drop (fr.args.length - 1)))
      (argVals.take (fr.args.length - 1) ++ [SVal.plain (.list ra)], σ3)
    else (argVals, σ2)
  let bindings := fr.args.zip plainVals
  let bindings :=
    match fv.src with
    | some this => bindings ++ [(Expr.mk (.Var c!"this") loc, SVal.plain this)]
    | none => bindings
  (bindings, σ3)

/-- what a call does with the escape its body ends in -/
def callResult (esc : Escape) (σ4 : State) : Res SVal :=
  match esc with
  | .none => .ok (SVal.plain .null) σ4
  | .brk l => errAt l Leaf.BreakOutsideLoop σ4
  | .cont l => errAt l Leaf.ContinueOutsideLoop σ4
  | .ret v _ => .ok v σ4

section calls
variable {n : Nat} {σ σ1 σ2 σ4 : State} {sc : List Addr} {loc : Loc} {f : Expr} {args : List ListItem}
  {argVals : List SVal} {a : Addr} {s : Option Val} {fr : FuncRec}

/-- a call of a user function with an accepted number of arguments whose body runs to the escape `esc` -/
theorem call_body_escape (k : Nat) {esc : Escape}
    (h1 : evalListItems n σ sc args [] = .ok argVals σ1) (h2 : evalExpr n σ1 sc f = .ok ⟨.func a, s⟩ σ2)
    (h3 : σ2.getFunc a = some fr)
    (hA : (fr.collect && decide (fr.args.length - 1 > argVals.length)) = false)
    (hB : (!fr.collect && decide (fr.args.length ≠ argVals.length)) = false)
    (h4 : evalBlock n (callFrame σ2 fr ⟨.func a, s⟩ argVals loc).2 fr.closure (callFrame σ2 fr ⟨.func a, s⟩ argVals loc).1 fr.stmts
      = .ok esc σ4) :
    evalExpr (n + k + 2) σ sc (.mk (.Call f args) loc) = callResult esc σ4 := by
  show evalExpr (n + k + 1 + 1) _ _ _ = _
  rw [call_eq]
  conv => lhs; unfold evalCall
  simp only [upItems k h1 (by nt), upExpr k h2 (by nt), Res.bind, h3, hA, hB, Bool.false_eq_true, if_false]
  have h4' := upBlock k h4 (by nt)
  cases s <;> (simp only [callFrame] at h4'; simp only [h4', Res.mapErr]; cases esc <;> rfl)
/-- `c()` for `fn c() { continue; }` (the body ends in `.cont (5,5)`) -/
example (k : Nat) := call_body_escape (loc := (7, 1)) k (ex_noargs 2)
  (show evalExpr 3 σe [0] (V c!"c" (7, 1)) = .ok ⟨.func 6, none⟩ σe from by with_unfolding_all rfl)
  (show σe.getFunc 6 = some frK from by rfl) rfl rfl
  (show evalBlock 3 (callFrame σe frK ⟨.func 6, none⟩ [] (7, 1)).2 frK.closure (callFrame σe frK ⟨.func 6, none⟩ [] (7, 1)).1 frK.stmts
      = .ok (.cont (5, 5)) (σe.alloc (.scope [])).2 from by with_unfolding_all rfl)

/-- **(4a)** a `break` that escapes the body of a called function: located at the position stored in the `break`
    statement (`.brk l`) — not at the call's `loc`, and without a call frame around it -/
theorem break_escaping_call_at_keyword (k : Nat) {l : Loc}
    (h1 : evalListItems n σ sc args [] = .ok argVals σ1) (h2 : evalExpr n σ1 sc f = .ok ⟨.func a, s⟩ σ2)
    (h3 : σ2.getFunc a = some fr)
    (hA : (fr.collect && decide (fr.args.length - 1 > argVals.length)) = false)
    (hB : (!fr.collect && decide (fr.args.length ≠ argVals.length)) = false)
    (h4 : evalBlock n (callFrame σ2 fr ⟨.func a, s⟩ argVals loc).2 fr.closure (callFrame σ2 fr ⟨.func a, s⟩ argVals loc).1 fr.stmts
      = .ok (.brk l) σ4) :
    evalExpr (n + k + 2) σ sc (.mk (.Call f args) loc) = errAt l Leaf.BreakOutsideLoop σ4 :=
  call_body_escape k h1 h2 h3 hA hB h4
/-- `f()` called at 7:1 for `fn f() { break; }` with the `break` at 2:5: reported at 2:5 -/
example (k : Nat) : evalExpr (3 + k + 2) σe [0] (.mk (.Call (V c!"f" (7, 1)) []) (7, 1)) =
    errAt (2, 5) Leaf.BreakOutsideLoop (σe.alloc (.scope [])).2 :=
  break_escaping_call_at_keyword k (ex_noargs 2)
    (show evalExpr 3 σe [0] (V c!"f" (7, 1)) = .ok ⟨.func 3, none⟩ σe from by with_unfolding_all rfl)
    (show σe.getFunc 3 = some frB from by rfl) rfl rfl
    (show evalBlock 3 (callFrame σe frB ⟨.func 3, none⟩ [] (7, 1)).2 frB.closure (callFrame σe frB ⟨.func 3, none⟩ [] (7, 1)).1 frB.stmts
      = .ok (.brk (2, 5)) (σe.alloc (.scope [])).2 from by with_unfolding_all rfl)

/-- **(4b)** … and a `continue` -/
theorem continue_escaping_call_at_keyword (k : Nat) {l : Loc}
    (h1 : evalListItems n σ sc args [] = .ok argVals σ1) (h2 : evalExpr n σ1 sc f = .ok ⟨.func a, s⟩ σ2)
    (h3 : σ2.getFunc a = some fr)
    (hA : (fr.collect && decide (fr.args.length - 1 > argVals.length)) = false)
    (hB : (!fr.collect && decide (fr.args.length ≠ argVals.length)) = false)
    (h4 : evalBlock n (callFrame σ2 fr ⟨.func a, s⟩ argVals loc).2 fr.closure (callFrame σ2 fr ⟨.func a, s⟩ argVals loc).1 fr.stmts
      = .ok (.cont l) σ4) :
    evalExpr (n + k + 2) σ sc (.mk (.Call f args) loc) = errAt l Leaf.ContinueOutsideLoop σ4 :=
  call_body_escape k h1 h2 h3 hA hB h4
/-- `c()` called at 7:1 for `fn c() { continue; }` with the `continue` at 5:5: reported at 5:5 -/
example (k : Nat) : evalExpr (3 + k + 2) σe [0] (.mk (.Call (V c!"c" (7, 1)) []) (7, 1)) =
    errAt (5, 5) Leaf.ContinueOutsideLoop (σe.alloc (.scope [])).2 :=
  continue_escaping_call_at_keyword k (ex_noargs 2)
    (show evalExpr 3 σe [0] (V c!"c" (7, 1)) = .ok ⟨.func 6, none⟩ σe from by with_unfolding_all rfl)
    (show σe.getFunc 6 = some frK from by rfl) rfl rfl
    (show evalBlock 3 (callFrame σe frK ⟨.func 6, none⟩ [] (7, 1)).2 frK.closure (callFrame σe frK ⟨.func 6, none⟩ [] (7, 1)).1 frK.stmts
      = .ok (.cont (5, 5)) (σe.alloc (.scope [])).2 from by with_unfolding_all rfl)

end calls

/-! where the `.brk l` / `.cont l` of a body comes from: the statement `break` at `l` yields `.brk l` with the position
    stored in it, and a statement list / a block / an `if` hand an escape on unchanged -/

theorem break_stmt (m : Nat) (σ : State) (sc : List Addr) (l : Loc) : evalStmt (m + 1) σ sc (.Break l) = .ok (.brk l) σ := by
  conv => lhs; unfold evalStmt
theorem continue_stmt (m : Nat) (σ : State) (sc : List Addr) (l : Loc) :
    evalStmt (m + 1) σ sc (.Continue l) = .ok (.cont l) σ := by
  conv => lhs; unfold evalStmt
theorem return_stmt (m : Nat) {σ σ1 : State} {sc : List Addr} {l : Loc} {e : Expr} {v : SVal}
    (h : evalExpr m σ sc e = .ok v σ1) : evalStmt (m + 1) σ sc (.Return l e) = .ok (.ret v l) σ1 := by
  conv => lhs; unfold evalStmt
  simp only [h, Res.bind]
example := return_stmt 1 (l := (9, 1)) (ex_x 0 (9, 8))

/-- a statement list stops at the first escape and returns it -/
theorem stmts_escape (m : Nat) {σ σ1 : State} {sc : List Addr} {st : Stmt} {r : List Stmt} {esc : Escape}
    (h : evalStmt m σ sc st = .ok esc σ1) (hne : esc ≠ .none) :
    evalStmts (m + 1) σ sc (st :: r) = .ok esc σ1 := by
  conv => lhs; unfold evalStmts
  simp only [h, Res.bind]
theorem stmts_step (m : Nat) {σ σ1 : State} {sc : List Addr} {st : Stmt} {r : List Stmt}
    (h : evalStmt m σ sc st = .ok .none σ1) : evalStmts (m + 1) σ sc (st :: r) = evalStmts m σ1 sc r := by
  conv => lhs; unfold evalStmts
  simp only [h, Res.bind]
example (m : Nat) (r : List Stmt) := stmts_escape (r := r) (m + 1) (break_stmt m σe [0] (2, 5)) (fun h => by cases h)

/-- a block without bindings: a fresh scope, then the statements -/
theorem block_eq (m : Nat) (σ : State) (sc : List Addr) (ss : List Stmt) :
    evalBlock (m + 2) σ sc [] ss = evalStmts (m + 1) (σ.alloc (.scope [])).2 ((σ.alloc (.scope [])).1 :: sc) ss := by
  conv => lhs; unfold evalBlock
  simp only []
  conv => lhs; arg 1; unfold declareAll
  simp only [Res.bind]

/-- a concrete family for (4a): a parameterless function whose body starts with `break` (at `l`), called without
    arguments at `loc`: the diagnostic is at `l` -/
theorem call_of_break_body_at_keyword (k : Nat) {n : Nat} {σ σ2 : State} {sc : List Addr} {loc l : Loc} {f : Expr}
    {a : Addr} {fr : FuncRec} {rest : List Stmt}
    (h2 : evalExpr n σ sc f = .ok ⟨.func a, none⟩ σ2) (h3 : σ2.getFunc a = some fr)
    (hargs : fr.args = []) (hc : fr.collect = false) (hbody : fr.stmts = .Break l :: rest) :
    evalExpr (n + k + 5) σ sc (.mk (.Call f []) loc) = errAt l Leaf.BreakOutsideLoop (σ2.alloc (.scope [])).2 := by
  have h1 : evalListItems (n + 3) σ sc [] [] = .ok [] σ := by conv => lhs; unfold evalListItems
  have h2' : evalExpr (n + 3) σ sc f = .ok ⟨.func a, none⟩ σ2 := upExpr 3 h2 (by nt)
  have hfr : callFrame σ2 fr ⟨.func a, none⟩ [] loc = ([], σ2) := by
    simp only [callFrame, hc, hargs, Bool.false_eq_true, if_false, List.zip_nil_left]
  have := break_escaping_call_at_keyword (loc := loc) (l := l) (σ4 := (σ2.alloc (.scope [])).2) k h1 h2' h3
    (by simp [hc]) (by simp [hc, hargs])
    (by rw [hfr, hbody]; show evalBlock (n + 1 + 2) _ _ _ _ = _
        rw [block_eq, stmts_escape (n + 1) (break_stmt n _ _ l) (fun h => by cases h)])
  have e : n + 3 + k + 2 = n + k + 5 := by omega
  rw [e] at this
  exact this
example (k : Nat) := call_of_break_body_at_keyword (loc := (7, 1)) (rest := []) (l := (2, 5)) k
  (show evalExpr 1 σe [0] (V c!"f" (7, 1)) = .ok ⟨.func 3, none⟩ σe from by with_unfolding_all rfl)
  (show σe.getFunc 3 = some frB from by rfl) rfl rfl rfl

/-! ### at top level (`evalProg`) -/

/-- what `evalProg` does with the escape the program's statement list ends in -/
def progResult (esc : Escape) (σ : State) : Res Unit :=
  match esc with
  | .none => .ok () σ
  | .brk l => errAt l Leaf.BreakOutsideLoop σ
  | .cont l => errAt l Leaf.ContinueOutsideLoop σ
  | .ret _ l => errAt l Leaf.ReturnOutsideFunction σ

/-- the program's statements run in `progState` (one scope cell holding `print`) under the scope chain `[0]` -/
theorem prog_escape (k : Nat) {n : Nat} {stmts : List Stmt} {esc : Escape} {σ : State}
    (h : evalStmts n progState [0] stmts = .ok esc σ) : evalProg (n + k + 3) stmts = progResult esc σ := by
  have h' : evalStmts (n + k + 2) progState [0] stmts = .ok esc σ := upStmts (k + 2) h (by nt)
  rw [evalProg_eq, h']; cases esc <;> rfl

/-- **(4c)** `break` / `continue` / `return` that escape the whole program: at the keyword's stored position -/
theorem top_level_break_at_keyword (k : Nat) {n : Nat} {stmts : List Stmt} {l : Loc} {σ : State}
    (h : evalStmts n progState [0] stmts = .ok (.brk l) σ) :
    evalProg (n + k + 3) stmts = errAt l Leaf.BreakOutsideLoop σ := prog_escape k h
theorem top_level_continue_at_keyword (k : Nat) {n : Nat} {stmts : List Stmt} {l : Loc} {σ : State}
    (h : evalStmts n progState [0] stmts = .ok (.cont l) σ) :
    evalProg (n + k + 3) stmts = errAt l Leaf.ContinueOutsideLoop σ := prog_escape k h
theorem top_level_return_at_keyword (k : Nat) {n : Nat} {stmts : List Stmt} {l : Loc} {v : SVal} {σ : State}
    (h : evalStmts n progState [0] stmts = .ok (.ret v l) σ) :
    evalProg (n + k + 3) stmts = errAt l Leaf.ReturnOutsideFunction σ := prog_escape k h
example (l : Loc) (rest : List Stmt) (k : Nat) :
    evalProg (2 + k + 3) (.Continue l :: rest) = errAt l Leaf.ContinueOutsideLoop progState :=
  top_level_continue_at_keyword (n := 2) k (stmts_escape 1 (continue_stmt 0 _ _ l) (fun h => by cases h))
example (l l' : Loc) (rest : List Stmt) (k : Nat) :
    evalProg (3 + k + 3) (.Return l (I 1 l') :: rest) = errAt l Leaf.ReturnOutsideFunction progState :=
  top_level_return_at_keyword (n := 3) k (stmts_escape 2
    (return_stmt 1 (show evalExpr 1 progState [0] (I 1 l') = .ok (SVal.plain (.int 1)) progState from by
      conv => lhs; unfold evalExpr)) (fun h => by cases h))

/-- an instance: a program whose first statement is `break` at `l` -/
example (l : Loc) (rest : List Stmt) (k : Nat) :
    evalProg (2 + k + 3) (.Break l :: rest) = errAt l Leaf.BreakOutsideLoop progState :=
  top_level_break_at_keyword (n := 2) k (stmts_escape 1 (break_stmt 0 _ _ l) (fun h => by cases h))

/-! ## (5) `for` over a non-iterable: the iterable expression's position; a non-bool condition: the condition's -/

section ctl
variable {n : Nat} {σ σ1 : State} {sc : List Addr}

/-- **(5a)** -/
theorem for_non_iterable_at_iter_loc (k : Nat) {lhs iter : Expr} {stmts : List Stmt} {it : SVal}
    (h1 : evalExpr n σ sc iter = .ok it σ1) (h2 : toPairs σ1 it.v = some none) :
    evalStmt (n + k + 1) σ sc (.For lhs iter stmts) = errAt iter.loc Leaf.ForIterNotIterable σ1 := by
  conv => lhs; unfold evalStmt
  simp only [upExpr k h1 (by nt), Res.bind, h2]
/-- `for v in x { }` with `x = 1` -/
example (k : Nat) (lhs : Expr) (body : List Stmt) :=
  for_non_iterable_at_iter_loc (lhs := lhs) (stmts := body) k (ex_x 0 (1, 10)) (by rfl)

/-- the values `for` cannot iterate over -/
theorem toPairs_non_iterable (σ : State) (v : Val) (hs : ∀ bs, v ≠ .str bs) (hl : ∀ a, v ≠ .list a) (ho : ∀ a, v ≠ .obj a) :
    toPairs σ v = some none := by
  cases v <;> first | rfl | exact absurd rfl (hs _) | exact absurd rfl (hl _) | exact absurd rfl (ho _)

/-- **(5b)** a condition that is not a bool: at the condition expression's position -/
theorem toBool_non_bool_at_expr_loc (k : Nat) {descr : List Char} {e : Expr} {v : SVal}
    (h : evalExpr n σ sc e = .ok v σ1) (hv : ∀ b, v.v ≠ .bool b) :
    evalToBool (n + k + 1) σ sc descr e = errAt e.loc (Leaf.IncorrectType descr c!"bool" v.v.kind) σ1 := by
  conv => lhs; unfold evalToBool
  simp only [upExpr k h (by nt), Res.bind]
example (k : Nat) := toBool_non_bool_at_expr_loc (descr := c!"condition") k (ex_x 0 (1, 7)) (fun _ h => by cases h)

theorem while_non_bool_cond_at_cond_loc (k : Nat) {cond : Expr} {stmts : List Stmt} {v : SVal}
    (h : evalExpr n σ sc cond = .ok v σ1) (hv : ∀ b, v.v ≠ .bool b) :
    evalStmt (n + k + 3) σ sc (.While cond stmts) =
      errAt cond.loc (Leaf.IncorrectType c!"condition" c!"bool" v.v.kind) σ1 := by
  show evalStmt (n + k + 1 + 1 + 1) _ _ _ = _
  conv => lhs; unfold evalStmt
  unfold evalWhile
  simp only [toBool_non_bool_at_expr_loc k h hv, errAt, Res.bind]
/-- `while x { }` -/
example (k : Nat) (body : List Stmt) := while_non_bool_cond_at_cond_loc (stmts := body) k (ex_x 0 (1, 7)) (fun _ h => by cases h)

theorem if_non_bool_cond_at_cond_loc (k : Nat) {cond : Expr} {stmts : List Stmt} {r : List Branch}
    {els : Option (List Stmt)} {v : SVal}
    (h : evalExpr n σ sc cond = .ok v σ1) (hv : ∀ b, v.v ≠ .bool b) :
    evalStmt (n + k + 3) σ sc (.If (.mk cond stmts :: r) els) =
      errAt cond.loc (Leaf.IncorrectType c!"condition" c!"bool" v.v.kind) σ1 := by
  show evalStmt (n + k + 1 + 1 + 1) _ _ _ = _
  conv => lhs; unfold evalStmt
  unfold evalIf
  simp only [toBool_non_bool_at_expr_loc k h hv, errAt, Res.bind]
/-- `if x { }` -/
example (k : Nat) (body : List Stmt) := if_non_bool_cond_at_cond_loc (stmts := body) (r := []) (els := none) k (ex_x 0 (1, 4))
  (fun _ h => by cases h)

/-! ## (6) the end of a range `a .. b` that is not an int: the END expression's position -/

/-- **(6)** -/
theorem range_end_non_int_at_end_loc (k : Nat) {σ2 : State} {start stop : Expr} {loc : Loc} {a : Int} {v : SVal}
    (h1 : evalToInt n σ sc c!"range start" start = .ok a σ1) (h2 : evalExpr n σ1 sc stop = .ok v σ2)
    (hv : ∀ j, v.v ≠ .int j) :
    evalExpr (n + k + 2) σ sc (.mk (.Range start stop) loc) =
      errAt stop.loc (Leaf.IncorrectType c!"range end" c!"int" v.v.kind) σ2 := by
  show evalExpr (n + k + 1 + 1) _ _ _ = _
  conv => lhs; unfold evalExpr
  have h1' : evalToInt (n + k + 1) σ sc c!"range start" start = .ok a σ1 := upToInt (k + 1) h1 (by nt)
  simp only [h1', toInt_non_int_at_expr_loc k h2 hv, errAt, Res.bind]
/-- `x .. s`: the range node at 1:1, the end expression at 1:6 -/
example (k : Nat) : evalExpr (2 + k + 2) σe [0] (.mk (.Range (V c!"x" (1, 1)) (V c!"s" (1, 6))) (1, 1)) =
    errAt (1, 6) (Leaf.IncorrectType c!"range end" c!"int" .Str) σe :=
  range_end_non_int_at_end_loc k
    (show evalToInt 2 σe [0] c!"range start" (V c!"x" (1, 1)) = .ok 1 σe from by with_unfolding_all rfl)
    (ex_s 1 (1, 6)) (fun _ h => by cases h)

/-- … and the start: at the START expression's position -/
theorem range_start_non_int_at_start_loc (k : Nat) {start stop : Expr} {loc : Loc} {v : SVal}
    (h1 : evalExpr n σ sc start = .ok v σ1) (hv : ∀ j, v.v ≠ .int j) :
    evalExpr (n + k + 2) σ sc (.mk (.Range start stop) loc) =
      errAt start.loc (Leaf.IncorrectType c!"range start" c!"int" v.v.kind) σ1 := by
  show evalExpr (n + k + 1 + 1) _ _ _ = _
  conv => lhs; unfold evalExpr
  simp only [toInt_non_int_at_expr_loc k h1 hv, errAt, Res.bind]
/-- `s .. x` -/
example (k : Nat) := range_start_non_int_at_start_loc (loc := (1, 1)) (stop := V c!"x" (1, 6)) k (ex_s 0 (1, 1))
  (fun _ h => by cases h)

end ctl

end Seed.C18A
