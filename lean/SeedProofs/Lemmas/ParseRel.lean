/-
  ParseRel.lean — fuel-free view of the expression sub-parser.  `PTier k loc pre ts e r` says "with some
  amount of fuel, `parseTier … k loc pre ts` succeeds with `e`, leaving `r`" (likewise `PAtom`, `TLoop`,
  `RLoop`, `PExpr1`).  One constructor lemma per production of the grammar, a `descend` lemma, and the way
  back: a fuel-free success holds for every fuel that totality (P3) declares sufficient.
-/
import SeedProofs.Lemmas.ParseTotal
namespace Seed

/-! ### vocabulary -/

/-- the atom spelled by a single token -/
def atomOf : Token → Option RawExpr
  | .Null => some .Null
  | .True => some (.Bool true)
  | .False => some (.Bool false)
  | .Ident s => some (.Var s)
  | .IntLiteral k => some (.Int k)
  | .StrLiteral s => some (.Str s none)
  | .InterpStrLiteral s slots => some (.Str s (some slots))
  | _ => none

/-- tokens that continue a postfix expression -/
def isPostfixOpen : Token → Bool
  | .ParenOpen | .BracketOpen | .Dot | .DashGreaterThan => true
  | _ => false

/-- the next token (if any) does not continue a postfix expression -/
def noPostfix : List Span → Prop
  | [] => True
  | sp :: _ => isPostfixOpen sp.tok = false

/-- tier of the binary operator spelled by the next token; 0 if there is none -/
def headTier : List Span → Nat
  | [] => 0
  | sp :: _ =>
    match lookupAssoc sp.tok Gen.binOps with
    | some (_, k) => k
    | none => 0

/-- the next token (if any) is not `..` -/
def noDotDot : List Span → Prop
  | [] => True
  | sp :: _ => sp.tok ≠ .DotDot

/-- what is known about a token that spells a binary operator -/
theorem binOp_facts {t : Token} {op : BinaryOp} {k : Nat} (h : lookupAssoc t Gen.binOps = some (op, k)) :
    2 ≤ k ∧ k ≤ 4 ∧ isPostfixOpen t = false ∧ t ≠ .DotDot ∧ t ≠ .ParenClose := by
  cases t <;> simp [lookupAssoc, Gen.binOps, isPostfixOpen] at h ⊢ <;> omega

theorem headTier_op {sp : Span} {r : List Span} {op : BinaryOp} {k : Nat}
    (h : lookupAssoc sp.tok Gen.binOps = some (op, k)) : headTier (sp :: r) = k := by
  simp only [headTier, h]

theorem headTier_le (ts : List Span) : headTier ts ≤ 4 := by
  cases ts with
  | nil => exact Nat.zero_le _
  | cons sp r =>
    simp only [headTier]
    split
    · rename_i h; exact (binOp_facts h).2.1
    · exact Nat.zero_le _

theorem noPostfix_op {sp : Span} {r : List Span} {op : BinaryOp} {k : Nat}
    (h : lookupAssoc sp.tok Gen.binOps = some (op, k)) : noPostfix (sp :: r) :=
  (binOp_facts h).2.2.1

theorem opAt_of_lookup {t : Token} {op : BinaryOp} {k : Nat} (h : lookupAssoc t Gen.binOps = some (op, k)) :
    opAt k t = some op := by
  simp only [opAt, h, if_true]

theorem opAt_none {sp : Span} {r : List Span} {k : Nat} (h : headTier (sp :: r) ≠ k) : opAt k sp.tok = none := by
  unfold opAt
  unfold headTier at h
  split
  · rename_i op k' heq
    simp only [heq] at h
    split
    · rename_i hk; exact absurd hk.symm h
    · rfl
  · rfl

/-! ### one-step unfoldings under the stop conditions -/

theorem parseAtom_tok (n : Nat) (sp : Span) (r : List Span) (a : RawExpr) (h : atomOf sp.tok = some a) :
    parseAtom (n + 1) none (sp :: r) = .ok a r := by
  unfold parseAtom
  cases ht : sp.tok <;> simp [atomOf, ht] at h ⊢ <;> exact h

theorem parseAtom_neg (n : Nat) (sp sp2 : Span) (r : List Span) (k : Int) (h : sp.tok = .Sub)
    (h2 : sp2.tok = .IntLiteral k) : parseAtom (n + 1) none (sp :: sp2 :: r) = .ok (.Int (-k)) r := by
  unfold parseAtom
  simp [h, h2]

theorem postfixLoop_stop (n : Nat) (loc : Loc) (acc : RawExpr) (ts : List Span) (h : noPostfix ts) :
    postfixLoop (n + 1) loc acc ts = .ok acc ts := by
  unfold postfixLoop
  cases ts with
  | nil => rfl
  | cons sp r =>
    simp only []
    split <;> first | rfl | (rename_i heq; simp [noPostfix, isPostfixOpen, heq] at h)

theorem tierLoop_stop (n k : Nat) (loc : Loc) (acc : RawExpr) (ts : List Span) (h : headTier ts ≠ k) :
    tierLoop (n + 1) k loc acc ts = .ok acc ts := by
  unfold tierLoop
  cases ts with
  | nil => rfl
  | cons sp r => simp only [opAt_none h]

theorem rangeLoop_stop (n : Nat) (s : Bool) (loc : Loc) (acc : RawExpr) (ts : List Span) (h : noDotDot ts) :
    rangeLoop (n + 1) s loc acc ts = .ok acc ts := by
  unfold rangeLoop
  cases ts with
  | nil => rfl
  | cons sp r =>
    have h' : sp.tok ≠ .DotDot := h
    simp only [h', if_false]

/-! ### fuel-free relations -/

def PAtom (pre : Option RawExpr) (ts : List Span) (e : RawExpr) (r : List Span) : Prop :=
  ∃ f, parseAtom f pre ts = .ok e r
def PTier (k : Nat) (loc : Loc) (pre : Option RawExpr) (ts : List Span) (e : RawExpr) (r : List Span) : Prop :=
  ∃ f, parseTier f k loc pre ts = .ok e r
def TLoop (k : Nat) (loc : Loc) (acc : RawExpr) (ts : List Span) (e : RawExpr) (r : List Span) : Prop :=
  ∃ f, tierLoop f k loc acc ts = .ok e r
def RLoop (s : Bool) (loc : Loc) (acc : RawExpr) (ts : List Span) (e : RawExpr) (r : List Span) : Prop :=
  ∃ f, rangeLoop f s loc acc ts = .ok e r
def PExpr1 (s : Bool) (loc : Loc) (pre : Option RawExpr) (ts : List Span) (e : RawExpr) (r : List Span) : Prop :=
  ∃ f, parseExpr1 f s loc pre ts = .ok e r

/-- a success is kept by every larger fuel -/
theorem parseAtom_ok_mono {m n pre ts e r} (h : m ≤ n) (hok : parseAtom m pre ts = .ok e r) :
    parseAtom n pre ts = .ok e r := (parseAtom_mono h pre ts).ok hok
theorem parseTier_ok_mono {m n k l pre ts e r} (h : m ≤ n) (hok : parseTier m k l pre ts = .ok e r) :
    parseTier n k l pre ts = .ok e r := (parseTier_mono h k l pre ts).ok hok
theorem tierLoop_ok_mono {m n k l acc ts e r} (h : m ≤ n) (hok : tierLoop m k l acc ts = .ok e r) :
    tierLoop n k l acc ts = .ok e r := (tierLoop_mono h k l acc ts).ok hok
theorem rangeLoop_ok_mono {m n s l acc ts e r} (h : m ≤ n) (hok : rangeLoop m s l acc ts = .ok e r) :
    rangeLoop n s l acc ts = .ok e r := (rangeLoop_mono h s l acc ts).ok hok
theorem parseExpr1_ok_mono {m n s l pre ts e r} (h : m ≤ n) (hok : parseExpr1 m s l pre ts = .ok e r) :
    parseExpr1 n s l pre ts = .ok e r := (parseExpr1_mono h s l pre ts).ok hok

/-! ### constructor lemmas -/

/-- a single-token atom -/
theorem PAtom.tok {sp : Span} {r : List Span} {a : RawExpr} (h : atomOf sp.tok = some a) :
    PAtom none (sp :: r) a r := ⟨1, parseAtom_tok 0 sp r a h⟩

/-- `-` directly followed by an integer literal is a negative literal -/
theorem PAtom.neg {sp sp2 : Span} {r : List Span} {k : Int} (h : sp.tok = .Sub) (h2 : sp2.tok = .IntLiteral k) :
    PAtom none (sp :: sp2 :: r) (.Int (-k)) r := ⟨1, parseAtom_neg 0 sp sp2 r k h h2⟩

/-- `( e )` -/
theorem PAtom.paren {sp sp2 : Span} {ts r : List Span} {e : RawExpr} (h : sp.tok = .ParenOpen)
    (he : PExpr1 false (headLoc ts) none ts e (sp2 :: r)) (h2 : sp2.tok = .ParenClose) :
    PAtom none (sp :: ts) e r := by
  obtain ⟨f, hf⟩ := he
  refine ⟨f + 1, ?_⟩
  unfold parseAtom
  simp [h, hf, PRes.bind, expectTok, h2]

/-- the tightest tier: an atom not followed by a postfix form -/
theorem PTier.atom {k : Nat} {loc : Loc} {pre : Option RawExpr} {ts r : List Span} {e : RawExpr}
    (hk : Gen.postfixTier ≤ k) (ha : PAtom pre ts e r) (hp : noPostfix r) : PTier k loc pre ts e r := by
  obtain ⟨f, hf⟩ := ha
  refine ⟨(f + 1) + 1 + 1, ?_⟩
  unfold parseTier
  have hk' : k ≥ Gen.postfixTier := hk
  simp only [hk', if_true]
  unfold parsePostfix
  simp only [parseAtom_ok_mono (Nat.le_succ f) hf, PRes.bind, postfixLoop_stop f loc e r hp]

/-- a looser tier: the next tier, then the loop of this tier -/
theorem PTier.step {k : Nat} {loc : Loc} {pre : Option RawExpr} {ts r r' : List Span} {l e : RawExpr}
    (hk : k < Gen.postfixTier) (h1 : PTier (k + 1) loc pre ts l r) (h2 : TLoop k loc l r e r') :
    PTier k loc pre ts e r' := by
  obtain ⟨f1, hf1⟩ := h1
  obtain ⟨f2, hf2⟩ := h2
  refine ⟨max f1 f2 + 1, ?_⟩
  unfold parseTier
  have hk' : ¬ k ≥ Gen.postfixTier := Nat.not_le.mpr hk
  simp only [hk', if_false, parseTier_ok_mono (Nat.le_max_left f1 f2) hf1, PRes.bind,
    tierLoop_ok_mono (Nat.le_max_right f1 f2) hf2]

theorem TLoop.stop {k : Nat} {loc : Loc} {acc : RawExpr} {ts : List Span} (h : headTier ts ≠ k) :
    TLoop k loc acc ts acc ts := ⟨1, tierLoop_stop 0 k loc acc ts h⟩

theorem TLoop.step {k : Nat} {loc : Loc} {acc rhs e : RawExpr} {sp : Span} {r r2 r' : List Span} {op : BinaryOp}
    (hop : lookupAssoc sp.tok Gen.binOps = some (op, k))
    (h1 : PTier (k + 1) (headLoc r) none r rhs r2)
    (h2 : TLoop k loc (.BinaryOp op sp.start (.mk acc loc) (.mk rhs (headLoc r))) r2 e r') :
    TLoop k loc acc (sp :: r) e r' := by
  obtain ⟨f1, hf1⟩ := h1
  obtain ⟨f2, hf2⟩ := h2
  refine ⟨max f1 f2 + 1, ?_⟩
  unfold tierLoop
  simp only [opAt_of_lookup hop, parseTier_ok_mono (Nat.le_max_left f1 f2) hf1, PRes.bind,
    tierLoop_ok_mono (Nat.le_max_right f1 f2) hf2]

theorem RLoop.stop {s : Bool} {loc : Loc} {acc : RawExpr} {ts : List Span} (h : noDotDot ts) :
    RLoop s loc acc ts acc ts := ⟨1, rangeLoop_stop 0 s loc acc ts h⟩

theorem RLoop.step {s : Bool} {loc : Loc} {acc rhs e : RawExpr} {sp : Span} {r r2 r' : List Span}
    (hdd : sp.tok = .DotDot) (hs : (s && isSpreadFollow r) = false)
    (h1 : PTier Gen.firstTier (headLoc r) none r rhs r2)
    (h2 : RLoop s loc (.Range (.mk acc loc) (.mk rhs (headLoc r))) r2 e r') :
    RLoop s loc acc (sp :: r) e r' := by
  obtain ⟨f1, hf1⟩ := h1
  obtain ⟨f2, hf2⟩ := h2
  refine ⟨max f1 f2 + 1, ?_⟩
  unfold rangeLoop
  simp only [hdd, if_true, hs, Bool.false_eq_true, if_false, parseTier_ok_mono (Nat.le_max_left f1 f2) hf1,
    PRes.bind, rangeLoop_ok_mono (Nat.le_max_right f1 f2) hf2]

theorem PExpr1.mk {s : Bool} {loc : Loc} {pre : Option RawExpr} {ts r r' : List Span} {l e : RawExpr}
    (h1 : PTier Gen.firstTier loc pre ts l r) (h2 : RLoop s loc l r e r') : PExpr1 s loc pre ts e r' := by
  obtain ⟨f1, hf1⟩ := h1
  obtain ⟨f2, hf2⟩ := h2
  refine ⟨max f1 f2 + 1, ?_⟩
  unfold parseExpr1
  simp only [parseTier_ok_mono (Nat.le_max_left f1 f2) hf1, PRes.bind,
    rangeLoop_ok_mono (Nat.le_max_right f1 f2) hf2]

/-! ### descending -/

/-- a result at tier `j` is a result at every looser tier `k ≤ j`, provided the next token is not an
    operator of a tier in `[k, j)` -/
theorem PTier.descend {j : Nat} {loc : Loc} {pre : Option RawExpr} {ts r : List Span} {e : RawExpr}
    (h : PTier j loc pre ts e r) (hj : j ≤ Gen.postfixTier) :
    ∀ k, k ≤ j → (headTier r < k ∨ j ≤ headTier r) → PTier k loc pre ts e r := by
  have key : ∀ d k, k + d = j → (headTier r < k ∨ j ≤ headTier r) → PTier k loc pre ts e r := by
    intro d
    induction d with
    | zero => intro k hk _; have : k = j := by omega
              subst this; exact h
    | succ d ih =>
      intro k hk hr
      have hi : k < Gen.postfixTier := by omega
      exact PTier.step hi (ih (k + 1) (by omega) (by omega)) (TLoop.stop (by omega))
  intro k hkj hr
  exact key (j - k) k (by omega) hr

/-- an atom at any tier `k`: no postfix form follows, and no operator of tier `≥ k` -/
theorem PTier.ofAtom {k : Nat} {loc : Loc} {pre : Option RawExpr} {ts r : List Span} {e : RawExpr}
    (ha : PAtom pre ts e r) (hp : noPostfix r) (hr : headTier r < k) : PTier k loc pre ts e r := by
  by_cases hk : Gen.postfixTier ≤ k
  · exact PTier.atom hk ha hp
  · exact (PTier.atom (k := Gen.postfixTier) (Nat.le_refl _) ha hp).descend (Nat.le_refl _) k
      (by omega) (Or.inl hr)

/-! ### back to concrete fuel -/

/-- a fuel-free success is the result for every fuel that does not time out -/
theorem PExpr1.at_fuel {s : Bool} {loc : Loc} {pre : Option RawExpr} {ts r : List Span} {e : RawExpr}
    (h : PExpr1 s loc pre ts e r) (fuel : Nat) (hf : 10 * ts.length + 7 ≤ fuel) :
    parseExpr1 fuel s loc pre ts = .ok e r := by
  obtain ⟨f, hok⟩ := h
  have hnt : parseExpr1 fuel s loc pre ts ≠ .timeout := (ptotAll fuel).parseExpr1 s loc pre ts hf
  rcases Nat.le_total f fuel with hle | hle
  · exact parseExpr1_ok_mono hle hok
  · rcases parseExpr1_mono hle s loc pre ts with h1 | h1
    · exact absurd h1 hnt
    · rw [h1]; exact hok

theorem PTier.at_fuel {k : Nat} {loc : Loc} {pre : Option RawExpr} {ts r : List Span} {e : RawExpr}
    (h : PTier k loc pre ts e r) (fuel : Nat) (hf : 10 * ts.length + (3 + (Gen.postfixTier - k)) ≤ fuel) :
    parseTier fuel k loc pre ts = .ok e r := by
  obtain ⟨f, hok⟩ := h
  have hnt : parseTier fuel k loc pre ts ≠ .timeout := (ptotAll fuel).parseTier k loc pre ts hf
  rcases Nat.le_total f fuel with hle | hle
  · exact parseTier_ok_mono hle hok
  · rcases parseTier_mono hle k loc pre ts with h1 | h1
    · exact absurd h1 hnt
    · rw [h1]; exact hok

/-- `parseExpr` from `parseExpr1` -/
theorem PExpr1.parseExpr_at_fuel {s : Bool} {ts r : List Span} {e : RawExpr}
    (h : PExpr1 s (headLoc ts) none ts e r) (fuel : Nat) (hf : 10 * ts.length + 8 ≤ fuel) :
    parseExpr fuel s ts = .ok (.mk e (headLoc ts)) r := by
  cases fuel with
  | zero => omega
  | succ n =>
    unfold parseExpr
    rw [h.at_fuel n (by omega)]
    rfl

end Seed
