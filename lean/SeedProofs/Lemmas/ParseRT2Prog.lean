/-
  ParseRT2Prog.lean — the joint induction over expressions and statements, and the round-trip theorems for
  the whole grammar: `parse_print_expr` (every well-formed expression, function literals included) and
  `parse_print_prog` (`parseStmts (prStmts p) = p` up to positions for every well-formed program, at the
  driver's fuel and for an arbitrary assignment of positions to the printed tokens).
-/
import SeedProofs.Lemmas.ParseRT2Stmt
set_option linter.unusedSimpArgs false
namespace Seed

theorem wfStmts_mem {fn : Bool} {l : List Stmt} (h : wfStmts fn l = true) : ∀ s ∈ l, wfStmt fn s = true := by
  induction l with
  | nil => intro i hi; cases hi
  | cons a l ih =>
    simp only [wfStmts, Bool.and_eq_true] at h
    intro i hi
    rcases List.mem_cons.mp hi with rfl | hi
    · exact h.1
    · exact ih h.2 i hi

def wfB (fn : Bool) : Branch → Bool
  | .mk c s => wfE fn c && wfStmts fn s

theorem wfBs_mem {fn : Bool} {l : List Branch} (h : wfBs fn l = true) : ∀ b ∈ l, wfB fn b = true := by
  induction l with
  | nil => intro i hi; cases hi
  | cons a l ih =>
    obtain ⟨c, s⟩ := a
    simp only [wfBs, Bool.and_eq_true] at h
    intro i hi
    rcases List.mem_cons.mp hi with rfl | hi
    · simp only [wfB, Bool.and_eq_true]; exact h.1
    · exact ih h.2 i hi

theorem isEmpty_ne_nil {α} {l : List α} (h : (!l.isEmpty) = true) : l ≠ [] := by
  intro hl; subst hl; simp at h

/-- the case analysis over statements -/
theorem stmtStep (st : Stmt) (hwf : wfStmt true st = true)
    (ihR : ∀ r : RawExpr, sizeOf r < sizeOf st → wfR true r = true → RT r)
    (ihH : ∀ r : RawExpr, sizeOf r < sizeOf st → wfR true r = true → SE r)
    (ihS : ∀ st' : Stmt, sizeOf st' < sizeOf st → wfStmt true st' = true → StmtRT st') : StmtRT st := by
  have ihE : ∀ e : Expr, sizeOf e.raw < sizeOf st → wfE true e = true → FEE e := by
    intro e hs hw
    obtain ⟨raw, l⟩ := e
    exact FEE_of_RT (ihR raw hs (by simpa [wfE] using hw))
  have ihB : ∀ stmts : List Stmt, sizeOf stmts < sizeOf st → wfStmts true stmts = true → BlockRT stmts :=
    fun stmts hs hw => block_rt (fun s hs' =>
      ihS s (by have := List.sizeOf_lt_of_mem hs'; omega) (wfStmts_mem hw s hs'))
  have ihP : ∀ args : List Expr, sizeOf args < sizeOf st → wfEs true args = true → ∀ e ∈ args, FEE e :=
    fun args hs hw e he => ihE e (by have := size_expr he; omega) (wfEs_mem hw e he)
  cases st with
  | Block b =>
    cases b with
    | nil => simp [wfStmt] at hwf
    | cons st0 b =>
      simp only [wfStmt, Bool.and_eq_true] at hwf
      refine StmtRT_block (fun s hs => ihS s ?_ (wfStmts_mem hwf.2 s hs))
      have := List.sizeOf_lt_of_mem hs
      simp only [Stmt.Block.sizeOf_spec]; omega
  | Expr e =>
    obtain ⟨r, l⟩ := e
    simp only [wfStmt, wfE] at hwf
    exact StmtRT_expr (ihH r (by simp only [Stmt.Expr.sizeOf_spec, Expr.mk.sizeOf_spec]; omega) hwf)
  | Declare l r =>
    obtain ⟨l, ll⟩ := l
    simp only [wfStmt, wfE, Bool.and_eq_true] at hwf
    have := size_raw r
    exact StmtRT_declare (ihH l (by simp only [Stmt.Declare.sizeOf_spec, Expr.mk.sizeOf_spec]; omega) hwf.1)
      (ihE r (by simp only [Stmt.Declare.sizeOf_spec]; omega) hwf.2)
  | Assign l r =>
    obtain ⟨l, ll⟩ := l
    simp only [wfStmt, wfE, Bool.and_eq_true] at hwf
    have := size_raw r
    exact StmtRT_assign (ihH l (by simp only [Stmt.Assign.sizeOf_spec, Expr.mk.sizeOf_spec]; omega) hwf.1)
      (ihE r (by simp only [Stmt.Assign.sizeOf_spec]; omega) hwf.2)
  | OpAssign l op ol r =>
    obtain ⟨l, ll⟩ := l
    simp only [wfStmt, wfE, Bool.and_eq_true] at hwf
    have := size_raw r
    exact StmtRT_opAssign hwf.1.1
      (ihH l (by simp only [Stmt.OpAssign.sizeOf_spec, Expr.mk.sizeOf_spec]; omega) hwf.1.2)
      (ihE r (by simp only [Stmt.OpAssign.sizeOf_spec]; omega) hwf.2)
  | If bs els =>
    have hbr : wfBs true bs = true → ∀ b ∈ bs, BranchRT b := by
      intro hw b hb
      have hwb := wfBs_mem hw b hb
      have hsz := List.sizeOf_lt_of_mem hb
      obtain ⟨c, s⟩ := b
      simp only [wfB, Bool.and_eq_true] at hwb
      simp only [Branch.mk.sizeOf_spec] at hsz
      have := size_raw c
      exact ⟨ihE c (by simp only [Stmt.If.sizeOf_spec]; omega) hwb.1,
        ihB s (by simp only [Stmt.If.sizeOf_spec]; omega) hwb.2⟩
    cases els with
    | none =>
      simp only [wfStmt, Bool.and_eq_true] at hwf
      exact StmtRT_if (hbr hwf.2) (isEmpty_ne_nil hwf.1) (fun e he => by cases he)
    | some els =>
      simp only [wfStmt, Bool.and_eq_true] at hwf
      refine StmtRT_if (hbr hwf.1.2) (isEmpty_ne_nil hwf.1.1) (fun e he => ?_)
      cases he
      exact ihB els (by simp only [Stmt.If.sizeOf_spec, Option.some.sizeOf_spec]; omega) hwf.2
  | While c s =>
    simp only [wfStmt, Bool.and_eq_true] at hwf
    have := size_raw c
    exact StmtRT_while (ihE c (by simp only [Stmt.While.sizeOf_spec]; omega) hwf.1)
      (ihB s (by simp only [Stmt.While.sizeOf_spec]; omega) hwf.2)
  | For l i s =>
    simp only [wfStmt, Bool.and_eq_true] at hwf
    have := size_raw l
    have := size_raw i
    exact StmtRT_for (ihE l (by simp only [Stmt.For.sizeOf_spec]; omega) hwf.1.1)
      (ihE i (by simp only [Stmt.For.sizeOf_spec]; omega) hwf.1.2)
      (ihB s (by simp only [Stmt.For.sizeOf_spec]; omega) hwf.2)
  | Break l => exact StmtRT_break
  | Continue l => exact StmtRT_continue
  | Func name nl args c s =>
    simp only [wfStmt, Bool.and_eq_true] at hwf
    exact StmtRT_func (ihP args (by simp only [Stmt.Func.sizeOf_spec]; omega) hwf.1.2)
      (collect_ne_nil hwf.1.1) (ihB s (by simp only [Stmt.Func.sizeOf_spec]; omega) hwf.2)
  | Return l e =>
    simp only [wfStmt] at hwf
    have := size_raw e
    exact StmtRT_return (ihE e (by simp only [Stmt.Return.sizeOf_spec]; omega) hwf)

/-- the induction: every well-formed expression and statement round-trips -/
theorem rt_all : ∀ n : Nat,
    (∀ r : RawExpr, sizeOf r < n → wfR true r = true → RT r ∧ ∀ k, BL r k) ∧
    (∀ st : Stmt, sizeOf st < n → wfStmt true st = true → StmtRT st) := by
  intro n
  induction n with
  | zero => exact ⟨fun r h => by omega, fun st h => by omega⟩
  | succ n ih =>
    constructor
    · intro r hn hwf
      refine ⟨exprStep true r hwf (fun r' h' w' => (ih.1 r' (by omega) w').1) (fun args c stmts he => ?_),
        blStep true r hwf (fun r' h' w' => (ih.1 r' (by omega) w').1) (fun r' h' w' => (ih.1 r' (by omega) w').2)⟩
      subst he
      simp only [wfR, Bool.true_and, Bool.and_eq_true] at hwf
      refine RT_of_AtomicR (fun k => by simp only [prR]) (AtomicR_func (fun e he => ?_) (collect_ne_nil hwf.1.1)
        (block_rt (fun s hs => ?_)))
      · have hw := wfEs_mem hwf.1.2 e he
        have hs := size_expr he
        obtain ⟨raw, l⟩ := e
        refine FEE_of_RT (ih.1 raw ?_ (by simpa [wfE] using hw)).1
        simp only [RawExpr.Func.sizeOf_spec] at hn
        simp only [Expr.raw] at hs
        omega
      · refine ih.2 s ?_ (wfStmts_mem hwf.2 s hs)
        have := List.sizeOf_lt_of_mem hs
        simp only [RawExpr.Func.sizeOf_spec] at hn
        omega
    · intro st hn hwf
      exact stmtStep st hwf (fun r h' w' => (ih.1 r (by omega) w').1)
        (fun r h' w' => SE_of_RT_BL (ih.1 r (by omega) w').1 ((ih.1 r (by omega) w').2 1))
        (fun s h' w' => ih.2 s (by omega) w')

theorem rt_expr (r : RawExpr) (hwf : wfR true r = true) : RT r := ((rt_all _).1 r (Nat.lt_succ_self _) hwf).1
theorem bl_expr (r : RawExpr) (hwf : wfR true r = true) (k : Nat) : BL r k :=
  ((rt_all _).1 r (Nat.lt_succ_self _) hwf).2 k
theorem se_expr (r : RawExpr) (hwf : wfR true r = true) : SE r := SE_of_RT_BL (rt_expr r hwf) (bl_expr r hwf 1)
theorem rt_stmt (st : Stmt) (hwf : wfStmt true st = true) : StmtRT st := (rt_all _).2 st (Nat.lt_succ_self _) hwf

/-! ### the round-trip theorems -/

/-- fuel-free round trip for every well-formed expression, in any expression slot (`s`: a trailing spread
    marker is allowed), followed by anything that cannot extend the expression -/
theorem parse_print_expr_rel (e : Expr) (hwf : wfE true e = true) (s : Bool) (ts rest : List Span)
    (hts : ts.map Span.tok = prE 1 e) (hst : stops s rest) :
    ∃ e', stripE e' = stripE e ∧ PExpr s (ts ++ rest) e' rest := by
  obtain ⟨raw, l⟩ := e
  exact FEE_of_RT (rt_expr raw (by simpa [wfE] using hwf)) s ts rest hts hst

/-- `parse (print e) = e` up to positions, for every well-formed expression of the whole grammar (function
    literals and the statements in them included), at the driver's fuel, whatever positions the printed
    tokens carry -/
theorem parse_print_expr (e : Expr) (hwf : wfE true e = true) (ts : List Span) (hts : ts.map Span.tok = prE 1 e) :
    ∃ e', parseExpr (parseFuel ts) false ts = .ok e' [] ∧ stripE e' = stripE e := by
  obtain ⟨e', he', hp⟩ := parse_print_expr_rel e hwf false ts [] hts (stops_nil _)
  rw [List.append_nil] at hp
  exact ⟨e', hp.at_fuel _ (by unfold parseFuel; omega), he'⟩

/-- fuel-free round trip for programs -/
theorem parse_print_prog_rel (p : List Stmt) (hwf : wfStmts true p = true) (ts : List Span)
    (hts : ts.map Span.tok = prStmts p) : ∃ p', stripStmts p' = stripStmts p ∧ PStmts false [] ts p' [] := by
  obtain ⟨p', hp', hps⟩ := stmts_rt_top p (fun st hst => rt_stmt st (wfStmts_mem hwf st hst)) [] ts hts
  exact ⟨p', by simp only [stripStmts_map, hp'], by simpa using hps⟩

/-- `parseProg (printProg p) = p` up to positions, on tokens: for every well-formed program `p`, every token
    list spelling `prStmts p` (whatever the positions) is parsed by `parseStmts` — the function `parseProg`
    runs on the lexer's output — with the driver's fuel to a program with the same erasure, consuming all
    tokens -/
theorem parse_print_prog (p : List Stmt) (hwf : wfStmts true p = true) (ts : List Span)
    (hts : ts.map Span.tok = prStmts p) :
    ∃ p', parseStmts (parseFuel ts) false [] ts = .ok p' [] ∧ stripStmts p' = stripStmts p := by
  obtain ⟨p', hp', hps⟩ := parse_print_prog_rel p hwf ts hts
  exact ⟨p', hps.at_fuel _ (by unfold parseFuel; omega), hp'⟩

end Seed
