/-
  Lemmas/C18NodePosSrc.lean — the token starts of the parser's token stream are source positions: composing
  `node_pos` (Lemmas/C18NodePos.lean: every stored position is a token start) with the lexer facts of Lemmas/Scan.lean
  (every token starts at `posOf src i`, `i` the offset of its first character).
-/
import SeedProofs.Lemmas.C18NodePos
import SeedProofs.Lemmas.Scan
namespace Seed

/-- terminator suppression only drops tokens -/
theorem suppress_subset : ∀ (ts : List Span) (last : Option Token) (sp : Span), sp ∈ suppress last ts → sp ∈ ts
  | [], _, sp, h => by simp [suppress] at h
  | t :: r, last, sp, h => by
    unfold suppress at h
    split at h
    · rcases List.mem_cons.mp h with rfl | h
      · exact List.mem_cons_self
      · exact List.mem_cons_of_mem _ (suppress_subset r _ sp h)
    · split at h
      · exact List.mem_cons_of_mem _ (suppress_subset r _ sp h)
      · split at h
        · exact List.mem_cons_of_mem _ (suppress_subset r _ sp h)
        · rcases List.mem_cons.mp h with rfl | h
          · exact List.mem_cons_self
          · exact List.mem_cons_of_mem _ (suppress_subset r _ sp h)

/-- a token start of the stream the parser sees is the position of a character of the source: offset `i`, line
    `1 +` the number of line feeds before it, column counted from the last line feed (`posOf`) -/
theorem locOK_is_posOf {src : List Char} {l : Loc} (h : LocOK (lexAll src).1 l) :
    ∃ i, i < src.length ∧ l = posOf src i := by
  obtain ⟨sp, hm, rfl⟩ := h
  have hraw : sp ∈ (lexRaw (src.length + 1) ((Scanner.new src).advance 0)).1 := suppress_subset _ _ _ hm
  obtain ⟨k', s', _, hn⟩ := lexRaw_mem_reach src _ 0 sp hraw
  obtain ⟨i, j, _, _, h3, _, _, h6, _, _⟩ := nextToken_tok_reach hn
  exact ⟨i, h3, by rw [h6, scan_pos]⟩

/-- **N1, in source terms.** a program that parses: every statement stores only positions of source characters
    (through `StmtPosOK` over the token stream and `locOK_is_posOf`) -/
theorem node_pos_src {src : List Char} {stmts : List Stmt} (h : parseProg src = .ok stmts) :
    (∀ st, st ∈ stmts → StmtPosOK (lexAll src).1 st) ∧
    (∀ l, LocOK (lexAll src).1 l → ∃ i, i < src.length ∧ l = posOf src i) :=
  ⟨node_pos h, fun _ hl => locOK_is_posOf hl⟩

end Seed
