/-
  Lemmas/C09StrBoundary.lean — the boundary theorems of C09 at the end of a text whose last token is a
  string literal.

  The model (`strLoop`, SeedModel/Lex.lean), like the implementation (`while let Some(c) = peek_char()` in
  `next_str_literal`, which falls out of the loop at the end of input and returns `Ok`), ACCEPTS a literal
  that is still open when the input ends: `"ab` is the token `StrLiteral "ab"`, without any error.  Hence

  * "the lexer produced a string TOKEN, so it saw the closing quote" is FALSE: `LexTo`-style hypotheses do
    not imply termination when nothing follows the boundary (`open_literal_is_a_token`, and the example
    `LexTo c!"x=\"ab" … [] ∧ Unterminated c!"x=\"ab"`).  They do imply it when something follows
    (`boundary_not_unterminated`) — which is why `newline_is_semicolon_at_boundary` (C09.lean) never had a
    side condition and already covers a string literal before the `;`.
  * "a text that ends inside a literal is a lexical error before and after appending layout" is FALSE too:
    `x="ab` and `x="ab ` are both accepted, with different tokens; `x="ab\` is accepted and `x="ab\ ` is
    rejected (the `decide`d examples after `open_interp_start_fails`).  The end of such a text is not a
    token boundary but a point *inside* the literal; what is true is `open_literal_swallows` /
    `unterminated_append` (the appended text is run through the string state machine from the state the
    literal was left in) with its outcomes per state (`open_none_plain`, `open_escape_fails`,
    `open_hex_fails`, `open_interp_start_fails`), and, for a literal that was *rejected*,
    `str_error_stable` (the same error whatever is appended).

  Contents
  * `strRun`: the state machine `strStep` run over a whole text; `some a` iff it neither failed nor saw
    the closing quote.  `openLit src`: the first token of `src` is a literal that is still open at the end
    of `src` (state of the machine, or "even the opening quote after `$` is missing"); `openTok`.
  * `Unterminated pre`: `pre` is lexed up to some token boundary and what is left there is an open literal.
  * `nextToken_closed_local`: token locality at the end of input for every token that is not an open literal.
  * `layout_invariance_at_boundary_term`, `…_lexAll`, `newline_is_semicolon_at_end`: the boundary theorems
    with the side condition `r = [] → ¬ Unterminated pre` instead of "the last token is not a string literal".
  * `not_unterminated_of_last_not_str`: the old side condition implies the new one;
    `unterminated_iff`: `Unterminated` is decided by `openTok` on the text of the last token.
  * `unterminated_layout_matters`, `layout_at_end_iff`: the side condition is necessary, hence exact.
-/
import SeedModel.Lex
import SeedProofs.Lemmas.Scan
import SeedProofs.Lemmas.C09Pos
import SeedProofs.Lemmas.C09Layout
import SeedProofs.Lemmas.C09Local
import SeedProofs.Lemmas.C09Tok
import SeedProofs.Lemmas.C09Raw
namespace Seed.C09
open Seed

/-! ### the string state machine over a whole text -/

/-- `strStep` (positions dropped) run over *all* of `r`: `some a'` iff the machine neither fails nor sees
    the closing quote — the literal is still open after `r`, with accumulator `a'` -/
def strRun (interp : Bool) : List Char → StrAcc → Option StrAcc
  | [], a => some a
  | ch :: r, a =>
    match strStep interp a ch (0, 0) with
    | .cont a' => strRun interp r a'
    | _ => none

/-- an open literal continues: the loop on `r ++ y` is the loop on `y` from the state reached after `r` -/
theorem strLoop_of_run {interp : Bool} {r : List Char} {a a' : StrAcc} (h : strRun interp r a = some a')
    (y : List Char) (l c l' c' : Nat) :
    accK (strLoop interp (r ++ y) l c a) = accK (strLoop interp y l' c' a') := by
  induction r generalizing a l c with
  | nil =>
    simp only [strRun, Option.some.injEq] at h
    subst h
    exact strLoop_indep interp y l c l' c' a
  | cons ch r ih =>
    have hs := strStep_indep interp a ch (l, c) (0, 0)
    rw [strRun.eq_def] at h
    simp only at h
    rw [List.cons_append, strLoop.eq_def]
    simp only
    cases h1 : strStep interp a ch (l, c) <;> cases h2 : strStep interp a ch (0, 0) <;>
      rw [h1, h2] at hs <;> simp only [stepK, StrStep.cont.injEq, StrStep.done.injEq,
        StrStep.fail.injEq, reduceCtorEq] at hs <;> rw [h2] at h <;> simp only [reduceCtorEq] at h
    subst hs
    exact ih h _ _

/-- a literal closed exactly at the end of `r` is closed there whatever follows -/
theorem strLoop_closed_append {interp : Bool} {r : List Char} {a a' : StrAcc} {l c : Nat}
    (h : accK (strLoop interp r l c a) = .ok (a', [])) (hrun : strRun interp r a = none)
    (y : List Char) (l' c' : Nat) : accK (strLoop interp (r ++ y) l' c' a) = .ok (a', y) := by
  induction r generalizing a l c l' c' with
  | nil => simp only [strRun, reduceCtorEq] at hrun
  | cons ch r ih =>
    have hs := strStep_indep interp a ch (l, c) (0, 0)
    have hs' := strStep_indep interp a ch (l', c') (0, 0)
    rw [strRun.eq_def] at hrun
    simp only at hrun
    rw [strLoop.eq_def] at h
    simp only at h
    rw [List.cons_append, strLoop.eq_def]
    simp only
    cases h0 : strStep interp a ch (0, 0) <;> cases h1 : strStep interp a ch (l, c) <;>
      cases h2 : strStep interp a ch (l', c') <;>
      rw [h0, h1] at hs <;> rw [h0, h2] at hs' <;>
      simp only [stepK, StrStep.cont.injEq, StrStep.done.injEq, StrStep.fail.injEq, reduceCtorEq] at hs hs' <;>
      rw [h1] at h <;> simp only [accK, reduceCtorEq] at h
    · subst hs; subst hs'
      rw [h0] at hrun
      exact ih h hrun _ _
    · subst hs; subst hs'
      simp only [Except.ok.injEq, Prod.mk.injEq] at h
      simp only [accK, Except.ok.injEq, Prod.mk.injEq]
      obtain ⟨e1, e2⟩ := h
      subst e2
      exact ⟨e1, rfl⟩

/-! ### tokens that are not string literals -/

theorem lookupAssoc_mem' {α β} [DecidableEq α] {k : α} {v : β} :
    ∀ {l : List (α × β)}, lookupAssoc k l = some v → (k, v) ∈ l
  | [], h => by cases h
  | (k', v') :: r, h => by
    unfold lookupAssoc at h
    split at h
    · next hk => injection h with h; subst h; subst hk; exact List.mem_cons_self ..
    · exact List.mem_cons_of_mem _ (lookupAssoc_mem' h)

theorem matchSingle_nonstr {c : Char} {t : Token} (h : matchSingle c = some t) : isStrTok t = false :=
  (by decide : ∀ p ∈ Gen.singleSym, isStrTok p.2 = false) _ (lookupAssoc_mem' h)

theorem matchDouble_nonstr {a b : Char} {t : Token} (h : matchDouble a b = some t) : isStrTok t = false :=
  (by decide : ∀ p ∈ Gen.doubleSym, isStrTok p.2 = false) _ (lookupAssoc_mem' h)

theorem matchTriple_nonstr {a b c : Char} {t : Token} (h : matchTriple a b c = some t) :
    isStrTok t = false :=
  (by decide : ∀ p ∈ Gen.tripleSym, isStrTok p.2 = false) _ (lookupAssoc_mem' h)

theorem keywordOrIdent_nonstr (w : List Char) : isStrTok (keywordOrIdent w) = false := by
  unfold keywordOrIdent
  split
  · next t h => exact (by decide : ∀ p ∈ Gen.keywords, isStrTok p.2 = false) _ (lookupAssoc_mem' h)
  · rfl

theorem symCore_nonstr {c1 : Char} {o2 o3 : Option Char} {t : Token}
    (h : (symCore c1 o2 o3).1 = some t) : isStrTok t = false := by
  unfold symCore at h
  repeat' split at h
  all_goals first
    | (simp only [reduceCtorEq] at h; done)
    | (simp only [Option.some.injEq] at h; subst h
       first | exact matchSingle_nonstr ‹_› | exact matchDouble_nonstr ‹_› | exact matchTriple_nonstr ‹_›)
    | exact matchTriple_nonstr h

/-- only `"` and `$` start a string literal -/
theorem tokBody_nonstr {ch : Char} {s : Scanner} {t : Token} {x : List Char} (hq : ch ≠ '"')
    (hd : ch ≠ '$') (h : exK (tokBody ch s) = .ok (t, x)) : isStrTok t = false := by
  unfold tokBody at h
  split at h
  · simp only [exK, Except.ok.injEq, Prod.mk.injEq] at h; rw [← h.1]; rfl
  split at h
  · simp only [exK, Except.ok.injEq, Prod.mk.injEq] at h; rw [← h.1]; exact keywordOrIdent_nonstr _
  split at h
  · unfold lexInt at h
    simp only at h
    split at h
    · simp only [exK, Except.ok.injEq, Prod.mk.injEq] at h; rw [← h.1]; rfl
    · cases h
  rw [lexSym_eq_symCore] at h
  split at h
  · next t0 s' hsym =>
    simp only [exK, Except.ok.injEq, Prod.mk.injEq] at h
    rw [← h.1]
    simp only [Prod.mk.injEq] at hsym
    exact symCore_nonstr hsym.1
  · cases h

/-! ### open literals -/

/-- how a literal can be still open at the end of the text: inside its body, the state machine being in
    `a`; or `$` was the last character, so that even the opening quote is missing -/
inductive OpenLit where
  | body (interp : Bool) (a : StrAcc)
  | noQuote

/-- `ch :: a1` is a token text starting with `ch`: is it a literal that `a1` leaves open? -/
def openBody (ch : Char) (a1 : List Char) : Option OpenLit :=
  if ch = '"' then (strRun false a1 StrAcc.init).map (OpenLit.body false)
  else if ch = '$' then
    match a1 with
    | [] => some .noQuote
    | _ :: body => (strRun true body StrAcc.init).map (OpenLit.body true)
  else none

/-- the first token of `src` (after layout) is a string literal that is still open at the end of `src` -/
def openLit (src : List Char) : Option OpenLit :=
  match (skipWs src 0 0).rest with
  | [] => none
  | ch :: a1 => openBody ch a1

def openTok (src : List Char) : Bool := (openLit src).isSome

theorem tokBody_quote (s : Scanner) : tokBody '"' s = lexStr false s := by
  unfold tokBody; rfl

theorem tokBody_dollar (s : Scanner) : tokBody '$' s = lexStr true s.next := by
  unfold tokBody; rfl

/-- a token that ends exactly at the end of `ch :: a1` and is not an open literal ends there whatever
    separator follows -/
theorem tokBody_closed_local (ch : Char) (a1 y : List Char) (t : Token)
    (h : exK (tokBody ch ⟨ch :: a1, 0, 0⟩) = .ok (t, [])) (hcl : openBody ch a1 = none)
    (he : EndsLike [] y) : exK (tokBody ch ⟨ch :: (a1 ++ y), 0, 0⟩) = .ok (t, y) := by
  by_cases hq : ch = '"'
  · subst hq
    simp only [openBody, if_true, Option.map_eq_none_iff] at hcl
    rw [tokBody_quote] at h ⊢
    obtain ⟨a, h1, h2⟩ := exK_lexStr_ok h
    rw [exK_lexStr]
    simp only [Scanner.next_mk_cons] at h1 ⊢
    rw [strLoop_closed_append h1 hcl y, h2]
  by_cases hd : ch = '$'
  · subst hd
    rw [tokBody_dollar] at h ⊢
    cases a1 with
    | nil => simp [openBody] at hcl
    | cons q a2 =>
      simp only [openBody, if_true] at hcl
      have hcl' : strRun true a2 StrAcc.init = none := by simpa using hcl
      obtain ⟨a, h1, h2⟩ := exK_lexStr_ok h
      rw [exK_lexStr]
      simp only [Scanner.next_mk_cons, List.cons_append] at h1 ⊢
      rw [strLoop_closed_append h1 hcl' y, h2]
  · have h' : exK (tokBody ch ⟨ch :: (a1 ++ []), 0, 0⟩) = .ok (t, []) := by
      rw [List.append_nil]; exact h
    exact tokBody_local ch a1 [] y 0 0 0 0 t h' he (fun _ => Or.inr (tokBody_nonstr hq hd h))

/-- **token locality at the end of input**: a token that ends exactly at the end of `a` and is not an
    open literal is the same token, ending at the same place, when a separator (blank, `#`, newline, `;`)
    and anything else is appended -/
theorem nextToken_closed_local {a y : List Char} {t : Token} (l c l' c' : Nat)
    (h : kind (nextToken ⟨a, l, c⟩) = .tok t []) (hcl : openTok a = false)
    (he : EndsLike [] y) : kind (nextToken ⟨a ++ y, l', c'⟩) = .tok t y := by
  have hne : (skipWs a l c).rest ≠ [] := by
    intro hr
    rw [kind_of_tokBody] at h
    simp only [Scanner.skipWs, hr] at h
    cases h
  have hlen : ([] : List Char).length < (skipWs (a ++ []) l c).rest.length := by
    rw [List.append_nil]; exact List.length_pos_iff.mpr hne
  obtain ⟨w, a', _, hne', hsk⟩ := skipWs_local a [] l c hlen
  cases a' with
  | nil => exact absurd rfl hne'
  | cons ch a1 =>
    have e1 : (Scanner.skipWs ⟨a, l, c⟩).rest = ch :: a1 := by
      have := hsk [] l c
      simpa [Scanner.skipWs] using this
    have e0 : (skipWs a 0 0).rest = ch :: a1 := by
      have := hsk [] 0 0
      simpa using this
    have e2 : (Scanner.skipWs ⟨a ++ y, l', c'⟩).rest = ch :: (a1 ++ y) := hsk y l' c'
    have hob : openBody ch a1 = none := by
      unfold openTok openLit at hcl
      rw [e0] at hcl
      simpa using hcl
    rw [kind_of_tokBody] at h ⊢
    rw [e1] at h
    rw [e2]
    simp only at h ⊢
    rw [tokBody_indep ch (s' := ⟨ch :: a1, 0, 0⟩) e1] at h
    rw [tokBody_indep ch (s' := ⟨ch :: (a1 ++ y), 0, 0⟩) e2]
    have hb : exK (tokBody ch ⟨ch :: a1, 0, 0⟩) = .ok (t, []) := by
      cases hx : exK (tokBody ch ⟨ch :: a1, 0, 0⟩) with
      | error e => rw [hx] at h; cases h
      | ok p =>
        obtain ⟨t', r'⟩ := p
        rw [hx] at h
        simp only [TokK.tok.injEq] at h
        rw [h.1, h.2]
    rw [tokBody_closed_local ch a1 y t hb hob he]

example : kind (nextToken ⟨c!" \"a\\\"b\"", 1, 1⟩) = .tok (.StrLiteral c!"a\"b") [] ∧
    openTok c!" \"a\\\"b\"" = false ∧ EndsLike [] c!" # c" := by
  refine ⟨by decide, by decide, Or.inr ⟨' ', c!"# c", rfl, by decide⟩⟩

/-! ### texts that end inside a literal -/

/-- `src` ends inside a string literal: it is lexed up to some token boundary, and what is left there is a
    literal that is still open at the end of `src` -/
def Unterminated (src : List Char) : Prop := ∃ ts mid, LexTo src ts mid ∧ openTok mid = true

theorem LexTo.nil_of_nil {ts : List Token} {rest : List Char} (h : LexTo [] ts rest) : ts = [] := by
  have := h.length_le
  simp only [List.length_nil] at this
  exact List.length_eq_zero_iff.mp (by omega)

theorem LexTo.append_sep_aux {pre rest : List Char} {ts : List Token} (h : LexTo pre ts rest) :
    rest = [] → ¬ Unterminated pre → ∀ y, EndsLike [] y → LexTo (pre ++ y) ts y := by
  induction h with
  | nil r =>
    intro hr _ y _
    subst hr
    exact LexTo.nil y
  | @cons src mid rest t ts l c hk htail ih =>
    intro hr hn y he
    subst hr
    by_cases hm : mid = []
    · subst hm
      have hts : ts = [] := htail.nil_of_nil
      subst hts
      have hop : openTok src = false := by
        cases ho : openTok src with
        | false => rfl
        | true => exact absurd ⟨[], src, LexTo.nil src, ho⟩ hn
      exact LexTo.cons l c (nextToken_closed_local l c l c hk hop he) (LexTo.nil y)
    · obtain ⟨k, _, _, hmk⟩ := kind_tok_length hk
      simp only at hmk
      have hsrc : src = src.take k ++ mid := by rw [hmk, List.take_append_drop]
      have hk' : kind (nextToken ⟨src.take k ++ mid, l, c⟩) = .tok t mid := by rw [← hsrc]; exact hk
      have hh : mid.head? = (mid ++ y).head? := by
        cases mid with
        | nil => exact absurd rfl hm
        | cons d m => rfl
      have hk2 := nextToken_local (y := mid ++ y) l c l c hk' (Or.inl hh) (fun h0 => absurd h0 hm)
      have e : src ++ y = src.take k ++ (mid ++ y) := by rw [← List.append_assoc, ← hsrc]
      rw [e]
      refine LexTo.cons l c hk2 (ih rfl ?_ y he)
      rintro ⟨ts', mid', h1, h2⟩
      exact hn ⟨t :: ts', mid', LexTo.cons l c hk h1, h2⟩

/-- if `pre` is lexed as `ts` up to its end and does not end inside a literal, it is lexed the same way
    with a separator (and anything after it) appended -/
theorem LexTo.append_sep {pre : List Char} {ts : List Token} (h : LexTo pre ts [])
    (hn : ¬ Unterminated pre) (y : List Char) (he : EndsLike [] y) : LexTo (pre ++ y) ts y :=
  h.append_sep_aux rfl hn y he

/-- `LexTo.replace_rest` with the exact side condition -/
theorem LexTo.replace_rest_term {pre r : List Char} {ts : List Token} (h : LexTo (pre ++ r) ts r)
    (y : List Char) (he : EndsLike r y) (hterm : r = [] → y = [] ∨ ¬ Unterminated pre) :
    LexTo (pre ++ y) ts y := by
  cases r with
  | nil =>
    rw [List.append_nil] at h
    rcases hterm rfl with hy | hn
    · subst hy; rw [List.append_nil]; exact h
    · exact h.append_sep hn y he
  | cons d r => exact h.replace_rest pre rfl y he (fun hr => by cases hr)

/-! ### the boundary theorems -/

/-- **L3, general, exact side condition**: layout inserted at *any* token boundary changes neither the raw
    token stream nor the kind of error.  Side conditions: a comment in `p` must be closed by `r`; and if
    `r` is empty, `pre` must not end inside a string literal.  (The last token of `pre` may be a string
    literal: what matters is that the lexer saw its closing quote.) -/
theorem layout_invariance_at_boundary_term {pre p r : List Char} {ts : List Token}
    (h : LexTo (pre ++ r) ts r) (hp : Layout p) (hc : CommentClosed p r)
    (hterm : r = [] → ¬ Unterminated pre) : RawEq (pre ++ (p ++ r)) (pre ++ r) := by
  cases hp with
  | nil => exact RawEq.refl _
  | @blank e p' hb hp' =>
    have h2 : LexTo (pre ++ (e :: p' ++ r)) ts (e :: p' ++ r) :=
      h.replace_rest_term _ (Or.inr ⟨e, p' ++ r, rfl, Or.inl hb⟩) (fun hr => Or.inr (hterm hr))
    exact RawEq.of_lexTo h2 h (fun m l c l' c' =>
      lexRaw_skip_layout (Layout.blank hb hp') r hc m l c l' c')
  | @comment t ht =>
    have h2 : LexTo (pre ++ ('#' :: t ++ r)) ts ('#' :: t ++ r) :=
      h.replace_rest_term _ (Or.inr ⟨'#', t ++ r, rfl, Or.inr (Or.inl rfl)⟩)
        (fun hr => Or.inr (hterm hr))
    exact RawEq.of_lexTo h2 h (fun m l c l' c' =>
      lexRaw_skip_layout (Layout.comment ht) r hc m l c l' c')

theorem layout_invariance_at_boundary_term_lexAll {pre p r : List Char} {ts : List Token}
    (h : LexTo (pre ++ r) ts r) (hp : Layout p) (hc : CommentClosed p r)
    (hterm : r = [] → ¬ Unterminated pre) : SameTokens (pre ++ (p ++ r)) (pre ++ r) :=
  (layout_invariance_at_boundary_term h hp hc hterm).sameTokens

/-- **L4 at the end of a text**: a newline or a `;` appended to a text that does not end inside a literal
    are the same thing (in the middle of a text — `newline_is_semicolon_at_boundary` in C09.lean — there
    is no side condition at all: see `boundary_not_unterminated`) -/
theorem newline_is_semicolon_at_end {pre : List Char} {ts : List Token} (h : LexTo pre ts [])
    (hn : ¬ Unterminated pre) (r : List Char) : RawEq (pre ++ '\n' :: r) (pre ++ ';' :: r) := by
  have h1 : LexTo (pre ++ '\n' :: r) ts ('\n' :: r) :=
    h.append_sep hn _ (Or.inr ⟨'\n', r, rfl, Or.inr (Or.inr (Or.inl rfl))⟩)
  have h2 : LexTo (pre ++ ';' :: r) ts (';' :: r) :=
    h.append_sep hn _ (Or.inr ⟨';', r, rfl, Or.inr (Or.inr (Or.inr rfl))⟩)
  exact RawEq.of_lexTo h1 h2 (RawEq.of_kind (fun l c l' c' => by
    rw [nextToken_stmtEnd '\n' (Or.inl rfl), nextToken_stmtEnd ';' (Or.inr rfl)]))

/-! ### an open literal is a token, and continues into whatever is appended -/

/-- the token the lexer makes of an open literal at the end of input -/
def OpenLit.tok : OpenLit → Token
  | .body interp a => strTok interp a
  | .noQuote => Token.InterpStrLiteral [] []

/-- what the lexer makes of an open literal when `y` is appended: the string loop simply goes on in `y`
    (after `$` alone: the first character of `y`, whatever it is, is taken for the opening quote) -/
def OpenLit.resume : OpenLit → List Char → Except LexError (Token × List Char)
  | .body interp a, y =>
    match accK (strLoop interp y 0 0 a) with
    | .error e => .error e
    | .ok (a', r) => .ok (strTok interp a', r)
  | .noQuote, y => exK (lexStr true ⟨y, 0, 0⟩)

theorem OpenLit.isStrTok_tok (o : OpenLit) : isStrTok o.tok = true := by
  cases o with
  | body interp a => exact isStrTok_strTok interp a
  | noQuote => rfl

theorem OpenLit.resume_nil (o : OpenLit) : o.resume [] = .ok (o.tok, []) := by
  cases o with
  | body interp a => simp only [OpenLit.resume, strLoop, accK, OpenLit.tok]
  | noQuote => rfl

theorem tokBody_open {ch : Char} {a1 : List Char} {o : OpenLit} (h : openBody ch a1 = some o)
    (y : List Char) (l c : Nat) : exK (tokBody ch ⟨ch :: (a1 ++ y), l, c⟩) = o.resume y := by
  unfold openBody at h
  split at h
  · next hq =>
    subst hq
    obtain ⟨a, ha, rfl⟩ := Option.map_eq_some_iff.mp h
    rw [tokBody_quote, exK_lexStr]
    simp only [Scanner.next_mk_cons, OpenLit.resume]
    rw [strLoop_of_run ha y _ _ 0 0]
    rfl
  · split at h
    · next hd =>
      subst hd
      rw [tokBody_dollar]
      cases a1 with
      | nil =>
        simp only [Option.some.injEq] at h
        subst h
        simp only [Scanner.next_mk_cons, List.nil_append, OpenLit.resume]
        exact lexStr_indep true rfl
      | cons q a2 =>
        simp only at h
        obtain ⟨a, ha, rfl⟩ := Option.map_eq_some_iff.mp h
        rw [exK_lexStr]
        simp only [Scanner.next_mk_cons, List.cons_append, OpenLit.resume]
        rw [strLoop_of_run ha y _ _ 0 0]
        rfl
    · cases h

/-- **an open literal swallows what is appended**: if the text `mid` is a string literal that is still open
    at its end, then for every `y` the first token of `mid ++ y` is that literal continued in `y` — a longer
    literal (closed in `y`, or again open), or a string error raised in `y` -/
theorem open_literal_swallows {mid : List Char} {o : OpenLit} (h : openLit mid = some o)
    (y : List Char) (l c : Nat) :
    kind (nextToken ⟨mid ++ y, l, c⟩) =
      match o.resume y with
      | .error e => .err e
      | .ok (t, r) => .tok t r := by
  unfold openLit at h
  cases hr : (skipWs mid 0 0).rest with
  | nil => rw [hr] at h; cases h
  | cons ch a1 =>
    rw [hr] at h
    simp only at h
    have hlen : ([] : List Char).length < (skipWs (mid ++ []) 0 0).rest.length := by
      rw [List.append_nil, hr]; simp
    obtain ⟨w, a', _, _, hsk⟩ := skipWs_local mid [] 0 0 hlen
    have ea : a' = ch :: a1 := by
      have := hsk [] 0 0
      rw [List.append_nil, List.append_nil, hr] at this
      exact this.symm
    subst ea
    have e2 : (Scanner.skipWs ⟨mid ++ y, l, c⟩).rest = ch :: (a1 ++ y) := hsk y l c
    rw [kind_of_tokBody, e2]
    simp only
    rw [tokBody_indep ch (s' := ⟨ch :: (a1 ++ y), 0, 0⟩) e2, tokBody_open h y 0 0]
    rfl

/-- in particular (nothing appended) an open literal at the end of input *is* a string token: the model,
    like the implementation, reports no error for it -/
theorem open_literal_is_a_token {mid : List Char} {o : OpenLit} (h : openLit mid = some o) (l c : Nat) :
    kind (nextToken ⟨mid, l, c⟩) = .tok o.tok [] := by
  have := open_literal_swallows h [] l c
  rw [List.append_nil, OpenLit.resume_nil] at this
  exact this

theorem openTok_tok {mid : List Char} (h : openTok mid = true) :
    ∃ t, isStrTok t = true ∧ ∀ l c, kind (nextToken ⟨mid, l, c⟩) = .tok t [] := by
  unfold openTok at h
  obtain ⟨o, ho⟩ := Option.isSome_iff_exists.mp h
  exact ⟨o.tok, o.isStrTok_tok, fun l c => open_literal_is_a_token ho l c⟩

example : openTok c!"\"ab" = true ∧ openTok c!"$\"a${x" = true ∧ openTok c!"  $" = true ∧
    openTok c!"\"ab\\\"" = true ∧ openTok c!"\"ab\"" = false ∧ openTok c!"\"a$" = false ∧
    openTok c!"ab" = false := by decide

-- so a string TOKEN does not mean that the lexer saw a closing quote: `LexTo`-style hypotheses alone do not
-- imply termination when nothing follows
example : LexTo c!"x=\"ab" [.Ident c!"x", .Equals, .StrLiteral c!"ab"] [] ∧ Unterminated c!"x=\"ab" :=
  ⟨.cons 1 1 (mid := c!"=\"ab") (by decide) (.cons 1 2 (mid := c!"\"ab") (by decide)
      (.cons 1 3 (mid := []) (by decide) (.nil _))),
   [.Ident c!"x", .Equals], c!"\"ab",
   .cons 1 1 (mid := c!"=\"ab") (by decide) (.cons 1 2 (mid := c!"\"ab") (by decide) (.nil _)), by decide⟩

/-! ### `LexTo` is deterministic -/

theorem LexTo.split_of_le {src m : List Char} {ts : List Token} (h : LexTo src ts m) :
    ∀ {ts' : List Token} {m' : List Char}, LexTo src ts' m' → ts.length ≤ ts'.length →
      ∃ us, ts' = ts ++ us ∧ LexTo m us m' := by
  induction h with
  | nil r => intro ts' m' h' _; exact ⟨ts', rfl, h'⟩
  | @cons src mid rest t ts l c hk _ ih =>
    intro ts' m' h' hl
    cases h' with
    | nil => simp at hl
    | @cons _ mid' _ t' ts'' l' c' hk' htail' =>
      have e : kind (nextToken ⟨src, l, c⟩) = kind (nextToken ⟨src, l', c'⟩) := nextToken_kind_indep rfl
      rw [hk, hk'] at e
      simp only [TokK.tok.injEq] at e
      obtain ⟨rfl, rfl⟩ := e
      obtain ⟨us, e1, e2⟩ := ih htail' (by simpa using hl)
      exact ⟨us, by rw [e1, List.cons_append], e2⟩

theorem LexTo.eq_of_nil {a b : List Char} (h : LexTo a [] b) : a = b := by
  cases h; rfl

theorem LexTo.cons_inv {a b : List Char} {t : Token} {ts : List Token} (h : LexTo a (t :: ts) b) :
    ∃ l c mid, kind (nextToken ⟨a, l, c⟩) = .tok t mid ∧ LexTo mid ts b := by
  cases h with
  | cons l c hk ht => exact ⟨l, c, _, hk, ht⟩

theorem LexTo.det_end {src : List Char} {ts ts' : List Token} (h : LexTo src ts []) (h' : LexTo src ts' []) :
    ts = ts' := by
  rcases Nat.le_total ts.length ts'.length with hl | hl
  · obtain ⟨us, e1, e2⟩ := h.split_of_le h' hl
    rw [e1, e2.nil_of_nil, List.append_nil]
  · obtain ⟨us, e1, e2⟩ := h'.split_of_le h hl
    rw [e1, e2.nil_of_nil, List.append_nil]

/-- `Unterminated` is decided on the text of the last token -/
theorem unterminated_iff {pre mid : List Char} {ts : List Token} {t : Token} {l c : Nat}
    (h1 : LexTo pre ts mid) (h2 : kind (nextToken ⟨mid, l, c⟩) = .tok t []) :
    Unterminated pre ↔ openTok mid = true := by
  constructor
  · rintro ⟨ts', mid', h1', ho⟩
    obtain ⟨t', _, hk'⟩ := openTok_tok ho
    have a1 : LexTo pre (ts ++ [t]) [] := h1.append (LexTo.cons l c h2 (LexTo.nil []))
    have a2 : LexTo pre (ts' ++ [t']) [] := h1'.append (LexTo.cons 0 0 (hk' 0 0) (LexTo.nil []))
    have e := a1.det_end a2
    have hl : ts.length = ts'.length := by
      have := congrArg List.length e
      simp only [List.length_append, List.length_cons, List.length_nil] at this
      omega
    obtain ⟨us, e1, e2⟩ := h1.split_of_le h1' (Nat.le_of_eq hl)
    have hus : us = [] := by
      have := congrArg List.length e1
      simp only [List.length_append] at this
      exact List.length_eq_zero_iff.mp (by omega)
    subst hus
    rw [e2.eq_of_nil]
    exact ho
  · intro ho
    exact ⟨ts, mid, h1, ho⟩

-- `x="ab"` is not unterminated although its last token is a string literal
example : ¬ Unterminated c!"x=\"ab\"" :=
  fun h => absurd ((unterminated_iff (l := 1) (c := 3) (t := .StrLiteral c!"ab") (mid := c!"\"ab\"")
    (ts := [.Ident c!"x", .Equals])
    (.cons 1 1 (mid := c!"=\"ab\"") (by decide) (.cons 1 2 (mid := c!"\"ab\"") (by decide) (.nil _)))
    (by decide)).mp h) (by decide)

/-- the side condition of `layout_invariance_at_boundary` (C09.lean) implies the exact one -/
theorem not_unterminated_of_last_not_str {pre : List Char} {ts : List Token} (h : LexTo pre ts [])
    (hl : ∀ t, ts.getLast? = some t → isStrTok t = false) : ¬ Unterminated pre := by
  rintro ⟨ts', mid', h1', ho⟩
  obtain ⟨t', hs, hk'⟩ := openTok_tok ho
  have e := h.det_end (h1'.append (LexTo.cons 0 0 (hk' 0 0) (LexTo.nil [])))
  have := hl t' (by rw [e]; simp)
  rw [hs] at this
  cases this

example : LexTo c!"x=1" [.Ident c!"x", .Equals, .IntLiteral 1] [] ∧
    ∀ t, [Token.Ident c!"x", .Equals, .IntLiteral 1].getLast? = some t → isStrTok t = false :=
  ⟨.cons 1 1 (mid := c!"=1") (by decide) (.cons 1 2 (mid := c!"1") (by decide)
      (.cons 1 3 (mid := []) (by decide) (.nil _))),
   fun t ht => by simp only [List.getLast?, List.getLast, Option.some.injEq] at ht; subst ht; rfl⟩

theorem OpenLit.resume_length {o : OpenLit} {y m : List Char} {t : Token} (h : o.resume y = .ok (t, m))
    (hy : y ≠ []) : m.length < y.length := by
  cases o with
  | body interp a =>
    simp only [OpenLit.resume] at h
    cases hx : accK (strLoop interp y 0 0 a) with
    | error e => rw [hx] at h; cases h
    | ok p =>
      obtain ⟨a', r⟩ := p
      rw [hx] at h
      simp only [Except.ok.injEq, Prod.mk.injEq] at h
      obtain ⟨s', hs1, hs2⟩ := accK_ok hx
      cases y with
      | nil => exact absurd rfl hy
      | cons d y' =>
        have := strLoop_cons_rest_length_le hs1
        rw [hs2, h.2] at this
        simp only [List.length_cons]
        omega
  | noQuote =>
    simp only [OpenLit.resume] at h
    exact lexStr_rest_length_lt h hy

theorem openTok_nil : openTok [] = false := rfl

/-- when something follows the boundary (`r ≠ []`), the `LexTo` hypothesis of the boundary theorems already
    implies that `pre` does not end inside a literal: an open literal would have run on into `r` -/
theorem boundary_not_unterminated {pre r : List Char} {ts : List Token} (h : LexTo (pre ++ r) ts r)
    (hr : r ≠ []) : ¬ Unterminated pre := by
  rintro ⟨ts', mid', h1', ho⟩
  have hm : mid' ≠ [] := by rintro rfl; rw [openTok_nil] at ho; cases ho
  obtain ⟨pre0, hp, _⟩ := h1'.suffix
  have hh : mid'.head? = (mid' ++ r).head? := by
    cases mid' with
    | nil => exact absurd rfl hm
    | cons d m => rfl
  have h2 : LexTo (pre0 ++ (mid' ++ r)) ts' (mid' ++ r) :=
    h1'.replace_rest pre0 hp _ (Or.inl hh) (fun h0 => absurd h0 hm)
  rw [← List.append_assoc, ← hp] at h2
  have hlen : 0 < mid'.length := List.length_pos_iff.mpr hm
  rcases Nat.le_total ts.length ts'.length with hl | hl
  · obtain ⟨us, _, e2⟩ := h.split_of_le h2 hl
    have := e2.length_le
    simp only [List.length_append] at this
    omega
  · obtain ⟨us, _, e2⟩ := h2.split_of_le h hl
    cases us with
    | nil =>
      have := congrArg List.length e2.eq_of_nil
      simp only [List.length_append] at this
      omega
    | cons t2 us' =>
      obtain ⟨l, c, m2, hk, htail⟩ := e2.cons_inv
      unfold openTok at ho
      obtain ⟨o, ho'⟩ := Option.isSome_iff_exists.mp ho
      have hsw := open_literal_swallows ho' r l c
      rw [hk] at hsw
      cases hx : o.resume r with
      | error e => rw [hx] at hsw; cases hsw
      | ok p =>
        obtain ⟨t3, m3⟩ := p
        rw [hx] at hsw
        simp only [TokK.tok.injEq] at hsw
        have h3 := OpenLit.resume_length hx hr
        have h4 := htail.length_le
        rw [hsw.2] at h4
        omega

example : LexTo (c!"x=\"ab\"" ++ c!";y") [.Ident c!"x", .Equals, .StrLiteral c!"ab"] c!";y" ∧
    (c!";y" : List Char) ≠ [] :=
  ⟨.cons 1 1 (mid := c!"=\"ab\";y") (by decide) (.cons 1 2 (mid := c!"\"ab\";y") (by decide)
      (.cons 1 3 (mid := c!";y") (by decide) (.nil _))), by decide⟩

/-! ### the excluded case: the text ends inside a literal -/

theorem openLit_nil : openLit [] = none := rfl

/-- whatever is appended to a text that ends inside a literal is lexed as the continuation of that literal:
    the tokens before it stay, and the literal's token is replaced by what the string loop makes of `y` -/
theorem unterminated_append {pre mid : List Char} {ts : List Token} {o : OpenLit}
    (h : LexTo pre ts mid) (ho : openLit mid = some o) (y : List Char) :
    LexTo (pre ++ y) ts (mid ++ y) ∧
    ∀ l c, kind (nextToken ⟨mid ++ y, l, c⟩) =
      match o.resume y with
      | .error e => .err e
      | .ok (t, r) => .tok t r := by
  refine ⟨?_, fun l c => open_literal_swallows ho y l c⟩
  have hm : mid ≠ [] := by rintro rfl; rw [openLit_nil] at ho; cases ho
  obtain ⟨pre0, hp, _⟩ := h.suffix
  have hh : mid.head? = (mid ++ y).head? := by
    cases mid with
    | nil => exact absurd rfl hm
    | cons d m => rfl
  have h2 : LexTo (pre0 ++ (mid ++ y)) ts (mid ++ y) :=
    h.replace_rest pre0 hp _ (Or.inl hh) (fun h0 => absurd h0 hm)
  rw [← List.append_assoc, ← hp] at h2
  exact h2

/-- the accumulator after `p` more plain characters -/
def _root_.Seed.StrAcc.grow (a : StrAcc) (p : List Char) : StrAcc :=
  { a with chars := p.reverse ++ a.chars, n := a.n + p.length }

theorem strLoop_plain (interp : Bool) (p : List Char) : ∀ (l c : Nat) (a : StrAcc), a.state = .None →
    (∀ x ∈ p, x ≠ '\\' ∧ x ≠ '"' ∧ x ≠ '$') → accK (strLoop interp p l c a) = .ok (a.grow p, []) := by
  induction p with
  | nil =>
    intro l c a _ _
    obtain ⟨_, _, _, _, _, _, _⟩ := a
    simp [strLoop, accK, StrAcc.grow]
  | cons x p ih =>
    intro l c a hst hp
    obtain ⟨h1, h2, h3⟩ := hp x (List.mem_cons_self ..)
    have hstep : strStep interp a x (l, c) = .cont (a.push x) := by
      simp [strStep, hst, h1, h2, h3]
    rw [strLoop.eq_def]
    simp only [hstep]
    rw [ih _ _ (a.push x) hst (fun z hz => hp z (List.mem_cons_of_mem _ hz))]
    obtain ⟨_, _, _, _, _, _, _⟩ := a
    simp [StrAcc.grow, StrAcc.push]
    omega

theorem blank_plain {x : Char} (h : isBlank x) : x ≠ '\\' ∧ x ≠ '"' ∧ x ≠ '$' := by
  refine ⟨?_, ?_, ?_⟩ <;> (rintro rfl; revert h; decide)

/-- **inside the literal's text** (state `None`): appended plain characters — blanks, a comment without
    `\`, `"`, `$` — become part of the literal; the text is still accepted, and still ends inside the literal -/
theorem open_none_plain {interp : Bool} {a : StrAcc} (hst : a.state = .None) (p : List Char)
    (hp : ∀ x ∈ p, x ≠ '\\' ∧ x ≠ '"' ∧ x ≠ '$') :
    (OpenLit.body interp a).resume p = .ok (strTok interp (a.grow p), []) := by
  simp only [OpenLit.resume, strLoop_plain interp p 0 0 a hst hp]

example : (StrAcc.init).state = .None ∧ ∀ x ∈ c!"  \t", x ≠ '\\' ∧ x ≠ '"' ∧ x ≠ '$' := by decide

theorem hexVal_sep {e : Char} (h : isSep e) : hexVal e = none := by
  rcases isSep_cases h with rfl | rfl | rfl | rfl | rfl | rfl | rfl <;> decide

theorem resume_of_fail {interp : Bool} {a : StrAcc} {e : Char} {p' : List Char} {err : LexError}
    (h : strStep interp a e (0, 0) = .fail err) :
    (OpenLit.body interp a).resume (e :: p') = .error (eraseLoc err) := by
  simp only [OpenLit.resume]
  rw [strLoop.eq_def]
  simp only [h, accK]

/-- **after a backslash** (state `Escape`): any appended layout turns the accepted text into a rejected one -/
theorem open_escape_fails {interp : Bool} {a : StrAcc} (hst : a.state = .Escape) {e : Char}
    (p' : List Char) (he : isSep e) :
    (OpenLit.body interp a).resume (e :: p') = .error (.InvalidEscapeChar (0, 0) e) := by
  have : strStep interp a e (0, 0) = .fail (.InvalidEscapeChar (0, 0) e) := by
    rcases isSep_cases he with rfl | rfl | rfl | rfl | rfl | rfl | rfl <;> simp [strStep, hst]
  rw [resume_of_fail this]; rfl

/-- **inside `\x..`** (state `Hex`): the same, with `InvalidHexChar` -/
theorem open_hex_fails {interp : Bool} {a : StrAcc} (hst : a.state = .Hex) {e : Char}
    (p' : List Char) (he : isSep e) :
    (OpenLit.body interp a).resume (e :: p') = .error (.InvalidHexChar (0, 0) e) := by
  have : strStep interp a e (0, 0) = .fail (.InvalidHexChar (0, 0) e) := by
    simp [strStep, hst, hexVal_sep he]
  rw [resume_of_fail this]; rfl

/-- **right after `$`** in an interpolated literal: the same, with `InvalidInterpolationStart` -/
theorem open_interp_start_fails {interp : Bool} {a : StrAcc} (hst : a.state = .Interpolate)
    (hs : a.curStart + 1 = a.n) {e : Char} (p' : List Char) (he : isSep e) :
    (OpenLit.body interp a).resume (e :: p') = .error (.InvalidInterpolationStart (0, 0) e) := by
  have hb : e ≠ '{' := by
    rcases isSep_cases he with rfl | rfl | rfl | rfl | rfl | rfl | rfl <;> decide
  have : strStep interp a e (0, 0) = .fail (.InvalidInterpolationStart (0, 0) e) := by
    simp [strStep, hst, hs, hb]
  rw [resume_of_fail this]; rfl

example : ∃ e, isSep e := ⟨' ', by decide⟩

-- the same facts by evaluation of the whole lexer: at the end of a text that ends inside a literal, layout
-- changes the tokens (first line), and can turn an accepted text into a rejected one (second line).  So the
-- statement "such a text is a lexical error before and after" is FALSE of the model (and of the implementation,
-- whose `next_str_literal` leaves its loop at the end of input and returns `Ok`).
example : (lexAll c!"x=\"ab").2 = none ∧ (lexAll c!"x=\"ab ").2 = none ∧
    (lexAll c!"x=\"ab").1.map Span.tok = [.Ident c!"x", .Equals, .StrLiteral c!"ab"] ∧
    (lexAll c!"x=\"ab ").1.map Span.tok = [.Ident c!"x", .Equals, .StrLiteral c!"ab "] := by decide
example : (lexAll c!"x=\"ab\\").2 = none ∧
    (lexAll c!"x=\"ab\\ ").2 = some (.InvalidEscapeChar (1, 7) ' ') := by decide

/-! ### a literal that failed stays failed -/

theorem strLoop_error_append {interp : Bool} {r : List Char} {a : StrAcc} {l c : Nat} {e : LexError}
    (h : accK (strLoop interp r l c a) = .error e) (y : List Char) (l' c' : Nat) :
    accK (strLoop interp (r ++ y) l' c' a) = .error e := by
  induction r generalizing a l c l' c' with
  | nil => simp only [strLoop, accK, reduceCtorEq] at h
  | cons ch r ih =>
    have hs := strStep_indep interp a ch (l, c) (l', c')
    rw [strLoop.eq_def] at h
    simp only at h
    rw [List.cons_append, strLoop.eq_def]
    simp only
    cases h1 : strStep interp a ch (l, c) <;> cases h2 : strStep interp a ch (l', c') <;>
      rw [h1, h2] at hs <;> simp only [stepK, StrStep.cont.injEq, StrStep.done.injEq,
        StrStep.fail.injEq, reduceCtorEq] at hs <;> rw [h1] at h <;> simp only [accK, reduceCtorEq] at h
    · subst hs; exact ih h _ _
    · simp only [accK, ← hs]; exact h

theorem tokBody_err_str {ch : Char} {s : Scanner} {e : LexError} (h : exK (tokBody ch s) = .error e)
    (hs : e.isStr = true) : ch = '"' ∨ ch = '$' := by
  by_cases hq : ch = '"'
  · exact Or.inl hq
  by_cases hd : ch = '$'
  · exact Or.inr hd
  exfalso
  unfold tokBody at h
  split at h
  · cases h
  split at h
  · cases h
  split at h
  · unfold lexInt at h
    simp only at h
    split at h
    · cases h
    · simp only [exK, eraseLoc, Except.error.injEq] at h; subst h; cases hs
  split at h
  · cases h
  · simp only [exK, eraseLoc, Except.error.injEq] at h; subst h; cases hs

/-- **a text whose last literal is rejected stays rejected, with the same error, whatever is appended**:
    if the first token of `mid` fails with a string error, so does the first token of `mid ++ y` -/
theorem str_error_stable {mid : List Char} {e : LexError} {l c : Nat}
    (h : kind (nextToken ⟨mid, l, c⟩) = .err e) (hs : e.isStr = true) (y : List Char) (l' c' : Nat) :
    kind (nextToken ⟨mid ++ y, l', c'⟩) = .err e := by
  have hne : (skipWs mid l c).rest ≠ [] := by
    intro hr
    rw [kind_of_tokBody] at h
    simp only [Scanner.skipWs, hr] at h
    cases h
  have hlen : ([] : List Char).length < (skipWs (mid ++ []) l c).rest.length := by
    rw [List.append_nil]; exact List.length_pos_iff.mpr hne
  obtain ⟨w, a', _, hne', hsk⟩ := skipWs_local mid [] l c hlen
  cases a' with
  | nil => exact absurd rfl hne'
  | cons ch a1 =>
    have e1 : (Scanner.skipWs ⟨mid, l, c⟩).rest = ch :: a1 := by
      have := hsk [] l c
      simpa [Scanner.skipWs] using this
    have e2 : (Scanner.skipWs ⟨mid ++ y, l', c'⟩).rest = ch :: (a1 ++ y) := hsk y l' c'
    rw [kind_of_tokBody] at h ⊢
    rw [e1] at h
    rw [e2]
    simp only at h ⊢
    rw [tokBody_indep ch (s' := ⟨ch :: a1, 0, 0⟩) e1] at h
    rw [tokBody_indep ch (s' := ⟨ch :: (a1 ++ y), 0, 0⟩) e2]
    have hb : exK (tokBody ch ⟨ch :: a1, 0, 0⟩) = .error e := by
      cases hx : exK (tokBody ch ⟨ch :: a1, 0, 0⟩) with
      | error e' => rw [hx] at h; simp only [TokK.err.injEq] at h; rw [h]
      | ok p => obtain ⟨t', r'⟩ := p; rw [hx] at h; cases h
    have hgoal : exK (tokBody ch ⟨ch :: (a1 ++ y), 0, 0⟩) = .error e := by
      rcases tokBody_err_str hb hs with rfl | rfl
      · rw [tokBody_quote, exK_lexStr] at hb ⊢
        simp only [Scanner.next_mk_cons] at hb ⊢
        cases hx : accK (strLoop false a1 (locAfter 0 0 a1.head?).1 (locAfter 0 0 a1.head?).2 StrAcc.init) with
        | ok p => obtain ⟨a, r⟩ := p; rw [hx] at hb; cases hb
        | error e' =>
          rw [hx] at hb
          simp only [Except.error.injEq] at hb
          subst hb
          rw [strLoop_error_append hx y]
      · rw [tokBody_dollar, exK_lexStr] at hb ⊢
        cases a1 with
        | nil => simp [Scanner.next, strLoop, accK] at hb
        | cons q a2 =>
          simp only [Scanner.next_mk_cons, List.cons_append] at hb ⊢
          cases hx : accK (strLoop true a2
              (locAfter (locAfter 0 0 (some q)).1 (locAfter 0 0 (some q)).2 a2.head?).1
              (locAfter (locAfter 0 0 (some q)).1 (locAfter 0 0 (some q)).2 a2.head?).2 StrAcc.init) with
          | ok p => obtain ⟨a, r⟩ := p; simp only [List.head?_cons] at hb; rw [hx] at hb; cases hb
          | error e' =>
            simp only [List.head?_cons] at hb
            rw [hx] at hb
            simp only [Except.error.injEq] at hb
            subst hb
            rw [strLoop_error_append hx y]
    rw [hgoal]

example : kind (nextToken ⟨c!"\"a\\q", 1, 1⟩) = .err (.InvalidEscapeChar (0, 0) 'q') ∧
    (LexError.InvalidEscapeChar (0, 0) 'q').isStr = true := by decide

/-! ### the side condition is exact -/

theorem lexRaw_one_tok {s : Scanner} {t : Token} {r : List Char} (h : kind (nextToken s) = .tok t r) :
    (lexRaw 1 s).1.map Span.tok = [t] ∧ (lexRaw 1 s).2 = none := by
  cases hn : nextToken s with
  | eof => rw [hn] at h; cases h
  | err e => rw [hn] at h; cases h
  | tok sp s' =>
    rw [hn] at h
    simp only [kind, TokK.tok.injEq] at h
    simp [lexRaw, hn, h.1]

theorem lexRaw_one_err {s : Scanner} {e : LexError} (h : kind (nextToken s) = .err e) :
    (lexRaw 1 s).1 = [] ∧ (lexRaw 1 s).2.map eraseLoc = some e := by
  cases hn : nextToken s with
  | eof => rw [hn] at h; cases h
  | tok sp s' => rw [hn] at h; cases h
  | err e' =>
    rw [hn] at h
    simp only [kind, TokK.err.injEq] at h
    simp [lexRaw, hn, h]

/-- a blank inside a literal is refused or becomes part of the literal -/
theorem step_space (interp : Bool) (a : StrAcc) (loc : Loc) :
    (∃ e, strStep interp a ' ' loc = .fail e) ∨
    (∃ a'', strStep interp a ' ' loc = .cont a'' ∧ a''.chars = ' ' :: a.chars) := by
  obtain ⟨chars, n, st, fh, cs, sl, br⟩ := a
  cases st with
  | None =>
    exact Or.inr ⟨(⟨chars, n, .None, fh, cs, sl, br⟩ : StrAcc).push ' ', by simp [strStep], by simp [StrAcc.push]⟩
  | Escape => exact Or.inl ⟨.InvalidEscapeChar loc ' ', by simp [strStep]⟩
  | Hex => exact Or.inl ⟨.InvalidHexChar loc ' ', by simp [strStep, show hexVal ' ' = none from by decide]⟩
  | Interpolate =>
    by_cases h : cs + 1 = n
    · exact Or.inl ⟨.InvalidInterpolationStart loc ' ', by simp [strStep, h]⟩
    · by_cases hb : br = 0
      · exact Or.inr ⟨(⟨chars, n, .None, fh, cs, (cs, n + 1) :: sl, 0⟩ : StrAcc).push ' ',
          by simp [strStep, h, hb], by simp [StrAcc.push]⟩
      · exact Or.inr ⟨(⟨chars, n, .Interpolate, fh, cs, sl, br⟩ : StrAcc).push ' ',
          by simp [strStep, h, hb], by simp [StrAcc.push]⟩

theorem strTok_ne_of_chars {interp : Bool} {a a'' : StrAcc} (h : a''.chars = ' ' :: a.chars) :
    strTok interp a'' ≠ strTok interp a := by
  intro heq
  have hc : a''.chars.reverse = a.chars.reverse := by
    unfold strTok at heq
    cases interp
    · simpa using heq
    · simp only [if_true, Token.InterpStrLiteral.injEq] at heq; exact heq.1
  have := congrArg List.length hc
  rw [h] at this
  simp only [List.length_reverse, List.length_cons] at this
  omega

/-- for every open literal there is a layout text that does not leave it alone: one blank (it fails, or is
    added to the literal); after `$` alone two blanks (the first is taken for the opening quote) -/
theorem OpenLit.layout_matters (o : OpenLit) :
    ∃ p, Layout p ∧ ((∃ e, o.resume p = .error e) ∨ (∃ t r, o.resume p = .ok (t, r) ∧ t ≠ o.tok)) := by
  cases o with
  | body interp a =>
    refine ⟨[' '], Layout.blank (by decide) Layout.nil, ?_⟩
    rcases step_space interp a (0, 0) with ⟨e, he⟩ | ⟨a'', hs, hc⟩
    · exact Or.inl ⟨_, resume_of_fail he⟩
    · refine Or.inr ⟨strTok interp a'', [], ?_, strTok_ne_of_chars hc⟩
      simp only [OpenLit.resume]
      rw [strLoop.eq_def]
      simp only [hs, strLoop, accK]
  | noQuote =>
    exact ⟨[' ', ' '], Layout.blank (by decide) (Layout.blank (by decide) Layout.nil),
      Or.inr ⟨.InterpStrLiteral [' '] [], [], rfl, by decide⟩⟩

/-- **the side condition is necessary**: if `pre` ends inside a literal, some layout appended to it changes
    the raw token stream or the error -/
theorem unterminated_layout_matters {pre : List Char} (h : Unterminated pre) :
    ∃ p, Layout p ∧ ¬ RawEq (pre ++ p) pre := by
  obtain ⟨ts, mid, h1, ho⟩ := h
  unfold openTok at ho
  obtain ⟨o, ho'⟩ := Option.isSome_iff_exists.mp ho
  obtain ⟨p, hp, hkey⟩ := o.layout_matters
  refine ⟨p, hp, ?_⟩
  intro hre
  obtain ⟨hl2, hk2⟩ := unterminated_append h1 ho' p
  obtain ⟨b1, b2⟩ := lexRaw_one_tok (open_literal_is_a_token ho' 0 0)
  obtain ⟨A1, A2⟩ := hl2.lexRaw 1 0 0 0 0
  obtain ⟨B1, B2⟩ := h1.lexRaw 1 0 0 0 0
  obtain ⟨C1, C2⟩ := hre (ts.length + 1) 0 0 0 0
  rw [A1, B1, b1] at C1
  rw [A2, B2, b2] at C2
  have hk := hk2 0 0
  rcases hkey with ⟨e, he⟩ | ⟨t, r, he, hne⟩
  · rw [he] at hk
    rw [(lexRaw_one_err hk).2] at C2
    cases C2
  · rw [he] at hk
    rw [(lexRaw_one_tok hk).1] at C1
    have := List.append_cancel_left C1
    simp only [List.cons.injEq, and_true] at this
    exact hne this

/-- **exactness**: for a text that lexes to its end, "every layout text may be appended without changing the
    raw tokens or the error" holds if and only if the text does not end inside a string literal -/
theorem layout_at_end_iff {pre : List Char} {ts : List Token} (h : LexTo pre ts []) :
    (∀ p, Layout p → RawEq (pre ++ p) pre) ↔ ¬ Unterminated pre := by
  constructor
  · intro hall hu
    obtain ⟨p, hp, hn⟩ := unterminated_layout_matters hu
    exact hn (hall p hp)
  · intro hn p hp
    have h' : LexTo (pre ++ []) ts [] := by rw [List.append_nil]; exact h
    have := layout_invariance_at_boundary_term h' hp (fun _ => Or.inl rfl) (fun _ => hn)
    rw [List.append_nil, List.append_nil] at this
    exact this

/-! ### the theorems applied -/

theorem ex_lexTo : LexTo c!"x=\"ab\"" [.Ident c!"x", .Equals, .StrLiteral c!"ab"] [] :=
  .cons 1 1 (mid := c!"=\"ab\"") (by decide) (.cons 1 2 (mid := c!"\"ab\"") (by decide)
    (.cons 1 3 (mid := []) (by decide) (.nil _)))

theorem ex_closed : ¬ Unterminated c!"x=\"ab\"" :=
  fun h => absurd ((unterminated_iff (l := 1) (c := 3) (t := .StrLiteral c!"ab") (mid := c!"\"ab\"")
    (ts := [.Ident c!"x", .Equals])
    (.cons 1 1 (mid := c!"=\"ab\"") (by decide) (.cons 1 2 (mid := c!"\"ab\"") (by decide) (.nil _)))
    (by decide)).mp h) (by decide)

-- the last token of `pre` IS a string literal, nothing follows, and layout (with a comment) is appended
example : SameTokens (c!"x=\"ab\"" ++ (c!" \t# c" ++ [])) (c!"x=\"ab\"" ++ []) :=
  layout_invariance_at_boundary_term_lexAll (ts := [.Ident c!"x", .Equals, .StrLiteral c!"ab"])
    (by rw [List.append_nil]; exact ex_lexTo)
    (.blank (by decide) (.blank (by decide) (.comment (by decide)))) (fun _ => Or.inl rfl) (fun _ => ex_closed)
example : (lexAll c!"x=\"ab\" \t# c").1.map Span.tok = [.Ident c!"x", .Equals, .StrLiteral c!"ab"] ∧
    (lexAll c!"x=\"ab\"").1.map Span.tok = [.Ident c!"x", .Equals, .StrLiteral c!"ab"] := by decide
example : RawEq (c!"x=\"ab\"" ++ '\n' :: c!"y") (c!"x=\"ab\"" ++ ';' :: c!"y") :=
  newline_is_semicolon_at_end ex_lexTo ex_closed c!"y"

-- open literals in each state of the machine (hypotheses of `open_literal_swallows`, `unterminated_append`,
-- `open_none_plain`, `open_escape_fails`, `open_hex_fails`, `open_interp_start_fails` are satisfiable)
example : ∃ a, openLit c!"\"ab" = some (.body false a) ∧ a.state = .None := ⟨_, rfl, rfl⟩
example : ∃ a, openLit c!"\"ab\\" = some (.body false a) ∧ a.state = .Escape := ⟨_, rfl, rfl⟩
example : ∃ a, openLit c!"\"ab\\x4" = some (.body false a) ∧ a.state = .Hex := ⟨_, rfl, rfl⟩
example : ∃ a, openLit c!"$\"ab$" = some (.body true a) ∧ a.state = .Interpolate ∧ a.curStart + 1 = a.n :=
  ⟨_, rfl, rfl, rfl⟩
example : openLit c!"x $" = none ∧ openLit c!" $" = some .noQuote := ⟨rfl, rfl⟩
example : ∃ o, LexTo c!"x=\"ab" [.Ident c!"x", .Equals] c!"\"ab" ∧ openLit c!"\"ab" = some o :=
  ⟨_, .cons 1 1 (mid := c!"=\"ab") (by decide) (.cons 1 2 (mid := c!"\"ab") (by decide) (.nil _)), rfl⟩
-- `layout_at_end_iff` on both sides
example : ∀ p, Layout p → RawEq (c!"x=\"ab\"" ++ p) c!"x=\"ab\"" := (layout_at_end_iff ex_lexTo).mpr ex_closed

end Seed.C09
