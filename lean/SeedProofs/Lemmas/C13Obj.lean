/-
  C13Obj.lean — object patterns: the remaining-key bookkeeping, the collected rest, and the property loop
  of `bindObject` for patterns whose targets are names (`{a, "k": b, ..rest}`).
-/
import SeedProofs.Lemmas.C13Bind
namespace Seed
open Gen (Leaf)

/-! ### the remaining keys and the rest object (pure part) -/

/-- dropping the used keys one by one is one filter -/
theorem remaining_fold (all used : List (List Char)) :
    used.foldl (fun rem p => rem.filter fun k => k ≠ p) all = all.filter fun k => !used.contains k := by
  induction used generalizing all with
  | nil => exact (List.filter_eq_self.mpr fun _ _ => rfl).symm
  | cons p r ih =>
    rw [List.foldl_cons, ih, List.filter_filter]
    apply List.filter_congr
    intro k _
    by_cases h : k = p <;> simp [h]

/-- the rest object of `m` for the keys that were not named -/
def restObj (m : ObjMap) (used : List (List Char)) : ObjMap := m.filter fun kv => !used.contains kv.1

/-- the named part -/
def namedObj (m : ObjMap) (used : List (List Char)) : ObjMap := m.filter fun kv => used.contains kv.1

/-- what `bindObject` computes (a filter by the remaining-key list, itself derived from the keys of `m`) is `restObj` -/
theorem rest_filter_eq (m : ObjMap) (used : List (List Char)) :
    (m.filter fun kv => ((m.map Prod.fst).filter fun k => !used.contains k).contains kv.1) = restObj m used := by
  unfold restObj
  apply List.filter_congr
  intro kv hkv
  have hmem : kv.1 ∈ m.map Prod.fst := List.mem_map_of_mem hkv
  cases hu : used.contains kv.1 with
  | true =>
    simp only [Bool.not_true]
    cases hc : ((m.map Prod.fst).filter fun k => !used.contains k).contains kv.1 with
    | false => rfl
    | true =>
      have := (List.mem_filter.mp (List.contains_iff_mem.mp hc)).2
      simp only [hu, Bool.not_true] at this
      cases this
  | false =>
    simp only [Bool.not_false]
    apply List.contains_iff_mem.mpr
    exact List.mem_filter.mpr ⟨hmem, by simp only [hu, Bool.not_false]⟩

theorem objGet_restObj (m : ObjMap) (used : List (List Char)) (k : List Char) :
    objGet k (restObj m used) = if used.contains k then none else objGet k m := by
  have := objGet_filter_key (fun k => !used.contains k) k m
  unfold restObj
  rw [this]
  cases used.contains k <;> simp

theorem objGet_namedObj (m : ObjMap) (used : List (List Char)) (k : List Char) :
    objGet k (namedObj m used) = if used.contains k then objGet k m else none :=
  objGet_filter_key (fun k => used.contains k) k m

/-- **lossless**: the rest together with the named properties is the source object -/
theorem rest_plus_named {m : ObjMap} (h : Sorted m) (used : List (List Char)) :
    insertAll (restObj m used) (namedObj m used) = m := by
  have hn : Sorted (namedObj m used) := h.filter _
  have hr : Sorted (restObj m used) := h.filter _
  apply sorted_ext (insertAll_sorted hr _) h
  intro k
  rw [objGet_insertAll_sorted k hn, objGet_namedObj, objGet_restObj]
  cases hu : used.contains k with
  | true =>
    simp only [if_true]
    cases objGet k m <;> rfl
  | false => simp

/-- the rest has none of the named keys and all of the others -/
theorem restObj_sorted {m : ObjMap} (h : Sorted m) (used : List (List Char)) : Sorted (restObj m used) := h.filter _

/-! ### the property loop for named targets -/

/-- a property of a pattern whose target is a name: shorthand `x` or rename `"key": x` -/
inductive NamedProp where
  | short (x : List Char) (l : Loc)
  | pair (key : List Char) (lk : Loc) (x : List Char) (l : Loc)

def NamedProp.key : NamedProp → List Char
  | .short x _ => x
  | .pair k _ _ _ => k
def NamedProp.var : NamedProp → List Char × Loc
  | .short x l => (x, l)
  | .pair _ _ x l => (x, l)
def NamedProp.item : NamedProp → PropItem
  | .short x l => .Single (.mk (.Var x) l) false false
  | .pair k lk x l => .Pair (.mk (.Str k none) lk) (.mk (.Var x) l)

theorem bindObjectProp_var {n : Nat} {σ : State} {b : Addr} {m : ObjMap} {v : SVal} (sc : List Addr) (names : List (List Char))
    (x : List Char) (l : Loc) (pname : List Char) (ploc : Loc) (decl : Bool)
    (hk : pname ≠ c!"_") (hb : σ.getObj b = some m) (hv : objGet pname m = some v) :
    bindObjectProp (n + 2) σ sc names (.mk (.Var x) l) b pname ploc decl = bindNextName 0 σ sc names x l v none decl := by
  rw [bindObjectProp]
  simp only [hb, hv]
  rw [bindNext_var, bindNextName_fuel _ 0]

/-- a missing property is a located error, whatever the target -/
theorem bindObjectProp_missing {n : Nat} {σ : State} {b : Addr} {m : ObjMap} (sc : List Addr) (names : List (List Char))
    (lhs : Expr) (pname : List Char) (ploc : Loc) (decl : Bool)
    (hk : pname ≠ c!"_") (hb : σ.getObj b = some m) (hv : objGet pname m = none) :
    bindObjectProp (n + 1) σ sc names lhs b pname ploc decl = errAt ploc (Leaf.PropNotFound pname) σ := by
  rw [bindObjectProp]
  simp only [hb, hv]

theorem evalToStr_lit (n : Nat) (σ : State) (sc : List Addr) (d : List Char) (k : List Char) (lk : Loc)
    (hname : utf8Decode (utf8Encode k) = .ok k) :
    evalToStr (n + 2) σ sc d (.mk (.Str k none) lk) = .ok k σ := by
  rw [evalToStr, evalExpr]
  simp only [Res.bind, SVal.plain, hname]

/-- one named property: look the key up in the source, bind the name, drop the key from the remaining ones -/
theorem bindObject_named_step {n : Nat} {σ : State} {b : Addr} {m : ObjMap} {v : SVal} (sc : List Addr)
    (names : List (List Char)) (p : NamedProp) (r : List PropItem) (decl : Bool) (i total : Nat) (rem : List (List Char))
    (hk : p.key ≠ c!"_") (hname : utf8Decode (utf8Encode p.key) = .ok p.key)
    (hb : σ.getObj b = some m) (hv : objGet p.key m = some v) :
    bindObject (n + 3) σ sc names (p.item :: r) b decl i total rem =
      (bindNextName 0 σ sc names p.var.1 p.var.2 v none decl).bind fun names' σ1 =>
        bindObject (n + 2) σ1 sc names' r b decl (i + 1) total (rem.filter fun k => k ≠ p.key) := by
  cases p with
  | short x l =>
    simp only [NamedProp.item, NamedProp.key, NamedProp.var] at *
    rw [bindObject]
    simp only [Bool.false_eq_true, if_false, Expr.raw, Expr.loc, hk]
    rw [bindObjectProp_var sc names x l x l decl hk hb hv]
    rfl
  | pair k lk x l =>
    simp only [NamedProp.item, NamedProp.key, NamedProp.var] at *
    rw [bindObject, evalToStr_lit _ _ _ _ _ _ hname]
    simp only [Res.bind, Expr.loc]
    rw [bindObjectProp_var sc names x l k lk decl hk hb hv]
    rfl

/-- the reference for a row of named properties: the values are the source's properties under the keys -/
def NamedRow (m : ObjMap) : List NamedProp → List SVal → Prop
  | [], [] => True
  | p :: ps, v :: vs => p.key ≠ c!"_" ∧ utf8Decode (utf8Encode p.key) = .ok p.key ∧ objGet p.key m = some v ∧ NamedRow m ps vs
  | _, _ => False

theorem res_bind_assoc {α β γ} (r : Res α) (f : α → State → Res β) (g : β → State → Res γ) :
    (r.bind f).bind g = r.bind fun a σ => (f a σ).bind g := by
  cases r <;> rfl

/-- `bindObject` over named properties = bind the names, left to right, to the source's properties; then go on
    with the rest of the pattern, the used keys removed from the remaining ones -/
theorem bindObject_named {σ : State} {b : Addr} {m : ObjMap} (sc : List Addr) (decl : Bool) (total : Nat)
    (ps : List NamedProp) (vals : List SVal) (tail : List PropItem) (names : List (List Char)) (i k : Nat)
    (rem : List (List Char)) (hb : σ.getObj b = some m) (hrow : NamedRow m ps vals) :
    bindObject (ps.length + (k + 2)) σ sc names (ps.map NamedProp.item ++ tail) b decl i total rem =
      (bindVars σ sc names decl ((ps.map NamedProp.var).zip vals)).bind fun names' σ1 =>
        bindObject (k + 2) σ1 sc names' tail b decl (i + ps.length) total
          (rem.filter fun key => !(ps.map NamedProp.key).contains key) := by
  induction ps generalizing σ vals names i rem with
  | nil =>
    cases vals with
    | cons _ _ => exact absurd hrow id
    | nil =>
      simp only [List.map_nil, List.nil_append, List.length_nil, Nat.zero_add, List.zip_nil_left, bindVars, Res.bind,
        Nat.add_zero]
      congr 1
      exact (List.filter_eq_self.mpr fun _ _ => rfl).symm
  | cons p ps ih =>
    cases vals with
    | nil => exact absurd hrow id
    | cons v vs =>
      obtain ⟨hk, hname, hv, hrest⟩ := hrow
      have e1 : (p :: ps).length + (k + 2) = (ps.length + k) + 3 := by simp only [List.length_cons]; omega
      rw [e1, List.map_cons, List.cons_append, bindObject_named_step sc names p _ decl i total rem hk hname hb hv]
      simp only [List.map_cons, List.zip_cons_cons, bindVars]
      rw [res_bind_assoc]
      cases hres : bindNextName 0 σ sc names p.var.1 p.var.2 v none decl with
      | ok names' σ1 =>
        simp only [Res.bind]
        have hb1 : σ1.getObj b = some m := by rw [(bindNextName_heap hres).2.1 b]; exact hb
        have e2 : ps.length + k + 2 = ps.length + (k + 2) := by omega
        rw [e2, ih vs names' (i + 1) _ hb1 hrest, List.filter_filter]
        have e3 : i + 1 + ps.length = i + (p :: ps).length := by simp only [List.length_cons]; omega
        rw [e3]
        congr 2
        funext names'' σ2
        congr 1
        apply List.filter_congr
        intro key _
        by_cases hkey : key = p.key <;> simp [hkey]
      | err e σ1 => rfl
      | crash w σ1 => rfl
      | timeout => rfl

/-- the final `..rest` of an object pattern: a fresh object holding the properties whose keys remain -/
theorem bindObject_collect {n : Nat} {σ : State} {b : Addr} {m : ObjMap} (sc : List Addr) (names : List (List Char))
    (x : List Char) (l : Loc) (decl : Bool) (total : Nat) (rem : List (List Char)) (hb : σ.getObj b = some m) :
    bindObject (n + 2) σ sc names [.Single (.mk (.Var x) l) false true] b decl (total - 1) total rem =
      bindNextName 0 (σ.alloc (.obj (m.filter fun kv => rem.contains kv.1))).2 sc names x l
        (SVal.plain (.obj σ.heap.size)) none decl := by
  rw [bindObject]
  simp only [Bool.false_eq_true, if_false, Expr.raw, if_true, ne_eq, not_true_eq_false, hb, State.alloc, Expr.loc]
  rw [bindNextName_fuel _ 0]
  cases bindNextName 0 _ sc names x l _ none decl with
  | ok names' σ1 => simp only [Res.bind]; rw [bindObject]
  | err e σ1 => rfl
  | crash w σ1 => rfl
  | timeout => rfl

/-- a collect that is not the last property -/
theorem bindObject_collect_not_last {n : Nat} {σ : State} {b : Addr} (sc : List Addr) (names : List (List Char))
    (x : List Char) (l : Loc) (r : List PropItem) (decl : Bool) (i total : Nat) (rem : List (List Char))
    (h : i ≠ total - 1) :
    bindObject (n + 1) σ sc names (.Single (.mk (.Var x) l) false true :: r) b decl i total rem =
      errAt l Leaf.ObjectCollectIsNotLast σ := by
  rw [bindObject]
  simp only [Bool.false_eq_true, if_false, Expr.raw, if_true, ne_eq, h, not_false_eq_true, Expr.loc]

end Seed
