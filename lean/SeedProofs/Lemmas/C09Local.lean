/-
  Lemmas/C09Local.lean — a token depends only on its own characters and on at most one character of
  lookahead, and a separator character (blank, `#`, newline, `;`) ends every token at least as well as
  whatever followed before.

  `nextToken_local`: if lexing `a ++ x` yields the token `t` and leaves exactly `x`, then lexing
  `a ++ y` yields `t` and leaves `y`, provided `y` starts like `x` does, or starts with a separator —
  except that an *unterminated* string literal at the end of input (`x = []`; the model, like the
  implementation, accepts it) would swallow what is appended, so that case is excluded.
-/
import SeedModel.Lex
import SeedProofs.Lemmas.Scan
import SeedProofs.Lemmas.C09Pos
import SeedProofs.Lemmas.C09Layout
namespace Seed.C09
open Seed

/-- characters that end every token: blanks, `#`, newline, `;` -/
def isSep (c : Char) : Prop := isBlank c ∨ c = '#' ∨ c = '\n' ∨ c = ';'

instance (c : Char) : Decidable (isSep c) := by unfold isSep; infer_instance

def isStrTok : Token → Bool
  | .StrLiteral _ => true
  | .InterpStrLiteral _ _ => true
  | _ => false

theorem isSep_cases {e : Char} (h : isSep e) :
    e = ' ' ∨ e = '\t' ∨ e = '\r' ∨ e = Char.ofNat 12 ∨ e = '#' ∨ e = '\n' ∨ e = ';' := by
  rcases h with (h | h | h | h) | h | h | h
  · exact Or.inl h
  · exact Or.inr (Or.inl h)
  · exact Or.inr (Or.inr (Or.inl h))
  · refine Or.inr (Or.inr (Or.inr (Or.inl ?_)))
    rw [← h, Char.ofNat_toNat]
  · exact Or.inr (Or.inr (Or.inr (Or.inr (Or.inl h))))
  · exact Or.inr (Or.inr (Or.inr (Or.inr (Or.inr (Or.inl h)))))
  · exact Or.inr (Or.inr (Or.inr (Or.inr (Or.inr (Or.inr h)))))

theorem isIdentChar_sep {e : Char} (h : isSep e) : isIdentChar e = false := by
  rcases isSep_cases h with rfl | rfl | rfl | rfl | rfl | rfl | rfl <;> decide

theorem isIntChar_sep {e : Char} (h : isSep e) : isIntChar e = false := by
  rcases isSep_cases h with rfl | rfl | rfl | rfl | rfl | rfl | rfl <;> decide

/-- no two-character symbol has a separator as its second character -/
theorem matchDouble_sep (c1 : Char) {e : Char} (h : isSep e) : matchDouble c1 e = none := by
  rcases isSep_cases h with rfl | rfl | rfl | rfl | rfl | rfl | rfl <;>
    simp [matchDouble, lookupAssoc, Gen.doubleSym]

/-- no three-character symbol has a separator as its third character -/
theorem matchTriple_sep (c1 c2 : Char) {e : Char} (h : isSep e) : matchTriple c1 c2 e = none := by
  rcases isSep_cases h with rfl | rfl | rfl | rfl | rfl | rfl | rfl <;>
    simp [matchTriple, lookupAssoc, Gen.tripleSym]

/-! ### list helpers -/

theorem drop_append_eq_self {a x : List Char} {k : Nat} (hk : k ≤ (a ++ x).length)
    (h : (a ++ x).drop k = x) : k = a.length := by
  have := congrArg List.length h
  simp only [List.length_drop, List.length_append] at this hk
  omega

theorem append_eq_self_left {a x : List Char} (h : a ++ x = x) : a = [] := by
  have := congrArg List.length h
  simp only [List.length_append] at this
  exact List.length_eq_zero_iff.mp (by omega)

theorem takeWhile_boundary {P : Char → Bool} {a x : List Char}
    (h : ((a ++ x).takeWhile P).length = a.length) :
    (∀ c ∈ a, P c = true) ∧ (∀ e, x.head? = some e → P e = false) := by
  induction a with
  | nil =>
    refine ⟨by simp, ?_⟩
    intro e he
    cases x with
    | nil => cases he
    | cons d x =>
      simp only [List.head?_cons, Option.some.injEq] at he
      subst he
      cases hp : P d with
      | false => rfl
      | true => simp [hp] at h
  | cons ch a ih =>
    cases hp : P ch with
    | false => simp [hp] at h
    | true =>
      simp only [List.cons_append, List.takeWhile_cons, hp, if_true, List.length_cons,
        Nat.add_right_cancel_iff] at h
      obtain ⟨h1, h2⟩ := ih h
      refine ⟨?_, h2⟩
      intro c hc
      rcases List.mem_cons.mp hc with rfl | hc
      · exact hp
      · exact h1 c hc

theorem takeWhile_of_boundary {P : Char → Bool} {a y : List Char} (ha : ∀ c ∈ a, P c = true)
    (hy : ∀ e, y.head? = some e → P e = false) : (a ++ y).takeWhile P = a := by
  induction a with
  | nil =>
    cases y with
    | nil => rfl
    | cons d y => simp [hy d rfl]
  | cons ch a ih =>
    simp only [List.cons_append, List.takeWhile_cons, ha ch (List.mem_cons_self ..), if_true]
    rw [ih (fun c hc => ha c (List.mem_cons_of_mem _ hc))]

/-- a maximal run of `P`-characters that ends exactly at the `a`/`x` border also ends there when `x`
    is replaced by a text starting the same way, or with a non-`P` character -/
theorem takeWhile_local {P : Char → Bool} {a x y : List Char}
    (hdrop : (a ++ x).drop ((a ++ x).takeWhile P).length = x)
    (hy : ∀ e, y.head? = some e → (x.head? = some e ∨ P e = false)) :
    (a ++ x).takeWhile P = a ∧ (a ++ y).takeWhile P = a := by
  have hk : ((a ++ x).takeWhile P).length ≤ (a ++ x).length :=
    (List.takeWhile_sublist P).length_le
  have hlen := drop_append_eq_self hk hdrop
  obtain ⟨h1, h2⟩ := takeWhile_boundary hlen
  refine ⟨takeWhile_of_boundary h1 h2, takeWhile_of_boundary h1 ?_⟩
  intro e he
  rcases hy e he with h | h
  · exact h2 e h
  · exact h

/-! ### whitespace: where skipping stops does not depend on what follows the stopping point -/

theorem skipComment_rest_length_le (r : List Char) (l c : Nat) :
    (skipComment r l c).rest.length ≤ r.length := by
  obtain ⟨n, hn⟩ := skipComment_advance r l c
  rw [hn, Scanner.advance_rest, List.length_drop]
  exact Nat.sub_le _ _

theorem skipWs_rest_length_le (r : List Char) (l c : Nat) :
    (skipWs r l c).rest.length ≤ r.length := by
  obtain ⟨n, hn⟩ := skipWs_advance r l c
  rw [hn, Scanner.advance_rest, List.length_drop]
  exact Nat.sub_le _ _

theorem skipComment_local (a x : List Char) (l c : Nat)
    (h : x.length < (skipComment (a ++ x) l c).rest.length) :
    ∃ w a', a = w ++ a' ∧ a' ≠ [] ∧ ∀ z l' c', (skipComment (a ++ z) l' c').rest = a' ++ z := by
  induction a generalizing l c with
  | nil =>
    have := skipComment_rest_length_le x l c
    simp only [List.nil_append] at h
    omega
  | cons ch a ih =>
    by_cases hn : ch = '\n'
    · refine ⟨[], ch :: a, rfl, by simp, ?_⟩
      intro z l' c'
      simp [skipComment, hn]
    · simp only [List.cons_append, skipComment, hn, if_false] at h
      obtain ⟨w, a', e1, e2, e3⟩ := ih _ _ h
      refine ⟨ch :: w, a', by rw [e1, List.cons_append], e2, ?_⟩
      intro z l' c'
      simp only [List.cons_append, skipComment, hn, if_false]
      exact e3 z _ _

theorem skipWs_local (a x : List Char) (l c : Nat)
    (h : x.length < (skipWs (a ++ x) l c).rest.length) :
    ∃ w a', a = w ++ a' ∧ a' ≠ [] ∧ ∀ z l' c', (skipWs (a ++ z) l' c').rest = a' ++ z := by
  induction a generalizing l c with
  | nil =>
    have := skipWs_rest_length_le x l c
    simp only [List.nil_append] at h
    omega
  | cons ch a ih =>
    by_cases h1 : ch = '#'
    · have hsk : ∀ z l c, skipWs ((ch :: a) ++ z) l c = skipComment ((ch :: a) ++ z) l c := by
        intro z l c
        simp only [List.cons_append, skipWs, h1, if_true]
      rw [hsk] at h
      obtain ⟨w, a', e1, e2, e3⟩ := skipComment_local (ch :: a) x l c h
      exact ⟨w, a', e1, e2, fun z l' c' => by rw [hsk]; exact e3 z l' c'⟩
    · by_cases h2 : isBlank ch
      · rw [List.cons_append, skipWs_blank h2] at h
        obtain ⟨w, a', e1, e2, e3⟩ := ih _ _ h
        refine ⟨ch :: w, a', by rw [e1, List.cons_append], e2, ?_⟩
        intro z l' c'
        rw [List.cons_append, skipWs_blank h2]
        exact e3 z _ _
      · refine ⟨[], ch :: a, rfl, by simp, ?_⟩
        intro z l' c'
        rw [List.cons_append, skipWs_stop h2 h1]

end Seed.C09
