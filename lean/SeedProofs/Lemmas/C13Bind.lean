/-
  C13Bind.lean — `bindNextName` case by case, its effect on the heap, and the item loop of `bindList`
  for patterns made of names (and `_`).
-/
import SeedProofs.Lemmas.C12Heap
import SeedProofs.Lemmas.C12Map
namespace Seed
open Gen (Leaf)

/-! ### `bindNextName` -/

/-- without an operator the fuel plays no role -/
theorem bindNextName_fuel (f1 f2 : Nat) (σ : State) (sc : List Addr) (names : List (List Char)) (name : List Char)
    (loc : Loc) (rhs : SVal) (decl : Bool) :
    bindNextName f1 σ sc names name loc rhs none decl = bindNextName f2 σ sc names name loc rhs none decl := by
  simp only [bindNextName]

/-- `_` binds nothing -/
theorem bindNextName_underscore (f : Nat) (σ : State) (sc : List Addr) (names : List (List Char)) (loc : Loc) (rhs : SVal)
    (op : Option (BinaryOp × Loc)) (decl : Bool) :
    bindNextName f σ sc names c!"_" loc rhs op decl = .ok names σ := by
  simp [bindNextName]

/-- a name may be bound once per pattern -/
theorem bindNextName_twice {f : Nat} {σ : State} {sc : List Addr} {names : List (List Char)} {name : List Char} (loc : Loc)
    (rhs : SVal) (op : Option (BinaryOp × Loc)) (decl : Bool) (h1 : name ≠ c!"_") (h2 : name ∈ names) :
    bindNextName f σ sc names name loc rhs op decl = errAt loc (Leaf.AlreadyInBinding name) σ := by
  simp [bindNextName, h1, h2]

/-- declaration of a fresh name: the innermost scope cell gets one more entry, nothing else changes -/
theorem bindNextName_declare {f : Nat} {σ : State} {a : Addr} {sc : List Addr} {names : List (List Char)} {name : List Char}
    {m : ScopeMap} (loc : Loc) (rhs : SVal)
    (h1 : name ≠ c!"_") (h2 : name ∉ names) (hs : σ.getScope a = some m) (hf : scopeLookup name m = none) :
    bindNextName f σ (a :: sc) names name loc rhs none true =
      .ok (name :: names) (σ.set a (.scope ((name, rhs, loc) :: m))) := by
  simp [bindNextName, h1, h2, scopeDeclare, hs, hf]

/-- declaration of a name the scope already has -/
theorem bindNextName_redeclare {f : Nat} {σ : State} {a : Addr} {sc : List Addr} {names : List (List Char)} {name : List Char}
    {m : ScopeMap} {v : SVal} {prev : Loc} (loc : Loc) (rhs : SVal)
    (h1 : name ≠ c!"_") (h2 : name ∉ names) (hs : σ.getScope a = some m) (hf : scopeLookup name m = some (v, prev)) :
    bindNextName f σ (a :: sc) names name loc rhs none true = errAt loc (Leaf.AlreadyInScope name prev.1 prev.2) σ := by
  simp [bindNextName, h1, h2, scopeDeclare, hs, hf]

/-- `scopeAssign` writes one scope cell -/
theorem scopeAssign_spec {σ σ' : State} {sc : List Addr} {name : List Char} {v : SVal}
    (h : scopeAssign σ sc name v = some σ') :
    ∃ a m m', a ∈ sc ∧ σ.getScope a = some m ∧ σ' = σ.set a (.scope m') := by
  induction sc with
  | nil => simp [scopeAssign] at h
  | cons a r ih =>
    simp only [scopeAssign] at h
    cases hs : σ.getScope a with
    | none => simp [hs] at h
    | some m =>
      simp only [hs] at h
      cases hl : scopeLookup name m with
      | some p =>
        simp only [hl] at h
        cases h
        exact ⟨a, m, _, List.mem_cons_self, hs, rfl⟩
      | none =>
        simp only [hl] at h
        obtain ⟨a', m', m'', ha, hs', e⟩ := ih h
        exact ⟨a', m', m'', List.mem_cons_of_mem _ ha, hs', e⟩

/-- binding a name (declaration or plain assignment) only ever writes a scope cell: every list and object
    cell of the heap reads as before -/
theorem bindNextName_heap {f : Nat} {σ σ' : State} {sc : List Addr} {names names' : List (List Char)} {name : List Char}
    {loc : Loc} {rhs : SVal} {decl : Bool}
    (h : bindNextName f σ sc names name loc rhs none decl = .ok names' σ') :
    (∀ b, σ'.getList b = σ.getList b) ∧ (∀ b, σ'.getObj b = σ.getObj b) ∧ σ'.out = σ.out := by
  unfold bindNextName at h
  split at h
  · cases h; exact ⟨fun _ => rfl, fun _ => rfl, rfl⟩
  · split at h
    · simp [errAt] at h
    · cases decl with
      | true =>
        simp only [if_true] at h
        unfold scopeDeclare at h
        cases sc with
        | nil => simp at h
        | cons a r =>
          simp only at h
          cases hs : σ.getScope a with
          | none => simp [hs] at h
          | some m =>
            simp only [hs] at h
            cases hl : scopeLookup name m with
            | some p => simp [hl, errAt] at h
            | none =>
              simp only [hl] at h
              cases h
              exact ⟨fun b => getList_set_scope hs, fun b => getObj_set_scope hs, rfl⟩
      | false =>
        simp only [Bool.false_eq_true, if_false] at h
        cases ha : scopeAssign σ sc name rhs with
        | none => simp [ha, errAt] at h
        | some σ2 =>
          simp only [ha] at h
          cases h
          obtain ⟨a, m, m', _, hs, e⟩ := scopeAssign_spec ha
          subst e
          exact ⟨fun b => getList_set_scope hs, fun b => getObj_set_scope hs, rfl⟩

/-! ### patterns made of names -/

/-- the reference for a row of names: bind them one after the other, left to right, threading the
    names-in-binding set -/
def bindVars (σ : State) (sc : List Addr) (names : List (List Char)) (decl : Bool) :
    List ((List Char × Loc) × SVal) → Res (List (List Char))
  | [] => .ok names σ
  | ((x, l), v) :: r => (bindNextName 0 σ sc names x l v none decl).bind fun names' σ1 => bindVars σ1 sc names' decl r

def varItems (vars : List (List Char × Loc)) : List ListItem :=
  vars.map fun (x, l) => ListItem.mk (Expr.mk (.Var x) l) false

theorem bindNext_var (n : Nat) (σ : State) (sc : List Addr) (names : List (List Char)) (x : List Char) (l : Loc) (rhs : SVal)
    (op : Option (BinaryOp × Loc)) (decl : Bool) :
    bindNext (n + 1) σ sc names (.mk (.Var x) l) rhs op decl = bindNextName n σ sc names x l rhs op decl := by
  rw [bindNext]

/-- `bindList` over names binds position `i + j` of the source to the `j`-th name -/
theorem bindList_vars {σ : State} {b : Addr} {vals : List SVal} (sc : List Addr) (lhsLoc : Loc) (decl : Bool) (lhsLen : Nat)
    (vars : List (List Char × Loc)) (names : List (List Char)) (i d : Nat)
    (hb : σ.getList b = some vals) (hlen : i + vars.length ≤ vals.length) :
    bindList (vars.length + 1 + d) σ sc names (varItems vars) false lhsLoc b decl i lhsLen =
      bindVars σ sc names decl (vars.zip (vals.drop i)) := by
  induction vars generalizing σ names i with
  | nil => rw [varItems, List.map_nil, List.length_nil, Nat.zero_add, Nat.add_comm, bindList]; rfl
  | cons p r ih =>
    obtain ⟨x, l⟩ := p
    simp only [List.length_cons] at hlen
    have hi : i < vals.length := by omega
    have e1 : (((x, l) :: r).length + 1 + d) = (r.length + 1 + d) + 1 := by simp only [List.length_cons]; omega
    rw [e1, varItems, List.map_cons, bindList]
    simp only [Bool.false_eq_true, if_false, hb, Bool.false_and, List.getElem?_eq_getElem hi]
    have e2 : r.length + 1 + d = (r.length + d) + 1 := by omega
    rw [List.drop_eq_getElem_cons hi, List.zip_cons_cons, bindVars]
    conv => lhs; rw [e2, bindNext_var, bindNextName_fuel _ 0, ← e2]
    cases hres : bindNextName 0 σ sc names x l vals[i] none decl with
    | ok names' σ1 =>
      simp only [Res.bind]
      have hb1 : σ1.getList b = some vals := by rw [(bindNextName_heap hres).1 b]; exact hb
      exact ih names' (i + 1) hb1 (by omega)
    | err e σ1 => rfl
    | crash w σ1 => rfl
    | timeout => rfl

/-- the last item of a collecting list pattern: a fresh list holding the tail of the source -/
theorem bindList_rest {σ : State} {b : Addr} {vals : List SVal} (n : Nat) (sc : List Addr) (lhsLoc : Loc) (decl : Bool)
    (lhsLen : Nat) (names : List (List Char)) (x : List Char) (l : Loc) (hb : σ.getList b = some vals) :
    bindList (n + 3) σ sc names [ListItem.mk (Expr.mk (.Var x) l) false] true lhsLoc b decl (lhsLen - 1) lhsLen =
      bindNextName 0 (σ.alloc (.list (vals.drop (lhsLen - 1)))).2 sc names x l (SVal.plain (.list σ.heap.size)) none decl := by
  rw [bindList]
  simp only [Bool.false_eq_true, if_false, hb, Bool.true_and, decide_true, if_true, State.alloc]
  rw [bindNext_var, bindNextName_fuel _ 0]
  cases bindNextName 0 _ sc names x l _ none decl with
  | ok names' σ1 => simp only [Res.bind]; rw [bindList]
  | err e σ1 => rfl
  | crash w σ1 => rfl
  | timeout => rfl

/-! ### composition helpers -/

theorem res_bind_assoc' {α β γ} (r : Res α) (f : α → State → Res β) (g : β → State → Res γ) :
    (r.bind f).bind g = r.bind fun a σ => (f a σ).bind g := by
  cases r <;> rfl

theorem res_bind_congr {α β} {r : Res α} {f g : α → State → Res β} (h : ∀ a σ, r = .ok a σ → f a σ = g a σ) :
    r.bind f = r.bind g := by
  cases r with
  | ok a σ => exact h a σ rfl
  | err e σ => rfl
  | crash w σ => rfl
  | timeout => rfl

/-- binding a row of names leaves every list and object cell as it was -/
theorem bindVars_heap {σ σ' : State} {sc : List Addr} {names names' : List (List Char)} {decl : Bool}
    {l : List ((List Char × Loc) × SVal)} (h : bindVars σ sc names decl l = .ok names' σ') :
    (∀ b, σ'.getList b = σ.getList b) ∧ (∀ b, σ'.getObj b = σ.getObj b) ∧ σ'.out = σ.out := by
  induction l generalizing σ names with
  | nil => simp only [bindVars] at h; cases h; exact ⟨fun _ => rfl, fun _ => rfl, rfl⟩
  | cons p r ih =>
    obtain ⟨⟨x, lx⟩, v⟩ := p
    simp only [bindVars] at h
    cases hres : bindNextName 0 σ sc names x lx v none decl with
    | ok n1 σ1 =>
      rw [hres] at h
      simp only [Res.bind] at h
      obtain ⟨a1, a2, a3⟩ := bindNextName_heap hres
      obtain ⟨b1, b2, b3⟩ := ih h
      exact ⟨fun b => (b1 b).trans (a1 b), fun b => (b2 b).trans (a2 b), b3.trans a3⟩
    | err e σ1 => rw [hres] at h; cases h
    | crash w σ1 => rw [hres] at h; cases h
    | timeout => rw [hres] at h; cases h

/-- the general form of `bindList_vars`: a row of names followed by more items (`tail`); in a collecting pattern
    the row must end before the collecting position -/
theorem bindList_vars_tail {σ : State} {b : Addr} {vals : List SVal} (sc : List Addr) (lhsLoc : Loc) (decl : Bool)
    (collect : Bool) (lhsLen : Nat) (tail : List ListItem)
    (vars : List (List Char × Loc)) (names : List (List Char)) (i k : Nat)
    (hb : σ.getList b = some vals) (hlen : i + vars.length ≤ vals.length)
    (hc : collect = true → i + vars.length ≤ lhsLen - 1) :
    bindList (vars.length + (k + 1)) σ sc names (varItems vars ++ tail) collect lhsLoc b decl i lhsLen =
      (bindVars σ sc names decl (vars.zip (vals.drop i))).bind fun names' σ1 =>
        bindList (k + 1) σ1 sc names' tail collect lhsLoc b decl (i + vars.length) lhsLen := by
  induction vars generalizing σ names i with
  | nil =>
    simp only [varItems, List.map_nil, List.nil_append, List.length_nil, Nat.zero_add, List.zip_nil_left, bindVars,
      Res.bind, Nat.add_zero]
  | cons p r ih =>
    obtain ⟨x, l⟩ := p
    simp only [List.length_cons] at hlen hc
    have hi : i < vals.length := by omega
    have e1 : (((x, l) :: r).length + (k + 1)) = (r.length + (k + 1)) + 1 := by simp only [List.length_cons]; omega
    have hnc : (collect && decide (i = lhsLen - 1)) = false := by
      cases collect with
      | false => rfl
      | true => have := hc rfl; simp only [Bool.true_and, decide_eq_false_iff_not]; omega
    rw [e1, varItems, List.map_cons, List.cons_append, bindList]
    simp only [Bool.false_eq_true, if_false, hb, hnc, List.getElem?_eq_getElem hi]
    have e2 : r.length + (k + 1) = (r.length + k) + 1 := by omega
    rw [List.drop_eq_getElem_cons hi, List.zip_cons_cons, bindVars, res_bind_assoc']
    conv => lhs; rw [e2, bindNext_var, bindNextName_fuel _ 0, ← e2]
    cases hres : bindNextName 0 σ sc names x l vals[i] none decl with
    | ok names' σ1 =>
      simp only [Res.bind]
      have hb1 : σ1.getList b = some vals := by rw [(bindNextName_heap hres).1 b]; exact hb
      have := ih names' (i + 1) hb1 (by omega) (fun h => by have := hc h; omega)
      rw [varItems] at this
      rw [this]
      have e3 : i + 1 + r.length = i + (r.length + 1) := by omega
      simp only [e3, List.length_cons]
      rfl
    | err e σ1 => rfl
    | crash w σ1 => rfl
    | timeout => rfl

/-! ### declaring a row of fresh names -/

/-- names pairwise different, none of them `_` -/
def FreshRow (m : ScopeMap) (names : List (List Char)) : List (List Char × Loc) → Prop
  | [] => True
  | (x, _) :: r => x ≠ c!"_" ∧ x ∉ names ∧ scopeLookup x m = none ∧ (∀ p ∈ r, p.1 ≠ x) ∧ FreshRow m names r

theorem scopeLookup_cons_ne {k x : List Char} {v : SVal} {l : Loc} {m : ScopeMap} (h : k ≠ x) :
    scopeLookup k ((x, v, l) :: m) = scopeLookup k m := by
  simp [scopeLookup, h]

theorem FreshRow.step {m : ScopeMap} {names : List (List Char)} {x : List Char} {v : SVal} {l : Loc}
    {r : List (List Char × Loc)} (h : FreshRow m names r) (hx : ∀ p ∈ r, p.1 ≠ x) :
    FreshRow ((x, v, l) :: m) (x :: names) r := by
  induction r with
  | nil => trivial
  | cons p r ih =>
    obtain ⟨y, ly⟩ := p
    obtain ⟨h1, h2, h3, h4, h5⟩ := h
    have hyx : y ≠ x := hx (y, ly) List.mem_cons_self
    refine ⟨h1, ?_, ?_, h4, ih h5 fun p hp => hx p (List.mem_cons_of_mem _ hp)⟩
    · intro hmem
      rcases List.mem_cons.mp hmem with e | e
      · exact hyx e
      · exact h2 e
    · rw [scopeLookup_cons_ne hyx]; exact h3

/-- declaring a row of fresh, pairwise different names succeeds; afterwards the innermost scope maps every
    name to its value, and no other cell of the heap has changed -/
theorem bindVars_declare {σ : State} {a : Addr} {m : ScopeMap} (sc : List Addr) (names : List (List Char))
    (vars : List (List Char × Loc)) (vals : List SVal)
    (hs : σ.getScope a = some m) (hf : FreshRow m names vars) (hl : vars.length = vals.length) :
    ∃ names' σ' m', bindVars σ (a :: sc) names true (vars.zip vals) = .ok names' σ' ∧
      σ'.getScope a = some m' ∧
      (∀ j (h1 : j < vars.length) (h2 : j < vals.length), (scopeLookup vars[j].1 m').map Prod.fst = some vals[j]) ∧
      (∀ k, (∀ p ∈ vars, p.1 ≠ k) → scopeLookup k m' = scopeLookup k m) ∧
      (∀ b, b ≠ a → σ'.heap[b]? = σ.heap[b]?) := by
  induction vars generalizing σ m names vals with
  | nil =>
    exact ⟨names, σ, m, rfl, hs, fun j h1 => absurd h1 (Nat.not_lt_zero _), fun _ _ => rfl, fun _ _ => rfl⟩
  | cons p r ih =>
    obtain ⟨x, l⟩ := p
    cases vals with
    | nil => simp at hl
    | cons v vs =>
      obtain ⟨h1, h2, h3, h4, h5⟩ := hf
      simp only [List.zip_cons_cons, bindVars]
      rw [bindNextName_declare l v h1 h2 hs h3]
      simp only [Res.bind]
      have hs1 : (σ.set a (.scope ((x, v, l) :: m))).getScope a = some ((x, v, l) :: m) :=
        getScope_set_same (getScope_lt hs) _
      obtain ⟨names', σ', m', hres, hsc, hlook, hother, hheap⟩ :=
        ih (x :: names) vs hs1 (h5.step h4) (by simpa using hl)
      refine ⟨names', σ', m', hres, hsc, ?_, ?_, ?_⟩
      · intro j hj1 hj2
        cases j with
        | zero =>
          simp only [List.getElem_cons_zero]
          rw [hother x h4]
          simp [scopeLookup]
        | succ j =>
          simp only [List.getElem_cons_succ]
          exact hlook j (by simpa using hj1) (by simpa using hj2)
      · intro k hk
        rw [hother k fun p hp => hk p (List.mem_cons_of_mem _ hp)]
        exact scopeLookup_cons_ne (Ne.symm (hk (x, l) List.mem_cons_self))
      · intro b hb
        rw [hheap b hb, State.heap_set_other _ _ hb]

end Seed
