/-
  C01Ctx.lean — one-hole statement contexts whose hole takes a statement LIST, and the congruence lemmas (one per
  construct) behind `C01.stmt_ctx_congr` (same result at every fuel) and `C01.stmt_ctx_congr_upto` (same result up to
  fuel).
-/
import SeedProofs.Lemmas.C07Loops
namespace Seed.C01
open Seed Seed.C07

/-- a statement list with one hole: in a sequence, in a bare block, in the body of any branch of an `if` chain (taken or
    not) or its `else`, in the body of a `while` or of a `for`.  (Bodies of function literals / `fn` statements are not
    included: there the list is stored in the heap, so that the two sides run in different states.) -/
inductive SCtx where
  | hole
  | seq (pre : List Stmt) (c : SCtx) (post : List Stmt)
  | block (c : SCtx)
  | ifBranch (before : List Branch) (cond : Expr) (c : SCtx) (later : List Branch) (els : Option (List Stmt))
  | ifElse (branches : List Branch) (c : SCtx)
  | whileBody (cond : Expr) (c : SCtx)
  | forBody (lhs iter : Expr) (c : SCtx)

/-- put the statement list `s` in the hole -/
def SCtx.plug : SCtx → List Stmt → List Stmt
  | .hole, s => s
  | .seq pre c post, s => pre ++ c.plug s ++ post
  | .block c, s => [.Block (c.plug s)]
  | .ifBranch before cond c later els, s => [.If (before ++ .mk cond (c.plug s) :: later) els]
  | .ifElse bs c, s => [.If bs (some (c.plug s))]
  | .whileBody cond c, s => [.While cond (c.plug s)]
  | .forBody lhs iter c, s => [.For lhs iter (c.plug s)]

/-! ### one unfolding of each function involved -/

theorem stmts_zero (σ : State) (sc : List Addr) (ss : List Stmt) : evalStmts 0 σ sc ss = .timeout := by
  unfold evalStmts; rfl

theorem stmts_nil (n : Nat) (σ : State) (sc : List Addr) : evalStmts (n + 1) σ sc [] = .ok .none σ := by
  unfold evalStmts; rfl

theorem stmts_cons (n : Nat) (σ : State) (sc : List Addr) (st : Stmt) (r : List Stmt) :
    evalStmts (n + 1) σ sc (st :: r) =
      (evalStmt n σ sc st).bind fun esc σ1 =>
        match esc with
        | .none => evalStmts n σ1 sc r
        | other => .ok other σ1 := by
  conv => lhs; unfold evalStmts
  all_goals (try rfl)

theorem stmt_zero (σ : State) (sc : List Addr) (st : Stmt) : evalStmt 0 σ sc st = .timeout := by
  unfold evalStmt; rfl
theorem stmt_block (n : Nat) (σ : State) (sc : List Addr) (b : List Stmt) :
    evalStmt (n + 1) σ sc (.Block b) = evalBlock n σ sc [] b := by unfold evalStmt; rfl
theorem stmt_if (n : Nat) (σ : State) (sc : List Addr) (bs : List Branch) (els : Option (List Stmt)) :
    evalStmt (n + 1) σ sc (.If bs els) = evalIf n σ sc bs els := by unfold evalStmt; rfl
theorem stmt_while (n : Nat) (σ : State) (sc : List Addr) (c : Expr) (b : List Stmt) :
    evalStmt (n + 1) σ sc (.While c b) = evalWhile n σ sc c b := by unfold evalStmt; rfl
theorem stmt_for (n : Nat) (σ : State) (sc : List Addr) (lhs iter : Expr) (b : List Stmt) :
    evalStmt (n + 1) σ sc (.For lhs iter b) =
      (evalExpr n σ sc iter).bind fun it σ1 =>
        match toPairs σ1 it.v with
        | none => crashHeap σ1
        | some none => errAt iter.loc Gen.Leaf.ForIterNotIterable σ1
        | some (some pairs) => evalFor n σ1 sc lhs pairs b := by
  conv => lhs; unfold evalStmt
  all_goals (try rfl)

theorem block_zero (σ : State) (sc : List Addr) (bs : List (Expr × SVal)) (b : List Stmt) :
    evalBlock 0 σ sc bs b = .timeout := by unfold evalBlock; rfl

theorem if_zero (σ : State) (sc : List Addr) (bs : List Branch) (els : Option (List Stmt)) :
    evalIf 0 σ sc bs els = .timeout := by unfold evalIf; rfl
theorem if_cons' (n : Nat) (σ : State) (sc : List Addr) (cond : Expr) (stmts : List Stmt) (r : List Branch)
    (els : Option (List Stmt)) :
    evalIf (n + 1) σ sc (.mk cond stmts :: r) els =
      (evalToBool n σ sc c!"condition" cond).bind fun b σ1 =>
        if b then evalBlock n σ1 sc [] stmts else evalIf n σ1 sc r els := by
  conv => lhs; unfold evalIf
  all_goals (try rfl)
theorem if_nil_some (n : Nat) (σ : State) (sc : List Addr) (stmts : List Stmt) :
    evalIf (n + 1) σ sc [] (some stmts) = evalBlock n σ sc [] stmts := by unfold evalIf; rfl

theorem while_zero (σ : State) (sc : List Addr) (c : Expr) (b : List Stmt) : evalWhile 0 σ sc c b = .timeout := by
  unfold evalWhile; rfl
theorem while_succ (n : Nat) (σ : State) (sc : List Addr) (cond : Expr) (stmts : List Stmt) :
    evalWhile (n + 1) σ sc cond stmts =
      (evalToBool n σ sc c!"condition" cond).bind fun b σ1 =>
        if !b then .ok .none σ1
        else (evalBlock n σ1 sc [] stmts).bind fun esc σ2 =>
          match esc with
          | .none => evalWhile n σ2 sc cond stmts
          | .brk _ => .ok .none σ2
          | .cont _ => evalWhile n σ2 sc cond stmts
          | .ret v l => .ok (.ret v l) σ2 := by
  conv => lhs; unfold evalWhile
  all_goals (try rfl)

theorem for_zero (σ : State) (sc : List Addr) (lhs : Expr) (ps : List (SVal × SVal)) (b : List Stmt) :
    evalFor 0 σ sc lhs ps b = .timeout := by unfold evalFor; rfl
theorem for_nil (n : Nat) (σ : State) (sc : List Addr) (lhs : Expr) (b : List Stmt) :
    evalFor (n + 1) σ sc lhs [] b = .ok .none σ := by unfold evalFor; rfl
theorem for_cons (n : Nat) (σ : State) (sc : List Addr) (lhs : Expr) (k v : SVal) (r : List (SVal × SVal)) (stmts : List Stmt) :
    evalFor (n + 1) σ sc lhs ((k, v) :: r) stmts =
      (evalBlock n (σ.alloc (.list [k, v])).2 sc [(lhs, SVal.plain (.list (σ.alloc (.list [k, v])).1))] stmts).bind fun esc σ2 =>
        match esc with
        | .none => evalFor n σ2 sc lhs r stmts
        | .brk _ => .ok .none σ2
        | .cont _ => evalFor n σ2 sc lhs r stmts
        | .ret v l => .ok (.ret v l) σ2 := by
  conv => lhs; unfold evalFor
  all_goals (try rfl)

/-- G6, exact in the fuel: `x ++ post` is `x`, then — if `x` did not escape — `post` with the fuel left after the
    `x.length` statements of `x` -/
theorem stmts_append_exact (n : Nat) (σ : State) (sc : List Addr) (x post : List Stmt) :
    evalStmts n σ sc (x ++ post) =
      (evalStmts n σ sc x).bind fun esc σ' =>
        match esc with
        | .none => evalStmts (n - x.length) σ' sc post
        | other => .ok other σ' := by
  induction x generalizing n σ with
  | nil =>
    cases n with
    | zero => simp [stmts_zero, Res.bind]
    | succ n => simp [stmts_nil, Res.bind]
  | cons st x ih =>
    cases n with
    | zero => simp [stmts_zero, Res.bind]
    | succ n =>
      rw [List.cons_append, stmts_cons, stmts_cons]
      cases hst : evalStmt n σ sc st with
      | timeout => rfl
      | err e σ1 => rfl
      | crash w σ1 => rfl
      | ok esc σ1 =>
        cases esc with
        | none =>
          simp only [Res.bind]
          rw [ih n σ1]
          simp [Res.bind]
        | brk l => rfl
        | cont l => rfl
        | ret v l => rfl

/-! ## Part A — same result at every fuel -/

/-- `s` and `t` have the same result at every fuel, state and scope chain -/
def ExactEq (s t : List Stmt) : Prop := ∀ n σ sc, evalStmts n σ sc s = evalStmts n σ sc t

section exact
variable {x y : List Stmt}

theorem exact_prefix (h : ExactEq x y) (pre : List Stmt) : ExactEq (pre ++ x) (pre ++ y) := by
  induction pre with
  | nil => exact h
  | cons st pre ih =>
    intro n σ sc
    cases n with
    | zero => simp [stmts_zero]
    | succ n =>
      simp only [List.cons_append, stmts_cons]
      congr 1
      funext esc σ1
      cases esc <;> simp [ih n σ1 sc]

theorem exact_suffix (h : ExactEq x y) (hlen : x.length = y.length) (post : List Stmt) : ExactEq (x ++ post) (y ++ post) := by
  intro n σ sc
  rw [stmts_append_exact, stmts_append_exact, h n σ sc, hlen]

theorem exact_single {a b : Stmt} (h : ∀ n σ sc, evalStmt n σ sc a = evalStmt n σ sc b) : ExactEq [a] [b] := by
  intro n σ sc
  cases n with
  | zero => simp [stmts_zero]
  | succ n => rw [stmts_cons, stmts_cons, h]

theorem exact_block (h : ExactEq x y) (n : Nat) (σ : State) (sc : List Addr) (bs : List (Expr × SVal)) :
    evalBlock n σ sc bs x = evalBlock n σ sc bs y := by
  cases n with
  | zero => simp [block_zero]
  | succ n =>
    rw [block_scope, block_scope]
    congr 1
    funext _ σ2
    exact h n σ2 _

theorem exact_if_branch (h : ExactEq x y) (before : List Branch) (cond : Expr) (later : List Branch) (els : Option (List Stmt))
    (n : Nat) (σ : State) (sc : List Addr) :
    evalIf n σ sc (before ++ .mk cond x :: later) els = evalIf n σ sc (before ++ .mk cond y :: later) els := by
  induction before generalizing n σ with
  | nil =>
    cases n with
    | zero => simp [if_zero]
    | succ n =>
      simp only [List.nil_append, if_cons']
      congr 1
      funext b σ1
      cases b <;> simp [exact_block h]
  | cons br before ih =>
    cases n with
    | zero => simp [if_zero]
    | succ n =>
      obtain ⟨c, body⟩ := br
      simp only [List.cons_append, if_cons']
      congr 1
      funext b σ1
      cases b <;> simp [ih n σ1]

theorem exact_if_else (h : ExactEq x y) (bs : List Branch) (n : Nat) (σ : State) (sc : List Addr) :
    evalIf n σ sc bs (some x) = evalIf n σ sc bs (some y) := by
  induction bs generalizing n σ with
  | nil =>
    cases n with
    | zero => simp [if_zero]
    | succ n => rw [if_nil_some, if_nil_some, exact_block h]
  | cons br bs ih =>
    cases n with
    | zero => simp [if_zero]
    | succ n =>
      obtain ⟨c, body⟩ := br
      simp only [if_cons']
      congr 1
      funext b σ1
      cases b <;> simp [ih n σ1]

theorem exact_while (h : ExactEq x y) (cond : Expr) (n : Nat) (σ : State) (sc : List Addr) :
    evalWhile n σ sc cond x = evalWhile n σ sc cond y := by
  induction n generalizing σ with
  | zero => simp [while_zero]
  | succ n ih =>
    rw [while_succ, while_succ]
    congr 1
    funext b σ1
    cases b
    · rfl
    · simp only [Bool.not_true, Bool.false_eq_true, if_false]
      rw [exact_block h]
      congr 1
      funext esc σ2
      cases esc <;> simp [ih σ2]

theorem exact_for (h : ExactEq x y) (lhs : Expr) (n : Nat) (σ : State) (sc : List Addr) (ps : List (SVal × SVal)) :
    evalFor n σ sc lhs ps x = evalFor n σ sc lhs ps y := by
  induction n generalizing σ ps with
  | zero => simp [for_zero]
  | succ n ih =>
    cases ps with
    | nil => simp [for_nil]
    | cons kv r =>
      obtain ⟨k, v⟩ := kv
      rw [for_cons, for_cons, exact_block h]
      congr 1
      funext esc σ2
      cases esc <;> simp [ih σ2 r]

theorem exact_stmt_block (h : ExactEq x y) (n : Nat) (σ : State) (sc : List Addr) :
    evalStmt n σ sc (.Block x) = evalStmt n σ sc (.Block y) := by
  cases n with
  | zero => simp [stmt_zero]
  | succ n => rw [stmt_block, stmt_block, exact_block h]

theorem exact_stmt_while (h : ExactEq x y) (cond : Expr) (n : Nat) (σ : State) (sc : List Addr) :
    evalStmt n σ sc (.While cond x) = evalStmt n σ sc (.While cond y) := by
  cases n with
  | zero => simp [stmt_zero]
  | succ n => rw [stmt_while, stmt_while, exact_while h]

theorem exact_stmt_for (h : ExactEq x y) (lhs iter : Expr) (n : Nat) (σ : State) (sc : List Addr) :
    evalStmt n σ sc (.For lhs iter x) = evalStmt n σ sc (.For lhs iter y) := by
  cases n with
  | zero => simp [stmt_zero]
  | succ n =>
    rw [stmt_for, stmt_for]
    congr 1
    funext it σ1
    cases toPairs σ1 it.v with
    | none => rfl
    | some o =>
      cases o with
      | none => rfl
      | some ps => exact exact_for h lhs n σ1 sc ps

theorem exact_stmt_if_branch (h : ExactEq x y) (before : List Branch) (cond : Expr) (later : List Branch)
    (els : Option (List Stmt)) (n : Nat) (σ : State) (sc : List Addr) :
    evalStmt n σ sc (.If (before ++ .mk cond x :: later) els) = evalStmt n σ sc (.If (before ++ .mk cond y :: later) els) := by
  cases n with
  | zero => simp [stmt_zero]
  | succ n => rw [stmt_if, stmt_if, exact_if_branch h]

theorem exact_stmt_if_else (h : ExactEq x y) (bs : List Branch) (n : Nat) (σ : State) (sc : List Addr) :
    evalStmt n σ sc (.If bs (some x)) = evalStmt n σ sc (.If bs (some y)) := by
  cases n with
  | zero => simp [stmt_zero]
  | succ n => rw [stmt_if, stmt_if, exact_if_else h]

end exact

theorem SCtx.plug_length (K : SCtx) {s t : List Stmt} (h : s.length = t.length) : (K.plug s).length = (K.plug t).length := by
  induction K with
  | hole => exact h
  | seq pre c post ih => simp [SCtx.plug, ih]
  | block c _ => rfl
  | ifBranch _ _ _ _ _ _ => rfl
  | ifElse _ _ _ => rfl
  | whileBody _ _ _ => rfl
  | forBody _ _ _ _ => rfl

/-- congruence for every context, same result at every fuel; the length condition is needed for a hole followed by
    further statements (`exact_suffix`; see `C01.exact_not_congruence_without_length`) -/
theorem exact_ctx (K : SCtx) {s t : List Stmt} (h : ExactEq s t) (hlen : s.length = t.length) : ExactEq (K.plug s) (K.plug t) := by
  induction K with
  | hole => exact h
  | seq pre c post ih =>
    simp only [SCtx.plug, List.append_assoc]
    exact exact_prefix (exact_suffix ih (c.plug_length hlen) post) pre
  | block c ih => exact exact_single (exact_stmt_block ih)
  | ifBranch before cond c later els ih => exact exact_single (exact_stmt_if_branch ih before cond later els)
  | ifElse bs c ih => exact exact_single (exact_stmt_if_else ih bs)
  | whileBody cond c ih => exact exact_single (exact_stmt_while ih cond)
  | forBody lhs iter c ih => exact exact_single (exact_stmt_for ih lhs iter)

/-- the statements put in the hole are at the top level of the result (not inside a block, branch or loop) -/
def SCtx.flat : SCtx → Bool
  | .hole => true
  | .seq _ c _ => c.flat
  | _ => false

/-- in the statement list where the hole's statements land, nothing follows them -/
def SCtx.HoleLast : SCtx → Prop
  | .hole => True
  | .seq _ c post => c.HoleLast ∧ (c.flat = true → post = [])
  | .block c => c.HoleLast
  | .ifBranch _ _ c _ _ => c.HoleLast
  | .ifElse _ c => c.HoleLast
  | .whileBody _ c => c.HoleLast
  | .forBody _ _ c => c.HoleLast

theorem SCtx.plug_length_of_not_flat (K : SCtx) (s t : List Stmt) (h : K.flat = false) : (K.plug s).length = (K.plug t).length := by
  induction K with
  | hole => simp [SCtx.flat] at h
  | seq pre c post ih => simp [SCtx.plug, ih h]
  | block c _ => rfl
  | ifBranch _ _ _ _ _ _ => rfl
  | ifElse _ _ _ => rfl
  | whileBody _ _ _ => rfl
  | forBody _ _ _ _ => rfl

/-- congruence, same result at every fuel, under the weakest side condition: equal lengths, or no statement after the
    hole in its own list -/
theorem exact_ctx_gen (K : SCtx) {s t : List Stmt} (h : ExactEq s t) (hok : s.length = t.length ∨ K.HoleLast) :
    ExactEq (K.plug s) (K.plug t) := by
  induction K with
  | hole => exact h
  | seq pre c post ih =>
    simp only [SCtx.plug, List.append_assoc]
    refine exact_prefix ?_ pre
    rcases hok with hlen | ⟨hc, hpost⟩
    · exact exact_suffix (ih (Or.inl hlen)) (c.plug_length hlen) post
    · cases hf : c.flat with
      | true => rw [hpost hf]; simpa using ih (Or.inr hc)
      | false => exact exact_suffix (ih (Or.inr hc)) (c.plug_length_of_not_flat s t hf) post
  | block c ih => exact exact_single (exact_stmt_block (ih (hok.imp id id)))
  | ifBranch before cond c later els ih => exact exact_single (exact_stmt_if_branch (ih (hok.imp id id)) before cond later els)
  | ifElse bs c ih => exact exact_single (exact_stmt_if_else (ih (hok.imp id id)) bs)
  | whileBody cond c ih => exact exact_single (exact_stmt_while (ih (hok.imp id id)) cond)
  | forBody lhs iter c ih => exact exact_single (exact_stmt_for (ih (hok.imp id id)) lhs iter)

/-! ## Part B — same result up to fuel -/

/-- one more unit of fuel changes nothing but a time-out -/
def Mono {α} (f : Nat → Res α) : Prop := ∀ k, Res.Le (f k) (f (k + 1))

/-- the step of all the proofs below: if `g` reaches the result `r` and, for the value of `r`, `k'` reaches the result of
    the continuation `k`, then "`g` then `k'`", at one common fuel, reaches "`r` then `k`" -/
theorem reaches_bind {α β} {r : Res α} {k : α → State → Res β} {g : Nat → Res α} {k' : α → State → Nat → Res β}
    (hg : Mono g) (hk' : ∀ a σ, Mono (k' a σ)) (hne : r.bind k ≠ .timeout)
    (h1 : r ≠ .timeout → ∃ m, g m = r)
    (h2 : ∀ a σ, r = .ok a σ → k a σ ≠ .timeout → ∃ m, k' a σ m = k a σ) :
    ∃ m, (g m).bind (fun a σ => k' a σ m) = r.bind k := by
  cases r with
  | timeout => exact absurd rfl hne
  | ok a σ =>
    obtain ⟨m1, hm1⟩ := h1 (by simp)
    obtain ⟨m2, hm2⟩ := h2 a σ rfl hne
    refine ⟨max m1 m2, ?_⟩
    rw [fuel_stable hg hm1 (by simp) (Nat.le_max_left m1 m2)]
    exact fuel_stable (hk' a σ) hm2 hne (Nat.le_max_right m1 m2)
  | err e σ =>
    obtain ⟨m1, hm1⟩ := h1 (by simp)
    exact ⟨m1, by rw [hm1]; rfl⟩
  | crash w σ =>
    obtain ⟨m1, hm1⟩ := h1 (by simp)
    exact ⟨m1, by rw [hm1]; rfl⟩

/-- whatever `s` yields (other than a time-out) at some fuel, `t` yields at some fuel — in every state and scope chain -/
def Refines (s t : List Stmt) : Prop :=
  ∀ n σ sc, evalStmts n σ sc s ≠ .timeout → ∃ m, evalStmts m σ sc t = evalStmts n σ sc s

/-- `s` and `t` have the same outcome in every state and scope chain: observational equivalence of statement lists -/
def UptoEq (s t : List Stmt) : Prop := ∀ σ sc, FuelEq (fun n => evalStmts n σ sc s) (fun n => evalStmts n σ sc t)

theorem uptoEq_iff {s t : List Stmt} : UptoEq s t ↔ Refines s t ∧ Refines t s := by
  constructor
  · intro h
    exact ⟨fun n σ sc hne => (h σ sc _ hne).1 ⟨n, rfl⟩, fun n σ sc hne => (h σ sc _ hne).2 ⟨n, rfl⟩⟩
  · rintro ⟨h1, h2⟩ σ sc r hr
    constructor
    · rintro ⟨n, rfl⟩; exact h1 n σ sc hr
    · rintro ⟨n, rfl⟩; exact h2 n σ sc hr

theorem ExactEq.uptoEq {s t : List Stmt} (h : ExactEq s t) : UptoEq s t :=
  uptoEq_iff.2 ⟨fun n σ sc _ => ⟨n, (h n σ sc).symm⟩, fun n σ sc _ => ⟨n, h n σ sc⟩⟩

section upto
variable {x y : List Stmt}

theorem mono_stmts (σ : State) (sc : List Addr) (ss : List Stmt) : Mono fun m => evalStmts m σ sc ss :=
  fun k => (monoAll k).evalStmts σ sc ss

/-- the continuation of a statement in a list -/
theorem mono_stmts_k (sc : List Addr) (ss : List Stmt) (esc : Escape) (σ1 : State) :
    Mono fun m => (match esc with | .none => evalStmts m σ1 sc ss | other => .ok other σ1 : Res Escape) := by
  intro k; cases esc <;> first | exact (monoAll k).evalStmts _ _ _ | exact Res.Le.refl _

theorem ref_prefix (h : Refines x y) (pre : List Stmt) : Refines (pre ++ x) (pre ++ y) := by
  induction pre with
  | nil => exact h
  | cons st pre ih =>
    intro n σ sc
    cases n with
    | zero => intro hne; exact absurd (stmts_zero _ _ _) hne
    | succ n =>
      simp only [List.cons_append, stmts_cons]
      intro hne
      obtain ⟨m, hm⟩ := reaches_bind (g := fun m => evalStmt m σ sc st)
        (k' := fun esc σ1 m => match esc with | .none => evalStmts m σ1 sc (pre ++ y) | other => .ok other σ1)
        (fun k => (monoAll k).evalStmt σ sc st) (fun esc σ1 => mono_stmts_k sc _ esc σ1) hne (fun _ => ⟨n, rfl⟩)
        (fun esc σ1 _ hk => by
          cases esc with
          | none => exact ih n σ1 sc hk
          | brk l => exact ⟨0, rfl⟩
          | cont l => exact ⟨0, rfl⟩
          | ret v l => exact ⟨0, rfl⟩)
      exact ⟨m + 1, by rw [stmts_cons]; exact hm⟩

theorem ref_suffix (h : Refines x y) (post : List Stmt) : Refines (x ++ post) (y ++ post) := by
  intro n σ sc
  rw [stmts_append_exact]
  intro hne
  obtain ⟨m, hm⟩ := reaches_bind (g := fun m => evalStmts m σ sc y)
    (k' := fun esc σ1 m => match esc with | .none => evalStmts (m - y.length) σ1 sc post | other => .ok other σ1)
    (mono_stmts σ sc y)
    (fun esc σ1 k => by
      cases esc with
      | none => exact Res.Le.of_step (fun j => evalStmts j σ1 sc post) (mono_stmts σ1 sc post) (by omega)
      | brk l => exact Res.Le.refl _
      | cont l => exact Res.Le.refl _
      | ret v l => exact Res.Le.refl _)
    hne (fun hr => h n σ sc hr)
    (fun esc σ1 _ hk => by
      cases esc with
      | none => exact ⟨n - x.length + y.length, by simp⟩
      | brk l => exact ⟨0, rfl⟩
      | cont l => exact ⟨0, rfl⟩
      | ret v l => exact ⟨0, rfl⟩)
  exact ⟨m, by rw [stmts_append_exact]; exact hm⟩

theorem ref_single {a b : Stmt}
    (h : ∀ n σ sc, evalStmt n σ sc a ≠ .timeout → ∃ m, evalStmt m σ sc b = evalStmt n σ sc a) : Refines [a] [b] := by
  intro n σ sc
  cases n with
  | zero => intro hne; exact absurd (stmts_zero _ _ _) hne
  | succ n =>
    rw [stmts_cons]
    intro hne
    obtain ⟨m, hm⟩ := reaches_bind (g := fun m => evalStmt m σ sc b)
      (k' := fun esc σ1 m => match esc with | .none => evalStmts m σ1 sc [] | other => .ok other σ1)
      (fun k => (monoAll k).evalStmt σ sc b) (fun esc σ1 => mono_stmts_k sc _ esc σ1) hne (fun hr => h n σ sc hr)
      (fun esc σ1 _ hk => by
        cases esc with
        | none => exact ⟨n, rfl⟩
        | brk l => exact ⟨0, rfl⟩
        | cont l => exact ⟨0, rfl⟩
        | ret v l => exact ⟨0, rfl⟩)
    exact ⟨m + 1, by rw [stmts_cons]; exact hm⟩

theorem ref_block (h : Refines x y) (n : Nat) (σ : State) (sc : List Addr) (bs : List (Expr × SVal)) :
    evalBlock n σ sc bs x ≠ .timeout → ∃ m, evalBlock m σ sc bs y = evalBlock n σ sc bs x := by
  cases n with
  | zero => intro hne; exact absurd (block_zero _ _ _ _) hne
  | succ n =>
    rw [block_scope]
    intro hne
    obtain ⟨m, hm⟩ := reaches_bind (g := fun m => declareAll m (σ.alloc (.scope [])).2 ((σ.alloc (.scope [])).1 :: sc) bs)
      (k' := fun _ σ2 m => evalStmts m σ2 ((σ.alloc (.scope [])).1 :: sc) y)
      (fun k => (monoAll k).declareAll _ _ _) (fun _ σ2 => mono_stmts σ2 _ y) hne (fun _ => ⟨n, rfl⟩)
      (fun _ σ2 _ hk => h n σ2 _ hk)
    exact ⟨m + 1, by rw [block_scope]; exact hm⟩

theorem mono_block (σ : State) (sc : List Addr) (bs : List (Expr × SVal)) (b : List Stmt) : Mono fun m => evalBlock m σ sc bs b :=
  fun k => (monoAll k).evalBlock σ sc bs b

theorem mono_if_k (sc : List Addr) (body : List Stmt) (r : List Branch) (els : Option (List Stmt)) (b : Bool) (σ1 : State) :
    Mono fun m => if b then evalBlock m σ1 sc [] body else evalIf m σ1 sc r els := by
  intro k; cases b
  · exact (monoAll k).evalIf _ _ _ _
  · exact (monoAll k).evalBlock _ _ _ _

theorem ref_if_branch (h : Refines x y) (before : List Branch) (cond : Expr) (later : List Branch) (els : Option (List Stmt))
    (n : Nat) (σ : State) (sc : List Addr) :
    evalIf n σ sc (before ++ .mk cond x :: later) els ≠ .timeout →
      ∃ m, evalIf m σ sc (before ++ .mk cond y :: later) els = evalIf n σ sc (before ++ .mk cond x :: later) els := by
  induction before generalizing n σ with
  | nil =>
    cases n with
    | zero => intro hne; exact absurd (if_zero _ _ _ _) hne
    | succ n =>
      simp only [List.nil_append, if_cons']
      intro hne
      obtain ⟨m, hm⟩ := reaches_bind (g := fun m => evalToBool m σ sc c!"condition" cond)
        (k' := fun b σ1 m => if b then evalBlock m σ1 sc [] y else evalIf m σ1 sc later els)
        (fun k => (monoAll k).evalToBool _ _ _ _) (fun b σ1 => mono_if_k sc y later els b σ1) hne (fun _ => ⟨n, rfl⟩)
        (fun b σ1 _ hk => by
          cases b with
          | false => exact ⟨n, rfl⟩
          | true => exact ref_block h n σ1 sc [] hk)
      exact ⟨m + 1, by rw [if_cons']; exact hm⟩
  | cons br before ih =>
    cases n with
    | zero => intro hne; exact absurd (if_zero _ _ _ _) hne
    | succ n =>
      obtain ⟨c, body⟩ := br
      simp only [List.cons_append, if_cons']
      intro hne
      obtain ⟨m, hm⟩ := reaches_bind (g := fun m => evalToBool m σ sc c!"condition" c)
        (k' := fun b σ1 m => if b then evalBlock m σ1 sc [] body else evalIf m σ1 sc (before ++ .mk cond y :: later) els)
        (fun k => (monoAll k).evalToBool _ _ _ _) (fun b σ1 => mono_if_k sc body _ els b σ1) hne (fun _ => ⟨n, rfl⟩)
        (fun b σ1 _ hk => by
          cases b with
          | false => exact ih n σ1 hk
          | true => exact ⟨n, rfl⟩)
      exact ⟨m + 1, by rw [if_cons']; exact hm⟩

theorem ref_if_else (h : Refines x y) (bs : List Branch) (n : Nat) (σ : State) (sc : List Addr) :
    evalIf n σ sc bs (some x) ≠ .timeout → ∃ m, evalIf m σ sc bs (some y) = evalIf n σ sc bs (some x) := by
  induction bs generalizing n σ with
  | nil =>
    cases n with
    | zero => intro hne; exact absurd (if_zero _ _ _ _) hne
    | succ n =>
      rw [if_nil_some]
      intro hne
      obtain ⟨m, hm⟩ := ref_block h n σ sc [] hne
      exact ⟨m + 1, by rw [if_nil_some]; exact hm⟩
  | cons br bs ih =>
    cases n with
    | zero => intro hne; exact absurd (if_zero _ _ _ _) hne
    | succ n =>
      obtain ⟨c, body⟩ := br
      simp only [if_cons']
      intro hne
      obtain ⟨m, hm⟩ := reaches_bind (g := fun m => evalToBool m σ sc c!"condition" c)
        (k' := fun b σ1 m => if b then evalBlock m σ1 sc [] body else evalIf m σ1 sc bs (some y))
        (fun k => (monoAll k).evalToBool _ _ _ _) (fun b σ1 => mono_if_k sc body _ _ b σ1) hne (fun _ => ⟨n, rfl⟩)
        (fun b σ1 _ hk => by
          cases b with
          | false => exact ih n σ1 hk
          | true => exact ⟨n, rfl⟩)
      exact ⟨m + 1, by rw [if_cons']; exact hm⟩

/-- what a `while` does with the result of its body -/
def whileK (sc : List Addr) (cond : Expr) (b : List Stmt) (esc : Escape) (σ2 : State) (m : Nat) : Res Escape :=
  match esc with
  | .none => evalWhile m σ2 sc cond b
  | .brk _ => .ok .none σ2
  | .cont _ => evalWhile m σ2 sc cond b
  | .ret v l => .ok (.ret v l) σ2

theorem mono_whileK (sc : List Addr) (cond : Expr) (b : List Stmt) (esc : Escape) (σ2 : State) : Mono (whileK sc cond b esc σ2) := by
  intro k; cases esc <;> first | exact (monoAll k).evalWhile _ _ _ _ | exact Res.Le.refl _

theorem while_succ' (n : Nat) (σ : State) (sc : List Addr) (cond : Expr) (stmts : List Stmt) :
    evalWhile (n + 1) σ sc cond stmts =
      (evalToBool n σ sc c!"condition" cond).bind fun b σ1 =>
        if !b then .ok .none σ1 else (evalBlock n σ1 sc [] stmts).bind fun esc σ2 => whileK sc cond stmts esc σ2 n := by
  rw [while_succ]; rfl

theorem ref_while (h : Refines x y) (cond : Expr) (n : Nat) (σ : State) (sc : List Addr) :
    evalWhile n σ sc cond x ≠ .timeout → ∃ m, evalWhile m σ sc cond y = evalWhile n σ sc cond x := by
  induction n generalizing σ with
  | zero => intro hne; exact absurd (while_zero _ _ _ _) hne
  | succ n ih =>
    rw [while_succ']
    intro hne
    obtain ⟨m, hm⟩ := reaches_bind (g := fun m => evalToBool m σ sc c!"condition" cond)
      (k' := fun b σ1 m => if !b then .ok .none σ1 else (evalBlock m σ1 sc [] y).bind fun esc σ2 => whileK sc cond y esc σ2 m)
      (fun k => (monoAll k).evalToBool _ _ _ _)
      (fun b σ1 k => by
        cases b
        · exact Res.Le.refl _
        · exact Res.Le.bind ((monoAll k).evalBlock _ _ _ _) (fun esc σ2 => mono_whileK sc cond y esc σ2 k))
      hne (fun _ => ⟨n, rfl⟩)
      (fun b σ1 _ hk => by
        cases b with
        | false => exact ⟨0, rfl⟩
        | true =>
          exact reaches_bind (g := fun m => evalBlock m σ1 sc [] y) (k' := fun esc σ2 m => whileK sc cond y esc σ2 m)
            (mono_block _ _ _ _) (fun esc σ2 => mono_whileK sc cond y esc σ2) hk (fun hr => ref_block h n σ1 sc [] hr)
            (fun esc σ2 _ hk2 => by
              cases esc with
              | none => exact ih σ2 hk2
              | brk l => exact ⟨0, rfl⟩
              | cont l => exact ih σ2 hk2
              | ret v l => exact ⟨0, rfl⟩))
    exact ⟨m + 1, by rw [while_succ']; exact hm⟩

/-- what a `for` does with the result of its body -/
def forK (sc : List Addr) (lhs : Expr) (r : List (SVal × SVal)) (b : List Stmt) (esc : Escape) (σ2 : State) (m : Nat) : Res Escape :=
  match esc with
  | .none => evalFor m σ2 sc lhs r b
  | .brk _ => .ok .none σ2
  | .cont _ => evalFor m σ2 sc lhs r b
  | .ret v l => .ok (.ret v l) σ2

theorem mono_forK (sc : List Addr) (lhs : Expr) (r : List (SVal × SVal)) (b : List Stmt) (esc : Escape) (σ2 : State) :
    Mono (forK sc lhs r b esc σ2) := by
  intro k; cases esc <;> first | exact (monoAll k).evalFor _ _ _ _ _ | exact Res.Le.refl _

theorem for_cons'' (n : Nat) (σ : State) (sc : List Addr) (lhs : Expr) (k v : SVal) (r : List (SVal × SVal)) (stmts : List Stmt) :
    evalFor (n + 1) σ sc lhs ((k, v) :: r) stmts =
      (evalBlock n (σ.alloc (.list [k, v])).2 sc [(lhs, SVal.plain (.list (σ.alloc (.list [k, v])).1))] stmts).bind fun esc σ2 =>
        forK sc lhs r stmts esc σ2 n := by
  rw [for_cons]; rfl

theorem ref_for (h : Refines x y) (lhs : Expr) (n : Nat) (σ : State) (sc : List Addr) (ps : List (SVal × SVal)) :
    evalFor n σ sc lhs ps x ≠ .timeout → ∃ m, evalFor m σ sc lhs ps y = evalFor n σ sc lhs ps x := by
  induction n generalizing σ ps with
  | zero => intro hne; exact absurd (for_zero _ _ _ _ _) hne
  | succ n ih =>
    cases ps with
    | nil => intro _; exact ⟨1, by rw [for_nil, for_nil]⟩
    | cons kv r =>
      obtain ⟨k, v⟩ := kv
      rw [for_cons'']
      intro hne
      obtain ⟨m, hm⟩ := reaches_bind
        (g := fun m => evalBlock m (σ.alloc (.list [k, v])).2 sc [(lhs, SVal.plain (.list (σ.alloc (.list [k, v])).1))] y)
        (k' := fun esc σ2 m => forK sc lhs r y esc σ2 m)
        (mono_block _ _ _ _) (fun esc σ2 => mono_forK sc lhs r y esc σ2) hne (fun hr => ref_block h n _ sc _ hr)
        (fun esc σ2 _ hk2 => by
          cases esc with
          | none => exact ih σ2 r hk2
          | brk l => exact ⟨0, rfl⟩
          | cont l => exact ih σ2 r hk2
          | ret v l => exact ⟨0, rfl⟩)
      exact ⟨m + 1, by rw [for_cons'']; exact hm⟩

theorem ref_stmt_block (h : Refines x y) (n : Nat) (σ : State) (sc : List Addr) :
    evalStmt n σ sc (.Block x) ≠ .timeout → ∃ m, evalStmt m σ sc (.Block y) = evalStmt n σ sc (.Block x) := by
  cases n with
  | zero => intro hne; exact absurd (stmt_zero _ _ _) hne
  | succ n =>
    rw [stmt_block]
    intro hne
    obtain ⟨m, hm⟩ := ref_block h n σ sc [] hne
    exact ⟨m + 1, by rw [stmt_block]; exact hm⟩

theorem ref_stmt_if_branch (h : Refines x y) (before : List Branch) (cond : Expr) (later : List Branch)
    (els : Option (List Stmt)) (n : Nat) (σ : State) (sc : List Addr) :
    evalStmt n σ sc (.If (before ++ .mk cond x :: later) els) ≠ .timeout →
      ∃ m, evalStmt m σ sc (.If (before ++ .mk cond y :: later) els) = evalStmt n σ sc (.If (before ++ .mk cond x :: later) els) := by
  cases n with
  | zero => intro hne; exact absurd (stmt_zero _ _ _) hne
  | succ n =>
    rw [stmt_if]
    intro hne
    obtain ⟨m, hm⟩ := ref_if_branch h before cond later els n σ sc hne
    exact ⟨m + 1, by rw [stmt_if]; exact hm⟩

theorem ref_stmt_if_else (h : Refines x y) (bs : List Branch) (n : Nat) (σ : State) (sc : List Addr) :
    evalStmt n σ sc (.If bs (some x)) ≠ .timeout → ∃ m, evalStmt m σ sc (.If bs (some y)) = evalStmt n σ sc (.If bs (some x)) := by
  cases n with
  | zero => intro hne; exact absurd (stmt_zero _ _ _) hne
  | succ n =>
    rw [stmt_if]
    intro hne
    obtain ⟨m, hm⟩ := ref_if_else h bs n σ sc hne
    exact ⟨m + 1, by rw [stmt_if]; exact hm⟩

theorem ref_stmt_while (h : Refines x y) (cond : Expr) (n : Nat) (σ : State) (sc : List Addr) :
    evalStmt n σ sc (.While cond x) ≠ .timeout → ∃ m, evalStmt m σ sc (.While cond y) = evalStmt n σ sc (.While cond x) := by
  cases n with
  | zero => intro hne; exact absurd (stmt_zero _ _ _) hne
  | succ n =>
    rw [stmt_while]
    intro hne
    obtain ⟨m, hm⟩ := ref_while h cond n σ sc hne
    exact ⟨m + 1, by rw [stmt_while]; exact hm⟩

/-- what the `for` statement does with the value of the iterable -/
def forEnterK (sc : List Addr) (lhs iter : Expr) (b : List Stmt) (it : SVal) (σ1 : State) (m : Nat) : Res Escape :=
  match toPairs σ1 it.v with
  | none => crashHeap σ1
  | some none => errAt iter.loc Gen.Leaf.ForIterNotIterable σ1
  | some (some pairs) => evalFor m σ1 sc lhs pairs b

theorem ref_stmt_for (h : Refines x y) (lhs iter : Expr) (n : Nat) (σ : State) (sc : List Addr) :
    evalStmt n σ sc (.For lhs iter x) ≠ .timeout → ∃ m, evalStmt m σ sc (.For lhs iter y) = evalStmt n σ sc (.For lhs iter x) := by
  cases n with
  | zero => intro hne; exact absurd (stmt_zero _ _ _) hne
  | succ n =>
    rw [stmt_for]
    intro hne
    obtain ⟨m, hm⟩ := reaches_bind (g := fun m => evalExpr m σ sc iter) (k' := fun it σ1 m => forEnterK sc lhs iter y it σ1 m)
      (k := fun it σ1 => forEnterK sc lhs iter x it σ1 n)
      (fun k => (monoAll k).evalExpr _ _ _)
      (fun it σ1 k => by
        unfold forEnterK
        cases toPairs σ1 it.v with
        | none => exact Res.Le.refl _
        | some o =>
          cases o with
          | none => exact Res.Le.refl _
          | some ps => exact (monoAll k).evalFor _ _ _ _ _)
      hne (fun _ => ⟨n, rfl⟩)
      (fun it σ1 _ hk => by
        unfold forEnterK at hk ⊢
        cases hp : toPairs σ1 it.v with
        | none => exact ⟨0, rfl⟩
        | some o =>
          cases o with
          | none => exact ⟨0, rfl⟩
          | some ps =>
            simp only [hp] at hk
            exact ref_for h lhs n σ1 sc ps hk)
    exact ⟨m + 1, by rw [stmt_for]; exact hm⟩

end upto

/-- refinement is preserved by every context -/
theorem refines_ctx (K : SCtx) {s t : List Stmt} (h : Refines s t) : Refines (K.plug s) (K.plug t) := by
  induction K with
  | hole => exact h
  | seq pre c post ih =>
    simp only [SCtx.plug, List.append_assoc]
    exact ref_prefix (ref_suffix ih post) pre
  | block c ih => exact ref_single (ref_stmt_block ih)
  | ifBranch before cond c later els ih => exact ref_single (ref_stmt_if_branch ih before cond later els)
  | ifElse bs c ih => exact ref_single (ref_stmt_if_else ih bs)
  | whileBody cond c ih => exact ref_single (ref_stmt_while ih cond)
  | forBody lhs iter c ih => exact ref_single (ref_stmt_for ih lhs iter)

/-- observational equivalence is preserved by every context -/
theorem uptoEq_ctx (K : SCtx) {s t : List Stmt} (h : UptoEq s t) : UptoEq (K.plug s) (K.plug t) :=
  uptoEq_iff.2 ⟨refines_ctx K (uptoEq_iff.1 h).1, refines_ctx K (uptoEq_iff.1 h).2⟩

end Seed.C01
