/-
  Lemmas/C04EquivEval.lean — consistent renaming commutes with every function of the evaluator.

  `EqAll π P n`: one field per evaluator function, "running the renamed code from the renamed state is the renaming
  of the run" (`Sim`), under the side condition `ok…` on the code and `Good` on the state.  Architecture of
  EvalMono.lean / Frame.lean: `eqAll_zero`, one `…_succ` lemma per function (unfold once, peel `bind`s with the
  congruence rules of `Sim`, normalise the reads of the renamed state, split matches), `eqAll`.
  Hand-written steps are exactly the places where a *name* is used: variable read, object shorthand, the name binder,
  `fn` (allocation of a function cell), calls (parameter patterns and bodies come out of the heap, `this`), and
  interpolation slots (parsed at run time: `P`).
-/
import SeedProofs.Lemmas.C04EquivPrim
namespace Seed
namespace Eqv
open ScopeL

variable {π : List Char → List Char} {P : Expr → Prop}

/-! ### small facts about the action -/

@[simp] theorem loc_rExpr (e : Expr) : (rExpr π e).loc = e.loc := by cases e; rfl
@[simp] theorem raw_rExpr (e : Expr) : (rExpr π e).raw = rRaw π e.raw := by cases e; simp [rExpr, Expr.raw]
@[simp] theorem length_rExprs (l : List Expr) : (rExprs π l).length = l.length := by simp [rExprs_eq_map]
@[simp] theorem length_rItems (l : List ListItem) : (rItems π l).length = l.length := by
  induction l with
  | nil => rfl
  | cons a r ih => simp [rItems, ih]
@[simp] theorem length_rProps (l : List PropItem) : (rProps π l).length = l.length := by
  induction l with
  | nil => rfl
  | cons a r ih => simp [rProps, ih]

theorem ok_var {x : List Char} {l : Loc} : okExpr π P (.mk (.Var x) l) := by simp only [okExpr, okRaw]

theorem okBinds_nil : okBinds π P [] := fun _ h => by cases h
theorem okBinds_cons {b : Expr × SVal} {r : List (Expr × SVal)} (h1 : okExpr π P b.1) (h2 : okBinds π P r) : okBinds π P (b :: r) := by
  intro x hx
  rcases List.mem_cons.mp hx with rfl | hx
  · exact h1
  · exact h2 x hx
theorem okBinds_head {b : Expr × SVal} {r : List (Expr × SVal)} (h : okBinds π P (b :: r)) : okExpr π P b.1 :=
  h b List.mem_cons_self
theorem okBinds_tail {b : Expr × SVal} {r : List (Expr × SVal)} (h : okBinds π P (b :: r)) : okBinds π P r :=
  fun x hx => h x (List.mem_cons_of_mem _ hx)
theorem okBinds_append {a b : List (Expr × SVal)} (h1 : okBinds π P a) (h2 : okBinds π P b) : okBinds π P (a ++ b) := by
  intro x hx
  rcases List.mem_append.mp hx with h | h
  · exact h1 x h
  · exact h2 x h
theorem okBinds_zip {es : List Expr} (vs : List SVal) (h : okExprs π P es) : okBinds π P (es.zip vs) := by
  induction es generalizing vs with
  | nil => exact okBinds_nil
  | cons e r ih =>
    cases vs with
    | nil => exact okBinds_nil
    | cons v vs =>
      simp only [okExprs] at h
      exact okBinds_cons h.1 (ih vs h.2)

theorem rBinds_zip (es : List Expr) (vs : List SVal) : (rExprs π es).zip vs = rBinds π (es.zip vs) := by
  induction es generalizing vs with
  | nil => rfl
  | cons e r ih =>
    cases vs with
    | nil => rfl
    | cons v vs => simp only [rExprs, List.zip_cons_cons, rBinds, List.map_cons, ih vs]
theorem rBinds_append (a b : List (Expr × SVal)) : rBinds π (a ++ b) = rBinds π a ++ rBinds π b := by
  simp [rBinds]

theorem slotsP_tail {s : List Char} {p : Nat × Nat} {r : List (Nat × Nat)} (h : SlotsP P s (p :: r)) : SlotsP P s r :=
  fun q hq => h q (List.mem_cons_of_mem _ hq)

theorem mk_push (σ : State) (c : Cell) : (⟨σ.heap.push c, σ.out⟩ : State) = allocS σ c := rfl

/-- the renamed run of every evaluator function is the renaming of the run, at fuel `n` -/
structure EqAll (π : List Char → List Char) (P : Expr → Prop) (n : Nat) : Prop where
  evalExpr : ∀ σ sc e, Good π P σ → okExpr π P e → Sim π P id (evalExpr n (rSt π σ) sc (rExpr π e)) (evalExpr n σ sc e)
  evalOptIndex : ∀ σ sc e, Good π P σ → okOpt π P e → Sim π P id (evalOptIndex n (rSt π σ) sc (rOpt π e)) (evalOptIndex n σ sc e)
  evalListItems : ∀ σ sc items acc, Good π P σ → okItems π P items →
    Sim π P id (evalListItems n (rSt π σ) sc (rItems π items) acc) (evalListItems n σ sc items acc)
  evalProps : ∀ σ sc l props acc, Good π P σ → okProps π P props →
    Sim π P id (evalProps n (rSt π σ) sc l (rProps π props) acc) (evalProps n σ sc l props acc)
  evalCall : ∀ σ sc f args loc, Good π P σ → okExpr π P f → okItems π P args →
    Sim π P id (evalCall n (rSt π σ) sc (rExpr π f) (rItems π args) loc) (evalCall n σ sc f args loc)
  evalToStr : ∀ σ sc d e, Good π P σ → okExpr π P e → Sim π P id (evalToStr n (rSt π σ) sc d (rExpr π e)) (evalToStr n σ sc d e)
  evalToBool : ∀ σ sc d e, Good π P σ → okExpr π P e → Sim π P id (evalToBool n (rSt π σ) sc d (rExpr π e)) (evalToBool n σ sc d e)
  evalToInt : ∀ σ sc d e, Good π P σ → okExpr π P e → Sim π P id (evalToInt n (rSt π σ) sc d (rExpr π e)) (evalToInt n σ sc d e)
  evalToIndex : ∀ σ sc e, Good π P σ → okExpr π P e → Sim π P id (evalToIndex n (rSt π σ) sc (rExpr π e)) (evalToIndex n σ sc e)
  interpolate : ∀ σ sc s slots loc last acc, Good π P σ → SlotsP P s slots →
    Sim π P id (interpolate n (rSt π σ) sc s slots loc last acc) (interpolate n σ sc s slots loc last acc)
  evalBlock : ∀ σ sc bs stmts, Good π P σ → okBinds π P bs → okStmts π P stmts →
    Sim π P id (evalBlock n (rSt π σ) sc (rBinds π bs) (rStmts π stmts)) (evalBlock n σ sc bs stmts)
  declareAll : ∀ σ sc bs, Good π P σ → okBinds π P bs → Sim π P id (declareAll n (rSt π σ) sc (rBinds π bs)) (declareAll n σ sc bs)
  evalStmts : ∀ σ sc stmts, Good π P σ → okStmts π P stmts → Sim π P id (evalStmts n (rSt π σ) sc (rStmts π stmts)) (evalStmts n σ sc stmts)
  evalStmt : ∀ σ sc st, Good π P σ → okStmt π P st → Sim π P id (evalStmt n (rSt π σ) sc (rStmt π st)) (evalStmt n σ sc st)
  evalIf : ∀ σ sc bs els, Good π P σ → okBranches π P bs → okOptStmts π P els →
    Sim π P id (evalIf n (rSt π σ) sc (rBranches π bs) (rOptStmts π els)) (evalIf n σ sc bs els)
  evalWhile : ∀ σ sc c stmts, Good π P σ → okExpr π P c → okStmts π P stmts →
    Sim π P id (evalWhile n (rSt π σ) sc (rExpr π c) (rStmts π stmts)) (evalWhile n σ sc c stmts)
  evalFor : ∀ σ sc lhs pairs stmts, Good π P σ → okExpr π P lhs → okStmts π P stmts →
    Sim π P id (evalFor n (rSt π σ) sc (rExpr π lhs) pairs (rStmts π stmts)) (evalFor n σ sc lhs pairs stmts)
  bindNext : ∀ σ sc names lhs rhs op decl, Good π P σ → okExpr π P lhs →
    Sim π P (List.map π) (bindNext n (rSt π σ) sc (names.map π) (rExpr π lhs) rhs op decl) (bindNext n σ sc names lhs rhs op decl)
  bindProp : ∀ σ a name loc rhs op names vi, Good π P σ →
    Sim π P (List.map π) (bindProp n (rSt π σ) a name loc rhs op (names.map π) vi) (bindProp n σ a name loc rhs op names vi)
  bindRangeIndex : ∀ σ sc a start stop loc rhsItems names, Good π P σ → okOpt π P start → okOpt π P stop →
    Sim π P (List.map π) (bindRangeIndex n (rSt π σ) sc a (rOpt π start) (rOpt π stop) loc rhsItems (names.map π))
      (bindRangeIndex n σ sc a start stop loc rhsItems names)
  bindList : ∀ σ sc names items collect lhsLoc b decl i lhsLen, Good π P σ → okItems π P items →
    Sim π P (List.map π) (bindList n (rSt π σ) sc (names.map π) (rItems π items) collect lhsLoc b decl i lhsLen)
      (bindList n σ sc names items collect lhsLoc b decl i lhsLen)
  bindObject : ∀ σ sc names props b decl i total remaining, Good π P σ → okProps π P props →
    Sim π P (List.map π) (bindObject n (rSt π σ) sc (names.map π) (rProps π props) b decl i total remaining)
      (bindObject n σ sc names props b decl i total remaining)
  bindObjectProp : ∀ σ sc names lhs b pname ploc decl, Good π P σ → okExpr π P lhs →
    Sim π P (List.map π) (bindObjectProp n (rSt π σ) sc (names.map π) (rExpr π lhs) b pname ploc decl)
      (bindObjectProp n σ sc names lhs b pname ploc decl)

theorem EqAll.evalBlock0 {n : Nat} (ih : EqAll π P n) (σ : State) (sc : List Addr) (stmts : List Stmt) (hg : Good π P σ)
    (hs : okStmts π P stmts) : Sim π P id (Seed.evalBlock n (rSt π σ) sc [] (rStmts π stmts)) (Seed.evalBlock n σ sc [] stmts) :=
  ih.evalBlock σ sc [] stmts hg okBinds_nil hs

theorem EqAll.bindNext0 {n : Nat} (ih : EqAll π P n) (σ : State) (sc : List Addr) (lhs : Expr) (rhs : SVal)
    (op : Option (BinaryOp × Loc)) (decl : Bool) (hg : Good π P σ) (hs : okExpr π P lhs) :
    Sim π P (List.map π) (Seed.bindNext n (rSt π σ) sc [] (rExpr π lhs) rhs op decl) (Seed.bindNext n σ sc [] lhs rhs op decl) :=
  ih.bindNext σ sc [] lhs rhs op decl hg hs

/-- side goals of the recursive-call leaves: a good state, or a piece of the side condition -/
macro "eq_side" : tactic =>
  `(tactic| first
    | assumption
    | (apply good_allocS_list; assumption)
    | (apply good_allocS_obj; assumption)
    | (apply good_allocS_scope; assumption)
    | (apply good_set_list; assumption)
    | (apply good_set_obj; assumption)
    | (apply slotsP_tail; assumption)
    | exact okBinds_nil)

macro "eq_leaf " ih:ident : tactic =>
  `(tactic| first
    | exact Sim.timeout
    | (apply EqAll.evalBlock0 $ih <;> eq_side)
    | (apply EqAll.bindNext0 $ih <;> eq_side)
    | (apply EqAll.evalExpr $ih <;> eq_side) | (apply EqAll.evalOptIndex $ih <;> eq_side)
    | (apply EqAll.evalListItems $ih <;> eq_side) | (apply EqAll.evalProps $ih <;> eq_side)
    | (apply EqAll.evalCall $ih <;> eq_side) | (apply EqAll.evalToStr $ih <;> eq_side)
    | (apply EqAll.evalToBool $ih <;> eq_side) | (apply EqAll.evalToInt $ih <;> eq_side)
    | (apply EqAll.evalToIndex $ih <;> eq_side) | (apply EqAll.interpolate $ih <;> eq_side)
    | (apply EqAll.evalBlock $ih <;> eq_side) | (apply EqAll.declareAll $ih <;> eq_side)
    | (apply EqAll.evalStmts $ih <;> eq_side) | (apply EqAll.evalStmt $ih <;> eq_side)
    | (apply EqAll.evalIf $ih <;> eq_side) | (apply EqAll.evalWhile $ih <;> eq_side)
    | (apply EqAll.evalFor $ih <;> eq_side) | (apply EqAll.bindNext $ih <;> eq_side)
    | (apply EqAll.bindProp $ih <;> eq_side) | (apply EqAll.bindRangeIndex $ih <;> eq_side)
    | (apply EqAll.bindList $ih <;> eq_side) | (apply EqAll.bindObject $ih <;> eq_side)
    | (apply EqAll.bindObjectProp $ih <;> eq_side)
    | (apply applyBinOp_sim; eq_side) | (apply callBuiltin_sim; eq_side)
    | (apply opAssignValue_sim; eq_side)
    | (refine Sim.of_eq rfl ?_; first | trivial | (show Good _ _ _; eq_side)))

macro "eq_auto " ih:ident : tactic =>
  `(tactic| repeat' first
    | eq_leaf $ih
    | apply Sim.bind
    | intro _ _ _
    | (refine Sim.map ?_ (fun _ => rfl))
    | (refine Sim.mapErr ?_ (fun _ => rfl))
    | (simp only [getList_rSt, getObj_rSt, size_rSt, alloc_pair, allocS_rSt_list, allocS_rSt_obj, allocS_rSt_scope,
        set_rSt_list, set_rSt_obj, toPairs_rSt, loc_rExpr, length_rExprs, length_rItems, length_rProps, id, mk_push])
    | (dsimp only [id])
    | split)

/-- split every conjunction among the hypotheses -/
macro "split_ands" : tactic => `(tactic| repeat (cases ‹_ ∧ _›))

theorem eqAll_zero : EqAll π P 0 := by
  constructor <;> intros
  · unfold evalExpr; exact Sim.timeout
  · unfold evalOptIndex; exact Sim.timeout
  · unfold evalListItems; exact Sim.timeout
  · unfold evalProps; exact Sim.timeout
  · unfold evalCall; exact Sim.timeout
  · unfold evalToStr; exact Sim.timeout
  · unfold evalToBool; exact Sim.timeout
  · unfold evalToInt; exact Sim.timeout
  · unfold evalToIndex; exact Sim.timeout
  · unfold interpolate; exact Sim.timeout
  · unfold evalBlock; exact Sim.timeout
  · unfold declareAll; exact Sim.timeout
  · unfold evalStmts; exact Sim.timeout
  · unfold evalStmt; exact Sim.timeout
  · unfold evalIf; exact Sim.timeout
  · unfold evalWhile; exact Sim.timeout
  · unfold evalFor; exact Sim.timeout
  · unfold bindNext; exact Sim.timeout
  · unfold bindProp; exact Sim.timeout
  · unfold bindRangeIndex; exact Sim.timeout
  · unfold bindList; exact Sim.timeout
  · unfold bindObject; exact Sim.timeout
  · unfold bindObjectProp; exact Sim.timeout

section
variable (hπ : ∀ a b, π a = π b → a = b) (hu : ∀ a, π a = c!"_" ↔ a = c!"_") (hthis : π c!"this" = c!"this")
  (hP : ∀ ast, P ast → rExpr π ast = ast ∧ okExpr π P ast)
include hπ hu hthis hP
set_option linter.unusedSectionVars false

theorem evalExpr_succ (n : Nat) (ih : EqAll π P n) (σ : State) (sc : List Addr) (e : Expr) (hg : Good π P σ)
    (hok : okExpr π P e) : Sim π P id (evalExpr (n + 1) (rSt π σ) sc (rExpr π e)) (evalExpr (n + 1) σ sc e) := by
  cases e with
  | mk raw loc =>
    cases raw with
    | Var name =>
      simp only [rExpr, rRaw]
      unfold evalExpr
      simp only [scopeGet_rSt π hπ]
      cases scopeGet σ sc name <;> exact Sim.of_eq rfl (by first | trivial | exact hg)
    | Func args c ss =>
      simp only [rExpr, rRaw]
      simp only [okExpr, okRaw] at hok
      unfold evalExpr
      simp only [alloc_pair, size_rSt]
      rw [show (Cell.func ⟨none, rExprs π args, c, rStmts π ss, sc⟩) = rCell π (.func ⟨none, args, c, ss, sc⟩) from rfl,
        allocS_rSt]
      exact Sim.of_eq rfl (good_allocS_func _ hg hok.1 hok.2)
    | Str s sl =>
      cases sl with
      | none => simp only [rExpr, rRaw]; unfold evalExpr; exact Sim.of_eq rfl hg
      | some slots =>
        simp only [rExpr, rRaw]
        simp only [okExpr, okRaw] at hok
        unfold evalExpr
        eq_auto ih
    | _ =>
      simp only [rExpr, rRaw]
      try simp only [okExpr, okRaw] at hok
      unfold evalExpr
      split_ands
      eq_auto ih

theorem evalOptIndex_succ (n : Nat) (ih : EqAll π P n) (σ : State) (sc : List Addr) (e : Option Expr) (hg : Good π P σ)
    (hok : okOpt π P e) : Sim π P id (evalOptIndex (n + 1) (rSt π σ) sc (rOpt π e)) (evalOptIndex (n + 1) σ sc e) := by
  cases e with
  | none => simp only [rOpt]; unfold evalOptIndex; exact Sim.of_eq rfl hg
  | some e =>
    simp only [rOpt]
    simp only [okOpt] at hok
    unfold evalOptIndex
    eq_auto ih

theorem evalListItems_succ (n : Nat) (ih : EqAll π P n) (σ : State) (sc : List Addr) (items : List ListItem) (acc : List SVal)
    (hg : Good π P σ) (hok : okItems π P items) :
    Sim π P id (evalListItems (n + 1) (rSt π σ) sc (rItems π items) acc) (evalListItems (n + 1) σ sc items acc) := by
  cases items with
  | nil => simp only [rItems]; unfold evalListItems; exact Sim.of_eq rfl hg
  | cons i r =>
    cases i with
    | mk e spread =>
      simp only [rItems, rItem]
      simp only [okItems, okItem] at hok
      unfold evalListItems
      split_ands
      eq_auto ih

theorem evalToStr_succ (n : Nat) (ih : EqAll π P n) (σ : State) (sc : List Addr) (d : List Char) (e : Expr) (hg : Good π P σ)
    (hok : okExpr π P e) : Sim π P id (evalToStr (n + 1) (rSt π σ) sc d (rExpr π e)) (evalToStr (n + 1) σ sc d e) := by
  unfold evalToStr; eq_auto ih

theorem evalToBool_succ (n : Nat) (ih : EqAll π P n) (σ : State) (sc : List Addr) (d : List Char) (e : Expr) (hg : Good π P σ)
    (hok : okExpr π P e) : Sim π P id (evalToBool (n + 1) (rSt π σ) sc d (rExpr π e)) (evalToBool (n + 1) σ sc d e) := by
  unfold evalToBool; eq_auto ih

theorem evalToInt_succ (n : Nat) (ih : EqAll π P n) (σ : State) (sc : List Addr) (d : List Char) (e : Expr) (hg : Good π P σ)
    (hok : okExpr π P e) : Sim π P id (evalToInt (n + 1) (rSt π σ) sc d (rExpr π e)) (evalToInt (n + 1) σ sc d e) := by
  unfold evalToInt; eq_auto ih

theorem evalToIndex_succ (n : Nat) (ih : EqAll π P n) (σ : State) (sc : List Addr) (e : Expr) (hg : Good π P σ)
    (hok : okExpr π P e) : Sim π P id (evalToIndex (n + 1) (rSt π σ) sc (rExpr π e)) (evalToIndex (n + 1) σ sc e) := by
  unfold evalToIndex; eq_auto ih

theorem interpolate_succ (n : Nat) (ih : EqAll π P n) (σ : State) (sc : List Addr) (s : List Char) (slots : List (Nat × Nat))
    (loc : Loc) (last : Nat) (acc : List Char) (hg : Good π P σ) (hok : SlotsP P s slots) :
    Sim π P id (interpolate (n + 1) (rSt π σ) sc s slots loc last acc) (interpolate (n + 1) σ sc s slots loc last acc) := by
  cases slots with
  | nil => unfold interpolate; exact Sim.of_eq rfl hg
  | cons p r =>
    obtain ⟨start, stop⟩ := p
    unfold interpolate
    dsimp only []
    cases hp : parseExprTop (sliceChars s (start + 2) (stop - 1)) with
    | timeout => exact Sim.timeout
    | err e => exact Sim.of_eq rfl trivial
    | ok ast =>
      dsimp only []
      obtain ⟨hfix, hoka⟩ := hP ast (hok (start, stop) List.mem_cons_self ast hp)
      have hs := ih.evalExpr σ sc ast hg hoka
      rw [hfix] at hs
      apply Sim.bind
      · refine Sim.mapErr hs ?_
        intro _; rfl
      eq_auto ih

theorem evalBlock_succ (n : Nat) (ih : EqAll π P n) (σ : State) (sc : List Addr) (bs : List (Expr × SVal)) (stmts : List Stmt)
    (hg : Good π P σ) (hb : okBinds π P bs) (hok : okStmts π P stmts) :
    Sim π P id (evalBlock (n + 1) (rSt π σ) sc (rBinds π bs) (rStmts π stmts)) (evalBlock (n + 1) σ sc bs stmts) := by
  unfold evalBlock; eq_auto ih

theorem declareAll_succ (n : Nat) (ih : EqAll π P n) (σ : State) (sc : List Addr) (bs : List (Expr × SVal))
    (hg : Good π P σ) (hb : okBinds π P bs) :
    Sim π P id (declareAll (n + 1) (rSt π σ) sc (rBinds π bs)) (declareAll (n + 1) σ sc bs) := by
  cases bs with
  | nil => unfold declareAll; exact Sim.of_eq rfl hg
  | cons b r =>
    obtain ⟨lhs, rhs⟩ := b
    have h1 := okBinds_head hb
    have h2 := okBinds_tail hb
    simp only [rBinds, List.map_cons]
    unfold declareAll
    dsimp only []
    apply Sim.bind (ih.bindNext0 σ sc lhs rhs none true hg h1)
    intro _ σ1 hg1
    exact ih.declareAll σ1 sc r hg1 h2

theorem evalStmts_succ (n : Nat) (ih : EqAll π P n) (σ : State) (sc : List Addr) (stmts : List Stmt)
    (hg : Good π P σ) (hok : okStmts π P stmts) :
    Sim π P id (evalStmts (n + 1) (rSt π σ) sc (rStmts π stmts)) (evalStmts (n + 1) σ sc stmts) := by
  cases stmts with
  | nil => simp only [rStmts]; unfold evalStmts; exact Sim.of_eq rfl hg
  | cons st r =>
    simp only [rStmts]
    simp only [okStmts] at hok
    unfold evalStmts
    split_ands
    eq_auto ih

theorem evalIf_succ (n : Nat) (ih : EqAll π P n) (σ : State) (sc : List Addr) (bs : List Branch) (els : Option (List Stmt))
    (hg : Good π P σ) (hb : okBranches π P bs) (he : okOptStmts π P els) :
    Sim π P id (evalIf (n + 1) (rSt π σ) sc (rBranches π bs) (rOptStmts π els)) (evalIf (n + 1) σ sc bs els) := by
  cases bs with
  | nil =>
    cases els with
    | none => simp only [rBranches, rOptStmts]; unfold evalIf; exact Sim.of_eq rfl hg
    | some ss =>
      simp only [rBranches, rOptStmts]
      simp only [okOptStmts] at he
      unfold evalIf
      eq_auto ih
  | cons b r =>
    cases b with
    | mk c ss =>
      simp only [rBranches, rBranch]
      simp only [okBranches, okBranch] at hb
      unfold evalIf
      split_ands
      eq_auto ih

theorem evalWhile_succ (n : Nat) (ih : EqAll π P n) (σ : State) (sc : List Addr) (c : Expr) (stmts : List Stmt)
    (hg : Good π P σ) (hc : okExpr π P c) (hok : okStmts π P stmts) :
    Sim π P id (evalWhile (n + 1) (rSt π σ) sc (rExpr π c) (rStmts π stmts)) (evalWhile (n + 1) σ sc c stmts) := by
  unfold evalWhile; eq_auto ih

theorem evalFor_succ (n : Nat) (ih : EqAll π P n) (σ : State) (sc : List Addr) (lhs : Expr) (pairs : List (SVal × SVal))
    (stmts : List Stmt) (hg : Good π P σ) (hl : okExpr π P lhs) (hok : okStmts π P stmts) :
    Sim π P id (evalFor (n + 1) (rSt π σ) sc (rExpr π lhs) pairs (rStmts π stmts)) (evalFor (n + 1) σ sc lhs pairs stmts) := by
  cases pairs with
  | nil => unfold evalFor; exact Sim.of_eq rfl hg
  | cons p r =>
    obtain ⟨k, v⟩ := p
    unfold evalFor
    simp only [alloc_pair, size_rSt, allocS_rSt_list]
    apply Sim.bind (ih.evalBlock _ sc [(lhs, SVal.plain (.list σ.heap.size))] stmts (good_allocS_list _ hg)
      (okBinds_cons hl okBinds_nil) hok)
    eq_auto ih

theorem evalProps_succ (n : Nat) (ih : EqAll π P n) (σ : State) (sc : List Addr) (l : Loc) (props : List PropItem) (acc : ObjMap)
    (hg : Good π P σ) (hok : okProps π P props) :
    Sim π P id (evalProps (n + 1) (rSt π σ) sc l (rProps π props) acc) (evalProps (n + 1) σ sc l props acc) := by
  cases props with
  | nil => simp only [rProps]; unfold evalProps; exact Sim.of_eq rfl hg
  | cons p r =>
    simp only [okProps] at hok
    obtain ⟨hp, hr⟩ := hok
    cases p with
    | Pair nameE value =>
      simp only [rProps, rProp]
      simp only [okProp] at hp
      unfold evalProps
      split_ands
      eq_auto ih
    | Single e spread collect =>
      simp only [rProps, rProp]
      simp only [okProp] at hp
      obtain ⟨he, hfix⟩ := hp
      unfold evalProps
      dsimp only []
      cases collect with
      | true => exact Sim.of_eq rfl trivial
      | false =>
        cases spread with
        | true =>
          simp only [Bool.false_eq_true, if_false, if_true]
          eq_auto ih
        | false =>
          simp only [Bool.false_eq_true, if_false]
          have hfx := hfix rfl rfl
          cases e with
          | mk raw el =>
            cases raw with
            | Var name =>
              have hn : π name = name := hfx name rfl
              simp only [rExpr, rRaw, Expr.raw, Expr.loc, hn]
              have hs := scopeGet_rSt π hπ σ sc name
              rw [hn] at hs
              rw [hs]
              cases scopeGet σ sc name with
              | none => exact Sim.of_eq (by simp only [errAt, Err.at, rRes, rErr, rLeaf, hn]) trivial
              | some v => exact ih.evalProps σ sc l r _ hg hr
            | _ =>
              simp only [rExpr, rRaw, Expr.raw, Expr.loc]
              exact Sim.of_eq rfl trivial

theorem bindProp_succ (n : Nat) (ih : EqAll π P n) (σ : State) (a : Addr) (name : List Char) (loc : Loc) (rhs : SVal)
    (op : Option (BinaryOp × Loc)) (names : List (List Char)) (vi : Bool) (hg : Good π P σ) :
    Sim π P (List.map π) (bindProp (n + 1) (rSt π σ) a name loc rhs op (names.map π) vi) (bindProp (n + 1) σ a name loc rhs op names vi) := by
  unfold bindProp; eq_auto ih

theorem bindRangeIndex_succ (n : Nat) (ih : EqAll π P n) (σ : State) (sc : List Addr) (a : Addr) (start stop : Option Expr)
    (loc : Loc) (rhsItems : List SVal) (names : List (List Char)) (hg : Good π P σ) (h1 : okOpt π P start) (h2 : okOpt π P stop) :
    Sim π P (List.map π) (bindRangeIndex (n + 1) (rSt π σ) sc a (rOpt π start) (rOpt π stop) loc rhsItems (names.map π))
      (bindRangeIndex (n + 1) σ sc a start stop loc rhsItems names) := by
  unfold bindRangeIndex; eq_auto ih

theorem bindObjectProp_succ (n : Nat) (ih : EqAll π P n) (σ : State) (sc : List Addr) (names : List (List Char)) (lhs : Expr)
    (b : Addr) (pname : List Char) (ploc : Loc) (decl : Bool) (hg : Good π P σ) (hok : okExpr π P lhs) :
    Sim π P (List.map π) (bindObjectProp (n + 1) (rSt π σ) sc (names.map π) (rExpr π lhs) b pname ploc decl)
      (bindObjectProp (n + 1) σ sc names lhs b pname ploc decl) := by
  unfold bindObjectProp; eq_auto ih

theorem bindList_succ (n : Nat) (ih : EqAll π P n) (σ : State) (sc : List Addr) (names : List (List Char)) (items : List ListItem)
    (collect : Bool) (lhsLoc : Loc) (b : Addr) (decl : Bool) (i lhsLen : Nat) (hg : Good π P σ) (hok : okItems π P items) :
    Sim π P (List.map π) (bindList (n + 1) (rSt π σ) sc (names.map π) (rItems π items) collect lhsLoc b decl i lhsLen)
      (bindList (n + 1) σ sc names items collect lhsLoc b decl i lhsLen) := by
  cases items with
  | nil => simp only [rItems]; unfold bindList; exact Sim.of_eq rfl hg
  | cons it r =>
    cases it with
    | mk e spread =>
      simp only [rItems, rItem]
      simp only [okItems, okItem] at hok
      unfold bindList
      split_ands
      eq_auto ih

theorem bindNext_succ (n : Nat) (ih : EqAll π P n) (σ : State) (sc : List Addr) (names : List (List Char)) (lhs : Expr) (rhs : SVal)
    (op : Option (BinaryOp × Loc)) (decl : Bool) (hg : Good π P σ) (hok : okExpr π P lhs) :
    Sim π P (List.map π) (bindNext (n + 1) (rSt π σ) sc (names.map π) (rExpr π lhs) rhs op decl)
      (bindNext (n + 1) σ sc names lhs rhs op decl) := by
  cases lhs with
  | mk raw loc =>
    cases raw with
    | Var name =>
      simp only [rExpr, rRaw]
      unfold bindNext
      exact bindNextName_sim hπ hu n sc names name loc rhs op decl hg
    | _ =>
      simp only [rExpr, rRaw]
      try simp only [okExpr, okRaw] at hok
      unfold bindNext
      try simp only [invalidBindDescr]
      split_ands
      eq_auto ih

theorem bindObject_succ (n : Nat) (ih : EqAll π P n) (σ : State) (sc : List Addr) (names : List (List Char)) (props : List PropItem)
    (b : Addr) (decl : Bool) (i total : Nat) (remaining : List (List Char)) (hg : Good π P σ) (hok : okProps π P props) :
    Sim π P (List.map π) (bindObject (n + 1) (rSt π σ) sc (names.map π) (rProps π props) b decl i total remaining)
      (bindObject (n + 1) σ sc names props b decl i total remaining) := by
  cases props with
  | nil => simp only [rProps]; unfold bindObject; exact Sim.of_eq rfl hg
  | cons p r =>
    simp only [okProps] at hok
    obtain ⟨hp, hr⟩ := hok
    cases p with
    | Pair nameE newLhs =>
      simp only [rProps, rProp]
      simp only [okProp] at hp
      unfold bindObject
      split_ands
      eq_auto ih
    | Single e spread collect =>
      simp only [rProps, rProp]
      simp only [okProp] at hp
      obtain ⟨he, hfix⟩ := hp
      unfold bindObject
      dsimp only []
      cases spread with
      | true => simp only [if_true, loc_rExpr]; exact Sim.of_eq rfl trivial
      | false =>
        simp only [Bool.false_eq_true, if_false]
        cases e with
        | mk raw el =>
          cases raw with
          | Var pname =>
            simp only [rExpr, rRaw, Expr.raw, Expr.loc]
            cases collect with
            | true =>
              simp only [if_true]
              split
              · exact Sim.of_eq rfl trivial
              · simp only [getObj_rSt]
                cases hm : σ.getObj b with
                | none => exact Sim.of_eq rfl trivial
                | some m =>
                  simp only [alloc_pair, size_rSt, allocS_rSt_obj]
                  apply Sim.bind (bindNextName_sim hπ hu n sc names pname el _ none decl (good_allocS_obj _ hg))
                  intro names' σ2 hg2
                  exact ih.bindObject σ2 sc names' r b decl i total remaining hg2 hr
            | false =>
              have hn : π pname = pname := hfix rfl rfl pname rfl
              simp only [Bool.false_eq_true, if_false, hn]
              split
              · exact ih.bindObject σ sc names r b decl (i + 1) total _ hg hr
              · have hs := ih.bindObjectProp σ sc names (.mk (.Var pname) el) b pname el decl hg (by simp only [okExpr, okRaw])
                simp only [rExpr, rRaw, hn] at hs
                apply Sim.bind hs
                intro names' σ1 hg1
                exact ih.bindObject σ1 sc names' r b decl (i + 1) total _ hg1 hr
          | _ =>
            simp only [rExpr, rRaw, Expr.raw, Expr.loc]
            exact Sim.of_eq rfl trivial

theorem evalCall_succ (n : Nat) (ih : EqAll π P n) (σ : State) (sc : List Addr) (f : Expr) (args : List ListItem) (loc : Loc)
    (hg : Good π P σ) (hf : okExpr π P f) (ha : okItems π P args) :
    Sim π P id (evalCall (n + 1) (rSt π σ) sc (rExpr π f) (rItems π args) loc) (evalCall (n + 1) σ sc f args loc) := by
  unfold evalCall
  dsimp only []
  apply Sim.bind (ih.evalListItems σ sc args [] hg ha)
  intro argVals σ1 hg1
  apply Sim.bind (ih.evalExpr σ1 sc f hg1 hf)
  intro fv σ2 hg2
  dsimp only [id]
  cases hv : fv.v with
  | builtin name bid =>
    simp only []
    refine Sim.mapErr (callBuiltin_sim n _ _ _ hg2) ?_
    intro _; rfl
  | func a =>
    simp only [getFunc_rSt]
    cases hfr : σ2.getFunc a with
    | none => exact Sim.of_eq rfl trivial
    | some fr =>
      obtain ⟨hfa, hfs⟩ := hg2 a fr hfr
      simp only [Option.map, rFr, length_rExprs]
      have hthis' : ∀ (t : Val) (bs : List (Expr × SVal)),
          rBinds π (bs ++ [(Expr.mk (.Var c!"this") loc, SVal.plain t)]) = rBinds π bs ++ [(Expr.mk (.Var c!"this") loc, SVal.plain t)] := by
        intro t bs; simp only [rBinds, List.map_append, List.map_cons, List.map_nil, rExpr, rRaw, hthis]
      split
      · exact Sim.of_eq rfl trivial
      · split
        · exact Sim.of_eq rfl trivial
        · cases hc : fr.collect with
          | true =>
            simp only [if_true, alloc_pair, size_rSt, allocS_rSt_list]
            cases hs : fv.src with
            | none =>
              simp only [rBinds_zip]
              apply Sim.bind
              · refine Sim.mapErr (ih.evalBlock _ fr.closure _ fr.stmts (good_allocS_list _ hg2) (okBinds_zip _ hfa) hfs) ?_
                intro _; rfl
              eq_auto ih
            | some t =>
              simp only [rBinds_zip]
              rw [← hthis' t]
              apply Sim.bind
              · refine Sim.mapErr (ih.evalBlock _ fr.closure _ fr.stmts (good_allocS_list _ hg2)
                  (okBinds_append (okBinds_zip _ hfa) (okBinds_cons (b := (Expr.mk (.Var c!"this") loc, SVal.plain t)) ok_var okBinds_nil)) hfs) ?_
                intro _; rfl
              eq_auto ih
          | false =>
            simp only [Bool.false_eq_true, if_false]
            cases hs : fv.src with
            | none =>
              simp only [rBinds_zip]
              apply Sim.bind
              · refine Sim.mapErr (ih.evalBlock _ fr.closure _ fr.stmts hg2 (okBinds_zip _ hfa) hfs) ?_
                intro _; rfl
              eq_auto ih
            | some t =>
              simp only [rBinds_zip]
              rw [← hthis' t]
              apply Sim.bind
              · refine Sim.mapErr (ih.evalBlock _ fr.closure _ fr.stmts hg2
                  (okBinds_append (okBinds_zip _ hfa) (okBinds_cons (b := (Expr.mk (.Var c!"this") loc, SVal.plain t)) ok_var okBinds_nil)) hfs) ?_
                intro _; rfl
              eq_auto ih
  | _ => exact Sim.of_eq rfl trivial

theorem evalStmt_succ (n : Nat) (ih : EqAll π P n) (σ : State) (sc : List Addr) (st : Stmt) (hg : Good π P σ)
    (hok : okStmt π P st) : Sim π P id (evalStmt (n + 1) (rSt π σ) sc (rStmt π st)) (evalStmt (n + 1) σ sc st) := by
  cases st with
  | Func name nl args c ss =>
    simp only [rStmt]
    simp only [okStmt] at hok
    obtain ⟨hn, ha, hs⟩ := hok
    unfold evalStmt
    dsimp only []
    apply Sim.bind (validateArgsRes_sim hπ hu n args hg)
    intro _ σ0 hg0
    simp only [alloc_pair, size_rSt, hn, id]
    rw [show Cell.func ⟨some name, rExprs π args, c, rStmts π ss, sc⟩ = rCell π (.func ⟨some name, args, c, ss, sc⟩) from rfl,
      allocS_rSt]
    apply Sim.bind
    · have := bindNextName_sim hπ hu n sc [] name nl (SVal.plain (.func σ0.heap.size)) none true
        (good_allocS_func ⟨some name, args, c, ss, sc⟩ hg0 ha hs)
      rw [hn] at this
      exact this
    · intro _ σ2 hg2; exact Sim.of_eq rfl hg2
  | _ =>
    simp only [rStmt]
    try simp only [okStmt] at hok
    unfold evalStmt
    split_ands
    eq_auto ih

theorem eqAll_succ (n : Nat) (ih : EqAll π P n) : EqAll π P (n + 1) where
  evalExpr := evalExpr_succ hπ hu hthis hP n ih
  evalOptIndex := evalOptIndex_succ hπ hu hthis hP n ih
  evalListItems := evalListItems_succ hπ hu hthis hP n ih
  evalProps := evalProps_succ hπ hu hthis hP n ih
  evalCall := evalCall_succ hπ hu hthis hP n ih
  evalToStr := evalToStr_succ hπ hu hthis hP n ih
  evalToBool := evalToBool_succ hπ hu hthis hP n ih
  evalToInt := evalToInt_succ hπ hu hthis hP n ih
  evalToIndex := evalToIndex_succ hπ hu hthis hP n ih
  interpolate := interpolate_succ hπ hu hthis hP n ih
  evalBlock := evalBlock_succ hπ hu hthis hP n ih
  declareAll := declareAll_succ hπ hu hthis hP n ih
  evalStmts := evalStmts_succ hπ hu hthis hP n ih
  evalStmt := evalStmt_succ hπ hu hthis hP n ih
  evalIf := evalIf_succ hπ hu hthis hP n ih
  evalWhile := evalWhile_succ hπ hu hthis hP n ih
  evalFor := evalFor_succ hπ hu hthis hP n ih
  bindNext := bindNext_succ hπ hu hthis hP n ih
  bindProp := bindProp_succ hπ hu hthis hP n ih
  bindRangeIndex := bindRangeIndex_succ hπ hu hthis hP n ih
  bindList := bindList_succ hπ hu hthis hP n ih
  bindObject := bindObject_succ hπ hu hthis hP n ih
  bindObjectProp := bindObjectProp_succ hπ hu hthis hP n ih

theorem eqAll (n : Nat) : EqAll π P n := by
  induction n with
  | zero => exact eqAll_zero
  | succ n ih => exact eqAll_succ hπ hu hthis hP n ih

/-- the whole program: `evalProg` of the renamed statements is the renaming of `evalProg` -/
theorem evalProg_ren (hprint : π c!"print" = c!"print") (n : Nat) (stmts : List Stmt) (hok : okStmts π P stmts) :
    evalProg n (rStmts π stmts) = rRes π id (evalProg n stmts) := by
  unfold evalProg
  have hb := (eqAll hπ hu hthis hP n).evalBlock State.init [] [(Expr.mk (.Var c!"print") (0, 0), SVal.plain (.builtin c!"print" .print))]
    stmts good_init (okBinds_cons (b := (Expr.mk (.Var c!"print") (0, 0), SVal.plain (.builtin c!"print" .print))) ok_var okBinds_nil) hok
  have h0 : rSt π State.init = State.init := by simp [rSt, State.init]
  have h1 : rBinds π [(Expr.mk (.Var c!"print") (0, 0), SVal.plain (.builtin c!"print" .print))] =
      [(Expr.mk (.Var c!"print") (0, 0), SVal.plain (.builtin c!"print" .print))] := by
    simp only [rBinds, List.map_cons, List.map_nil, rExpr, rRaw, hprint]
  rw [h0, h1] at hb
  have := Sim.bind (fb := id) (g' := fun esc σ => match esc with
      | .none => Res.ok () σ
      | .brk l => errAt l Gen.Leaf.BreakOutsideLoop σ
      | .cont l => errAt l Gen.Leaf.ContinueOutsideLoop σ
      | .ret _ l => errAt l Gen.Leaf.ReturnOutsideFunction σ)
    (g := fun esc σ => match esc with
      | .none => Res.ok () σ
      | .brk l => errAt l Gen.Leaf.BreakOutsideLoop σ
      | .cont l => errAt l Gen.Leaf.ContinueOutsideLoop σ
      | .ret _ l => errAt l Gen.Leaf.ReturnOutsideFunction σ) hb
    (by intro esc σ1 hg1; cases esc <;> exact Sim.of_eq rfl (by first | exact hg1 | trivial))
  exact this.1
end
end Eqv
end Seed
