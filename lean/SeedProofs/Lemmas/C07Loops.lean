/-
  C07Loops.lean — helpers for "a jump that leaves a loop body acts on exactly that loop":
  fuel stability for the loop functions, the fuel-free equality `FuelEq` of two fuel-indexed computations,
  how the `while` / `for` statements enter their loop function, the scope of a `for` body.
-/
import SeedProofs.Global
namespace Seed.C07
open Seed

/-! ### fuel stability (G1) in the form used below -/

/-- a result other than a time-out is the result at every larger fuel -/
theorem fuel_stable {α} {f : Nat → Res α} (hmono : ∀ k, Res.Le (f k) (f (k + 1))) {n m : Nat} {r : Res α}
    (h : f n = r) (hr : r ≠ .timeout) (hnm : n ≤ m) : f m = r := by
  rcases Res.Le.of_step f hmono hnm with h' | h'
  · exact absurd (h ▸ h') hr
  · exact h' ▸ h

theorem while_mono {n m : Nat} {σ sc c b} {r : Res Escape} (h : evalWhile n σ sc c b = r) (hr : r ≠ .timeout) (hnm : n ≤ m) :
    evalWhile m σ sc c b = r :=
  fuel_stable (f := fun k => evalWhile k σ sc c b) (fun k => (monoAll k).evalWhile σ sc c b) h hr hnm

theorem for_mono {n m : Nat} {σ sc lhs ps b} {r : Res Escape} (h : evalFor n σ sc lhs ps b = r) (hr : r ≠ .timeout) (hnm : n ≤ m) :
    evalFor m σ sc lhs ps b = r :=
  fuel_stable (f := fun k => evalFor k σ sc lhs ps b) (fun k => (monoAll k).evalFor σ sc lhs ps b) h hr hnm

theorem block_mono {n m : Nat} {σ sc bs b} {r : Res Escape} (h : evalBlock n σ sc bs b = r) (hr : r ≠ .timeout) (hnm : n ≤ m) :
    evalBlock m σ sc bs b = r := evalBlock_fuel_mono h hr hnm

theorem declareAll_mono {n m : Nat} {σ sc bs} {r : Res Unit} (h : declareAll n σ sc bs = r) (hr : r ≠ .timeout) (hnm : n ≤ m) :
    declareAll m σ sc bs = r :=
  fuel_stable (f := fun k => declareAll k σ sc bs) (fun k => (monoAll k).declareAll σ sc bs) h hr hnm

theorem listItems_mono {n m : Nat} {σ sc items acc} {r : Res (List SVal)} (h : evalListItems n σ sc items acc = r)
    (hr : r ≠ .timeout) (hnm : n ≤ m) : evalListItems m σ sc items acc = r :=
  fuel_stable (f := fun k => evalListItems k σ sc items acc) (fun k => (monoAll k).evalListItems σ sc items acc) h hr hnm

theorem call_mono {n m : Nat} {σ sc f args loc} {r : Res SVal} (h : evalCall n σ sc f args loc = r)
    (hr : r ≠ .timeout) (hnm : n ≤ m) : evalCall m σ sc f args loc = r :=
  fuel_stable (f := fun k => evalCall k σ sc f args loc) (fun k => (monoAll k).evalCall σ sc f args loc) h hr hnm

/-! ### equality of two computations up to fuel -/

/-- `f` and `g` have the same outcomes: every result other than a time-out that one of them reaches (at some fuel) the
    other reaches too (at some fuel).  For fuel-monotone `f`, `g` this says that they denote the same partial result. -/
def FuelEq {α} (f g : Nat → Res α) : Prop := ∀ r, r ≠ .timeout → ((∃ k, f k = r) ↔ (∃ k, g k = r))

theorem FuelEq.refl {α} (f : Nat → Res α) : FuelEq f f := fun _ _ => Iff.rfl
theorem FuelEq.symm {α} {f g : Nat → Res α} (h : FuelEq f g) : FuelEq g f := fun r hr => (h r hr).symm
theorem FuelEq.trans {α} {f g k : Nat → Res α} (h1 : FuelEq f g) (h2 : FuelEq g k) : FuelEq f k :=
  fun r hr => (h1 r hr).trans (h2 r hr)

/-- if from some fuel on `f` with one more unit is `g`, the two are equal up to fuel -/
theorem FuelEq.of_shift {α} {f g : Nat → Res α} (hf : ∀ k, Res.Le (f k) (f (k + 1))) (hg : ∀ k, Res.Le (g k) (g (k + 1)))
    (k0 : Nat) (h : ∀ m, k0 ≤ m → f (m + 1) = g m) : FuelEq f g := by
  intro r hr
  constructor
  · rintro ⟨k, hk⟩
    refine ⟨max k k0, ?_⟩
    rw [← h _ (Nat.le_max_right k k0)]
    exact fuel_stable hf hk hr (by have := Nat.le_max_left k k0; omega)
  · rintro ⟨k, hk⟩
    refine ⟨max k k0 + 1, ?_⟩
    rw [h _ (Nat.le_max_right k k0)]
    exact fuel_stable hg hk hr (Nat.le_max_left k k0)

/-- a computation that has reached `r` is `r` up to fuel -/
theorem FuelEq.of_const {α} {f : Nat → Res α} (hf : ∀ k, Res.Le (f k) (f (k + 1))) {k0 : Nat} {r0 : Res α}
    (h : ∀ m, k0 ≤ m → f m = r0) : FuelEq f (fun _ => r0) := by
  intro r hr
  constructor
  · rintro ⟨k, hk⟩
    refine ⟨0, ?_⟩
    have := fuel_stable hf hk hr (Nat.le_max_left k k0)
    rw [h _ (Nat.le_max_right k k0)] at this
    exact this
  · rintro ⟨_, hk⟩
    exact ⟨k0, (h k0 (Nat.le_refl _)).trans hk⟩

/-! ### entering the loops -/

theorem while_enters (n : Nat) (σ : State) (sc : List Addr) (cond : Expr) (stmts : List Stmt) :
    evalStmt (n + 1) σ sc (.While cond stmts) = evalWhile n σ sc cond stmts := by unfold evalStmt; rfl

/-- `for`: the iterable is evaluated once, its pairs are computed once, the loop runs over that list -/
theorem for_enters (n : Nat) (σ σ1 : State) (sc : List Addr) (lhs iter : Expr) (stmts : List Stmt) (it : SVal)
    (pairs : List (SVal × SVal)) (hi : evalExpr n σ sc iter = .ok it σ1) (hp : toPairs σ1 it.v = some (some pairs)) :
    evalStmt (n + 1) σ sc (.For lhs iter stmts) = evalFor n σ1 sc lhs pairs stmts := by
  unfold evalStmt
  simp only [hi, Res.bind, hp]

/-- a block with bindings: a fresh scope cell, the bindings declared in it, then the statements on the extended chain -/
theorem block_scope (n : Nat) (σ : State) (sc : List Addr) (bs : List (Expr × SVal)) (b : List Stmt) :
    evalBlock (n + 1) σ sc bs b =
      (declareAll n (σ.alloc (.scope [])).2 ((σ.alloc (.scope [])).1 :: sc) bs).bind fun _ σ2 =>
        evalStmts n σ2 ((σ.alloc (.scope [])).1 :: sc) b := by
  conv => lhs; unfold evalBlock
  all_goals (try rfl)

/-- once the bindings are declared (state `σb`), the block is its statements in the new scope -/
theorem block_after_decl {n : Nat} {σ σb : State} {sc : List Addr} {bs : List (Expr × SVal)} (b : List Stmt)
    (hd : declareAll n (σ.alloc (.scope [])).2 ((σ.alloc (.scope [])).1 :: sc) bs = .ok () σb) :
    evalBlock (n + 1) σ sc bs b = evalStmts n σb ((σ.alloc (.scope [])).1 :: sc) b := by
  rw [block_scope, hd]; rfl

end Seed.C07
