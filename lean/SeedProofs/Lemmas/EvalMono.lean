/-
  EvalMono.lean — G1: the meaning of a program does not depend on the fuel supplied, for every function of
  the mutual evaluator block.  One induction on the fuel over the conjunction of all functions.
-/
import SeedProofs.Lemmas.Fuel
namespace Seed

theorem validateArgsRes_mono (n : Nat) (args : List Expr) (σ : State) :
    Res.Le (validateArgsRes n args σ) (validateArgsRes (n + 1) args σ) := by
  unfold validateArgsRes
  rcases validateArgs_mono n args [] with h | h
  · rw [h]; exact Or.inl rfl
  · rw [h]; exact Res.Le.refl _

/-- "one more unit of fuel changes nothing but time-outs", for all evaluator functions at fuel `n` -/
structure MonoAll (n : Nat) : Prop where
  evalExpr : ∀ σ sc e, Res.Le (evalExpr n σ sc e) (evalExpr (n + 1) σ sc e)
  evalOptIndex : ∀ σ sc e, Res.Le (evalOptIndex n σ sc e) (evalOptIndex (n + 1) σ sc e)
  evalListItems : ∀ σ sc items acc, Res.Le (evalListItems n σ sc items acc) (evalListItems (n + 1) σ sc items acc)
  evalProps : ∀ σ sc l props acc, Res.Le (evalProps n σ sc l props acc) (evalProps (n + 1) σ sc l props acc)
  evalCall : ∀ σ sc f args loc, Res.Le (evalCall n σ sc f args loc) (evalCall (n + 1) σ sc f args loc)
  evalToStr : ∀ σ sc d e, Res.Le (evalToStr n σ sc d e) (evalToStr (n + 1) σ sc d e)
  evalToBool : ∀ σ sc d e, Res.Le (evalToBool n σ sc d e) (evalToBool (n + 1) σ sc d e)
  evalToInt : ∀ σ sc d e, Res.Le (evalToInt n σ sc d e) (evalToInt (n + 1) σ sc d e)
  evalToIndex : ∀ σ sc e, Res.Le (evalToIndex n σ sc e) (evalToIndex (n + 1) σ sc e)
  interpolate : ∀ σ sc s slots loc last acc,
    Res.Le (interpolate n σ sc s slots loc last acc) (interpolate (n + 1) σ sc s slots loc last acc)
  evalBlock : ∀ σ sc bs stmts, Res.Le (evalBlock n σ sc bs stmts) (evalBlock (n + 1) σ sc bs stmts)
  declareAll : ∀ σ sc bs, Res.Le (declareAll n σ sc bs) (declareAll (n + 1) σ sc bs)
  evalStmts : ∀ σ sc stmts, Res.Le (evalStmts n σ sc stmts) (evalStmts (n + 1) σ sc stmts)
  evalStmt : ∀ σ sc st, Res.Le (evalStmt n σ sc st) (evalStmt (n + 1) σ sc st)
  evalIf : ∀ σ sc bs els, Res.Le (evalIf n σ sc bs els) (evalIf (n + 1) σ sc bs els)
  evalWhile : ∀ σ sc c stmts, Res.Le (evalWhile n σ sc c stmts) (evalWhile (n + 1) σ sc c stmts)
  evalFor : ∀ σ sc lhs pairs stmts, Res.Le (evalFor n σ sc lhs pairs stmts) (evalFor (n + 1) σ sc lhs pairs stmts)
  bindNext : ∀ σ sc names lhs rhs op decl,
    Res.Le (bindNext n σ sc names lhs rhs op decl) (bindNext (n + 1) σ sc names lhs rhs op decl)
  bindProp : ∀ σ a name loc rhs op names vi,
    Res.Le (bindProp n σ a name loc rhs op names vi) (bindProp (n + 1) σ a name loc rhs op names vi)
  bindRangeIndex : ∀ σ sc a start stop loc rhsItems names,
    Res.Le (bindRangeIndex n σ sc a start stop loc rhsItems names) (bindRangeIndex (n + 1) σ sc a start stop loc rhsItems names)
  bindList : ∀ σ sc names items collect lhsLoc b decl i lhsLen,
    Res.Le (bindList n σ sc names items collect lhsLoc b decl i lhsLen)
      (bindList (n + 1) σ sc names items collect lhsLoc b decl i lhsLen)
  bindObject : ∀ σ sc names props b decl i total remaining,
    Res.Le (bindObject n σ sc names props b decl i total remaining)
      (bindObject (n + 1) σ sc names props b decl i total remaining)
  bindObjectProp : ∀ σ sc names lhs b pname ploc decl,
    Res.Le (bindObjectProp n σ sc names lhs b pname ploc decl) (bindObjectProp (n + 1) σ sc names lhs b pname ploc decl)

/-- closes a goal `Le (f n …) (f (n+1) …)` for a recursive call or a fuel-using helper -/
macro "mono_leaf " ih:ident : tactic =>
  `(tactic| first
    | exact Res.Le.refl _
    | apply MonoAll.evalExpr $ih | apply MonoAll.evalOptIndex $ih | apply MonoAll.evalListItems $ih
    | apply MonoAll.evalProps $ih | apply MonoAll.evalCall $ih | apply MonoAll.evalToStr $ih
    | apply MonoAll.evalToBool $ih | apply MonoAll.evalToInt $ih | apply MonoAll.evalToIndex $ih
    | apply MonoAll.interpolate $ih | apply MonoAll.evalBlock $ih | apply MonoAll.declareAll $ih
    | apply MonoAll.evalStmts $ih | apply MonoAll.evalStmt $ih | apply MonoAll.evalIf $ih
    | apply MonoAll.evalWhile $ih | apply MonoAll.evalFor $ih | apply MonoAll.bindNext $ih
    | apply MonoAll.bindProp $ih | apply MonoAll.bindRangeIndex $ih | apply MonoAll.bindList $ih
    | apply MonoAll.bindObject $ih | apply MonoAll.bindObjectProp $ih
    | exact applyBinOp_mono _ _ _ _ _ _ | exact callBuiltin_mono _ _ _ _ _
    | exact opAssignValue_mono _ _ _ _ _ | exact bindNextName_mono _ _ _ _ _ _ _ _ _
    | exact validateArgsRes_mono _ _ _)

/-- the generic step: peel `bind` / `map` / `mapErr`, split matches, close leaves -/
macro "mono_auto " ih:ident : tactic =>
  `(tactic| repeat' first
    | mono_leaf $ih
    | apply Res.Le.bind
    | intro _ _
    | (dsimp only [])
    | apply Res.Le.map
    | apply Res.Le.mapErr
    | split)

theorem monoAll_zero : MonoAll 0 := by
  constructor <;> intros <;> left
  · unfold evalExpr; rfl
  · unfold evalOptIndex; rfl
  · unfold evalListItems; rfl
  · unfold evalProps; rfl
  · unfold evalCall; rfl
  · unfold evalToStr; rfl
  · unfold evalToBool; rfl
  · unfold evalToInt; rfl
  · unfold evalToIndex; rfl
  · unfold interpolate; rfl
  · unfold evalBlock; rfl
  · unfold declareAll; rfl
  · unfold evalStmts; rfl
  · unfold evalStmt; rfl
  · unfold evalIf; rfl
  · unfold evalWhile; rfl
  · unfold evalFor; rfl
  · unfold bindNext; rfl
  · unfold bindProp; rfl
  · unfold bindRangeIndex; rfl
  · unfold bindList; rfl
  · unfold bindObject; rfl
  · unfold bindObjectProp; rfl

theorem monoAll_succ (n : Nat) (ih : MonoAll n) : MonoAll (n + 1) := by
  constructor
  · intro σ sc e; unfold_le evalExpr; mono_auto ih
  · intro σ sc e; unfold_le evalOptIndex; mono_auto ih
  · intro σ sc items acc; unfold_le evalListItems; mono_auto ih
  · intro σ sc l props acc; unfold_le evalProps; mono_auto ih
  · intro σ sc f args loc; unfold_le evalCall; mono_auto ih
  · intro σ sc d e; unfold_le evalToStr; mono_auto ih
  · intro σ sc d e; unfold_le evalToBool; mono_auto ih
  · intro σ sc d e; unfold_le evalToInt; mono_auto ih
  · intro σ sc e; unfold_le evalToIndex; mono_auto ih
  · intro σ sc s slots loc last acc; unfold_le interpolate; mono_auto ih
  · intro σ sc bs stmts; unfold_le evalBlock; mono_auto ih
  · intro σ sc bs; unfold_le declareAll; mono_auto ih
  · intro σ sc stmts; unfold_le evalStmts; mono_auto ih
  · intro σ sc st; unfold_le evalStmt; mono_auto ih
  · intro σ sc bs els; unfold_le evalIf; mono_auto ih
  · intro σ sc c stmts; unfold_le evalWhile; mono_auto ih
  · intro σ sc lhs pairs stmts; unfold_le evalFor; mono_auto ih
  · intro σ sc names lhs rhs op decl; unfold_le bindNext; mono_auto ih
  · intro σ a name loc rhs op names vi; unfold_le bindProp; mono_auto ih
  · intro σ sc a start stop loc rhsItems names; unfold_le bindRangeIndex; mono_auto ih
  · intro σ sc names items collect lhsLoc b decl i lhsLen; unfold_le bindList; mono_auto ih
  · intro σ sc names props b decl i total remaining; unfold_le bindObject; mono_auto ih
  · intro σ sc names lhs b pname ploc decl; unfold_le bindObjectProp; mono_auto ih

theorem monoAll (n : Nat) : MonoAll n := by
  induction n with
  | zero => exact monoAll_zero
  | succ n ih => exact monoAll_succ n ih

end Seed
