/-
  Lemmas/C18NodePos.lean — N1 (`node_pos`): every position the parser model stores in a syntax tree (`loc` of an
  expression node, `opLoc` of a binary operation / op-assignment, `nameLoc` of a function statement, the positions of
  `break` / `continue` / `return`) is the start position of a token of the token list the parse started from.

  All parser functions receive suffixes of that list `T`; a stored position is either `sp.start` of a consumed token
  or `headLoc r` of the remaining input `r`.  `headLoc [] = (0,0)` is not a token start, but it is handed on only as
  the `loc0` of a sub-parse without a pre-parsed atom, which fails on the empty input, so no tree containing it is
  returned: the functions that take `loc0` are stated under `LocPre` ("`loc0` is a token start unless there is no
  pre-parsed atom and no input") and promise `NE` ("there was a pre-parsed atom or some input") on success.

  Architecture of ParseMono.lean / ParseProgress.lean: one structure field per parser function, `_zero`, `_succ`.
-/
import SeedModel.Parse
namespace Seed

/-! ## the predicate -/

/-- `l` is the start position of a token of `T` -/
def LocOK (T : List Span) (l : Loc) : Prop := ∃ sp, sp ∈ T ∧ sp.start = l

mutual
/-- every position stored in the (raw) expression is the start of a token of `T` -/
inductive RawPosOK (T : List Span) : RawExpr → Prop
  | null : RawPosOK T .Null
  | bool {b : Bool} : RawPosOK T (.Bool b)
  | int {n : Int} : RawPosOK T (.Int n)
  | str {s : List Char} {slots : Option (List (Nat × Nat))} : RawPosOK T (.Str s slots)
  | var {name : List Char} : RawPosOK T (.Var name)
  | binop {op : BinaryOp} {opLoc : Loc} {lhs rhs : Expr} :
      LocOK T opLoc → PosOK T lhs → PosOK T rhs → RawPosOK T (.BinaryOp op opLoc lhs rhs)
  | list {items : List ListItem} {collect : Bool} : (∀ x, x ∈ items → ItemPosOK T x) → RawPosOK T (.List items collect)
  | index {e i : Expr} : PosOK T e → PosOK T i → RawPosOK T (.Index e i)
  | rangeIndex {e : Expr} {start stop : Option Expr} :
      PosOK T e → (∀ x, start = some x → PosOK T x) → (∀ x, stop = some x → PosOK T x) →
      RawPosOK T (.RangeIndex e start stop)
  | range {a b : Expr} : PosOK T a → PosOK T b → RawPosOK T (.Range a b)
  | object {props : List PropItem} : (∀ x, x ∈ props → PropPosOK T x) → RawPosOK T (.Object props)
  | prop {e : Expr} {name : List Char} {tp : Bool} : PosOK T e → RawPosOK T (.Prop e name tp)
  | func {args : List Expr} {collect : Bool} {stmts : List Stmt} :
      (∀ x, x ∈ args → PosOK T x) → (∀ x, x ∈ stmts → StmtPosOK T x) → RawPosOK T (.Func args collect stmts)
  | call {f : Expr} {args : List ListItem} : PosOK T f → (∀ x, x ∈ args → ItemPosOK T x) → RawPosOK T (.Call f args)
/-- the node's own `loc` and everything below -/
inductive PosOK (T : List Span) : Expr → Prop
  | mk {raw : RawExpr} {loc : Loc} : RawPosOK T raw → LocOK T loc → PosOK T (.mk raw loc)
inductive ItemPosOK (T : List Span) : ListItem → Prop
  | mk {e : Expr} {s : Bool} : PosOK T e → ItemPosOK T (.mk e s)
inductive PropPosOK (T : List Span) : PropItem → Prop
  | pair {n v : Expr} : PosOK T n → PosOK T v → PropPosOK T (.Pair n v)
  | single {e : Expr} {s c : Bool} : PosOK T e → PropPosOK T (.Single e s c)
inductive StmtPosOK (T : List Span) : Stmt → Prop
  | block {b : List Stmt} : (∀ x, x ∈ b → StmtPosOK T x) → StmtPosOK T (.Block b)
  | expr {e : Expr} : PosOK T e → StmtPosOK T (.Expr e)
  | declare {l r : Expr} : PosOK T l → PosOK T r → StmtPosOK T (.Declare l r)
  | assign {l r : Expr} : PosOK T l → PosOK T r → StmtPosOK T (.Assign l r)
  | opAssign {l r : Expr} {op : BinaryOp} {opLoc : Loc} :
      PosOK T l → LocOK T opLoc → PosOK T r → StmtPosOK T (.OpAssign l op opLoc r)
  | ifs {bs : List Branch} {els : Option (List Stmt)} :
      (∀ b, b ∈ bs → BranchPosOK T b) → (∀ s, els = some s → ∀ x, x ∈ s → StmtPosOK T x) → StmtPosOK T (.If bs els)
  | whiles {c : Expr} {s : List Stmt} : PosOK T c → (∀ x, x ∈ s → StmtPosOK T x) → StmtPosOK T (.While c s)
  | fors {l i : Expr} {s : List Stmt} : PosOK T l → PosOK T i → (∀ x, x ∈ s → StmtPosOK T x) → StmtPosOK T (.For l i s)
  | brk {loc : Loc} : LocOK T loc → StmtPosOK T (.Break loc)
  | cont {loc : Loc} : LocOK T loc → StmtPosOK T (.Continue loc)
  | func {name : List Char} {nameLoc : Loc} {args : List Expr} {collect : Bool} {stmts : List Stmt} :
      LocOK T nameLoc → (∀ x, x ∈ args → PosOK T x) → (∀ x, x ∈ stmts → StmtPosOK T x) →
      StmtPosOK T (.Func name nameLoc args collect stmts)
  | ret {loc : Loc} {e : Expr} : LocOK T loc → PosOK T e → StmtPosOK T (.Return loc e)
inductive BranchPosOK (T : List Span) : Branch → Prop
  | mk {c : Expr} {s : List Stmt} : PosOK T c → (∀ x, x ∈ s → StmtPosOK T x) → BranchPosOK T (.mk c s)
end

theorem StmtPosOK.expr_inv {T : List Span} {e : Expr} (h : StmtPosOK T (.Expr e)) : PosOK T e := by
  cases h; assumption

/-! ## suffixes of the token list -/

/-- `ts` is what remains of `T` after some tokens -/
def Suf (T ts : List Span) : Prop := ∃ p, p ++ ts = T

theorem Suf.refl (T : List Span) : Suf T T := ⟨[], rfl⟩

theorem Suf.tail {T : List Span} {sp : Span} {r : List Span} (h : Suf T (sp :: r)) : Suf T r := by
  obtain ⟨p, hp⟩ := h
  exact ⟨p ++ [sp], by simp [← hp]⟩

theorem Suf.head {T : List Span} {sp : Span} {r : List Span} (h : Suf T (sp :: r)) : LocOK T sp.start := by
  obtain ⟨p, hp⟩ := h
  exact ⟨sp, by simp [← hp], rfl⟩

/-- there is a pre-parsed atom, or some input -/
def NE (pre : Option RawExpr) (ts : List Span) : Prop := pre = none → ts ≠ []

theorem NE.of_some {a : RawExpr} {ts : List Span} : NE (some a) ts := fun h => by cases h
theorem NE.of_cons {pre : Option RawExpr} {sp : Span} {r : List Span} : NE pre (sp :: r) := fun _ h => by cases h

/-- `l` is a token start, unless the parse it is handed to is bound to fail (no atom, no input) -/
def LocPre (T : List Span) (l : Loc) (pre : Option RawExpr) (ts : List Span) : Prop := NE pre ts → LocOK T l

theorem LocPre.of_ok {T : List Span} {l : Loc} {pre : Option RawExpr} {ts : List Span} (h : LocOK T l) :
    LocPre T l pre ts := fun _ => h
theorem LocPre.elim {T : List Span} {l : Loc} {pre : Option RawExpr} {ts : List Span} (h : LocPre T l pre ts)
    (hn : NE pre ts) : LocOK T l := h hn

theorem headLoc_ok {T : List Span} {r : List Span} (h : Suf T r) (hn : NE none r) : LocOK T (headLoc r) := by
  cases r with
  | nil => exact absurd rfl (hn rfl)
  | cons sp r' => exact h.head

theorem LocPre.head {T : List Span} {r : List Span} (h : Suf T r) : LocPre T (headLoc r) none r :=
  fun hn => headLoc_ok h hn

/-! ## small facts about `∀ x ∈ l` and `∀ x, o = some x →` -/

theorem all_nil {α} {P : α → Prop} : ∀ x, x ∈ ([] : List α) → P x := fun _ h => by cases h
theorem all_cons {α} {P : α → Prop} {a : α} {l : List α} (ha : P a) (hl : ∀ x, x ∈ l → P x) :
    ∀ x, x ∈ a :: l → P x := by
  intro x hx
  rcases List.mem_cons.mp hx with rfl | hx
  · exact ha
  · exact hl x hx
theorem all_reverse {α} {P : α → Prop} {l : List α} (hl : ∀ x, x ∈ l → P x) : ∀ x, x ∈ l.reverse → P x :=
  fun x hx => hl x (List.mem_reverse.mp hx)
theorem optOK_none {α} {P : α → Prop} : ∀ x, (none : Option α) = some x → P x := fun _ h => by cases h
theorem optOK_some {α} {P : α → Prop} {a : α} (h : P a) : ∀ x, some a = some x → P x := fun _ e => by cases e; exact h

/-! ## results -/

/-- a success satisfies `Q` -/
def PRes.PosSat {α} (Q : α → List Span → Prop) : PRes α → Prop
  | .ok a rest => Q a rest
  | _ => True

namespace PRes.PosSat
theorem ok {α} {Q : α → List Span → Prop} {a : α} {rest : List Span} (h : Q a rest) : PRes.PosSat Q (.ok a rest) := h

theorem bind {α β} {Q : α → List Span → Prop} {Q' : β → List Span → Prop} {r : PRes α} {f : α → List Span → PRes β}
    (h : PRes.PosSat Q r) (hf : ∀ a ts, Q a ts → PRes.PosSat Q' (f a ts)) : PRes.PosSat Q' (r.bind f) := by
  cases r with
  | ok a rest => exact hf a rest h
  | err e => exact True.intro
  | timeout => exact True.intro

theorem map {α β} {Q : α → List Span → Prop} {Q' : β → List Span → Prop} {r : PRes α} {f : α → β}
    (h : PRes.PosSat Q r) (hf : ∀ a ts, Q a ts → Q' (f a) ts) : PRes.PosSat Q' (r.map f) := by
  cases r with
  | ok a rest => exact hf a rest h
  | err e => exact True.intro
  | timeout => exact True.intro

theorem mono {α} {Q Q' : α → List Span → Prop} {r : PRes α} (hq : ∀ a ts, Q a ts → Q' a ts) (h : PRes.PosSat Q r) :
    PRes.PosSat Q' r := by
  cases r with
  | ok a rest => exact hq a rest h
  | err e => exact True.intro
  | timeout => exact True.intro

theorem elim {α} {Q : α → List Span → Prop} {r : PRes α} {a : α} {rest : List Span} (h : PRes.PosSat Q r)
    (hr : r = .ok a rest) : Q a rest := by
  subst hr; exact h
end PRes.PosSat

theorem expectTok_pos {T : List Span} (t : Token) (ts : List Span) (h : Suf T ts) :
    PRes.PosSat (fun _ rest => Suf T rest) (expectTok t ts) := by
  unfold expectTok
  split
  · exact True.intro
  · split
    · exact h.tail
    · exact True.intro

theorem expectIdent_pos {T : List Span} (ts : List Span) (h : Suf T ts) :
    PRes.PosSat (fun _ rest => Suf T rest) (expectIdent ts) := by
  unfold expectIdent
  split
  · exact True.intro
  · split
    · exact h.tail
    · exact True.intro

/-! ## the statement, one field per parser function -/

structure PosAll (T : List Span) (n : Nat) : Prop where
  parseAtom : ∀ pre ts, Suf T ts → (∀ x, pre = some x → RawPosOK T x) →
    PRes.PosSat (fun a rest => Suf T rest ∧ RawPosOK T a ∧ NE pre ts) (parseAtom n pre ts)
  parsePostfix : ∀ l pre ts, Suf T ts → (∀ x, pre = some x → RawPosOK T x) → LocPre T l pre ts →
    PRes.PosSat (fun a rest => Suf T rest ∧ RawPosOK T a ∧ NE pre ts) (parsePostfix n l pre ts)
  postfixLoop : ∀ l acc ts, Suf T ts → LocOK T l → RawPosOK T acc →
    PRes.PosSat (fun a rest => Suf T rest ∧ RawPosOK T a) (postfixLoop n l acc ts)
  parseIndexTail : ∀ e ts, Suf T ts → PosOK T e →
    PRes.PosSat (fun a rest => Suf T rest ∧ RawPosOK T a) (parseIndexTail n e ts)
  parseRangeEnd : ∀ e s ts, Suf T ts → PosOK T e → (∀ x, s = some x → PosOK T x) →
    PRes.PosSat (fun a rest => Suf T rest ∧ RawPosOK T a) (parseRangeEnd n e s ts)
  parseTier : ∀ k l pre ts, Suf T ts → (∀ x, pre = some x → RawPosOK T x) → LocPre T l pre ts →
    PRes.PosSat (fun a rest => Suf T rest ∧ RawPosOK T a ∧ NE pre ts) (parseTier n k l pre ts)
  tierLoop : ∀ k l acc ts, Suf T ts → LocOK T l → RawPosOK T acc →
    PRes.PosSat (fun a rest => Suf T rest ∧ RawPosOK T a) (tierLoop n k l acc ts)
  parseExpr1 : ∀ s l pre ts, Suf T ts → (∀ x, pre = some x → RawPosOK T x) → LocPre T l pre ts →
    PRes.PosSat (fun a rest => Suf T rest ∧ RawPosOK T a ∧ NE pre ts) (parseExpr1 n s l pre ts)
  rangeLoop : ∀ s l acc ts, Suf T ts → LocOK T l → RawPosOK T acc →
    PRes.PosSat (fun a rest => Suf T rest ∧ RawPosOK T a) (rangeLoop n s l acc ts)
  parseExpr : ∀ s ts, Suf T ts → PRes.PosSat (fun a rest => Suf T rest ∧ PosOK T a) (parseExpr n s ts)
  parseArgs : ∀ acc ts, Suf T ts → (∀ x, x ∈ acc → ItemPosOK T x) →
    PRes.PosSat (fun a rest => Suf T rest ∧ ∀ x, x ∈ a → ItemPosOK T x) (parseArgs n acc ts)
  parseExprList : ∀ acc ts, Suf T ts → (∀ x, x ∈ acc → ItemPosOK T x) →
    PRes.PosSat (fun a rest => Suf T rest ∧ ∀ x, x ∈ a.1 → ItemPosOK T x) (parseExprList n acc ts)
  parseParams : ∀ acc ts, Suf T ts → (∀ x, x ∈ acc → PosOK T x) →
    PRes.PosSat (fun a rest => Suf T rest ∧ ∀ x, x ∈ a.1 → PosOK T x) (parseParams n acc ts)
  parsePropItems : ∀ acc ts, Suf T ts → (∀ x, x ∈ acc → PropPosOK T x) →
    PRes.PosSat (fun a rest => Suf T rest ∧ ∀ x, x ∈ a → PropPosOK T x) (parsePropItems n acc ts)
  parsePropTail : ∀ acc ts, Suf T ts → (∀ x, x ∈ acc → PropPosOK T x) →
    PRes.PosSat (fun a rest => Suf T rest ∧ ∀ x, x ∈ a → PropPosOK T x) (parsePropTail n acc ts)
  parseBlock : ∀ ts, Suf T ts →
    PRes.PosSat (fun a rest => Suf T rest ∧ ∀ x, x ∈ a → StmtPosOK T x) (parseBlock n ts)
  parseStmts : ∀ c acc ts, Suf T ts → (∀ x, x ∈ acc → StmtPosOK T x) →
    PRes.PosSat (fun a rest => Suf T rest ∧ ∀ x, x ∈ a → StmtPosOK T x) (parseStmts n c acc ts)
  parseIf : ∀ ts, Suf T ts →
    PRes.PosSat (fun a rest => Suf T rest ∧ (∀ b, b ∈ a.1 → BranchPosOK T b) ∧
      (∀ s, a.2 = some s → ∀ x, x ∈ s → StmtPosOK T x)) (parseIf n ts)
  parseStmtTail : ∀ lhs ts, Suf T ts → PosOK T lhs →
    PRes.PosSat (fun a rest => Suf T rest ∧ StmtPosOK T a) (parseStmtTail n lhs ts)
  parseExprStmt : ∀ amb l pre ts, Suf T ts → (∀ x, pre = some x → RawPosOK T x) → LocOK T l →
    PRes.PosSat (fun a rest => Suf T rest ∧ StmtPosOK T a) (parseExprStmt n amb l pre ts)
  parseRawStmt : ∀ amb ts, Suf T ts →
    PRes.PosSat (fun a rest => Suf T rest ∧ StmtPosOK T a) (parseRawStmt n amb ts)
  parseBraceStmt : ∀ amb l ts, Suf T ts → LocOK T l →
    PRes.PosSat (fun a rest => Suf T rest ∧ StmtPosOK T a) (parseBraceStmt n amb l ts)

/-! ## automation -/

/-- side conditions: suffixes, token starts, the `OK` predicates by their constructors -/
syntax "pos_side" : tactic
macro_rules
  | `(tactic| pos_side) => `(tactic| first
    | assumption
    | exact Suf.tail (by assumption)
    | exact Suf.tail (Suf.tail (by assumption))
    | exact Suf.tail (Suf.tail (Suf.tail (by assumption)))
    | exact Suf.head (by assumption)
    | exact Suf.head (Suf.tail (by assumption))
    | exact Suf.head (Suf.tail (Suf.tail (by assumption)))
    | exact LocPre.of_ok (by assumption)
    | (refine LocPre.head ?_; pos_side)
    | exact LocPre.elim (by assumption) (by assumption)
    | (refine headLoc_ok ?_ (by assumption); pos_side)
    | exact NE.of_some
    | exact NE.of_cons
    | exact optOK_none
    | (refine optOK_some ?_; pos_side)
    | exact (‹∀ x, some _ = some x → _› _ rfl)
    | exact all_nil
    | (refine all_reverse ?_; pos_side)
    | (refine all_cons ?_ ?_ <;> pos_side)
    | exact StmtPosOK.expr_inv (by assumption)
    | (constructor <;> pos_side))

/-- the statement of a (sub-)call as the induction hypothesis has it, side conditions discharged -/
macro "pos_call " ih:ident : tactic =>
  `(tactic| ((with_reducible first
    | apply PosAll.parseAtom $ih | apply PosAll.parsePostfix $ih | apply PosAll.postfixLoop $ih
    | apply PosAll.parseIndexTail $ih | apply PosAll.parseRangeEnd $ih | apply PosAll.parseTier $ih
    | apply PosAll.tierLoop $ih | apply PosAll.parseExpr1 $ih | apply PosAll.rangeLoop $ih
    | apply PosAll.parseExpr $ih | apply PosAll.parseArgs $ih | apply PosAll.parseExprList $ih
    | apply PosAll.parseParams $ih | apply PosAll.parsePropItems $ih | apply PosAll.parsePropTail $ih
    | apply PosAll.parseBlock $ih | apply PosAll.parseStmts $ih | apply PosAll.parseIf $ih
    | apply PosAll.parseStmtTail $ih | apply PosAll.parseExprStmt $ih | apply PosAll.parseRawStmt $ih
    | apply PosAll.parseBraceStmt $ih
    | apply expectTok_pos | apply expectIdent_pos) <;> pos_side))

/-- split every conjunction in the context -/
macro "and_split" : tactic => `(tactic| repeat (cases ‹_ ∧ _›))

/-- a success leaf -/
macro "pos_leaf" : tactic =>
  `(tactic| ((try apply PRes.PosSat.ok); (try dsimp only []); (repeat' (with_reducible apply And.intro)) <;> pos_side))

macro "pos_auto " ih:ident : tactic =>
  `(tactic| repeat' first
    | exact True.intro
    | (apply PRes.PosSat.bind (by pos_call $ih))
    | (apply PRes.PosSat.map (by pos_call $ih))
    | (apply PRes.PosSat.mono ?_ (by pos_call $ih))
    | (intro _ _ _; and_split)
    | pos_leaf
    | (dsimp only [])
    | split)

theorem posAll_zero (T : List Span) : PosAll T 0 := by
  constructor <;> intros
  · unfold parseAtom; exact True.intro
  · unfold parsePostfix; exact True.intro
  · unfold postfixLoop; exact True.intro
  · unfold parseIndexTail; exact True.intro
  · unfold parseRangeEnd; exact True.intro
  · unfold parseTier; exact True.intro
  · unfold tierLoop; exact True.intro
  · unfold parseExpr1; exact True.intro
  · unfold rangeLoop; exact True.intro
  · unfold parseExpr; exact True.intro
  · unfold parseArgs; exact True.intro
  · unfold parseExprList; exact True.intro
  · unfold parseParams; exact True.intro
  · unfold parsePropItems; exact True.intro
  · unfold parsePropTail; exact True.intro
  · unfold parseBlock; exact True.intro
  · unfold parseStmts; exact True.intro
  · unfold parseIf; exact True.intro
  · unfold parseStmtTail; exact True.intro
  · unfold parseExprStmt; exact True.intro
  · unfold parseRawStmt; exact True.intro
  · unfold parseBraceStmt; exact True.intro

theorem posAll_succ (T : List Span) (n : Nat) (ih : PosAll T n) : PosAll T (n + 1) := by
  constructor
  · intro pre ts hs hp; (conv => arg 2; unfold parseAtom); pos_auto ih
  · intro l pre ts hs hp hl; (conv => arg 2; unfold parsePostfix); pos_auto ih
  · intro l acc ts hs hl ha; (conv => arg 2; unfold postfixLoop); pos_auto ih
  · intro e ts hs he; (conv => arg 2; unfold parseIndexTail); pos_auto ih
  · intro e s ts hs he hso; (conv => arg 2; unfold parseRangeEnd); pos_auto ih
  · intro k l pre ts hs hp hl; (conv => arg 2; unfold parseTier); pos_auto ih
  · intro k l acc ts hs hl ha; (conv => arg 2; unfold tierLoop); pos_auto ih
  · intro s l pre ts hs hp hl; (conv => arg 2; unfold parseExpr1); pos_auto ih
  · intro s l acc ts hs hl ha; (conv => arg 2; unfold rangeLoop); pos_auto ih
  · intro s ts hs; (conv => arg 2; unfold parseExpr); pos_auto ih
  · intro acc ts hs ha; (conv => arg 2; unfold parseArgs); pos_auto ih
  · intro acc ts hs ha; (conv => arg 2; unfold parseExprList); pos_auto ih
  · intro acc ts hs ha; (conv => arg 2; unfold parseParams); pos_auto ih
  · intro acc ts hs ha; (conv => arg 2; unfold parsePropItems); pos_auto ih
  · intro acc ts hs ha; (conv => arg 2; unfold parsePropTail); pos_auto ih
  · intro ts hs; (conv => arg 2; unfold parseBlock); pos_auto ih
  · intro c acc ts hs ha; (conv => arg 2; unfold parseStmts); pos_auto ih
  · intro ts hs; (conv => arg 2; unfold parseIf); pos_auto ih
  · intro lhs ts hs hl; (conv => arg 2; unfold parseStmtTail); pos_auto ih
  · intro amb l pre ts hs hp hl; (conv => arg 2; unfold parseExprStmt); pos_auto ih
  · intro amb ts hs; (conv => arg 2; unfold parseRawStmt); pos_auto ih
  · intro amb l ts hs hl; (conv => arg 2; unfold parseBraceStmt); pos_auto ih

theorem posAll (T : List Span) (n : Nat) : PosAll T n := by
  induction n with
  | zero => exact posAll_zero T
  | succ n ih => exact posAll_succ T n ih

/-! ## plain forms -/

/-- an expression parsed from `ts` stores only token starts of `ts` (and what is left is a suffix of `ts`) -/
theorem parseExpr_node_pos {n : Nat} {s : Bool} {ts rest : List Span} {e : Expr} (h : parseExpr n s ts = .ok e rest) :
    PosOK ts e ∧ Suf ts rest := by
  have := ((posAll ts n).parseExpr s ts (Suf.refl ts)).elim h
  exact ⟨this.2, this.1⟩

/-- the same for a statement list -/
theorem parseStmts_node_pos {n : Nat} {c : Bool} {ts rest : List Span} {stmts : List Stmt}
    (h : parseStmts n c [] ts = .ok stmts rest) : (∀ st, st ∈ stmts → StmtPosOK ts st) ∧ Suf ts rest := by
  have := ((posAll ts n).parseStmts c [] ts (Suf.refl ts) all_nil).elim h
  exact ⟨this.2, this.1⟩

/-- … and for every function of the expression sub-parser started without a pre-parsed atom at `loc0 = headLoc ts` -/
theorem parseExpr1_node_pos {n : Nat} {s : Bool} {ts rest : List Span} {e : RawExpr}
    (h : parseExpr1 n s (headLoc ts) none ts = .ok e rest) : RawPosOK ts e ∧ Suf ts rest := by
  have := ((posAll ts n).parseExpr1 s (headLoc ts) none ts (Suf.refl ts) optOK_none (LocPre.head (Suf.refl ts))).elim h
  exact ⟨this.2.1, this.1⟩

/-- **N1 (`node_pos`).** every position stored in the syntax tree of a program is the start position of a token of
    the program's token stream -/
theorem node_pos {src : List Char} {stmts : List Stmt} (h : parseProg src = .ok stmts) :
    ∀ st, st ∈ stmts → StmtPosOK (lexAll src).1 st := by
  unfold parseProg at h
  generalize lexAll src = p at h ⊢
  obtain ⟨ts, le⟩ := p
  simp only at h
  cases hp : parseStmts (parseFuel ts) false [] ts with
  | timeout => rw [hp] at h; cases h
  | err e => rw [hp] at h; cases h
  | ok a rest =>
    rw [hp] at h
    cases le with
    | some e => cases h
    | none =>
      simp only [Front.ok.injEq] at h
      subst h
      exact (parseStmts_node_pos hp).1

/-- the same for the expression entry point (interpolation slots) -/
theorem node_pos_expr {src : List Char} {e : Expr} (h : parseExprTop src = .ok e) : PosOK (lexAll src).1 e := by
  unfold parseExprTop at h
  generalize lexAll src = p at h ⊢
  obtain ⟨ts, le⟩ := p
  simp only at h
  cases hp : parseExpr (parseFuel ts) false ts with
  | timeout => rw [hp] at h; cases h
  | err e => rw [hp] at h; cases h
  | ok a rest =>
    rw [hp] at h
    cases rest with
    | cons sp r => cases h
    | nil =>
      cases le with
      | some e => cases h
      | none =>
        simp only [Front.ok.injEq] at h
        subst h
        exact (parseExpr_node_pos hp).1

/-- the hypotheses are satisfiable: a parse, through the lexer, and one of the facts it gives -/
example : ∃ e, parseExprTop c!"a + f(b)[1]" = .ok e ∧ PosOK (lexAll c!"a + f(b)[1]").1 e :=
  ⟨_, rfl, node_pos_expr rfl⟩

/-- `headLoc [] = (0,0)` is handed to sub-parsers, but never reaches a tree: the positions of a tree parsed from the
    empty token list … there is no such tree -/
theorem parseExpr_nil (n : Nat) (s : Bool) (e : Expr) (rest : List Span) : parseExpr n s [] ≠ .ok e rest := by
  intro h
  cases n with
  | zero => simp [parseExpr] at h
  | succ n =>
    have := ((posAll [] n).parseExpr1 s (headLoc []) none [] (Suf.refl []) optOK_none (LocPre.head (Suf.refl [])))
    unfold parseExpr at h
    cases hp : parseExpr1 n s (headLoc []) none [] with
    | ok a r =>
      exact (this.elim hp).2.2 rfl rfl
    | err e => rw [hp] at h; cases h
    | timeout => rw [hp] at h; cases h

end Seed
