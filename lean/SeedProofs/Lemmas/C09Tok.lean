/-
  Lemmas/C09Tok.lean — `nextToken_local` (see C09Local.lean for the statement in words), class by class:
  string literals, symbols, then identifiers / numbers / terminators inside `tokBody_local`.
-/
import SeedModel.Lex
import SeedProofs.Lemmas.Scan
import SeedProofs.Lemmas.C09Pos
import SeedProofs.Lemmas.C09Layout
import SeedProofs.Lemmas.C09Local
namespace Seed.C09
open Seed

/-! ### string literals -/

theorem strLoop_rest_length_le {interp : Bool} {r : List Char} {l c : Nat} {a a' : StrAcc} {s' : Scanner}
    (h : strLoop interp r l c a = .ok (a', s')) : s'.rest.length ≤ r.length := by
  obtain ⟨n, hn⟩ := strLoop_ok_advance h
  rw [hn, Scanner.advance_rest, List.length_drop]
  exact Nat.sub_le _ _

theorem strLoop_cons_rest_length_le {interp : Bool} {ch : Char} {r : List Char} {l c : Nat}
    {a a' : StrAcc} {s' : Scanner}
    (h : strLoop interp (ch :: r) l c a = .ok (a', s')) : s'.rest.length ≤ r.length := by
  unfold strLoop at h
  simp only at h
  split at h
  · cases h
  · injection h with h; injection h with _ h
    rw [← h]; exact Nat.le_refl _
  · exact strLoop_rest_length_le h

theorem accK_ok {r : Except LexError (StrAcc × Scanner)} {a : StrAcc} {x : List Char}
    (h : accK r = .ok (a, x)) : ∃ s', r = .ok (a, s') ∧ s'.rest = x := by
  cases r with
  | error e => cases h
  | ok p =>
    obtain ⟨a', s'⟩ := p
    simp only [accK, Except.ok.injEq, Prod.mk.injEq] at h
    exact ⟨s', by rw [h.1], h.2⟩

/-- a string literal that was closed inside `a1` (something, `x ≠ []`, is left over) is closed at the
    same place whatever follows -/
theorem strLoop_local (interp : Bool) (a1 x y : List Char) (hx : x ≠ []) (l c l' c' : Nat)
    (acc acc' : StrAcc) (h : accK (strLoop interp (a1 ++ x) l c acc) = .ok (acc', x)) :
    accK (strLoop interp (a1 ++ y) l' c' acc) = .ok (acc', y) := by
  induction a1 generalizing l c l' c' acc with
  | nil =>
    exfalso
    obtain ⟨s', h1, h2⟩ := accK_ok h
    cases x with
    | nil => exact hx rfl
    | cons ch r =>
      have := strLoop_cons_rest_length_le h1
      rw [h2] at this
      simp only [List.length_cons] at this
      omega
  | cons ch a2 ih =>
    have hs := strStep_indep interp acc ch (l, c) (l', c')
    simp only [List.cons_append] at h ⊢
    unfold strLoop at h ⊢
    simp only at h ⊢
    cases h1 : strStep interp acc ch (l, c) <;> cases h2 : strStep interp acc ch (l', c') <;>
      rw [h1, h2] at hs <;> simp only [stepK, StrStep.cont.injEq, StrStep.done.injEq,
        StrStep.fail.injEq, reduceCtorEq] at hs
    · subst hs
      rw [h1] at h
      exact ih _ _ _ _ _ h
    · subst hs
      rw [h1] at h
      simp only [accK, Except.ok.injEq, Prod.mk.injEq] at h ⊢
      obtain ⟨e1, e2⟩ := h
      have := append_eq_self_left e2
      subst this
      exact ⟨e1, rfl⟩
    · rw [h1] at h
      cases h

/-- the token a finished string loop yields -/
def strTok (interp : Bool) (a : StrAcc) : Token :=
  if interp then Token.InterpStrLiteral a.chars.reverse a.slots.reverse
  else Token.StrLiteral a.chars.reverse

theorem isStrTok_strTok (interp : Bool) (a : StrAcc) : isStrTok (strTok interp a) = true := by
  unfold strTok; split <;> rfl

theorem exK_lexStr (interp : Bool) (s : Scanner) :
    exK (lexStr interp s) =
      match accK (strLoop interp s.next.rest s.next.line s.next.col StrAcc.init) with
      | .error e => .error e
      | .ok (a, r) => .ok (strTok interp a, r) := by
  unfold lexStr
  simp only
  cases h : strLoop interp s.next.rest s.next.line s.next.col StrAcc.init with
  | error e => rfl
  | ok p =>
    obtain ⟨a, s'⟩ := p
    simp only [accK, strTok]
    split <;> rfl

theorem exK_lexStr_ok {interp : Bool} {s : Scanner} {t : Token} {x : List Char}
    (h : exK (lexStr interp s) = .ok (t, x)) :
    ∃ a, accK (strLoop interp s.next.rest s.next.line s.next.col StrAcc.init) = .ok (a, x) ∧
      t = strTok interp a := by
  rw [exK_lexStr] at h
  cases h1 : accK (strLoop interp s.next.rest s.next.line s.next.col StrAcc.init) with
  | error e => rw [h1] at h; cases h
  | ok p =>
    obtain ⟨a, r⟩ := p
    rw [h1] at h
    simp only [Except.ok.injEq, Prod.mk.injEq] at h
    exact ⟨a, by rw [h.2], h.1.symm⟩

theorem lexStr_local (interp : Bool) (q : Char) (a2 x y : List Char) (hx : x ≠ []) (l c l' c' : Nat)
    (t : Token) (h : exK (lexStr interp ⟨q :: (a2 ++ x), l, c⟩) = .ok (t, x)) :
    exK (lexStr interp ⟨q :: (a2 ++ y), l', c'⟩) = .ok (t, y) := by
  obtain ⟨a, h1, h2⟩ := exK_lexStr_ok h
  rw [exK_lexStr]
  simp only [Scanner.next_mk_cons] at h1 ⊢
  rw [strLoop_local interp a2 x y hx _ _ _ _ _ _ h1, h2]

theorem exK_ok {r : Except LexError (Token × Scanner)} {t : Token} {x : List Char}
    (h : exK r = .ok (t, x)) : ∃ s', r = .ok (t, s') ∧ s'.rest = x := by
  cases r with
  | error e => cases h
  | ok p =>
    obtain ⟨t', s'⟩ := p
    simp only [exK, Except.ok.injEq, Prod.mk.injEq] at h
    exact ⟨s', by rw [h.1], h.2⟩

/-- a string literal consumes at least its opening character -/
theorem lexStr_rest_length_lt {interp : Bool} {s : Scanner} {t : Token} {x : List Char}
    (h : exK (lexStr interp s) = .ok (t, x)) (hs : s.rest ≠ []) : x.length < s.rest.length := by
  obtain ⟨s', h1, h2⟩ := exK_ok h
  obtain ⟨n, hn, e⟩ := lexStr_ok_advance h1
  rw [← h2, e, Scanner.advance_rest, List.length_drop]
  have : 0 < s.rest.length := List.length_pos_iff.mpr hs
  omega

/-! ### symbols -/

/-- `lexSym` as a function of the two characters after `c1` (if any): the token and the number of
    characters consumed -/
def symCore (c1 : Char) (o2 o3 : Option Char) : Option Token × Nat :=
  match matchSingle c1 with
  | none =>
    match o2 with
    | none => (none, 1)
    | some c2 =>
      match matchDouble c1 c2 with
      | none =>
        match o3 with
        | none => (none, 2)
        | some c3 => (matchTriple c1 c2 c3, 3)
      | some t =>
        match o3 with
        | none => (some t, 2)
        | some c3 =>
          match matchTriple c1 c2 c3 with
          | none => (some t, 2)
          | some t3 => (some t3, 3)
  | some t =>
    match o2 with
    | none => (some t, 1)
    | some c2 =>
      match matchDouble c1 c2 with
      | none => (some t, 1)
      | some t2 =>
        match o3 with
        | none => (some t2, 2)
        | some c3 =>
          match matchTriple c1 c2 c3 with
          | none => (some t2, 2)
          | some t3 => (some t3, 3)

theorem lexSym_eq_symCore (c1 : Char) (s : Scanner) :
    lexSym c1 s = ((symCore c1 (s.rest.drop 1).head? (s.rest.drop 2).head?).1,
      s.advance (symCore c1 (s.rest.drop 1).head? (s.rest.drop 2).head?).2) := by
  obtain ⟨r, l, c⟩ := s
  rcases r with _ | ⟨a, _ | ⟨b, _ | ⟨d, r⟩⟩⟩ <;>
    simp only [lexSym, lexMultiSym, symCore, Scanner.next, Scanner.peek, List.head?, List.drop] <;>
    cases matchSingle c1 <;> simp only <;>
    (try cases matchDouble c1 b <;> simp only) <;>
    (try cases matchTriple c1 b d <;> simp only) <;>
    rfl

/-- the consumed count is at least 1 and never runs past the available characters -/
theorem symCore_count (c1 : Char) (o2 o3 : Option Char) :
    1 ≤ (symCore c1 o2 o3).2 ∧ (symCore c1 o2 o3).2 ≤ 3 ∧
    (o2 = none → (symCore c1 o2 o3).2 = 1) ∧ (o3 = none → (symCore c1 o2 o3).2 ≤ 2) := by
  unfold symCore
  repeat' split
  all_goals simp_all

/-- the lookahead condition on the next character -/
def OptEndsLike (o o' : Option Char) : Prop := o = o' ∨ ∃ e, o' = some e ∧ isSep e

theorem symCore_local1 (c1 : Char) (o2 o3 o2' o3' : Option Char) (t : Token)
    (h1 : (symCore c1 o2 o3).1 = some t) (h2 : (symCore c1 o2 o3).2 = 1) (he : OptEndsLike o2 o2') :
    (symCore c1 o2' o3').1 = some t ∧ (symCore c1 o2' o3').2 = 1 := by
  rcases he with rfl | ⟨e, rfl, hsep⟩
  · revert h1 h2
    unfold symCore
    repeat' split
    all_goals simp_all
  · have hD := matchDouble_sep c1 hsep
    revert h1 h2
    simp only [symCore, hD]
    repeat' split
    all_goals simp_all

theorem symCore_local2 (c1 c2 : Char) (o3 o3' : Option Char) (t : Token)
    (h1 : (symCore c1 (some c2) o3).1 = some t) (h2 : (symCore c1 (some c2) o3).2 = 2)
    (he : OptEndsLike o3 o3') :
    (symCore c1 (some c2) o3').1 = some t ∧ (symCore c1 (some c2) o3').2 = 2 := by
  rcases he with rfl | ⟨e, rfl, hsep⟩
  · exact ⟨h1, h2⟩
  · have hT := matchTriple_sep c1 c2 hsep
    revert h1 h2
    simp only [symCore, hT]
    repeat' split
    all_goals simp_all

/-- the lookahead condition: `y` starts like `x`, or with a separator -/
def EndsLike (x y : List Char) : Prop := x.head? = y.head? ∨ ∃ e y', y = e :: y' ∧ isSep e

theorem EndsLike.opt {x y : List Char} (h : EndsLike x y) : OptEndsLike x.head? y.head? := by
  rcases h with h | ⟨e, y', rfl, hs⟩
  · exact Or.inl h
  · exact Or.inr ⟨e, rfl, hs⟩

theorem lexSym_local (c1 c0 : Char) (a1 x y : List Char) (l c l' c' : Nat) (t : Token)
    (h1 : (lexSym c1 ⟨c0 :: (a1 ++ x), l, c⟩).1 = some t)
    (h2 : (lexSym c1 ⟨c0 :: (a1 ++ x), l, c⟩).2.rest.length = x.length)
    (he : EndsLike x y) :
    (lexSym c1 ⟨c0 :: (a1 ++ y), l', c'⟩).1 = some t ∧
      (lexSym c1 ⟨c0 :: (a1 ++ y), l', c'⟩).2.rest = y := by
  rw [lexSym_eq_symCore] at h1 h2 ⊢
  simp only [Scanner.advance_rest, List.length_drop, List.length_cons, List.length_append,
    List.drop_succ_cons, List.drop_zero] at h1 h2 ⊢
  rcases a1 with _ | ⟨c2, _ | ⟨c3, _ | ⟨c4, a4⟩⟩⟩
  · simp only [List.nil_append, List.length_nil] at h1 h2 ⊢
    obtain ⟨k1, k2, k3, k4⟩ := symCore_count c1 x.head? (x.drop 1).head?
    have hk : (symCore c1 x.head? (x.drop 1).head?).2 = 1 := by
      cases x with
      | nil => exact k3 rfl
      | cons d x => simp only [List.length_cons] at h2; omega
    obtain ⟨r1, r2⟩ := symCore_local1 c1 _ _ y.head? (y.drop 1).head? t h1 hk he.opt
    rw [r2]
    exact ⟨r1, rfl⟩
  · simp only [List.cons_append, List.nil_append, List.head?_cons, List.drop_succ_cons, List.drop_zero,
      List.length_cons, List.length_nil] at h1 h2 ⊢
    obtain ⟨k1, k2, k3, k4⟩ := symCore_count c1 (some c2) x.head?
    have hk : (symCore c1 (some c2) x.head?).2 = 2 := by
      cases x with
      | nil =>
        have := k4 rfl
        simp only [List.head?_nil, List.length_nil] at h2 this ⊢
        omega
      | cons d x => simp only [List.length_cons] at h2; omega
    obtain ⟨r1, r2⟩ := symCore_local2 c1 c2 _ y.head? t h1 hk he.opt
    rw [r2]
    exact ⟨r1, rfl⟩
  · simp only [List.cons_append, List.nil_append, List.head?_cons, List.drop_succ_cons, List.drop_zero,
      List.length_cons, List.length_nil] at h1 h2 ⊢
    obtain ⟨k1, k2, k3, k4⟩ := symCore_count c1 (some c2) (some c3)
    have hk : (symCore c1 (some c2) (some c3)).2 = 3 := by omega
    rw [hk]
    exact ⟨h1, rfl⟩
  · exfalso
    simp only [List.cons_append, List.head?_cons, List.drop_succ_cons, List.drop_zero,
      List.length_cons] at h1 h2
    obtain ⟨k1, k2, k3, k4⟩ := symCore_count c1 (some c2) (some c3)
    omega

/-! ### one token -/

theorem EndsLike.takeWhile_cond {x y : List Char} (he : EndsLike x y) {P : Char → Bool}
    (hP : ∀ e, isSep e → P e = false) : ∀ e, y.head? = some e → (x.head? = some e ∨ P e = false) := by
  intro e hy
  rcases he with h | ⟨e', y', rfl, hs⟩
  · exact Or.inl (by rw [h, hy])
  · simp only [List.head?_cons, Option.some.injEq] at hy
    subst hy
    exact Or.inr (hP _ hs)

theorem drop_length_cons_append (ch : Char) (a1 y : List Char) :
    (ch :: (a1 ++ y)).drop (ch :: a1).length = y := by
  simp

theorem tokBody_local (ch : Char) (a1 x y : List Char) (l c l' c' : Nat) (t : Token)
    (h : exK (tokBody ch ⟨ch :: (a1 ++ x), l, c⟩) = .ok (t, x))
    (he : EndsLike x y) (hstr : x = [] → y = [] ∨ isStrTok t = false) :
    exK (tokBody ch ⟨ch :: (a1 ++ y), l', c'⟩) = .ok (t, y) := by
  by_cases hxy : y = x
  · subst hxy
    rw [← h]
    exact tokBody_indep ch rfl
  -- a string token here was closed inside `a1`
  have hx_of_str : isStrTok t = true → x ≠ [] := by
    intro ht hx
    rcases hstr hx with h1 | h1
    · exact hxy (by rw [h1, hx])
    · rw [ht] at h1; cases h1
  unfold tokBody at h ⊢
  by_cases hc1 : (ch = '\n' || ch = ';') = true
  · simp only [hc1, if_true, exK, Scanner.next_mk_cons, Except.ok.injEq, Prod.mk.injEq] at h ⊢
    have := append_eq_self_left h.2
    subst this
    exact ⟨h.1, rfl⟩
  simp only [Bool.eq_false_iff.mpr hc1, Bool.false_eq_true, if_false] at h ⊢
  by_cases hc2 : (isAsciiAlpha ch || ch = '_') = true
  · simp only [hc2, if_true, exK, Scanner.advance_rest, Except.ok.injEq, Prod.mk.injEq] at h ⊢
    obtain ⟨r1, r2⟩ := takeWhile_local (P := isIdentChar) (a := ch :: a1) (x := x) (y := y) h.2
      (he.takeWhile_cond (fun e hs => isIdentChar_sep hs))
    have e1 : (ch :: (a1 ++ x)).takeWhile isIdentChar = ch :: a1 := r1
    have e2 : (ch :: (a1 ++ y)).takeWhile isIdentChar = ch :: a1 := r2
    rw [e1] at h
    rw [e2]
    exact ⟨h.1, drop_length_cons_append ch a1 y⟩
  simp only [Bool.eq_false_iff.mpr hc2, Bool.false_eq_true, if_false] at h ⊢
  by_cases hc3 : isAsciiDigit ch = true
  · simp only [hc3, if_true] at h ⊢
    unfold lexInt at h ⊢
    simp only at h ⊢
    split at h
    · next hle =>
      simp only [exK, Scanner.advance_rest, Except.ok.injEq, Prod.mk.injEq] at h
      obtain ⟨r1, r2⟩ := takeWhile_local (P := isIntChar) (a := ch :: a1) (x := x) (y := y) h.2
        (he.takeWhile_cond (fun e hs => isIntChar_sep hs))
      have e1 : (ch :: (a1 ++ x)).takeWhile isIntChar = ch :: a1 := r1
      have e2 : (ch :: (a1 ++ y)).takeWhile isIntChar = ch :: a1 := r2
      rw [e1] at h hle
      rw [e2]
      simp only [hle, if_true, exK, Scanner.advance_rest, Except.ok.injEq, Prod.mk.injEq]
      exact ⟨h.1, drop_length_cons_append ch a1 y⟩
    · cases h
  simp only [Bool.eq_false_iff.mpr hc3, Bool.false_eq_true, if_false] at h ⊢
  by_cases hc4 : ch = '"'
  · simp only [hc4, if_true] at h ⊢
    obtain ⟨a, _, ht⟩ := exK_lexStr_ok h
    have hx : x ≠ [] := hx_of_str (by rw [ht]; exact isStrTok_strTok _ _)
    exact lexStr_local false _ a1 x y hx l c l' c' t h
  simp only [hc4, if_false] at h ⊢
  by_cases hc5 : ch = '$'
  · simp only [hc5, if_true, Scanner.next_mk_cons] at h ⊢
    obtain ⟨a, _, ht⟩ := exK_lexStr_ok h
    have hx : x ≠ [] := hx_of_str (by rw [ht]; exact isStrTok_strTok _ _)
    cases a1 with
    | nil =>
      exfalso
      have := lexStr_rest_length_lt h (by simpa using hx)
      simp only [List.nil_append] at this
      omega
    | cons q a2 => exact lexStr_local true q a2 x y hx _ _ _ _ t h
  simp only [hc5, if_false] at h ⊢
  cases hsym : lexSym ch ⟨ch :: (a1 ++ x), l, c⟩ with
  | mk o s' =>
    rw [hsym] at h
    cases o with
    | none => cases h
    | some t0 =>
      simp only [exK, Except.ok.injEq, Prod.mk.injEq] at h
      obtain ⟨r1, r2⟩ := lexSym_local ch ch a1 x y l c l' c' t (by rw [hsym, h.1]) (by rw [hsym, h.2]) he
      cases hy : lexSym ch ⟨ch :: (a1 ++ y), l', c'⟩ with
      | mk o' s'' =>
        rw [hy] at r1 r2
        simp only at r1 r2
        subst r1
        simp only [exK, r2]

/-- **token locality**: a token is determined by its own characters and by how the text after it
    starts; a separator there is as good as whatever followed before — except after an unterminated
    string literal at the end of input (`x = []`), which would swallow `y` -/
theorem nextToken_local {a x y : List Char} {t : Token} (l c l' c' : Nat)
    (h : kind (nextToken ⟨a ++ x, l, c⟩) = .tok t x)
    (he : EndsLike x y) (hstr : x = [] → y = [] ∨ isStrTok t = false) :
    kind (nextToken ⟨a ++ y, l', c'⟩) = .tok t y := by
  have hlen : x.length < (skipWs (a ++ x) l c).rest.length := by
    cases hn : nextToken ⟨a ++ x, l, c⟩ with
    | eof => rw [hn] at h; cases h
    | err e => rw [hn] at h; cases h
    | tok sp s' =>
      rw [hn] at h
      simp only [kind, TokK.tok.injEq] at h
      obtain ⟨hne, _, _, j, hj, hs'⟩ := nextToken_tok_shape hn
      have hx : s'.rest.length = (Scanner.skipWs ⟨a ++ x, l, c⟩).rest.length - j := by
        rw [hs', Scanner.advance_rest, List.length_drop]
      rw [h.2] at hx
      have : 0 < (Scanner.skipWs ⟨a ++ x, l, c⟩).rest.length := List.length_pos_iff.mpr hne
      change _ < (Scanner.skipWs ⟨a ++ x, l, c⟩).rest.length
      omega
  obtain ⟨w, a', _, hne, hsk⟩ := skipWs_local a x l c hlen
  cases a' with
  | nil => exact absurd rfl hne
  | cons ch a1 =>
    have e1 : (Scanner.skipWs ⟨a ++ x, l, c⟩).rest = ch :: (a1 ++ x) := hsk x l c
    have e2 : (Scanner.skipWs ⟨a ++ y, l', c'⟩).rest = ch :: (a1 ++ y) := hsk y l' c'
    rw [kind_of_tokBody] at h ⊢
    rw [e1] at h
    rw [e2]
    simp only at h ⊢
    rw [tokBody_indep ch (s' := ⟨ch :: (a1 ++ x), 0, 0⟩) e1] at h
    rw [tokBody_indep ch (s' := ⟨ch :: (a1 ++ y), 0, 0⟩) e2]
    have hb : exK (tokBody ch ⟨ch :: (a1 ++ x), 0, 0⟩) = .ok (t, x) := by
      cases hx : exK (tokBody ch ⟨ch :: (a1 ++ x), 0, 0⟩) with
      | error e => rw [hx] at h; cases h
      | ok p =>
        obtain ⟨t', r'⟩ := p
        rw [hx] at h
        simp only [TokK.tok.injEq] at h
        rw [h.1, h.2]
    rw [tokBody_local ch a1 x y 0 0 0 0 t hb he hstr]

/-! ### a token boundary stays one when the text after it is replaced -/

theorem LexTo.length_le {src rest : List Char} {ts : List Token} (h : LexTo src ts rest) :
    ts.length + rest.length ≤ src.length := by
  induction h with
  | nil r => simp
  | cons l c hk _ ih =>
    obtain ⟨k, h1, h2, hm⟩ := kind_tok_length hk
    simp only at h2 hm
    rw [hm, List.length_drop] at ih
    simp only [List.length_cons]
    omega

/-- if `pre` is lexed as `ts` up to a token boundary with `rest` following, it is lexed the same way
    with `y` following, when `y` starts like `rest` or with a separator -/
theorem LexTo.replace_rest {src rest : List Char} {ts : List Token} (h : LexTo src ts rest) :
    ∀ pre, src = pre ++ rest → ∀ y, EndsLike rest y →
      (rest = [] → y = [] ∨ ∀ t, ts.getLast? = some t → isStrTok t = false) →
      LexTo (pre ++ y) ts y := by
  induction h with
  | nil r =>
    intro pre hsrc y _ _
    have : pre = [] := append_eq_self_left hsrc.symm
    subst this
    exact LexTo.nil y
  | @cons src mid rest t ts l c hk htail ih =>
    intro pre hsrc y he hstr
    obtain ⟨k, _, _, hm⟩ := kind_tok_length hk
    simp only at hm
    obtain ⟨pre2, hp2, _⟩ := htail.suffix
    have hpre : pre = src.take k ++ pre2 := by
      have : src.take k ++ pre2 ++ rest = pre ++ rest := by
        rw [List.append_assoc, ← hp2, hm, List.take_append_drop, hsrc]
      exact (List.append_cancel_right this).symm
    subst hpre
    have hk' : kind (nextToken ⟨src.take k ++ (pre2 ++ rest), l, c⟩) = .tok t (pre2 ++ rest) := by
      rw [← hp2, hm, List.take_append_drop, ← hm]; exact hk
    rw [List.append_assoc]
    refine LexTo.cons l c (nextToken_local l c l c hk' ?_ ?_) (ih pre2 hp2 y he ?_)
    · -- lookahead
      cases pre2 with
      | nil => simpa using he
      | cons d p => exact Or.inl rfl
    · intro hnil
      have hp : pre2 = [] := (List.append_eq_nil_iff.mp hnil).1
      have hr : rest = [] := (List.append_eq_nil_iff.mp hnil).2
      subst hp
      have hts : ts = [] := by
        have := htail.length_le
        rw [hp2] at this
        simp only [List.nil_append] at this
        exact List.length_eq_zero_iff.mp (by omega)
      subst hts
      rcases hstr hr with h1 | h1
      · exact Or.inl (by simpa using h1)
      · exact Or.inr (h1 t rfl)
    · intro hr
      rcases hstr hr with h1 | h1
      · exact Or.inl h1
      · refine Or.inr ?_
        intro t' ht'
        apply h1 t'
        cases ts with
        | nil => cases ht'
        | cons u us => rw [List.getLast?_cons_cons]; exact ht'

end Seed.C09
