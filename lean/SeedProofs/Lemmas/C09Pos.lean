/-
  Lemmas/C09Pos.lean — the lexer's *tokens* do not depend on the scanner's line/column.

  `TokRes.kind` forgets every position of a `nextToken` result: the token without its span and the
  remaining characters without the scanner's line/column; an error keeps its constructor and payload,
  its location is reset to `(0, 0)`.  `nextToken_kind_indep`: two scanners with the same remaining
  characters give results of the same kind.  The same for every sub-lexer (`skipWs`, `lexInt`,
  `strLoop`, `lexStr`, `lexSym`) and for `lexRaw`.
-/
import SeedModel.Lex
import SeedProofs.Lemmas.Scan
namespace Seed.C09
open Seed

/-- an error without its location -/
def eraseLoc : LexError → LexError
  | .Unexpected _ c => .Unexpected (0, 0) c
  | .IntOverflow _ raw => .IntOverflow (0, 0) raw
  | .UnescapedDollar _ => .UnescapedDollar (0, 0)
  | .InvalidInterpolationStart _ c => .InvalidInterpolationStart (0, 0) c
  | .InvalidEscapeChar _ c => .InvalidEscapeChar (0, 0) c
  | .InvalidHexChar _ c => .InvalidHexChar (0, 0) c

/-- a `nextToken` result without positions -/
inductive TokK where
  | eof
  | tok (t : Token) (rest : List Char)
  | err (e : LexError)
  deriving DecidableEq, Repr

def kind : TokRes → TokK
  | .eof => .eof
  | .tok sp s => .tok sp.tok s.rest
  | .err e => .err (eraseLoc e)

/-- a sub-lexer result without positions -/
def exK : Except LexError (Token × Scanner) → Except LexError (Token × List Char)
  | .error e => .error (eraseLoc e)
  | .ok (t, s) => .ok (t, s.rest)

/-- a string-loop result without positions -/
def accK : Except LexError (StrAcc × Scanner) → Except LexError (StrAcc × List Char)
  | .error e => .error (eraseLoc e)
  | .ok (a, s) => .ok (a, s.rest)

/-- a string-loop step without the error location -/
def stepK : StrStep → StrStep
  | .cont a => .cont a
  | .done a => .done a
  | .fail e => .fail (eraseLoc e)

/-! ### scanner movement -/

theorem next_rest_congr {s s' : Scanner} (h : s.rest = s'.rest) : s.next.rest = s'.next.rest := by
  rw [Scanner.next_rest, Scanner.next_rest, h]

theorem advance_rest_congr {s s' : Scanner} (h : s.rest = s'.rest) (n : Nat) :
    (s.advance n).rest = (s'.advance n).rest := by
  rw [Scanner.advance_rest, Scanner.advance_rest, h]

/-! ### whitespace and comments -/

theorem skipComment_rest_indep (r : List Char) (l c l' c' : Nat) :
    (skipComment r l c).rest = (skipComment r l' c').rest := by
  induction r generalizing l c l' c' with
  | nil => rfl
  | cons ch r ih =>
    by_cases h : ch = '\n'
    · simp [skipComment, h]
    · simp only [skipComment, h, if_false]
      exact ih _ _ _ _

theorem skipWs_rest_indep (r : List Char) (l c l' c' : Nat) :
    (skipWs r l c).rest = (skipWs r l' c').rest := by
  induction r generalizing l c l' c' with
  | nil => rfl
  | cons ch r ih =>
    by_cases h1 : ch = '#'
    · simp only [skipWs, h1, if_true]
      exact skipComment_rest_indep _ _ _ _ _
    · by_cases h2 : (ch = '\n' || !isAsciiWs ch) = true
      · simp only [skipWs, h1, h2, if_true, if_false]
      · simp only [skipWs, h1, h2, if_false]
        exact ih _ _ _ _

theorem Scanner.skipWs_rest_congr {s s' : Scanner} (h : s.rest = s'.rest) :
    s.skipWs.rest = s'.skipWs.rest := by
  unfold Scanner.skipWs
  rw [h]
  exact skipWs_rest_indep _ _ _ _ _

/-! ### integers -/

theorem lexInt_indep {s s' : Scanner} (h : s.rest = s'.rest) : exK (lexInt s) = exK (lexInt s') := by
  unfold lexInt
  simp only [h]
  split
  · simp only [exK]
    rw [advance_rest_congr h]
  · simp only [exK, eraseLoc]

/-! ### string literals -/

theorem strStep_indep (interp : Bool) (a : StrAcc) (ch : Char) (loc loc' : Loc) :
    stepK (strStep interp a ch loc) = stepK (strStep interp a ch loc') := by
  unfold strStep
  repeat' split
  all_goals first
    | rfl
    | simp_all [stepK, eraseLoc]

theorem strLoop_indep (interp : Bool) (r : List Char) (l c l' c' : Nat) (a : StrAcc) :
    accK (strLoop interp r l c a) = accK (strLoop interp r l' c' a) := by
  induction r generalizing l c l' c' a with
  | nil => rfl
  | cons ch r ih =>
    have hs := strStep_indep interp a ch (l, c) (l', c')
    unfold strLoop
    simp only
    cases h1 : strStep interp a ch (l, c) <;> cases h2 : strStep interp a ch (l', c') <;>
      rw [h1, h2] at hs <;> simp only [stepK, StrStep.cont.injEq, StrStep.done.injEq,
        StrStep.fail.injEq, reduceCtorEq] at hs
    · subst hs; exact ih _ _ _ _ _
    · subst hs; rfl
    · simp only [accK, hs]

theorem lexStr_indep (interp : Bool) {s s' : Scanner} (h : s.rest = s'.rest) :
    exK (lexStr interp s) = exK (lexStr interp s') := by
  have hl := strLoop_indep interp s.next.rest s.next.line s.next.col s'.next.line s'.next.col
    StrAcc.init
  unfold lexStr
  simp only
  rw [← next_rest_congr h]
  cases h1 : strLoop interp s.next.rest s.next.line s.next.col StrAcc.init with
  | error e =>
    cases h2 : strLoop interp s.next.rest s'.next.line s'.next.col StrAcc.init with
    | error e' =>
      rw [h1, h2] at hl
      simp only [accK, Except.error.injEq] at hl
      simp only [exK, hl]
    | ok p => rw [h1, h2] at hl; obtain ⟨a, t⟩ := p; simp [accK] at hl
  | ok p =>
    obtain ⟨a, t⟩ := p
    cases h2 : strLoop interp s.next.rest s'.next.line s'.next.col StrAcc.init with
    | error e' => rw [h1, h2] at hl; simp [accK] at hl
    | ok p' =>
      obtain ⟨a', t'⟩ := p'
      rw [h1, h2] at hl
      simp only [accK, Except.ok.injEq, Prod.mk.injEq] at hl
      obtain ⟨rfl, ht⟩ := hl
      simp only
      split <;> simp only [exK, ht]

/-! ### symbols -/

theorem lexSym_indep (c1 : Char) {s s' : Scanner} (h : s.rest = s'.rest) :
    (lexSym c1 s).1 = (lexSym c1 s').1 ∧ (lexSym c1 s).2.rest = (lexSym c1 s').2.rest := by
  obtain ⟨r, l, c⟩ := s
  obtain ⟨r', l', c'⟩ := s'
  simp only at h
  subst h
  rcases r with _ | ⟨a, _ | ⟨b, _ | ⟨d, r⟩⟩⟩ <;>
    simp only [lexSym, lexMultiSym, Scanner.next, Scanner.peek, List.head?] <;>
    cases matchSingle c1 <;> simp only <;>
    (try cases matchDouble c1 b <;> simp only) <;>
    (try cases matchTriple c1 b d <;> simp only) <;>
    first | exact ⟨rfl, rfl⟩ | exact ⟨trivial, trivial⟩

/-! ### one token -/

/-- the part of `nextToken` after whitespace: `c` is the current character of `s` -/
def tokBody (c : Char) (s : Scanner) : Except LexError (Token × Scanner) :=
  if c = '\n' || c = ';' then .ok (Token.StmtEnd, s.next)
  else if isAsciiAlpha c || c = '_' then
    let w := s.rest.takeWhile isIdentChar
    .ok (keywordOrIdent w, s.advance w.length)
  else if isAsciiDigit c then lexInt s
  else if c = '"' then lexStr false s
  else if c = '$' then lexStr true s.next
  else
    match lexSym c s with
    | (some t, s') => .ok (t, s')
    | (none, _) => .error (LexError.Unexpected s.loc c)

theorem nextToken_eq (s0 : Scanner) :
    nextToken s0 =
      match s0.skipWs.rest with
      | [] => .eof
      | c :: _ =>
        match tokBody c s0.skipWs with
        | .error e => .err e
        | .ok (t, s') => .tok ⟨s0.skipWs.loc, t, endLoc s'⟩ s' := by
  unfold nextToken tokBody
  rfl

theorem tokBody_indep (ch : Char) {s s' : Scanner} (h : s.rest = s'.rest) :
    exK (tokBody ch s) = exK (tokBody ch s') := by
  unfold tokBody
  split
  · simp only [exK, next_rest_congr h]
  · split
    · simp only [exK, h, advance_rest_congr h]
    · split
      · exact lexInt_indep h
      · split
        · exact lexStr_indep false h
        · split
          · exact lexStr_indep true (next_rest_congr h)
          · obtain ⟨h1, h2⟩ := lexSym_indep ch h
            cases hx : lexSym ch s with
            | mk o t =>
              cases hy : lexSym ch s' with
              | mk o' t' =>
                rw [hx, hy] at h1 h2
                simp only at h1 h2
                subst h1
                cases o <;> simp only [exK, eraseLoc, h2]

theorem kind_of_tokBody (s0 : Scanner) :
    kind (nextToken s0) =
      match s0.skipWs.rest with
      | [] => .eof
      | c :: _ =>
        match exK (tokBody c s0.skipWs) with
        | .error e => .err e
        | .ok (t, r) => .tok t r := by
  rw [nextToken_eq]
  split
  · rfl
  · next c r hr =>
    cases h : tokBody c s0.skipWs with
    | error e => rfl
    | ok p => obtain ⟨t, s'⟩ := p; rfl

/-- **L1** for one token: the kind of the result depends only on the remaining characters -/
theorem nextToken_kind_indep {s s' : Scanner} (h : s.rest = s'.rest) :
    kind (nextToken s) = kind (nextToken s') := by
  rw [kind_of_tokBody, kind_of_tokBody]
  have hw := Scanner.skipWs_rest_congr h
  rw [← hw]
  split
  · rfl
  · rw [tokBody_indep _ hw]

/-! ### the raw stream -/

theorem lexRaw_kind_indep (n : Nat) {s s' : Scanner} (h : s.rest = s'.rest) :
    (lexRaw n s).1.map Span.tok = (lexRaw n s').1.map Span.tok ∧
    (lexRaw n s).2.map eraseLoc = (lexRaw n s').2.map eraseLoc := by
  induction n generalizing s s' with
  | zero => exact ⟨rfl, rfl⟩
  | succ n ih =>
    have hk := nextToken_kind_indep h
    unfold lexRaw
    cases h1 : nextToken s <;> cases h2 : nextToken s' <;> rw [h1, h2] at hk <;>
      simp only [kind, TokK.tok.injEq, TokK.err.injEq, reduceCtorEq] at hk
    · exact ⟨rfl, rfl⟩
    · obtain ⟨ht, hr⟩ := hk
      obtain ⟨i1, i2⟩ := ih hr
      simp only [List.map_cons, ht, i1, i2, and_self]
    · simp only [List.map_nil, Option.map_some, hk, and_self]

end Seed.C09
