/-
  C03lex.lean — the lexer always terminates within its fuel, and never reports a line outside
  `1 … 1 + (number of newlines in the source)`.
-/
import SeedProofs.Lemmas.Scan
import SeedProofs.Lemmas.ParseTotal
import SeedProofs.Lemmas.ParseErrTok
import SeedModel.Run
namespace Seed.C03
open Seed

-- audit: Seed.errAll Seed.parseStmts_err_tok_mem
-- audit: Seed.pmonoAll Seed.pbndAll Seed.ptotAll Seed.parseStmts_total Seed.parseExpr_total

/-- the parser never runs out of the fuel the driver gives it: parsing terminates on every token list -/
theorem parse_total (ts : List Span) :
    parseStmts (parseFuel ts) false [] ts ≠ .timeout ∧ parseExpr (parseFuel ts) false ts ≠ .timeout :=
  Seed.parse_total ts

/-- the whole front end (lexer with its fuel, parser with its fuel) decides every source text: it accepts it or rejects
    it with a diagnostic, it never "hangs" -/
theorem front_end_total (src : List Char) : parseProg src ≠ .timeout := Seed.parseProg_ne_timeout src

/-- so does the expression parser used for interpolation slots -/
theorem slot_parser_total (src : List Char) : parseExprTop src ≠ .timeout := Seed.parseExprTop_ne_timeout src

/-- every token consumes at least one character -/
theorem nextToken_progress {s s' : Scanner} {sp : Span} (h : nextToken s = .tok sp s') :
    s'.rest.length < s.rest.length := by
  obtain ⟨n, h1, h2, rfl⟩ := nextToken_advance h
  rw [Scanner.advance_rest_length]; omega

/-- any two amounts of fuel above the remaining input length give the same token stream -/
theorem lexRaw_fuel_irrelevant (n m : Nat) (s : Scanner) (hn : s.rest.length < n) (hm : s.rest.length < m) :
    lexRaw n s = lexRaw m s := by
  induction n generalizing m s with
  | zero => omega
  | succ n ih =>
    cases m with
    | zero => omega
    | succ m =>
      unfold lexRaw
      cases h : nextToken s with
      | eof => rfl
      | err e => rfl
      | tok sp s' =>
        have := nextToken_progress h
        simp only
        rw [ih m s' (by omega) (by omega)]

/-- the lexer never runs out of fuel: more fuel than `rest.length + 1` changes nothing -/
theorem lexRaw_fuel_enough {n : Nat} {s : Scanner} (h : s.rest.length < n) :
    lexRaw n s = lexRaw (s.rest.length + 1) s :=
  lexRaw_fuel_irrelevant n _ s h (by omega)

/-- in particular the fuel `src.length + 1` used by `lexAll` is always enough -/
theorem lexAll_fuel_enough (src : List Char) (n : Nat) (h : src.length < n) :
    lexRaw n (Scanner.new src) = lexRaw (src.length + 1) (Scanner.new src) := by
  have := lexRaw_fuel_enough (n := n) (s := Scanner.new src) (by rw [Scanner.new_rest]; exact h)
  rw [Scanner.new_rest] at this; exact this

/-- no reported line exceeds `1 +` the number of newlines of the source -/
theorem lexRaw_lines_le (src : List Char) (n k : Nat) :
    (∀ sp ∈ (lexRaw n ((Scanner.new src).advance k)).1,
        sp.start.1 ≤ 1 + src.count '\n' ∧ sp.stop.1 ≤ 1 + src.count '\n') ∧
    (∀ e, (lexRaw n ((Scanner.new src).advance k)).2 = some e → e.loc.1 ≤ 1 + src.count '\n') :=
  lexRaw_lines_bounded src (· ≤ 1 + src.count '\n') (line_le src) n k

/-- every reported line is at least 1 -/
theorem lexRaw_lines_ge_one (src : List Char) (n k : Nat) :
    (∀ sp ∈ (lexRaw n ((Scanner.new src).advance k)).1, 1 ≤ sp.start.1 ∧ 1 ≤ sp.stop.1) ∧
    (∀ e, (lexRaw n ((Scanner.new src).advance k)).2 = some e → 1 ≤ e.loc.1) :=
  lexRaw_lines_bounded src (1 ≤ ·) (line_ge_one src) n k

/-- terminator suppression only removes spans -/
theorem suppress_subset (last : Option Token) (ts : List Span) : ∀ sp ∈ suppress last ts, sp ∈ ts := by
  induction ts generalizing last with
  | nil => intro sp h; simp [suppress] at h
  | cons t r ih =>
    intro sp h
    unfold suppress at h
    repeat' split at h
    all_goals first
      | (rcases List.mem_cons.mp h with rfl | h
         · exact List.mem_cons_self
         · exact List.mem_cons_of_mem _ (ih _ sp h))
      | exact List.mem_cons_of_mem _ (ih _ sp h)

/-- the lines of the token stream the parser sees, and of the lexical error ending it -/
theorem lexAll_lines (src : List Char) :
    (∀ sp ∈ (lexAll src).1,
        (1 ≤ sp.start.1 ∧ sp.start.1 ≤ 1 + src.count '\n') ∧
        (1 ≤ sp.stop.1 ∧ sp.stop.1 ≤ 1 + src.count '\n')) ∧
    (∀ e, (lexAll src).2 = some e → 1 ≤ e.loc.1 ∧ e.loc.1 ≤ 1 + src.count '\n') := by
  have hle := lexRaw_lines_le src (src.length + 1) 0
  have hge := lexRaw_lines_ge_one src (src.length + 1) 0
  simp only [Scanner.advance_zero] at hle hge
  unfold lexAll
  refine ⟨?_, fun e he => ⟨hge.2 e he, hle.2 e he⟩⟩
  intro sp hsp
  have hmem := suppress_subset _ _ sp hsp
  exact ⟨⟨(hge.1 sp hmem).1, (hle.1 sp hmem).1⟩, ⟨(hge.1 sp hmem).2, (hle.1 sp hmem).2⟩⟩

theorem suppress_length_le (last : Option Token) (ts : List Span) : (suppress last ts).length ≤ ts.length := by
  induction ts generalizing last with
  | nil => simp [suppress]
  | cons sp r ih =>
    unfold suppress
    split
    · simp only [List.length_cons]; have := ih (some sp.tok); omega
    · split
      · have := ih (some sp.tok); simp only [List.length_cons]; omega
      · split
        · have := ih (some sp.tok); simp only [List.length_cons]; omega
        · simp only [List.length_cons]; have := ih (some sp.tok); omega

/-! ## the run as a whole: a rejected input prints nothing and names one position inside the file -/

/-- `syntax_error_no_output`: an input the front end rejects produces no output at all, the failure status, and the
    one-line diagnostic — at every fuel (the evaluator never starts) -/
theorem syntax_error_no_output (n : Nat) (path src : List Char) (e : FrontErr) (h : parseProg src = .err e) :
    run n path src = ⟨[], .failed, parseErrText path e⟩ := by
  unfold run
  rw [h]

/-- an accepted or rejected input: the front end decides, only evaluation can use up the fuel -/
theorem run_timeout_is_eval (n : Nat) (path src : List Char) (h : (run n path src).status = .timeout) :
    ∃ stmts, parseProg src = .ok stmts ∧ evalProg n stmts = .timeout := by
  unfold run at h
  cases hp : parseProg src with
  | timeout => exact absurd hp (front_end_total src)
  | err e => rw [hp] at h; cases h
  | ok stmts =>
    rw [hp] at h
    refine ⟨stmts, rfl, ?_⟩
    dsimp only [] at h
    cases he : evalProg n stmts with
    | timeout => rfl
    | ok a σ => rw [he] at h; cases h
    | err e σ => rw [he] at h; cases h
    | crash w σ => rw [he] at h; cases h

/-- `diag_format`: the diagnostic of a rejected input is exactly `<path>:<line>:<col>: <message>` and a newline -/
theorem diag_format (path : List Char) (e : FrontErr) :
    parseErrText path e =
      path ++ c!":" ++ natToChars (parseErrMsg e).1.1 ++ c!":" ++ natToChars (parseErrMsg e).1.2 ++ c!": " ++
        (parseErrMsg e).2 ++ c!"\n" := rfl

/-- the message is never empty -/
theorem diag_msg_nonempty (e : FrontErr) : (parseErrMsg e).2 ≠ [] := by
  cases e with
  | lex e => cases e <;> simp [parseErrMsg]
  | unexpectedTok sp => simp [parseErrMsg]
  | unexpectedEof l => simp [parseErrMsg]

theorem lastEnd_mem : ∀ (ts : List Span), ts ≠ [] → ∃ sp ∈ ts, lastEnd ts = sp.stop
  | [], h => absurd rfl h
  | [sp], _ => ⟨sp, by simp, rfl⟩
  | sp :: sp2 :: r, _ => by
    obtain ⟨x, hx, he⟩ := lastEnd_mem (sp2 :: r) (by simp)
    exact ⟨x, List.mem_cons_of_mem _ hx, by simpa [lastEnd] using he⟩

/-- the empty token list is a program -/
theorem parseStmts_nil_ok (n : Nat) : parseStmts (n + 1) false [] [] = .ok [] [] := by
  unfold parseStmts; rfl

/-- `syntax_error_line_bound`: the position a rejected input is reported at lies on a line of the file
    (lines are counted from 1; an error at the very end may sit on the line after the last newline) -/
theorem syntax_error_line_bound (src : List Char) (e : FrontErr) (h : parseProg src = .err e) :
    1 ≤ (parseErrMsg e).1.1 ∧ (parseErrMsg e).1.1 ≤ 1 + src.count '\n' := by
  have hl := lexAll_lines src
  unfold parseProg at h
  generalize lexAll src = p at h hl
  obtain ⟨ts, le⟩ := p
  simp only at h hl
  have hlex : ∀ x, le = some x → 1 ≤ (parseErrMsg (.lex x)).1.1 ∧ (parseErrMsg (.lex x)).1.1 ≤ 1 + src.count '\n' := by
    intro x hx
    have := hl.2 x hx
    cases x <;> exact this
  cases hp : parseStmts (parseFuel ts) false [] ts with
  | timeout => rw [hp] at h; cases h
  | ok a rest =>
    rw [hp] at h
    cases le with
    | none => cases h
    | some x =>
      simp only [Front.err.injEq] at h
      subst h
      exact hlex x rfl
  | err pe =>
    rw [hp] at h
    simp only [Front.err.injEq] at h
    subst h
    cases pe with
    | tok sp =>
      have hm := parseStmts_err_tok_mem hp
      exact (hl.1 sp hm).1
    | eof =>
      cases le with
      | some x => exact hlex x rfl
      | none =>
        cases ts with
        | nil =>
          rw [show parseFuel [] = 79 + 1 from rfl, parseStmts_nil_ok] at hp
          cases hp
        | cons sp r =>
          obtain ⟨x, hx, he⟩ := lastEnd_mem (sp :: r) (by simp)
          show 1 ≤ (lastEnd (sp :: r)).1 ∧ (lastEnd (sp :: r)).1 ≤ 1 + src.count '\n'
          rw [he]
          exact (hl.1 x hx).2

/-- the hypotheses are satisfiable: an unterminated call on line 3 -/
example : ∃ e, parseProg c!"a := 1;\n\nf(a" = .err e ∧ (parseErrMsg e).1 = (3, 3) := ⟨_, rfl, rfl⟩
example : (run 0 c!"p.sd" c!"print(1); )").stderr = c!"p.sd:1:11: unexpected ')'\n" ∧
    (run 0 c!"p.sd" c!"print(1); )").out = [] ∧ (run 0 c!"p.sd" c!"print(1); )").status = .failed := by decide +kernel

end Seed.C03
