import SeedModel.Parse
namespace Seed.C03

theorem suppress_length_le (last : Option Token) (ts : List Span) : (suppress last ts).length ≤ ts.length := by
  induction ts generalizing last with
  | nil => simp [suppress]
  | cons sp r ih =>
    unfold suppress
    split
    · simp only [List.length_cons]; have := ih (some sp.tok); omega
    · split
      · have := ih (some sp.tok); simp only [List.length_cons]; omega
      · split
        · have := ih (some sp.tok); simp only [List.length_cons]; omega
        · simp only [List.length_cons]; have := ih (some sp.tok); omega

end Seed.C03
