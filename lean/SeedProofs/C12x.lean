/-
  C12x — property theorems of C12 about everyday idioms (third session; Lemmas/IdiomsProofs*.lean).

  `opassign_key_evaluated_once`: in `o[ke] op= rhs` the key expression `ke` — whatever it is, side effects included — is evaluated
  exactly once (after the right-hand side and the target): the final state is the state after that one evaluation with the
  property `k` replaced; `opassign_key_missing`: a missing key is the error, still after one evaluation.
-/
import SeedProofs.Lemmas.IdiomsProofs2
-- audit: Seed.Idioms.opassign_key_evaluated_once Seed.Idioms.opassign_key_missing
