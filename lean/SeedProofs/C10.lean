/-
  C10 — `==` is a structural equivalence; `===` is identity; comparing never mutates.

  Part 1 (this file, primitive layer): `eqVal` on scalars, the identity short-cut, `refEq`, `!=`/`!==` as negations,
  purity, the shape of the mismatch diagnostic.
  Part 2 (built on `Lemmas/C10Tree.lean`): the inductive unfolding `Tree` of acyclic values (`Unf σ v s`), the
  comparison `eqT` on unfoldings, the tie `eq_is_tree_eq` between `eqVal` on the heap and `eqT`, and the laws:
  reflexive on function-free values and deep copies, `true` exactly on equal unfoldings, the same boolean in both
  operand orders, transitive, independent of addresses / aliasing / construction, total (boolean or a mismatch
  naming two kinds; never a crash).
-/
import SeedProofs.Lemmas.C10Tree
namespace Seed.C10
open Seed

/-! ## scalars -/

/-- on null, bools, ints and strings `==` is equality of the values -/
theorem eq_scalars (n : Nat) (σ : State) :
    eqVal (n + 1) σ .null .null = .ok true ∧
    (∀ x y : Bool, eqVal (n + 1) σ (.bool x) (.bool y) = .ok (decide (x = y))) ∧
    (∀ x y : Int, eqVal (n + 1) σ (.int x) (.int y) = .ok (decide (x = y))) ∧
    (∀ x y : Bytes, eqVal (n + 1) σ (.str x) (.str y) = .ok (decide (x = y))) := by
  refine ⟨by simp [eqVal], ?_, ?_, ?_⟩
  · intro x y; cases x <;> cases y <;> simp [eqVal]
  · intro x y
    have : (x == y) = decide (x = y) := by by_cases h : x = y <;> simp [h]
    simp [eqVal, this]
  · intro x y
    have : (x == y) = decide (x = y) := by by_cases h : x = y <;> simp [h]
    simp [eqVal, this]

/-! ## identity -/

/-- a container compared with itself is equal, whatever it contains (the identity short-cut) -/
theorem eq_same_container (n : Nat) (σ : State) (x : Addr) :
    eqVal (n + 1) σ (.list x) (.list x) = .ok true ∧ eqVal (n + 1) σ (.obj x) (.obj x) = .ok true := by
  constructor <;> simp [eqVal]

/-- **C10.** `===` is defined exactly on list/list, object/object and function/function pairs, where it is equality
    of the container (address) -/
theorem refEq_spec (a b : Val) (r : Bool) :
    refEq a b = some r ↔
      (∃ x y, a = .list x ∧ b = .list y ∧ r = decide (x = y)) ∨
      (∃ x y, a = .obj x ∧ b = .obj y ∧ r = decide (x = y)) ∨
      (∃ x y, a = .func x ∧ b = .func y ∧ r = decide (x = y)) := by
  have hb : ∀ x y : Addr, (x == y) = decide (x = y) := fun x y => by by_cases h : x = y <;> simp [h]
  cases a <;> cases b <;> simp [refEq, hb, eq_comm]

theorem refEq_undefined (a b : Val) :
    refEq a b = none ↔ ¬ ((a.kind = .List ∧ b.kind = .List) ∨ (a.kind = .Object ∧ b.kind = .Object) ∨
      (a.kind = .Func ∧ b.kind = .Func)) := by
  cases a <;> cases b <;> simp [refEq, Val.kind]

/-- reflexive and symmetric -/
theorem refEq_refl (a : Val) (h : a.kind = .List ∨ a.kind = .Object ∨ a.kind = .Func) : refEq a a = some true := by
  cases a <;> simp_all [refEq, Val.kind]

example : (Val.list 3).kind = .List ∨ (Val.list 3).kind = .Object ∨ (Val.list 3).kind = .Func := Or.inl rfl

theorem refEq_symm (a b : Val) : refEq a b = refEq b a := by
  cases a <;> cases b <;> simp [refEq, Bool.beq_comm]

/-- `a === b` implies `a == b` for data (lists and objects; for two functions `==` is an error by definition) -/
theorem refEq_implies_eq (n : Nat) (σ : State) (a b : Val) (h : refEq a b = some true)
    (hdata : a.kind ≠ .Func) : eqVal (n + 1) σ a b = .ok true := by
  cases a <;> cases b <;> simp_all [refEq, Val.kind, eqVal]

example : refEq (.obj 2) (.obj 2) = some true ∧ (Val.obj 2).kind ≠ .Func := by decide

/-! ## `!=` and `!==` are the negations -/

/-- ` (at <path>)`, or nothing when the mismatch is at the top -/
def pathSuffix (p : List Char) : List Char := if p.isEmpty then [] else c!" (at " ++ p ++ c!")"

/-- **C10.** `!=` answers `!v` exactly when `==` answers `v`, in the same state; one is an error iff the other is,
    with the same types and path -/
theorem ne_is_not (fuel : Nat) (σ : State) (loc : Loc) (a b : Val) :
    (∀ v, eqVal fuel σ a b = .ok v →
      applyBinOp fuel σ .Eq loc a b = .ok (.bool v) σ ∧ applyBinOp fuel σ .Ne loc a b = .ok (.bool (!v)) σ) ∧
    (∀ p lt rt, eqVal fuel σ a b = .mismatch p lt rt →
      applyBinOp fuel σ .Eq loc a b = .err (Err.at loc (Gen.Leaf.InvalidEqOpTypes .Eq lt rt (pathSuffix p))) σ ∧
      applyBinOp fuel σ .Ne loc a b = .err (Err.at loc (Gen.Leaf.InvalidEqOpTypes .Ne lt rt (pathSuffix p))) σ) := by
  constructor
  · intro v h; simp [applyBinOp, h]
  · intro p lt rt h; simp [applyBinOp, h, pathSuffix]

example : eqVal 1 State.init (.int 1) (.int 2) = .ok false := by simp [eqVal]

/-- whatever `==` answers, `!=` answers the opposite boolean (results of `applyBinOp` compared directly) -/
theorem ne_negates (fuel : Nat) (σ σ' : State) (loc : Loc) (a b : Val) (v : Val) :
    applyBinOp fuel σ .Eq loc a b = .ok v σ' →
      ∃ x, v = .bool x ∧ applyBinOp fuel σ .Ne loc a b = .ok (.bool (!x)) σ' := by
  intro h
  simp only [applyBinOp] at h ⊢
  cases hr : eqVal fuel σ a b with
  | ok x =>
    rw [hr] at h
    simp only [if_true, Res.ok.injEq] at h
    obtain ⟨rfl, rfl⟩ := h
    exact ⟨x, rfl, by simp⟩
  | mismatch p lt rt => rw [hr] at h; cases h
  | bad => rw [hr] at h; cases h
  | timeout => rw [hr] at h; cases h

/-- the same for `===`/`!==` -/
theorem refNe_negates (fuel : Nat) (σ : State) (loc : Loc) (a b : Val) :
    (∀ v, refEq a b = some v →
      applyBinOp fuel σ .RefEq loc a b = .ok (.bool v) σ ∧ applyBinOp fuel σ .RefNe loc a b = .ok (.bool (!v)) σ) ∧
    (refEq a b = none →
      applyBinOp fuel σ .RefEq loc a b = .err (invalidOpTypes .RefEq loc a b) σ ∧
      applyBinOp fuel σ .RefNe loc a b = .err (invalidOpTypes .RefNe loc a b) σ) := by
  constructor
  · intro v h; simp [applyBinOp, h]
  · intro h; simp [applyBinOp, h]

/-- the answer of a comparison is an ordinary boolean: compared with `true` it is itself, compared with `false` its
    negation — `(a == b) == true`, `(a == b) != false` and `(a != b) == false` ask what `a == b` asks -/
theorem answer_compared_again (fuel : Nat) (σ : State) (loc : Loc) (v : Bool) :
    applyBinOp (fuel + 1) σ .Eq loc (.bool v) (.bool true) = .ok (.bool v) σ ∧
    applyBinOp (fuel + 1) σ .Eq loc (.bool v) (.bool false) = .ok (.bool (!v)) σ ∧
    applyBinOp (fuel + 1) σ .Ne loc (.bool v) (.bool false) = .ok (.bool v) σ ∧
    applyBinOp (fuel + 1) σ .Eq loc (.bool true) (.bool v) = .ok (.bool v) σ := by
  cases v <;> simp [applyBinOp, eqVal]

/-- a comparison between the kinds `null`, `bool`, `int`, `string`, `list`, `object` never answers a boolean when the two
    kinds differ at the top: not for an empty list against an empty object or string, not for `null` against anything else -/
theorem top_kind_mismatch_is_error (fuel : Nat) (σ : State) (loc : Loc) (x : Addr) :
    (∀ bs, ∃ e, applyBinOp (fuel + 1) σ .Eq loc (.str bs) (.list x) = .err e σ) ∧
    (∀ y, ∃ e, applyBinOp (fuel + 1) σ .Eq loc (.obj y) (.list x) = .err e σ) ∧
    (∃ e, applyBinOp (fuel + 1) σ .Eq loc .null (.list x) = .err e σ) ∧
    (∀ i, ∃ e, applyBinOp (fuel + 1) σ .Eq loc (.int i) (.list x) = .err e σ) ∧
    (∀ b, ∃ e, applyBinOp (fuel + 1) σ .Eq loc (.bool b) (.list x) = .err e σ) := by
  refine ⟨fun bs => ?_, fun y => ?_, ?_, fun i => ?_, fun b => ?_⟩ <;> simp [applyBinOp, eqVal]

/-! ## comparing never mutates -/

/-- **C10.** the four comparison operators hand back the state they were given, on every outcome that has a state -/
theorem compare_pure (fuel : Nat) (σ : State) (op : BinaryOp) (loc : Loc) (a b : Val)
    (hop : op = .Eq ∨ op = .Ne ∨ op = .RefEq ∨ op = .RefNe) :
    (∀ v σ', applyBinOp fuel σ op loc a b = .ok v σ' → σ' = σ) ∧
    (∀ e σ', applyBinOp fuel σ op loc a b = .err e σ' → σ' = σ) ∧
    (∀ w σ', applyBinOp fuel σ op loc a b = .crash w σ' → σ' = σ) := by
  rcases hop with rfl | rfl | rfl | rfl
  · simp only [applyBinOp]
    cases eqVal fuel σ a b <;> simp
  · simp only [applyBinOp]
    cases eqVal fuel σ a b <;> simp
  · simp only [applyBinOp]
    cases refEq a b <;> simp
  · simp only [applyBinOp]
    cases refEq a b <;> simp

/-! ## the mismatch diagnostic -/

/-- reaching two values of different kinds, or two functions, at the top is reported with both type names in order -/
theorem eq_mismatch_top (n : Nat) (σ : State) (a b : Val)
    (h : a.kind ≠ b.kind ∨ a.kind = .Func ∨ a.kind = .BuiltinFunc) :
    eqVal (n + 1) σ a b = .mismatch [] (Gen.typeNameDiag a.kind) (Gen.typeNameDiag b.kind) := by
  cases a <;> cases b <;> simp_all [eqVal, Val.kind]

example : (Val.int 1).kind ≠ (Val.str []).kind ∨ (Val.int 1).kind = .Func ∨ (Val.int 1).kind = .BuiltinFunc := by decide

/-- below the top the path to the offending pair is prefixed: `[i]` for list items, `.'k'` for properties -/
theorem eq_mismatch_path (p q lt rt : List Char) :
    (EqRes.mismatch q lt rt).prefixPath p = .mismatch (p ++ q) lt rt ∧
    (∀ b, (EqRes.ok b).prefixPath p = .ok b) := ⟨rfl, fun _ => rfl⟩

/-- the text: `can't apply '==' to '<lhs>' and '<rhs>' (at <path>)`, the path part only when non-empty -/
theorem eq_mismatch_msg (fuel : Nat) (σ : State) (loc : Loc) (a b : Val) (p lt rt : List Char)
    (h : eqVal fuel σ a b = .mismatch p lt rt) :
    applyBinOp fuel σ .Eq loc a b = .err (Err.at loc (Gen.Leaf.InvalidEqOpTypes .Eq lt rt (pathSuffix p))) σ ∧
    (Gen.Leaf.InvalidEqOpTypes .Eq lt rt (pathSuffix p)).msg =
      c!"can't apply '==' to '" ++ lt ++ c!"' and '" ++ rt ++ c!"'" ++ pathSuffix p ∧
    pathSuffix [] = [] ∧ pathSuffix c!"[1]" = c!" (at [1])" :=
  ⟨((ne_is_not fuel σ loc a b).2 p lt rt h).1, rfl, rfl, rfl⟩

example : eqVal 1 State.init (.int 1) (.str []) = .mismatch [] c!"int" c!"string" := by rfl

/-- an instance with shared sub-structure, through the whole pipeline: `[a] == a` for `a := [[]]` is the diagnostic
    naming `list` and… nothing to mismatch — it is `false` by length; `[a, 1] == [a, "x"]` names the path -/
example :
    (run 300 c!"t.sd" c!"a := [[]]\nprint([a] == a)\nprint(a == [a])\nb := [a, 1]\nprint(b == [a, \"x\"])\n").out = [c!"false", c!"false"] ∧
    (run 300 c!"t.sd" c!"a := [[]]\nprint([a] == a)\nprint(a == [a])\nb := [a, 1]\nprint(b == [a, \"x\"])\n").stderr =
      c!"t.sd:5:9: can't apply '==' to 'int' and 'string' (at [1])\n" := by
  decide +kernel

/-- with functions inside, aliasing matters (outside the property's function-free scope): `a == a` is `true` by the
    identity short-cut while `[f] == [f]` is an error -/
example :
    (run 300 c!"t.sd" c!"fn f() { return 1; }\na := [f]\nprint(a == a)\nprint([f] == [f])\n").out = [c!"true"] ∧
    (run 300 c!"t.sd" c!"fn f() { return 1; }\na := [f]\nprint(a == a)\nprint([f] == [f])\n").stderr =
      c!"t.sd:4:11: can't apply '==' to 'func' and 'func' (at [0])\n" := by
  decide +kernel

/-- the two operand orders can differ as *error versus false* (never as two different booleans):
    `{b:"s",c:1} == {a:1,b:2}` errors, `{a:1,b:2} == {b:"s",c:1}` is `false` -/
example :
    (run 300 c!"t.sd" c!"print({\"a\": 1, \"b\": 2} == {\"b\": \"s\", \"c\": 1})\nprint({\"b\": \"s\", \"c\": 1} == {\"a\": 1, \"b\": 2})\n").out = [c!"false"] ∧
    (run 300 c!"t.sd" c!"print({\"a\": 1, \"b\": 2} == {\"b\": \"s\", \"c\": 1})\nprint({\"b\": \"s\", \"c\": 1} == {\"a\": 1, \"b\": 2})\n").stderr =
      c!"t.sd:2:26: can't apply '==' to 'string' and 'int' (at .'b')\n" := by
  decide +kernel

/-! ## Part 2: `==` on acyclic values is the structural comparison of their unfoldings

`Tree` is the inductive unfolding of a value, `Unf σ v s` says that `s` is the unfolding of `v` in the heap of `σ`
(it exists exactly when no container is reachable from itself), `eqT` is the comparison algorithm on trees
(`Lemmas/C10Tree.lean`).  `s.FnFree`: no function occurs in `s`; `s.KO`: the keys of every object in `s` are distinct
(the invariant of the `BTreeMap` behind every object).  Fuel only ever turns an answer into a time-out. -/

/-- **C10.** On acyclic data `eqVal` answers what the structural comparison of the unfoldings answers: the identity
    and length short-cuts, the addresses, sharing and the way the operands were built play no role. -/
theorem eq_is_tree_eq {σ : State} {a b : Val} {s t : Tree} (n : Nat) (ha : Unf σ a s) (hb : Unf σ b t)
    (hf : s.FnFree) (hk : s.KO) : eqVal n σ a b = .timeout ∨ eqVal n σ a b = eqT s t :=
  (eq_link σ n).1 a b s t ha hb hf hk

/-- a concrete heap meeting the hypotheses: cell 0 is `[1]`, cells 1 and 2 are two lists `[c, c]` sharing cell 0 -/
def demoState : State :=
  ⟨#[.list [SVal.plain (.int 1)], .list [SVal.plain (.list 0), SVal.plain (.list 0)],
     .list [SVal.plain (.list 0), SVal.plain (.list 0)]], []⟩
def demoInner : Tree := .list (.cons (.int 1) .nil)
def demoTree : Tree := .list (.cons demoInner (.cons demoInner .nil))

theorem demo_unf : Unf demoState (.list 1) demoTree ∧ Unf demoState (.list 2) demoTree ∧ demoTree.FnFree ∧ demoTree.KO := by
  have h0 : Unf demoState (.list 0) demoInner := .list (items := [SVal.plain (.int 1)]) rfl (.cons (.int 1) .nil)
  refine ⟨.list (items := [SVal.plain (.list 0), SVal.plain (.list 0)]) rfl (.cons h0 (.cons h0 .nil)),
    .list (items := [SVal.plain (.list 0), SVal.plain (.list 0)]) rfl (.cons h0 (.cons h0 .nil)), ?_, ?_⟩
  · simp [demoTree, demoInner, Tree.FnFree, Trees.FnFree]
  · simp [demoTree, demoInner, Tree.KO, Trees.KO]

/-- **C10.** true on itself and on every deep copy (any value with the same unfolding), function-free -/
theorem eq_refl {σ : State} {a b : Val} {s : Tree} (n : Nat) (ha : Unf σ a s) (hb : Unf σ b s)
    (hf : s.FnFree) (hk : s.KO) : eqVal n σ a b = .timeout ∨ eqVal n σ a b = .ok true := by
  rcases eq_is_tree_eq n ha hb hf hk with h | h
  · exact Or.inl h
  · right; rw [h, eqT_refl s hf hk]

example : eqVal 5 demoState (.list 1) (.list 2) = .timeout ∨ eqVal 5 demoState (.list 1) (.list 2) = .ok true :=
  eq_refl 5 demo_unf.1 demo_unf.2.1 demo_unf.2.2.1 demo_unf.2.2.2

/-- with enough fuel the answer is there (the hypotheses `eqVal … = .ok x` of the laws below are satisfiable), and
    with too little it is a time-out -/
example : eqVal 5 demoState (.list 1) (.list 2) = .ok true ∧ eqVal 5 demoState (.list 2) (.list 1) = .ok true ∧
    eqVal 2 demoState (.list 1) (.list 2) = .timeout := ⟨by rfl, by rfl, by rfl⟩

/-- **C10.** the answer depends only on the two unfoldings — not on the heap, the addresses, aliasing or history -/
theorem eq_alias_independent {σ σ' : State} {a b a' b' : Val} {s t : Tree} (n m : Nat)
    (ha : Unf σ a s) (hb : Unf σ b t) (ha' : Unf σ' a' s) (hb' : Unf σ' b' t) (hf : s.FnFree) (hk : s.KO)
    (h1 : eqVal n σ a b ≠ .timeout) (h2 : eqVal m σ' a' b' ≠ .timeout) : eqVal n σ a b = eqVal m σ' a' b' := by
  rcases eq_is_tree_eq n ha hb hf hk with h | h
  · exact absurd h h1
  · rcases eq_is_tree_eq m ha' hb' hf hk with h' | h'
    · exact absurd h' h2
    · rw [h, h']

/-- **C10.** never two different booleans for the two operand orders (an error one way and `false` the other way is
    possible and allowed) -/
theorem eq_symm_bool {σ : State} {a b : Val} {s t : Tree} {x y : Bool} (n m : Nat) (ha : Unf σ a s) (hb : Unf σ b t)
    (hfs : s.FnFree) (hft : t.FnFree) (hks : s.KO) (hkt : t.KO)
    (h1 : eqVal n σ a b = .ok x) (h2 : eqVal m σ b a = .ok y) : x = y := by
  have e1 : eqT s t = .ok x := by
    rcases eq_is_tree_eq n ha hb hfs hks with h | h
    · rw [h1] at h; cases h
    · rw [← h, h1]
  have e2 : eqT t s = .ok y := by
    rcases eq_is_tree_eq m hb ha hft hkt with h | h
    · rw [h2] at h; cases h
    · rw [← h, h2]
  exact eqT_sym_bool s t x y hks hkt e1 e2

/-- **C10.** transitive -/
theorem eq_trans {σ : State} {a b c : Val} {s t u : Tree} (n m k : Nat) (ha : Unf σ a s) (hb : Unf σ b t) (hc : Unf σ c u)
    (hfs : s.FnFree) (hft : t.FnFree) (hks : s.KO) (hkt : t.KO)
    (h1 : eqVal n σ a b = .ok true) (h2 : eqVal m σ b c = .ok true) :
    eqVal k σ a c = .timeout ∨ eqVal k σ a c = .ok true := by
  have e1 : eqT s t = .ok true := by
    rcases eq_is_tree_eq n ha hb hfs hks with h | h
    · rw [h1] at h; cases h
    · rw [← h, h1]
  have e2 : eqT t u = .ok true := by
    rcases eq_is_tree_eq m hb hc hft hkt with h | h
    · rw [h2] at h; cases h
    · rw [← h, h2]
  rcases eq_is_tree_eq k ha hc hfs hks with h | h
  · exact Or.inl h
  · right; rw [h]; exact eqT_trans s t u e1 e2

/-- **C10.** comparing acyclic data is a boolean or the mismatch naming two different kinds (or two functions) with
    a path — never the internal failure `bad` (so `==` cannot crash), whatever is shared between the operands -/
theorem eq_mismatch_is_error {σ : State} {a b : Val} {s t : Tree} (n : Nat) (ha : Unf σ a s) (hb : Unf σ b t)
    (hf : s.FnFree) (hk : s.KO) :
    eqVal n σ a b = .timeout ∨ (∃ v, eqVal n σ a b = .ok v) ∨
    (∃ p k1 k2, eqVal n σ a b = .mismatch p (Gen.typeNameDiag k1) (Gen.typeNameDiag k2) ∧
      (k1 ≠ k2 ∨ k1 = .Func ∨ k1 = .BuiltinFunc)) := by
  rcases eq_is_tree_eq n ha hb hf hk with h | h
  · exact Or.inl h
  · right; rw [h]; exact eqT_good s t

theorem eq_no_crash {σ : State} {a b : Val} {s t : Tree} (n : Nat) (loc : Loc) (ha : Unf σ a s) (hb : Unf σ b t)
    (hf : s.FnFree) (hk : s.KO) (w : List Char) (σ' : State) : applyBinOp n σ .Eq loc a b ≠ .crash w σ' := by
  intro hc
  simp only [applyBinOp] at hc
  rcases eq_mismatch_is_error n ha hb hf hk with h | ⟨v, h⟩ | ⟨p, k1, k2, h, _⟩ <;> rw [h] at hc <;> cases hc

/-- the laws on trees themselves (no heap): reflexive on function-free trees, same boolean both ways, transitive,
    total -/
theorem tree_laws :
    (∀ s : Tree, s.FnFree → s.KO → eqT s s = .ok true) ∧
    (∀ s t x y, s.KO → t.KO → eqT s t = .ok x → eqT t s = .ok y → x = y) ∧
    (∀ s t u, eqT s t = .ok true → eqT t u = .ok true → eqT s u = .ok true) ∧
    (∀ s t, Good (eqT s t)) :=
  ⟨eqT_refl, fun s => eqT_sym_bool s, fun s => eqT_trans s, eqT_good⟩

/-- the two orders really can differ as error versus `false` (so `eq_symm_bool` is the strongest symmetric law):
    `{b:"s",c:1} == {a:1,b:2}` is a mismatch at `.'b'`, the other order is `false` -/
example :
    eqT (.obj (.cons c!"b" (.str [115]) (.cons c!"c" (.int 1) .nil))) (.obj (.cons c!"a" (.int 1) (.cons c!"b" (.int 2) .nil)))
      = .mismatch c!".'b'" c!"string" c!"int" ∧
    eqT (.obj (.cons c!"a" (.int 1) (.cons c!"b" (.int 2) .nil))) (.obj (.cons c!"b" (.str [115]) (.cons c!"c" (.int 1) .nil)))
      = .ok false := by
  constructor <;> simp [eqT, eqPs, Props.get, Props.toList, getP, Props.length, EqRes.prefixPath, Tree.kind, Gen.typeNameDiag]

/-- **C10.** `true` exactly on equal unfoldings.  `Canon`: the keys of every object are in increasing order (how
    `BTreeMap` stores them; `objInsert` of the model keeps it), so an unfolding is a canonical form: the value's
    shape and contents and nothing else. -/
theorem eq_true_iff {s t : Tree} (hf : s.FnFree) (hs : s.Canon) (ht : t.Canon) : eqT s t = .ok true ↔ s = t :=
  ⟨eqT_true_eq s t hs ht, fun h => h ▸ eqT_refl s hf (Tree.Canon.KO s hs)⟩

example : demoTree.FnFree ∧ demoTree.Canon := by
  constructor <;> simp [demoTree, demoInner, Tree.FnFree, Trees.FnFree, Tree.Canon, Trees.Canon]

/-- on the heap: an answer `true` means the two values have the same unfolding (never `true` on different shapes or
    contents) -/
theorem eq_true_same_unfolding {σ : State} {a b : Val} {s t : Tree} (n : Nat) (ha : Unf σ a s) (hb : Unf σ b t)
    (hf : s.FnFree) (hs : s.Canon) (ht : t.Canon) (h : eqVal n σ a b = .ok true) : s = t := by
  rcases eq_is_tree_eq n ha hb hf (Tree.Canon.KO s hs) with h' | h'
  · rw [h] at h'; cases h'
  · exact (eq_true_iff hf hs ht).mp (by rw [← h', h])

end Seed.C10
