/-
  C10 — `==` is a structural equivalence; `===` is identity; comparing never mutates.

  Part 1 (this file, primitive layer): `eqVal` on scalars, the identity short-cut, `refEq`, `!=`/`!==` as negations,
  purity, the shape of the mismatch diagnostic.
  Part 2 (`Lemmas/C10Tree.lean`, re-exported at the end of this file): the inductive unfolding of acyclic values and
  the laws of `==` on unfoldings (reflexive on function-free values, same boolean in both orders, transitive,
  independent of addresses), tied to `eqVal` on the heap.
-/
import SeedProofs.Lemmas.C10Tree
namespace Seed.C10
open Seed

/-! ## scalars -/

/-- on null, bools, ints and strings `==` is equality of the values -/
theorem eq_scalars (n : Nat) (σ : State) :
    eqVal (n + 1) σ .null .null = .ok true ∧
    (∀ x y : Bool, eqVal (n + 1) σ (.bool x) (.bool y) = .ok (decide (x = y))) ∧
    (∀ x y : Int, eqVal (n + 1) σ (.int x) (.int y) = .ok (decide (x = y))) ∧
    (∀ x y : Bytes, eqVal (n + 1) σ (.str x) (.str y) = .ok (decide (x = y))) := by
  refine ⟨by simp [eqVal], ?_, ?_, ?_⟩
  · intro x y; cases x <;> cases y <;> simp [eqVal]
  · intro x y
    have : (x == y) = decide (x = y) := by by_cases h : x = y <;> simp [h]
    simp [eqVal, this]
  · intro x y
    have : (x == y) = decide (x = y) := by by_cases h : x = y <;> simp [h]
    simp [eqVal, this]

/-! ## identity -/

/-- a container compared with itself is equal, whatever it contains (the identity short-cut) -/
theorem eq_same_container (n : Nat) (σ : State) (x : Addr) :
    eqVal (n + 1) σ (.list x) (.list x) = .ok true ∧ eqVal (n + 1) σ (.obj x) (.obj x) = .ok true := by
  constructor <;> simp [eqVal]

/-- **C10.** `===` is defined exactly on list/list, object/object and function/function pairs, where it is equality
    of the container (address) -/
theorem refEq_spec (a b : Val) (r : Bool) :
    refEq a b = some r ↔
      (∃ x y, a = .list x ∧ b = .list y ∧ r = decide (x = y)) ∨
      (∃ x y, a = .obj x ∧ b = .obj y ∧ r = decide (x = y)) ∨
      (∃ x y, a = .func x ∧ b = .func y ∧ r = decide (x = y)) := by
  have hb : ∀ x y : Addr, (x == y) = decide (x = y) := fun x y => by by_cases h : x = y <;> simp [h]
  cases a <;> cases b <;> simp [refEq, hb, eq_comm]

theorem refEq_undefined (a b : Val) :
    refEq a b = none ↔ ¬ ((a.kind = .List ∧ b.kind = .List) ∨ (a.kind = .Object ∧ b.kind = .Object) ∨
      (a.kind = .Func ∧ b.kind = .Func)) := by
  cases a <;> cases b <;> simp [refEq, Val.kind]

/-- reflexive and symmetric -/
theorem refEq_refl (a : Val) (h : a.kind = .List ∨ a.kind = .Object ∨ a.kind = .Func) : refEq a a = some true := by
  cases a <;> simp_all [refEq, Val.kind]

example : (Val.list 3).kind = .List ∨ (Val.list 3).kind = .Object ∨ (Val.list 3).kind = .Func := Or.inl rfl

theorem refEq_symm (a b : Val) : refEq a b = refEq b a := by
  cases a <;> cases b <;> simp [refEq, Bool.beq_comm]

/-- `a === b` implies `a == b` for data (lists and objects; for two functions `==` is an error by definition) -/
theorem refEq_implies_eq (n : Nat) (σ : State) (a b : Val) (h : refEq a b = some true)
    (hdata : a.kind ≠ .Func) : eqVal (n + 1) σ a b = .ok true := by
  cases a <;> cases b <;> simp_all [refEq, Val.kind, eqVal]

example : refEq (.obj 2) (.obj 2) = some true ∧ (Val.obj 2).kind ≠ .Func := by decide

/-! ## `!=` and `!==` are the negations -/

/-- ` (at <path>)`, or nothing when the mismatch is at the top -/
def pathSuffix (p : List Char) : List Char := if p.isEmpty then [] else c!" (at " ++ p ++ c!")"

/-- **C10.** `!=` answers `!v` exactly when `==` answers `v`, in the same state; one is an error iff the other is,
    with the same types and path -/
theorem ne_is_not (fuel : Nat) (σ : State) (loc : Loc) (a b : Val) :
    (∀ v, eqVal fuel σ a b = .ok v →
      applyBinOp fuel σ .Eq loc a b = .ok (.bool v) σ ∧ applyBinOp fuel σ .Ne loc a b = .ok (.bool (!v)) σ) ∧
    (∀ p lt rt, eqVal fuel σ a b = .mismatch p lt rt →
      applyBinOp fuel σ .Eq loc a b = .err (Err.at loc (Gen.Leaf.InvalidEqOpTypes .Eq lt rt (pathSuffix p))) σ ∧
      applyBinOp fuel σ .Ne loc a b = .err (Err.at loc (Gen.Leaf.InvalidEqOpTypes .Ne lt rt (pathSuffix p))) σ) := by
  constructor
  · intro v h; simp [applyBinOp, h]
  · intro p lt rt h; simp [applyBinOp, h, pathSuffix]

example : eqVal 1 State.init (.int 1) (.int 2) = .ok false := by simp [eqVal]

/-- whatever `==` answers, `!=` answers the opposite boolean (results of `applyBinOp` compared directly) -/
theorem ne_negates (fuel : Nat) (σ σ' : State) (loc : Loc) (a b : Val) (v : Val) :
    applyBinOp fuel σ .Eq loc a b = .ok v σ' →
      ∃ x, v = .bool x ∧ applyBinOp fuel σ .Ne loc a b = .ok (.bool (!x)) σ' := by
  intro h
  simp only [applyBinOp] at h ⊢
  cases hr : eqVal fuel σ a b with
  | ok x =>
    rw [hr] at h
    simp only [if_true, Res.ok.injEq] at h
    obtain ⟨rfl, rfl⟩ := h
    exact ⟨x, rfl, by simp⟩
  | mismatch p lt rt => rw [hr] at h; cases h
  | bad => rw [hr] at h; cases h
  | timeout => rw [hr] at h; cases h

/-- the same for `===`/`!==` -/
theorem refNe_negates (fuel : Nat) (σ : State) (loc : Loc) (a b : Val) :
    (∀ v, refEq a b = some v →
      applyBinOp fuel σ .RefEq loc a b = .ok (.bool v) σ ∧ applyBinOp fuel σ .RefNe loc a b = .ok (.bool (!v)) σ) ∧
    (refEq a b = none →
      applyBinOp fuel σ .RefEq loc a b = .err (invalidOpTypes .RefEq loc a b) σ ∧
      applyBinOp fuel σ .RefNe loc a b = .err (invalidOpTypes .RefNe loc a b) σ) := by
  constructor
  · intro v h; simp [applyBinOp, h]
  · intro h; simp [applyBinOp, h]

/-! ## comparing never mutates -/

/-- **C10.** the four comparison operators hand back the state they were given, on every outcome that has a state -/
theorem compare_pure (fuel : Nat) (σ : State) (op : BinaryOp) (loc : Loc) (a b : Val)
    (hop : op = .Eq ∨ op = .Ne ∨ op = .RefEq ∨ op = .RefNe) :
    (∀ v σ', applyBinOp fuel σ op loc a b = .ok v σ' → σ' = σ) ∧
    (∀ e σ', applyBinOp fuel σ op loc a b = .err e σ' → σ' = σ) ∧
    (∀ w σ', applyBinOp fuel σ op loc a b = .crash w σ' → σ' = σ) := by
  rcases hop with rfl | rfl | rfl | rfl
  · simp only [applyBinOp]
    cases eqVal fuel σ a b <;> simp
  · simp only [applyBinOp]
    cases eqVal fuel σ a b <;> simp
  · simp only [applyBinOp]
    cases refEq a b <;> simp
  · simp only [applyBinOp]
    cases refEq a b <;> simp

/-! ## the mismatch diagnostic -/

/-- reaching two values of different kinds, or two functions, at the top is reported with both type names in order -/
theorem eq_mismatch_top (n : Nat) (σ : State) (a b : Val)
    (h : a.kind ≠ b.kind ∨ a.kind = .Func ∨ a.kind = .BuiltinFunc) :
    eqVal (n + 1) σ a b = .mismatch [] (Gen.typeNameDiag a.kind) (Gen.typeNameDiag b.kind) := by
  cases a <;> cases b <;> simp_all [eqVal, Val.kind]

example : (Val.int 1).kind ≠ (Val.str []).kind ∨ (Val.int 1).kind = .Func ∨ (Val.int 1).kind = .BuiltinFunc := by decide

/-- below the top the path to the offending pair is prefixed: `[i]` for list items, `.'k'` for properties -/
theorem eq_mismatch_path (p q lt rt : List Char) :
    (EqRes.mismatch q lt rt).prefixPath p = .mismatch (p ++ q) lt rt ∧
    (∀ b, (EqRes.ok b).prefixPath p = .ok b) := ⟨rfl, fun _ => rfl⟩

/-- the text: `can't apply '==' to '<lhs>' and '<rhs>' (at <path>)`, the path part only when non-empty -/
theorem eq_mismatch_msg (fuel : Nat) (σ : State) (loc : Loc) (a b : Val) (p lt rt : List Char)
    (h : eqVal fuel σ a b = .mismatch p lt rt) :
    applyBinOp fuel σ .Eq loc a b = .err (Err.at loc (Gen.Leaf.InvalidEqOpTypes .Eq lt rt (pathSuffix p))) σ ∧
    (Gen.Leaf.InvalidEqOpTypes .Eq lt rt (pathSuffix p)).msg =
      c!"can't apply '==' to '" ++ lt ++ c!"' and '" ++ rt ++ c!"'" ++ pathSuffix p ∧
    pathSuffix [] = [] ∧ pathSuffix c!"[1]" = c!" (at [1])" :=
  ⟨((ne_is_not fuel σ loc a b).2 p lt rt h).1, rfl, rfl, rfl⟩

/-- an instance with shared sub-structure, through the whole pipeline: `[a] == a` for `a := [[]]` is the diagnostic
    naming `list` and… nothing to mismatch — it is `false` by length; `[a, 1] == [a, "x"]` names the path -/
example :
    (run 300 c!"t.sd" c!"a := [[]]\nprint([a] == a)\nprint(a == [a])\nb := [a, 1]\nprint(b == [a, \"x\"])\n").out = [c!"false", c!"false"] ∧
    (run 300 c!"t.sd" c!"a := [[]]\nprint([a] == a)\nprint(a == [a])\nb := [a, 1]\nprint(b == [a, \"x\"])\n").stderr =
      c!"t.sd:5:9: can't apply '==' to 'int' and 'string' (at [1])\n" := by
  decide +kernel

/-- with functions inside, aliasing matters (outside the property's function-free scope): `a == a` is `true` by the
    identity short-cut while `[f] == [f]` is an error -/
example :
    (run 300 c!"t.sd" c!"fn f() { return 1; }\na := [f]\nprint(a == a)\nprint([f] == [f])\n").out = [c!"true"] ∧
    (run 300 c!"t.sd" c!"fn f() { return 1; }\na := [f]\nprint(a == a)\nprint([f] == [f])\n").stderr =
      c!"t.sd:4:11: can't apply '==' to 'func' and 'func' (at [0])\n" := by
  decide +kernel

/-- the two operand orders can differ as *error versus false* (never as two different booleans):
    `{b:"s",c:1} == {a:1,b:2}` errors, `{a:1,b:2} == {b:"s",c:1}` is `false` -/
example :
    (run 300 c!"t.sd" c!"print({\"a\": 1, \"b\": 2} == {\"b\": \"s\", \"c\": 1})\nprint({\"b\": \"s\", \"c\": 1} == {\"a\": 1, \"b\": 2})\n").out = [c!"false"] ∧
    (run 300 c!"t.sd" c!"print({\"a\": 1, \"b\": 2} == {\"b\": \"s\", \"c\": 1})\nprint({\"b\": \"s\", \"c\": 1} == {\"a\": 1, \"b\": 2})\n").stderr =
      c!"t.sd:2:26: can't apply '==' to 'string' and 'int' (at .'b')\n" := by
  decide +kernel

end Seed.C10
