/-
  C11 — list/string indexing, slicing and concatenation obey the sequence laws.
  The specifications are stated on the model's evaluator one step above its sub-evaluations: given what the
  container, index and bound expressions evaluate to, the result is the `List` operation named in the theorem.
-/
import SeedModel.Eval
namespace Seed.C11
open Seed Gen

/-! ### reading -/

/-- `xs[i]` on a list: defined exactly for `i < len` (after the non-negativity check of `evalToIndex`), and then the i-th element -/
theorem index_list_spec (n : Nat) (σ σ1 σ2 : State) (sc : List Addr) (ex locat : Expr) (loc : Loc) (a : Addr) (s : Option Val)
    (i : Nat) (items : List SVal)
    (h1 : evalExpr n σ sc ex = .ok ⟨.list a, s⟩ σ1) (h2 : evalToIndex n σ1 sc locat = .ok i σ2) (h3 : σ2.getList a = some items) :
    evalExpr (n + 1) σ sc (.mk (.Index ex locat) loc) =
      match items[i]? with
      | some v => .ok v σ2
      | none => errAt loc (Leaf.OutOfListBounds i) σ2 := by
  conv => lhs; unfold evalExpr
  simp only [h1, h2, h3, Res.bind]
  cases items[i]? <;> rfl

/-- `s[i]` on a string: the i-th byte as a one-byte string, defined exactly for `i < len` -/
theorem index_str_spec (n : Nat) (σ σ1 σ2 : State) (sc : List Addr) (ex locat : Expr) (loc : Loc) (bs : Bytes) (s : Option Val) (i : Nat)
    (h1 : evalExpr n σ sc ex = .ok ⟨.str bs, s⟩ σ1) (h2 : evalToIndex n σ1 sc locat = .ok i σ2) :
    evalExpr (n + 1) σ sc (.mk (.Index ex locat) loc) =
      match bs[i]? with
      | some b => .ok (SVal.plain (.str [b])) σ2
      | none => errAt loc (Leaf.OutOfStringBounds i) σ2 := by
  conv => lhs; unfold evalExpr
  simp only [h1, h2, Res.bind]
  cases bs[i]? <;> rfl

/-- a negative index is a reported error, never an element -/
theorem negative_index_err (n : Nat) (σ σ1 : State) (sc : List Addr) (e : Expr) (i : Int) (hi : i < 0)
    (h : evalToInt n σ sc c!"index" e = .ok i σ1) :
    evalToIndex (n + 1) σ sc e = errAt e.loc (Leaf.NegativeIndex i) σ1 := by
  conv => lhs; unfold evalToIndex
  simp only [h, Res.bind, hi, if_true]

/-- a non-integer index is a reported type error -/
theorem non_int_index_err (n : Nat) (σ σ1 : State) (sc : List Addr) (e : Expr) (v : SVal) (hv : ∀ k, v.v ≠ .int k)
    (h : evalExpr n σ sc e = .ok v σ1) :
    evalToInt (n + 1) σ sc c!"index" e = errAt e.loc (Leaf.IncorrectType c!"index" c!"int" v.v.kind) σ1 := by
  conv => lhs; unfold evalToInt
  simp only [h, Res.bind]

/-- `s[a:b]` on a string, omitted bounds meaning 0 and the length: defined exactly for `a ≤ b ≤ len`, and then the bytes
    `(s.drop a).take (b - a)` -/
theorem range_str_spec (n : Nat) (σ σ1 σ2 σ3 : State) (sc : List Addr) (ex : Expr) (start stop : Option Expr) (loc : Loc)
    (a b : Option Nat) (bs : Bytes) (s : Option Val)
    (h1 : evalOptIndex n σ sc start = .ok a σ1) (h2 : evalOptIndex n σ1 sc stop = .ok b σ2)
    (h3 : evalExpr n σ2 sc ex = .ok ⟨.str bs, s⟩ σ3) :
    evalExpr (n + 1) σ sc (.mk (.RangeIndex ex start stop) loc) =
      if a.getD 0 ≤ b.getD bs.length ∧ b.getD bs.length ≤ bs.length
      then .ok (SVal.plain (.str ((bs.drop (a.getD 0)).take (b.getD bs.length - a.getD 0)))) σ3
      else errAt loc (Leaf.RangeOutOfStringBounds (a.getD 0) (b.getD bs.length)) σ3 := by
  conv => lhs; unfold evalExpr
  simp only [h1, h2, h3, Res.bind, Bool.and_eq_true, decide_eq_true_eq]

/-- `xs[a:b]` on a list: a *fresh* list cell holding `(xs.drop a).take (b - a)`; defined exactly for `a ≤ b ≤ len` -/
theorem range_list_spec (n : Nat) (σ σ1 σ2 σ3 : State) (sc : List Addr) (ex : Expr) (start stop : Option Expr) (loc : Loc)
    (a b : Option Nat) (addr : Addr) (items : List SVal) (s : Option Val)
    (h1 : evalOptIndex n σ sc start = .ok a σ1) (h2 : evalOptIndex n σ1 sc stop = .ok b σ2)
    (h3 : evalExpr n σ2 sc ex = .ok ⟨.list addr, s⟩ σ3) (h4 : σ3.getList addr = some items) :
    evalExpr (n + 1) σ sc (.mk (.RangeIndex ex start stop) loc) =
      if a.getD 0 ≤ b.getD items.length ∧ b.getD items.length ≤ items.length
      then .ok (SVal.plain (.list σ3.heap.size))
            (σ3.alloc (.list ((items.drop (a.getD 0)).take (b.getD items.length - a.getD 0)))).2
      else errAt loc (Leaf.RangeOutOfListBounds (a.getD 0) (b.getD items.length)) σ3 := by
  conv => lhs; unfold evalExpr
  simp only [h1, h2, h3, h4, Res.bind, Bool.and_eq_true, decide_eq_true_eq]
  split <;> rfl

/-! ### the `take`/`drop` algebra behind the laws -/

/-- length of a slice -/
theorem slice_length {α} (xs : List α) (a b : Nat) (hab : a ≤ b) (hb : b ≤ xs.length) :
    ((xs.drop a).take (b - a)).length = b - a := by
  simp only [List.length_take, List.length_drop]; omega

/-- k-th element of a slice is the (a+k)-th element -/
theorem slice_get {α} (xs : List α) (a b k : Nat) (hk : k < b - a) : ((xs.drop a).take (b - a))[k]? = xs[a + k]? := by
  rw [List.getElem?_take_of_lt hk, List.getElem?_drop]

/-- `s[:k] + s[k:] == s` -/
theorem split_join {α} (xs : List α) (k : Nat) :
    (xs.drop 0).take (k - 0) ++ (xs.drop k).take (xs.length - k) = xs := by
  have h : (xs.drop k).take (xs.length - k) = xs.drop k := List.take_of_length_le (by simp)
  rw [h, List.drop_zero, Nat.sub_zero]
  exact List.take_append_drop k xs

/-- `(s+t)[len(s)+i] == t[i]` and `(s+t)[i] == s[i]` for `i < len(s)` -/
theorem concat_right {α} (xs ys : List α) (i : Nat) : (xs ++ ys)[xs.length + i]? = ys[i]? := by
  rw [List.getElem?_append_right (by omega)]; congr 1; omega
theorem concat_left {α} (xs ys : List α) (i : Nat) (h : i < xs.length) : (xs ++ ys)[i]? = xs[i]? :=
  List.getElem?_append_left h

/-- `+` on two lists is `++` of their items in a fresh cell; on strings it is byte append -/
theorem concat_lists (n : Nat) (σ : State) (loc : Loc) (x y : Addr) (xs ys : List SVal)
    (hx : σ.getList x = some xs) (hy : σ.getList y = some ys) :
    applyBinOp n σ .Sum loc (.list x) (.list y) = .ok (.list σ.heap.size) (σ.alloc (.list (xs ++ ys))).2 := by
  simp [applyBinOp, hx, hy, State.alloc]
theorem concat_strs (n : Nat) (σ : State) (loc : Loc) (x y : Bytes) :
    applyBinOp n σ .Sum loc (.str x) (.str y) = .ok (.str (x ++ y)) σ := by
  simp [applyBinOp]

/-! ### updating -/

/-- `listSet` changes position `i` only and keeps the length -/
theorem listSet_length {α} (xs : List α) (i : Nat) (v : α) : (listSet xs i v).length = xs.length := by
  induction xs generalizing i with
  | nil => rfl
  | cons x r ih => cases i <;> simp [listSet, ih]

theorem listSet_get {α} (xs : List α) (i j : Nat) (v : α) (hi : i < xs.length) :
    (listSet xs i v)[j]? = if j = i then some v else xs[j]? := by
  induction xs generalizing i j with
  | nil => simp at hi
  | cons x r ih =>
    cases i with
    | zero => cases j <;> simp [listSet]
    | succ i =>
      cases j with
      | zero => simp [listSet]
      | succ j =>
        simp only [listSet, List.getElem?_cons_succ, List.length_cons] at hi ⊢
        rw [ih i j (by omega)]
        simp

/-- writing `vals` at `start` keeps the length when the range fits -/
theorem listSplice_length {α} (xs vals : List α) (start : Nat) (h : start + vals.length ≤ xs.length) :
    (listSplice xs start vals).length = xs.length := by
  unfold listSplice
  simp only [List.length_append, List.length_take, List.length_drop]
  omega

/-- after `xs[a:b] = ys` (with `len ys = b - a`, `a + len ys ≤ len xs`): positions `a..b` hold `ys`, every other position is
    unchanged -/
theorem listSplice_get {α} (xs vals : List α) (start j : Nat) (h : start + vals.length ≤ xs.length) :
    (listSplice xs start vals)[j]? =
      if j < start then xs[j]? else if j < start + vals.length then vals[j - start]? else xs[j]? := by
  unfold listSplice
  by_cases h1 : j < start
  · simp only [h1, if_true]
    rw [List.append_assoc, List.getElem?_append_left (by simp; omega), List.getElem?_take_of_lt h1]
  · simp only [h1, if_false]
    have hlen : (xs.take start).length = start := by simp; omega
    rw [List.append_assoc, List.getElem?_append_right (by omega), hlen]
    by_cases h2 : j < start + vals.length
    · simp only [h2, if_true]
      rw [List.getElem?_append_left (by omega)]
    · simp only [h2, if_false]
      rw [List.getElem?_append_right (by omega), List.getElem?_drop]
      congr 1; omega

/-- `xs[a:b] = ys` (`bindRangeIndex`): with omitted bounds meaning 0 and **the length of `xs`**, it succeeds exactly when
    `a < b ≤ len xs` and `len ys = b - a`, and then stores `xs.take a ++ ys ++ xs.drop b` in the same cell; otherwise it
    is the specific reported error -/
theorem range_assign_spec (n : Nat) (σ σ1 σ2 : State) (sc : List Addr) (addr : Addr) (start stop : Option Expr) (loc : Loc)
    (rhs : List SVal) (names : List (List Char)) (s e : Option Nat) (items : List SVal)
    (h1 : evalOptIndex n σ sc start = .ok s σ1) (h2 : evalOptIndex n σ1 sc stop = .ok e σ2) (h3 : σ2.getList addr = some items) :
    bindRangeIndex (n + 1) σ sc addr start stop loc rhs names =
      let lo := s.getD 0
      let hi := e.getD items.length
      if lo > items.length then errAt loc (Leaf.RangeStartOutOfListBounds lo items.length) σ2
      else if lo ≥ hi then errAt loc (Leaf.RangeStartNotBeforeEnd lo hi) σ2
      else if hi > items.length then errAt loc (Leaf.RangeEndOutOfListBounds hi items.length) σ2
      else if hi - lo ≠ rhs.length then errAt loc (Leaf.RangeIndexItemMismatch (hi - lo) rhs.length) σ2
      else .ok names (σ2.set addr (.list (listSplice items lo rhs))) := by
  conv => lhs; unfold bindRangeIndex
  simp only [h1, h2, h3, Res.bind]

/-- in the success case the stored list is `xs.take a ++ ys ++ xs.drop b` -/
theorem splice_is_take_ys_drop {α} (xs ys : List α) (a b : Nat) (hlen : b - a = ys.length) (hab : a < b) :
    listSplice xs a ys = xs.take a ++ ys ++ xs.drop b := by
  unfold listSplice
  congr 2; omega

/-- non-vacuity: a concrete range assignment on a 5-element list -/
example : listSplice [1, 2, 3, 4, 5] 2 [7, 8, 9] = [1, 2, 7, 8, 9] := by decide
example : listSplice [1, 2, 3, 4, 5] 1 [0] = [1, 0, 3, 4, 5] := by decide

end Seed.C11
