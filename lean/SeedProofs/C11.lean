import SeedModel.Eval
namespace Seed.C11

/-- writing `vals` at `start` keeps the length when the range fits -/
theorem listSplice_length {α} (xs vals : List α) (start : Nat) (h : start + vals.length ≤ xs.length) :
    (listSplice xs start vals).length = xs.length := by
  unfold listSplice
  simp only [List.length_append, List.length_take, List.length_drop]
  omega

/-- `xs.take k ++ xs.drop k = xs`: the law behind `s[:k] + s[k:] == s` -/
theorem split_join {α} (xs : List α) (k : Nat) : xs.take k ++ xs.drop k = xs := List.take_append_drop k xs

end Seed.C11
