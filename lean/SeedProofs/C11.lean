/-
  C11 — list/string indexing, slicing and concatenation obey the sequence laws.
  The specifications are stated on the model's evaluator one step above its sub-evaluations: given what the
  container, index and bound expressions evaluate to, the result is the `List` operation named in the theorem.
-/
import SeedModel.Eval
import SeedModel.Run
import SeedProofs.Lemmas.C11Prog3
namespace Seed.C11
open Seed Gen

/-! ### reading -/

/-- `xs[i]` on a list: defined exactly for `i < len` (after the non-negativity check of `evalToIndex`), and then the i-th element -/
theorem index_list_spec (n : Nat) (σ σ1 σ2 : State) (sc : List Addr) (ex locat : Expr) (loc : Loc) (a : Addr) (s : Option Val)
    (i : Nat) (items : List SVal)
    (h1 : evalExpr n σ sc ex = .ok ⟨.list a, s⟩ σ1) (h2 : evalToIndex n σ1 sc locat = .ok i σ2) (h3 : σ2.getList a = some items) :
    evalExpr (n + 1) σ sc (.mk (.Index ex locat) loc) =
      match items[i]? with
      | some v => .ok v σ2
      | none => errAt loc (Leaf.OutOfListBounds i) σ2 := by
  conv => lhs; unfold evalExpr
  simp only [h1, h2, h3, Res.bind]
  cases items[i]? <;> rfl

/-- `s[i]` on a string: the i-th byte as a one-byte string, defined exactly for `i < len` -/
theorem index_str_spec (n : Nat) (σ σ1 σ2 : State) (sc : List Addr) (ex locat : Expr) (loc : Loc) (bs : Bytes) (s : Option Val) (i : Nat)
    (h1 : evalExpr n σ sc ex = .ok ⟨.str bs, s⟩ σ1) (h2 : evalToIndex n σ1 sc locat = .ok i σ2) :
    evalExpr (n + 1) σ sc (.mk (.Index ex locat) loc) =
      match bs[i]? with
      | some b => .ok (SVal.plain (.str [b])) σ2
      | none => errAt loc (Leaf.OutOfStringBounds i) σ2 := by
  conv => lhs; unfold evalExpr
  simp only [h1, h2, Res.bind]
  cases bs[i]? <;> rfl

/-- a negative index is a reported error, never an element -/
theorem negative_index_err (n : Nat) (σ σ1 : State) (sc : List Addr) (e : Expr) (i : Int) (hi : i < 0)
    (h : evalToInt n σ sc c!"index" e = .ok i σ1) :
    evalToIndex (n + 1) σ sc e = errAt e.loc (Leaf.NegativeIndex i) σ1 := by
  conv => lhs; unfold evalToIndex
  simp only [h, Res.bind, hi, if_true]

/-- a non-integer index is a reported type error -/
theorem non_int_index_err (n : Nat) (σ σ1 : State) (sc : List Addr) (e : Expr) (v : SVal) (hv : ∀ k, v.v ≠ .int k)
    (h : evalExpr n σ sc e = .ok v σ1) :
    evalToInt (n + 1) σ sc c!"index" e = errAt e.loc (Leaf.IncorrectType c!"index" c!"int" v.v.kind) σ1 := by
  conv => lhs; unfold evalToInt
  simp only [h, Res.bind]

/-- `s[a:b]` on a string, omitted bounds meaning 0 and the length: defined exactly for `a ≤ b ≤ len`, and then the bytes
    `(s.drop a).take (b - a)` -/
theorem range_str_spec (n : Nat) (σ σ1 σ2 σ3 : State) (sc : List Addr) (ex : Expr) (start stop : Option Expr) (loc : Loc)
    (a b : Option Nat) (bs : Bytes) (s : Option Val)
    (h1 : evalOptIndex n σ sc start = .ok a σ1) (h2 : evalOptIndex n σ1 sc stop = .ok b σ2)
    (h3 : evalExpr n σ2 sc ex = .ok ⟨.str bs, s⟩ σ3) :
    evalExpr (n + 1) σ sc (.mk (.RangeIndex ex start stop) loc) =
      if a.getD 0 ≤ b.getD bs.length ∧ b.getD bs.length ≤ bs.length
      then .ok (SVal.plain (.str ((bs.drop (a.getD 0)).take (b.getD bs.length - a.getD 0)))) σ3
      else errAt loc (Leaf.RangeOutOfStringBounds (a.getD 0) (b.getD bs.length)) σ3 := by
  conv => lhs; unfold evalExpr
  simp only [h1, h2, h3, Res.bind, Bool.and_eq_true, decide_eq_true_eq]

/-- `xs[a:b]` on a list: a *fresh* list cell holding `(xs.drop a).take (b - a)`; defined exactly for `a ≤ b ≤ len` -/
theorem range_list_spec (n : Nat) (σ σ1 σ2 σ3 : State) (sc : List Addr) (ex : Expr) (start stop : Option Expr) (loc : Loc)
    (a b : Option Nat) (addr : Addr) (items : List SVal) (s : Option Val)
    (h1 : evalOptIndex n σ sc start = .ok a σ1) (h2 : evalOptIndex n σ1 sc stop = .ok b σ2)
    (h3 : evalExpr n σ2 sc ex = .ok ⟨.list addr, s⟩ σ3) (h4 : σ3.getList addr = some items) :
    evalExpr (n + 1) σ sc (.mk (.RangeIndex ex start stop) loc) =
      if a.getD 0 ≤ b.getD items.length ∧ b.getD items.length ≤ items.length
      then .ok (SVal.plain (.list σ3.heap.size))
            (σ3.alloc (.list ((items.drop (a.getD 0)).take (b.getD items.length - a.getD 0)))).2
      else errAt loc (Leaf.RangeOutOfListBounds (a.getD 0) (b.getD items.length)) σ3 := by
  conv => lhs; unfold evalExpr
  simp only [h1, h2, h3, h4, Res.bind, Bool.and_eq_true, decide_eq_true_eq]
  split <;> rfl

/-! ### the `take`/`drop` algebra behind the laws -/

/-- length of a slice -/
theorem slice_length {α} (xs : List α) (a b : Nat) (hab : a ≤ b) (hb : b ≤ xs.length) :
    ((xs.drop a).take (b - a)).length = b - a := by
  simp only [List.length_take, List.length_drop]; omega

/-- k-th element of a slice is the (a+k)-th element -/
theorem slice_get {α} (xs : List α) (a b k : Nat) (hk : k < b - a) : ((xs.drop a).take (b - a))[k]? = xs[a + k]? := by
  rw [List.getElem?_take_of_lt hk, List.getElem?_drop]

/-- `s[:k] + s[k:] == s` -/
theorem split_join {α} (xs : List α) (k : Nat) :
    (xs.drop 0).take (k - 0) ++ (xs.drop k).take (xs.length - k) = xs := by
  have h : (xs.drop k).take (xs.length - k) = xs.drop k := List.take_of_length_le (by simp)
  rw [h, List.drop_zero, Nat.sub_zero]
  exact List.take_append_drop k xs

/-- `(s+t)[len(s)+i] == t[i]` and `(s+t)[i] == s[i]` for `i < len(s)` -/
theorem concat_right {α} (xs ys : List α) (i : Nat) : (xs ++ ys)[xs.length + i]? = ys[i]? := by
  rw [List.getElem?_append_right (by omega)]; congr 1; omega
theorem concat_left {α} (xs ys : List α) (i : Nat) (h : i < xs.length) : (xs ++ ys)[i]? = xs[i]? :=
  List.getElem?_append_left h

/-- `+` on two lists is `++` of their items in a fresh cell; on strings it is byte append -/
theorem concat_lists (n : Nat) (σ : State) (loc : Loc) (x y : Addr) (xs ys : List SVal)
    (hx : σ.getList x = some xs) (hy : σ.getList y = some ys) :
    applyBinOp n σ .Sum loc (.list x) (.list y) = .ok (.list σ.heap.size) (σ.alloc (.list (xs ++ ys))).2 := by
  simp [applyBinOp, hx, hy, State.alloc]
theorem concat_strs (n : Nat) (σ : State) (loc : Loc) (x y : Bytes) :
    applyBinOp n σ .Sum loc (.str x) (.str y) = .ok (.str (x ++ y)) σ := by
  simp [applyBinOp]

/-! ### updating -/

/-- `listSet` changes position `i` only and keeps the length -/
theorem listSet_length {α} (xs : List α) (i : Nat) (v : α) : (listSet xs i v).length = xs.length := by
  induction xs generalizing i with
  | nil => rfl
  | cons x r ih => cases i <;> simp [listSet, ih]

theorem listSet_get {α} (xs : List α) (i j : Nat) (v : α) (hi : i < xs.length) :
    (listSet xs i v)[j]? = if j = i then some v else xs[j]? := by
  induction xs generalizing i j with
  | nil => simp at hi
  | cons x r ih =>
    cases i with
    | zero => cases j <;> simp [listSet]
    | succ i =>
      cases j with
      | zero => simp [listSet]
      | succ j =>
        simp only [listSet, List.getElem?_cons_succ, List.length_cons] at hi ⊢
        rw [ih i j (by omega)]
        simp

/-- writing `vals` at `start` keeps the length when the range fits -/
theorem listSplice_length {α} (xs vals : List α) (start : Nat) (h : start + vals.length ≤ xs.length) :
    (listSplice xs start vals).length = xs.length := by
  unfold listSplice
  simp only [List.length_append, List.length_take, List.length_drop]
  omega

/-- after `xs[a:b] = ys` (with `len ys = b - a`, `a + len ys ≤ len xs`): positions `a..b` hold `ys`, every other position is
    unchanged -/
theorem listSplice_get {α} (xs vals : List α) (start j : Nat) (h : start + vals.length ≤ xs.length) :
    (listSplice xs start vals)[j]? =
      if j < start then xs[j]? else if j < start + vals.length then vals[j - start]? else xs[j]? := by
  unfold listSplice
  by_cases h1 : j < start
  · simp only [h1, if_true]
    rw [List.append_assoc, List.getElem?_append_left (by simp; omega), List.getElem?_take_of_lt h1]
  · simp only [h1, if_false]
    have hlen : (xs.take start).length = start := by simp; omega
    rw [List.append_assoc, List.getElem?_append_right (by omega), hlen]
    by_cases h2 : j < start + vals.length
    · simp only [h2, if_true]
      rw [List.getElem?_append_left (by omega)]
    · simp only [h2, if_false]
      rw [List.getElem?_append_right (by omega), List.getElem?_drop]
      congr 1; omega

/-- `xs[a:b] = ys` (`bindRangeIndex`): with omitted bounds meaning 0 and **the length of `xs`**, it succeeds exactly when
    `a < b ≤ len xs` and `len ys = b - a`, and then stores `xs.take a ++ ys ++ xs.drop b` in the same cell; otherwise it
    is the specific reported error -/
theorem range_assign_spec (n : Nat) (σ σ1 σ2 : State) (sc : List Addr) (addr : Addr) (start stop : Option Expr) (loc : Loc)
    (rhs : List SVal) (names : List (List Char)) (s e : Option Nat) (items : List SVal)
    (h1 : evalOptIndex n σ sc start = .ok s σ1) (h2 : evalOptIndex n σ1 sc stop = .ok e σ2) (h3 : σ2.getList addr = some items) :
    bindRangeIndex (n + 1) σ sc addr start stop loc rhs names =
      let lo := s.getD 0
      let hi := e.getD items.length
      if lo > items.length then errAt loc (Leaf.RangeStartOutOfListBounds lo items.length) σ2
      else if lo ≥ hi then errAt loc (Leaf.RangeStartNotBeforeEnd lo hi) σ2
      else if hi > items.length then errAt loc (Leaf.RangeEndOutOfListBounds hi items.length) σ2
      else if hi - lo ≠ rhs.length then errAt loc (Leaf.RangeIndexItemMismatch (hi - lo) rhs.length) σ2
      else .ok names (σ2.set addr (.list (listSplice items lo rhs))) := by
  conv => lhs; unfold bindRangeIndex
  simp only [h1, h2, h3, Res.bind]

/-- in the success case the stored list is `xs.take a ++ ys ++ xs.drop b` -/
theorem splice_is_take_ys_drop {α} (xs ys : List α) (a b : Nat) (hlen : b - a = ys.length) (hab : a < b) :
    listSplice xs a ys = xs.take a ++ ys ++ xs.drop b := by
  unfold listSplice
  congr 2; omega

/-- non-vacuity: a concrete range assignment on a 5-element list -/
example : listSplice [1, 2, 3, 4, 5] 2 [7, 8, 9] = [1, 2, 7, 8, 9] := by decide
example : listSplice [1, 2, 3, 4, 5] 1 [0] = [1, 0, 3, 4, 5] := by decide

end Seed.C11

/-! # End to end: the laws composed through the evaluator

  The theorems above are about the primitives and about one evaluator step.  Below they are composed through
  `evalExpr` (`e[i]`, `e[a:b]`, `+`, `==`), `evalToIndex` / `evalOptIndex` (the index and bound expressions) and
  `evalStmt` / `bindNext` / `bindRangeIndex` (`x[i] = e`, `x[a:b] = e`) into statements about whole expressions and
  statements (helper lemmas: Lemmas/C11Prog1–3.lean).  Fuel is explicit: the sub-expressions are hypotheses at fuel `n`
  (by G1 they hold at every larger fuel), the conclusion is an equation at `n + c`.  An index or bound "evaluates to
  the integer `k`" — any integer, so negative indices are covered; `Bound n sc σ b r σ'` says that the optional bound
  `b` is omitted (`r = none`, `σ' = σ`) or evaluates to the integer `r = some k`; `rangeLo` / `rangeHi` are the ends
  of the range with the defaults `0` / the length filled in.
-/
-- audit: Seed.evalToIndex_int Seed.evalToIndex_non_int Seed.evalOptIndex_bound Seed.evalOptIndex_bound_neg Seed.evalExpr_index_list Seed.evalExpr_index_str Seed.evalExpr_range_list Seed.evalExpr_range_str Seed.evalExpr_range_neg_start Seed.evalExpr_range_neg_stop Seed.evalExpr_sum_lists Seed.evalExpr_sum_strs Seed.getList_alloc_old Seed.getList_alloc_new Seed.scopeGet_alloc
-- audit: Seed.eqVal_self Seed.eqItems_self Seed.eqVal_same_items Seed.evalExpr_var Seed.evalExpr_prefix_var Seed.evalExpr_suffix_var Seed.evalExpr_split_join Seed.evalExpr_concat_index Seed.evalExpr_concat_index_str
-- audit: Seed.listSet_getElem? Seed.listSet_len Seed.listSplice_getElem? Seed.listSplice_len Seed.assign_index_stmt Seed.set_list_facts Seed.index_after_assign Seed.assign_range_stmt Seed.assign_range_bad_rhs Seed.index_after_range_assign Seed.evalStmts_after Seed.evalStmts_stmt_err
namespace Seed.C11
open Seed Gen

/-! ## example state -/

/-- scope 0: `x ↦ list 1`, `y ↦ list 2`, `s ↦ "héllo"`; list 1 = `[10, 20, 30]`; list 2 = `[7]` -/
def σd : State :=
  ⟨#[.scope [(c!"x", SVal.plain (.list 1), (1, 0)), (c!"y", SVal.plain (.list 2), (2, 0)),
             (c!"s", SVal.plain (.str (utf8Encode c!"héllo")), (3, 0))],
     .list [SVal.plain (.int 10), SVal.plain (.int 20), SVal.plain (.int 30)],
     .list [SVal.plain (.int 7)]], []⟩

def eX : Expr := .mk (.Var c!"x") (4, 0)
def eY : Expr := .mk (.Var c!"y") (4, 4)
def eS : Expr := .mk (.Var c!"s") (4, 0)
def eInt (k : Int) : Expr := .mk (.Int k) (4, 2)
/-- `0 - 1`: an index expression whose value is negative -/
def eNeg : Expr := .mk (.BinaryOp .Sub (4, 4) (.mk (.Int 0) (4, 2)) (.mk (.Int 1) (4, 6))) (4, 2)

theorem σd_x (n : Nat) : evalExpr (n + 1) σd [0] eX = .ok ⟨.list 1, none⟩ σd := evalExpr_var n _ (by rfl)
theorem σd_y (n : Nat) : evalExpr (n + 1) σd [0] eY = .ok ⟨.list 2, none⟩ σd := evalExpr_var n _ (by rfl)
theorem σd_s (n : Nat) : evalExpr (n + 1) σd [0] eS = .ok ⟨.str (utf8Encode c!"héllo"), none⟩ σd :=
  evalExpr_var n _ (by rfl)
theorem eInt_eval (n : Nat) (σ : State) (sc : List Addr) (k : Int) :
    evalExpr (n + 1) σ sc (eInt k) = .ok ⟨.int k, none⟩ σ := by rw [eInt, evalExpr]; rfl
theorem eNeg_eval (σ : State) (sc : List Addr) : evalExpr 2 σ sc eNeg = .ok ⟨.int (-1), none⟩ σ := by
  with_unfolding_all rfl
theorem σd_list1 : σd.getList 1 = some [SVal.plain (.int 10), SVal.plain (.int 20), SVal.plain (.int 30)] := by rfl
theorem σd_list2 : σd.getList 2 = some [SVal.plain (.int 7)] := by rfl

/-! ## (1) reads outside `[0, len)` are errors, never wrap or clamp -/

/-- **`e[i]` on a list.**  `e` evaluates to the list cell `a` (`σ → σ1`), then `i` to the integer `k` (`σ1 → σ2`), the
    cell holds `xs` then.  The result is `xs[k]` exactly for `0 ≤ k < len xs`; a negative `k` is the error
    `index can't be negative` at the index expression, `k ≥ len` the error `index 'k' is outside the list bounds` at
    the whole expression — there is no wrapping from the end and no clamping. -/
theorem eval_index_list {n : Nat} {σ σ1 σ2 : State} {sc : List Addr} {e i : Expr} (loc : Loc) {a : Addr}
    {s si : Option Val} {k : Int} {xs : List SVal}
    (he : evalExpr n σ sc e = .ok ⟨.list a, s⟩ σ1) (hi : evalExpr n σ1 sc i = .ok ⟨.int k, si⟩ σ2)
    (hxs : σ2.getList a = some xs) :
    (∀ (_ : 0 ≤ k) (hlt : k.toNat < xs.length),
      evalExpr (n + 3) σ sc (.mk (.Index e i) loc) = .ok xs[k.toNat] σ2) ∧
    (k < 0 → evalExpr (n + 3) σ sc (.mk (.Index e i) loc) = errAt i.loc (Leaf.NegativeIndex k) σ2) ∧
    (0 ≤ k → xs.length ≤ k.toNat →
      evalExpr (n + 3) σ sc (.mk (.Index e i) loc) = errAt loc (Leaf.OutOfListBounds k.toNat) σ2) ∧
    (∀ v σ', evalExpr (n + 3) σ sc (.mk (.Index e i) loc) = .ok v σ' →
      0 ≤ k ∧ k.toNat < xs.length ∧ xs[k.toNat]? = some v ∧ σ' = σ2) := by
  have h := evalExpr_index_list loc he hi hxs
  refine ⟨fun h0 hlt => ?_, fun hk => ?_, fun h0 hge => ?_, fun v σ' hv => ?_⟩
  · rw [h, if_neg (by omega), List.getElem?_eq_getElem hlt]
  · rw [h, if_pos hk]
  · rw [h, if_neg (by omega), List.getElem?_eq_none hge]
  · rw [h] at hv
    by_cases hk : k < 0
    · rw [if_pos hk] at hv; cases hv
    · rw [if_neg hk] at hv
      cases hg : xs[k.toNat]? with
      | none => rw [hg] at hv; cases hv
      | some w =>
        rw [hg] at hv
        cases hv
        exact ⟨by omega, (List.getElem?_eq_some_iff.mp hg).1, rfl, rfl⟩

/-- `x[1]` is `20`, `x[3]` and `x[0 - 1]` are the two errors, in the example state -/
example :
    evalExpr 4 σd [0] (.mk (.Index eX (eInt 1)) (4, 0)) = .ok (SVal.plain (.int 20)) σd ∧
    evalExpr 4 σd [0] (.mk (.Index eX (eInt 3)) (4, 0)) = errAt (4, 0) (Leaf.OutOfListBounds 3) σd ∧
    evalExpr 5 σd [0] (.mk (.Index eX eNeg) (4, 0)) = errAt (4, 2) (Leaf.NegativeIndex (-1)) σd :=
  ⟨(eval_index_list (4, 0) (σd_x 0) (eInt_eval 0 σd [0] 1) σd_list1).1 (by decide) (by decide),
   (eval_index_list (4, 0) (σd_x 0) (eInt_eval 0 σd [0] 3) σd_list1).2.2.1 (by decide) (by decide),
   (eval_index_list (4, 0) (σd_x 1) (eNeg_eval σd [0]) σd_list1).2.1 (by decide)⟩

/-- **`e[i]` on a string**: bytes; the result is the one-byte string `[bs[k]]` exactly for `0 ≤ k < len bs` -/
theorem eval_index_str {n : Nat} {σ σ1 σ2 : State} {sc : List Addr} {e i : Expr} (loc : Loc) {bs : Bytes}
    {s si : Option Val} {k : Int}
    (he : evalExpr n σ sc e = .ok ⟨.str bs, s⟩ σ1) (hi : evalExpr n σ1 sc i = .ok ⟨.int k, si⟩ σ2) :
    (∀ (_ : 0 ≤ k) (hlt : k.toNat < bs.length),
      evalExpr (n + 3) σ sc (.mk (.Index e i) loc) = .ok (SVal.plain (.str [bs[k.toNat]])) σ2) ∧
    (k < 0 → evalExpr (n + 3) σ sc (.mk (.Index e i) loc) = errAt i.loc (Leaf.NegativeIndex k) σ2) ∧
    (0 ≤ k → bs.length ≤ k.toNat →
      evalExpr (n + 3) σ sc (.mk (.Index e i) loc) = errAt loc (Leaf.OutOfStringBounds k.toNat) σ2) ∧
    (∀ v σ', evalExpr (n + 3) σ sc (.mk (.Index e i) loc) = .ok v σ' →
      0 ≤ k ∧ k.toNat < bs.length ∧ σ' = σ2) := by
  have h := evalExpr_index_str loc he hi
  refine ⟨fun h0 hlt => ?_, fun hk => ?_, fun h0 hge => ?_, fun v σ' hv => ?_⟩
  · rw [h, if_neg (by omega), List.getElem?_eq_getElem hlt]
  · rw [h, if_pos hk]
  · rw [h, if_neg (by omega), List.getElem?_eq_none hge]
  · rw [h] at hv
    by_cases hk : k < 0
    · rw [if_pos hk] at hv; cases hv
    · rw [if_neg hk] at hv
      cases hg : bs[k.toNat]? with
      | none => rw [hg] at hv; cases hv
      | some w =>
        rw [hg] at hv
        cases hv
        exact ⟨by omega, (List.getElem?_eq_some_iff.mp hg).1, rfl⟩

/-- `s[1]` on `"héllo"` is the single byte `0xC3` (not a character), `s[6]` is out of bounds (the string has 6 bytes) -/
example :
    evalExpr 4 σd [0] (.mk (.Index eS (eInt 1)) (4, 0)) = .ok (SVal.plain (.str [0xC3])) σd ∧
    evalExpr 4 σd [0] (.mk (.Index eS (eInt 6)) (4, 0)) = errAt (4, 0) (Leaf.OutOfStringBounds 6) σd :=
  ⟨(eval_index_str (4, 0) (σd_s 0) (eInt_eval 0 σd [0] 1)).1 (by decide) (by decide),
   (eval_index_str (4, 0) (σd_s 0) (eInt_eval 0 σd [0] 6)).2.2.1 (by decide) (by decide)⟩

/-- a value that is not an integer is not an index: the type error at the index expression -/
theorem eval_index_non_int {n : Nat} {σ σ1 σ2 : State} {sc : List Addr} {e i : Expr} (loc : Loc) {a : Addr}
    {s : Option Val} {w : SVal}
    (he : evalExpr n σ sc e = .ok ⟨.list a, s⟩ σ1) (hi : evalExpr n σ1 sc i = .ok w σ2) (hw : ∀ k, w.v ≠ .int k) :
    evalExpr (n + 3) σ sc (.mk (.Index e i) loc) =
      errAt i.loc (Leaf.IncorrectType c!"index" c!"int" w.v.kind) σ2 := by
  rw [evalExpr, evalExpr_fuel_mono he (by simp) (by omega : n ≤ n + 2)]
  simp only [Res.bind, evalToIndex_non_int hw hi, errAt]

example : evalExpr 4 σd [0] (.mk (.Index eX eY) (4, 0)) = errAt (4, 4) (Leaf.IncorrectType c!"index" c!"int" .List) σd :=
  eval_index_non_int (4, 0) (σd_x 0) (σd_y 0) (by intro k h; cases h)

/-! ## (2) slices -/

/-- **`e[a:b]` on a list**, each bound present or omitted (order of evaluation: start, end, then `e`).  With `lo` / `hi`
    the bounds or their defaults `0` / `len xs`: exactly when `lo ≤ hi ≤ len xs` the result is a FRESH list cell — its
    address is the heap size, no existing cell, and every existing cell is unchanged — holding
    `(xs.drop lo).take (hi - lo)`; otherwise `range [lo:hi] is outside the list bounds`. -/
theorem eval_slice {n : Nat} {σ σ1 σ2 σ3 : State} {sc : List Addr} {e : Expr} {start stop : Option Expr}
    (loc : Loc) {ra rb : Option Int} {a : Addr} {s : Option Val} {xs : List SVal}
    (hA : Bound n sc σ start ra σ1) (hB : Bound n sc σ1 stop rb σ2) (hra : NonNeg ra) (hrb : NonNeg rb)
    (he : evalExpr n σ2 sc e = .ok ⟨.list a, s⟩ σ3) (hxs : σ3.getList a = some xs) :
    evalExpr (n + 4) σ sc (.mk (.RangeIndex e start stop) loc) =
      (if rangeLo ra ≤ rangeHi rb xs.length ∧ rangeHi rb xs.length ≤ xs.length
       then .ok (SVal.plain (.list σ3.heap.size))
          (σ3.alloc (.list ((xs.drop (rangeLo ra)).take (rangeHi rb xs.length - rangeLo ra)))).2
       else errAt loc (Leaf.RangeOutOfListBounds (rangeLo ra) (rangeHi rb xs.length)) σ3) ∧
    σ3.heap[σ3.heap.size]? = none ∧
    (∀ ys, (σ3.alloc (.list ys)).2.getList σ3.heap.size = some ys ∧
      ∀ b, b < σ3.heap.size → (σ3.alloc (.list ys)).2.heap[b]? = σ3.heap[b]?) :=
  ⟨evalExpr_range_list loc hA hB hra hrb he hxs, Array.getElem?_eq_none (Nat.le_refl _),
    fun ys => ⟨getList_alloc_new σ3 ys, fun _ hb => σ3.alloc_heap_old _ hb⟩⟩

/-- `x[1:]` in the example state: a new cell 3 holding `[20, 30]`; `x[2:1]` is the error -/
example :
    evalExpr 5 σd [0] (.mk (.RangeIndex eX (some (eInt 1)) none) (4, 0)) =
      .ok (SVal.plain (.list 3)) (σd.alloc (.list [SVal.plain (.int 20), SVal.plain (.int 30)])).2 ∧
    evalExpr 5 σd [0] (.mk (.RangeIndex eX (some (eInt 2)) (some (eInt 1))) (4, 0)) =
      errAt (4, 0) (Leaf.RangeOutOfListBounds 2 1) σd :=
  ⟨(eval_slice (4, 0) (.given (eInt_eval 0 σd [0] 1)) (.omitted σd) (by decide) (by decide) (σd_x 0) σd_list1).1,
   (eval_slice (4, 0) (.given (eInt_eval 0 σd [0] 2)) (.given (eInt_eval 0 σd [0] 1)) (by decide) (by decide) (σd_x 0)
      σd_list1).1⟩

/-- **`e[a:b]` on a string**: the bytes `(bs.drop lo).take (hi - lo)` exactly when `lo ≤ hi ≤ len bs`; no cell -/
theorem eval_slice_str {n : Nat} {σ σ1 σ2 σ3 : State} {sc : List Addr} {e : Expr} {start stop : Option Expr}
    (loc : Loc) {ra rb : Option Int} {s : Option Val} {bs : Bytes}
    (hA : Bound n sc σ start ra σ1) (hB : Bound n sc σ1 stop rb σ2) (hra : NonNeg ra) (hrb : NonNeg rb)
    (he : evalExpr n σ2 sc e = .ok ⟨.str bs, s⟩ σ3) :
    evalExpr (n + 4) σ sc (.mk (.RangeIndex e start stop) loc) =
      if rangeLo ra ≤ rangeHi rb bs.length ∧ rangeHi rb bs.length ≤ bs.length
      then .ok (SVal.plain (.str ((bs.drop (rangeLo ra)).take (rangeHi rb bs.length - rangeLo ra)))) σ3
      else errAt loc (Leaf.RangeOutOfStringBounds (rangeLo ra) (rangeHi rb bs.length)) σ3 :=
  evalExpr_range_str loc hA hB hra hrb he

/-- `s[1:3]` on `"héllo"` is the two bytes of `é` -/
example : evalExpr 5 σd [0] (.mk (.RangeIndex eS (some (eInt 1)) (some (eInt 3))) (4, 0)) =
    .ok (SVal.plain (.str (utf8Encode c!"é"))) σd :=
  eval_slice_str (4, 0) (.given (eInt_eval 0 σd [0] 1)) (.given (eInt_eval 0 σd [0] 3)) (by decide) (by decide) (σd_s 0)

/-- **a negative bound** is `index can't be negative` at that bound; what comes after it (the end, the sequence) is
    not evaluated -/
theorem eval_slice_negative {n : Nat} {σ σ1 σ2 : State} {sc : List Addr} {e eb : Expr} (loc : Loc) {k : Int}
    (hk : k < 0) :
    (∀ stop, Bound n sc σ (some eb) (some k) σ1 →
      evalExpr (n + 4) σ sc (.mk (.RangeIndex e (some eb) stop) loc) = errAt eb.loc (Leaf.NegativeIndex k) σ1) ∧
    (∀ start ra, Bound n sc σ start ra σ1 → NonNeg ra → Bound n sc σ1 (some eb) (some k) σ2 →
      evalExpr (n + 4) σ sc (.mk (.RangeIndex e start (some eb)) loc) = errAt eb.loc (Leaf.NegativeIndex k) σ2) :=
  ⟨fun _ hA => evalExpr_range_neg_start loc hA hk, fun _ _ hA hra hB => evalExpr_range_neg_stop loc hA hra hB hk⟩

example : evalExpr 6 σd [0] (.mk (.RangeIndex eX (some eNeg) none) (4, 0)) = errAt (4, 2) (Leaf.NegativeIndex (-1)) σd :=
  (eval_slice_negative (σ2 := σd) (4, 0) (by decide)).1 none (.given (eNeg_eval σd [0]))

/-! ## (3) `x[:k] + x[k:] == x`, `(x + y)[i]` -/

/-- **`(x[:k1] + x[k2:]) == x` is `true`** for a list variable `x` (holding the cell `a` with items `xs`, none of them a
    function — two functions are not comparable by definition, C10) and bound expressions that evaluate to the same
    `k`, `0 ≤ k ≤ len xs`, without effects; at every fuel `m ≥ n + len xs + 6`.  The state afterwards has the three new
    cells `xs.take k`, `xs.drop k`, `xs`; `x` and its cell are untouched. -/
theorem slice_concat_law {n : Nat} {σ : State} {sc : List Addr} {x : List Char} {a : Addr} {s s1 s2 : Option Val}
    {xs : List SVal} {k : Int} {k1 k2 : Expr} (l1 l2 l3 l4 l5 lp le lo : Loc)
    (hx : scopeGet σ sc x = some ⟨.list a, s⟩) (hxs : σ.getList a = some xs) (hfn : ∀ v ∈ xs, v.v.NotFn)
    (hk0 : 0 ≤ k) (hk : k.toNat ≤ xs.length)
    (hk1 : evalExpr n σ sc k1 = .ok ⟨.int k, s1⟩ σ)
    (hk2 : evalExpr n (σ.alloc (.list (xs.take k.toNat))).2 sc k2 =
      .ok ⟨.int k, s2⟩ (σ.alloc (.list (xs.take k.toNat))).2)
    {m : Nat} (hm : n + xs.length + 6 ≤ m) :
    evalExpr m σ sc
        (.mk (.BinaryOp .Eq lo
          (.mk (.BinaryOp .Sum lp (.mk (.RangeIndex (.mk (.Var x) l1) none (some k1)) l2)
            (.mk (.RangeIndex (.mk (.Var x) l3) (some k2) none) l4)) l5)
          (.mk (.Var x) le)) l5) =
      .ok (SVal.plain (.bool true)) (splitJoinState σ xs k.toNat) ∧
    scopeGet (splitJoinState σ xs k.toNat) sc x = some ⟨.list a, s⟩ ∧
    (splitJoinState σ xs k.toNat).getList a = some xs :=
  ⟨evalExpr_split_join l1 l2 l3 l4 l5 lp le lo hx hxs hfn hk0 hk hk1 hk2 hm,
    scopeGet_alloc _ (scopeGet_alloc _ (scopeGet_alloc _ hx)),
    getList_alloc_old _ (getList_alloc_old _ (getList_alloc_old _ hxs))⟩

/-- with a literal `k` the two bound hypotheses hold by themselves: for every `k` from `0` to `len xs` -/
theorem slice_concat_law_literal {σ : State} {sc : List Addr} {x : List Char} {a : Addr} {s : Option Val}
    {xs : List SVal} (k : Nat) (l1 l2 l3 l4 l5 lp le lo lk1 lk2 : Loc)
    (hx : scopeGet σ sc x = some ⟨.list a, s⟩) (hxs : σ.getList a = some xs) (hfn : ∀ v ∈ xs, v.v.NotFn)
    (hk : k ≤ xs.length) {m : Nat} (hm : xs.length + 7 ≤ m) :
    evalExpr m σ sc
        (.mk (.BinaryOp .Eq lo
          (.mk (.BinaryOp .Sum lp (.mk (.RangeIndex (.mk (.Var x) l1) none (some (.mk (.Int k) lk1))) l2)
            (.mk (.RangeIndex (.mk (.Var x) l3) (some (.mk (.Int k) lk2)) none) l4)) l5)
          (.mk (.Var x) le)) l5) =
      .ok (SVal.plain (.bool true)) (splitJoinState σ xs k) := by
  have h1 : ∀ σ' : State, ∀ l, evalExpr 1 σ' sc (.mk (.Int k) l) = .ok ⟨.int k, none⟩ σ' := fun σ' l => by
    rw [evalExpr]; rfl
  exact (slice_concat_law (k := (k : Int)) l1 l2 l3 l4 l5 lp le lo hx hxs hfn (Int.natCast_nonneg k) (by simpa using hk)
    (h1 σ lk1) (by simpa using h1 _ lk2) (by omega)).1

/-- in the example state, for the split point 2 -/
example : evalExpr 10 σd [0]
    (.mk (.BinaryOp .Eq (5, 0)
      (.mk (.BinaryOp .Sum (5, 0) (.mk (.RangeIndex eX none (some (.mk (.Int (2 : Nat)) (5, 0)))) (5, 0))
        (.mk (.RangeIndex eX (some (.mk (.Int (2 : Nat)) (5, 0))) none) (5, 0))) (5, 0)) eX) (5, 0)) =
    .ok (SVal.plain (.bool true))
      (splitJoinState σd [SVal.plain (.int 10), SVal.plain (.int 20), SVal.plain (.int 30)] 2) :=
  slice_concat_law_literal 2 _ _ _ _ _ _ _ _ _ _ (by rfl) σd_list1 (by decide) (by decide) (by decide)

/-- **`(e1 + e2)[i]`**: `+` on two lists (cells `a`, `b` holding `xs`, `ys`) allocates `xs ++ ys`; indexing it with
    `k` gives `xs[k]` for `k < len xs`, `ys[k - len xs]` for `len xs ≤ k < len xs + len ys`, and the bounds error from
    there on.  (`hstill`: the index expression leaves the new cell alone — automatic for indices without effects.) -/
theorem concat_index_law {n : Nat} {σ σ1 σ2 σ4 : State} {sc : List Addr} {e1 e2 i : Expr} (lp ls loc : Loc)
    {a b : Addr} {s t si : Option Val} {xs ys : List SVal} {k : Int}
    (h1 : evalExpr n σ sc e1 = .ok ⟨.list a, s⟩ σ1) (h2 : evalExpr n σ1 sc e2 = .ok ⟨.list b, t⟩ σ2)
    (hxs : σ2.getList a = some xs) (hys : σ2.getList b = some ys)
    (hi : evalExpr (n + 1) (σ2.alloc (.list (xs ++ ys))).2 sc i = .ok ⟨.int k, si⟩ σ4)
    (hstill : σ4.getList σ2.heap.size = some (xs ++ ys)) (h0 : 0 ≤ k) :
    (∀ hlt : k.toNat < xs.length,
      evalExpr (n + 4) σ sc (.mk (.Index (.mk (.BinaryOp .Sum lp e1 e2) ls) i) loc) = .ok xs[k.toNat] σ4) ∧
    (∀ (_ : xs.length ≤ k.toNat) (hlt : k.toNat - xs.length < ys.length),
      evalExpr (n + 4) σ sc (.mk (.Index (.mk (.BinaryOp .Sum lp e1 e2) ls) i) loc) =
        .ok ys[k.toNat - xs.length] σ4) ∧
    (xs.length + ys.length ≤ k.toNat →
      evalExpr (n + 4) σ sc (.mk (.Index (.mk (.BinaryOp .Sum lp e1 e2) ls) i) loc) =
        errAt loc (Leaf.OutOfListBounds k.toNat) σ4) := by
  have h := evalExpr_concat_index lp ls loc h1 h2 hxs hys hi hstill
  rw [if_neg (by omega)] at h
  refine ⟨fun hlt => ?_, fun hge hlt => ?_, fun hge => ?_⟩
  · rw [h, if_pos hlt, List.getElem?_eq_getElem hlt]
  · rw [h, if_neg (by omega), List.getElem?_eq_getElem hlt]
  · rw [h, if_neg (by omega), List.getElem?_eq_none (by omega)]

/-- `(x + y)[3]` is `y[0] = 7` in the example state -/
example : evalExpr 5 σd [0] (.mk (.Index (.mk (.BinaryOp .Sum (4, 2) eX eY) (4, 0)) (eInt 3)) (4, 0)) =
    .ok (SVal.plain (.int 7))
      (σd.alloc (.list [SVal.plain (.int 10), SVal.plain (.int 20), SVal.plain (.int 30), SVal.plain (.int 7)])).2 :=
  (concat_index_law (4, 2) (4, 0) (4, 0) (σd_x 0) (σd_y 0) σd_list1 σd_list2 (eInt_eval 1 _ [0] 3) (by rfl)
    (by decide)).2.1 (by decide) (by decide)

/-- on strings likewise, in bytes -/
theorem concat_index_law_str {n : Nat} {σ σ1 σ2 σ4 : State} {sc : List Addr} {e1 e2 i : Expr} (lp ls loc : Loc)
    {s t si : Option Val} {xs ys : Bytes} {k : Int}
    (h1 : evalExpr n σ sc e1 = .ok ⟨.str xs, s⟩ σ1) (h2 : evalExpr n σ1 sc e2 = .ok ⟨.str ys, t⟩ σ2)
    (hi : evalExpr (n + 1) σ2 sc i = .ok ⟨.int k, si⟩ σ4) (h0 : 0 ≤ k) :
    (∀ hlt : k.toNat < xs.length,
      evalExpr (n + 4) σ sc (.mk (.Index (.mk (.BinaryOp .Sum lp e1 e2) ls) i) loc) =
        .ok (SVal.plain (.str [xs[k.toNat]])) σ4) ∧
    (∀ (_ : xs.length ≤ k.toNat) (hlt : k.toNat - xs.length < ys.length),
      evalExpr (n + 4) σ sc (.mk (.Index (.mk (.BinaryOp .Sum lp e1 e2) ls) i) loc) =
        .ok (SVal.plain (.str [ys[k.toNat - xs.length]])) σ4) ∧
    (xs.length + ys.length ≤ k.toNat →
      evalExpr (n + 4) σ sc (.mk (.Index (.mk (.BinaryOp .Sum lp e1 e2) ls) i) loc) =
        errAt loc (Leaf.OutOfStringBounds k.toNat) σ4) := by
  have h := evalExpr_concat_index_str lp ls loc h1 h2 hi
  rw [if_neg (by omega)] at h
  refine ⟨fun hlt => ?_, fun hge hlt => ?_, fun hge => ?_⟩
  · rw [h, if_pos hlt, List.getElem?_eq_getElem hlt]
  · rw [h, if_neg (by omega), List.getElem?_eq_getElem hlt]
  · rw [h, if_neg (by omega), List.getElem?_eq_none (by omega)]

example : evalExpr 5 σd [0] (.mk (.Index (.mk (.BinaryOp .Sum (4, 2) eS eS) (4, 0)) (eInt 7)) (4, 0)) =
    .ok (SVal.plain (.str [0xC3])) σd :=
  (concat_index_law_str (4, 2) (4, 0) (4, 0) (σd_s 0) (σd_s 0) (eInt_eval 1 _ [0] 7) (by decide)).2.1
    (by decide) (by decide)

/-! ## (4) `x[i] = e`, then `x[j]` -/

/-- **`x[i] = e; rest`** for a variable `x` holding the list cell `a`.  Order: `e` (value `v`, `σ → σ1`), then `i`
    (integer `k`, `σ1 → σ2`); `xs`: the items of `a` then.
    * `0 ≤ k < len xs`: the statement completes; the cell `a` holds `listSet xs k v` — same length — and no other cell
      changed; afterwards `x[j]` evaluates to `v` for `j = k` and to the old `xs[j]` for every other `j` in range.
    * otherwise the statement (and the block) ends in the error — `index can't be negative` / `index 'k' is outside the
      list bounds` — in the state `σ2` that evaluating `e` and `i` left: nothing was written. -/
theorem assign_then_index {n : Nat} {σ σ1 σ2 : State} {sc : List Addr} {x : List Char} {ie rhs : Expr} (lx li : Loc)
    {v : SVal} {a : Addr} {s s' si : Option Val} {k : Int} {xs : List SVal} (rest : List Stmt)
    (hr : evalExpr n σ sc rhs = .ok v σ1) (hx : scopeGet σ1 sc x = some ⟨.list a, s⟩)
    (hi : evalExpr n σ1 sc ie = .ok ⟨.int k, si⟩ σ2) (hxs : σ2.getList a = some xs)
    (hx2 : scopeGet σ2 sc x = some ⟨.list a, s'⟩) :
    (0 ≤ k → k.toNat < xs.length →
      evalStmt (n + 4) σ sc (.Assign (.mk (.Index (.mk (.Var x) lx) ie) li) rhs) =
        .ok .none (σ2.set a (.list (listSet xs k.toNat v))) ∧
      evalStmts (n + 5) σ sc (.Assign (.mk (.Index (.mk (.Var x) lx) ie) li) rhs :: rest) =
        evalStmts (n + 4) (σ2.set a (.list (listSet xs k.toNat v))) sc rest ∧
      (σ2.set a (.list (listSet xs k.toNat v))).getList a = some (listSet xs k.toNat v) ∧
      (listSet xs k.toNat v).length = xs.length ∧
      (∀ b, b ≠ a → (σ2.set a (.list (listSet xs k.toNat v))).heap[b]? = σ2.heap[b]?) ∧
      (∀ (m : Nat) (je : Expr) (kj : Int) (sj : Option Val) (lx' lj : Loc),
        evalExpr m (σ2.set a (.list (listSet xs k.toNat v))) sc je =
          .ok ⟨.int kj, sj⟩ (σ2.set a (.list (listSet xs k.toNat v))) →
        0 ≤ kj → ∀ hlt : kj.toNat < xs.length,
        evalExpr (m + 3) (σ2.set a (.list (listSet xs k.toNat v))) sc (.mk (.Index (.mk (.Var x) lx') je) lj) =
          .ok (if kj = k then v else xs[kj.toNat]) (σ2.set a (.list (listSet xs k.toNat v))))) ∧
    (k < 0 →
      evalStmt (n + 4) σ sc (.Assign (.mk (.Index (.mk (.Var x) lx) ie) li) rhs) =
        errAt ie.loc (Leaf.NegativeIndex k) σ2 ∧
      evalStmts (n + 5) σ sc (.Assign (.mk (.Index (.mk (.Var x) lx) ie) li) rhs :: rest) =
        errAt ie.loc (Leaf.NegativeIndex k) σ2) ∧
    (0 ≤ k → xs.length ≤ k.toNat →
      evalStmt (n + 4) σ sc (.Assign (.mk (.Index (.mk (.Var x) lx) ie) li) rhs) =
        errAt li (Leaf.OutOfListBounds k.toNat) σ2 ∧
      evalStmts (n + 5) σ sc (.Assign (.mk (.Index (.mk (.Var x) lx) ie) li) rhs :: rest) =
        errAt li (Leaf.OutOfListBounds k.toNat) σ2) := by
  have h := assign_index_stmt lx li hr hx hi hxs
  refine ⟨fun h0 hlt => ?_, fun hk => ?_, fun h0 hge => ?_⟩
  · rw [if_neg (by omega), if_pos hlt] at h
    refine ⟨h, evalStmts_after rest h, (set_list_facts _ hxs).1, listSet_len _ _ _, (set_list_facts _ hxs).2.1, ?_⟩
    intro m je kj sj lx' lj hj hkj hlt'
    rw [index_after_assign lx' lj v hx2 hxs hlt hj, if_neg (by omega)]
    by_cases hjk : kj = k
    · subst hjk; simp only [if_true]
    · have : kj.toNat ≠ k.toNat := by omega
      simp only [this, hjk, if_false, List.getElem?_eq_getElem hlt']
  · rw [if_pos hk] at h
    exact ⟨h, evalStmts_stmt_err rest h⟩
  · rw [if_neg (by omega), if_neg (by omega)] at h
    exact ⟨h, evalStmts_stmt_err rest h⟩

/-- the example state satisfies the hypotheses: `x[1] = 99` there -/
example :
    evalStmt 5 σd [0] (.Assign (.mk (.Index eX (eInt 1)) (4, 0)) (eInt 99)) =
      .ok .none (σd.set 1 (.list [SVal.plain (.int 10), SVal.plain (.int 99), SVal.plain (.int 30)])) :=
  ((assign_then_index (4, 0) (4, 0) [] (eInt_eval 0 σd [0] 99) (by rfl) (eInt_eval 0 σd [0] 1) σd_list1 (by rfl)).1
    (by decide) (by decide)).1

/-! ## (5) `x[a:b] = ys` -/

/-- **`x[start:stop] = e; rest`** for a variable `x` holding the list cell `a`.  Order: `e` — a list (its items `ys` are
    read now) or a string (`ys` = its bytes as one-byte strings), `rangeRhs` — then start, then end, then the items `xs`
    of the TARGET; an omitted end means `len xs`, the length of the target (not of `ys`: defect D5 of the pinned
    tree).  With `lo := rangeLo ra`, `hi := rangeHi rb (len xs)` the statement is, in this order of checks,
    `range start (lo) is greater than list length`, `range end (hi) must be greater than range start (lo)`,
    `range end (hi) is greater than list length`, `cannot bind (len ys) item(s) to (hi - lo) index(s)`, or it completes
    and the cell `a` holds `listSplice xs lo ys`. -/
theorem range_assign_program {n : Nat} {σ σ1 σ2 σ3 : State} {sc : List Addr} {x : List Char} {rhs : Expr}
    {start stop : Option Expr} (lx lr : Loc) {rv : SVal} {a : Addr} {s s' : Option Val} {ra rb : Option Int}
    {xs ys : List SVal} (rest : List Stmt)
    (hr : evalExpr n σ sc rhs = .ok rv σ1) (hys : rangeRhs σ1 rv.v = some ys)
    (hx : scopeGet σ1 sc x = some ⟨.list a, s⟩)
    (hA : Bound n sc σ1 start ra σ2) (hB : Bound n sc σ2 stop rb σ3) (hra : NonNeg ra) (hrb : NonNeg rb)
    (hxs : σ3.getList a = some xs) (hx3 : scopeGet σ3 sc x = some ⟨.list a, s'⟩) :
    evalStmt (n + 6) σ sc (.Assign (.mk (.RangeIndex (.mk (.Var x) lx) start stop) lr) rhs) =
      (if rangeLo ra > xs.length then errAt lr (Leaf.RangeStartOutOfListBounds (rangeLo ra) xs.length) σ3
       else if rangeLo ra ≥ rangeHi rb xs.length then
         errAt lr (Leaf.RangeStartNotBeforeEnd (rangeLo ra) (rangeHi rb xs.length)) σ3
       else if rangeHi rb xs.length > xs.length then
         errAt lr (Leaf.RangeEndOutOfListBounds (rangeHi rb xs.length) xs.length) σ3
       else if rangeHi rb xs.length - rangeLo ra ≠ ys.length then
         errAt lr (Leaf.RangeIndexItemMismatch (rangeHi rb xs.length - rangeLo ra) ys.length) σ3
       else .ok .none (σ3.set a (.list (listSplice xs (rangeLo ra) ys)))) ∧
    (rangeLo ra < rangeHi rb xs.length → rangeHi rb xs.length ≤ xs.length →
      rangeHi rb xs.length - rangeLo ra = ys.length →
      evalStmts (n + 7) σ sc (.Assign (.mk (.RangeIndex (.mk (.Var x) lx) start stop) lr) rhs :: rest) =
        evalStmts (n + 6) (σ3.set a (.list (listSplice xs (rangeLo ra) ys))) sc rest ∧
      listSplice xs (rangeLo ra) ys = xs.take (rangeLo ra) ++ ys ++ xs.drop (rangeHi rb xs.length) ∧
      (listSplice xs (rangeLo ra) ys).length = xs.length ∧
      (σ3.set a (.list (listSplice xs (rangeLo ra) ys))).getList a = some (listSplice xs (rangeLo ra) ys) ∧
      (∀ b, b ≠ a → (σ3.set a (.list (listSplice xs (rangeLo ra) ys))).heap[b]? = σ3.heap[b]?) ∧
      (∀ (m : Nat) (je : Expr) (kj : Int) (sj : Option Val) (lx' lj : Loc),
        evalExpr m (σ3.set a (.list (listSplice xs (rangeLo ra) ys))) sc je =
          .ok ⟨.int kj, sj⟩ (σ3.set a (.list (listSplice xs (rangeLo ra) ys))) →
        0 ≤ kj →
        evalExpr (m + 3) (σ3.set a (.list (listSplice xs (rangeLo ra) ys))) sc
            (.mk (.Index (.mk (.Var x) lx') je) lj) =
          match (if kj.toNat < rangeLo ra then xs[kj.toNat]?
                 else if kj.toNat < rangeHi rb xs.length then ys[kj.toNat - rangeLo ra]? else xs[kj.toNat]?) with
          | some w => .ok w (σ3.set a (.list (listSplice xs (rangeLo ra) ys)))
          | none => errAt lj (Leaf.OutOfListBounds kj.toNat) (σ3.set a (.list (listSplice xs (rangeLo ra) ys))))) := by
  have h := assign_range_stmt lx lr hr hys hx hA hB hra hrb hxs
  refine ⟨h, fun h1 h2 h3 => ?_⟩
  have hst : evalStmt (n + 6) σ sc (.Assign (.mk (.RangeIndex (.mk (.Var x) lx) start stop) lr) rhs) =
      .ok .none (σ3.set a (.list (listSplice xs (rangeLo ra) ys))) := by
    rw [h, if_neg (by omega), if_neg (by omega), if_neg (by omega), if_neg (by omega)]
  have hfit : rangeLo ra + ys.length ≤ xs.length := by omega
  refine ⟨evalStmts_after rest hst, ?_, listSplice_len _ _ _ hfit, (set_list_facts _ hxs).1,
    (set_list_facts _ hxs).2.1, ?_⟩
  · unfold listSplice
    congr 2; omega
  · intro m je kj sj lx' lj hj hkj
    rw [index_after_range_assign lx' lj ys hx3 hxs hfit hj, if_neg (by omega)]
    have e : rangeLo ra + ys.length = rangeHi rb xs.length := by omega
    rw [e]
    cases (if kj.toNat < rangeLo ra then xs[kj.toNat]?
                 else if kj.toNat < rangeHi rb xs.length then ys[kj.toNat - rangeLo ra]? else xs[kj.toNat]?) <;> rfl

/-- **the omitted end is the length of the target** (D5): `x[lo:] = e` completes exactly when `lo < len xs` and `e` has
    `len xs - lo` items, and then the cell holds `xs.take lo ++ ys` -/
theorem range_assign_open_end {n : Nat} {σ σ1 σ2 : State} {sc : List Addr} {x : List Char} {rhs : Expr}
    {start : Option Expr} (lx lr : Loc) {rv : SVal} {a : Addr} {s : Option Val} {ra : Option Int}
    {xs ys : List SVal}
    (hr : evalExpr n σ sc rhs = .ok rv σ1) (hys : rangeRhs σ1 rv.v = some ys)
    (hx : scopeGet σ1 sc x = some ⟨.list a, s⟩)
    (hA : Bound n sc σ1 start ra σ2) (hra : NonNeg ra) (hxs : σ2.getList a = some xs) :
    (rangeLo ra < xs.length → xs.length - rangeLo ra = ys.length →
      evalStmt (n + 6) σ sc (.Assign (.mk (.RangeIndex (.mk (.Var x) lx) start none) lr) rhs) =
        .ok .none (σ2.set a (.list (xs.take (rangeLo ra) ++ ys)))) ∧
    (rangeLo ra < xs.length → xs.length - rangeLo ra ≠ ys.length →
      evalStmt (n + 6) σ sc (.Assign (.mk (.RangeIndex (.mk (.Var x) lx) start none) lr) rhs) =
        errAt lr (Leaf.RangeIndexItemMismatch (xs.length - rangeLo ra) ys.length) σ2) ∧
    (xs.length ≤ rangeLo ra → ∃ e,
      evalStmt (n + 6) σ sc (.Assign (.mk (.RangeIndex (.mk (.Var x) lx) start none) lr) rhs) = .err e σ2) := by
  have h := assign_range_stmt lx lr hr hys hx hA (Bound.omitted σ2) hra (fun _ h => by cases h) hxs
  have hhi : rangeHi none xs.length = xs.length := rfl
  rw [hhi] at h
  refine ⟨fun h1 h2 => ?_, fun h1 h2 => ?_, fun h1 => ?_⟩
  · rw [h, if_neg (by omega), if_neg (by omega), if_neg (by omega), if_neg (by omega)]
    have : listSplice xs (rangeLo ra) ys = xs.take (rangeLo ra) ++ ys := by
      unfold listSplice
      rw [List.drop_of_length_le (by omega), List.append_nil]
    rw [this]
  · rw [h, if_neg (by omega), if_neg (by omega), if_neg (by omega), if_pos h2]
  · by_cases h2 : rangeLo ra > xs.length
    · exact ⟨_, by rw [h, if_pos h2]; rfl⟩
    · exact ⟨_, by rw [h, if_neg h2, if_pos (by omega)]; rfl⟩

/-- a string on the right contributes its bytes as one-byte strings; any other non-list value is refused before the
    bounds are looked at -/
theorem range_assign_rhs (σ : State) (bs : Bytes) (b : Addr) :
    rangeRhs σ (.str bs) = some (bs.map fun c => SVal.plain (.str [c])) ∧
    rangeRhs σ (.list b) = σ.getList b ∧
    rangeRhs σ .null = none ∧ (∀ k, rangeRhs σ (.int k) = none) ∧ (∀ c, rangeRhs σ (.bool c) = none) ∧
    (∀ o, rangeRhs σ (.obj o) = none) ∧ (∀ f, rangeRhs σ (.func f) = none) ∧
    (∀ nm f, rangeRhs σ (.builtin nm f) = none) :=
  ⟨rfl, rfl, rfl, fun _ => rfl, fun _ => rfl, fun _ => rfl, fun _ => rfl, fun _ _ => rfl⟩

theorem range_assign_bad_rhs {n : Nat} {σ σ1 : State} {sc : List Addr} {x : List Char} {rhs : Expr}
    {start stop : Option Expr} (lx lr : Loc) {rv : SVal} {a : Addr} {s : Option Val}
    (hr : evalExpr (n + 1) σ sc rhs = .ok rv σ1) (hx : scopeGet σ1 sc x = some ⟨.list a, s⟩)
    (hl : ∀ b, rv.v ≠ .list b) (hs : ∀ bs, rv.v ≠ .str bs) :
    evalStmt (n + 3) σ sc (.Assign (.mk (.RangeIndex (.mk (.Var x) lx) start stop) lr) rhs) =
      errAt lr (Leaf.RangeIndexAssignOnNonIndexable rv.v.kind) σ1 :=
  assign_range_bad_rhs lx lr hr hx hl hs

example : evalStmt 4 σd [0] (.Assign (.mk (.RangeIndex eX (some (eInt 1)) (some (eInt 2))) (4, 0)) (eInt 3)) =
    errAt (4, 0) (Leaf.RangeIndexAssignOnNonIndexable .Int) σd :=
  range_assign_bad_rhs (x := c!"x") (a := 1) (s := none) (4, 0) (4, 0) (eInt_eval 1 σd [0] 3) (by rfl)
    (by intro b h; cases h) (by intro b h; cases h)

/-- the example state: `x[1:] = y + y` (two items for the two positions 1, 2), and with the string `"ab"` -/
example :
    evalStmt 8 σd [0] (.Assign (.mk (.RangeIndex eX (some (eInt 1)) none) (4, 0)) (.mk (.BinaryOp .Sum (4, 9) eY eY) (4, 7))) =
      .ok .none ((σd.alloc (.list [SVal.plain (.int 7), SVal.plain (.int 7)])).2.set 1
        (.list [SVal.plain (.int 10), SVal.plain (.int 7), SVal.plain (.int 7)])) :=
  (range_assign_open_end (x := c!"x") (a := 1) (s := none) (ra := some 1)
    (xs := [SVal.plain (.int 10), SVal.plain (.int 20), SVal.plain (.int 30)])
    (ys := [SVal.plain (.int 7), SVal.plain (.int 7)])
    (σ2 := (σd.alloc (.list [SVal.plain (.int 7), SVal.plain (.int 7)])).2) (4, 0) (4, 0)
    (evalExpr_sum_lists (4, 9) (4, 7) (σd_y 0) (σd_y 0) σd_list2 σd_list2) (by rfl) (by rfl)
    (.given (eInt_eval 1 _ [0] 1)) (by decide) (by rfl)).1 (by decide) (by decide)

example :
    evalStmt 7 σd [0] (.Assign (.mk (.RangeIndex eX none (some (eInt 2))) (4, 0)) (.mk (.Str c!"ab" none) (4, 7))) =
      .ok .none (σd.set 1 (.list [SVal.plain (.str [97]), SVal.plain (.str [98]), SVal.plain (.int 30)])) :=
  ((range_assign_program (x := c!"x") (a := 1) (s := none) (s' := none) (ra := none) (rb := some 2)
    (xs := [SVal.plain (.int 10), SVal.plain (.int 20), SVal.plain (.int 30)])
    (ys := [SVal.plain (.str [97]), SVal.plain (.str [98])]) (rv := SVal.plain (.str [97, 98]))
    (4, 0) (4, 0) [] (n := 1) (by rw [evalExpr]; rfl) (by rfl) (by rfl) (.omitted σd)
    (.given (eInt_eval 0 σd [0] 2)) (by decide) (by decide) σd_list1 (by rfl)).1).trans (by rfl)

/-! ## whole programs -/

/-- reading: in range, past the end (`xs[3]` of three items is an error, it does not wrap to `xs[0]`), negative -/
example :
    (run 300 c!"t.sd" c!"xs := [10, 20, 30];\nprint(xs[0]);\nprint(xs[2]);\nprint(xs[3]);\n").out = [c!"10", c!"30"] ∧
    (run 300 c!"t.sd" c!"xs := [10, 20, 30];\nprint(xs[0]);\nprint(xs[2]);\nprint(xs[3]);\n").stderr =
      c!"t.sd:4:7: index '3' is outside the list bounds\n" ∧
    (run 300 c!"t.sd" c!"xs := [10, 20, 30];\nprint(xs[0 - 1]);\n").stderr = c!"t.sd:2:10: index can't be negative\n" ∧
    (run 300 c!"t.sd" c!"print(\"abc\"[1]);\nprint(\"abc\"[3]);\n").out = [c!"b"] ∧
    (run 300 c!"t.sd" c!"print(\"abc\"[1]);\nprint(\"abc\"[3]);\n").stderr =
      c!"t.sd:2:7: index '3' is outside the string bounds\n" := by
  decide +kernel

/-- slices: bytes of a string (`é` is two bytes), a fresh list each time (`xs[:] === xs` is `false`), `[3:2]` an error -/
example :
    (run 300 c!"t.sd" c!"print(\"héllo\"[1:3] == \"é\");\nprint(\"hello\"[1:3]);\nprint(\"hello\"[4:6]);\n").out =
      [c!"true", c!"el"] ∧
    (run 300 c!"t.sd" c!"print(\"héllo\"[1:3] == \"é\");\nprint(\"hello\"[1:3]);\nprint(\"hello\"[4:6]);\n").stderr =
      c!"t.sd:3:7: range [4:6] is outside the string bounds\n" ∧
    (run 300 c!"t.sd" c!"xs := [1, 2, 3, 4, 5];\nprint(xs[:2] == [1, 2]);\nprint(xs[3:] == [4, 5]);\nprint(xs[:] === xs);\nprint(xs[3:2]);\n").out =
      [c!"true", c!"true", c!"false"] ∧
    (run 300 c!"t.sd" c!"xs := [1, 2, 3, 4, 5];\nprint(xs[:2] == [1, 2]);\nprint(xs[3:] == [4, 5]);\nprint(xs[:] === xs);\nprint(xs[3:2]);\n").stderr =
      c!"t.sd:5:7: range [3:2] is outside the list bounds\n" := by
  decide +kernel

/-- `x[:k] + x[k:] == x` at both ends and in the middle, with a nested list and an object among the items; the
    concatenation is a different list (`===` is `false`); `(x + y)[i]` -/
example :
    (run 300 c!"t.sd" c!"x := [1, \"a\", [2], {\"k\": 3}];\nprint((x[:0] + x[0:]) == x);\nprint((x[:2] + x[2:]) == x);\nprint((x[:4] + x[4:]) == x);\nprint((x[:2] + x[2:]) === x);\ny := [7, 8];\nprint((x + y)[3] == x[3]);\nprint((x + y)[4]);\nprint((x + y)[5]);\nprint((x + y)[6]);\n").out =
      [c!"true", c!"true", c!"true", c!"false", c!"true", c!"7", c!"8"] ∧
    (run 300 c!"t.sd" c!"x := [1, \"a\", [2], {\"k\": 3}];\nprint((x[:0] + x[0:]) == x);\nprint((x[:2] + x[2:]) == x);\nprint((x[:4] + x[4:]) == x);\nprint((x[:2] + x[2:]) === x);\ny := [7, 8];\nprint((x + y)[3] == x[3]);\nprint((x + y)[4]);\nprint((x + y)[5]);\nprint((x + y)[6]);\n").stderr =
      c!"t.sd:10:7: index '6' is outside the list bounds\n" := by
  decide +kernel

/-- `x[1] = 20`: position 1 changed, 0 and 2 kept, seen through the alias `y` too; `x[3] = 4` is an error -/
example :
    (run 300 c!"t.sd" c!"x := [1, 2, 3];\ny := x;\nx[1] = 20;\nprint(x[0]);\nprint(x[1]);\nprint(x[2]);\nprint(y[1]);\nprint(x == [1, 20, 3]);\nx[3] = 4;\nprint(0);\n").out =
      [c!"1", c!"20", c!"3", c!"20", c!"true"] ∧
    (run 300 c!"t.sd" c!"x := [1, 2, 3];\ny := x;\nx[1] = 20;\nprint(x[0]);\nprint(x[1]);\nprint(x[2]);\nprint(y[1]);\nprint(x == [1, 20, 3]);\nx[3] = 4;\nprint(0);\n").stderr =
      c!"t.sd:9:1: index '3' is outside the list bounds\n" ∧
    (run 300 c!"t.sd" c!"x := [1, 2, 3];\nx[0 - 1] = 4;\n").stderr = c!"t.sd:2:3: index can't be negative\n" := by
  decide +kernel

/-- range assignment: the omitted end is the length of the target (D5), a string contributes its bytes, and the four
    refusals -/
example :
    (run 300 c!"t.sd" c!"xs := [1, 2, 3, 4, 5];\nxs[2:] = [7, 8, 9];\nprint(xs == [1, 2, 7, 8, 9]);\nxs[1:3] = \"ab\";\nprint(xs == [1, \"a\", \"b\", 8, 9]);\nxs[:2] = [0];\n").out =
      [c!"true", c!"true"] ∧
    (run 300 c!"t.sd" c!"xs := [1, 2, 3, 4, 5];\nxs[2:] = [7, 8, 9];\nprint(xs == [1, 2, 7, 8, 9]);\nxs[1:3] = \"ab\";\nprint(xs == [1, \"a\", \"b\", 8, 9]);\nxs[:2] = [0];\n").stderr =
      c!"t.sd:6:1: cannot bind 1 item(s) to 2 index(s)\n" ∧
    (run 300 c!"t.sd" c!"xs := [1, 2, 3, 4, 5];\nxs[2:] = [7, 8];\n").stderr =
      c!"t.sd:2:1: cannot bind 2 item(s) to 3 index(s)\n" ∧
    (run 300 c!"t.sd" c!"xs := [1, 2, 3, 4, 5];\nxs[2:2] = [];\n").stderr =
      c!"t.sd:2:1: range end (2) must be greater than range start (2)\n" ∧
    (run 300 c!"t.sd" c!"xs := [1, 2, 3, 4, 5];\nxs[1:9] = [1];\n").stderr =
      c!"t.sd:2:1: range end (9) is greater than list length (5)\n" ∧
    (run 300 c!"t.sd" c!"xs := [1, 2, 3, 4, 5];\nxs[7:9] = [1];\n").stderr =
      c!"t.sd:2:1: range start (7) is greater than list length (5)\n" ∧
    (run 300 c!"t.sd" c!"xs := [1, 2, 3, 4, 5];\nxs[1:2] = 3;\n").stderr =
      c!"t.sd:2:1: only 'list's or 'string's can be assigned to range indexes, got 'int'\n" := by
  decide +kernel

end Seed.C11
