/-
  C18lex.lean — the positions the lexer reports are the positions `posOf` of the right characters.

  `posOf src i` (Lemmas/Scan.lean) is the scanner-independent specification: line = 1 + number of
  newlines in `src[0..i]`, column = number of characters after the last newline in `src[0..i]`.
-/
import SeedProofs.Lemmas.Scan
import SeedProofs.Lemmas.C18NodePosSrc
import SeedProofs.Lemmas.C18EvalPosProg
import SeedProofs.Lemmas.C18Attrib3
namespace Seed.C18

-- audit: Seed.node_pos Seed.node_pos_expr Seed.node_pos_src Seed.locOK_is_posOf Seed.posAll Seed.parseExpr_node_pos Seed.parseStmts_node_pos
open Seed

/-! ### token positions -/

/-- one step: the token's start is the position of the first non-skipped character, at offset `i`;
    the scanner ends at offset `j > i` -/
theorem nextToken_start_is_posOf {src : List Char} {k : Nat} {sp : Span} {s' : Scanner}
    (h : nextToken ((Scanner.new src).advance k) = .tok sp s') :
    ∃ i j c, k ≤ i ∧ i < j ∧ j ≤ src.length ∧
      ((Scanner.new src).advance k).skipWs = (Scanner.new src).advance i ∧
      src[i]? = some c ∧ sp.start = posOf src i ∧ s' = (Scanner.new src).advance j := by
  obtain ⟨i, j, h1, h2, h3, h4, h5, h6, h7, _⟩ := nextToken_tok_reach h
  refine ⟨i, j, src[i], h1, h2, h4, h5, List.getElem?_eq_getElem h3, ?_, h7⟩
  rw [h6, scan_pos]

/-- every span of the raw token stream starts at `posOf src i`, where `i` is the offset of the
    token's first character: the scanner before the token, with whitespace and comments skipped,
    is exactly `(Scanner.new src).advance i` -/
theorem token_start_is_posOf (src : List Char) (n k : Nat) (sp : Span)
    (h : sp ∈ (lexRaw n ((Scanner.new src).advance k)).1) :
    ∃ k' i j c, k ≤ k' ∧ k' ≤ i ∧ i < j ∧ j ≤ src.length ∧
      nextToken ((Scanner.new src).advance k') = .tok sp ((Scanner.new src).advance j) ∧
      ((Scanner.new src).advance k').skipWs = (Scanner.new src).advance i ∧
      src[i]? = some c ∧ sp.start = posOf src i := by
  obtain ⟨k', s', hk', hn⟩ := lexRaw_mem_reach src n k sp h
  obtain ⟨i, j, c, h1, h2, h3, h4, h5, h6, h7⟩ := nextToken_start_is_posOf hn
  subst h7
  exact ⟨k', i, j, c, hk', h1, h2, h3, hn, h4, h5, h6⟩

/-- every span of the raw token stream stops at the position of the token's last character
    (offset `j - 1` when the scanner ends at offset `j`) — except when the character following the
    token is a newline: then the reported end is that newline's own position `(line + 1, 0)` -/
theorem token_stop_is_posOf (src : List Char) (n k : Nat) (sp : Span)
    (h : sp ∈ (lexRaw n ((Scanner.new src).advance k)).1) :
    ∃ k' j, k ≤ k' ∧ k' < j ∧ j ≤ src.length ∧
      nextToken ((Scanner.new src).advance k') = .tok sp ((Scanner.new src).advance j) ∧
      sp.stop = if src[j]? = some '\n' then posOf src j else posOf src (j - 1) := by
  obtain ⟨k', s', hk', hn⟩ := lexRaw_mem_reach src n k sp h
  obtain ⟨i, j, h1, h2, h3, h4, h5, h6, h7, h8⟩ := nextToken_tok_reach hn
  subst h7
  refine ⟨k', j, hk', by omega, h4, hn, ?_⟩
  rw [h8, endLoc_reach src j (by omega) h4]

/-! ### error positions -/

/-- `Unexpected loc c`: `c` is the first character of the would-be token, at offset `i`, and
    `loc` is its position -/
theorem lex_error_pos {src : List Char} {k : Nat} {loc : Loc} {c : Char}
    (h : nextToken ((Scanner.new src).advance k) = .err (LexError.Unexpected loc c)) :
    ∃ i, k ≤ i ∧ ((Scanner.new src).advance k).skipWs = (Scanner.new src).advance i ∧
      src[i]? = some c ∧ loc = posOf src i := by
  obtain ⟨i, c', h1, h2, h3, h4 | ⟨_, h4⟩ | ⟨h4, _⟩⟩ := nextToken_err_reach h
  · injection h4 with hl hc; subst hl hc; exact ⟨i, h1, h2, h3, rfl⟩
  · cases h4
  · cases h4

/-- `IntOverflow loc raw`: `loc` is the position of the literal's first digit, at offset `i`, and
    `raw` is the maximal run of digits and underscores starting there -/
theorem int_overflow_pos {src : List Char} {k : Nat} {loc : Loc} {raw : List Char}
    (h : nextToken ((Scanner.new src).advance k) = .err (LexError.IntOverflow loc raw)) :
    ∃ i d, k ≤ i ∧ ((Scanner.new src).advance k).skipWs = (Scanner.new src).advance i ∧
      src[i]? = some d ∧ isAsciiDigit d = true ∧ loc = posOf src i ∧
      raw = (src.drop i).takeWhile isIntChar := by
  obtain ⟨i, c', h1, h2, h3, h4 | ⟨hd, h4⟩ | ⟨h4, _⟩⟩ := nextToken_err_reach h
  · cases h4
  · injection h4 with hl hr; subst hl hr; exact ⟨i, c', h1, h2, h3, hd, rfl, rfl⟩
  · cases h4

/-- all string-literal errors at once: the error's location is `posOf src i'` where `src[i']` is
    the offending character, strictly inside the literal that starts at offset `i` -/
theorem str_error_pos {src : List Char} {k : Nat} {e : LexError} (he : e.isStr = true)
    (h : nextToken ((Scanner.new src).advance k) = .err e) :
    ∃ i i' ch, k ≤ i ∧ i < i' ∧
      ((Scanner.new src).advance k).skipWs = (Scanner.new src).advance i ∧
      src[i']? = some ch ∧ e.offender = some ch ∧ e.loc = posOf src i' := by
  obtain ⟨i, c', h1, h2, h3, h4 | ⟨_, h4⟩ | ⟨_, i', ch, h5, h6, h7, h8⟩⟩ := nextToken_err_reach h
  · subst h4; cases he
  · subst h4; cases he
  · exact ⟨i, i', ch, h1, h5, h2, h6, h8, h7⟩

theorem unescaped_dollar_pos {src : List Char} {k : Nat} {loc : Loc}
    (h : nextToken ((Scanner.new src).advance k) = .err (LexError.UnescapedDollar loc)) :
    ∃ i i', k ≤ i ∧ i < i' ∧ ((Scanner.new src).advance k).skipWs = (Scanner.new src).advance i ∧
      src[i']? = some '$' ∧ loc = posOf src i' := by
  obtain ⟨i, i', ch, h1, h2, h3, h4, h5, h6⟩ := str_error_pos rfl h
  injection h5 with h5; subst h5
  exact ⟨i, i', h1, h2, h3, h4, h6⟩

theorem invalid_escape_char_pos {src : List Char} {k : Nat} {loc : Loc} {c : Char}
    (h : nextToken ((Scanner.new src).advance k) = .err (LexError.InvalidEscapeChar loc c)) :
    ∃ i i', k ≤ i ∧ i < i' ∧ ((Scanner.new src).advance k).skipWs = (Scanner.new src).advance i ∧
      src[i']? = some c ∧ loc = posOf src i' := by
  obtain ⟨i, i', ch, h1, h2, h3, h4, h5, h6⟩ := str_error_pos rfl h
  injection h5 with h5; subst h5
  exact ⟨i, i', h1, h2, h3, h4, h6⟩

theorem invalid_hex_char_pos {src : List Char} {k : Nat} {loc : Loc} {c : Char}
    (h : nextToken ((Scanner.new src).advance k) = .err (LexError.InvalidHexChar loc c)) :
    ∃ i i', k ≤ i ∧ i < i' ∧ ((Scanner.new src).advance k).skipWs = (Scanner.new src).advance i ∧
      src[i']? = some c ∧ loc = posOf src i' := by
  obtain ⟨i, i', ch, h1, h2, h3, h4, h5, h6⟩ := str_error_pos rfl h
  injection h5 with h5; subst h5
  exact ⟨i, i', h1, h2, h3, h4, h6⟩

theorem invalid_interpolation_start_pos {src : List Char} {k : Nat} {loc : Loc} {c : Char}
    (h : nextToken ((Scanner.new src).advance k) = .err (LexError.InvalidInterpolationStart loc c)) :
    ∃ i i', k ≤ i ∧ i < i' ∧ ((Scanner.new src).advance k).skipWs = (Scanner.new src).advance i ∧
      src[i']? = some c ∧ loc = posOf src i' := by
  obtain ⟨i, i', ch, h1, h2, h3, h4, h5, h6⟩ := str_error_pos rfl h
  injection h5 with h5; subst h5
  exact ⟨i, i', h1, h2, h3, h4, h6⟩

/-- the error that ends the token stream of a whole source: it points at an existing character of
    the source, namely the offending one if the error names a character -/
theorem lexAll_error_pos (src : List Char) (e : LexError) (h : (lexAll src).2 = some e) :
    ∃ i, i < src.length ∧ e.loc = posOf src i ∧ ∀ c, e.offender = some c → src[i]? = some c := by
  have h' : (lexRaw (src.length + 1) ((Scanner.new src).advance 0)).2 = some e := h
  obtain ⟨k', _, hn⟩ := lexRaw_err_reach src _ 0 e h'
  have hlt : ∀ {i : Nat} {c : Char}, src[i]? = some c → i < src.length := by
    intro i c hi
    rcases Nat.lt_or_ge i src.length with hlt | hge
    · exact hlt
    · rw [List.getElem?_eq_none hge] at hi; cases hi
  obtain ⟨i, c', h1, h2, h3, h4 | ⟨_, h4⟩ | ⟨_, i', ch, h5, h6, h7, h8⟩⟩ := nextToken_err_reach hn
  · subst h4
    refine ⟨i, hlt h3, rfl, ?_⟩
    intro c hc; injection hc with hc; subst hc; exact h3
  · subst h4
    exact ⟨i, hlt h3, rfl, fun c hc => by cases hc⟩
  · refine ⟨i', hlt h6, h7, ?_⟩
    intro c hc; rw [h8] at hc; injection hc with hc; subst hc; exact h6

/-- the error that ends a raw token stream is produced by `nextToken` on a reachable scanner, so the
    per-error theorems above apply to it -/
theorem lexRaw_error_from_nextToken (src : List Char) (n k : Nat) (e : LexError)
    (h : (lexRaw n ((Scanner.new src).advance k)).2 = some e) :
    ∃ k', k ≤ k' ∧ nextToken ((Scanner.new src).advance k') = .err e :=
  lexRaw_err_reach src n k e h

/-! ### `posOf` itself -/

/-- `posOf` treats every character other than '\n' identically: tabs, multi-byte characters,
    anything — each is one column -/
theorem posOf_tab_multibyte_one (f : Char → Char) (hf : ∀ c, f c = '\n' ↔ c = '\n')
    (src : List Char) (k : Nat) : posOf (src.map f) k = posOf src k := by
  have hcount : ∀ l : List Char, (l.map f).count '\n' = l.count '\n' := by
    intro l
    induction l with
    | nil => rfl
    | cons c r ih =>
      simp only [List.map_cons, List.count_cons, ih, beq_iff_eq]
      by_cases hc : c = '\n'
      · subst hc
        have := (hf '\n').mpr rfl
        simp [this]
      · have : f c ≠ '\n' := fun h => hc ((hf c).mp h)
        simp [hc, this]
  have htw : ∀ l : List Char, ((l.map f).takeWhile (· ≠ '\n')).length = (l.takeWhile (· ≠ '\n')).length := by
    intro l
    induction l with
    | nil => rfl
    | cons c r ih =>
      simp only [List.map_cons, List.takeWhile_cons]
      by_cases hc : c = '\n'
      · subst hc
        have := (hf '\n').mpr rfl
        simp [this]
      · have : f c ≠ '\n' := fun h => hc ((hf c).mp h)
        simpa [hc, this] using ih
  cases src with
  | nil => rfl
  | cons c r =>
    simp only [List.map_cons, posOf, lineOf, colOf]
    rw [← List.map_cons, ← List.map_take, hcount, ← List.map_reverse, htw]

/-- a position depends only on the text up to and including that offset -/
theorem pos_shift (p r r' : List Char) (k : Nat) (hk : k < p.length) :
    posOf (p ++ r) k = posOf (p ++ r') k := by
  cases p with
  | nil => simp at hk
  | cons c p =>
    simp only [List.cons_append, posOf]
    rw [← List.cons_append, ← List.cons_append,
      List.take_append_of_le_length (by simp at hk ⊢; omega),
      List.take_append_of_le_length (by simp at hk ⊢; omega)]

/-- additive shift: in `p ++ t`, the position of offset `j` of `t` is determined by the line count
    and last-line length of `p` and by `t.take (j + 1)`:
    line = (line at the end of `p`) + newlines in `t[0..j]`;
    column = characters after the last newline of `t[0..j]` if there is one, otherwise the length
    of the last line of `p` plus `j + 1` -/
theorem pos_shift_add (p t : List Char) (j : Nat) (ht : t ≠ []) :
    posOf (p ++ t) (p.length + j) =
      (lineOf p + (t.take (j + 1)).count '\n',
       if '\n' ∈ t.take (j + 1) then colOf (t.take (j + 1)) else colOf p + (t.take (j + 1)).length) := by
  have hne : p ++ t ≠ [] := by simp [ht]
  rw [posOf_of_ne_nil hne]
  have : (p ++ t).take (p.length + j + 1) = p ++ t.take (j + 1) := by
    rw [Nat.add_assoc, List.take_length_add_append]
  rw [this, lineOf_append]
  split
  · next hm => rw [colOf_append_of_mem _ _ hm]
  · next hm => rw [colOf_append_of_not_mem _ _ hm]

/-- the same, relative to the positions of `t` on its own: lines shift by the number of newlines of
    `p`; columns are unchanged after the first newline of `t`, and shift by the length of the last
    line of `p` before it -/
theorem pos_shift_rel (p t : List Char) (j : Nat) (ht : t ≠ []) :
    posOf (p ++ t) (p.length + j) =
      (p.count '\n' + (posOf t j).1,
       if '\n' ∈ t.take (j + 1) then (posOf t j).2 else colOf p + (posOf t j).2) := by
  rw [pos_shift_add p t j ht, posOf_of_ne_nil ht]
  simp only [lineOf]
  congr 1
  · omega
  · split
    · rfl
    · next hm => rw [colOf_of_not_mem _ hm]

/-! ### run-time diagnostics: every position is a position stored in the program, hence a token start of the source

  Lemmas/C18EvalPosDefs.lean (marks of a tree, `Err.LocsIn`, the heap invariant `PosInv`), C18EvalPosPrim.lean (operators,
  builtins, `bindNextName`, `validateArgs`), C18EvalPos.lean (the 23-function fuel induction `evalPosAll`),
  C18EvalPosProg.lean (`evalProg`, closure under run-time slot parsing, the link to `node_pos`).

  `e.AllPos S` (`Err.allPos_iff`): the `line:col` of every `atLoc` node and the call position of every call frame of `e`
  satisfy `S`; a position inside the leaf's payload (AlreadyInScope / DupParamName cite the earlier declaration)
  satisfies `S` or is `(0,0)`, where the built-in `print` is declared (see the examples at the end).

  Interpolation slots are parsed when the literal is evaluated (`interpolate`), with positions relative to the slot
  text, and the position attached to the slot is computed from the literal's column and the slot's offset: neither is a
  position stored in the tree, and in general neither is a source position (`diag_pos_is_source_pos_fails_with_slots`;
  known findings K2/K4).  So the statements come in two forms: for programs without slots (`NoSlots`, decidable), and
  for all programs with the slot-derived positions as a separate, explicitly described set. -/

-- audit: Seed.evalPosAll Seed.evalProg_pos Seed.evalProg_inv Seed.progMark_slotClosed Seed.progMark_noSlots Seed.parseProg_marks Seed.parseExprTop_marks Seed.locOK_tokStart Seed.Err.allPos_iff Seed.validateArgs_pos Seed.bindNextName_pos Seed.callBuiltin_pos Seed.applyBinOp_pos Seed.TokStart.line

/-- **`eval_uses_node_pos`.**  every position in an error returned by `evalProg n stmts` — at any depth of call frames,
    so also those of code that was stored in a function cell of the heap and called later — is a mark of the program
    (`ProgMark`): a position stored in the tree `stmts`, or the position `interpolate` attaches to a slot of a reachable
    interpolated literal (`slotPos`), or a position stored in the expression such a slot parses to at run time -/
theorem eval_uses_node_pos {n : Nat} {stmts : List Stmt} {e : Err} {σ : State} (h : evalProg n stmts = .err e σ) :
    e.AllPos (fun l => ProgMark stmts (.loc l)) :=
  Seed.eval_uses_node_pos h

/-- full statement: `evalProg n stmts = .err e σ → e.AllPos (· ∈ Stmt.locsL stmts)`.  It is false when a slot is
    evaluated (`eval_uses_node_pos_fails_with_slots`); proved for programs without interpolation slots: every position in
    the error is one of the positions stored in the tree (`Stmt.locsL`: the `loc` of every expression node, `opLoc`,
    `nameLoc`, the positions of `break` / `continue` / `return`, at any depth, function bodies included) -/
theorem eval_uses_node_pos_partial {n : Nat} {stmts : List Stmt} {e : Err} {σ : State} (hns : NoSlots stmts)
    (h : evalProg n stmts = .err e σ) : e.AllPos (· ∈ Stmt.locsL stmts) :=
  Seed.eval_uses_node_pos_partial hns h

/-- full statement: `parseProg src = .ok stmts → evalProg n stmts = .err e σ → e.AllPos (TokStart src)`.  It is false
    (`diag_pos_is_source_pos_fails_with_slots`); proved here for programs without interpolation slots:
    every position in the error is `posOf src i` for an offset `i < src.length` that is the first character of a token
    (`TokStart`: the token is in the token stream, `nextToken` returns it from an offset `k' ≤ i`, and the whitespace and
    comments from `k'` end at `i`) -/
theorem diag_pos_is_source_pos_partial {src : List Char} {stmts : List Stmt} {n : Nat} {e : Err} {σ : State}
    (hp : parseProg src = .ok stmts) (hns : NoSlots stmts) (h : evalProg n stmts = .err e σ) : e.AllPos (TokStart src) :=
  Seed.diag_pos_is_source_pos_partial hp hns h

/-- for every program: a position in the error is the first character of a token of the source, or slot-derived: the
    `slotPos` of a slot of a reachable interpolated literal, or a token start *of that slot's text* -/
theorem diag_pos_source_or_slot {src : List Char} {stmts : List Stmt} {n : Nat} {e : Err} {σ : State}
    (hp : parseProg src = .ok stmts) (h : evalProg n stmts = .err e σ) :
    e.AllPos (fun l => TokStart src l ∨ SlotDerived stmts l) :=
  Seed.diag_pos_source_or_slot hp h

/-- the position the diagnostic line starts with is one of them -/
theorem diag_head_pos_is_source_pos {src : List Char} {stmts : List Stmt} {n : Nat} {e : Err} {σ : State} {l : Loc}
    (hp : parseProg src = .ok stmts) (hns : NoSlots stmts) (h : evalProg n stmts = .err e σ) (hl : e.headPos = some l) :
    ∃ i, i < src.length ∧ l = posOf src i :=
  ((Seed.diag_pos_is_source_pos_partial hp hns h).headPos hl).is_posOf

/-- a failure inside a called function: the body of `f` is evaluated out of a function cell of the heap -/
def exCall : List Char := c!"fn f(a) {\n    return a + x;\n}\nf(1);\n"

/-- the hypotheses are satisfiable: the call frame's position `4:1` and the position `2:16` of the undefined `x` -/
example : ∃ stmts e σ, parseProg exCall = .ok stmts ∧ NoSlots stmts ∧ evalProg 40 stmts = .err e σ ∧
    e.positions = [(4, 1), (2, 16)] := by
  obtain ⟨e, σ, he, hp⟩ := errOf_map (n := 40) (stmts := progOf exCall) (f := Err.positions) (x := [(4, 1), (2, 16)])
    (by decide +kernel)
  exact ⟨_, e, σ, parseProg_progOf (by decide +kernel), by decide +kernel, he, hp⟩

/-- … and what the theorem gives for them -/
example : TokStart exCall (4, 1) ∧ TokStart exCall (2, 16) := by
  obtain ⟨e, σ, he, hp⟩ := errOf_map (n := 40) (stmts := progOf exCall) (f := Err.positions) (x := [(4, 1), (2, 16)])
    (by decide +kernel)
  have := (Err.allPos_iff.mp (diag_pos_is_source_pos_partial (parseProg_progOf (by decide +kernel)) (by decide +kernel) he)).1
  rw [hp] at this
  exact ⟨this _ (by simp), this _ (by simp)⟩

/-- a slot with leading blanks: the diagnostic is `2:15: 1:3: 'x' is not defined` — column 15 of line 2 is the blank
    after `${` -/
def exSlot : List Char := c!"y := 1;\n   print($\"a${  x}\");\n"

/-- the statement without `NoSlots` is false: `2:15` is not the start of any token of `exSlot` -/
theorem diag_pos_is_source_pos_fails_with_slots :
    ∃ src stmts n e σ, parseProg src = .ok stmts ∧ evalProg n stmts = .err e σ ∧ ¬ e.AllPos (TokStart src) := by
  obtain ⟨e, σ, he, hp⟩ := errOf_map (n := 40) (stmts := progOf exSlot) (f := Err.positions) (x := [(2, 15), (1, 3)])
    (by decide +kernel)
  refine ⟨exSlot, _, 40, e, σ, parseProg_progOf (by decide +kernel), he, fun hall => ?_⟩
  have := (Err.allPos_iff.mp hall).1 (2, 15) (by rw [hp]; simp)
  exact not_locOK_of_all (by decide +kernel) this.locOK

/-- … and `2:15` is not a position stored in the tree either -/
theorem eval_uses_node_pos_fails_with_slots :
    ∃ stmts n e σ, evalProg n stmts = .err e σ ∧ ¬ e.AllPos (· ∈ Stmt.locsL stmts) := by
  obtain ⟨e, σ, he, hp⟩ := errOf_map (n := 40) (stmts := progOf exSlot) (f := Err.positions) (x := [(2, 15), (1, 3)])
    (by decide +kernel)
  refine ⟨_, 40, e, σ, he, fun hall => ?_⟩
  have := (Err.allPos_iff.mp hall).1 (2, 15) (by rw [hp]; simp)
  revert this
  decide +kernel

/-- the `(0,0)` exception is real: redeclaring `print` cites the position the built-in binding was declared at -/
example : ∃ e σ, evalProg 40 (progOf c!"print := 1;") = .err e σ ∧ e.positions = [(1, 1)] ∧ e.payloadLocs = [(0, 0)] := by
  obtain ⟨e, σ, he, hp⟩ := errOf_map (n := 40) (stmts := progOf c!"print := 1;")
    (f := fun e => (e.positions, e.payloadLocs)) (x := ([(1, 1)], [(0, 0)])) (by decide +kernel)
  exact ⟨e, σ, he, congrArg Prod.fst hp, congrArg Prod.snd hp⟩

/-- a payload position that is a tree position: the earlier parameter cited by DupParamName -/
example : ∃ e σ, evalProg 40 (progOf c!"fn g(a, a) { }\n") = .err e σ ∧ e.positions = [(1, 9)] ∧ e.payloadLocs = [(1, 6)] := by
  obtain ⟨e, σ, he, hp⟩ := errOf_map (n := 40) (stmts := progOf c!"fn g(a, a) { }\n")
    (f := fun e => (e.positions, e.payloadLocs)) (x := ([(1, 9)], [(1, 6)])) (by decide +kernel)
  exact ⟨e, σ, he, congrArg Prod.fst hp, congrArg Prod.snd hp⟩

/-! ### `posOf` against the statement's own counting (known finding K7)

`posOf` is the scanner's convention.  The statement counts "lines from 1 and columns from 1 within the line": the
character at offset `k` is on line `1 + (number of line breaks before it)` at column `1 + (number of characters
between the last line break before it and itself)`.  The two agree on every character except a line break. -/

/-- the position of the character at offset `k` in the statement's own terms -/
def truePos (src : List Char) (k : Nat) : Nat × Nat := (lineOf (src.take k), colOf (src.take k) + 1)

theorem take_succ_of_get {src : List Char} {k : Nat} {c : Char} (h : src[k]? = some c) :
    src.take (k + 1) = src.take k ++ [c] := by
  rw [List.take_add_one, h]; rfl

/-- every character other than a line break is reported where the statement says it is -/
theorem posOf_eq_truePos {src : List Char} {k : Nat} {c : Char} (h : src[k]? = some c) (hc : c ≠ '\n') :
    posOf src k = truePos src k := by
  cases src with
  | nil => simp at h
  | cons a l =>
    show (lineOf ((a :: l).take (k + 1)), colOf ((a :: l).take (k + 1))) = _
    rw [take_succ_of_get h, lineOf_snoc, colOf_snoc, if_neg hc, if_neg hc]; rfl

/-- K7: a line break is reported on the following line at column 0 — a position that does not exist — instead of at the end
    of its own line -/
theorem posOf_line_break {src : List Char} {k : Nat} (h : src[k]? = some '\n') :
    posOf src k = ((truePos src k).1 + 1, 0) := by
  cases src with
  | nil => simp at h
  | cons a l =>
    show (lineOf ((a :: l).take (k + 1)), colOf ((a :: l).take (k + 1))) = _
    rw [take_succ_of_get h, lineOf_snoc, colOf_snoc, if_pos rfl, if_pos rfl]; rfl

/-- hence: the position of a lexical error is the offending character's own line and column, counted from 1, unless that
    character is a line break (K7) -/
theorem lexAll_error_true_pos (src : List Char) (e : LexError) (h : (lexAll src).2 = some e) (c : Char)
    (hc : e.offender = some c) (hnl : c ≠ '\n') :
    ∃ i, i < src.length ∧ src[i]? = some c ∧ e.loc = truePos src i := by
  obtain ⟨i, hi, hl, ho⟩ := lexAll_error_pos src e h
  exact ⟨i, hi, ho c hc, by rw [hl, posOf_eq_truePos (ho c hc) hnl]⟩

/-- K7 is real: the line break after `\\x` is at 1:11 and is reported at 2:0 -/
example : (lexAll c!"s := \"ab\\x\n9\"\n").2.map (fun e => (e.loc, e.offender)) = some ((2, 0), some '\n') ∧
    truePos c!"s := \"ab\\x\n9\"\n" 10 = (1, 11) := by
  decide +kernel

end Seed.C18

/-! ### which node's position each diagnostic carries (third session; `Lemmas/C18Attrib*.lean`)

`eval_uses_node_pos` says that every position of a runtime diagnostic is SOME stored position; these theorems say WHICH.
In the evaluator: a failing binary operation reports at the OPERATOR's position whatever its operands are
(`binop_fail_at_opLoc`; in `a op1 b op2 c` a failing first operator reports at its own token and a failing second one at its
own: `chain_inner_fails`, `chain_outer_fails`); op-assignment on a variable, element, key or property reports at the
op-assignment token (`opAssign_*_fail_at_opLoc`); an undefined name, a call of a non-function, an arity mismatch, an index
out of bounds, a missing property report at that node; a negative or non-int index at the INDEX EXPRESSION; a `break` /
`continue` leaving a called function and any jump at top level at the KEYWORD (`break_escaping_call_at_keyword`, …,
`top_level_*_at_keyword`), not at the call; a `for` over a non-iterable at the iterable; a non-bool condition at the
condition; a non-int range bound at that bound.  On source text: `node_kw` / `kw_pos_src` (one more induction over the 22
parser functions) — every stored operator, op-assignment and keyword position is the start of THAT token, and the source text
there starts with its spelling (`TokIs.text`) — give `binop_fail_at_operator_text`, `chain_*_at_operator_text`,
`top_level_*_at_keyword_text`, `break_escaping_call_at_keyword_text` (for functions declared by a `fn` statement of the
program: `func_body_sub`; for arbitrary function cells the body must be code of the program, a hypothesis).  Slots are out of
scope, as for `node_pos`. -/
-- audit: Seed.C18A.applyBinOp_err_at Seed.C18A.binop_fail_at_opLoc Seed.C18A.binop_lhs_err Seed.C18A.binop_rhs_err Seed.C18A.chain_inner_fails Seed.C18A.chain_outer_fails Seed.C18A.opAssign_var_fail_at_opLoc Seed.C18A.opAssign_index_fail_at_opLoc Seed.C18A.opAssign_objIndex_fail_at_opLoc Seed.C18A.opAssign_prop_fail_at_opLoc Seed.C18A.undefined_var_at_loc Seed.C18A.call_non_func_at_loc Seed.C18A.call_arity_mismatch_at_loc Seed.C18A.index_list_oob_at_loc Seed.C18A.prop_missing_at_loc Seed.C18A.index_list_negative_at_index_expr_loc Seed.C18A.index_list_non_int_at_index_expr_loc
-- audit: Seed.C18A.call_body_escape Seed.C18A.break_escaping_call_at_keyword Seed.C18A.continue_escaping_call_at_keyword Seed.C18A.prog_escape Seed.C18A.top_level_break_at_keyword Seed.C18A.top_level_continue_at_keyword Seed.C18A.top_level_return_at_keyword Seed.C18A.for_non_iterable_at_iter_loc Seed.C18A.while_non_bool_cond_at_cond_loc Seed.C18A.if_non_bool_cond_at_cond_loc Seed.C18A.range_end_non_int_at_end_loc Seed.C18A.range_start_non_int_at_start_loc
-- audit: Seed.C18A.kwAll Seed.C18A.node_kw Seed.C18A.kw_pos_src Seed.C18A.binop_opLoc_is_operator_token Seed.C18A.opAssign_opLoc_is_opassign_token Seed.C18A.nextToken_text Seed.C18A.TokIs.text Seed.C18A.escAll Seed.C18A.stmts_escape_from_list Seed.C18A.binop_fail_at_operator_text Seed.C18A.chain_inner_fails_at_operator_text Seed.C18A.chain_outer_fails_at_operator_text Seed.C18A.opAssign_index_fail_at_operator_text Seed.C18A.top_level_break_at_keyword_text Seed.C18A.top_level_continue_at_keyword_text Seed.C18A.top_level_return_at_keyword_text Seed.C18A.break_escaping_call_at_keyword_text Seed.C18A.continue_escaping_call_at_keyword_text Seed.C18A.func_body_sub
