/-
  Value.lean — values, the heap of cells that stands for `Arc<Mutex<…>>`, scope cells, object maps,
  UTF-8 conversion, errors and the result type of evaluation.
  (/repo/src/eval/value.rs, scope.rs, error.rs)

  An `Arc<Mutex<T>>` is an address into `State.heap`; cells are never freed or moved, so `Arc::ptr_eq`
  is equality of addresses and cloning a `Value` copies the address.
-/
import SeedModel.Ast
import SeedModel.Generated
namespace Seed

abbrev Addr := Nat
abbrev Bytes := List UInt8

inductive BuiltinId where
  | print | strLen | anyType
  deriving DecidableEq, Repr

inductive Val where
  | null
  | bool (b : Bool)
  | int (n : Int)
  | str (bs : Bytes)
  | list (a : Addr)
  | obj (a : Addr)
  | builtin (name : List Char) (f : BuiltinId)
  | func (a : Addr)
  deriving DecidableEq, Repr, Inhabited

/-- `SourcedValue`: a value and the value it was most recently read from -/
structure SVal where
  v : Val
  src : Option Val
  deriving DecidableEq, Repr, Inhabited

def SVal.plain (v : Val) : SVal := ⟨v, none⟩

def Val.kind : Val → Kind
  | .null => .Null | .bool _ => .Bool | .int _ => .Int | .str _ => .Str | .list _ => .List
  | .obj _ => .Object | .builtin _ _ => .BuiltinFunc | .func _ => .Func

structure FuncRec where
  name : Option (List Char)
  args : List Expr
  collect : Bool
  stmts : List Stmt
  closure : List Addr        -- innermost scope first

abbrev ObjMap := List (List Char × SVal)            -- kept strictly sorted by key
abbrev ScopeMap := List (List Char × SVal × Loc)

inductive Cell where
  | list (items : List SVal)
  | obj (props : ObjMap)
  | func (f : FuncRec)
  | scope (vars : ScopeMap)

instance : Inhabited Cell := ⟨.list []⟩

/-- interpreter state: the heap and the lines printed so far (newest first) -/
structure State where
  heap : Array Cell
  out : List (List Char)

def State.init : State := ⟨#[], []⟩

def State.alloc (σ : State) (c : Cell) : Addr × State := (σ.heap.size, { σ with heap := σ.heap.push c })

def State.getList (σ : State) (a : Addr) : Option (List SVal) :=
  match σ.heap[a]? with | some (.list xs) => some xs | _ => none
def State.getObj (σ : State) (a : Addr) : Option ObjMap :=
  match σ.heap[a]? with | some (.obj m) => some m | _ => none
def State.getFunc (σ : State) (a : Addr) : Option FuncRec :=
  match σ.heap[a]? with | some (.func f) => some f | _ => none
def State.getScope (σ : State) (a : Addr) : Option ScopeMap :=
  match σ.heap[a]? with | some (.scope m) => some m | _ => none

def State.set (σ : State) (a : Addr) (c : Cell) : State := { σ with heap := σ.heap.setIfInBounds a c }

def State.print (σ : State) (line : List Char) : State := { σ with out := line :: σ.out }

/-! ### object maps: association lists sorted by key (the order of `BTreeMap<String, _>`:
    byte-wise on UTF-8, which is code-point-wise on characters) -/

def keyLt : List Char → List Char → Bool
  | [], [] => false
  | [], _ :: _ => true
  | _ :: _, [] => false
  | a :: as, b :: bs => if a.toNat < b.toNat then true else if b.toNat < a.toNat then false else keyLt as bs

def objGet (k : List Char) : ObjMap → Option SVal
  | [] => none
  | (k', v) :: r => if k = k' then some v else objGet k r

def objInsert (k : List Char) (v : SVal) : ObjMap → ObjMap
  | [] => [(k, v)]
  | (k', v') :: r =>
    if k = k' then (k, v) :: r
    else if keyLt k k' then (k, v) :: (k', v') :: r
    else (k', v') :: objInsert k v r

def objRemove (k : List Char) : ObjMap → ObjMap
  | [] => []
  | (k', v') :: r => if k = k' then r else (k', v') :: objRemove k r

/-! ### scope maps (a `HashMap` in the code; iteration order is never observed, see C19) -/

def scopeLookup (k : List Char) : ScopeMap → Option (SVal × Loc)
  | [] => none
  | (k', v, l) :: r => if k = k' then some (v, l) else scopeLookup k r

def scopeSetVal (k : List Char) (v : SVal) : ScopeMap → ScopeMap
  | [] => []
  | (k', v', l) :: r => if k = k' then (k', v, l) :: r else (k', v', l) :: scopeSetVal k v r

/-- `ScopeStack::get`: innermost scope first -/
def scopeGet (σ : State) : List Addr → List Char → Option SVal
  | [], _ => none
  | a :: r, k =>
    match σ.getScope a with
    | none => none
    | some m =>
      match scopeLookup k m with
      | some (v, _) => some v
      | none => scopeGet σ r k

/-- `ScopeStack::assign`: replaces the value in the nearest scope that has the name -/
def scopeAssign (σ : State) : List Addr → List Char → SVal → Option State
  | [], _, _ => none
  | a :: r, k, v =>
    match σ.getScope a with
    | none => none
    | some m =>
      match scopeLookup k m with
      | some _ => some (σ.set a (.scope (scopeSetVal k v m)))
      | none => scopeAssign σ r k v

inductive DeclRes where
  | ok (σ : State)
  | dup (prev : Loc)
  | bad

/-- `ScopeStack::declare`: only the innermost scope is consulted -/
def scopeDeclare (σ : State) (sc : List Addr) (k : List Char) (loc : Loc) (v : SVal) : DeclRes :=
  match sc with
  | [] => .bad
  | a :: _ =>
    match σ.getScope a with
    | none => .bad
    | some m =>
      match scopeLookup k m with
      | some (_, prev) => .dup prev
      | none => .ok (σ.set a (.scope ((k, v, loc) :: m)))

/-! ### UTF-8 -/

def utf8Encode (cs : List Char) : Bytes := cs.flatMap String.utf8EncodeChar

inductive Utf8Err where
  | invalid (len : Nat) (idx : Nat)     -- "invalid utf-8 sequence of {len} bytes from index {idx}"
  | incomplete (idx : Nat)              -- "incomplete utf-8 byte sequence from index {idx}"
  deriving Repr, DecidableEq

def isCont (b : UInt8) : Bool := 0x80 ≤ b.toNat && b.toNat ≤ 0xBF

/-- strict UTF-8 decoding as `String::from_utf8` does it (`fuel` ≥ number of bytes) -/
def utf8DecodeAux : Nat → Nat → Bytes → List Char → Except Utf8Err (List Char)
  | 0, _, _, acc => .ok acc.reverse
  | _ + 1, _, [], acc => .ok acc.reverse
  | fuel + 1, i, b0 :: r, acc =>
    let n0 := b0.toNat
    if n0 < 0x80 then utf8DecodeAux fuel (i + 1) r (Char.ofNat n0 :: acc)
    else if 0xC2 ≤ n0 && n0 ≤ 0xDF then
      match r with
      | [] => .error (.incomplete i)
      | b1 :: r1 =>
        if isCont b1 then utf8DecodeAux fuel (i + 2) r1 (Char.ofNat ((n0 - 0xC0) * 64 + (b1.toNat - 0x80)) :: acc)
        else .error (.invalid 1 i)
    else if 0xE0 ≤ n0 && n0 ≤ 0xEF then
      match r with
      | [] => .error (.incomplete i)
      | b1 :: r1 =>
        let n1 := b1.toNat
        let ok1 := if n0 = 0xE0 then 0xA0 ≤ n1 && n1 ≤ 0xBF else if n0 = 0xED then 0x80 ≤ n1 && n1 ≤ 0x9F else isCont b1
        if !ok1 then .error (.invalid 1 i)
        else
          match r1 with
          | [] => .error (.incomplete i)
          | b2 :: r2 =>
            if isCont b2 then
              utf8DecodeAux fuel (i + 3) r2 (Char.ofNat ((n0 - 0xE0) * 4096 + (n1 - 0x80) * 64 + (b2.toNat - 0x80)) :: acc)
            else .error (.invalid 2 i)
    else if 0xF0 ≤ n0 && n0 ≤ 0xF4 then
      match r with
      | [] => .error (.incomplete i)
      | b1 :: r1 =>
        let n1 := b1.toNat
        let ok1 := if n0 = 0xF0 then 0x90 ≤ n1 && n1 ≤ 0xBF else if n0 = 0xF4 then 0x80 ≤ n1 && n1 ≤ 0x8F else isCont b1
        if !ok1 then .error (.invalid 1 i)
        else
          match r1 with
          | [] => .error (.incomplete i)
          | b2 :: r2 =>
            if !isCont b2 then .error (.invalid 2 i)
            else
              match r2 with
              | [] => .error (.incomplete i)
              | b3 :: r3 =>
                if isCont b3 then
                  utf8DecodeAux fuel (i + 4) r3
                    (Char.ofNat ((n0 - 0xF0) * 262144 + (n1 - 0x80) * 4096 + (b2.toNat - 0x80) * 64 + (b3.toNat - 0x80)) :: acc)
                else .error (.invalid 3 i)
    else .error (.invalid 1 i)

def utf8Decode (bs : Bytes) : Except Utf8Err (List Char) := utf8DecodeAux (bs.length + 1) 0 bs []

/-- `Display` of `FromUtf8Error` -/
def Utf8Err.msg : Utf8Err → List Char
  | .invalid len idx => c!"invalid utf-8 sequence of " ++ natToChars len ++ c!" bytes from index " ++ natToChars idx
  | .incomplete idx => c!"incomplete utf-8 byte sequence from index " ++ natToChars idx

/-! ### errors and results -/

/-- an evaluation error with the context wrappers erased, except those that carry a position or a call
    frame (the CLI renderer looks through all the others; `C17.all_wrappers_peeled`) -/
inductive Err where
  | leaf (l : Gen.Leaf)
  | atLoc (line col : Nat) (e : Err)
  | funcCall (name : Option (List Char)) (callLoc : Loc) (e : Err)
  | builtinCall (name : Option (List Char)) (callLoc : Loc) (e : Err)

def Err.at (loc : Loc) (l : Gen.Leaf) : Err := .atLoc loc.1 loc.2 (.leaf l)

inductive Res (α : Type) where
  | ok (a : α) (σ : State)
  | err (e : Err) (σ : State)
  | crash (why : List Char) (σ : State)
  | timeout

namespace Res
def bind {α β} (r : Res α) (f : α → State → Res β) : Res β :=
  match r with
  | .ok a σ => f a σ
  | .err e σ => .err e σ
  | .crash w σ => .crash w σ
  | .timeout => .timeout
def map {α β} (r : Res α) (f : α → β) : Res β :=
  match r with
  | .ok a σ => .ok (f a) σ
  | .err e σ => .err e σ
  | .crash w σ => .crash w σ
  | .timeout => .timeout
/-- rewrap an error (used for call frames) -/
def mapErr {α} (r : Res α) (f : Err → Err) : Res α :=
  match r with
  | .err e σ => .err (f e) σ
  | r => r
end Res

inductive Escape where
  | none
  | brk (loc : Loc)
  | cont (loc : Loc)
  | ret (v : SVal) (loc : Loc)

end Seed
