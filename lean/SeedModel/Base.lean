/-
  Base.lean — small shared definitions: character-list literals, value kinds, decimal rendering.
-/
namespace Seed

/-- `c!"abc"` is the list literal `['a', 'b', 'c']` (kernel-reducible, unlike `"abc".toList`) -/
macro:max "c!" s:str : term => do
  let cs := s.getString.toList
  let elems := cs.toArray.map fun c => Lean.Syntax.mkCharLit c
  `([$elems,*])

def lookupAssoc {α β} [DecidableEq α] (k : α) : List (α × β) → Option β
  | [] => none
  | (k', v) :: r => if k = k' then some v else lookupAssoc k r

/-- the eight kinds of value (`Value` of /repo/src/eval/value.rs) -/
inductive Kind where
  | Null | Bool | Int | Str | List | Object | BuiltinFunc | Func
  deriving DecidableEq, Repr, Inhabited

def digitChar (n : Nat) : Char := Char.ofNat (48 + n % 10)

def natToCharsAux : Nat → Nat → List Char → List Char
  | 0, _, acc => acc
  | fuel + 1, n, acc => if n < 10 then digitChar n :: acc else natToCharsAux fuel (n / 10) (digitChar n :: acc)

/-- decimal rendering of a natural number -/
def natToChars (n : Nat) : List Char := natToCharsAux (n + 1) n []

def intToChars (i : Int) : List Char :=
  match i with
  | .ofNat n => natToChars n
  | .negSucc n => '-' :: natToChars (n + 1)

end Seed
