/-
  Parse.lean — a total recursive-descent recogniser for the language of /repo/src/parser.lalrpop,
  building the same syntax tree with the same stored positions.  It is an independent parser (the
  LALRPOP automaton cannot be exported); it is tied to the real one by the `ast` correspondence.
  Binary-operator tiers, op-assignment tokens and postfix openers come from `Generated.lean`.

  Every function takes `fuel` and calls the others with `fuel - 1`.
-/
import SeedModel.Ast
import SeedModel.Lex
namespace Seed

inductive PErr where
  | tok (sp : Span)      -- UnrecognizedToken
  | eof                  -- UnrecognizedEof (or the pending lexical error, decided by the caller)
  deriving Repr

inductive PRes (α : Type) where
  | ok (a : α) (rest : List Span)
  | err (e : PErr)
  | timeout

namespace PRes
def bind {α β} (r : PRes α) (f : α → List Span → PRes β) : PRes β :=
  match r with
  | .ok a rest => f a rest
  | .err e => .err e
  | .timeout => .timeout
def map {α β} (r : PRes α) (f : α → β) : PRes β :=
  match r with
  | .ok a rest => .ok (f a) rest
  | .err e => .err e
  | .timeout => .timeout
end PRes

def headLoc : List Span → Loc
  | [] => (0, 0)
  | sp :: _ => sp.start

def unexpected {α} : List Span → PRes α
  | [] => .err .eof
  | sp :: _ => .err (.tok sp)

def expectTok (t : Token) : List Span → PRes Unit
  | [] => .err .eof
  | sp :: r => if sp.tok = t then .ok () r else .err (.tok sp)

def expectIdent : List Span → PRes (List Char)
  | [] => .err .eof
  | sp :: r =>
    match sp.tok with
    | .Ident s => .ok s r
    | _ => .err (.tok sp)

/-- binary operator of tier `k` spelled by token `t` -/
def opAt (k : Nat) (t : Token) : Option BinaryOp :=
  match lookupAssoc t Gen.binOps with
  | some (op, k') => if k = k' then some op else none
  | none => none

def assignOpOf (t : Token) : Option BinaryOp := lookupAssoc t Gen.assignOps

/-- tokens that may follow a spread marker `..` (so that `x..` is a spread rather than a range) -/
def isSpreadFollow : List Span → Bool
  | [] => false
  | sp :: _ =>
    match sp.tok with
    | .Comma => true
    | .BracketClose => true
    | .ParenClose => true
    | .BraceClose => true
    | _ => false

mutual

/-- `ExprPrecedence6`; `pre` is an already-parsed atom (used for `{…}` at statement start) -/
def parseAtom (fuel : Nat) (pre : Option RawExpr) (ts : List Span) : PRes RawExpr :=
  match fuel with
  | 0 => .timeout
  | n + 1 =>
    match pre with
    | some a => .ok a ts
    | none =>
      match ts with
      | [] => .err .eof
      | sp :: r =>
        match sp.tok with
        | .Null => .ok .Null r
        | .True => .ok (.Bool true) r
        | .False => .ok (.Bool false) r
        | .Ident s => .ok (.Var s) r
        | .IntLiteral k => .ok (.Int k) r
        | .StrLiteral s => .ok (.Str s none) r
        | .InterpStrLiteral s slots => .ok (.Str s (some slots)) r
        | .Sub =>
          match r with
          | [] => .err .eof
          | sp2 :: r2 =>
            match sp2.tok with
            | .IntLiteral k => .ok (.Int (-k)) r2
            | _ => .err (.tok sp2)
        | .ParenOpen =>
          (parseExpr1 n false (headLoc r) none r).bind fun e r2 =>
          (expectTok .ParenClose r2).bind fun _ r3 => .ok e r3
        | .BracketOpen =>
          (parseExprList n [] r).bind fun (items, collect) r2 => .ok (.List items collect) r2
        | .BraceOpen =>
          (parsePropItems n [] r).bind fun props r2 => .ok (.Object props) r2
        | .Fn =>
          (expectTok .ParenOpen r).bind fun _ r2 =>
          (parseParams n [] r2).bind fun (args, collect) r3 =>
          (parseBlock n r3).bind fun stmts r4 => .ok (.Func args collect stmts) r4
        | _ => .err (.tok sp)

/-- `ExprPrecedence5`: an atom followed by any number of postfix forms; all carry the position `loc0` -/
def parsePostfix (fuel : Nat) (loc0 : Loc) (pre : Option RawExpr) (ts : List Span) : PRes RawExpr :=
  match fuel with
  | 0 => .timeout
  | n + 1 => (parseAtom n pre ts).bind fun a r => postfixLoop n loc0 a r

def postfixLoop (fuel : Nat) (loc0 : Loc) (acc : RawExpr) (ts : List Span) : PRes RawExpr :=
  match fuel with
  | 0 => .timeout
  | n + 1 =>
    match ts with
    | [] => .ok acc ts
    | sp :: r =>
      match sp.tok with
      | .ParenOpen =>
        (parseArgs n [] r).bind fun args r2 => postfixLoop n loc0 (.Call (.mk acc loc0) args) r2
      | .BracketOpen =>
        (parseIndexTail n (.mk acc loc0) r).bind fun e r2 => postfixLoop n loc0 e r2
      | .Dot =>
        (expectIdent r).bind fun name r2 => postfixLoop n loc0 (.Prop (.mk acc loc0) name false) r2
      | .DashGreaterThan =>
        (expectIdent r).bind fun name r2 => postfixLoop n loc0 (.Prop (.mk acc loc0) name true) r2
      | _ => .ok acc ts

/-- after `e [` : `Expr ]`, or `Expr? : Expr? ]` -/
def parseIndexTail (fuel : Nat) (e : Expr) (ts : List Span) : PRes RawExpr :=
  match fuel with
  | 0 => .timeout
  | n + 1 =>
    match ts with
    | [] => .err .eof
    | sp :: r =>
      if sp.tok = .Colon then parseRangeEnd n e none r
      else
        (parseExpr n false ts).bind fun i r2 =>
        match r2 with
        | [] => .err .eof
        | sp2 :: r3 =>
          if sp2.tok = .BracketClose then .ok (.Index e i) r3
          else if sp2.tok = .Colon then parseRangeEnd n e (some i) r3
          else .err (.tok sp2)

/-- after `e [ start? :` -/
def parseRangeEnd (fuel : Nat) (e : Expr) (start : Option Expr) (ts : List Span) : PRes RawExpr :=
  match fuel with
  | 0 => .timeout
  | n + 1 =>
    match ts with
    | [] => .err .eof
    | sp :: r =>
      if sp.tok = .BracketClose then .ok (.RangeIndex e start none) r
      else
        (parseExpr n false ts).bind fun j r2 =>
        (expectTok .BracketClose r2).bind fun _ r3 => .ok (.RangeIndex e start (some j)) r3

/-- `ExprTier` for tier `k` (`k ≥ postfixTier` is `ExprPrecedence5`) -/
def parseTier (fuel : Nat) (k : Nat) (loc0 : Loc) (pre : Option RawExpr) (ts : List Span) : PRes RawExpr :=
  match fuel with
  | 0 => .timeout
  | n + 1 =>
    if k ≥ Gen.postfixTier then parsePostfix n loc0 pre ts
    else (parseTier n (k + 1) loc0 pre ts).bind fun l r => tierLoop n k loc0 l r

def tierLoop (fuel : Nat) (k : Nat) (loc0 : Loc) (acc : RawExpr) (ts : List Span) : PRes RawExpr :=
  match fuel with
  | 0 => .timeout
  | n + 1 =>
    match ts with
    | [] => .ok acc ts
    | sp :: r =>
      match opAt k sp.tok with
      | none => .ok acc ts
      | some op =>
        (parseTier n (k + 1) (headLoc r) none r).bind fun rhs r2 =>
        tierLoop n k loc0 (.BinaryOp op sp.start (.mk acc loc0) (.mk rhs (headLoc r))) r2

/-- `ExprPrecedence1`: tiers, then the left-associative range operator.  With `spreadOk`, a `..`
    directly followed by `, ] ) }` is left unconsumed (it is a spread marker for the caller). -/
def parseExpr1 (fuel : Nat) (spreadOk : Bool) (loc0 : Loc) (pre : Option RawExpr) (ts : List Span) : PRes RawExpr :=
  match fuel with
  | 0 => .timeout
  | n + 1 => (parseTier n Gen.firstTier loc0 pre ts).bind fun e r => rangeLoop n spreadOk loc0 e r

def rangeLoop (fuel : Nat) (spreadOk : Bool) (loc0 : Loc) (acc : RawExpr) (ts : List Span) : PRes RawExpr :=
  match fuel with
  | 0 => .timeout
  | n + 1 =>
    match ts with
    | [] => .ok acc ts
    | sp :: r =>
      if sp.tok = .DotDot then
        if spreadOk && isSpreadFollow r then .ok acc ts
        else
          (parseTier n Gen.firstTier (headLoc r) none r).bind fun e r2 =>
          rangeLoop n spreadOk loc0 (.Range (.mk acc loc0) (.mk e (headLoc r))) r2
      else .ok acc ts

/-- `Expr` -/
def parseExpr (fuel : Nat) (spreadOk : Bool) (ts : List Span) : PRes Expr :=
  match fuel with
  | 0 => .timeout
  | n + 1 => (parseExpr1 n spreadOk (headLoc ts) none ts).map fun e => .mk e (headLoc ts)

/-- optional spread marker after an item expression -/
def parseArgs (fuel : Nat) (acc : List ListItem) (ts : List Span) : PRes (List ListItem) :=
  match fuel with
  | 0 => .timeout
  | n + 1 =>
    match ts with
    | [] => .err .eof
    | sp :: r =>
      if sp.tok = .ParenClose then .ok acc.reverse r
      else
        (parseExpr n true ts).bind fun e r2 =>
        match r2 with
        | [] => .err .eof
        | sp2 :: r3 =>
          if sp2.tok = .DotDot then
            match r3 with
            | [] => .err .eof
            | sp3 :: r4 =>
              if sp3.tok = .Comma then parseArgs n (.mk e true :: acc) r4
              else if sp3.tok = .ParenClose then .ok (ListItem.mk e true :: acc).reverse r4
              else .err (.tok sp3)
          else if sp2.tok = .Comma then parseArgs n (.mk e false :: acc) r3
          else if sp2.tok = .ParenClose then .ok (ListItem.mk e false :: acc).reverse r3
          else .err (.tok sp2)

/-- `ExprList` after `[` -/
def parseExprList (fuel : Nat) (acc : List ListItem) (ts : List Span) : PRes (List ListItem × Bool) :=
  match fuel with
  | 0 => .timeout
  | n + 1 =>
    match ts with
    | [] => .err .eof
    | sp :: r =>
      if sp.tok = .BracketClose then .ok (acc.reverse, false) r
      else if sp.tok = .DotDot then
        (parseExpr n true r).bind fun e r2 =>
        match r2 with
        | [] => .err .eof
        | sp2 :: r3 =>
          if sp2.tok = .DotDot then
            (expectTok .BracketClose r3).bind fun _ r4 => .ok ((ListItem.mk e true :: acc).reverse, true) r4
          else if sp2.tok = .BracketClose then .ok ((ListItem.mk e false :: acc).reverse, true) r3
          else .err (.tok sp2)
      else
        (parseExpr n true ts).bind fun e r2 =>
        match r2 with
        | [] => .err .eof
        | sp2 :: r3 =>
          if sp2.tok = .DotDot then
            match r3 with
            | [] => .err .eof
            | sp3 :: r4 =>
              if sp3.tok = .Comma then parseExprList n (.mk e true :: acc) r4
              else if sp3.tok = .BracketClose then .ok ((ListItem.mk e true :: acc).reverse, false) r4
              else .err (.tok sp3)
          else if sp2.tok = .Comma then parseExprList n (.mk e false :: acc) r3
          else if sp2.tok = .BracketClose then .ok ((ListItem.mk e false :: acc).reverse, false) r3
          else .err (.tok sp2)

/-- `ParamList` after `(`, consuming the closing `)` -/
def parseParams (fuel : Nat) (acc : List Expr) (ts : List Span) : PRes (List Expr × Bool) :=
  match fuel with
  | 0 => .timeout
  | n + 1 =>
    match ts with
    | [] => .err .eof
    | sp :: r =>
      if sp.tok = .ParenClose then .ok (acc.reverse, false) r
      else if sp.tok = .DotDot then
        (parseExpr n false r).bind fun e r2 =>
        (expectTok .ParenClose r2).bind fun _ r3 => .ok ((e :: acc).reverse, true) r3
      else
        (parseExpr n false ts).bind fun e r2 =>
        match r2 with
        | [] => .err .eof
        | sp2 :: r3 =>
          if sp2.tok = .Comma then parseParams n (e :: acc) r3
          else if sp2.tok = .ParenClose then .ok ((e :: acc).reverse, false) r3
          else .err (.tok sp2)

/-- `PropList` at the start of an item (or the closing brace), consuming the closing `}` -/
def parsePropItems (fuel : Nat) (acc : List PropItem) (ts : List Span) : PRes (List PropItem) :=
  match fuel with
  | 0 => .timeout
  | n + 1 =>
    match ts with
    | [] => .err .eof
    | sp :: r =>
      if sp.tok = .BraceClose then .ok acc.reverse r
      else if sp.tok = .DotDot then
        (parseExpr n true r).bind fun e r2 =>
        match r2 with
        | [] => .err .eof
        | sp2 :: r3 =>
          if sp2.tok = .DotDot then parsePropTail n (.Single e true true :: acc) r3
          else parsePropTail n (.Single e false true :: acc) r2
      else
        (parseExpr n true ts).bind fun e r2 =>
        match r2 with
        | [] => .err .eof
        | sp2 :: r3 =>
          if sp2.tok = .Colon then
            (parseExpr n false r3).bind fun v r4 => parsePropTail n (.Pair e v :: acc) r4
          else if sp2.tok = .DotDot then parsePropTail n (.Single e true false :: acc) r3
          else parsePropTail n (.Single e false false :: acc) r2

/-- after a property item: `,` (more items may follow) or `}` -/
def parsePropTail (fuel : Nat) (acc : List PropItem) (ts : List Span) : PRes (List PropItem) :=
  match fuel with
  | 0 => .timeout
  | n + 1 =>
    match ts with
    | [] => .err .eof
    | sp :: r =>
      if sp.tok = .Comma then parsePropItems n acc r
      else if sp.tok = .BraceClose then .ok acc.reverse r
      else .err (.tok sp)

/-- `Block`: `{ Stmt* }` -/
def parseBlock (fuel : Nat) (ts : List Span) : PRes (List Stmt) :=
  match fuel with
  | 0 => .timeout
  | n + 1 => (expectTok .BraceOpen ts).bind fun _ r => parseStmts n true [] r

/-- `Stmt*` up to the closing brace (`closing`) or the end of input -/
def parseStmts (fuel : Nat) (closing : Bool) (acc : List Stmt) (ts : List Span) : PRes (List Stmt) :=
  match fuel with
  | 0 => .timeout
  | n + 1 =>
    match ts with
    | [] => if closing then .err .eof else .ok acc.reverse []
    | sp :: r =>
      if closing && sp.tok = .BraceClose then .ok acc.reverse r
      else
        (parseRawStmt n false ts).bind fun st r2 =>
        (expectTok .StmtEnd r2).bind fun _ r3 => parseStmts n closing (st :: acc) r3

/-- `IfStmt`; `ts` follows the `if` keyword -/
def parseIf (fuel : Nat) (ts : List Span) : PRes (List Branch × Option (List Stmt)) :=
  match fuel with
  | 0 => .timeout
  | n + 1 =>
    (parseExpr n false ts).bind fun cond r =>
    (parseBlock n r).bind fun stmts r2 =>
    match r2 with
    | [] => .ok ([.mk cond stmts], none) r2
    | sp :: r3 =>
      if sp.tok = .Else then
        match r3 with
        | [] => .err .eof
        | sp2 :: r4 =>
          if sp2.tok = .If then
            (parseIf n r4).bind fun (bs, els) r5 => .ok (.mk cond stmts :: bs, els) r5
          else
            (parseBlock n r3).bind fun els r5 => .ok ([.mk cond stmts], some els) r5
      else .ok ([.mk cond stmts], none) r2

/-- the tail of an expression statement: `:= e`, `= e`, `op= e` or nothing -/
def parseStmtTail (fuel : Nat) (lhs : Expr) (ts : List Span) : PRes Stmt :=
  match fuel with
  | 0 => .timeout
  | n + 1 =>
    match ts with
    | [] => .ok (.Expr lhs) ts
    | sp :: r =>
      if sp.tok = .ColonEquals then (parseExpr n false r).bind fun rhs r2 => .ok (.Declare lhs rhs) r2
      else if sp.tok = .Equals then (parseExpr n false r).bind fun rhs r2 => .ok (.Assign lhs rhs) r2
      else
        match assignOpOf sp.tok with
        | some op => (parseExpr n false r).bind fun rhs r2 => .ok (.OpAssign lhs op sp.start rhs) r2
        | none => .ok (.Expr lhs) ts

/-- an expression statement whose first atom may already be parsed -/
def parseExprStmt (fuel : Nat) (amb : Bool) (loc0 : Loc) (pre : Option RawExpr) (ts : List Span) : PRes Stmt :=
  match fuel with
  | 0 => .timeout
  | n + 1 =>
    (parseExpr1 n amb loc0 pre ts).bind fun e r => parseStmtTail n (.mk e loc0) r

/-- `RawStmt`.  `amb` says the statement is the first thing after a `{` in statement position, where
    it may turn out to be the first property of an object literal (so a trailing spread is allowed). -/
def parseRawStmt (fuel : Nat) (amb : Bool) (ts : List Span) : PRes Stmt :=
  match fuel with
  | 0 => .timeout
  | n + 1 =>
    match ts with
    | [] => .err .eof
    | sp :: r =>
      match sp.tok with
      | .BraceOpen => parseBraceStmt n amb sp.start r
      | .If => (parseIf n r).bind fun (bs, els) r2 => .ok (.If bs els) r2
      | .While =>
        (parseExpr n false r).bind fun cond r2 =>
        (parseBlock n r2).bind fun stmts r3 => .ok (.While cond stmts) r3
      | .For =>
        (parseExpr n false r).bind fun lhs r2 =>
        (expectTok .In r2).bind fun _ r3 =>
        (parseExpr n false r3).bind fun iter r4 =>
        (parseBlock n r4).bind fun stmts r5 => .ok (.For lhs iter stmts) r5
      | .Break => .ok (.Break sp.start) r
      | .Continue => .ok (.Continue sp.start) r
      | .Return => (parseExpr n false r).bind fun e r2 => .ok (.Return sp.start e) r2
      | .Fn =>
        match r with
        | [] => .err .eof
        | sp2 :: r2 =>
          match sp2.tok with
          | .Ident name =>
            (expectTok .ParenOpen r2).bind fun _ r3 =>
            (parseParams n [] r3).bind fun (args, collect) r4 =>
            (parseBlock n r4).bind fun stmts r5 => .ok (.Func name sp2.start args collect stmts) r5
          | _ => parseExprStmt n amb sp.start none ts
      | _ => parseExprStmt n amb sp.start none ts

/-- after a `{` (at `loc0`) in statement position: a block, or a statement starting with an object literal -/
def parseBraceStmt (fuel : Nat) (amb : Bool) (loc0 : Loc) (ts : List Span) : PRes Stmt :=
  match fuel with
  | 0 => .timeout
  | n + 1 =>
    match ts with
    | [] => .err .eof
    | sp :: r =>
      if sp.tok = .BraceClose then parseExprStmt n amb loc0 (some (.Object [])) r
      else if sp.tok = .DotDot then
        (parsePropItems n [] ts).bind fun props r2 => parseExprStmt n amb loc0 (some (.Object props)) r2
      else
        (parseRawStmt n true ts).bind fun st r2 =>
        match st with
        | .Expr e =>
          match r2 with
          | [] => .err .eof
          | sp2 :: r3 =>
            if sp2.tok = .StmtEnd then
              (parseStmts n true [st] r3).bind fun stmts r4 => .ok (.Block stmts) r4
            else if sp2.tok = .Colon then
              (parseExpr n false r3).bind fun v r4 =>
              (parsePropTail n [.Pair e v] r4).bind fun props r5 =>
              parseExprStmt n amb loc0 (some (.Object props)) r5
            else if sp2.tok = .DotDot then
              (parsePropTail n [.Single e true false] r3).bind fun props r4 =>
              parseExprStmt n amb loc0 (some (.Object props)) r4
            else if sp2.tok = .Comma || sp2.tok = .BraceClose then
              (parsePropTail n [.Single e false false] r2).bind fun props r4 =>
              parseExprStmt n amb loc0 (some (.Object props)) r4
            else .err (.tok sp2)
        | _ =>
          (expectTok .StmtEnd r2).bind fun _ r3 =>
          (parseStmts n true [st] r3).bind fun stmts r4 => .ok (.Block stmts) r4

end

/-- outcome of the front end -/
inductive FrontErr where
  | lex (e : LexError)
  | unexpectedTok (sp : Span)
  | unexpectedEof (loc : Loc)
  deriving Repr

def lastEnd : List Span → Loc
  | [] => (0, 0)
  | [sp] => sp.stop
  | _ :: r => lastEnd r

def parseFuel (ts : List Span) : Nat := 40 * (ts.length + 2)

inductive Front (α : Type) where
  | ok (a : α)
  | err (e : FrontErr)
  | timeout

def resolveErr (ts : List Span) (lexErr : Option LexError) : PErr → FrontErr
  | .tok sp => .unexpectedTok sp
  | .eof =>
    match lexErr with
    | some e => .lex e
    | none => .unexpectedEof (lastEnd ts)

/-- `ProgParser::new().parse(Lexer::new(src))` -/
def parseProg (src : List Char) : Front (List Stmt) :=
  let (ts, lexErr) := lexAll src
  match parseStmts (parseFuel ts) false [] ts with
  | .timeout => .timeout
  | .err e => .err (resolveErr ts lexErr e)
  | .ok stmts _ =>
    match lexErr with
    | some e => .err (.lex e)
    | none => .ok stmts

/-- `ExprParser::new().parse(Lexer::new(src))` (interpolation slots) -/
def parseExprTop (src : List Char) : Front Expr :=
  let (ts, lexErr) := lexAll src
  match parseExpr (parseFuel ts) false ts with
  | .timeout => .timeout
  | .err e => .err (resolveErr ts lexErr e)
  | .ok e rest =>
    match rest with
    | sp :: _ => .err (.unexpectedTok sp)
    | [] =>
      match lexErr with
      | some e => .err (.lex e)
      | none => .ok e

end Seed
