/-
  Lex.lean — model of /repo/src/lexer/scanner.rs and /repo/src/lexer/mod.rs.

  Scanner state is `(rest, line, col)`: `rest.head?` is `peek_char()`, and `(line, col)` is
  `loc()`.  `Scanner.next` is `next_char()`.  All loops are structural recursions on `rest`.
  Symbol, keyword and continuation tables come from `Generated.lean` (extracted from the source).
-/
import SeedModel.Base
import SeedModel.Token
import SeedModel.Generated
namespace Seed

structure Scanner where
  rest : List Char
  line : Nat
  col : Nat
  deriving Repr, DecidableEq

/-- position after consuming the current character, given the character that follows it -/
def locAfter (l c : Nat) (next : Option Char) : Nat × Nat :=
  match next with
  | none => (l, c)
  | some ch => if ch = '\n' then (l + 1, 0) else (l, c + 1)

def Scanner.new (src : List Char) : Scanner :=
  match src with
  | '\n' :: _ => ⟨src, 2, 0⟩
  | _ => ⟨src, 1, 1⟩

def Scanner.peek (s : Scanner) : Option Char := s.rest.head?

def Scanner.loc (s : Scanner) : Loc := (s.line, s.col)

def Scanner.next (s : Scanner) : Scanner :=
  match s.rest with
  | [] => s
  | _ :: r =>
    let p := locAfter s.line s.col r.head?
    ⟨r, p.1, p.2⟩

def Scanner.advance : Nat → Scanner → Scanner
  | 0, s => s
  | n + 1, s => Scanner.advance n s.next

/-- `char::is_ascii_whitespace`: space, tab, LF, FF, CR -/
def isAsciiWs (c : Char) : Bool :=
  c = ' ' || c = '\t' || c = '\n' || c.toNat = 12 || c = '\r'

def isAsciiDigit (c : Char) : Bool := '0'.toNat ≤ c.toNat && c.toNat ≤ '9'.toNat
def isAsciiAlpha (c : Char) : Bool :=
  ('a'.toNat ≤ c.toNat && c.toNat ≤ 'z'.toNat) || ('A'.toNat ≤ c.toNat && c.toNat ≤ 'Z'.toNat)
def isIdentChar (c : Char) : Bool := isAsciiAlpha c || isAsciiDigit c || c = '_'
def isIntChar (c : Char) : Bool := isAsciiDigit c || c = '_'

/-- the inner loop of `skip_whitespace_and_comments`: consume up to, not including, a newline -/
def skipComment : List Char → Nat → Nat → Scanner
  | [], l, c => ⟨[], l, c⟩
  | ch :: r, l, c =>
    if ch = '\n' then ⟨ch :: r, l, c⟩
    else
      let p := locAfter l c r.head?
      skipComment r p.1 p.2

def skipWs : List Char → Nat → Nat → Scanner
  | [], l, c => ⟨[], l, c⟩
  | ch :: r, l, c =>
    if ch = '#' then skipComment (ch :: r) l c
    else if ch = '\n' || !isAsciiWs ch then ⟨ch :: r, l, c⟩
    else
      let p := locAfter l c r.head?
      skipWs r p.1 p.2

def Scanner.skipWs (s : Scanner) : Scanner := Seed.skipWs s.rest s.line s.col

def matchSingle (c : Char) : Option Token := lookupAssoc c Gen.singleSym
def matchDouble (a b : Char) : Option Token := lookupAssoc (a, b) Gen.doubleSym
def matchTriple (a b c : Char) : Option Token := lookupAssoc (a, b, c) Gen.tripleSym

def keywordOrIdent (w : List Char) : Token :=
  match lookupAssoc w Gen.keywords with
  | some t => t
  | none => Token.Ident w

def digitVal (c : Char) : Nat := c.toNat - '0'.toNat

def decimalValue (ds : List Char) : Nat := ds.foldl (fun acc c => acc * 10 + digitVal c) 0

def i64Max : Nat := 9223372036854775807

/-- `next_int`: maximal run of digits and `_`; `_` removed; value must fit `i64` -/
def lexInt (s : Scanner) : Except LexError (Token × Scanner) :=
  let raw := s.rest.takeWhile isIntChar
  let s' := s.advance raw.length
  let n := decimalValue (raw.filter (fun c => c ≠ '_'))
  if n ≤ i64Max then .ok (Token.IntLiteral (Int.ofNat n), s')
  else .error (LexError.IntOverflow s.loc raw)

def hexVal (c : Char) : Option Nat :=
  if isAsciiDigit c then some (c.toNat - '0'.toNat)
  else if 'a'.toNat ≤ c.toNat && c.toNat ≤ 'f'.toNat then some (c.toNat - 'a'.toNat + 10)
  else if 'A'.toNat ≤ c.toNat && c.toNat ≤ 'F'.toNat then some (c.toNat - 'A'.toNat + 10)
  else none

inductive StrState where
  | None | Escape | Hex | Interpolate
  deriving DecidableEq, Repr

/-- working state of `next_str_literal` (chars kept reversed) -/
structure StrAcc where
  chars : List Char          -- reversed
  n : Nat                    -- chars.length (cached, as `chars.len()`)
  state : StrState
  firstHex : Option Nat
  curStart : Nat
  slots : List (Nat × Nat)   -- reversed
  braces : Nat
  deriving Repr

def StrAcc.push (a : StrAcc) (c : Char) : StrAcc := { a with chars := c :: a.chars, n := a.n + 1 }

inductive StrStep where
  | cont (a : StrAcc)
  | done (a : StrAcc)
  | fail (e : LexError)

/-- one iteration of the `while let Some(c)` loop of `next_str_literal`; `loc` is the position of `c` -/
def strStep (interp : Bool) (a : StrAcc) (c : Char) (loc : Loc) : StrStep :=
  match a.state with
  | .None =>
    if c = '\\' then .cont { a with state := .Escape }
    else if c = '$' then
      if interp then .cont ({ a with curStart := a.n, state := .Interpolate }.push '$')
      else .fail (LexError.UnescapedDollar loc)
    else if c = '"' then .done a
    else .cont (a.push c)
  | .Escape =>
    if c = '\\' || c = '"' || c = '$' then .cont ({ a with state := .None }.push c)
    else if c = 'n' then .cont ({ a with state := .None }.push '\n')
    else if c = 'r' then .cont ({ a with state := .None }.push '\r')
    else if c = 'x' then .cont { a with state := .Hex }
    else .fail (LexError.InvalidEscapeChar loc c)
  | .Hex =>
    match hexVal c with
    | none => .fail (LexError.InvalidHexChar loc c)
    | some h =>
      match a.firstHex with
      | none => .cont { a with firstHex := some h }
      | some n => .cont ({ a with firstHex := none, state := .None }.push (Char.ofNat (n * 16 + h)))
  | .Interpolate =>
    if a.curStart + 1 = a.n && c ≠ '{' then .fail (LexError.InvalidInterpolationStart loc c)
    else
      let b := if c = '{' then a.braces + 1 else if c = '}' then a.braces - 1 else a.braces
      if b = 0 then
        .cont ({ a with braces := b, slots := (a.curStart, a.n + 1) :: a.slots, state := .None }.push c)
      else .cont ({ a with braces := b }.push c)

/-- the loop of `next_str_literal`; returns the accumulator and the scanner after the literal -/
def strLoop (interp : Bool) : List Char → Nat → Nat → StrAcc → Except LexError (StrAcc × Scanner)
  | [], l, c, a => .ok (a, ⟨[], l, c⟩)
  | ch :: r, l, c, a =>
    let p := locAfter l c r.head?
    match strStep interp a ch (l, c) with
    | .fail e => .error e
    | .done a' => .ok (a', ⟨r, p.1, p.2⟩)
    | .cont a' => strLoop interp r p.1 p.2 a'

def StrAcc.init : StrAcc := ⟨[], 0, .None, none, 0, [], 0⟩

/-- `next_str_literal(interpolate)`: the scanner is on the opening quote (whatever character it is) -/
def lexStr (interp : Bool) (s : Scanner) : Except LexError (Token × Scanner) :=
  let s1 := s.next
  match strLoop interp s1.rest s1.line s1.col StrAcc.init with
  | .error e => .error e
  | .ok (a, s') =>
    if interp then .ok (Token.InterpStrLiteral a.chars.reverse a.slots.reverse, s')
    else .ok (Token.StrLiteral a.chars.reverse, s')

/-- `next_multi_symbol_token(char1)`; the scanner is on `char1` -/
def lexMultiSym (c1 : Char) (s : Scanner) : Option Token × Scanner :=
  let s1 := s.next
  match s1.peek with
  | none => (none, s1)
  | some c2 =>
    let s2 := s1.next
    match matchDouble c1 c2 with
    | none =>
      match s2.peek with
      | none => (none, s2)
      | some c3 => (matchTriple c1 c2 c3, s2.next)
    | some t =>
      match s2.peek with
      | none => (some t, s2)
      | some c3 =>
        match matchTriple c1 c2 c3 with
        | none => (some t, s2)
        | some t3 => (some t3, s2.next)

/-- `next_symbol_token(char1)`; the scanner is on `char1` -/
def lexSym (c1 : Char) (s : Scanner) : Option Token × Scanner :=
  match matchSingle c1 with
  | none => lexMultiSym c1 s
  | some t =>
    let s1 := s.next
    match s1.peek with
    | none => (some t, s1)
    | some c2 =>
      match matchDouble c1 c2 with
      | none => (some t, s1)
      | some t2 =>
        let s2 := s1.next
        match s2.peek with
        | none => (some t2, s2)
        | some c3 =>
          match matchTriple c1 c2 c3 with
          | none => (some t2, s2)
          | some t3 => (some t3, s2.next)

/-- the end-location rule of `next_token` -/
def endLoc (s : Scanner) : Loc :=
  if s.rest ≠ [] && s.col > 0 then (s.line, s.col - 1) else (s.line, s.col)

inductive TokRes where
  | eof
  | tok (sp : Span) (s : Scanner)
  | err (e : LexError)

/-- `next_token` -/
def nextToken (s0 : Scanner) : TokRes :=
  let s := s0.skipWs
  let start := s.loc
  match s.rest with
  | [] => .eof
  | c :: _ =>
    let r : Except LexError (Token × Scanner) :=
      if c = '\n' || c = ';' then .ok (Token.StmtEnd, s.next)
      else if isAsciiAlpha c || c = '_' then
        let w := s.rest.takeWhile isIdentChar
        .ok (keywordOrIdent w, s.advance w.length)
      else if isAsciiDigit c then lexInt s
      else if c = '"' then lexStr false s
      else if c = '$' then lexStr true s.next
      else
        match lexSym c s with
        | (some t, s') => .ok (t, s')
        | (none, _) => .error (LexError.Unexpected start c)
    match r with
    | .error e => .err e
    | .ok (t, s') => .tok ⟨start, t, endLoc s'⟩ s'

/-- all raw tokens (before terminator suppression) and the lexical error that stopped the stream, if any -/
def lexRaw : Nat → Scanner → List Span × Option LexError
  | 0, _ => ([], none)
  | fuel + 1, s =>
    match nextToken s with
    | .eof => ([], none)
    | .err e => ([], some e)
    | .tok sp s' =>
      let r := lexRaw fuel s'
      (sp :: r.1, r.2)

def isContinuation (t : Token) : Bool := Gen.continuation.contains t

/-- `Iterator::next` for `Lexer`: drops a terminator that is first, or follows a terminator
    (dropped ones included) or a continuation token.  `last` is `self.last_token`. -/
def suppress : Option Token → List Span → List Span
  | _, [] => []
  | last, sp :: r =>
    if sp.tok ≠ Token.StmtEnd then sp :: suppress (some sp.tok) r
    else
      match last with
      | none => suppress (some sp.tok) r
      | some t => if isContinuation t then suppress (some sp.tok) r else sp :: suppress (some sp.tok) r

/-- the token stream the parser sees, and the lexical error ending it (if any) -/
def lexAll (src : List Char) : List Span × Option LexError :=
  let r := lexRaw (src.length + 1) (Scanner.new src)
  (suppress none r.1, r.2)

end Seed
