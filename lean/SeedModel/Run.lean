/-
  Run.lean — the whole pipeline of /repo/src/main.rs: `run` (lex → parse → eval_prog) and the rendering
  of the diagnostic (`render_parse_error`, `eval_err_to_stacktrace`, the final `eprintln!`).
-/
import SeedModel.Eval
import SeedModel.Dump
namespace Seed
open Gen (Leaf)

/-- ` in '<f>':` when the error is rendered inside a called function -/
def inFunc : Option (List Char) → List Char
  | some f => c!" in '" ++ f ++ c!"':"
  | none => []

/-- `(msg, stacktrace)` of `eval_err_to_stacktrace(path, func, error)`; context wrappers are already erased -/
def renderErr (path : List Char) (func : Option (List Char)) : Err → List Char × List (List Char)
  | .leaf l => (l.msg, [])
  | .atLoc line col e =>
    let (m, t) := renderErr path func e
    (natToChars line ++ c!":" ++ natToChars col ++ c!":" ++ inFunc func ++ c!" " ++ m, t)
  | .builtinCall name loc e =>
    let next := name.getD c!"<unnamed function>"
    let (m, t) := renderErr path (some next) e
    (natToChars loc.1 ++ c!":" ++ natToChars loc.2 ++ c!":" ++ inFunc func ++ c!" " ++ m, t)
  | .funcCall name loc e =>
    let next := name.getD c!"<unnamed function>"
    let (m, t) := renderErr path (some next) e
    let f := func.getD c!"<root>"
    (m, t ++ [path ++ c!":" ++ natToChars loc.1 ++ c!":" ++ natToChars loc.2 ++ c!": in '" ++ f ++ c!"'"])

def joinWith (sep : List Char) : List (List Char) → List Char
  | [] => []
  | [x] => x
  | x :: r => x ++ sep ++ joinWith sep r

/-- the text written to stderr for an evaluation error -/
def evalErrText (path : List Char) (e : Err) : List Char :=
  let (m, t) := renderErr path none e
  let trace := if t.isEmpty then [] else c!"\nStacktrace:\n  " ++ joinWith c!"\n  " t
  path ++ c!":" ++ m ++ trace ++ c!"\n"

/-- `render_parse_error`, without the `; expected …` tail (which is dictated by LALRPOP's tables) -/
def parseErrMsg : FrontErr → Loc × List Char
  | .unexpectedEof l => (l, c!"unexpected EOF")
  | .unexpectedTok sp => (sp.start, c!"unexpected '" ++ renderToken sp.tok ++ c!"'")
  | .lex (.Unexpected l c) => (l, c!"unexpected '" ++ [c] ++ c!"'")
  | .lex (.IntOverflow l raw) => (l, c!"'" ++ raw ++ c!"' is too high for an int")
  | .lex (.InvalidEscapeChar l c) => (l, c!"'" ++ [c] ++ c!"' is not a valid escape character")
  | .lex (.InvalidHexChar l c) => (l, c!"'" ++ [c] ++ c!"' is not a valid hex character")
  | .lex (.UnescapedDollar l) => (l, c!"'$' must be escaped")
  | .lex (.InvalidInterpolationStart l c) => (l, c!"interpolation slots start with '{', got '" ++ [c] ++ c!"'")

def parseErrText (path : List Char) (e : FrontErr) : List Char :=
  let (l, m) := parseErrMsg e
  path ++ c!":" ++ natToChars l.1 ++ c!":" ++ natToChars l.2 ++ c!": " ++ m ++ c!"\n"

inductive Status where
  | success           -- exit 0
  | failed            -- exit 103
  | crashed           -- the implementation would panic (exit 101)
  | timeout           -- the model ran out of fuel
  deriving DecidableEq, Repr

structure Outcome where
  out : List (List Char)     -- printed lines, oldest first
  status : Status
  stderr : List Char

/-- `main` for a script at `path` with text `src` -/
def run (fuel : Nat) (path : List Char) (src : List Char) : Outcome :=
  match parseProg src with
  | .timeout => ⟨[], .timeout, []⟩
  | .err e => ⟨[], .failed, parseErrText path e⟩
  | .ok stmts =>
    match evalProg fuel stmts with
    | .ok _ σ => ⟨σ.out.reverse, .success, []⟩
    | .err e σ => ⟨σ.out.reverse, .failed, evalErrText path e⟩
    | .crash w σ => ⟨σ.out.reverse, .crashed, w⟩
    | .timeout => ⟨[], .timeout, []⟩

end Seed
