/-
  Prim.lean — the non-recursive (or heap-recursive) primitives of the evaluator:
  binary operations, `==`, `===`, rendering for `print`, builtins, parameter validation.
  (/repo/src/eval/mod.rs `apply_binary_operation`, `eq`, `ref_eq`, `validate_args`, `value_to_pairs`;
   /repo/src/builtins/fns.rs, type_functions.rs)
-/
import SeedModel.Value
namespace Seed
open Gen (Leaf)

def i64Min : Int := -9223372036854775808
def i64MaxI : Int := 9223372036854775807
def inI64 (n : Int) : Bool := i64Min ≤ n && n ≤ i64MaxI

/-! ### `==` -/

inductive EqRes where
  | ok (b : Bool)
  | mismatch (path : List Char) (lt rt : List Char)
  | bad                 -- dangling address: unreachable from well-formed states
  | timeout

def EqRes.prefixPath (p : List Char) : EqRes → EqRes
  | .mismatch path a b => .mismatch (p ++ path) a b
  | r => r

mutual
/-- `eq(lhs, rhs)` -/
def eqVal (fuel : Nat) (σ : State) (a b : Val) : EqRes :=
  match fuel with
  | 0 => .timeout
  | n + 1 =>
    match a, b with
    | .null, .null => .ok true
    | .bool x, .bool y => .ok (x == y)
    | .int x, .int y => .ok (x == y)
    | .str x, .str y => .ok (x == y)
    | .list x, .list y =>
      if x = y then .ok true
      else
        match σ.getList x, σ.getList y with
        | some xs, some ys => if xs.length ≠ ys.length then .ok false else eqItems n σ 0 xs ys
        | _, _ => .bad
    | .obj x, .obj y =>
      if x = y then .ok true
      else
        match σ.getObj x, σ.getObj y with
        | some xs, some ys => if xs.length ≠ ys.length then .ok false else eqProps n σ xs ys
        | _, _ => .bad
    | _, _ => .mismatch [] (Gen.typeNameDiag a.kind) (Gen.typeNameDiag b.kind)

def eqItems (fuel : Nat) (σ : State) (i : Nat) (xs ys : List SVal) : EqRes :=
  match fuel with
  | 0 => .timeout
  | n + 1 =>
    match xs, ys with
    | x :: xs', y :: ys' =>
      match eqVal n σ x.v y.v with
      | .ok true => eqItems n σ (i + 1) xs' ys'
      | .ok false => .ok false
      | r => r.prefixPath (c!"[" ++ natToChars i ++ c!"]")
    | _, _ => .ok true

/-- for every property of the left object, in key order, look it up on the right -/
def eqProps (fuel : Nat) (σ : State) (xs : ObjMap) (ys : ObjMap) : EqRes :=
  match fuel with
  | 0 => .timeout
  | n + 1 =>
    match xs with
    | [] => .ok true
    | (k, x) :: xs' =>
      match objGet k ys with
      | none => .ok false
      | some y =>
        match eqVal n σ x.v y.v with
        | .ok true => eqProps n σ xs' ys
        | .ok false => .ok false
        | r => r.prefixPath (c!".'" ++ k ++ c!"'")
end

/-- `ref_eq` -/
def refEq : Val → Val → Option Bool
  | .list a, .list b => some (a == b)
  | .obj a, .obj b => some (a == b)
  | .func a, .func b => some (a == b)
  | _, _ => none

/-! ### binary operations -/

def invalidOpTypes (op : BinaryOp) (loc : Loc) (a b : Val) : Err :=
  Err.at loc (Leaf.InvalidOpTypes op a.kind b.kind)

def intOverflow (op : BinaryOp) (loc : Loc) (a b : Int) : Err :=
  Err.at loc (Leaf.IntOverflow op a b)

def arith (op : BinaryOp) (loc : Loc) (a b : Int) (σ : State) : Res Val :=
  let chk (r : Int) : Res Val := if inI64 r then .ok (.int r) σ else .err (intOverflow op loc a b) σ
  match op with
  | .Sub => chk (a - b)
  | .Mul => chk (a * b)
  | .Div => if b = 0 then .err (intOverflow op loc a b) σ else chk (Int.tdiv a b)
  | .Mod => if b = 0 then .err (intOverflow op loc a b) σ else .ok (.int (Int.tmod a b)) σ
  | _ => chk (a + b)

/-- `apply_binary_operation` -/
def applyBinOp (fuel : Nat) (σ : State) (op : BinaryOp) (loc : Loc) (a b : Val) : Res Val :=
  match op with
  | .Eq | .Ne =>
    match eqVal fuel σ a b with
    | .ok v => .ok (.bool (if op = .Eq then v else !v)) σ
    | .mismatch path lt rt =>
      let msg := if path.isEmpty then [] else c!" (at " ++ path ++ c!")"
      .err (Err.at loc (Leaf.InvalidEqOpTypes op lt rt msg)) σ
    | .bad => .crash c!"heap" σ
    | .timeout => .timeout
  | .RefEq | .RefNe =>
    match refEq a b with
    | some v => .ok (.bool (if op = .RefEq then v else !v)) σ
    | none => .err (invalidOpTypes op loc a b) σ
  | .Sum =>
    match a, b with
    | .int x, .int y => arith .Sum loc x y σ
    | .str x, .str y => .ok (.str (x ++ y)) σ
    | .list x, .list y =>
      match σ.getList x, σ.getList y with
      | some xs, some ys =>
        let (addr, σ') := σ.alloc (.list (xs ++ ys))
        .ok (.list addr) σ'
      | _, _ => .crash c!"heap" σ
    | _, _ => .err (invalidOpTypes op loc a b) σ
  | .Sub | .Mul | .Div | .Mod =>
    match a, b with
    | .int x, .int y => arith op loc x y σ
    | _, _ => .err (invalidOpTypes op loc a b) σ
  | .And | .Or =>
    match a, b with
    | .bool x, .bool y => .ok (.bool (if op = .And then x && y else x || y)) σ
    | _, _ => .err (invalidOpTypes op loc a b) σ
  | .Gt | .Gte | .Lt | .Lte =>
    match a, b with
    | .int x, .int y =>
      let v := match op with
        | .Gt => decide (x > y)
        | .Gte => decide (x ≥ y)
        | .Lt => decide (x < y)
        | _ => decide (x ≤ y)
      .ok (.bool v) σ
    | _, _ => .err (invalidOpTypes op loc a b) σ

/-! ### rendering (`render` of fns.rs) -/

inductive RenderRes where
  | ok (s : List Char)
  | err (l : Leaf)
  | lock                -- `try_lock` on a container that is being rendered further up (cyclic value)
  | bad
  | timeout

/-- `s.replace('\n', "\n    ")` -/
def indent : List Char → List Char
  | [] => []
  | c :: r => if c = '\n' then c!"\n    " ++ indent r else c :: indent r

/-- Rust's `{:?}` for `Option<String>` holding an identifier -/
def debugOptName : Option (List Char) → List Char
  | none => c!"None"
  | some n => c!"Some(\"" ++ n ++ c!"\")"

mutual
def render (fuel : Nat) (σ : State) (held : List Addr) (v : Val) : RenderRes :=
  match fuel with
  | 0 => .timeout
  | n + 1 =>
    match v with
    | .null => .ok c!"<null>"
    | .bool b => .ok (if b then c!"true" else c!"false")
    | .int i => .ok (intToChars i)
    | .str bs =>
      match utf8Decode bs with
      | .ok cs => .ok cs
      | .error e => .err (Leaf.BuiltinFuncErr (c!"couldn't convert error message to UTF-8: " ++ e.msg))
    | .list a =>
      if held.contains a then .lock
      else
        match σ.getList a with
        | none => .bad
        | some items =>
          match renderItems n σ (a :: held) items with
          | .ok body => .ok (c!"[\n" ++ body ++ c!"]")
          | r => r
    | .obj a =>
      if held.contains a then .lock
      else
        match σ.getObj a with
        | none => .bad
        | some props =>
          match renderProps n σ (a :: held) props with
          | .ok body => .ok (c!"{\n" ++ body ++ c!"}")
          | r => r
    | .builtin name _ => .ok (c!"<built-in function '" ++ name ++ c!"'>")
    | .func a =>
      match σ.getFunc a with
      | none => .bad
      | some f => .ok (c!"<function '" ++ debugOptName f.name ++ c!"'>")

def renderItems (fuel : Nat) (σ : State) (held : List Addr) (items : List SVal) : RenderRes :=
  match fuel with
  | 0 => .timeout
  | n + 1 =>
    match items with
    | [] => .ok []
    | x :: r =>
      match render n σ held x.v with
      | .ok s =>
        match renderItems n σ held r with
        | .ok rest => .ok (c!"    " ++ indent s ++ c!",\n" ++ rest)
        | e => e
      | e => e

def renderProps (fuel : Nat) (σ : State) (held : List Addr) (props : ObjMap) : RenderRes :=
  match fuel with
  | 0 => .timeout
  | n + 1 =>
    match props with
    | [] => .ok []
    | (k, x) :: r =>
      match render n σ held x.v with
      | .ok s =>
        match renderProps n σ held r with
        | .ok rest => .ok (c!"    \"" ++ k ++ c!"\": " ++ indent s ++ c!",\n" ++ rest)
        | e => e
      | e => e
end

/-! ### builtins -/

/-- `assert_args` -/
def assertArgs (fnName : List Char) (exp : Nat) (got : Nat) : Option Leaf :=
  if got = exp then none
  else some (Leaf.BuiltinFuncErr (c!"`" ++ fnName ++ c!"` only takes " ++ natToChars exp ++ c!" argument" ++
    (if exp = 1 then [] else c!"s") ++ c!" (got " ++ natToChars got ++ c!")"))

def callBuiltin (fuel : Nat) (σ : State) (f : BuiltinId) (this : Option SVal) (args : List SVal) : Res SVal :=
  match f with
  | .print =>
    match assertArgs c!"print" 1 args.length with
    | some l => .err (.leaf l) σ
    | none =>
      match this with
      | some _ => .err (.leaf (Leaf.Dev c!"'this' shouldn't exist")) σ
      | none =>
        match args with
        | [] => .crash c!"args" σ
        | a :: _ =>
          match render fuel σ [] a.v with
          | .ok s => .ok (SVal.plain .null) (σ.print s)
          | .err l => .err (.leaf l) σ
          | .lock => .crash c!"lock" σ
          | .bad => .crash c!"heap" σ
          | .timeout => .timeout
  | .strLen =>
    match assertArgs c!"len" 0 args.length with
    | some l => .err (.leaf l) σ
    | none =>
      match this with
      | none => .err (.leaf (Leaf.Dev c!"'this' doesn't exist")) σ
      | some t =>
        match t.v with
        | .str bs =>
          match utf8Decode bs with
          | .ok _ => .ok (SVal.plain (.int (Int.ofNat bs.length))) σ
          | .error e => .err (.leaf (Leaf.BuiltinFuncErr (c!"couldn't convert `this` string to UTF-8: " ++ e.msg))) σ
        | _ => .err (.leaf (Leaf.Dev c!"dev err: expected 'string'")) σ
  | .anyType =>
    match assertArgs c!"type" 0 args.length with
    | some l => .err (.leaf l) σ
    | none =>
      match this with
      | none => .err (.leaf (Leaf.Dev c!"'this' doesn't exist")) σ
      | some t => .ok (SVal.plain (.str (utf8Encode (Gen.typeNameFn t.v.kind)))) σ

/-- the namespace of type functions for a kind (`RawExpr::Prop` with `type_prop`) -/
def typeNamespace : Kind → Option (List Char)
  | .Null => none
  | .Bool => some c!"bools"
  | .Int => some c!"ints"
  | .Str => some c!"strs"
  | .List => some c!"lists"
  | .Object => some c!"objects"
  | .BuiltinFunc => some c!"funcs"
  | .Func => some c!"funcs"

def builtinOfRustFn (f : List Char) : Option BuiltinId :=
  if f = c!"any_type" then some .anyType else if f = c!"str_len" then some .strLen else none

def typeFnLookup (ns name : List Char) : List (List Char × List Char × List Char × List Char) → Option Val
  | [] => none
  | (ns', key, bname, rustFn) :: r =>
    if ns = ns' && name = key then
      match builtinOfRustFn rustFn with
      | some f => some (.builtin bname f)
      | none => none
    else typeFnLookup ns name r

/-! ### `value_to_pairs` -/

def enumFrom {α} : Nat → List α → List (Nat × α)
  | _, [] => []
  | i, x :: r => (i, x) :: enumFrom (i + 1) r

def toPairs (σ : State) (v : Val) : Option (Option (List (SVal × SVal))) :=
  match v with
  | .str bs => some (some ((enumFrom 0 bs).map fun (i, b) => (SVal.plain (.int (Int.ofNat i)), SVal.plain (.str [b]))))
  | .list a =>
    match σ.getList a with
    | none => none
    | some items => some (some ((enumFrom 0 items).map fun (i, x) => (SVal.plain (.int (Int.ofNat i)), x)))
  | .obj a =>
    match σ.getObj a with
    | none => none
    | some props => some (some (props.map fun (k, x) => (SVal.plain (.str (utf8Encode k)), x)))
  | _ => some none

/-! ### `validate_args` -/

def invalidBindDescr : RawExpr → Option (List Char)
  | .Index _ _ => some c!"an index operation"
  | .RangeIndex _ _ _ => some c!"a range index operation"
  | .Prop _ _ _ => some c!"a property access operation"
  | .Null => some c!"`null`"
  | .Bool _ => some c!"a boolean literal"
  | .Int _ => some c!"an integer literal"
  | .Str _ _ => some c!"a string literal"
  | .BinaryOp _ _ _ _ => some c!"a binary operation"
  | .Range _ _ => some c!"a range operation"
  | .Func _ _ _ => some c!"an anonymous function"
  | .Call _ _ => some c!"a function call"
  | _ => none

def propsToQueue (loc : Loc) : List PropItem → List Expr → Except Err (List Expr)
  | [], acc => .ok acc.reverse
  | .Pair _ value :: r, acc => propsToQueue loc r (value :: acc)
  | .Single e spread _ :: r, acc =>
    if spread then .error (Err.at loc Leaf.PropSpreadInParamList) else propsToQueue loc r (e :: acc)

def itemsToQueue (loc : Loc) : List ListItem → List Expr → Except Err (List Expr)
  | [], acc => .ok acc.reverse
  | .mk e spread :: r, acc =>
    if spread then .error (Err.at loc Leaf.ItemSpreadInParamList) else itemsToQueue loc r (e :: acc)

/-- `validate_args`: breadth-first over the parameter patterns; stops (quirk) at the first `_` -/
def validateArgs (fuel : Nat) (queue : List Expr) (names : List (List Char × Loc)) : Option (Option Err) :=
  match fuel with
  | 0 => none
  | n + 1 =>
    match queue with
    | [] => some none
    | .mk raw loc :: q =>
      match raw with
      | .Var name =>
        if name = c!"_" then some none
        else
          match lookupAssoc name names with
          | some (l, c) => some (some (Err.at loc (Leaf.DupParamName name l c)))
          | none => validateArgs n q ((name, loc) :: names)
      | .Object props =>
        match propsToQueue loc props [] with
        | .error e => some (some e)
        | .ok more => validateArgs n (q ++ more) names
      | .List items _ =>
        match itemsToQueue loc items [] with
        | .error e => some (some e)
        | .ok more => validateArgs n (q ++ more) names
      | r =>
        match invalidBindDescr r with
        | some d => some (some (Err.at loc (Leaf.InvalidBindTarget d)))
        | none => some none

end Seed
