/-
  Ast.lean — mirrors /repo/src/ast.rs one to one (`Expr = (RawExpr, Location)`).
-/
import SeedModel.Token
namespace Seed

inductive BinaryOp where
  | Sum | Sub | Mul | Div | Mod | And | Or | Eq | Ne | Gt | Gte | Lt | Lte | RefEq | RefNe
  deriving DecidableEq, Repr, Inhabited

mutual
inductive RawExpr where
  | Null
  | Bool (b : Bool)
  | Int (n : Int)
  | Str (s : List Char) (slots : Option (List (Nat × Nat)))
  | Var (name : List Char)
  | BinaryOp (op : BinaryOp) (opLoc : Loc) (lhs rhs : Expr)
  | List (items : List ListItem) (collect : Bool)
  | Index (e : Expr) (location : Expr)
  | RangeIndex (e : Expr) (start : Option Expr) (stop : Option Expr)
  | Range (start : Expr) (stop : Expr)
  | Object (props : List PropItem)
  | Prop (e : Expr) (name : List Char) (typeProp : Bool)
  | Func (args : List Expr) (collect : Bool) (stmts : List Stmt)
  | Call (func : Expr) (args : List ListItem)
inductive Expr where
  | mk (raw : RawExpr) (loc : Loc)
inductive ListItem where
  | mk (e : Expr) (isSpread : Bool)
inductive PropItem where
  | Pair (name : Expr) (value : Expr)
  | Single (e : Expr) (isSpread : Bool) (collect : Bool)
inductive Stmt where
  | Block (block : List Stmt)
  | Expr (e : Expr)
  | Declare (lhs rhs : Expr)
  | Assign (lhs rhs : Expr)
  | OpAssign (lhs : Expr) (op : BinaryOp) (opLoc : Loc) (rhs : Expr)
  | If (branches : List Branch) (elseStmts : Option (List Stmt))
  | While (cond : Expr) (stmts : List Stmt)
  | For (lhs iter : Expr) (stmts : List Stmt)
  | Break (loc : Loc)
  | Continue (loc : Loc)
  | Func (name : List Char) (nameLoc : Loc) (args : List Expr) (collect : Bool) (stmts : List Stmt)
  | Return (loc : Loc) (e : Expr)
inductive Branch where
  | mk (cond : Expr) (stmts : List Stmt)
end

abbrev Block := List Stmt

def Expr.raw : Expr → RawExpr | .mk r _ => r
def Expr.loc : Expr → Loc | .mk _ l => l
def ListItem.e : ListItem → Expr | .mk e _ => e
def ListItem.isSpread : ListItem → Bool | .mk _ s => s
def Branch.cond : Branch → Expr | .mk c _ => c
def Branch.stmts : Branch → List Stmt | .mk _ s => s

instance : Inhabited RawExpr := ⟨.Null⟩
instance : Inhabited Expr := ⟨.mk .Null (0, 0)⟩

end Seed
