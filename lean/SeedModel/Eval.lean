/-
  Eval.lean — the fuel-indexed evaluator: one mutual block mirroring
  /repo/src/eval/mod.rs (`eval_*`, `interpolate_string`) and /repo/src/eval/bind.rs (`bind_*`),
  with the evaluation order of the code.  A scope chain is a `List Addr`, innermost scope first.
  Every recursive call is made with `fuel - 1`; running out of fuel is `Res.timeout`.
-/
import SeedModel.Prim
import SeedModel.Parse
namespace Seed
open Gen (Leaf)

def errAt {α} (loc : Loc) (l : Leaf) (σ : State) : Res α := .err (Err.at loc l) σ

def crashHeap {α} (σ : State) : Res α := .crash c!"heap" σ

/-- `validate_args` as a step of the evaluator -/
def validateArgsRes (fuel : Nat) (args : List Expr) (σ : State) : Res Unit :=
  match validateArgs fuel args [] with
  | none => .timeout
  | some (some e) => .err e σ
  | some none => .ok () σ

/-- `bind_next_name` (no recursion into the evaluator) -/
def bindNextName (fuel : Nat) (σ : State) (sc : List Addr) (names : List (List Char)) (name : List Char) (loc : Loc)
    (rhs : SVal) (op : Option (BinaryOp × Loc)) (decl : Bool) : Res (List (List Char)) :=
  if name = c!"_" then .ok names σ
  else if names.contains name then errAt loc (Leaf.AlreadyInBinding name) σ
  else
    let names' := name :: names
    if decl then
      match op with
      | some _ => errAt loc (Leaf.Dev c!"operation-assignment on declaration") σ
      | none =>
        match scopeDeclare σ sc name loc rhs with
        | .ok σ' => .ok names' σ'
        | .dup prev => errAt loc (Leaf.AlreadyInScope name prev.1 prev.2) σ
        | .bad => .crash c!"scope" σ
    else
      let store (v : SVal) (σ1 : State) : Res (List (List Char)) :=
        match scopeAssign σ1 sc name v with
        | some σ2 => .ok names' σ2
        | none => errAt loc (Leaf.Undefined name) σ1
      match op with
      | none => store rhs σ
      | some (o, oloc) =>
        match scopeGet σ sc name with
        | none => errAt loc (Leaf.Undefined name) σ
        | some cur => (applyBinOp fuel σ o oloc cur.v rhs.v).bind fun v σ1 => store (SVal.plain v) σ1

/-- `binary_operation_assign`: the value to store in a slot holding `cur` -/
def opAssignValue (fuel : Nat) (σ : State) (cur : SVal) (rhs : SVal) (op : Option (BinaryOp × Loc)) : Res SVal :=
  match op with
  | none => .ok rhs σ
  | some (o, oloc) => (applyBinOp fuel σ o oloc cur.v rhs.v).map SVal.plain

def listSet {α} : List α → Nat → α → List α
  | [], _, _ => []
  | _ :: r, 0, v => v :: r
  | x :: r, i + 1, v => x :: listSet r i v

/-- write `vals` into `xs` starting at `start` -/
def listSplice {α} (xs : List α) (start : Nat) (vals : List α) : List α :=
  xs.take start ++ vals ++ xs.drop (start + vals.length)

def intRange (a b : Int) : List SVal :=
  (List.range (b - a).toNat).map fun i => SVal.plain (.int (a + Int.ofNat i))

def sliceChars (s : List Char) (a b : Nat) : List Char := (s.drop a).take (b - a)

mutual

/-- `eval_expr` -/
def evalExpr (fuel : Nat) (σ : State) (sc : List Addr) (e : Expr) : Res SVal :=
  match fuel with
  | 0 => .timeout
  | n + 1 =>
    match e with
    | .mk raw loc =>
      match raw with
      | .Null => .ok (SVal.plain .null) σ
      | .Bool b => .ok (SVal.plain (.bool b)) σ
      | .Int i => .ok (SVal.plain (.int i)) σ
      | .Str s none => .ok (SVal.plain (.str (utf8Encode s))) σ
      | .Str s (some slots) =>
        (interpolate n σ sc s slots loc 0 []).bind fun cs σ1 => .ok (SVal.plain (.str (utf8Encode cs))) σ1
      | .Var name =>
        match scopeGet σ sc name with
        | some v => .ok v σ
        | none => errAt loc (Leaf.Undefined name) σ
      | .BinaryOp op opLoc lhs rhs =>
        (evalExpr n σ sc lhs).bind fun l σ1 =>
        (evalExpr n σ1 sc rhs).bind fun r σ2 =>
        (applyBinOp n σ2 op opLoc l.v r.v).bind fun v σ3 => .ok (SVal.plain v) σ3
      | .List items collect =>
        if collect then errAt loc Leaf.ListCollectOutsideDestructure σ
        else
          (evalListItems n σ sc items []).bind fun vals σ1 =>
          let (a, σ2) := σ1.alloc (.list vals)
          .ok (SVal.plain (.list a)) σ2
      | .Index ex locat =>
        (evalExpr n σ sc ex).bind fun src σ1 =>
        match src.v with
        | .str bs =>
          (evalToIndex n σ1 sc locat).bind fun i σ2 =>
          match bs[i]? with
          | some b => .ok (SVal.plain (.str [b])) σ2
          | none => errAt loc (Leaf.OutOfStringBounds i) σ2
        | .list a =>
          (evalToIndex n σ1 sc locat).bind fun i σ2 =>
          match σ2.getList a with
          | none => crashHeap σ2
          | some items =>
            match items[i]? with
            | some v => .ok v σ2
            | none => errAt loc (Leaf.OutOfListBounds i) σ2
        | .obj a =>
          (evalToStr n σ1 sc c!"property" locat).bind fun name σ2 =>
          match σ2.getObj a with
          | none => crashHeap σ2
          | some props =>
            match objGet name props with
            | some v => .ok ⟨v.v, some src.v⟩ σ2
            | none => errAt loc (Leaf.PropNotFound name) σ2
        | _ => errAt loc Leaf.ValueNotIndexable σ1
      | .RangeIndex ex start stop =>
        (evalOptIndex n σ sc start).bind fun a σ1 =>
        (evalOptIndex n σ1 sc stop).bind fun b σ2 =>
        (evalExpr n σ2 sc ex).bind fun src σ3 =>
        match src.v with
        | .str bs =>
          let lo := a.getD 0
          let hi := b.getD bs.length
          if lo ≤ hi && hi ≤ bs.length then .ok (SVal.plain (.str ((bs.drop lo).take (hi - lo)))) σ3
          else errAt loc (Leaf.RangeOutOfStringBounds lo hi) σ3
        | .list addr =>
          match σ3.getList addr with
          | none => crashHeap σ3
          | some items =>
            let lo := a.getD 0
            let hi := b.getD items.length
            if lo ≤ hi && hi ≤ items.length then
              let (na, σ4) := σ3.alloc (.list ((items.drop lo).take (hi - lo)))
              .ok (SVal.plain (.list na)) σ4
            else errAt loc (Leaf.RangeOutOfListBounds lo hi) σ3
        | _ => errAt loc Leaf.ValueNotRangeIndexable σ3
      | .Range start stop =>
        (evalToInt n σ sc c!"range start" start).bind fun a σ1 =>
        (evalToInt n σ1 sc c!"range end" stop).bind fun b σ2 =>
        let (na, σ3) := σ2.alloc (.list (intRange a b))
        .ok (SVal.plain (.list na)) σ3
      | .Object props =>
        (evalProps n σ sc loc props []).bind fun m σ1 =>
        let (na, σ2) := σ1.alloc (.obj m)
        .ok (SVal.plain (.obj na)) σ2
      | .Prop ex name typeProp =>
        (evalExpr n σ sc ex).bind fun src σ1 =>
        if typeProp then
          match typeNamespace src.v.kind with
          | none => errAt loc Leaf.TypeFunctionOnNull σ1
          | some ns =>
            match typeFnLookup ns name Gen.typeFnTable with
            | some f => .ok ⟨f, some src.v⟩ σ1
            | none => errAt loc (Leaf.TypeFunctionNotFound src.v.kind name) σ1
        else
          match src.v with
          | .obj a =>
            match σ1.getObj a with
            | none => crashHeap σ1
            | some props =>
              match objGet name props with
              | some v => .ok ⟨v.v, some src.v⟩ σ1
              | none => errAt loc (Leaf.PropNotFound name) σ1
          | v => errAt loc (Leaf.PropAccessOnNonObject v.kind) σ1
      | .Func args collect stmts =>
        let (a, σ1) := σ.alloc (.func ⟨none, args, collect, stmts, sc⟩)
        .ok (SVal.plain (.func a)) σ1
      | .Call f args => evalCall n σ sc f args loc

/-- an optional range bound -/
def evalOptIndex (fuel : Nat) (σ : State) (sc : List Addr) (e : Option Expr) : Res (Option Nat) :=
  match fuel with
  | 0 => .timeout
  | n + 1 =>
    match e with
    | none => .ok none σ
    | some e => (evalToIndex n σ sc e).map some

/-- `eval_list_items` -/
def evalListItems (fuel : Nat) (σ : State) (sc : List Addr) (items : List ListItem) (acc : List SVal) : Res (List SVal) :=
  match fuel with
  | 0 => .timeout
  | n + 1 =>
    match items with
    | [] => .ok acc σ
    | .mk e spread :: r =>
      (evalExpr n σ sc e).bind fun v σ1 =>
      if !spread then evalListItems n σ1 sc r (acc ++ [v])
      else
        match v.v with
        | .list a =>
          match σ1.getList a with
          | none => crashHeap σ1
          | some xs => evalListItems n σ1 sc r (acc ++ xs)
        | w => errAt e.loc (Leaf.SpreadNonListInList w.kind) σ1

/-- the property loop of `RawExpr::Object` -/
def evalProps (fuel : Nat) (σ : State) (sc : List Addr) (objLoc : Loc) (props : List PropItem) (acc : ObjMap) : Res ObjMap :=
  match fuel with
  | 0 => .timeout
  | n + 1 =>
    match props with
    | [] => .ok acc σ
    | .Pair nameE value :: r =>
      (evalToStr n σ sc c!"property name" nameE).bind fun name σ1 =>
      (evalExpr n σ1 sc value).bind fun v σ2 =>
      evalProps n σ2 sc objLoc r (objInsert name v acc)
    | .Single e spread collect :: r =>
      if collect then errAt objLoc Leaf.ObjectCollectOutsideDestructure σ
      else if spread then
        (evalExpr n σ sc e).bind fun v σ1 =>
        match v.v with
        | .obj a =>
          match σ1.getObj a with
          | none => crashHeap σ1
          | some m => evalProps n σ1 sc objLoc r (m.foldl (fun acc kv => objInsert kv.1 kv.2 acc) acc)
        | w => errAt e.loc (Leaf.SpreadNonObjectInObject w.kind) σ1
      else
        match e.raw with
        | .Var name =>
          match scopeGet σ sc name with
          | some v => evalProps n σ sc objLoc r (objInsert name v acc)
          | none => errAt e.loc (Leaf.Undefined name) σ
        | _ => errAt e.loc Leaf.ObjectPropShorthandNotVar σ

/-- `eval_call` -/
def evalCall (fuel : Nat) (σ : State) (sc : List Addr) (f : Expr) (args : List ListItem) (loc : Loc) : Res SVal :=
  match fuel with
  | 0 => .timeout
  | n + 1 =>
    (evalListItems n σ sc args []).bind fun argVals σ1 =>
    (evalExpr n σ1 sc f).bind fun fv σ2 =>
    match fv.v with
    | .builtin name id =>
      (callBuiltin n σ2 id (fv.src.map SVal.plain) argVals).mapErr (Err.builtinCall (some name) loc)
    | .func a =>
      match σ2.getFunc a with
      | none => crashHeap σ2
      | some fr =>
        let numParams := fr.args.length
        let got := argVals.length
        if fr.collect && numParams - 1 > got then errAt loc (Leaf.TooFewArgs (numParams - 1) got) σ2
        else if !fr.collect && numParams ≠ got then errAt loc (Leaf.ArgNumMismatch numParams got) σ2
        else
          let (plainVals, σ3) :=
            if fr.collect then
              let (ra, σ3) := σ2.alloc (.list (argVals.drop (numParams - 1)))
              (argVals.take (numParams - 1) ++ [SVal.plain (.list ra)], σ3)
            else (argVals, σ2)
          let bindings := fr.args.zip plainVals
          let bindings :=
            match fv.src with
            | some this => bindings ++ [(Expr.mk (.Var c!"this") loc, SVal.plain this)]
            | none => bindings
          ((evalBlock n σ3 fr.closure bindings fr.stmts).mapErr (Err.funcCall fr.name loc)).bind fun esc σ4 =>
          match esc with
          | .none => .ok (SVal.plain .null) σ4
          | .brk l => errAt l Leaf.BreakOutsideLoop σ4
          | .cont l => errAt l Leaf.ContinueOutsideLoop σ4
          | .ret v _ => .ok v σ4
    | v => errAt loc (Leaf.CannotCallNonFunc v.kind) σ2

/-- `eval_expr_to_str` -/
def evalToStr (fuel : Nat) (σ : State) (sc : List Addr) (descr : List Char) (e : Expr) : Res (List Char) :=
  match fuel with
  | 0 => .timeout
  | n + 1 =>
    (evalExpr n σ sc e).bind fun v σ1 =>
    match v.v with
    | .str bs =>
      match utf8Decode bs with
      | .ok cs => .ok cs σ1
      | .error er => errAt e.loc (Leaf.StringConstructionFailed er.msg descr) σ1
    | w => errAt e.loc (Leaf.IncorrectType descr c!"string" w.kind) σ1

/-- `eval_expr_to_bool` -/
def evalToBool (fuel : Nat) (σ : State) (sc : List Addr) (descr : List Char) (e : Expr) : Res Bool :=
  match fuel with
  | 0 => .timeout
  | n + 1 =>
    (evalExpr n σ sc e).bind fun v σ1 =>
    match v.v with
    | .bool b => .ok b σ1
    | w => errAt e.loc (Leaf.IncorrectType descr c!"bool" w.kind) σ1

/-- `eval_expr_to_i64` -/
def evalToInt (fuel : Nat) (σ : State) (sc : List Addr) (descr : List Char) (e : Expr) : Res Int :=
  match fuel with
  | 0 => .timeout
  | n + 1 =>
    (evalExpr n σ sc e).bind fun v σ1 =>
    match v.v with
    | .int i => .ok i σ1
    | w => errAt e.loc (Leaf.IncorrectType descr c!"int" w.kind) σ1

/-- `eval_expr_to_index` -/
def evalToIndex (fuel : Nat) (σ : State) (sc : List Addr) (e : Expr) : Res Nat :=
  match fuel with
  | 0 => .timeout
  | n + 1 =>
    (evalToInt n σ sc c!"index" e).bind fun i σ1 =>
    if i < 0 then errAt e.loc (Leaf.NegativeIndex i) σ1 else .ok i.toNat σ1

/-- `interpolate_string`: `last` is `last_slot_end`, `acc` the text built so far.  Slot offsets are
    character indices into `s` (the unit the lexer produced them in). -/
def interpolate (fuel : Nat) (σ : State) (sc : List Addr) (s : List Char) (slots : List (Nat × Nat)) (loc : Loc)
    (last : Nat) (acc : List Char) : Res (List Char) :=
  match fuel with
  | 0 => .timeout
  | n + 1 =>
    match slots with
    | [] => .ok (acc ++ s.drop last) σ
    | (start, stop) :: r =>
      let acc1 := acc ++ sliceChars s last start
      let directive := sliceChars s (start + 2) (stop - 1)
      let slotCol := loc.2 + start + 4
      match parseExprTop directive with
      | .timeout => .timeout
      | .err _ => .err (.atLoc loc.1 slotCol (.leaf (Leaf.InterpolateStringParseFailed c!"<parse error>"))) σ
      | .ok ast =>
        ((evalExpr n σ sc ast).mapErr (Err.atLoc loc.1 slotCol)).bind fun v σ1 =>
        match v.v with
        | .str bs =>
          match utf8Decode bs with
          | .ok cs => interpolate n σ1 sc s r loc stop (acc1 ++ cs)
          | .error er =>
            .err (.atLoc loc.1 slotCol (.leaf (Leaf.StringConstructionFailed er.msg c!"interpolated slot"))) σ1
        | w => .err (.atLoc loc.1 slotCol (.leaf (Leaf.InterpolatedValueNotString w.kind))) σ1

/-- `eval_stmts`: a fresh scope holding `bindings`, then the statements -/
def evalBlock (fuel : Nat) (σ : State) (sc : List Addr) (bindings : List (Expr × SVal)) (stmts : List Stmt) : Res Escape :=
  match fuel with
  | 0 => .timeout
  | n + 1 =>
    let (a, σ1) := σ.alloc (.scope [])
    (declareAll n σ1 (a :: sc) bindings).bind fun _ σ2 => evalStmts n σ2 (a :: sc) stmts

def declareAll (fuel : Nat) (σ : State) (sc : List Addr) (bindings : List (Expr × SVal)) : Res Unit :=
  match fuel with
  | 0 => .timeout
  | n + 1 =>
    match bindings with
    | [] => .ok () σ
    | (lhs, rhs) :: r =>
      (bindNext n σ sc [] lhs rhs none true).bind fun _ σ1 => declareAll n σ1 sc r

/-- `eval_stmts_with_scope_stack` -/
def evalStmts (fuel : Nat) (σ : State) (sc : List Addr) (stmts : List Stmt) : Res Escape :=
  match fuel with
  | 0 => .timeout
  | n + 1 =>
    match stmts with
    | [] => .ok .none σ
    | st :: r =>
      (evalStmt n σ sc st).bind fun esc σ1 =>
      match esc with
      | .none => evalStmts n σ1 sc r
      | other => .ok other σ1

/-- `eval_stmt` -/
def evalStmt (fuel : Nat) (σ : State) (sc : List Addr) (st : Stmt) : Res Escape :=
  match fuel with
  | 0 => .timeout
  | n + 1 =>
    match st with
    | .Block b => evalBlock n σ sc [] b
    | .Expr e => (evalExpr n σ sc e).bind fun _ σ1 => .ok .none σ1
    | .Declare lhs rhs =>
      (evalExpr n σ sc rhs).bind fun v σ1 =>
      (bindNext n σ1 sc [] lhs v none true).bind fun _ σ2 => .ok .none σ2
    | .Assign lhs rhs =>
      (evalExpr n σ sc rhs).bind fun v σ1 =>
      (bindNext n σ1 sc [] lhs v none false).bind fun _ σ2 => .ok .none σ2
    | .OpAssign lhs op opLoc rhs =>
      (evalExpr n σ sc rhs).bind fun v σ1 =>
      (bindNext n σ1 sc [] lhs v (some (op, opLoc)) false).bind fun _ σ2 => .ok .none σ2
    | .If branches els => evalIf n σ sc branches els
    | .While cond stmts => evalWhile n σ sc cond stmts
    | .For lhs iter stmts =>
      (evalExpr n σ sc iter).bind fun it σ1 =>
      match toPairs σ1 it.v with
      | none => crashHeap σ1
      | some none => errAt iter.loc Leaf.ForIterNotIterable σ1
      | some (some pairs) => evalFor n σ1 sc lhs pairs stmts
    | .Break l => .ok (.brk l) σ
    | .Continue l => .ok (.cont l) σ
    | .Func name nameLoc args collect stmts =>
      (validateArgsRes n args σ).bind fun _ σ0 =>
      let (a, σ1) := σ0.alloc (.func ⟨some name, args, collect, stmts, sc⟩)
      (bindNextName n σ1 sc [] name nameLoc (SVal.plain (.func a)) none true).bind fun _ σ2 => .ok .none σ2
    | .Return l e => (evalExpr n σ sc e).bind fun v σ1 => .ok (.ret v l) σ1

def evalIf (fuel : Nat) (σ : State) (sc : List Addr) (branches : List Branch) (els : Option (List Stmt)) : Res Escape :=
  match fuel with
  | 0 => .timeout
  | n + 1 =>
    match branches with
    | [] =>
      match els with
      | some stmts => evalBlock n σ sc [] stmts
      | none => .ok .none σ
    | .mk cond stmts :: r =>
      (evalToBool n σ sc c!"condition" cond).bind fun b σ1 =>
      if b then evalBlock n σ1 sc [] stmts else evalIf n σ1 sc r els

def evalWhile (fuel : Nat) (σ : State) (sc : List Addr) (cond : Expr) (stmts : List Stmt) : Res Escape :=
  match fuel with
  | 0 => .timeout
  | n + 1 =>
    (evalToBool n σ sc c!"condition" cond).bind fun b σ1 =>
    if !b then .ok .none σ1
    else
      (evalBlock n σ1 sc [] stmts).bind fun esc σ2 =>
      match esc with
      | .none => evalWhile n σ2 sc cond stmts
      | .brk _ => .ok .none σ2
      | .cont _ => evalWhile n σ2 sc cond stmts
      | .ret v l => .ok (.ret v l) σ2

def evalFor (fuel : Nat) (σ : State) (sc : List Addr) (lhs : Expr) (pairs : List (SVal × SVal)) (stmts : List Stmt) : Res Escape :=
  match fuel with
  | 0 => .timeout
  | n + 1 =>
    match pairs with
    | [] => .ok .none σ
    | (k, v) :: r =>
      let (pa, σ1) := σ.alloc (.list [k, v])
      (evalBlock n σ1 sc [(lhs, SVal.plain (.list pa))] stmts).bind fun esc σ2 =>
      match esc with
      | .none => evalFor n σ2 sc lhs r stmts
      | .brk _ => .ok .none σ2
      | .cont _ => evalFor n σ2 sc lhs r stmts
      | .ret v l => .ok (.ret v l) σ2

/-- `bind_next`; `decl` is `BindType::Declaration`; returns the updated `names_in_binding` -/
def bindNext (fuel : Nat) (σ : State) (sc : List Addr) (names : List (List Char)) (lhs : Expr) (rhs : SVal)
    (op : Option (BinaryOp × Loc)) (decl : Bool) : Res (List (List Char)) :=
  match fuel with
  | 0 => .timeout
  | n + 1 =>
    match lhs with
    | .mk raw loc =>
      match raw with
      | .Var name => bindNextName n σ sc names name loc rhs op decl
      | .Index ex locat =>
        (evalExpr n σ sc ex).bind fun tgt σ1 =>
        match tgt.v with
        | .list a =>
          (evalToIndex n σ1 sc locat).bind fun i σ2 =>
          match σ2.getList a with
          | none => crashHeap σ2
          | some items =>
            match items[i]? with
            | none => errAt loc (Leaf.OutOfListBounds i) σ2
            | some cur =>
              (opAssignValue n σ2 cur rhs op).bind fun v σ3 =>
              match σ3.getList a with
              | none => crashHeap σ3
              | some items' => .ok names (σ3.set a (.list (listSet items' i v)))
        | .obj a =>
          (evalToStr n σ1 sc c!"property" locat).bind fun name σ2 => bindProp n σ2 a name loc rhs op names true
        | _ => errAt loc Leaf.ValueNotIndexAssignable σ1
      | .RangeIndex ex start stop =>
        match op with
        | some _ => errAt loc Leaf.OpOnRangeIndex σ
        | none =>
          (evalExpr n σ sc ex).bind fun tgt σ1 =>
          match tgt.v with
          | .list a =>
            match rhs.v with
            | .list b =>
              match σ1.getList b with
              | none => crashHeap σ1
              | some rhsItems => bindRangeIndex n σ1 sc a start stop loc rhsItems names
            | .str bs => bindRangeIndex n σ1 sc a start stop loc (bs.map fun b => SVal.plain (.str [b])) names
            | w => errAt loc (Leaf.RangeIndexAssignOnNonIndexable w.kind) σ1
          | _ => errAt loc Leaf.ValueNotRangeIndexAssignable σ1
      | .Prop ex name typeProp =>
        if typeProp then errAt loc Leaf.AssignToTypeProp σ
        else
          (evalExpr n σ sc ex).bind fun tgt σ1 =>
          match tgt.v with
          | .obj a => bindProp n σ1 a name loc rhs op names false
          | w => errAt loc (Leaf.PropAccessOnNonObject w.kind) σ1
      | .Object props =>
        match op with
        | some _ => errAt loc Leaf.OpOnObjectDestructure σ
        | none =>
          match rhs.v with
          | .obj b =>
            match σ.getObj b with
            | none => crashHeap σ
            | some m => bindObject n σ sc names props b decl 0 props.length (m.map Prod.fst)
          | w => errAt loc (Leaf.ObjectDestructureOnNonObject w.kind) σ
      | .List items collect =>
        match op with
        | some _ => errAt loc Leaf.OpOnListDestructure σ
        | none =>
          match rhs.v with
          | .list b =>
            match σ.getList b with
            | none => crashHeap σ
            | some rhsItems =>
              let lhsLen := items.length
              let rhsLen := rhsItems.length
              if collect && lhsLen - 1 > rhsLen then errAt loc (Leaf.ListCollectTooFew lhsLen rhsLen) σ
              else if !collect && lhsLen ≠ rhsLen then errAt loc (Leaf.ListDestructureItemMismatch lhsLen rhsLen) σ
              else bindList n σ sc names items collect loc b decl 0 lhsLen
          | w => errAt loc (Leaf.ListDestructureOnNonList w.kind) σ
      | other =>
        match invalidBindDescr other with
        | some d => errAt loc (Leaf.InvalidBindTarget d) σ
        | none => .crash c!"bind" σ

/-- assignment to `o[name]` / `o.name` (`viaIndex` selects the error variant for op-assign on a missing key) -/
def bindProp (fuel : Nat) (σ : State) (a : Addr) (name : List Char) (loc : Loc) (rhs : SVal)
    (op : Option (BinaryOp × Loc)) (names : List (List Char)) (viaIndex : Bool) : Res (List (List Char)) :=
  match fuel with
  | 0 => .timeout
  | n + 1 =>
    match σ.getObj a with
    | none => crashHeap σ
    | some props =>
      match objGet name props with
      | some cur =>
        (opAssignValue n σ cur rhs op).bind fun v σ1 =>
        match σ1.getObj a with
        | none => crashHeap σ1
        | some props' => .ok names (σ1.set a (.obj (objInsert name v props')))
      | none =>
        match op with
        | some _ =>
          if viaIndex then errAt loc (Leaf.OpOnUndefinedIndex name) σ else errAt loc (Leaf.OpOnUndefinedProp name) σ
        | none => .ok names (σ.set a (.obj (objInsert name rhs props)))

/-- `bind_range_index` -/
def bindRangeIndex (fuel : Nat) (σ : State) (sc : List Addr) (a : Addr) (start stop : Option Expr) (loc : Loc)
    (rhsItems : List SVal) (names : List (List Char)) : Res (List (List Char)) :=
  match fuel with
  | 0 => .timeout
  | n + 1 =>
    (evalOptIndex n σ sc start).bind fun s σ1 =>
    (evalOptIndex n σ1 sc stop).bind fun e σ2 =>
    match σ2.getList a with
    | none => crashHeap σ2
    | some items =>
      let listLen := items.length
      let lo := s.getD 0
      let hi := e.getD listLen
      let rhsLen := rhsItems.length
      if lo > listLen then errAt loc (Leaf.RangeStartOutOfListBounds lo listLen) σ2
      else if lo ≥ hi then errAt loc (Leaf.RangeStartNotBeforeEnd lo hi) σ2
      else if hi > listLen then errAt loc (Leaf.RangeEndOutOfListBounds hi listLen) σ2
      else if hi - lo ≠ rhsLen then errAt loc (Leaf.RangeIndexItemMismatch (hi - lo) rhsLen) σ2
      else .ok names (σ2.set a (.list (listSplice items lo rhsItems)))

/-- the item loop of `bind_list`; the source list is read live at every step, as in the code -/
def bindList (fuel : Nat) (σ : State) (sc : List Addr) (names : List (List Char)) (items : List ListItem) (collect : Bool)
    (lhsLoc : Loc) (b : Addr) (decl : Bool) (i : Nat) (lhsLen : Nat) : Res (List (List Char)) :=
  match fuel with
  | 0 => .timeout
  | n + 1 =>
    match items with
    | [] => .ok names σ
    | .mk e spread :: r =>
      if spread then errAt lhsLoc (Leaf.SpreadInListDestructure i) σ
      else
        match σ.getList b with
        | none => crashHeap σ
        | some rhsItems =>
          if collect && i = lhsLen - 1 then
            let (ra, σ1) := σ.alloc (.list (rhsItems.drop (lhsLen - 1)))
            (bindNext n σ1 sc names e (SVal.plain (.list ra)) none decl).bind fun names' σ2 =>
            bindList n σ2 sc names' r collect lhsLoc b decl (i + 1) lhsLen
          else
            match rhsItems[i]? with
            | none => .crash c!"index" σ
            | some v =>
              (bindNext n σ sc names e v none decl).bind fun names' σ1 =>
              bindList n σ1 sc names' r collect lhsLoc b decl (i + 1) lhsLen

/-- the property loop of `bind_object`; `remaining` is `remaining_keys` -/
def bindObject (fuel : Nat) (σ : State) (sc : List Addr) (names : List (List Char)) (props : List PropItem) (b : Addr)
    (decl : Bool) (i : Nat) (total : Nat) (remaining : List (List Char)) : Res (List (List Char)) :=
  match fuel with
  | 0 => .timeout
  | n + 1 =>
    match props with
    | [] => .ok names σ
    | .Single e spread collect :: r =>
      if spread then errAt e.loc Leaf.SpreadOnObjectDestructure σ
      else
        match e.raw with
        | .Var pname =>
          if collect then
            if i ≠ total - 1 then errAt e.loc Leaf.ObjectCollectIsNotLast σ
            else
              match σ.getObj b with
              | none => crashHeap σ
              | some m =>
                let (ra, σ1) := σ.alloc (.obj (m.filter fun kv => remaining.contains kv.1))
                (bindNextName n σ1 sc names pname e.loc (SVal.plain (.obj ra)) none decl).bind fun names' σ2 =>
                bindObject n σ2 sc names' r b decl i total remaining
          else
            -- the shorthand `{_}` discards the property (nothing is looked up); a pair `{"_": x}` binds it like any other
            if pname = c!"_" then bindObject n σ sc names r b decl (i + 1) total (remaining.filter fun k => k ≠ pname)
            else
              (bindObjectProp n σ sc names e b pname e.loc decl).bind fun names' σ1 =>
              bindObject n σ1 sc names' r b decl (i + 1) total (remaining.filter fun k => k ≠ pname)
        | _ => errAt e.loc Leaf.ObjectPropShorthandNotVar σ
    | .Pair nameE newLhs :: r =>
      (evalToStr n σ sc c!"property" nameE).bind fun pname σ1 =>
      (bindObjectProp n σ1 sc names newLhs b pname nameE.loc decl).bind fun names' σ2 =>
      bindObject n σ2 sc names' r b decl (i + 1) total (remaining.filter fun k => k ≠ pname)

/-- `bind_object_prop` -/
def bindObjectProp (fuel : Nat) (σ : State) (sc : List Addr) (names : List (List Char)) (lhs : Expr) (b : Addr)
    (pname : List Char) (ploc : Loc) (decl : Bool) : Res (List (List Char)) :=
  match fuel with
  | 0 => .timeout
  | n + 1 =>
    match σ.getObj b with
    | none => crashHeap σ
    | some m =>
      match objGet pname m with
      | none => errAt ploc (Leaf.PropNotFound pname) σ
      | some v => bindNext n σ sc names lhs v none decl

end

/-- `eval_prog` with the global binding of `print` -/
def evalProg (fuel : Nat) (stmts : List Stmt) : Res Unit :=
  let printB : Expr × SVal := (.mk (.Var c!"print") (0, 0), SVal.plain (.builtin c!"print" .print))
  (evalBlock fuel State.init [] [printB] stmts).bind fun esc σ =>
  match esc with
  | .none => .ok () σ
  | .brk l => errAt l Leaf.BreakOutsideLoop σ
  | .cont l => errAt l Leaf.ContinueOutsideLoop σ
  | .ret _ l => errAt l Leaf.ReturnOutsideFunction σ

end Seed
