/-
  Dump.lean — serialisers producing exactly the text of the `--verif-tokens` / `--verif-ast`
  hooks of /repo/src/verif_hooks.rs (glue for the correspondence check; nothing is proved here).
-/
import SeedModel.Parse
namespace Seed

def hexDigit (n : Nat) : Char := if n < 10 then Char.ofNat (48 + n) else Char.ofNat (87 + n)

def hexBytes (bs : List UInt8) : String :=
  String.ofList ('x' :: bs.flatMap fun b => [hexDigit (b.toNat / 16), hexDigit (b.toNat % 16)])

def hexChars (cs : List Char) : String := hexBytes (String.ofList cs).toUTF8.toList

def locStr (l : Loc) : String := s!"{l.1}:{l.2}"

def Token.name : Token → String
  | .Ident _ => "Ident" | .IntLiteral _ => "IntLiteral" | .StrLiteral _ => "StrLiteral"
  | .InterpStrLiteral _ _ => "InterpStrLiteral"
  | .Break => "Break" | .Continue => "Continue" | .Else => "Else" | .False => "False" | .Fn => "Fn"
  | .For => "For" | .If => "If" | .In => "In" | .Null => "Null" | .Return => "Return" | .True => "True"
  | .While => "While" | .BraceClose => "BraceClose" | .BraceOpen => "BraceOpen"
  | .BracketClose => "BracketClose" | .BracketOpen => "BracketOpen" | .Colon => "Colon" | .Comma => "Comma"
  | .Div => "Div" | .Dot => "Dot" | .Equals => "Equals" | .GreaterThan => "GreaterThan"
  | .LessThan => "LessThan" | .Mod => "Mod" | .Mul => "Mul" | .ParenClose => "ParenClose"
  | .ParenOpen => "ParenOpen" | .StmtEnd => "StmtEnd" | .Sub => "Sub" | .Sum => "Sum"
  | .AmpAmp => "AmpAmp" | .BangEquals => "BangEquals" | .ColonEquals => "ColonEquals"
  | .DashGreaterThan => "DashGreaterThan" | .DivEquals => "DivEquals" | .DotDot => "DotDot"
  | .EqualsEquals => "EqualsEquals" | .GreaterThanEquals => "GreaterThanEquals"
  | .LessThanEquals => "LessThanEquals" | .ModEquals => "ModEquals" | .MulEquals => "MulEquals"
  | .PipePipe => "PipePipe" | .SubEquals => "SubEquals" | .SumEquals => "SumEquals"
  | .EqualsEqualsEquals => "EqualsEqualsEquals" | .BangEqualsEquals => "BangEqualsEquals"

def slotsStr (slots : List (Nat × Nat)) : String :=
  "[" ++ " ".intercalate (slots.map fun (a, b) => s!"{a}-{b}") ++ "]"

def tokenFields : Token → String
  | .Ident s => s!"Ident {hexChars s}"
  | .IntLiteral n => s!"IntLiteral {n}"
  | .StrLiteral s => s!"StrLiteral {hexChars s}"
  | .InterpStrLiteral s slots => s!"InterpStrLiteral {hexChars s} {slotsStr slots}"
  | t => t.name

def lexErrorFields : LexError → String
  | .Unexpected l c => s!"Unexpected {locStr l} {hexChars [c]}"
  | .IntOverflow l raw => s!"IntOverflow {locStr l} {hexChars raw}"
  | .UnescapedDollar l => s!"UnescapedDollar {locStr l} x"
  | .InvalidInterpolationStart l c => s!"InvalidInterpolationStart {locStr l} {hexChars [c]}"
  | .InvalidEscapeChar l c => s!"InvalidEscapeChar {locStr l} {hexChars [c]}"
  | .InvalidHexChar l c => s!"InvalidHexChar {locStr l} {hexChars [c]}"

def dumpTokens (src : List Char) : String :=
  let (ts, e) := lexAll src
  let body := ts.foldl (fun acc sp => acc ++ s!"T {locStr sp.start} {locStr sp.stop} {tokenFields sp.tok}\n") ""
  match e with
  | none => body
  | some e => body ++ s!"E {lexErrorFields e}\n"

/-- `render_token` of main.rs -/
def renderToken : Token → List Char
  | .Ident s => ['`'] ++ s ++ ['`']
  | .IntLiteral n => (toString n).toList
  | .StrLiteral s => ['"'] ++ s ++ ['"']
  | .InterpStrLiteral s _ => ['"'] ++ s ++ ['"']
  | .Break => "`break`".toList | .Continue => "`continue`".toList | .Else => "`else`".toList
  | .False => "`false`".toList | .Fn => "`fn`".toList | .For => "`for`".toList | .If => "`if`".toList
  | .In => "`in`".toList | .Null => "`null`".toList | .Return => "`return`".toList
  | .True => "`true`".toList | .While => "`while`".toList
  | .BraceClose => "}".toList | .BraceOpen => "{".toList | .BracketClose => "]".toList
  | .BracketOpen => "[".toList | .Colon => ":".toList | .Comma => ",".toList | .Div => "/".toList
  | .Dot => ".".toList | .Equals => "=".toList | .GreaterThan => ">".toList | .LessThan => "<".toList
  | .Mod => "%".toList | .Mul => "*".toList | .ParenClose => ")".toList | .ParenOpen => "(".toList
  | .StmtEnd => "stmt_end".toList | .Sub => "-".toList | .Sum => "+".toList
  | .AmpAmp => "&&".toList | .BangEquals => "!=".toList | .ColonEquals => ":=".toList
  | .DashGreaterThan => "->".toList | .DivEquals => "/=".toList | .DotDot => "..".toList
  | .EqualsEquals => "==".toList | .GreaterThanEquals => ">=".toList | .LessThanEquals => "<=".toList
  | .ModEquals => "%=".toList | .MulEquals => "*=".toList | .PipePipe => "||".toList
  | .SubEquals => "-=".toList | .SumEquals => "+=".toList
  | .EqualsEqualsEquals => "===".toList | .BangEqualsEquals => "!==".toList

def frontErrFields : FrontErr → String
  | .lex e => s!"ERR Lex {lexErrorFields e}"
  | .unexpectedTok sp => s!"ERR UnexpectedToken {locStr sp.start} {hexChars (renderToken sp.tok)}"
  | .unexpectedEof l => s!"ERR UnexpectedEof {locStr l}"

def BinaryOp.name : BinaryOp → String
  | .Sum => "Sum" | .Sub => "Sub" | .Mul => "Mul" | .Div => "Div" | .Mod => "Mod" | .And => "And"
  | .Or => "Or" | .Eq => "Eq" | .Ne => "Ne" | .Gt => "Gt" | .Gte => "Gte" | .Lt => "Lt" | .Lte => "Lte"
  | .RefEq => "RefEq" | .RefNe => "RefNe"

def sepBy (xs : List String) : String := "[" ++ " ".intercalate xs ++ "]"

mutual
partial def serExpr : Expr → String
  | .mk raw l => s!"(E {locStr l} {serRaw raw})"
partial def serOpt : Option Expr → String
  | none => "none"
  | some e => serExpr e
partial def serItems (items : List ListItem) : String :=
  sepBy (items.map fun | .mk e s => s!"(Item {serExpr e} {s})")
partial def serRaw : RawExpr → String
  | .Null => "Null"
  | .Bool b => s!"(Bool {b})"
  | .Int n => s!"(Int {n})"
  | .Str s none => s!"(Str {hexChars s} none)"
  | .Str s (some slots) => s!"(Str {hexChars s} {slotsStr slots})"
  | .Var n => s!"(Var {hexChars n})"
  | .BinaryOp op ol l r => s!"(BinaryOp {op.name} @{locStr ol} {serExpr l} {serExpr r})"
  | .List items c => s!"(List {serItems items} {c})"
  | .Index e i => s!"(Index {serExpr e} {serExpr i})"
  | .RangeIndex e a b => s!"(RangeIndex {serExpr e} {serOpt a} {serOpt b})"
  | .Range a b => s!"(Range {serExpr a} {serExpr b})"
  | .Object props => "(Object " ++ sepBy (props.map fun
      | .Pair n v => s!"(Pair {serExpr n} {serExpr v})"
      | .Single e s c => s!"(Single {serExpr e} {s} {c})") ++ ")"
  | .Prop e n t => s!"(Prop {serExpr e} {hexChars n} {t})"
  | .Func args c stmts => s!"(Func {sepBy (args.map serExpr)} {c} {serBlock stmts})"
  | .Call f args => s!"(Call {serExpr f} {serItems args})"
partial def serBlock (b : List Stmt) : String := sepBy (b.map serStmt)
partial def serStmt : Stmt → String
  | .Block b => s!"(Block {serBlock b})"
  | .Expr e => s!"(Expr {serExpr e})"
  | .Declare l r => s!"(Declare {serExpr l} {serExpr r})"
  | .Assign l r => s!"(Assign {serExpr l} {serExpr r})"
  | .OpAssign l op ol r => s!"(OpAssign {serExpr l} {op.name} @{locStr ol} {serExpr r})"
  | .If bs els =>
    "(If " ++ sepBy (bs.map fun | .mk c s => s!"(Branch {serExpr c} {serBlock s})") ++ " " ++
      (match els with | none => "none" | some b => serBlock b) ++ ")"
  | .While c s => s!"(While {serExpr c} {serBlock s})"
  | .For l i s => s!"(For {serExpr l} {serExpr i} {serBlock s})"
  | .Break l => s!"(Break @{locStr l})"
  | .Continue l => s!"(Continue @{locStr l})"
  | .Func n l args c s => s!"(FuncStmt {hexChars n} @{locStr l} {sepBy (args.map serExpr)} {c} {serBlock s})"
  | .Return l e => s!"(Return @{locStr l} {serExpr e})"
end

def dumpAst (src : List Char) : String :=
  match parseProg src with
  | .ok stmts => s!"(Prog {serBlock stmts})\n"
  | .err e => frontErrFields e ++ "\n"
  | .timeout => "TIMEOUT\n"

def dumpAstExpr (src : List Char) : String :=
  match parseExprTop src with
  | .ok e => serExpr e ++ "\n"
  | .err e => frontErrFields e ++ "\n"
  | .timeout => "TIMEOUT\n"

end Seed
