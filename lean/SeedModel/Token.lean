/-
  Token.lean — mirrors `Token` and `LexError` of /repo/src/lexer/mod.rs one to one.
  Identifier and string payloads are `List Char` (a Rust `String` is a sequence of chars).
-/
namespace Seed

abbrev Loc := Nat × Nat

inductive Token where
  | Ident (s : List Char)
  | IntLiteral (n : Int)
  | StrLiteral (s : List Char)
  | InterpStrLiteral (s : List Char) (slots : List (Nat × Nat))
  | Break | Continue | Else | False | Fn | For | If | In | Null | Return | True | While
  | BraceClose | BraceOpen | BracketClose | BracketOpen | Colon | Comma | Div | Dot | Equals
  | GreaterThan | LessThan | Mod | Mul | ParenClose | ParenOpen | StmtEnd | Sub | Sum
  | AmpAmp | BangEquals | ColonEquals | DashGreaterThan | DivEquals | DotDot | EqualsEquals
  | GreaterThanEquals | LessThanEquals | ModEquals | MulEquals | PipePipe | SubEquals | SumEquals
  | EqualsEqualsEquals | BangEqualsEquals
  deriving DecidableEq, Repr, Inhabited

inductive LexError where
  | Unexpected (loc : Loc) (c : Char)
  | IntOverflow (loc : Loc) (raw : List Char)
  | UnescapedDollar (loc : Loc)
  | InvalidInterpolationStart (loc : Loc) (c : Char)
  | InvalidEscapeChar (loc : Loc) (c : Char)
  | InvalidHexChar (loc : Loc) (c : Char)
  deriving DecidableEq, Repr

def LexError.loc : LexError → Loc
  | .Unexpected l _ => l
  | .IntOverflow l _ => l
  | .UnescapedDollar l => l
  | .InvalidInterpolationStart l _ => l
  | .InvalidEscapeChar l _ => l
  | .InvalidHexChar l _ => l

/-- `(start, token, end)` as produced by the lexer. -/
structure Span where
  start : Loc
  tok : Token
  stop : Loc
  deriving DecidableEq, Repr

end Seed
