import SeedProofs.C03
