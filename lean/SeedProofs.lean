import SeedProofs.C03
import SeedProofs.C18
