"""suite.py — the repository's own test scripts and documentation examples as input streams."""
import re
from pathlib import Path
from core import REPO

START = "=" * 50
SECTION = "-" * 50


def suite_tests():
    """[(name, src, code, stdout, stderr)] parsed like /repo/build.rs does"""
    tests = []
    d = REPO / "tests" / "stdout"
    for fp in sorted(d.iterdir()):
        if fp.suffix not in (".test", ".xtest"):
            continue
        ext = fp.suffix == ".xtest"
        cur = None
        sec = 0
        for line in fp.read_text().split("\n")[:-1]:
            if line.startswith(START):
                suf = line[len(START):]
                if cur is not None:
                    tests.append(cur)
                    cur = None
                if suf == "":
                    break
                cur = {"name": fp.stem + "::" + suf.strip(), "src": "", "code": 0, "stdout": "", "stderr": ""}
                sec = 0
                continue
            if line == SECTION:
                sec += 1
                continue
            if cur is None:
                continue
            if ext:
                if sec == 0:
                    cur["code"] = int(line[len("exit_code: "):])
                elif sec == 1:
                    cur["src"] += line + "\n"
                elif sec == 2:
                    cur["stdout"] += line + "\n"
                elif sec == 3:
                    cur["stderr"] += line + "\n"
            else:
                if sec == 0:
                    cur["src"] += line + "\n"
                elif sec == 1:
                    cur["stdout"] += line + "\n"
    return tests


def doc_examples():
    """fenced code blocks of docs/features.md"""
    text = (REPO / "docs" / "features.md").read_text()
    return re.findall(r"```[a-z]*\n(.*?)```", text, re.S)
