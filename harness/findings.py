"""findings.py — predicates for the *specific* signatures of the known findings listed in
/verif/known_findings.json.  A finding suppresses only inputs its predicate accepts."""
import re

SIGNATURES = {}


def signature(name):
    def deco(f):
        SIGNATURES[name] = f
        return f
    return deco
