"""findings.py — predicates for the *specific* signatures of the known findings listed in
/verif/known_findings.json.  A finding suppresses only inputs its predicate accepts."""
import re

SIGNATURES = {}


def signature(name):
    def deco(f):
        SIGNATURES[name] = f
        return f
    return deco


def _cli_stderr(info):
    d = info.get("details") or {}
    return ((d.get("cli") or {}).get("stderr")) or ""


@signature("interp_slot_parse_error")
def k1(info):
    """K1: the diagnostic is the slot-parse failure with its debug payload, and the input has an interpolated literal"""
    return "couldn't parse interpolation slot: " in _cli_stderr(info) and '$"' in info.get("input", "") or \
        ("couldn't parse interpolation slot: " in _cli_stderr(info) and "$" in info.get("input", ""))


@signature("slot_position_after_escape")
def k2(info):
    """K2: the failing position belongs to a diagnostic raised inside a slot (`l:c: l2:c2: …`) whose literal has an escape
    sequence or a line break before that slot"""
    d = info.get("details") or {}
    return bool(d.get("inside_slot_after_escape"))


@signature("slot_in_parenthesised_literal")
def k4(info):
    """K4: the failing position belongs to a diagnostic raised inside a slot of an interpolated literal that is directly
    inside parentheses (the string node then carries the position of the `(`)"""
    d = info.get("details") or {}
    return bool(d.get("slot_in_parenthesised_literal")) or bool(re.search(r'\(\s*\$"[^"]*\$\{', info.get("input", "")) and
                                                            re.search(r":\d+:\d+: \d+:\d+: ", _cli_stderr(info)))


@signature("name_directly_in_parentheses")
def k5(info):
    """K5: an undefined name that is the whole content of a parenthesised expression is reported at the outermost `(`
    (the check marks the case only when the reported position is exactly that parenthesis)"""
    d = info.get("details") or {}
    return bool(d.get("name_directly_in_parentheses")) or d.get("known_probe") == "K5"


@signature("call_inside_slot")
def k6(info):
    """K6: a failure inside a function called from an interpolation slot is anchored at the slot and the call's trace line
    carries a slot-relative position; accepted only when the check established that everything else is as required"""
    d = info.get("details") or {}
    return bool(d.get("call_inside_slot_known_shape")) or d.get("known_probe") == "K6"


@signature("line_break_as_offender")
def k7(info):
    """K7: the offending character of a lexical error, or the unexpected token of a syntax error, is a line break, and the
    reported position is exactly (the following line, column 0); the check establishes both before marking the case"""
    d = info.get("details") or {}
    return bool(d.get("line_break_offender_reported_at_next_line_column_0")) or d.get("known_probe") == "K7"
