"""C09 — newline equals `;`; whitespace, comments and line layout never change meaning."""
import re

import core
import lib_syntax as L
import progs
import suite
import tie

RULE = ("metamorphic on the implementation: every generated program (progs) and every suite / documentation script is split "
        "at the token boundaries of the implementation's own token dump (each boundary validated against the text it "
        "delimits) and re-rendered under admissible layouts: `;` <-> newline per terminator, blank lines, repeated "
        "terminators, spaces / tabs / CR (also none) between tokens that do not merge, `#` comments with arbitrary text "
        "(multi-byte, quotes, `;`), CR LF line ends, a line break after continuation tokens, `_` separators in integer "
        "literals, `\\xHH` for ASCII characters of slot-free string literals; plus, systematically, one line break after "
        "each occurrence of a continuation token in turn and after all at once; required: same token stream modulo "
        "positions, same stdout and status, same message at the position mapped through the rewrite.  Negative: a line "
        "break after `..`, `->`, `:`, `===`, `!==`, an identifier, `)` must add exactly one StmtEnd.  Non-trivial = distinct "
        "(rewrite kind, token kind broken after / features of the rewrite, outcome class)")
ASSUMPTIONS = [
    "token boundaries come from the implementation's token dump; every boundary is validated by checking that the delimited "
    "text spells the token named by the dump",
    "`\\xHH` rewrites are applied to literals without interpolation slots only (positions inside slots are computed from "
    "the decoded text: known finding K2)",
    "diagnostics raised inside an interpolation slot are compared without their position (known finding K2: the column is "
    "computed from the enclosing expression's stored position and the decoded text)",
    "the position reported for a terminator written as a newline is (next line, column 0); the mapped position is "
    "compared only when the anchoring token is not such a terminator",
]

ELIGIBLE = L.CONTINUATION_KINDS
INELIGIBLE = {"DotDot", "DashGreaterThan", "Colon", "EqualsEqualsEquals", "BangEqualsEquals", "Ident", "ParenClose"}


SLOT_DIAG = re.compile(r"\A[^\n:]*:\d+:\d+:(?: in '[^']*':)? (?:\d+:\d+: |couldn't create interpolated slot string|"
                       r"interpolated values can only be strings|couldn't parse interpolation slot)")


def outcome_class(r):
    if r["status"] == "0":
        return "ok"
    e = r["stderr"]
    if "unexpected" in e.split("\n")[0] or "is not a valid" in e or "too high" in e or "'$'" in e:
        return "front-end-diag"
    return "run-diag" if r["status"] == "103" else "crash:" + r["status"]


class Variant:
    __slots__ = ("base", "kind", "src", "starts", "tail_start", "changed", "tag", "expect_extra")

    def __init__(self, base, kind, src, starts, tail_start, changed, tag, expect_extra=None):
        self.base, self.kind, self.src, self.starts, self.tail_start = base, kind, src, starts, tail_start
        self.changed, self.tag, self.expect_extra = changed, tag, expect_extra


def make_variants(rng, bi, lay, n_random, cap_single):
    out = []
    n = len(lay.texts)
    nochange = [False] * n
    for _ in range(n_random):
        texts, gaps, tail, changed = lay.random(rng)
        src, starts, _ = lay.render(texts, gaps, tail)
        feats = []
        if any(changed):
            feats.append("lit")
        if "#" in "".join(gaps) + tail:
            feats.append("comment")
        if "\r\n" in src:
            feats.append("crlf")
        out.append(Variant(bi, "random", src, starts, len(src) - len(tail), changed, "+".join(feats) or "ws"))
    elig = [i for i, k in enumerate(lay.kinds) if k in ELIGIBLE]
    # a line break after every continuation token at once (two spellings of the break)
    for brk in ("\n", " # é\r\n\t"):
        gaps = list(lay.gaps)
        tail = lay.tail
        for i in elig:
            if i + 1 < n:
                gaps[i + 1] = brk + gaps[i + 1]
            else:
                tail = brk + tail
        src, starts, _ = lay.render(None, gaps, tail)
        out.append(Variant(bi, "all-breaks", src, starts, len(src) - len(tail), nochange, "all"))
    # one break after each occurrence in turn (capped per program; every kind present is kept)
    pick = elig
    if len(pick) > cap_single:
        by_kind = {}
        for i in elig:
            by_kind.setdefault(lay.kinds[i], []).append(i)
        pick = [rng.choice(v) for v in by_kind.values()]
        rest = [i for i in elig if i not in pick]
        pick += rng.sample(rest, max(0, min(len(rest), cap_single - len(pick))))
    for i in pick:
        gaps = list(lay.gaps)
        tail = lay.tail
        if i + 1 < n:
            gaps[i + 1] = "\n" + gaps[i + 1]
        else:
            tail = "\n" + tail
        src, starts, _ = lay.render(None, gaps, tail)
        out.append(Variant(bi, "break", src, starts, len(src) - len(tail), nochange, lay.kinds[i]))
    # negative: a break after an ineligible token splits the statement
    inel = [i for i, k in enumerate(lay.kinds) if k in INELIGIBLE and i + 1 < n and lay.kinds[i + 1] != "StmtEnd"]
    by_kind = {}
    for i in inel:
        by_kind.setdefault(lay.kinds[i], []).append(i)
    for k, v in by_kind.items():
        for i in rng.sample(v, min(len(v), 2)):
            gaps = list(lay.gaps)
            gaps[i + 1] = "\n" + gaps[i + 1]
            src, starts, _ = lay.render(None, gaps, None)
            out.append(Variant(bi, "split", src, starts, len(src) - len(lay.tail), nochange, k, expect_extra=i + 1))
    return out


def judge(lay, base_kinds, base_run, v, vkinds, vrun):
    """-> (level, why) ; level None = fine, 'tok' / 'run'"""
    if v.kind == "split":
        want = base_kinds[:v.expect_extra] + ["StmtEnd"] + base_kinds[v.expect_extra:]
        if vkinds != want:
            return "tok", f"a line break after {v.tag} did not add exactly one statement terminator there"
        return None, ""
    if vkinds != base_kinds:
        return "tok", "the token stream changed (positions erased)"
    if vrun is None:
        return None, ""
    if vrun["stdout"] != base_run["stdout"] or vrun["status"] != base_run["status"]:
        return "run", f"stdout / status changed: {base_run['status']} -> {vrun['status']}"
    if base_run["stderr"] or vrun["stderr"]:
        pm = L.PosMap(lay, v.src, v.starts, v.tail_start, v.changed)
        want = pm.map_stderr(base_run["stderr"])
        if SLOT_DIAG.match(base_run["stderr"]):
            # raised inside an interpolation slot: the reported column is computed from the stored position of the
            # enclosing expression and the decoded text (known finding K2; also off for a parenthesised literal)
            strip = lambda e: re.sub(r"\d+:\d+", "", e)
            if strip(vrun["stderr"]) != strip(base_run["stderr"]):
                return "run", "the message changed"
            return "slot", ""
        if want is None:
            # not anchored to a token: compare the message with positions erased
            strip = lambda e: re.sub(r"\d+:\d+", "", e)
            if strip(vrun["stderr"]) != strip(base_run["stderr"]):
                return "run", "the message changed"
            return "unmapped", ""
        if tie.canon_stderr(vrun["stderr"]) != tie.canon_stderr(want):
            return "run", f"diagnostic is not the original one at the mapped position: expected {want.strip()[:160]!r}"
    return None, ""


def run(ctx, model_ok):
    rng = ctx.rng
    thorough = ctx.tier == "thorough"
    n_prog = 1000 if thorough else 130
    n_random = 12 if thorough else 5
    cap_single = 60 if thorough else 22
    bases = [("progs", s) for s in progs.generate(rng, n_prog)]
    bases += [("progs-small", s) for s in progs.generate(rng, n_prog, max_depth=2)]
    bases += [("suite", t["src"]) for t in suite.suite_tests()]
    bases += [("docs", s) for s in suite.doc_examples()]
    # interpolated literals (their slots are lexed on their own when evaluated): nested literals at equal offsets in different
    # slots and different outer literals, escapes before slots, slots evaluated repeatedly — under every layout of the rest
    bases += [("interp", s) for s in (
        'g := "héllo"\nn := "wörld"\nprint($"${ $"${g}" }, ${ $"${n}" }!")\n',
        'fn tag(t) {\n    return "<" + t + ">"\n}\nx := "x"\ny := "y"\nprint($"1: ${ tag($"${x}") }")\nprint($"2: ${ tag($"${y}") }")\nprint($"3: ${ tag($"${x}") } ${ tag($"${y}") }")\n',
        'name := "world"\nprint($"A: hello ${name}")\nprint($"\\x41: hello ${name}")\nprint($"\\x41\\x42 ${name} \\x43 ${name}")\nprint("c1\\x09c2|" == "c1\tc2|")\nprint("one\\x0atwo"->len())\n',
        'xs := ["a", "b"]\nfor [i, v] in xs {\n    print($"${v}${ $"${v}" }")\n}\n',
        'a := "1"\nb := "2"\nfn f(p) {\n    return $"[${p}]"\n}\nprint(f(a) + f(b) + $"${f($"${a}")}${f($"${b}")}")\n',
    )]
    # a character written as `\xHH` is that character and nothing else: a quote, a dollar, a backslash, a brace spelt in hex
    # neither ends the literal nor starts a slot nor escapes what follows
    bases.append(("interp", 'x := "v"\nprint("q\\x22q")\nprint("d\\x24{x}")\nprint($"d\\x24{x}${x}")\nprint("b\\x5cn")\nprint($"\\x7b${x}\\x7d")\n'
                            'print($"${x}\\x22${x}\\x24")\nprint("\\x5c\\x22"->len())\n'))
    # a line break INSIDE a literal is text, not layout: raw CR LF, a lone CR, a lone LF, a tab are the characters they are
    bases.append(("interp", 's := "a\r\nb"\nprint(s == "a\\x0d\\x0ab")\nprint(s->len())\nt := $"${s}\r\n|\r|\t|"\nprint(t->len())\nprint("x\ry" == "x\\x0dy")\n'
                            'print($"l1\r\nl2${s}"->len())\n'))
    # what those seven programs print (escapes are spellings, slots are program text)
    interp_expected = ["héllo, wörld!\n", "1: <x>\n2: <y>\n3: <x> <y>\n", "A: hello world\nA: hello world\nAB world C world\ntrue\n7\n",
                       "aa\nbb\n", "[1][2][1][2]\n", 'q"q\nd${x}\nd${x}v\nb\\n\n{v}\nv"v$\n2\n', "true\n4\n11\ntrue\n10\n"]
    ib = [s for l, s in bases if l == "interp"]
    for src, want, r in zip(ib, interp_expected, core.cli_batch(ib)):
        if (r["stdout"], r["status"]) != (want, "0"):
            ctx.violation(f"C09: an interpolated literal is not read as its pieces and slots: expected {want!r}", src, {"cli": r})
    # names that begin with a keyword, as the first token of a statement after every way a statement can end (a closing
    # brace and a line break, a closing brace and `;`, a comment line in between)
    kw_src = ('elsewhere := 1\nif elsewhere == 1 {\n    iffy := 2\n    print(iffy)\n}\nelsewhere += 1\n{\n    format := 3\n    print(format)\n}\n'
              'elsewhere += 1\nfn returned() {\n    return 1\n}\nelsewhere2 := returned()\nwhile false {\n    print(0)\n}\nelsewhere += elsewhere2\n'
              'for [_, inner] in [7] {\n    print(inner)\n}\nelsewhere += 1\nif false {\n    print(0)\n} else {\n    print(1)\n}\nelsewhere += 1\n'
              'fn f() {\n    return null\n};elsewhere += 1\nnullable := f()\ntrueish := true\nbreaker := [elsewhere, nullable, trueish]\nprint(breaker)\n')
    bases.append(("interp", kw_src))
    r, = core.cli_batch([kw_src])
    kw_want = "2\n3\n7\n1\n[\n    7,\n    <null>,\n    true,\n]\n"
    if (r["stdout"], r["status"]) != (kw_want, "0"):
        ctx.violation("C09: a name that begins with a keyword, written first in a statement after a closing brace, is not read as a "
                      f"name: expected {kw_want!r}", kw_src, {"cli": r})
    # any AMOUNT of layout is still layout: very long runs of blank lines, of `;`, of comment lines, of blanks — between
    # statements, after a continuation token, at the start and at the end of the file (run through the command line only)
    big = 60000 if thorough else 30000
    runs_ = [("\n" * big, "blank lines"), (";" * big, "semicolons"), ("# c\n" * (big // 3), "comment lines"), (" " * big, "blanks"),
             ("\n;" * (big // 2), "mixed terminators"), ("\t \n" * (big // 3), "blank lines with blanks")]
    long_srcs = []
    for filler, what in runs_:
        nl = "" if filler.endswith("\n") or filler.endswith(";") else "\n"
        long_srcs.append((what + " between statements", "x := 1\n" + filler + nl + "print(x)\n", "1\n"))
        long_srcs.append((what + " at the start and the end", filler + nl + "print(2)\n" + filler, "2\n"))
        if ";" not in filler:
            long_srcs.append((what + " after a continuation token", "x := 1 +" + filler + nl + "2\nprint(x)\n", "3\n"))
            long_srcs.append((what + " inside brackets", "xs := [1," + filler + nl + "2]\nprint(xs[1])\n", "2\n"))
    for (what, src, want), r in zip(long_srcs, core.cli_batch([l[1] for l in long_srcs])):
        ctx.nontrivial(("long-layout", what))
        ctx.count("long_layout:cli", 1)
        if (r["stdout"], r["status"]) != (want, "0"):
            ctx.violation(f"C09: a long run of layout ({what}, {len(src)} characters in all) changed behaviour: expected {want!r} and "
                          "success", src, {"cli": {k: v[:300] for k, v in r.items()}})
            break
    seen = set()
    bases = [(l, s) for l, s in bases if not (s in seen or seen.add(s))]
    # the text of an interpolation slot is program text too: blanks after `${` (the layout engine above leaves literals alone)
    slot_bases = [s for l, s in bases if "${" in s and l in ("interp", "progs", "progs-small")]
    slot_variants = []
    for sb in slot_bases:
        k = sb.count("${")
        forms = {sb.replace("${", "${ "), sb.replace("${", "${  ", 1), "${\t".join(sb.rsplit("${", 1)),
                 # comments (with arbitrary text: a quote, an apostrophe, balanced braces) and line breaks at the start of a slot
                 sb.replace("${", "${ # say \"\n "), "${# it's {1}\n\n".join(sb.rsplit("${", 1)), sb.replace("${", "${\n", 1)}
        if k >= 2:
            i2 = sb.index("${", sb.index("${") + 2)
            forms.add(sb[:i2] + "${   " + sb[i2 + 2:])
        for f in forms:
            if f != sb:
                slot_variants.append((sb, f))
    runs = core.run_batch("impl", [b for b, _ in slot_variants] + [v for _, v in slot_variants])
    ctx.count("slot_interior:run", len(runs))
    nb = len(slot_variants)
    reported_slots = 0
    for (sb, sv), rb, rv in zip(slot_variants, runs[:nb], runs[nb:]):
        ctx.nontrivial(("slot-interior", rb["status"], sb.count("${")))
        same = (rb["stdout"], rb["status"]) == (rv["stdout"], rv["status"]) and \
            re.sub(r"\d+:\d+", "", rb["stderr"]) == re.sub(r"\d+:\d+", "", rv["stderr"])
        if not same and reported_slots < 2:
            cb, cv = core.cli_batch([sb, sv])
            if (cb["stdout"], cb["status"]) != (cv["stdout"], cv["status"]) or \
                    re.sub(r"\d+:\d+", "", cb["stderr"]) != re.sub(r"\d+:\d+", "", cv["stderr"]):
                reported_slots += 1
                ctx.violation("C09: blanks, line breaks or a comment inserted after `${` inside an interpolated literal changed behaviour", sv,
                              {"original": sb, "original_cli": cb, "rewritten_cli": cv})
    state = {"reported": {}, "samples": set(), "tie_budget": 6000 if thorough else 1500}
    chunk = 200
    for k in range(0, len(bases), chunk):
        part = bases[k:k + chunk]
        share = max(50, state["tie_budget"] * len(part) // len(bases))
        process(ctx, rng, model_ok, part, n_random, cap_single, state, share)


def process(ctx, rng, model_ok, bases, n_random, cap_single, state, tie_share):
    srcs = [s for _, s in bases]
    tk = L.tokenize_many(srcs)
    base_blocks = core.batch("impl", "tok", srcs)
    base_runs = core.run_batch("impl", srcs)
    ctx.count("bases:tok+run", len(srcs))
    lays = []
    variants = []
    for bi, ((label, src), (toks, err)) in enumerate(zip(bases, tk)):
        if err is not None and err[0] != "lex":
            ctx.exclude("token_dump_unusable:" + err[0])
            if err[0] == "bounds":
                ctx.unproved("layout:boundaries", "a token's reported start/end does not delimit the token's text",
                             {"input": src, "why": err[1]})
            lays.append(None)
            continue
        lay = L.Layout(src, toks, err)
        assert lay.render()[0] == src
        lays.append(lay)
        k = n_random if label != "suite" else n_random * 2
        variants += make_variants(rng, bi, lay, k, cap_single)
    vsrcs = [v.src for v in variants]
    vblocks = core.batch("impl", "tok", vsrcs)
    ctx.count("layouts:tok", len(vsrcs))
    runnable = [i for i, v in enumerate(variants) if v.kind != "split"]
    vruns = {}
    for i, r in zip(runnable, core.run_batch("impl", [vsrcs[i] for i in runnable])):
        vruns[i] = r
    ctx.count("layouts:run", len(runnable))
    base_kinds = [L.kinds_of(b) for b in base_blocks]
    failures = []
    for i, v in enumerate(variants):
        lay = lays[v.base]
        level, why = judge(lay, base_kinds[v.base], base_runs[v.base], v, L.kinds_of(vblocks[i]), vruns.get(i))
        oc = outcome_class(base_runs[v.base])
        ctx.dist(f"{v.kind}:{oc}")
        if v.kind in ("break", "split"):
            ctx.dist(f"{v.kind}-after:{v.tag}")
        ctx.nontrivial((v.kind, v.tag, oc))
        if level == "unmapped":
            ctx.exclude("position_not_anchored_to_a_token(message compared without position)")
        elif level == "slot":
            ctx.exclude("diagnostic_inside_interpolation_slot(message compared without position: K2)")
        elif level is not None:
            failures.append((i, level, why))
    # ---- confirm through the unmodified CLI, smallest first, one per (kind, tag, level)
    failures.sort(key=lambda f: len(variants[f[0]].src))
    reported = state["reported"]
    for i, level, why in failures:
        v = variants[i]
        key = (v.kind, v.tag if v.kind != "random" else "", level)
        if reported.get(key, 0) >= 1 or len(reported) >= 8:
            continue
        lay = lays[v.base]
        rb, rv = core.cli_batch([lay.src, v.src])
        ctx.cov["cli_reconfirmed"] += 2
        lv, wy = judge(lay, base_kinds[v.base], rb, v, L.kinds_of(vblocks[i]), None if v.kind == "split" else rv)
        details = {"original": lay.src, "original_cli": rb, "rewritten_cli": rv, "rewrite": f"{v.kind}:{v.tag}",
                   "failing_variants_in_chunk": len(failures)}
        if v.kind == "split":
            if lv is not None:
                reported[key] = reported.get(key, 0) + 1
                if (rb["stdout"], rb["status"]) == (rv["stdout"], rv["status"]) and \
                        re.sub(r"\d+:\d+", "", rb["stderr"]) == re.sub(r"\d+:\d+", "", rv["stderr"]):
                    ctx.violation("C09: " + wy + " (the rewritten text behaves like the original)", v.src, details)
                else:
                    ctx.unproved("layout:split", wy + "; the CLI behaviour differs from the original all the same",
                                 {"input": v.src, **details})
            continue
        if lv == "run":
            reported[key] = reported.get(key, 0) + 1
            ctx.violation("C09: layout rewrite changed behaviour: " + wy, v.src, details)
        elif lv == "tok":
            reported[key] = reported.get(key, 0) + 1
            if (rb["stdout"], rb["status"]) != (rv["stdout"], rv["status"]) or \
                    re.sub(r"\d+:\d+", "", rb["stderr"]) != re.sub(r"\d+:\d+", "", rv["stderr"]):
                ctx.violation("C09: layout rewrite changed the token stream and the behaviour: " + wy, v.src, details)
            else:
                ctx.unproved("layout:tok", "an admissible layout rewrite changed the token stream (positions erased); "
                             "the CLI behaves the same on this input", {"input": v.src, **details})
    # ---- leg B: model vs implementation on the rewritten texts (tokens with positions; whole runs)
    if model_ok and variants:
        idx = list(range(len(variants)))
        if len(idx) > tie_share:
            idx = sorted(rng.sample(idx, tie_share))
        tie.front(ctx, "tok", [vsrcs[i] for i in idx], "layouts", model_ok)
        ridx = [i for i in idx if variants[i].kind != "split"]
        # a disagreement on a rewritten text counts only if the two sides agree on the original (scheduled repairs of
        # the evaluator show on both texts alike and are not about layout)
        bset = sorted({variants[i].base for i in ridx})
        mb = dict(zip(bset, core.run_batch("model", [srcs[b] for b in bset], fuel=3000000)))
        _, dis = tie.run(ctx, [vsrcs[i] for i in ridx], "layouts", model_ok, project=tie.proj_full)
        by_src = {vsrcs[i]: variants[i].base for i in ridx}
        rest = []
        for s, a, b in dis:
            bb = by_src[s]
            if tie.proj_full(mb[bb]) != tie.proj_full(base_runs[bb]):
                ctx.exclude("tie:original_already_disagrees")
            else:
                rest.append((s, a, b))
        tie.report_disagreements(ctx, rest, "layouts")
    # ---- samples
    for kind in ("random", "break", "split", "all-breaks"):
        if kind in state["samples"]:
            continue
        for v in variants:
            if v.kind == kind and len(v.src) < 400:
                state["samples"].add(kind)
                ctx.sample({"rewrite": f"{v.kind}:{v.tag}", "original": lays[v.base].src[:300], "rewritten": v.src[:400]})
                break


def oracle_one(ctx, src, r):
    """replay: re-render the stored input under a few random layouts and compare"""
    (toks, err), = L.tokenize_many([src])
    if err is not None and err[0] != "lex":
        return True, ""
    lay = L.Layout(src, toks, err)
    base_kinds = L.kinds_of(core.batch("impl", "tok", [src])[0])
    for v in make_variants(ctx.rng, 0, lay, 10, 50):
        rv = core.run_cli(v.src)
        level, why = judge(lay, base_kinds, r, v, L.kinds_of(core.batch("impl", "tok", [v.src])[0]),
                           None if v.kind == "split" else rv)
        if level in ("tok", "run"):
            return False, f"{v.kind}:{v.tag}: {why}\n--- rewritten ---\n{v.src}"
    return True, ""
