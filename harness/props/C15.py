"""C15 — strings: exact escapes, interpolation equals concatenation, Unicode-safe."""
import itertools
import streams
import re

import core
import lib_syntax as L
import tie

RULE = ("Python decodes each literal (escapes \\\\ \\\" \\$ \\n \\r \\xHH) and concatenates pieces and slot values — the oracle — and "
        "predicts stdout of a script exercising print, ->len() (UTF-8 bytes), +, ==, indexing, range-indexing and `for` over "
        "bytes; streams: every string of <= 2 (quick) / <= 4 (thorough) items over {a, é, €, 😀, \\\\, \\\", \\$, \\n, \\x41, {, }, space} "
        "(exhaustive); every arrangement of 0..3 slots among pieces of that alphabet (k <= 2 exhaustive over single-item "
        "pieces, k = 3 sampled in quick / exhaustive in thorough), slot expressions with nested braces / brackets / calls / "
        "string literals / nested interpolation; non-string slot values; slots inside functions (scope); slots with side effects "
        "(identical slot texts, literals evaluated repeatedly: each slot once, left to right, each time); malformed literals: "
        "each invalid escape / hex digit / lone `$` / bad interpolation start inserted at each position after multi-byte and "
        "multi-line text, expected line:col computed from the text.  Non-trivial = distinct (stream, multiset of alphabet "
        "classes / slot-expression kinds, outcome)")
ASSUMPTIONS = [
    "slot texts are brace-balanced and contain `{` `}` only in balanced pairs (the statement's side condition)",
    "single bytes of multi-byte characters are never printed or measured (printing / ->len() need valid UTF-8); they are "
    "compared with == and re-joined instead",
    "`\\xHH` is exercised with HH < 0x80 (the statement speaks of ASCII)",
]

ALPHABET = ["a", "é", "€", "😀", "\\\\", "\\\"", "\\$", "\\n", "\\x41", "{", "}", " "]
CLASS = {"a": "ascii", "é": "2byte", "€": "3byte", "😀": "4byte", "\\\\": "esc", "\\\"": "esc", "\\$": "esc", "\\n": "esc",
         "\\x41": "hex", "{": "brace", "}": "brace", " ": "ascii"}
SIMPLE = {"\\": "\\", '"': '"', "$": "$", "n": "\n", "r": "\r"}


def decode(body):
    """reference decoder of a literal's body (no slots): the characters the literal denotes"""
    out = []
    i = 0
    while i < len(body):
        c = body[i]
        if c != "\\":
            out.append(c)
            i += 1
            continue
        e = body[i + 1]
        if e == "x":
            out.append(chr(int(body[i + 2:i + 4], 16)))
            i += 4
        else:
            out.append(SIMPLE[e])
            i += 2
    return "".join(out)


def alt_spelling(body):
    """the same characters written differently: ASCII letters as \\xHH, \\x41 as A"""
    out = []
    i = 0
    while i < len(body):
        c = body[i]
        if c == "\\":
            k = 4 if body[i + 1] == "x" else 2
            out.append("A" if body[i:i + k] == "\\x41" else body[i:i + k])
            i += k
        else:
            out.append("\\x%02x" % ord(c) if c in "a {}" else c)
            i += 1
    return "".join(out)


# ------------------------------------------------------------------------------------------ plain literals
def plain_script(body):
    d = decode(body)
    b = d.encode("utf-8")
    n = len(b)
    src = [f's := "{body}"', "print(s)", "print(s->len())",
           "n := 0", 'acc := ""', "for [i, ch] in s {", "    if i != n { print(\"bad index\"); }", "    n += 1", "    acc = acc + ch", "}",
           "print(n)", "print(acc == s)", "print(acc)",
           't := ""', "j := 0", "while j < s->len() {", "    t = t + s[j]", "    j += 1", "}", "print(t == s)", "print(t)",
           "print(s[0:s->len()] == s)", "print(s[:] == s)", "print(s + s)", 'print((s + "é" + s)->len())',
           f'print(s == "{alt_spelling(body)}")', 'print(s == (s + "a"))', f'print("{body}" != "{body}")']
    out = [d, str(n), str(n), "true", d, "true", d, "true", "true", d + d, str(2 * n + 2), "true", "false", "false"]
    # character boundaries: slices are printable; inside a character: compared only
    bounds = {0}
    k = 0
    for ch in d:
        k += len(ch.encode("utf-8"))
        bounds.add(k)
    for k in range(0, n + 1):
        if k in bounds:
            src.append(f'print(s[:{k}] + "|" + s[{k}:])')
            out.append(b[:k].decode() + "|" + b[k:].decode())
        else:
            src.append(f"print((s[0:{k}] + s[{k}:{n}]) == s)")
            out.append("true")
    for k in range(n):
        if b[k] < 0x80:
            src.append(f"print(s[{k}])")
            out.append(chr(b[k]))
        else:
            src.append(f"print(s[{k}] == s[{k}:{k + 1}])")
            out.append("true")
    if d != "a":
        src.append('print(s == "a")')
        out.append("false")
    return "\n".join(src) + "\n", "".join(o + "\n" for o in out)


def plain_fail_script(body):
    n = len(decode(body).encode("utf-8"))
    return f's := "{body}"\nprint("before")\nprint(s[{n}])\nprint("after")\n', "before\n"


# ------------------------------------------------------------------------------------------ interpolation
PRELUDE = ('x := "v"\ny := "é€"\nxs := ["l0", "l1"]\no := {"k": "ok", "n": {"m": "deep"}}\n'
           'fn f(a) { r := a + "!"; return r; }\nfn g(a, b) { r := b + a; return r; }\n')
SLOTS = [
    ("var", "x", "v"), ("var", "y", "é€"), ("index", "xs[0]", "l0"), ("index", "xs[1] + x", "l1v"), ("prop", "o.k", "ok"),
    ("prop", "o.n.m", "deep"), ("index", 'o["k"]', "ok"), ("call", 'f("a")', "a!"), ("call", "g(x, f(y))", "é€!v"),
    ("braces", '{"k": "z"}.k', "z"), ("braces", '{"a": {"b": "nest"}}.a.b', "nest"), ("strlit", '"lit"', "lit"),
    ("strlit-braces", '"{}"', "{}"), ("strlit", '"é😀"', "é😀"), ("nested-interp", '$"<${x}>"', "<v>"),
    ("nested-interp", 'f($"${y}${f("q")}")', "é€q!!"), ("brackets", "[x, y][1]", "é€"), ("call", "x->type()", "string"),
    ("strlit-escape", '"a\\"b\\x41"', 'a"bA'), ("spaces", " x ", "v"), ("braces", '{"k": {"k": "kk"}}.k.k', "kk"), ("range", '"hello"[1:3]', "el"), ("concat", 'x + "-" + y', "v-é€"),
    # a slot is an expression of the whole language: function literals with bodies of several statements, called on the spot
    ("fn-body", '(fn(n) { r := x + n; return r; })("q")', "vq"), ("fn-body", 'fn() { a := "1"; b := "2"; return a + b; }()', "12"),
    ("fn-body-lines", '(fn(n) {\n    r := y + n\n    return r\n})("z")', "é€z"),
    ("fn-body-if", '(fn(n) { if n == "q" { return "yes"; }; return "no"; })("q")', "yes"),
    ("fn-body-loop", '(fn() { s := ""; for [i, c] in "ab" { s += c; }; return s; })()', "ab"),
]
NONSTR = [("int", "1"), ("list", "xs"), ("null", "null"), ("object", "o"), ("bool", "x == x"), ("func", "f")]


def interp_script(pieces, slots):
    """pieces: k+1 literal bodies; slots: k entries of SLOTS"""
    lit = pieces[0]
    val = decode(pieces[0])
    concat = [f'"{pieces[0]}"']
    for p, (_, e, v) in zip(pieces[1:], slots):
        lit += "${" + e + "}" + p
        val += v + decode(p)
        concat += [f"({e})", f'"{p}"']
    n = len(val.encode("utf-8"))
    src = PRELUDE + f'print($"{lit}")\nprint($"{lit}"->len())\nprint($"{lit}" == ({" + ".join(concat)}))\nz := $"{lit}"\nprint(z + z)\n'
    return src, f"{val}\n{n}\ntrue\n{val}{val}\n"


def scope_scripts():
    return [
        ('x := "g"\nfn f(x) { y := "l"; r := $"é${x}€${y}"; return r; }\nprint(f("p"))\nprint($"${x}")\n', "ép€l\ng\n"),
        ('x := "g"\nif true { x := "inner"; print($"😀${x}"); }\nprint($"${x}")\n', "😀inner\ng\n"),
        ('fn mk(p) {\n fn h() { return $"<${p}>"; }\n return h;\n}\na := mk("é")\nb := mk("€")\nprint(a() + b())\n', "<é><€>\n"),
        ('for [i, c] in "ab" { print($"${c}é${c}"); }\n', "aéa\nbéb\n"),
        ('x := "1"\nx = $"${x}${x}"\nx = $"${x}é${x}"\nprint(x)\nprint(x->len())\n', "11é11\n6\n"),
    ]


def effect_scripts():
    """slots are evaluated once each, left to right, every time the literal is evaluated — also when two slots have the same
    text, and when the literal is evaluated again (loop, second call)"""
    pre = ('n := 0\nlog := []\nfn next() { n += 1; log += [n]; return "s" + ["a", "b", "c", "d", "e", "f", "g", "h", "i", "j"][n - 1]; }\n'
           'fn tag(t) { log += [t]; return t; }\n')
    out = []
    out.append((pre + 'print($"${next()}-${next()}-${next()}")\nprint(n)\n', "sa-sb-sc\n3\n"))
    out.append((pre + 'print($"${next()}${next()}")\nprint($"${next()}${next()}")\nprint(n)\n', "sasb\nscsd\n4\n"))
    out.append((pre + 'for [i, v] in [1, 2, 3] {\n    print($"é${next()}€${next()}")\n}\nprint(n)\n', "ésa€sb\nésc€sd\nése€sf\n6\n"))
    out.append((pre + 'fn lit() { r := $"<${next()}|${next()}>"; return r; }\nprint(lit())\nprint(lit())\nprint(n)\n', "<sa|sb>\n<sc|sd>\n4\n"))
    out.append((pre + 'print($"${tag("x")}${tag("y")}${tag("x")}${tag("z")}")\nprint(log)\n', "xyxz\n[\n    x,\n    y,\n    x,\n    z,\n]\n"))
    out.append((pre + 'print($"${next()}${$"${next()}${next()}"}${next()}")\nprint(n)\n', "sasbscsd\n4\n"))
    out.append((pre + 's := $"${next()} ${next()}" + $"${next()} ${next()}"\nprint(s)\n', "sa sbsc sd\n"))
    out.append((pre + 'print($"${next()}${1}")\n', ""))       # a failing slot: the earlier slot has run, nothing is printed
    out.append((pre + 'xs := [$"${next()}", $"${next()}", $"${next()}"]\nprint(xs == ["sa", "sb", "sc"])\n', "true\n"))
    # `+=` concatenates in operand order on every kind of target
    out.append(('o := {"g": "Hello, "}\no.g += "wörld"\nprint(o.g)\nprint(o.g == ("Hello, " + "wörld"))\nxs := ["é"]\nxs[0] += "€"\nprint(xs[0])\n'
                'o["g"] += $"${xs[0]}!"\nprint(o["g"])\ns := "a"\ns += "b"\nprint(s)\n', "Hello, wörld\ntrue\né€\nHello, wörldé€!\nab\n"))
    # nested literals sit at the same offset inside their slots (a slot is lexed on its own, from 1:1): each is its own
    out.append(('g := "héllo"\nn := "wörld"\nprint($"${ $"${g}" }, ${ $"${n}" }!")\n', "héllo, wörld!\n"))
    out.append(('fn tag(t) { r := "<" + t + ">"; return r; }\nx := "x"\ny := "y"\nprint($"1: ${ tag($"${x}") }")\nprint($"2: ${ tag($"${y}") }")\n'
                'print($"3: ${ tag($"${x}") } ${ tag($"${y}") }")\n', "1: <x>\n2: <y>\n3: <x> <y>\n"))
    out.append(('xs := ["a", "b", "c"]\nfor [i, v] in xs {\n    print($"${v}${ $"${v}${ $"${v}" }" }")\n}\n', "aaa\nbbb\nccc\n"))
    out.append(('name := "world"\nprint($"\\x41: hello ${name}")\nprint($"\\x41\\x42 ${name} \\x43 ${name}\\x44")\n', "A: hello world\nAB world C worldD\n"))
    return out


# ------------------------------------------------------------------------------------------ malformed literals
BAD_PLAIN = [("escape", "\\q", 1), ("escape", "\\a", 1), ("escape", "\\é", 1), ("escape", "\\ ", 1), ("escape", "\\0", 1),
             ("escape", "\\N", 1), ("hex", "\\xg1", 2), ("hex", "\\x4g", 3), ("hex", "\\xé0", 2), ("hex", "\\x4😀", 3),
             ("hex", "\\x-1", 2), ("dollar", "$", 0), ("dollar", "${x}", 0), ("dollar", "$a", 0)]
BAD_INTERP = [("escape", "\\q", 1), ("escape", "\\é", 1), ("hex", "\\xg1", 2), ("hex", "\\x4g", 3),
              ("interp-start", "$a", 1), ("interp-start", "$ ", 1), ("interp-start", "$é", 1), ("interp-start", "$$", 1),
              ("interp-start", "$\\", 1)]
LEADS = ["", "\n", "# é€😀\n", 'w := "é" ;\t', "\t \n\n  ", 'w := "multi\nline é"\n']


def malformed_cases(rng, bodies, per_body):
    out = []
    for body_items in bodies:
        for _ in range(per_body):
            pos = rng.randrange(0, len(body_items) + 1)
            interp = rng.random() < 0.4
            kind, bad, off = rng.choice(BAD_INTERP if interp else BAD_PLAIN)
            if interp:
                before = "".join(body_items[:pos])
            else:
                before = "".join(body_items[:pos])
            lead = rng.choice(LEADS)
            if rng.random() < 0.3:
                before = before + "\n" + rng.choice(["", "é", "  "])     # the literal continues on a new line
            head = lead + 'print("ran")\ns := ' + ('$"' if interp else '"')
            text = head + before + bad + "".join(body_items[pos:]) + '"\nprint(s)\n'
            o = len(head) + len(before) + off
            out.append((kind + ("/interp" if interp else "/plain"), text, L.pos_of(text, o), text[o]))
    return out


DIAG = re.compile(r"\At\.sd:(\d+):(\d+): (.*)\n\Z", re.S)


def sig(items):
    return tuple(sorted({CLASS[i] for i in items}))


def run(ctx, model_ok):
    rng = ctx.rng
    thorough = ctx.tier == "thorough"
    maxlen = 3 if thorough else 2          # exhaustive; thorough adds every string of 4 items below
    checks = []     # (stream, nontrivial key, src, expected stdout, expected status)
    for n in range(0, maxlen + 1):
        for items in itertools.product(ALPHABET, repeat=n):
            body = "".join(items)
            s, o = plain_script(body)
            checks.append(("plain", ("plain", sig(items), n), s, o, "0"))
            s, o = plain_fail_script(body)
            checks.append(("plain-out-of-range", ("oob", sig(items)), s, o, "103"))
    if thorough:
        for items in itertools.product(ALPHABET, repeat=4):
            s, o = plain_script("".join(items))
            checks.append(("plain4", ("plain", sig(items), 4), s, o, "0"))
    for body in ["a\\rb", "\\r\\n", "\\x00\\x7f", "\\x0a|\\x0A", "col1\\x09col2|", "one\\x0atwo", "\\x01\\x0f\\x10\\x1f", "\\x0d\\x0a", "\\x7f\\x00x", "tab\there", "line\nbreak é\n€", "#not a comment", "; x", "\\x5c\\x22\\x24"]:
        s, o = plain_script(body)
        checks.append(("plain-extra", ("plain-extra", body), s, o, "0"))
    ctx.cov["exhaustive"] = True
    # interpolation: k slots among k+1 single-item pieces (empty piece included)
    pieces1 = [""] + ALPHABET
    pieces2 = ["".join(p) for p in itertools.product(ALPHABET, repeat=2)]
    for k in (0, 1, 2, 3):
        combos = itertools.product(pieces1, repeat=k + 1)
        if k == 3 and not thorough:
            combos = [tuple(rng.choice(pieces1) for _ in range(4)) for _ in range(6000)]
        for ps in combos:
            sl = [rng.choice(SLOTS) for _ in range(k)]
            s, o = interp_script(ps, sl)
            checks.append((f"interp{k}", (f"interp{k}", sig([p for p in ps if p]), tuple(sorted({x[0] for x in sl}))), s, o, "0"))
    for _ in range(60000 if thorough else 1500):
        k = rng.randrange(1, 4)
        ps = tuple(rng.choice(pieces1 + pieces2) for _ in range(k + 1))
        sl = [rng.choice(SLOTS) for _ in range(k)]
        s, o = interp_script(ps, sl)
        checks.append(("interp-long", ("interp-long", k, tuple(sorted({x[0] for x in sl}))), s, o, "0"))
    # text that LOOKS like a slot is text: an escaped `\${x}` before or after the real `${x}`, a slot value that itself
    # contains `${…}`; interpolation is concatenation by position, never a textual substitution
    fam = ["\\${x}", "${x}", "${y}", "\\${y}", "{x}", "a", "${x}${y}"]
    famdec = {"\\${x}": "${x}", "${x}": "1", "${y}": "${x}", "\\${y}": "${y}", "{x}": "{x}", "a": "a", "${x}${y}": "1${x}"}
    for k in (1, 2, 3):
        for ps in itertools.product(fam, repeat=k):
            lit = "".join(ps)
            if "${" not in lit.replace("\\${", ""):
                continue
            val = "".join(famdec[q] for q in ps)
            src = ('x := "1"\ny := "\\${x}"\n' + f'print($"{lit}")\nprint($"{lit}"->len())\nz := $"{lit}"\nprint(z + "|" + z)\n')
            checks.append(("interp-lookalike", ("lookalike", k, ps[:2]), src, f"{val}\n{len(val)}\n{val}|{val}\n", "0"))
    # … and two such literals in one run, in both orders, in a loop, through functions: equal decoded text, different slots
    for src, want in streams.lookalike_pair_scripts(rng, 3000 if thorough else 500):
        checks.append(("interp-lookalike-pairs", ("lookalike-pairs", src.count("${"), src.count("\\${")), src, want, "0"))
    # every slot expression alone and between multi-byte text
    for sl in SLOTS:
        for ps in [("", ""), ("é", "😀"), ("\\$", "\\\\"), ("{", "}")]:
            s, o = interp_script(ps, [sl])
            checks.append(("interp-slot-kinds", ("slot", sl[1], ps), s, o, "0"))
    # non-string slot values: a reported error, after the output so far
    for kind, e in NONSTR:
        for ps in [("", ""), ("é", "€"), ("a\\n", "")]:
            src = PRELUDE + f'print("before")\nprint($"{ps[0]}${{{e}}}{ps[1]}")\nprint("after")\n'
            checks.append(("interp-nonstring", ("nonstr", kind, ps), src, "before\n", "103"))
    for s, o in scope_scripts():
        checks.append(("interp-scope", ("scope", s[:20]), s, o, "0"))
    # `->len()` of a byte-wise slice: the byte count when the slice is text, a reported error when it cuts a character
    for t in ["é", "aé", "héllo", "€x", "😀", "a€é"]:
        bs = t.encode("utf-8")
        for i in range(len(bs)):
            for j in range(i + 1, len(bs) + 1):
                try:
                    bs[i:j].decode("utf-8")
                    valid = True
                except UnicodeDecodeError:
                    valid = False
                src = f'print("before")\ns := "{t}"\nprint(s[{i}:{j}]->len())\nprint($"<${{s[{i}:{j}]}}>" == ("<" + s[{i}:{j}] + ">"))\n'
                want = f"before\n{j - i}\ntrue\n" if valid else "before\n"
                checks.append(("slice-len", ("slice-len", t, valid, j - i), src, want, "0" if valid else "103"))
    for i, (s, o) in enumerate(effect_scripts()):
        checks.append(("interp-effects", ("effects", i), s, o, "103" if "${1}" in s else "0"))
    # raw line breaks and control characters inside literals, run through the command line itself (the file is read by the
    # driver, not by the batch hook): every character of the literal is kept as it is
    raw_cases = []
    for body in ["a\r\nb", "\r\n", "x\ry", "tab\there", "l1\nl2\r\nl3", "é\r\n€", "\r", "a\x0bb", "end\r\n"]:
        val = body
        n = len(val.encode("utf-8"))
        src = (f's := "{body}"\nprint(s->len())\nfor [i, c] in s {{\n    if c == "\\r" {{\n        print("CR at " + $"${{i->type()}}")\n    }}\n}}\n'
               f'print(s == "{body.replace(chr(13), chr(92) + "r").replace(chr(10), chr(92) + "n")}")\nx := "v"\nprint($"<{body}${{x}}>"->len())\n')
        want = f"{n}\n" + "CR at int\n" * val.count("\r") + "true\n" + f"{n + 3}\n"
        raw_cases.append((src, want))
    for (src, want), r in zip(raw_cases, core.cli_batch([c[0] for c in raw_cases])):
        ctx.nontrivial(("raw-control", src[:20]))
        ctx.count("raw-control:cli", 1)
        if (r["stdout"], r["status"]) != (want, "0"):
            ctx.violation("C15 (raw control characters in a literal): the literal does not denote its characters one for one",
                          f"# C15 expect status 0 stdout {want.encode('utf-8').hex()}\n" + src, {"cli": r, "expected_stdout": want})
            break
    srcs = [c[2] for c in checks]
    impl, dis = tie.run(ctx, srcs, "strings", model_ok, project=tie.proj_full)
    bad = []
    for (stream, key, src, want_out, want_status), r in zip(checks, impl):
        ctx.dist(f"{stream}:{'ok' if r['status'] == '0' else 'diag' if r['status'] == '103' else r['status']}")
        ctx.nontrivial(key)
        if r["stdout"] != want_out or r["status"] != want_status:
            bad.append((stream, src, want_out, want_status, r))
    # malformed literals
    bodies = [items for n in range(0, 3) for items in itertools.product(ALPHABET, repeat=n)]
    mal = malformed_cases(rng, bodies, 60 if thorough else 15)
    # every character that is not a hexadecimal digit, in either position of `\xHH`, in plain and interpolated literals
    # … among them characters beyond ASCII whose code point ends in the byte of a hexadecimal digit (ı = U+0131 ends in '1',
    # а = U+0430 in '0', 𝟙-like code points …), digits of other scripts and full-width forms: none of them is a digit of `\xHH`
    lookalikes = [chr(k * 256 + d) for k in (1, 2, 4, 0x1E, 0x30, 0xFF, 0x1F6, 0x2F0) for d in b"0123456789abcdefABCDEF"
                  if not 0xD800 <= k * 256 + d <= 0xDFFF and chr(k * 256 + d).isprintable()]
    lookalikes += ["\uFF11", "\uFF21", "\uFF46", "\u0661", "\u0967", "\u00B2", "\u2460", "\U0001D7D9"]
    for hc in [chr(i) for i in range(32, 127)] + ["\n", "\t", "é"] + (lookalikes if thorough else lookalikes[::3] + lookalikes[-8:]):
        if hc in "0123456789abcdefABCDEF\"":
            continue
        for in_interp in (False, True):
            for esc, off in (("\\x" + hc + "9", 2), ("\\x9" + hc, 3)):
                head = 'print("ran")\ns := ' + ('$"' if in_interp else '"') + "é "
                text = head + esc + ' z"\nprint(s)\n'
                o = len(head) + off
                mal.append(("hexdigit" + ("/interp" if in_interp else "/plain"), text, L.pos_of(text, o), text[o]))
    msrcs = [m[1] for m in mal]
    mimpl, mdis = tie.run(ctx, msrcs, "malformed", model_ok, project=tie.proj_full)
    mbad = []
    for (kind, text, (l, c), ch), r in zip(mal, mimpl):
        ctx.dist("malformed:" + kind)
        ctx.nontrivial(("malformed", kind, l > 1, ch))
        m = DIAG.match(r["stderr"])
        if r["status"] != "103" or r["stdout"] != "" or not m:
            mbad.append((kind, text, (l, c), r, "not a single located diagnostic with nothing run"))
        elif (int(m.group(1)), int(m.group(2))) != (l, c):
            mbad.append((kind, text, (l, c), r, f"reported {m.group(1)}:{m.group(2)}, the offending character {ch!r} is at {l}:{c}"))
    # ---- confirm through the CLI and report (a few per stream)
    seen = {}
    for stream, src, want_out, want_status, r in sorted(bad, key=lambda b: len(b[1])):
        if seen.get(stream, 0) >= 2 or len(seen) >= 8:
            continue
        c = core.run_cli(src)
        ctx.cov["cli_reconfirmed"] += 1
        if c["stdout"] == want_out and c["status"] == want_status:
            continue
        seen[stream] = seen.get(stream, 0) + 1
        ctx.violation(f"C15 ({stream}): output differs from the decoded / concatenated reference",
                      f"# C15 expect status {want_status} stdout {want_out.encode('utf-8').hex()}\n" + src,
                      {"cli": c, "expected_stdout": want_out, "expected_status": want_status, "failing_in_stream": sum(1 for b in bad if b[0] == stream)})
    for kind, text, (l, c), r, why in sorted(mbad, key=lambda b: len(b[1])):
        if seen.get(kind, 0) >= 2 or len(seen) >= 12:
            continue
        cr = core.run_cli(text)
        ctx.cov["cli_reconfirmed"] += 1
        m = DIAG.match(cr["stderr"])
        if cr["status"] == "103" and cr["stdout"] == "" and m and (int(m.group(1)), int(m.group(2))) == (l, c):
            continue
        # K7: a line break as the offending character is reported at (following line, column 0)
        k7 = bool(c - 1 == len(text.split("\n")[l - 1]) and cr["status"] == "103" and cr["stdout"] == "" and m and
                  (int(m.group(1)), int(m.group(2))) == (l + 1, 0))
        if not k7:
            seen[kind] = seen.get(kind, 0) + 1
        ctx.violation(f"C15 (malformed literal, {kind}): {why}", f"# C15 expect error at {l}:{c}\n" + text,
                      {"cli": cr, "expected_position": f"{l}:{c}", "line_break_offender_reported_at_next_line_column_0": k7})
    okset = {b[1] for b in bad} | {b[1] for b in mbad}
    tie.report_disagreements(ctx, [d for d in dis + mdis if d[0] not in okset], "strings")
    for stream in ("plain", "interp2", "interp-long", "interp-nonstring"):
        for c, r in zip(checks, impl):
            if c[0] == stream and len(c[2]) > 60:
                ctx.sample({"stream": stream, "src": c[2][-260:], "expected_stdout": c[3][:120], "impl": r})
                break
    if mal:
        ctx.sample({"stream": "malformed", "src": mal[len(mal) // 2][1], "expected_position": mal[len(mal) // 2][2],
                    "impl": mimpl[len(mal) // 2]})


EXPECT_OUT = re.compile(r"\A# C15 expect status (\d+) stdout ([0-9a-f]*)\n")
EXPECT_POS = re.compile(r"\A# C15 expect error at (\d+):(\d+)\n")


def oracle_one(ctx, src, r):
    m = EXPECT_OUT.match(src)
    if m:
        body = src[m.end():]
        c = core.run_cli(body)
        want = bytes.fromhex(m.group(2)).decode("utf-8")
        if c["status"] != m.group(1) or c["stdout"] != want:
            return False, f"expected status {m.group(1)} and stdout {want!r}; got {c['status']} {c['stdout']!r} {c['stderr']!r}"
        return True, ""
    m = EXPECT_POS.match(src)
    if m:
        body = src[m.end():]
        c = core.run_cli(body)
        d = DIAG.match(c["stderr"])
        if c["status"] != "103" or not d or (d.group(1), d.group(2)) != (m.group(1), m.group(2)):
            return False, f"expected a diagnostic at {m.group(1)}:{m.group(2)}; got {c}"
    return True, ""
