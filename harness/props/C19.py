"""C19 — runs are deterministic and printing is a canonical function of the value."""
import itertools
import os
import subprocess
import tempfile
from pathlib import Path
import core
import progs
import tie

RULE = ("(i) nested values to depth 3 (quick) / 4 (thorough) over {null, bool, int, string (also with newline), list, object}, each "
        "built along three construction histories (literal, incremental insertion in shuffled order, via spread/concat): all must "
        "print identically and equal a direct depth-passing Python pretty-printer; (ii) generated programs (failing ones included) "
        "each run 4 (quick) / 8 (thorough) times through the plain CLI under varied cwd, LANG/LC_ALL, extra environment variables, "
        "path spelling (relative, ./, absolute), stdin closed, stdout to pipe or file: byte-identical stdout/stderr/status modulo "
        "the echoed path; non-trivial = distinct (value shape) / distinct program with distinct outcome")
ASSUMPTIONS = ["independence from the environment is a property of the binary, not of the model: the model's `run` has no input but "
               "path and source text by construction; the extracted tables `hashIterSites` and `envUses` pin the only hash-ordered "
               "iteration (collected into a BTreeMap) and the only environment / file-system uses"]


# ------------------------------------------------------------------ (i) canonical printing
def py_print(v, depth=0):
    """direct, depth-passing specification printer"""
    ind = "    " * (depth + 1)
    if v is None:
        return "<null>"
    if v is True:
        return "true"
    if v is False:
        return "false"
    if isinstance(v, int):
        return str(v)
    if isinstance(v, str):
        return v.replace("\n", "\n" + "    " * depth)
    if isinstance(v, list):
        return "[\n" + "".join(ind + py_print(x, depth + 1) + ",\n" for x in v) + "    " * depth + "]"
    keys = sorted(v.keys(), key=lambda k: k.encode("utf-8"))
    return "{\n" + "".join(ind + '"' + k.replace("\n", "\n" + "    " * depth) + '": ' + py_print(v[k], depth + 1) + ",\n" for k in keys) + "    " * depth + "}"


def lit(v):
    if v is None:
        return "null"
    if v is True:
        return "true"
    if v is False:
        return "false"
    if isinstance(v, int):
        return str(v) if v >= 0 else f"(0 - {-v})"
    if isinstance(v, str):
        return '"' + v.replace("\\", "\\\\").replace('"', '\\"').replace("\n", "\\n").replace("\r", "\\r").replace("$", "\\$") + '"'
    if isinstance(v, list):
        return "[" + ", ".join(lit(x) for x in v) + "]"
    return "{" + ", ".join(lit(k) + ": " + lit(x) for k, x in v.items()) + "}"


class Builder:
    """emit statements that build `v` incrementally, in a shuffled order where order is free"""
    def __init__(self, rng):
        self.rng = rng
        self.n = 0
        self.lines = []

    def fresh(self):
        self.n += 1
        return f"t{self.n}"

    def build(self, v, style):
        if not isinstance(v, (list, dict)):
            return lit(v)
        name = self.fresh()
        if isinstance(v, list):
            parts = [self.build(x, style) for x in v]
            if style == "incremental":
                self.lines.append(f"{name} := []")
                for p in parts:
                    self.lines.append(f"{name} += [{p}]")
            else:   # spread / concat
                k = len(parts) // 2
                a, b = self.fresh(), self.fresh()
                self.lines.append(f"{a} := [{', '.join(parts[:k])}]")
                self.lines.append(f"{b} := [{', '.join(parts[k:])}]")
                self.lines.append(f"{name} := [{a}.., {b}..]" if self.rng.random() < 0.5 else f"{name} := {a} + {b}")
            return name
        items = list(v.items())
        self.rng.shuffle(items)
        if style == "incremental":
            self.lines.append(f"{name} := {{}}")
            for k, x in items:
                p = self.build(x, style)
                self.lines.append(f"{name}[{lit(k)}] = {p}")
        else:
            k = len(items) // 2
            a = self.fresh()
            first = [(kk, self.build(x, style)) for kk, x in items[:k]]
            rest = [(kk, self.build(x, style)) for kk, x in items[k:]]
            self.lines.append(f"{a} := {{" + ", ".join(f"{lit(kk)}: {p}" for kk, p in first) + "}")
            self.lines.append(f"{name} := {{{a}.., " + ", ".join(f"{lit(kk)}: {p}" for kk, p in rest) + "}" if rest else f"{name} := {{{a}..}}")
        return name


def values(depth, rng, limit):
    atoms = [None, True, 0, -7, "", "a", "two\nlines", "é", "end\n", "a\r\nb", "\n", "x\n\ny"]
    out = list(atoms)
    prev = list(atoms)
    for d in range(depth):
        level = []
        pool = prev if len(prev) <= 12 else rng.sample(prev, 12)
        for n in (0, 1, 2):
            for combo in itertools.product(pool, repeat=n):
                level.append(list(combo))
                ks = ["b", "a", "B", "k k", "é", ""][:n]
                level.append(dict(zip(ks, combo)))
        if len(level) > limit:
            level = rng.sample(level, limit)
        out += level
        prev = level
    return out


def variants_of(v, rng):
    """values that differ from `v` in one place (or only in insertion order)"""
    import copy
    out = []
    if isinstance(v, dict) and v:
        k = rng.choice(sorted(v))
        w = {("zz" + k if kk == k else kk): copy.deepcopy(x) for kk, x in v.items()}
        out.append(w)
        w = copy.deepcopy(v)
        del w[k]
        out.append(w)
        out.append({kk: copy.deepcopy(v[kk]) for kk in reversed(list(v))})
        for kk in v:
            for sub in variants_of(v[kk], rng)[:2]:
                w = copy.deepcopy(v)
                w[kk] = sub
                out.append(w)
    elif isinstance(v, list) and v:
        out.append(copy.deepcopy(v[:-1]))
        out.append(copy.deepcopy(v))
        i = rng.randrange(len(v))
        for sub in variants_of(v[i], rng)[:2]:
            w = copy.deepcopy(v)
            w[i] = sub
            out.append(w)
    elif isinstance(v, bool):
        out.append(not v)
    elif isinstance(v, int):
        out.append(v + 1)
    elif isinstance(v, str):
        out.append(v + "x")
    # only same-kind comparisons (a kind mismatch is an error, judged elsewhere)
    return [w for w in out if type(w) is type(v)]


def value_scripts(ctx):
    rng = ctx.rng
    vs = values(4 if ctx.tier == "thorough" else 3, rng, 6000 if ctx.tier == "thorough" else 500)
    cases = []
    for v in vs:
        b1, b2 = Builder(rng), Builder(rng)
        n1 = b1.build(v, "incremental")
        n2 = b2.build(v, "spread")
        # rename the second builder's temporaries so the two histories can live in one script
        l2 = [ln.replace("t", "u") if False else ln for ln in b2.lines]
        src = f"print({lit(v)})\n" + "\n".join(b1.lines) + f"\nprint({n1})\n" + "{\n" + "\n".join("    " + l for l in l2) + f"\n    print({n2})\n}}\n"
        exp = py_print(v) + "\n"
        cases.append((v, src, exp * 3))
    return cases


def shared_scripts(ctx):
    """the same container reached twice (or more) by reference within one print: a DAG prints like the tree it unfolds to"""
    cases = []
    subs = [[1, 2], {"k": 1}, {"k": [1], "j": "two\nlines"}, [], {}, [[7]], {"a": {"b": {}}}]
    for sub in subs:
        for shape in ("[s, s]", "{\"a\": s, \"b\": s}", "[[s], s, {\"z\": s}]", "{\"a\": [s, s], \"b\": {\"c\": s}}", "[s, [s, [s]]]"):
            def build(x):
                return eval(shape.replace("s", "x"), {"x": x})        # Python structure with the same sharing
            v = build(sub)
            src = f"s := {lit(sub)}\nt := {shape}\nprint(t)\nprint(t)\nu := {shape.replace('s', lit(sub))}\nprint(u)\nprint(t == u)\n"
            cases.append((v, src, (py_print(v) + "\n") * 3 + "true\n"))
    return cases


ERROR_ORDER_SCRIPTS = [
    # nesting that the host stack carries with a wide margin: the outcome must not depend on runtime knobs of the environment
    "fn d(n) {\n    if n == 0 {\n        return 0\n    }\n    return 1 + d(n - 1)\n}\nprint(\"start\")\nprint(d(60))\n",
    "fn nest(n) {\n    r := []\n    i := 0\n    while i < n {\n        r = [r]\n        i += 1\n    }\n    return r\n}\nprint(nest(300) == nest(300))\n",
    # several candidates for "the" error: which one is reported (and where) must not depend on the run
    "fn area(width, height, width, height) {\n    return 1\n}\n",
    "fn f(a, b, c, a, b, c) {\n    return 1\n}\n",
    "fn g([p, q], {p, q}, p, q) {\n    return 1\n}\n",
    "[a, b, a, b] := [1, 2, 3, 4]\n",
    "{x, y, z} := {}\n",
    "{\"k1\": m, \"k2\": m, \"k3\": n, \"k4\": n} := {\"k1\": 1, \"k2\": 2, \"k3\": 3, \"k4\": 4}\n",
    "o := {\"b\": 1, \"a\": 2, \"c\": 3}\n{..rest} := o\nprint(rest)\n{b, ..others} := o\nprint(others)\n",
    "print({\"z\": 1, \"y\": zz1, \"x\": zz2})\n",
    "fn h(a, b) {\n    return a\n}\nprint(h(u1, u2))\n",
    "o := {}\nfor [i, k] in [\"q\", \"w\", \"e\", \"r\", \"t\", \"y\"] {\n    o[k] = i\n}\nprint(o)\nfor [k, v] in o {\n    print(k)\n}\n",
]


FUNC_DIAG_SCRIPTS = [
    "print(print == 1)\n", "print(print + 1)\n", "print([print] == [1])\n", "f := fn() { return 1; }\nprint(f == f)\n", "print(print === print)\n",
    "print({\"k\": print} == {\"k\": \"s\"})\n", "print(print->type())\nprint(print.x)\n", "print(print[0])\n", "[a, b] := print\n", "for [k, v] in print {\n}\n",
    "print($\"${print}\")\n", "print(print)\n", "f := fn(a) { return a; }\nprint(f)\nprint([f, print])\n", "print(print < print)\n", "x := print\nx += 1\n",
    "o := {\"len\": \"abc\"->len}\nprint(o.len())\n", "o := {\"t\": 7->type}\nprint(o.t(1))\n",
]


# ------------------------------------------------------------------ (ii) determinism under a varied environment
def run_variant(src, k, base):
    d = Path(tempfile.mkdtemp(prefix="det", dir=str(core.BUILD)))
    try:
        (d / "sub").mkdir()
        script = d / "sub" / "prog.sd"
        script.write_text(src)
        env = dict(os.environ)
        cwd, arg = d, "sub/prog.sd"
        stdin = subprocess.DEVNULL
        to_file = False
        if k == 1:
            env.update({"LANG": "C", "LC_ALL": "C", "SEED_DEBUG": "1", "RUST_BACKTRACE": "0", "RUST_MIN_STACK": "300000"})
            arg = "./sub/prog.sd"
        elif k == 2:
            env = {"PATH": "/usr/bin", "LANG": "tr_TR.UTF-8", "HOME": "/nonexistent", "TZ": "Pacific/Kiritimati"}
            cwd, arg = d / "sub", "prog.sd"
            to_file = True
        elif k == 3:
            env.update({"LC_ALL": "en_US.UTF-8", "COLUMNS": "10", "NO_COLOR": "1", "RUST_LOG": "trace", "RUST_MIN_STACK": "67108864",
                        "RUST_BACKTRACE": "full"})
            cwd, arg = Path("/"), str(script)
            stdin = None
        elif k == 4:
            # the script named through a symbolic link to a directory followed by `..`: the file the kernel resolves, not a
            # textual simplification of the path
            (d / "lib").mkdir()
            (d / "work").mkdir()
            os.symlink("../lib", d / "work" / "lib")
            (d / "work" / "sub").mkdir()
            (d / "work" / "sub" / "prog.sd").write_text('print("another file")\n')
            cwd, arg = d / "work", "lib/../sub/prog.sd"
        elif k >= 5:
            env.update({f"VAR{k}": "x" * k, "LANG": ["de_DE", "ja_JP.UTF-8", "POSIX", ""][k % 4]})
            arg = ["sub/../sub/prog.sd", "sub//prog.sd", "./sub/./prog.sd", "sub/prog.sd"][k % 4]
            to_file = k % 2 == 0
        if to_file:
            with open(d / "out.txt", "wb") as f:
                p = subprocess.run([str(core.SEED_BIN), arg], cwd=str(cwd), env=env, stdin=stdin, stdout=f, stderr=subprocess.PIPE, timeout=10)
            out = (d / "out.txt").read_bytes()
        else:
            if stdin is None:
                p = subprocess.run([str(core.SEED_BIN), arg], cwd=str(cwd), env=env, input=b"ignored input\n",
                                   stdout=subprocess.PIPE, stderr=subprocess.PIPE, timeout=10)
            else:
                p = subprocess.run([str(core.SEED_BIN), arg], cwd=str(cwd), env=env, stdin=stdin,
                                   stdout=subprocess.PIPE, stderr=subprocess.PIPE, timeout=10)
            out = p.stdout
        return out, p.stderr.replace(arg.encode(), b"<path>"), p.returncode
    except subprocess.TimeoutExpired:
        return b"", b"timeout", -1
    finally:
        import shutil
        shutil.rmtree(d, ignore_errors=True)


def oracle_one(ctx, src, r):
    """replay: the stored script under the environment variants, twice under the first"""
    body = src.encode("utf-8", errors="surrogateescape").decode("utf-8", errors="replace")
    first = run_variant(body, 0, None)
    for k in (0, 1, 2, 3, 4):
        res = run_variant(body, k, None)
        if res != first:
            return False, f"the same script behaved differently under environment variant {k}: {first!r} vs {res!r}"[:600]
    return True, ""


def run(ctx, model_ok):
    import concurrent.futures as cf
    # (i)
    cases = value_scripts(ctx) + shared_scripts(ctx)
    # keys and strings are written raw, whatever they contain (quotes, backslashes, control characters, non-printable
    # code points): the canonical rendering escapes nothing
    for s_ in ['say "hi"', "C:\\tmp\\new", "tab\there", "line\nbreak", "\x01\x7f", "nul\x00x", "\u200b\u00ad\u0301", "it's", "a\rb", "{\"k\": 1}", "${x}"]:
        for v in ({s_: 1}, {s_: s_}, [s_], {"o": {s_: [s_]}}, {s_: {s_: None}}):
            src = f"print({lit(v)})\n"
            if "\x01" in s_ or "\x00" in s_ or "\x7f" in s_ or "\t" in s_:
                src = src.replace("\x01", "\\x01").replace("\x7f", "\\x7f").replace("\x00", "\\x00").replace("\t", "\\x09")
            cases.append((v, src, py_print(v) + "\n"))
    srcs = [c[1] for c in cases]
    impl, dis = tie.run(ctx, srcs, "values", model_ok)
    bad = []
    for (v, src, exp), r in zip(cases, impl):
        ctx.nontrivial(("value", py_print(v)))
        ctx.dist("value:" + type(v).__name__)
        if r["status"] != "0" or r["stdout"] != exp:
            bad.append((src, exp, r))
    for src, exp, r in bad[:0]:
        pass
    bad.sort(key=lambda b: len(b[0]))
    for src, exp, r in bad[:3]:
        c = core.run_cli(src)
        if c["status"] != "0" or c["stdout"] != exp:
            ctx.violation("printing is not the canonical rendering / differs between construction histories", src,
                          {"expected_stdout": exp, "cli": c, "failing_values": len(bad)})
    tie.report_disagreements(ctx, [d for d in dis if d[0] not in {b[0] for b in bad}], "values")
    # values that compare equal print identically — and values that print differently do not compare equal: each value against
    # variants of itself (a key renamed, a leaf changed, an element dropped, another insertion order)
    vs = values(3, ctx.rng, 120)
    variant_scripts = []
    for v in vs:
        for w in variants_of(v, ctx.rng):
            variant_scripts.append(f"a := {lit(v)}\nb := {lit(w)}\nprint(a == b)\nprint(\"#\")\nprint(a)\nprint(\"#\")\nprint(b)\n")
    variant_scripts = list(dict.fromkeys(variant_scripts))
    vimpl, vdis = tie.run(ctx, variant_scripts, "equal-prints-equal", model_ok)
    nrep = 0
    for src, r in zip(variant_scripts, vimpl):
        parts = r["stdout"].split("#\n")
        ctx.nontrivial(("variant", parts[0].strip(), len(src)))
        if r["status"] == "0" and len(parts) == 3 and ((parts[0] == "true\n") != (parts[1] == parts[2])) and nrep < 2:
            c = core.run_cli(src)
            p2 = c["stdout"].split("#\n")
            if c["status"] == "0" and len(p2) == 3 and ((p2[0] == "true\n") != (p2[1] == p2[2])):
                nrep += 1
                ctx.violation("`==` and `print` disagree: values that compare equal must print identically (and these values differ "
                              "exactly when their renderings differ)", src, {"cli": c})
    tie.report_disagreements(ctx, vdis, "equal-prints-equal")
    # a `print` whose value cannot be rendered (a string that is not valid UTF-8, wherever it sits in the value) writes
    # nothing at all: what stdout holds is the rendering of complete prints only
    unprintable = []
    for w in ('"é"[0]', '"né"[1:2]', '"€"[0:2]'):
        for shape in ("@", "[@]", "[1, @]", "[\"first\", @, \"last\"]", "{\"a\": @}", "{\"a\": 1, \"b\": {\"c\": @}}", "[[1, [2, @]], 3]",
                      "[\"né\", @]", "{\"k\": [\"x\", @], \"z\": 0}"):
            unprintable.append(f'print("before")\nw := {w}\nprint({shape.replace("@", "w")})\nprint("after")\n')
    uimpl, udis = tie.run(ctx, unprintable, "unprintable", model_ok)
    for src, r in zip(unprintable, uimpl):
        ctx.nontrivial(("unprintable", src[20:60]))
        if r["status"] != "103" or r["stdout"] != "before\n":
            c = core.run_cli(src)
            if c["status"] != "103" or c["stdout"] != "before\n":
                ctx.violation("a print that fails wrote part of its rendering (or the failure was not reported)", src,
                              {"expected_stdout": "before\n", "cli": c})
                break
    tie.report_disagreements(ctx, udis, "unprintable")
    k = len(cases) * 3 // 4
    ctx.sample({"stream": "values", "src": cases[k][1][:500], "impl_stdout": impl[k]["stdout"][:300]})
    # (ii)
    nprog = 5000 if ctx.tier == "thorough" else 150
    reps = 9 if ctx.tier == "thorough" else 5
    ps = progs.generate(ctx.rng, nprog, fail_rate=0.4)
    import props.C02 as C02
    ps = C02.typefn_scripts() + FUNC_DIAG_SCRIPTS + ps      # diagnostics raised on and about function values (no addresses, no ids)
    ps = ERROR_ORDER_SCRIPTS * 3 + ps        # repeated: hash seeds differ per process, more runs make an order flip likely to show
    jobs = [(i, k) for i in range(len(ps)) for k in range(reps)]
    with cf.ThreadPoolExecutor(max_workers=core.NPROC) as ex:
        results = list(ex.map(lambda ik: run_variant(ps[ik[0]], ik[1], None), jobs))
    ctx.count("determinism:cli", len(jobs))
    ctx.cov["cli_reconfirmed"] += len(jobs)
    by = {}
    for (i, k), res in zip(jobs, results):
        by.setdefault(i, []).append((k, res))
    for i, rs in by.items():
        first = rs[0][1]
        ctx.nontrivial(("prog", i, first[2], first[1][:40]))
        ctx.dist("det:status:" + str(first[2]))
        for k, res in rs[1:]:
            if res != first:
                ctx.violation(f"the same script behaved differently under environment variant {k}", ps[i],
                              {"variant0": [x.decode(errors='replace') if isinstance(x, bytes) else x for x in first],
                               f"variant{k}": [x.decode(errors='replace') if isinstance(x, bytes) else x for x in res]})
                break
    ctx.sample({"stream": "determinism", "src": ps[0][:300], "runs": reps, "outcome": [x.decode(errors="replace") if isinstance(x, bytes) else x for x in by[0][0][1]][:2]})
