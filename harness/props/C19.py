"""C19 — runs are deterministic and printing is a canonical function of the value."""
import itertools
import os
import subprocess
import tempfile
from pathlib import Path
import core
import progs
import tie

RULE = ("(i) nested values to depth 3 (quick) / 4 (thorough) over {null, bool, int, string (also with newline), list, object}, each "
        "built along three construction histories (literal, incremental insertion in shuffled order, via spread/concat): all must "
        "print identically and equal a direct depth-passing Python pretty-printer; (ii) generated programs (failing ones included) "
        "each run 4 (quick) / 8 (thorough) times through the plain CLI under varied cwd, LANG/LC_ALL, extra environment variables, "
        "path spelling (relative, ./, absolute), stdin closed, stdout to pipe or file: byte-identical stdout/stderr/status modulo "
        "the echoed path; (iii) values whose rendering has a line of 1000 bytes .. 64 KiB (11 string shapes around a long stretch x 9 "
        "positions in the value x sizes around 1 KiB, 2 KiB, .. 64 KiB, literal or built by doubling), very wide (to 40960 items / 3000 "
        "keys / 1 KiB keys) or very deep (to 257 levels; thorough 320) values, each through the CLI with stdout a pipe and a file, "
        "against the same Python printer; (iv) each 12 times under the variants of (ii): an undefined name used (25 kinds of use site) "
        "next to 2..6 equally similar declared names (9 declaration layouts), and `==`/`!=` on objects of 2..12 keys differing under "
        "two or more keys in mixed ways (value, type mismatch, nested, size, missing key; literal / incremental / spread); "
        "non-trivial = distinct (value shape) / distinct program with distinct outcome")
ASSUMPTIONS = ["independence from the environment is a property of the binary, not of the model: the model's `run` has no input but "
               "path and source text by construction; the extracted tables `hashIterSites` and `envUses` pin the only hash-ordered "
               "iteration (collected into a BTreeMap) and the only environment / file-system uses"]


# ------------------------------------------------------------------ (i) canonical printing
def py_print(v, depth=0):
    """direct, depth-passing specification printer"""
    ind = "    " * (depth + 1)
    if v is None:
        return "<null>"
    if v is True:
        return "true"
    if v is False:
        return "false"
    if isinstance(v, int):
        return str(v)
    if isinstance(v, str):
        return v.replace("\n", "\n" + "    " * depth)
    if isinstance(v, list):
        return "[\n" + "".join(ind + py_print(x, depth + 1) + ",\n" for x in v) + "    " * depth + "]"
    keys = sorted(v.keys(), key=lambda k: k.encode("utf-8"))
    return "{\n" + "".join(ind + '"' + k.replace("\n", "\n" + "    " * depth) + '": ' + py_print(v[k], depth + 1) + ",\n" for k in keys) + "    " * depth + "}"


def lit(v):
    if v is None:
        return "null"
    if v is True:
        return "true"
    if v is False:
        return "false"
    if isinstance(v, int):
        return str(v) if v >= 0 else f"(0 - {-v})"
    if isinstance(v, str):
        return '"' + v.replace("\\", "\\\\").replace('"', '\\"').replace("\n", "\\n").replace("\r", "\\r").replace("$", "\\$") + '"'
    if isinstance(v, list):
        return "[" + ", ".join(lit(x) for x in v) + "]"
    return "{" + ", ".join(lit(k) + ": " + lit(x) for k, x in v.items()) + "}"


class Builder:
    """emit statements that build `v` incrementally, in a shuffled order where order is free"""
    def __init__(self, rng):
        self.rng = rng
        self.n = 0
        self.lines = []

    def fresh(self):
        self.n += 1
        return f"t{self.n}"

    def build(self, v, style):
        if not isinstance(v, (list, dict)):
            return lit(v)
        name = self.fresh()
        if isinstance(v, list):
            parts = [self.build(x, style) for x in v]
            if style == "incremental":
                self.lines.append(f"{name} := []")
                for p in parts:
                    self.lines.append(f"{name} += [{p}]")
            else:   # spread / concat
                k = len(parts) // 2
                a, b = self.fresh(), self.fresh()
                self.lines.append(f"{a} := [{', '.join(parts[:k])}]")
                self.lines.append(f"{b} := [{', '.join(parts[k:])}]")
                self.lines.append(f"{name} := [{a}.., {b}..]" if self.rng.random() < 0.5 else f"{name} := {a} + {b}")
            return name
        items = list(v.items())
        self.rng.shuffle(items)
        if style == "incremental":
            self.lines.append(f"{name} := {{}}")
            for k, x in items:
                p = self.build(x, style)
                self.lines.append(f"{name}[{lit(k)}] = {p}")
        else:
            k = len(items) // 2
            a = self.fresh()
            first = [(kk, self.build(x, style)) for kk, x in items[:k]]
            rest = [(kk, self.build(x, style)) for kk, x in items[k:]]
            self.lines.append(f"{a} := {{" + ", ".join(f"{lit(kk)}: {p}" for kk, p in first) + "}")
            self.lines.append(f"{name} := {{{a}.., " + ", ".join(f"{lit(kk)}: {p}" for kk, p in rest) + "}" if rest else f"{name} := {{{a}..}}")
        return name


def values(depth, rng, limit):
    atoms = [None, True, 0, -7, "", "a", "two\nlines", "é", "end\n", "a\r\nb", "\n", "x\n\ny"]
    out = list(atoms)
    prev = list(atoms)
    for d in range(depth):
        level = []
        pool = prev if len(prev) <= 12 else rng.sample(prev, 12)
        for n in (0, 1, 2):
            for combo in itertools.product(pool, repeat=n):
                level.append(list(combo))
                ks = ["b", "a", "B", "k k", "é", ""][:n]
                level.append(dict(zip(ks, combo)))
        if len(level) > limit:
            level = rng.sample(level, limit)
        out += level
        prev = level
    return out


def variants_of(v, rng):
    """values that differ from `v` in one place (or only in insertion order)"""
    import copy
    out = []
    if isinstance(v, dict) and v:
        k = rng.choice(sorted(v))
        w = {("zz" + k if kk == k else kk): copy.deepcopy(x) for kk, x in v.items()}
        out.append(w)
        w = copy.deepcopy(v)
        del w[k]
        out.append(w)
        out.append({kk: copy.deepcopy(v[kk]) for kk in reversed(list(v))})
        for kk in v:
            for sub in variants_of(v[kk], rng)[:2]:
                w = copy.deepcopy(v)
                w[kk] = sub
                out.append(w)
    elif isinstance(v, list) and v:
        out.append(copy.deepcopy(v[:-1]))
        out.append(copy.deepcopy(v))
        i = rng.randrange(len(v))
        for sub in variants_of(v[i], rng)[:2]:
            w = copy.deepcopy(v)
            w[i] = sub
            out.append(w)
    elif isinstance(v, bool):
        out.append(not v)
    elif isinstance(v, int):
        out.append(v + 1)
    elif isinstance(v, str):
        out.append(v + "x")
    # only same-kind comparisons (a kind mismatch is an error, judged elsewhere)
    return [w for w in out if type(w) is type(v)]


def value_scripts(ctx):
    rng = ctx.rng
    vs = values(4 if ctx.tier == "thorough" else 3, rng, 6000 if ctx.tier == "thorough" else 500)
    cases = []
    for v in vs:
        b1, b2 = Builder(rng), Builder(rng)
        n1 = b1.build(v, "incremental")
        n2 = b2.build(v, "spread")
        # rename the second builder's temporaries so the two histories can live in one script
        l2 = [ln.replace("t", "u") if False else ln for ln in b2.lines]
        src = f"print({lit(v)})\n" + "\n".join(b1.lines) + f"\nprint({n1})\n" + "{\n" + "\n".join("    " + l for l in l2) + f"\n    print({n2})\n}}\n"
        exp = py_print(v) + "\n"
        cases.append((v, src, exp * 3))
    return cases


def shared_scripts(ctx):
    """the same container reached twice (or more) by reference within one print: a DAG prints like the tree it unfolds to"""
    cases = []
    subs = [[1, 2], {"k": 1}, {"k": [1], "j": "two\nlines"}, [], {}, [[7]], {"a": {"b": {}}}]
    for sub in subs:
        for shape in ("[s, s]", "{\"a\": s, \"b\": s}", "[[s], s, {\"z\": s}]", "{\"a\": [s, s], \"b\": {\"c\": s}}", "[s, [s, [s]]]"):
            def build(x):
                return eval(shape.replace("s", "x"), {"x": x})        # Python structure with the same sharing
            v = build(sub)
            src = f"s := {lit(sub)}\nt := {shape}\nprint(t)\nprint(t)\nu := {shape.replace('s', lit(sub))}\nprint(u)\nprint(t == u)\n"
            cases.append((v, src, (py_print(v) + "\n") * 3 + "true\n"))
    return cases


ERROR_ORDER_SCRIPTS = [
    # nesting that the host stack carries with a wide margin: the outcome must not depend on runtime knobs of the environment
    "fn d(n) {\n    if n == 0 {\n        return 0\n    }\n    return 1 + d(n - 1)\n}\nprint(\"start\")\nprint(d(60))\n",
    "fn nest(n) {\n    r := []\n    i := 0\n    while i < n {\n        r = [r]\n        i += 1\n    }\n    return r\n}\nprint(nest(300) == nest(300))\n",
    # several candidates for "the" error: which one is reported (and where) must not depend on the run
    "fn area(width, height, width, height) {\n    return 1\n}\n",
    "fn f(a, b, c, a, b, c) {\n    return 1\n}\n",
    "fn g([p, q], {p, q}, p, q) {\n    return 1\n}\n",
    "[a, b, a, b] := [1, 2, 3, 4]\n",
    "{x, y, z} := {}\n",
    "{\"k1\": m, \"k2\": m, \"k3\": n, \"k4\": n} := {\"k1\": 1, \"k2\": 2, \"k3\": 3, \"k4\": 4}\n",
    "o := {\"b\": 1, \"a\": 2, \"c\": 3}\n{..rest} := o\nprint(rest)\n{b, ..others} := o\nprint(others)\n",
    "print({\"z\": 1, \"y\": zz1, \"x\": zz2})\n",
    "fn h(a, b) {\n    return a\n}\nprint(h(u1, u2))\n",
    "o := {}\nfor [i, k] in [\"q\", \"w\", \"e\", \"r\", \"t\", \"y\"] {\n    o[k] = i\n}\nprint(o)\nfor [k, v] in o {\n    print(k)\n}\n",
]


FUNC_DIAG_SCRIPTS = [
    "print(print == 1)\n", "print(print + 1)\n", "print([print] == [1])\n", "f := fn() { return 1; }\nprint(f == f)\n", "print(print === print)\n",
    "print({\"k\": print} == {\"k\": \"s\"})\n", "print(print->type())\nprint(print.x)\n", "print(print[0])\n", "[a, b] := print\n", "for [k, v] in print {\n}\n",
    "print($\"${print}\")\n", "print(print)\n", "f := fn(a) { return a; }\nprint(f)\nprint([f, print])\n", "print(print < print)\n", "x := print\nx += 1\n",
    "o := {\"len\": \"abc\"->len}\nprint(o.len())\n", "o := {\"t\": 7->type}\nprint(o.t(1))\n",
]


# ------------------------------------------------------------------ (iii) very long lines, wide and deep values
LONG_SIZES = [1000, 1023, 1024, 1025, 1280, 2047, 2048, 2049, 4096, 8191, 8192, 8193, 16384, 32768, 65535, 65536, 65537]

# a string around one or two long stretches X (no line break inside X); "h" is a short line
LONG_SHAPES = [["X"], ["h\n", "X"], ["X", "\nh"], ["X", "\n", "X"], ["X", "\n"], ["\n", "X"], ["h\n", "X", "\n"], ["h\n\n", "X"],
               ["X", "\r\n", "X"], ["h\nh\nh\n", "X", "\n\n"], ["X", "h\n", "X"]]

# where the string sits in the printed value (template over `s`, the same structure in Python)
LONG_POSITIONS = [("s", lambda s: s), ("[s]", lambda s: [s]), ('{"k": s}', lambda s: {"k": s}), ("{s: 1}", lambda s: {s: 1}),
                  ("[[s]]", lambda s: [[s]]), ('{"a": {"b": s}}', lambda s: {"a": {"b": s}}), ('[s, "t", s]', lambda s: [s, "t", s]),
                  ('{"a": [s], s: null}', lambda s: {"a": [s], s: None}), ('[{"k": s, "l": 0}, s]', lambda s: [{"k": s, "l": 0}, s])]


def filler(n, kind):
    """exactly `n` bytes of text without a line break"""
    if kind == "utf8":          # two-byte characters: byte length and character count differ
        return "é" * (n // 2) + ("x" if n % 2 else "")
    if kind == "spaces":        # looks like indentation
        return " " * (n - 1) + "|"
    return ("0123456789abcdef" * (n // 16 + 1))[:n]


def long_line_scripts(ctx):
    """[(script, expected stdout, [(single-print script, expected)])]: every print is of a value whose rendering has a line of 1000
    bytes .. 64 KiB (or is very wide / very deep); the strings are written as literals or built by doubling and slicing"""
    rng = ctx.rng
    thorough = ctx.tier == "thorough"
    out = []
    rot = 0
    for shape in LONG_SHAPES:
        for tmpl, pyf in LONG_POSITIONS:
            if thorough:
                sizes = list(LONG_SIZES) + [rng.randrange(1024, 70000) for _ in range(3)]
            else:
                sizes = [LONG_SIZES[rot % len(LONG_SIZES)], rng.randrange(1000, 66000)]
                rot += 1
            for chunk in range(0, len(sizes), 5):
                singles = []
                for n in sizes[chunk:chunk + 5]:
                    kind = rng.choice(["ascii", "ascii", "utf8", "spaces"])
                    x = filler(n, kind)
                    s = "".join(x if p == "X" else p for p in shape)
                    v = pyf(s)
                    if kind == "ascii" and rng.random() < 0.5:
                        # built: doubling, slicing (byte offsets; the filler is ASCII), concatenation
                        pre = (f"x := \"0123456789abcdef\"\nwhile x->len() < {n} {{\n    x = x + x\n}}\nx = x[0:{n}]\n"
                               f"s := {' + '.join('x' if p == 'X' else lit(p) for p in shape)}\n")
                    else:
                        pre = f"s := {lit(s)}\n"
                    singles.append((pre + f"print({tmpl})\n", py_print(v) + "\n"))
                # several prints in one process: what one print leaves behind must not change the next
                src = "".join("{\n" + "".join("    " + ln + "\n" for ln in one.rstrip("\n").split("\n")) + "}\n" for one, _ in singles)
                out.append((src, "".join(e for _, e in singles), singles))
    # wide: many items / many keys / long keys (the whole output is larger than a pipe's capacity)
    for k in ((5, 9, 12) if not thorough else (5, 7, 9, 11, 12, 13)):
        base = [0, "one", None, [3], {"four": 4}, -5, "six\nsix", True, [], {}]
        v = base * (2 ** k)
        src = f"r := {lit(base)}\ni := 0\nwhile i < {k} {{\n    r = r + r\n    i += 1\n}}\nprint(r)\n"
        out.append((src, py_print(v) + "\n", []))
    for nkeys, klen in ((400, 8), (60, 1100), (3000, 3)) + (((20000, 5), (300, 5000)) if thorough else ()):
        ks = [str((i * 7919) % 100003) + filler(klen, "ascii") for i in range(nkeys)]
        v = {kk: i for i, kk in enumerate(ks)}
        out.append((f"print({lit(v)})\n", py_print(v) + "\n", []))
    # deep: the indentation alone makes the lines long (depth 256 = 1 KiB of indentation)
    import sys
    old = sys.getrecursionlimit()
    sys.setrecursionlimit(max(old, 5000))
    try:
        deep = [(d, leaf, wrap, pyw) for d in ((64, 255, 256, 257) if not thorough else (64, 128, 255, 256, 257, 300, 320))
                for leaf, wrap, pyw in (('"two\\nlines"', "[r]", lambda r: [r]), ("[]", "[r]", lambda r: [r]), ("7", '{"k": r}', lambda r: {"k": r}),
                                        ('"a\\n\\nb\\n"', '{"key": [r]}', lambda r: {"key": [r]}))]
        # branching: every level doubles the size
        deep += [(d, '"a\\n\\nb\\n"', '{"k": r, "l": [r]}', lambda r: {"k": r, "l": [r]}) for d in ((8, 11) if not thorough else (8, 11, 13))]
        for d, leaf, wrap, pyw in deep:
            v = eval(leaf)
            for _ in range(d):
                v = pyw(v)
            src = f"r := {leaf}\ni := 0\nwhile i < {d} {{\n    r = {wrap}\n    i += 1\n}}\nprint(r)\nprint(\"end\")\n"
            out.append((src, py_print(v) + "\nend\n", []))
    finally:
        sys.setrecursionlimit(old)
    return out


def check_long_lines(ctx):
    import concurrent.futures as cf
    cases = long_line_scripts(ctx)
    jobs = [(i, k) for i in range(len(cases)) for k in (0, 2)]      # variant 0: stdout is a pipe, variant 2: stdout is a file
    with cf.ThreadPoolExecutor(max_workers=core.NPROC) as ex:
        results = list(ex.map(lambda ik: run_variant(cases[ik[0]][0], ik[1], None), jobs))
    ctx.count("long-lines:cli", len(jobs))
    ctx.cov["cli_reconfirmed"] += len(jobs)
    nrep = 0
    seen = set()
    for (i, k), (o, e, rc) in zip(jobs, results):
        src, exp, singles = cases[i]
        ctx.nontrivial(("long", i, len(exp)))
        ctx.dist("long:" + ("file" if k == 2 else "pipe"))
        if (o, e, rc) == (exp.encode("utf-8"), b"", 0) or i in seen or nrep >= 3:
            continue
        # narrow down to one print where that is possible, and confirm
        for one, exp1 in (singles + [(src, exp)]):
            o1, e1, rc1 = run_variant(one, k, None)
            if (o1, e1, rc1) != (exp1.encode("utf-8"), b"", 0):
                seen.add(i)
                nrep += 1
                got = o1.decode("utf-8", errors="replace")
                c = core.run_cli(one)
                # (a replay compares with the recorded plain run, which has stdout on a pipe: record it as the observation only
                # when it shows the failure itself)
                ckey = "cli" if (c["stdout"], c["status"]) != (exp1, "0") else "cli_with_stdout_on_a_pipe_is_as_expected"
                at = next((j for j, (a, b) in enumerate(zip(got, exp1)) if a != b), min(len(got), len(exp1)))
                ctx.violation("print did not write the canonical rendering followed by one newline (a value with a very long line, "
                              "very wide or very deep)", one,
                              {"stdout_is": "file" if k == 2 else "pipe", "expected_len": len(exp1), "got_len": len(got), "status": rc1,
                               "stderr": e1.decode("utf-8", errors="replace")[:300], "first_difference_at_char": at,
                               "expected_there": exp1[max(0, at - 40):at + 40], "got_there": got[max(0, at - 40):at + 40],
                               ckey: c})
                break
    k = len(cases) // 3
    ctx.sample({"stream": "long-lines", "src": cases[k][0][:300], "expected_len": len(cases[k][1])})


# ------------------------------------------------------------------ (iv) repeated runs of scripts whose outcome could follow a hash order
def _near(u, style, letters):
    """identifiers equally far from `u` by construction (the same edit at the same place, with different letters)"""
    if style == "subst-last":
        return [u[:-1] + c for c in letters if c != u[-1]]
    if style == "append":
        return [u + c for c in letters]
    if style == "prepend":
        return [c + u for c in letters if not c.isdigit()]
    if style == "subst-mid":
        m = len(u) // 2
        return [u[:m] + c + u[m + 1:] for c in letters if c != u[m]]
    if style == "append2":
        return [u + c + c for c in letters]
    return [u[:-1] + c + u[-1] for c in letters]       # insert before the last character


UNDEF_SITES = ["print(@)", "y := @ + 1", "y := [1, @]", "y := {\"k\": @}", "y := {@}", "@()", "@(1, 2)", "y := @.k", "y := @[0]", "@ = 1", "@ += 1",
               "@.k = 1", "@[0] = 1", "y := $\"a${@}b\"", "print(ident(@))", "if @ {\n    print(1)\n}", "for x in @ {\n    print(x)\n}",
               "y := 0 - @", "[y0, @] = [1, 2]", "y := [@..]", "y := 1->@()", "y := @ == @", "y := [1, 2][@]", "y := {\"k\": 1}[@]", "y := true && @"]


def undefined_name_scripts(ctx):
    """an undefined name used next to 2..6 declared names that are all equally similar to it (declared at top level, in a function,
    as parameters, in a block, split over scopes, by patterns, as loop variables), at every kind of use site"""
    rng = ctx.rng
    out = []
    layouts = ["top", "fn", "params", "block", "split", "nested-fn", "list-pattern", "object-pattern", "for"]
    stems = ["total_d", "count", "idx", "n1", "valueOfX", "ab", "tmp_0", "resume", "i", "print_", "typ"]
    for site in UNDEF_SITES:
        for layout in (layouts if ctx.tier == "thorough" else rng.sample(layouts, 2)):
            u = rng.choice(stems)
            style = rng.choice(["subst-last", "append", "prepend", "subst-mid", "append2", "insert"])
            if len(u) == 1 and style in ("subst-last", "subst-mid"):
                style = "append"
            cands = [c for c in dict.fromkeys(_near(u, style, "abcdefgxyzABZ_019")) if c != u and c not in ("y", "x", "y0", "ident", "print", "f", "g", "if", "in", "fn", "type", "len")]
            names = rng.sample(cands, rng.choice([2, 2, 3, 4, 6]))
            far = ["unrelated_name", "q"]
            use = site.replace("@", u)
            ind = lambda text, n=1: "".join("    " * n + ln + "\n" for ln in text.split("\n"))
            decl = "".join(f"{nm} := {i}\n" for i, nm in enumerate(names + far))
            head = ("fn ident(a) {\n    return a\n}\n" if "ident" in site else "") + ("y0 := 0\n" if "y0" in site else "") + "print(\"start\")\n"
            if layout == "top":
                body = decl + use + "\n"
            elif layout == "fn":
                body = "fn f() {\n" + ind(decl.rstrip("\n")) + ind(use) + "    return 0\n}\nf()\n"
            elif layout == "params":
                body = f"fn f({', '.join(names)}) {{\n" + ind(use) + "    return 0\n}\n" + f"f({', '.join(str(i) for i in range(len(names)))})\n"
            elif layout == "block":
                body = "if true {\n" + ind(decl.rstrip("\n")) + ind(use) + "}\n"
            elif layout == "split":
                h = len(names) // 2
                body = ("".join(f"{nm} := 0\n" for nm in names[:h]) + "loop_counter := 0\nwhile loop_counter < 1 {\n" + "".join(f"    {nm} := 1\n" for nm in names[h:])
                        + ind(use) + "    loop_counter += 1\n}\n")
            elif layout == "nested-fn":
                body = decl + "fn g() {\n" + ind(use) + "    return 0\n}\nfn f() {\n    return g()\n}\nf()\n"
            elif layout == "list-pattern":
                body = f"[{', '.join(names)}] := [{', '.join('0' for _ in names)}]\n" + use + "\n"
            elif layout == "object-pattern":
                body = f"{{{', '.join(names)}}} := {{{', '.join(lit(nm) + ': 0' for nm in names)}}}\n" + use + "\n"
            else:
                body = f"for [{', '.join(names)}] in [[{', '.join('0' for _ in names)}]] {{\n" + ind(use) + "}\n"
            out.append(head + body + "print(\"end\")\n")
    # names that are not variables: properties, keys, type functions next to several similar ones
    o = "o := {\"total_a\": 1, \"total_b\": 2, \"total_c\": 3, \"total_e\": 4, \"totalled\": 5}\n"
    for use in ("print(o.total_d)", "print(o[\"total_d\"])", "{total_d} := o", "o.total_d += 1", "o[\"total_d\"] += 1", "{\"total_d\": z} := o",
                "{total_a, total_d, total_f} := o", "print(o->total_d())", "print(\"s\"->lem())", "print([1]->lem())", "print(1->tipe())",
                "{total_d, ..rest} := o", "print(o.total_d.x)", "print(o.total_a.total_d)"):
        out.append("print(\"start\")\n" + o + use + "\nprint(\"end\")\n")
    return out


EQ_DIFFS = {
    "value": [(1, 2), ("s", "t"), (True, False), ([1, 2], [1, 3]), ({"p": 1}, {"p": 2}), ("", "x"), (0, -1)],
    "type": [(1, "1"), (None, False), ([1], {"0": 1}), (1, [1]), ("", None), (True, 1), ({}, []), ("a", ["a"])],
    "nested-type": [({"p": 1, "q": 2}, {"p": "1", "q": 3}), ([1, "a"], [1, 2]), ({"p": {"q": None}}, {"p": {"q": 0}}), ([[1]], [["1"]]),
                    ({"p": 1, "q": 1, "r": 1}, {"p": 2, "q": "1", "r": None})],
    "size": [([1], [1, 2]), ({"p": 1}, {"p": 1, "q": 2}), ([], [0]), ({}, {"p": None})],
}
EQ_FORMS = ["print(a == b)", "print(a != b)", "print(b == a)", "print([a] == [b])", "print({\"w\": a} != {\"w\": b})", "print([0, a, 1] == [0, b, 1])",
            "if a == b {\n    print(\"eq\")\n} else {\n    print(\"ne\")\n}", "print({a..} == {b..})", "print([a, a] != [a, b])",
            "print({\"u\": 1, \"w\": a, \"x\": \"s\"} == {\"u\": 1, \"w\": b, \"x\": 0})", "c := a == b\nprint(c)", "print((a == b) == false)"]
EQ_KEYS = ["a", "b", "c", "d", "e", "f", "g", "h", "i", "j", "k", "l", "key", "Key", "k k", "é", "", "0", "10", "9", "_", "zz", "a.b", "longer key name",
           "ключ", "x" * 40]


def object_eq_scripts(ctx):
    """`==` / `!=` between two objects with 2..12 keys that differ under two or more of them, the differences being of mixed kinds
    (unequal values, a type mismatch, a mismatch deeper inside, another size, a key only one side has); literal, incrementally built
    (shuffled insertion order) and spread objects; the comparison at top level and inside lists / objects / a condition"""
    import copy
    rng = ctx.rng
    out = []
    n = 400 if ctx.tier == "thorough" else 48
    for j in range(n):
        nk = rng.choice([2, 3, 3, 4, 5, 6, 8, 12])
        keys = rng.sample(EQ_KEYS, nk)
        nd = rng.randint(2, min(nk, rng.choice([2, 3, 5, 12])))
        dk = rng.sample(keys, nd)
        kinds = [rng.choice(["value", "type", "nested-type", "size", "missing"]) for _ in dk]
        if j % 4 != 3 and not any(kd in ("type", "nested-type") for kd in kinds):
            kinds[rng.randrange(nd)] = "type"      # mostly: at least one difference that cannot be compared
        if j % 4 != 3 and all(kd in ("type", "nested-type") for kd in kinds):
            kinds[rng.randrange(nd)] = rng.choice(["value", "size", "missing"])
        a, b = {}, {}
        for kk in keys:
            if kk in dk:
                kind = kinds[dk.index(kk)]
                if kind == "missing":
                    (a if rng.random() < 0.5 else b)[kk] = rng.choice([1, "s", None, [1]])
                    continue
                l, r = copy.deepcopy(rng.choice(EQ_DIFFS[kind]))
                if rng.random() < 0.5:
                    l, r = r, l
                a[kk], b[kk] = l, r
            else:
                a[kk] = copy.deepcopy(rng.choice([1, "s", None, True, [1, "a"], {"p": [None]}, [], {}]))
                b[kk] = copy.deepcopy(a[kk])
        items = list(b.items())
        rng.shuffle(items)
        b = dict(items)
        lines = []
        for nm, v in (("a", a), ("b", b)):
            how = rng.choice(["literal", "incremental", "spread"])
            if how == "literal":
                lines.append(f"{nm} := {lit(v)}")
            else:
                bld = Builder(rng)
                bld.n = 100 if nm == "b" else 0
                top = bld.build(v, how)
                lines += bld.lines + [f"{nm} := {top}"]
        forms = rng.sample(EQ_FORMS, 2)
        out.append("\n".join(lines) + "\nprint(\"start\")\n" + forms[0] + "\nprint(\"next\")\n" + forms[1] + "\nprint(\"end\")\n")
    return out


def check_repeated(ctx, scripts, label, reps=12):
    """each script `reps` times through the plain CLI (under the environment variants): byte-identical stdout, stderr, status"""
    import concurrent.futures as cf
    scripts = list(dict.fromkeys(scripts))
    jobs = [(i, k) for i in range(len(scripts)) for k in range(reps)]
    with cf.ThreadPoolExecutor(max_workers=core.NPROC) as ex:
        results = list(ex.map(lambda ik: run_variant(scripts[ik[0]], ik[1], None), jobs))
    ctx.count(f"determinism:{label}:cli", len(jobs))
    ctx.cov["cli_reconfirmed"] += len(jobs)
    by = {}
    for (i, k), res in zip(jobs, results):
        by.setdefault(i, []).append((k, res))
    failing = []
    for i, rs in by.items():
        first = rs[0][1]
        ctx.nontrivial((label, i, first[2], first[1][:60], first[0][-20:]))
        ctx.dist(f"{label}:status:" + str(first[2]))
        outcomes = {res for _, res in rs}
        if len(outcomes) > 1:
            failing.append((len(scripts[i]), i, next(k for k, res in rs if res != first), len(outcomes)))
    failing.sort()
    dec = lambda res: [x.decode(errors="replace") if isinstance(x, bytes) else x for x in res]
    for _, i, k, nout in failing[:3]:
        rs = dict(by[i])
        ctx.violation(f"the same script behaved differently from one run to the next ({nout} distinct outcomes in {reps} runs; first "
                      f"differing run: environment variant {k})", scripts[i],
                      {"variant0": dec(rs[0]), f"variant{k}": dec(rs[k]), "distinct_outcomes": nout, "runs": reps,
                       "scripts_with_differing_runs": len(failing), "stream": label})
    ctx.sample({"stream": label, "src": scripts[len(scripts) // 2][:400], "runs": reps, "outcome": dec(by[len(scripts) // 2][0][1])[:2]})


# ------------------------------------------------------------------ (ii) determinism under a varied environment
def run_variant(src, k, base):
    d = Path(tempfile.mkdtemp(prefix="det", dir=str(core.BUILD)))
    try:
        (d / "sub").mkdir()
        script = d / "sub" / "prog.sd"
        script.write_text(src)
        env = dict(os.environ)
        cwd, arg = d, "sub/prog.sd"
        stdin = subprocess.DEVNULL
        to_file = False
        if k == 1:
            env.update({"LANG": "C", "LC_ALL": "C", "SEED_DEBUG": "1", "RUST_BACKTRACE": "0", "RUST_MIN_STACK": "300000"})
            arg = "./sub/prog.sd"
        elif k == 2:
            env = {"PATH": "/usr/bin", "LANG": "tr_TR.UTF-8", "HOME": "/nonexistent", "TZ": "Pacific/Kiritimati"}
            cwd, arg = d / "sub", "prog.sd"
            to_file = True
        elif k == 3:
            env.update({"LC_ALL": "en_US.UTF-8", "COLUMNS": "10", "NO_COLOR": "1", "RUST_LOG": "trace", "RUST_MIN_STACK": "67108864",
                        "RUST_BACKTRACE": "full"})
            cwd, arg = Path("/"), str(script)
            stdin = None
        elif k == 4:
            # the script named through a symbolic link to a directory followed by `..`: the file the kernel resolves, not a
            # textual simplification of the path
            (d / "lib").mkdir()
            (d / "work").mkdir()
            os.symlink("../lib", d / "work" / "lib")
            (d / "work" / "sub").mkdir()
            (d / "work" / "sub" / "prog.sd").write_text('print("another file")\n')
            cwd, arg = d / "work", "lib/../sub/prog.sd"
        elif k >= 5:
            env.update({f"VAR{k}": "x" * k, "LANG": ["de_DE", "ja_JP.UTF-8", "POSIX", ""][k % 4]})
            arg = ["sub/../sub/prog.sd", "sub//prog.sd", "./sub/./prog.sd", "sub/prog.sd"][k % 4]
            to_file = k % 2 == 0
        if to_file:
            with open(d / "out.txt", "wb") as f:
                p = subprocess.run([str(core.SEED_BIN), arg], cwd=str(cwd), env=env, stdin=stdin, stdout=f, stderr=subprocess.PIPE, timeout=10)
            out = (d / "out.txt").read_bytes()
        else:
            if stdin is None:
                p = subprocess.run([str(core.SEED_BIN), arg], cwd=str(cwd), env=env, input=b"ignored input\n",
                                   stdout=subprocess.PIPE, stderr=subprocess.PIPE, timeout=10)
            else:
                p = subprocess.run([str(core.SEED_BIN), arg], cwd=str(cwd), env=env, stdin=stdin,
                                   stdout=subprocess.PIPE, stderr=subprocess.PIPE, timeout=10)
            out = p.stdout
        return out, p.stderr.replace(arg.encode(), b"<path>"), p.returncode
    except subprocess.TimeoutExpired:
        return b"", b"timeout", -1
    finally:
        import shutil
        shutil.rmtree(d, ignore_errors=True)


def oracle_one(ctx, src, r):
    """replay: the stored script under the environment variants, twice under the first"""
    body = src.encode("utf-8", errors="surrogateescape").decode("utf-8", errors="replace")
    first = run_variant(body, 0, None)
    for k in (0, 1, 2, 3, 4, 5, 6, 7, 8, 9, 10, 11):
        res = run_variant(body, k, None)
        if res != first:
            return False, f"the same script behaved differently under environment variant {k}: {first!r} vs {res!r}"[:600]
    return True, ""


def run(ctx, model_ok):
    import concurrent.futures as cf
    # (i)
    cases = value_scripts(ctx) + shared_scripts(ctx)
    # keys and strings are written raw, whatever they contain (quotes, backslashes, control characters, non-printable
    # code points): the canonical rendering escapes nothing
    for s_ in ['say "hi"', "C:\\tmp\\new", "tab\there", "line\nbreak", "\x01\x7f", "nul\x00x", "\u200b\u00ad\u0301", "it's", "a\rb", "{\"k\": 1}", "${x}"]:
        for v in ({s_: 1}, {s_: s_}, [s_], {"o": {s_: [s_]}}, {s_: {s_: None}}):
            src = f"print({lit(v)})\n"
            if "\x01" in s_ or "\x00" in s_ or "\x7f" in s_ or "\t" in s_:
                src = src.replace("\x01", "\\x01").replace("\x7f", "\\x7f").replace("\x00", "\\x00").replace("\t", "\\x09")
            cases.append((v, src, py_print(v) + "\n"))
    srcs = [c[1] for c in cases]
    impl, dis = tie.run(ctx, srcs, "values", model_ok)
    bad = []
    for (v, src, exp), r in zip(cases, impl):
        ctx.nontrivial(("value", py_print(v)))
        ctx.dist("value:" + type(v).__name__)
        if r["status"] != "0" or r["stdout"] != exp:
            bad.append((src, exp, r))
    for src, exp, r in bad[:0]:
        pass
    bad.sort(key=lambda b: len(b[0]))
    for src, exp, r in bad[:3]:
        c = core.run_cli(src)
        if c["status"] != "0" or c["stdout"] != exp:
            ctx.violation("printing is not the canonical rendering / differs between construction histories", src,
                          {"expected_stdout": exp, "cli": c, "failing_values": len(bad)})
    tie.report_disagreements(ctx, [d for d in dis if d[0] not in {b[0] for b in bad}], "values")
    # values that compare equal print identically — and values that print differently do not compare equal: each value against
    # variants of itself (a key renamed, a leaf changed, an element dropped, another insertion order)
    vs = values(3, ctx.rng, 120)
    variant_scripts = []
    for v in vs:
        for w in variants_of(v, ctx.rng):
            variant_scripts.append(f"a := {lit(v)}\nb := {lit(w)}\nprint(a == b)\nprint(\"#\")\nprint(a)\nprint(\"#\")\nprint(b)\n")
    variant_scripts = list(dict.fromkeys(variant_scripts))
    vimpl, vdis = tie.run(ctx, variant_scripts, "equal-prints-equal", model_ok)
    nrep = 0
    for src, r in zip(variant_scripts, vimpl):
        parts = r["stdout"].split("#\n")
        ctx.nontrivial(("variant", parts[0].strip(), len(src)))
        if r["status"] == "0" and len(parts) == 3 and ((parts[0] == "true\n") != (parts[1] == parts[2])) and nrep < 2:
            c = core.run_cli(src)
            p2 = c["stdout"].split("#\n")
            if c["status"] == "0" and len(p2) == 3 and ((p2[0] == "true\n") != (p2[1] == p2[2])):
                nrep += 1
                ctx.violation("`==` and `print` disagree: values that compare equal must print identically (and these values differ "
                              "exactly when their renderings differ)", src, {"cli": c})
    tie.report_disagreements(ctx, vdis, "equal-prints-equal")
    # a `print` whose value cannot be rendered (a string that is not valid UTF-8, wherever it sits in the value) writes
    # nothing at all: what stdout holds is the rendering of complete prints only
    unprintable = []
    for w in ('"é"[0]', '"né"[1:2]', '"€"[0:2]'):
        for shape in ("@", "[@]", "[1, @]", "[\"first\", @, \"last\"]", "{\"a\": @}", "{\"a\": 1, \"b\": {\"c\": @}}", "[[1, [2, @]], 3]",
                      "[\"né\", @]", "{\"k\": [\"x\", @], \"z\": 0}"):
            unprintable.append(f'print("before")\nw := {w}\nprint({shape.replace("@", "w")})\nprint("after")\n')
    uimpl, udis = tie.run(ctx, unprintable, "unprintable", model_ok)
    for src, r in zip(unprintable, uimpl):
        ctx.nontrivial(("unprintable", src[20:60]))
        if r["status"] != "103" or r["stdout"] != "before\n":
            c = core.run_cli(src)
            if c["status"] != "103" or c["stdout"] != "before\n":
                ctx.violation("a print that fails wrote part of its rendering (or the failure was not reported)", src,
                              {"expected_stdout": "before\n", "cli": c})
                break
    tie.report_disagreements(ctx, udis, "unprintable")
    k = len(cases) * 3 // 4
    ctx.sample({"stream": "values", "src": cases[k][1][:500], "impl_stdout": impl[k]["stdout"][:300]})
    # (ii)
    nprog = 5000 if ctx.tier == "thorough" else 150
    reps = 9 if ctx.tier == "thorough" else 5
    ps = progs.generate(ctx.rng, nprog, fail_rate=0.4)
    import props.C02 as C02
    ps = C02.typefn_scripts() + FUNC_DIAG_SCRIPTS + ps      # diagnostics raised on and about function values (no addresses, no ids)
    ps = ERROR_ORDER_SCRIPTS * 3 + ps        # repeated: hash seeds differ per process, more runs make an order flip likely to show
    jobs = [(i, k) for i in range(len(ps)) for k in range(reps)]
    with cf.ThreadPoolExecutor(max_workers=core.NPROC) as ex:
        results = list(ex.map(lambda ik: run_variant(ps[ik[0]], ik[1], None), jobs))
    ctx.count("determinism:cli", len(jobs))
    ctx.cov["cli_reconfirmed"] += len(jobs)
    by = {}
    for (i, k), res in zip(jobs, results):
        by.setdefault(i, []).append((k, res))
    for i, rs in by.items():
        first = rs[0][1]
        ctx.nontrivial(("prog", i, first[2], first[1][:40]))
        ctx.dist("det:status:" + str(first[2]))
        for k, res in rs[1:]:
            if res != first:
                ctx.violation(f"the same script behaved differently under environment variant {k}", ps[i],
                              {"variant0": [x.decode(errors='replace') if isinstance(x, bytes) else x for x in first],
                               f"variant{k}": [x.decode(errors='replace') if isinstance(x, bytes) else x for x in res]})
                break
    # (iv) outcomes that could follow a hash order: each script 12 times
    check_repeated(ctx, undefined_name_scripts(ctx), "undefined-names")
    check_repeated(ctx, object_eq_scripts(ctx), "object-eq")
    # (iii)
    check_long_lines(ctx)
    ctx.sample({"stream": "determinism", "src": ps[0][:300], "runs": reps, "outcome": [x.decode(errors="replace") if isinstance(x, bytes) else x for x in by[0][0][1]][:2]})
