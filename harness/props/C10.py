"""C10 — `==` is a structural equivalence; `===` is identity; comparing never mutates."""
import re
import core
import tie
import lib_ints as li
import lib_ints_values as lv

PID = "C10"
RULE = ("a seeded pool of small nested values (depth <= 3 over null, true, false, 0, 1, \"\", \"a\", [], {}; width <= 2), each "
        "shape in several constructions: fresh literal, other insertion order, built step by step, through shared children "
        "(also shared between the two operands), as a spread copy, behind an alias. Every ordered pair of pool values is "
        "compared with `==`/`!=` (operands printed before and after) and with `===`/`!==`, one question per script because an "
        "error ends a script; the diagonal compares a value with an alias of itself. The oracle is the list of laws evaluated "
        "on the implementation's own answers: true on itself and on every deep copy, never true on different shapes, the "
        "same outcome for every construction of the same two shapes, never two different booleans for the two orders, "
        "transitive over all triples of shapes, `!=`/`!==` the negation (an error iff the other is), every error names the "
        "two types found at the reported path, `===` true exactly for the same container, no crash, operands print the "
        "same before and after; observe-after-compare: two identically built pairs, one of them compared (four times), then identity "
        "of every common part and the effect of an in-place update of either operand on the other must read the same for both "
        "pairs; long keys (20..70 bytes) with a 2/3/4-byte character at every offset above a type mismatch. Sampled triples are also run as real scripts. non-trivial = distinct (kind-skeleton of "
        "left shape, of right shape, construction pair, outcome class)")
ASSUMPTIONS = ["values that contain themselves are excluded (no finite unfolding)",
               "values containing functions are outside the function-free scope of the reflexivity clause: they are generated, "
               "checked only for 'boolean or diagnostic naming both types, no crash', and counted",
               "an error one way and `false` the other way is allowed by the statement; two different booleans are not"]

TYPE_WORD = re.compile(r"\b(null|bool|int|string|list|object|func)\b")
PATH = re.compile(r"\(at (.*)\)\s*$")
STEP = re.compile(r"\[(\d+)\]|\.'([^']*)'")


# ---------------------------------------------------------------------------- scripts
def pair_lines(va, vb, same):
    """statements declaring `a` and `b`; `same` = b is an alias of a"""
    b = lv.Builder()
    ea = b.build(va[0], va[1])
    b.lines.append(f"a := {ea}")
    if same:
        b.lines.append("b := a")
    else:
        eb = b.build(vb[0], vb[1])
        b.lines.append(f"b := {eb}")
    return b.lines


def common_paths(sa, sb, pre=""):
    """paths at which both shapes hold a container of the same kind (the root included)"""
    out = []
    if isinstance(sa, list) and isinstance(sb, list):
        out.append(pre)
        for i in range(min(len(sa), len(sb))):
            out += common_paths(sa[i], sb[i], f"{pre}[{i}]")
    elif isinstance(sa, dict) and isinstance(sb, dict):
        out.append(pre)
        for n in sorted(set(sa) & set(sb)):
            out += common_paths(sa[n], sb[n], f'{pre}["{n}"]')
    return out


def update_of(s, pre=""):
    """an in-place update of the first container found (breadth first): text after the variable name"""
    queue = [(s, pre)]
    while queue:
        cur, p = queue.pop(0)
        if isinstance(cur, dict):
            return p + '["zz"] = 7'
        if isinstance(cur, list):
            if cur:
                return p + "[0] = 7"
        if isinstance(cur, list):
            queue += [(c, f"{p}[{i}]") for i, c in enumerate(cur)]
        elif isinstance(cur, dict):
            queue += [(cur[n], f'{p}["{n}"]') for n in sorted(cur)]
    return None


def obs_lines(sa, sb, x, y):
    lines = [f"print({x}{p} === {y}{p})" for p in common_paths(sa, sb)[:8]]
    ua, ub = update_of(sa), update_of(sb)
    if ua:
        lines += [f"{x}{ua}", f"print({x})", f"print({y})"]
    if ub:
        lines += [f"{y}{ub.replace('7', '8')}", f"print({x})", f"print({y})"]
    return lines


def build(spec):
    k = spec["k"]
    if k in ("eq", "ne", "ref", "nref"):
        lines = pair_lines((spec["a"], spec["ra"]), (spec["b"], spec["rb"]), spec["same"])
        if k == "eq":
            lines += ["print(a)", "print(b)", 'print("#1")', "print(a == b)", "print(a != b)", 'print("#2")', "print(a)", "print(b)"]
        elif k == "ne":
            lines += ["print(a != b)"]
        elif k == "ref":
            lines += ["print(a)", "print(b)", 'print("#1")', "print(a === b)", "print(a !== b)", 'print("#2")', "print(a)", "print(b)"]
        else:
            lines += ["print(a !== b)"]
    elif k == "triple":
        b = lv.Builder()
        for n, (s, r) in zip("abc", spec["vals"]):
            b.lines.append(f"{n} := {b.build(s, r)}")
        lines = b.lines + ["print(a == b)", "print(b == c)", "print(a == c)"]
    elif k == "sym":
        lines = pair_lines((spec["a"], spec["ra"]), (spec["b"], spec["rb"]), spec["same"]) + ["print(a == b)", "print(b == a)"]
    elif k == "variants":
        lines = []
        b = lv.Builder()
        for i, (va, vb) in enumerate(spec["pairs"]):
            ea = b.build(va[0], va[1])
            b.lines.append(f"a{i} := {ea}")
            eb = b.build(vb[0], vb[1])
            b.lines.append(f"b{i} := {eb}")
        lines = b.lines + [f"print(a{i} == b{i})" for i in range(len(spec["pairs"]))]
    elif k == "func":
        lines = [spec["setup"], f"print({spec['expr']})"]
    elif k == "obs":
        # two independent copies of the same two values; only the first pair is compared; what can be observed afterwards
        # (identity of parts, the effect of an update on the other operand) must be the same for both pairs
        lines = []
        for an, bn, off in (("a", "b", 0), ("a2", "b2", 1000)):
            bld = lv.Builder()
            bld.n = off
            ea = bld.build(spec["a"], spec["ra"])
            bld.lines.append(f"{an} := {ea}")
            if spec["same"]:
                bld.lines.append(f"{bn} := {an}")
            else:
                eb = bld.build(spec["b"], spec["rb"])
                bld.lines.append(f"{bn} := {eb}")
            lines += bld.lines
        lines += ["print(a == b)", "print(b == a)", "print(a != b)", "print(a == b)"]
        for an, bn in (("a", "b"), ("a2", "b2")):
            lines.append('print("#")')
            lines += obs_lines(spec["a"], spec["b"], an, bn)
    elif k == "longkey":
        key = spec["key"]
        wrap = spec.get("wrap", "%s")
        oa = '{"' + key + '": 1}'
        ob = '{"' + key + '": "s"}'
        lines = ["a := " + wrap % oa, "b := " + wrap % ob, "print(a == b)"]
    elif k == "spelled":
        lines = pair_lines((spec["a"], spec["ra"]), (spec["b"], spec["rb"]), spec["same"])
        lines += ["print(" + SPELLINGS[spec["sp"]][0].replace("LA", lv.lit(spec["a"])).replace("LB", lv.lit(spec["b"])) + ")"]
    else:
        raise ValueError(k)
    return "\n".join(lines) + "\n" + li.trailer(PID, spec)


# the same question written differently: an operand as a literal instead of a name, the answer used as an operand of a
# further comparison.  (text, what the answer must be given the outcomes `o` of `a == b` and `p` of `b == a`)
def _neg(o):
    return ("F",) if o == ("T",) else ("T",) if o == ("F",) else o


SPELLINGS = [
    ("a == LB", lambda o, p: o),
    ("LA == b", lambda o, p: o),
    ("LA == LB", lambda o, p: o),
    ("LA != LB", lambda o, p: _neg(o)),
    ("(a == b) == true", lambda o, p: o),
    ("(a == b) == false", lambda o, p: _neg(o)),
    ("(a != b) == false", lambda o, p: o),
    ("true == (a == b)", lambda o, p: o),
    ("(a == b) != (a != b)", lambda o, p: ("T",) if o[0] in "TF" else o),
    ("(a == b) == (b == a)", lambda o, p: o if o[0] not in "TF" else p if p[0] not in "TF" else ("T",) if o == p else ("F",)),
    ("(a === b) == (b === a)", None),
]


# ---------------------------------------------------------------------------- outcomes
def parse_bool_lines(text):
    ls = text.split("\n")[:-1]
    return [{"true": True, "false": False}.get(l, l) for l in ls]


def err_outcome(err):
    msg = re.sub(r"^[^ ]*:\d+:\d+: ", "", err.split("\n")[0])
    m = PATH.search(msg)
    path = m.group(1) if m else ""
    head = msg[:m.start()] if m else msg
    return ("E", tuple(TYPE_WORD.findall(head)), path)


def outcome(r, idx=0, section=None):
    """('T',) / ('F',) / ('E', (types…), path) / ('CRASH', status) for the idx-th answer of a script"""
    if r["status"] not in ("0", "103"):
        return ("CRASH", r["status"])
    out = r["stdout"]
    if section is not None:
        parts = out.split("#1\n")
        out = parts[1].split("#2\n")[0] if len(parts) > 1 else ""
    vals = parse_bool_lines(out)
    if idx < len(vals):
        v = vals[idx]
        return ("T",) if v is True else ("F",) if v is False else ("?", v)
    if r["status"] == "103" and idx == len(vals):
        return err_outcome(r["stderr"])
    return ("-",)          # not reached: an earlier answer of the script was an error


def resolve(shape, path):
    """the sub-shape at a reported path like [0].'a'[1]; None when the path does not exist"""
    pos = 0
    cur = shape
    for m in STEP.finditer(path):
        if m.start() != pos:
            return None
        pos = m.end()
        if m.group(1) is not None:
            i = int(m.group(1))
            if not isinstance(cur, list) or i >= len(cur):
                return None
            cur = cur[i]
        else:
            if not isinstance(cur, dict) or m.group(2) not in cur:
                return None
            cur = cur[m.group(2)]
    return (cur,) if pos == len(path) else None


def check_error_names_types(sa, sb, oc):
    """an error outcome must name the two (different) types found at its path, left operand first"""
    _, types, path = oc
    if len(types) < 2:
        return f"the diagnostic does not name two types: {types}"
    ra, rb = resolve(sa, path), resolve(sb, path)
    if ra is None or rb is None:
        return f"the reported path {path!r} does not exist in both operands"
    ka, kb = lv.kind_of(ra[0]), lv.kind_of(rb[0])
    if (ka, kb) != tuple(types[:2]):
        return f"at {path!r} the operands hold '{ka}' and '{kb}', the diagnostic names {types[:2]}"
    if ka == kb:
        return f"at {path!r} both operands are '{ka}': not a type mismatch"
    return None


def judge(spec, r):
    """what a single script can show (the cross-script laws are judged in `run` and re-staged as `sym`, `triple`,
    `variants` scripts, which this function also judges)"""
    k = spec["k"]
    if r["status"] not in ("0", "103"):
        return False, f"exit status {r['status']} (crash): {r['stderr'][:200]}"
    if k in ("eq", "ref"):
        sa, sb = spec["a"], spec["b"]
        o1, o2 = outcome(r, 0, 1), outcome(r, 1, 1)
        parts = r["stdout"].split("#1\n")
        if r["status"] == "0":
            after = r["stdout"].split("#2\n")
            if len(parts) != 2 or len(after) != 2 or parts[0] != after[1]:
                return False, "the operands print differently after the comparison than before it"
            if {o1[0], o2[0]} != {"T", "F"}:
                return False, f"`{'==' if k == 'eq' else '==='}` answered {o1}, its negation answered {o2}"
        if k == "eq":
            same_shape = lv.key(sa) == lv.key(sb)
            if same_shape and o1 != ("T",):
                return False, f"a value compared with {'itself' if spec['same'] else 'a deep copy'} answered {o1}"
            if not same_shape and o1 == ("T",):
                return False, "values of different shape or contents compared equal"
            if o1[0] == "E":
                why = check_error_names_types(sa, sb, o1)
                if why:
                    return False, why + ": " + r["stderr"][:160]
            elif o1[0] not in "TF":
                return False, f"neither a boolean nor a diagnostic: {o1} {r['stderr'][:120]}"
        else:
            ka, kb = lv.kind_of(sa), lv.kind_of(sb)
            defined = ka == kb and ka in ("list", "object")
            if defined:
                want = ("T",) if spec["same"] else ("F",)
                if o1 != want:
                    return False, f"`===` on {'the same container' if spec['same'] else 'two different containers'} answered {o1}"
            else:
                if o1[0] != "E" or tuple(o1[1][:2]) != (ka, kb):
                    return False, f"`===` on '{ka}' and '{kb}' must be a diagnostic naming both types, got {o1}"
        return True, ""
    if k in ("ne", "nref", "spelled"):
        return True, ""
    if k == "sym":
        o1, o2 = outcome(r, 0), outcome(r, 1)
        if o1[0] in "TF" and o2[0] in "TF" and o1 != o2:
            return False, f"a == b answered {o1[0]}, b == a answered {o2[0]}"
        return True, ""
    if k == "triple":
        o = [outcome(r, i) for i in range(3)]
        if o[0] == ("T",) and o[1] == ("T",) and o[2] != ("T",):
            return False, f"a == b and b == c are true, a == c answered {o[2]}"
        return True, ""
    if k == "variants":
        os_ = [outcome(r, i) for i in range(len(spec["pairs"]))]
        if len({o for o in os_ if o != ("-",)}) > 1:
            return False, f"the same two shapes, built differently, compare differently: {os_}"
        return True, ""
    if k == "obs":
        if r["status"] != "0":
            return True, ""            # a comparison that is an error ends the script: nothing to observe afterwards
        parts = r["stdout"].split("#\n")
        if len(parts) != 3:
            return False, "the observation script did not print its three sections"
        answers = parts[0].split("\n")[:-1]
        if len(answers) == 4 and answers[0] != answers[3]:
            return False, f"`a == b` answered {answers[0]} and, asked again, {answers[3]}"
        if parts[1] != parts[2]:
            la, lb = parts[1].split("\n"), parts[2].split("\n")
            d = next((i for i, (u, v) in enumerate(zip(la, lb)) if u != v), min(len(la), len(lb)))
            return False, ("comparing changed what can be observed afterwards (identity of parts / effect of an update on the other "
                           f"operand): observation line {d + 1} is {la[d] if d < len(la) else None!r} for the compared pair and "
                           f"{lb[d] if d < len(lb) else None!r} for an identically built pair that was not compared")
        return True, ""
    if k == "longkey":
        o = outcome(r, 0)
        if o[0] != "E" or tuple(o[1][:2]) != ("int", "string"):
            return False, f"an int and a string under the same (long, multi-byte) key must be a diagnostic naming both types, got {o}: {r['stderr'][:160]}"
        return True, ""
    if k == "func":
        o = outcome(r, 0)
        if spec.get("want") and o[:len(spec["want"])] != tuple(spec["want"]) and not (o[0] == "E" and spec["want"][0] == "E" and
                                                                                     tuple(o[1][:2]) == tuple(spec["want"][1])):
            return False, f"{spec['expr']}: expected {spec['want']}, got {o}"
        return True, ""
    return True, ""


def oracle_one(ctx, src, r):
    spec = li.spec_of(PID, src)
    if spec is None or build(spec) != src:
        ok = r["status"] in ("0", "103")
        return ok, "" if ok else f"exit status {r['status']}"
    if spec["k"] == "spelled":
        # the law relates three scripts: what `a == b` and `b == a` answer decides what the other spelling must answer
        fwd = dict(spec, k="eq")
        bwd = dict(spec, k="eq", a=spec["b"], ra=spec["rb"], b=spec["a"], rb=spec["ra"])
        o, p_ = outcome(core.run_cli(build(fwd)), 0, 1), outcome(core.run_cli(build(bwd)), 0, 1)
        text, want_fn = SPELLINGS[spec["sp"]]
        got = outcome(r, 0)
        want = want_fn(o, p_) if want_fn else (got if got[0] == "E" else ("T",))
        if got != want:
            return False, f"`a == b` is {o}, `b == a` is {p_}, so `{text}` must be {want}, but it is {got}"
        return True, ""
    return judge(spec, r)


# ---------------------------------------------------------------------------- driver
def skeleton(s):
    if isinstance(s, list):
        return "[" + ",".join(skeleton(c) for c in s) + "]"
    if isinstance(s, dict):
        return "{" + ",".join(n + ":" + skeleton(s[n]) for n in sorted(s)) + "}"
    return lv.kind_of(s)[0]


def oclass(o):
    return o[0] if o[0] != "E" else "E:" + "/".join(o[1][:2]) + ("@" if o[2] else "")


FUNC_CASES = [
    ("fn f() { return 1; }", "f == f", ["E", ["func", "func"]]),
    ("fn f() { return 1; }\ng := f", "f === g", ["T"]),
    ("fn f() { return 1; }\ng := fn() { return 1; }", "f === g", ["F"]),
    ("fn f() { return 1; }\ng := fn() { return 1; }", "g !== f", ["T"]),
    ("fn f() { return 1; }", "f != f", ["E", ["func", "func"]]),
    ("fn f() { return 1; }", "[f] == [f]", ["E", ["func", "func"]]),
    ("fn f() { return 1; }\na := [f]", "a == a", None),
    ("fn f() { return 1; }\na := {\"k\": f}", "a == {\"k\": f}", ["E", ["func", "func"]]),
    ("fn f() { return 1; }", "f == print", ["E", ["func", "func"]]),
    ("x := 1", "print == print", ["E", ["func", "func"]]),
    ("x := 1", "print === print", ["E", ["func", "func"]]),
    ("fn f() { return 1; }", "f == 1", ["E", ["func", "int"]]),
    ("fn f() { return 1; }", "[1, f] == [2, f]", ["F"]),
    ("fn f() { return 1; }", "[f, 1] == [f]", ["F"]),
]


def _crossed_sharing_cases():
    """both operands share children, in every pattern over three positions: the answer is that of the unfolded trees, whatever
    pair of containers was compared before (left leaves a=[1], b=[2]; right leaves c=[1], d=[2] or d=["s"])"""
    import itertools
    out = []
    for dlit, dval in (("[2]", 2), ("[\"s\"]", "s")):
        setup = f"a := [1]\nb := [2]\nc := [1]\nd := {dlit}"
        for lp in itertools.product("ab", repeat=3):
            for rp in itertools.product("cd", repeat=3):
                want = ["T"]
                for l, r in zip(lp, rp):
                    lv_, rv_ = (1 if l == "a" else 2), (1 if r == "c" else dval)
                    if lv_ == rv_:
                        continue
                    want = ["F"] if isinstance(rv_, int) else ["E", ["int", "string"]]
                    break
                out.append((setup, f"[{', '.join(lp)}] == [{', '.join(rp)}]", want))
                out.append((setup, f"{{\"p\": {lp[0]}, \"q\": {lp[1]}, \"r\": {lp[2]}}} == {{\"p\": {rp[0]}, \"q\": {rp[1]}, \"r\": {rp[2]}}}", want))
    return out


_NEST = "fn nest(v, n) {\n    r := v\n    i := 0\n    while i < n {\n        r = [r]\n        i += 1\n    }\n    return r\n}"
FUNC_CASES += _crossed_sharing_cases() + [
    # depth is no limit of `==` (well inside what the host stack carries)
    (_NEST, "nest(1, 1200) == nest(1, 1200)", ["T"]),
    (_NEST, "nest(1, 1200) == nest(2, 1200)", ["F"]),
    (_NEST, "nest(1, 1200) != nest(2, 1200)", ["T"]),
    (_NEST, "nest(1, 1200) == nest(\"a\", 1200)", ["E", ["int", "string"]]),
    (_NEST, "nest(1, 1200) == nest(1, 1199)", ["E", ["list", "int"]]),
    (_NEST + "\nx := nest([], 1100)", "x == x", ["T"]),
    (_NEST + "\nx := nest([], 1100)", "[x, 1] == [x, 2]", ["F"]),
]


class Reporter:
    def __init__(self, ctx, limit=6):
        self.ctx = ctx
        self.keys = set()
        self.limit = limit

    def report(self, key, spec, why_hint):
        """re-stage through the CLI; count only if the single script shows it"""
        if key in self.keys or len(self.keys) >= self.limit:
            return
        src = build(spec)
        c = core.run_cli(src)
        self.ctx.cov["cli_reconfirmed"] += 1
        ok, why = judge(spec, c)
        if ok:
            return
        self.keys.add(key)
        self.ctx.violation(why or why_hint, src, {"cli": c, "spec": spec})


def run_chunked(ctx, specs, label, model_ok, chunk=60000):
    impl_all, failing = [], []
    for i in range(0, len(specs), chunk):
        part = specs[i:i + chunk]
        srcs = [build(s) for s in part]
        impl, dis = tie.run(ctx, srcs, label, model_ok, project=tie.proj_full)
        impl_all.extend(impl)
        failing.extend(dis)
    return impl_all, failing


def run(ctx, model_ok):
    thorough = ctx.tier == "thorough"
    rng = ctx.rng
    vals = lv.value_pool(rng, 180 if thorough else 95, 600 if thorough else 200)
    n = len(vals)
    ctx.cov["pool"] = {"values": n, "shapes": len({lv.key(s) for s, _ in vals}),
                       "recipes": {r: sum(1 for _, x in vals if x == r) for r in lv.RECIPES},
                       "depth": {d: sum(1 for s, _ in vals if lv.depth(s) == d) for d in range(4)}}
    ctx.cov["exhaustive"] = True
    rep = Reporter(ctx)
    all_dis = []

    # ------------------------------------------------------------------ corpus first
    cspecs = li.corpus_specs(PID, build)
    cres, dis = run_chunked(ctx, cspecs, "corpus", model_ok)
    all_dis += dis
    for spec, r in zip(cspecs, cres):
        ok, why = judge(spec, r)
        if not ok:
            rep.report(("corpus", why[:40]), spec, why)

    # ------------------------------------------------------------------ all ordered pairs, `==` / `!=`
    def pspec(k, i, j):
        return {"k": k, "a": vals[i][0], "ra": vals[i][1], "b": vals[j][0], "rb": vals[j][1], "same": i == j}
    pairs = [(i, j) for i in range(n) for j in range(n)]
    eq_specs = [pspec("eq", i, j) for i, j in pairs]
    eq_res, dis = run_chunked(ctx, eq_specs, "pairs-eq", model_ok)
    all_dis += dis
    table = {}
    for (i, j), spec, r in zip(pairs, eq_specs, eq_res):
        o = outcome(r, 0, 1)
        table[(i, j)] = o
        ctx.dist("eq:" + oclass(o).split("@")[0].split(":")[0])
        ctx.nontrivial((skeleton(vals[i][0]), skeleton(vals[j][0]), vals[i][1], vals[j][1], oclass(o)))
        ok, why = judge(spec, r)
        if not ok:
            rep.report(("eq", why[:40]), spec, why)
    # `!=` where `==` was an error: must be the same error
    err_pairs = [(i, j) for (i, j) in pairs if table[(i, j)][0] == "E"]
    ne_specs = [pspec("ne", i, j) for i, j in err_pairs]
    ne_res, dis = run_chunked(ctx, ne_specs, "pairs-ne-after-error", model_ok)
    all_dis += dis
    for (i, j), spec, r in zip(err_pairs, ne_specs, ne_res):
        o = outcome(r, 0)
        if o != table[(i, j)]:
            both = dict(spec, k="eq")
            c = core.run_cli(build(spec))
            if outcome(c, 0) != table[(i, j)]:
                key = ("ne", oclass(o))
                if key not in rep.keys and len(rep.keys) < rep.limit:
                    rep.keys.add(key)
                    ctx.violation(f"`==` is {table[(i, j)]} but `!=` on the same operands is {outcome(c, 0)}", build(spec),
                                  {"cli": c, "eq_script": build(both)})

    # ------------------------------------------------------------------ laws over the table
    shape_of = [lv.key(s) for s, _ in vals]
    by_shapes = {}
    for (i, j), o in table.items():
        by_shapes.setdefault((shape_of[i], shape_of[j]), []).append((i, j, o))
    shape_tab = {}
    for kk, items in by_shapes.items():
        outs = {o for _, _, o in items}
        shape_tab[kk] = items[0][2]
        if len(outs) > 1:
            firsts = {}
            for i, j, o in items:
                firsts.setdefault(o, (i, j))
            ps = [[list(vals[i]), list(vals[j])] for i, j in list(firsts.values())[:3]]
            rep.report(("variants", str(sorted(map(oclass, outs)))), {"k": "variants", "pairs": ps},
                       f"the same two shapes compare as {outs} depending on how they were built")
    ctx.cov["laws"] = {"shape_pairs": len(shape_tab)}
    # two different booleans for the two orders
    nsym = 0
    for (i, j), o in table.items():
        p = table[(j, i)]
        if i < j and o[0] in "TF" and p[0] in "TF":
            nsym += 1
            if o != p:
                rep.report(("sym",), dict(pspec("sym", i, j)), f"a == b is {o}, b == a is {p}")
    asym = sum(1 for (i, j), o in table.items() if i < j and {o[0], table[(j, i)][0]} == {"E", "F"})
    ctx.cov["laws"].update({"symmetric_boolean_pairs": nsym, "error_one_way_false_the_other": asym})
    # transitivity over all triples of shapes
    shapes = sorted({k for k in shape_of}, key=repr)
    eqs = {s: [t for t in shapes if shape_tab.get((s, t)) == ("T",)] for s in shapes}
    ntrans = 0
    rep_idx = {}
    for i, k in enumerate(shape_of):
        rep_idx.setdefault(k, i)
    for s in shapes:
        for t in eqs[s]:
            for u in eqs[t]:
                ntrans += 1
                if shape_tab.get((s, u)) != ("T",):
                    tr = {"k": "triple", "vals": [list(vals[rep_idx[x]]) for x in (s, t, u)]}
                    rep.report(("trans",), tr, "a == b and b == c but not a == c")
    ctx.cov["laws"]["transitive_triples_of_shapes"] = ntrans

    # ------------------------------------------------------------------ the same question in other spellings
    leaf_idx = [i for i, (s, _) in enumerate(vals) if lv.depth(s) == 0 or s in ([], {})]
    sp_pairs = {(i, j) for i in leaf_idx for j in range(n)} | {(j, i) for i in leaf_idx for j in range(n)}
    by_shape, by_kind = {}, {}
    for i, (s, _) in enumerate(vals):
        by_shape.setdefault(lv.key(s), []).append(i)
        by_kind.setdefault(lv.kind_of(s), []).append(i)
    groups = [g for g in by_shape.values() if len(g) >= 2]
    target = len(sp_pairs) + (10000 if thorough else 1200)
    while len(sp_pairs) < target:          # mostly pairs that compare to a boolean: one shape twice, or one kind twice
        c = rng.random()
        g = rng.choice(groups) if c < 0.45 and groups else rng.choice(list(by_kind.values())) if c < 0.85 else range(n)
        sp_pairs.add((rng.choice(g), rng.choice(g)))
    sp_pairs = sorted(sp_pairs)
    sp_specs = [dict(pspec("spelled", i, j), sp=k) for i, j in sp_pairs for k in range(len(SPELLINGS))]
    sp_res, dis = run_chunked(ctx, sp_specs, "spellings", model_ok)
    all_dis += dis
    ctx.cov["spellings"] = {"pairs": len(sp_pairs), "spellings": [s for s, _ in SPELLINGS], "scripts": len(sp_specs)}
    for n_, (spec, r) in enumerate(zip(sp_specs, sp_res)):
        i, j = sp_pairs[n_ // len(SPELLINGS)]
        text, want_fn = SPELLINGS[spec["sp"]]
        o = outcome(r, 0)
        want = want_fn(table[(i, j)], table[(j, i)]) if want_fn else None
        if want_fn is None:
            # `===` on non-containers is an error naming both types; on containers both orders agree
            want = o if o[0] == "E" else ("T",)
        ctx.dist("spelled:" + text + ":" + o[0])
        if o != want:
            key = ("spelled", text)
            if key in rep.keys or len(rep.keys) >= rep.limit + 4:
                continue
            c = core.run_cli(build(spec))
            ctx.cov["cli_reconfirmed"] += 1
            if outcome(c, 0) != want:
                rep.keys.add(key)
                ctx.violation(f"with a := {lv.lit(spec['a'])} and b := {lv.lit(spec['b'])}, `a == b` is {table[(i, j)]} and `b == a` is "
                              f"{table[(j, i)]}, so `{text}` must be {want}, but it is {outcome(c, 0)}", build(spec), {"cli": c, "spec": spec})

    # ------------------------------------------------------------------ `===` / `!==`
    ref_specs = [pspec("ref", i, j) for i, j in pairs]
    ref_res, dis = run_chunked(ctx, ref_specs, "pairs-ref", model_ok)
    all_dis += dis
    rtable = {}
    for (i, j), spec, r in zip(pairs, ref_specs, ref_res):
        o = outcome(r, 0, 1)
        rtable[(i, j)] = o
        ctx.dist("ref:" + oclass(o).split(":")[0])
        ctx.nontrivial(("ref", lv.kind_of(vals[i][0]), lv.kind_of(vals[j][0]), i == j, vals[i][1] if i == j else "", oclass(o)))
        ok, why = judge(spec, r)
        if not ok:
            rep.report(("ref", why[:40]), spec, why)
        # a === b implies a == b for data
        if o == ("T",) and table[(i, j)] != ("T",):
            rep.report(("ref-implies-eq",), pspec("eq", i, j), "a === b is true but a == b is not")
    for (i, j), o in rtable.items():
        if i < j and o[0] in "TF" and rtable[(j, i)][0] in "TF" and o != rtable[(j, i)]:
            ctx.violation(f"a === b is {o}, b === a is {rtable[(j, i)]}", build(pspec("ref", i, j)), {"other": build(pspec("ref", j, i))})
    nref_pairs = [(i, j) for (i, j) in pairs if rtable[(i, j)][0] == "E"]
    if not thorough:
        nref_pairs = nref_pairs[::7]
    else:
        nref_pairs = nref_pairs[::23]
    nref_specs = [pspec("nref", i, j) for i, j in nref_pairs]
    nref_res, dis = run_chunked(ctx, nref_specs, "pairs-nref-after-error", model_ok)
    all_dis += dis
    for (i, j), spec, r in zip(nref_pairs, nref_specs, nref_res):
        if outcome(r, 0) != rtable[(i, j)]:
            c = core.run_cli(build(spec))
            if outcome(c, 0) != rtable[(i, j)] and ("nref",) not in rep.keys:
                rep.keys.add(("nref",))
                ctx.violation(f"`===` is {rtable[(i, j)]} but `!==` on the same operands is {outcome(c, 0)}", build(spec), {"cli": c})

    # ------------------------------------------------------------------ sampled triples as real scripts
    ntri = 500000 if thorough else 20000
    cls = {}
    for i, k in enumerate(shape_of):
        cls.setdefault(k, []).append(i)
    multi = [v for v in cls.values() if len(v) >= 2]
    tri = []
    for t in range(ntri):
        c = rng.random()
        if c < 0.5 and multi:
            g = rng.choice(multi)
            ids = [rng.choice(g) for _ in range(3)]             # three constructions of one shape
        elif c < 0.75 and multi:
            g = rng.choice(multi)
            ids = [rng.choice(g), rng.choice(g), rng.randrange(n)]
            rng.shuffle(ids)
        else:
            ids = [rng.randrange(n) for _ in range(3)]
        tri.append({"k": "triple", "vals": [list(vals[i]) for i in ids]})
    tri_res, dis = run_chunked(ctx, tri, "triples", model_ok)
    all_dis += dis
    for spec, r in zip(tri, tri_res):
        o = [outcome(r, i) for i in range(3)]
        ctx.dist("triple:" + ("all-true" if o == [("T",)] * 3 else "first-error" if o[0][0] == "E" else "mixed"))
        ok, why = judge(spec, r)
        if not ok:
            rep.report(("triple",), spec, why)

    # ------------------------------------------------------------------ comparing leaves nothing behind
    cont = [i for i, (sh, _) in enumerate(vals) if lv.is_container(sh)]
    okp = [(i, j) for i in cont for j in cont if table[(i, j)][0] in "TF" and table[(j, i)][0] in "TF"]
    eqp = [(i, j) for (i, j) in okp if table[(i, j)] == ("T",)]
    others = [pq for pq in okp if table[pq] != ("T",)]
    rng.shuffle(others)
    obs_pairs = eqp[:(20000 if thorough else 2500)] + others[:(6000 if thorough else 700)]
    ospecs = [pspec("obs", i, j) for i, j in obs_pairs]
    ores, dis = run_chunked(ctx, ospecs, "observe-after-compare", model_ok)
    all_dis += dis
    ctx.cov["observe_after_compare"] = {"pairs": len(obs_pairs), "equal": min(len(eqp), 20000 if thorough else 2500)}
    for spec, r in zip(ospecs, ores):
        ctx.nontrivial(("obs", skeleton(spec["a"]), skeleton(spec["b"]), spec["ra"], spec["rb"]))
        ok, why = judge(spec, r)
        if not ok:
            rep.report(("obs", why[:50]), spec, why)
    # ------------------------------------------------------------------ long keys with multi-byte characters on the error path
    lk = []
    for total in (20, 30, 45, 60, 70):
        for ch in ("é", "€", "\U0001F600"):
            for at in range(0, total - 1, 1 if thorough or total in (30, 45) else 3):
                key_ = "k" * at + ch + "k" * max(0, total - at - len(ch.encode()))
                for wrap in ("%s", "[0, %s]", '{"in": %s}'):
                    lk.append({"k": "longkey", "key": key_, "wrap": wrap})
    lres, dis = run_chunked(ctx, lk, "long-multibyte-keys", model_ok)
    all_dis += dis
    for spec, r in zip(lk, lres):
        ctx.nontrivial(("longkey", len(spec["key"].encode()), spec["wrap"]))
        ok, why = judge(spec, r)
        if not ok:
            rep.report(("longkey", why[:40]), spec, why)

    # ------------------------------------------------------------------ functions (outside the function-free scope)
    fspecs = [{"k": "func", "setup": s, "expr": e, "want": w} for s, e, w in FUNC_CASES]
    fres, dis = run_chunked(ctx, fspecs, "functions", model_ok)
    all_dis += dis
    ctx.exclude("values_containing_functions_not_judged_for_reflexivity", sum(1 for f in fspecs if f["want"] is None))
    for spec, r in zip(fspecs, fres):
        ctx.nontrivial(("func", spec["expr"], oclass(outcome(r, 0))))
        ok, why = judge(spec, r)
        if not ok:
            rep.report(("func", spec["expr"]), spec, why)
    ctx.exclude("cyclic_values_not_generated", 0)

    tie.report_disagreements(ctx, all_dis, "C10 streams")
    for i in (n + 3, len(eq_specs) // 2 + 11, len(eq_specs) - 5):
        ctx.sample({"src": build(eq_specs[i])[:300], "impl": {k: v[:120] for k, v in eq_res[i].items()}})
    ctx.sample({"src": build(tri[0])[:300], "impl": {k: v[:120] for k, v in tri_res[0].items()}})
