"""C11 — list/string indexing, slicing and concatenation obey the sequence laws."""
import itertools
import core
import tie

RULE = ("all lists and strings of length 0..4 (quick) / 0..5 (thorough) x all indices and bounds in [-2, len+2] plus omitted "
        "bounds x {read, element assign, range assign with rhs of length 0..len+1 as list and as string, concatenation laws}, concatenation through `+=` on every "
        "kind of target (variable, element, property, string key, nested) for lists and strings; "
        "Python slicing with explicit domain checks is the oracle; every operation predicted to fail runs in its own script; "
        "non-trivial = distinct (sequence kind, operation, predicted output) for succeeding scripts — operations predicted to "
        "print the same count once — and distinct (sequence kind, operation, sequence) for scripts predicted to fail")
ASSUMPTIONS = ["strings are indexed by UTF-8 byte; slices that cut a multi-byte character are compared byte-wise in-language"]


def lit_list(xs):
    return "[" + ", ".join(str(x) for x in xs) + "]"


def render_list(xs):
    return "[\n" + "".join(f"    {x},\n" for x in xs) + "]\n"


def bound(x):
    return "" if x is None else (str(x) if x >= 0 else f"(0 - {-x})")


def cases_for_list(n, ok_scripts, fail_scripts, thorough):
    xs = [10 + i for i in range(n)]
    grid = list(range(-2, n + 3))
    # --- reads: one script with every successful read, one script per failing read
    body = [f"xs := {lit_list(xs)}"]
    exp = []
    for i in grid:
        if 0 <= i < n:
            body.append(f"print(xs[{bound(i)}])")
            exp.append(f"{xs[i]}\n")
        else:
            fail_scripts.append((("list", n, "index", i), f"xs := {lit_list(xs)}\nprint(xs[{bound(i)}])\nprint(\"unreachable\")\n", ""))
    for a, b in itertools.product([None] + grid, repeat=2):
        lo = 0 if a is None else a
        hi = n if b is None else b
        src = f"xs[{bound(a)}:{bound(b)}]"
        if 0 <= lo <= hi <= n:
            body.append(f"print({src})")
            exp.append(render_list(xs[lo:hi]))
            body.append(f"print(({src} + xs[{bound(hi)}:]) == xs[{bound(lo)}:])")
            exp.append("true\n")
        else:
            fail_scripts.append((("list", n, "range", a, b), f"xs := {lit_list(xs)}\nprint({src})\nprint(\"unreachable\")\n", ""))
    # concatenation laws
    for k in range(0, n + 1):
        body.append(f"print((xs[:{k}] + xs[{k}:]) == xs)")
        exp.append("true\n")
    ys = [70 + i for i in range(3)]
    body.append(f"ys := {lit_list(ys)}")
    for i in range(3):
        body.append(f"print((xs + ys)[{n} + {i}] == ys[{i}])")
        exp.append("true\n")
    for i in range(n):
        body.append(f"print((xs + ys)[{i}] == xs[{i}])")
        exp.append("true\n")
    ok_scripts.append((("list", n, "reads"), "\n".join(body) + "\n", "".join(exp)))
    # --- element assignment
    for i in grid:
        src = f"xs := {lit_list(xs)}\nxs[{bound(i)}] = 99\nprint(xs)\n"
        if 0 <= i < n:
            new = list(xs)
            new[i] = 99
            ok_scripts.append((("list", n, "set", i), src, render_list(new)))
        else:
            fail_scripts.append((("list", n, "set", i), src, ""))
    # --- range assignment
    for a, b in itertools.product([None] + grid, repeat=2):
        lo = 0 if a is None else a
        hi = n if b is None else b
        for m in range(0, n + 2):
            for as_str in (False, True):
                if as_str and not thorough and m not in (hi - lo, 1):
                    continue
                rhs = [f'"{chr(97 + j)}"' for j in range(m)] if as_str else [90 + j for j in range(m)]
                rhs_src = ('"' + "".join(chr(97 + j) for j in range(m)) + '"') if as_str else lit_list(rhs)
                src = f"xs := {lit_list(xs)}\nxs[{bound(a)}:{bound(b)}] = {rhs_src}\nprint(xs)\n"
                if 0 <= lo < hi <= n and m == hi - lo:
                    elems = [chr(97 + j) for j in range(m)] if as_str else rhs
                    new = xs[:lo] + elems + xs[hi:]
                    ok_scripts.append((("list", n, "rset", a, b, m, as_str), src, render_list(new)))
                else:
                    fail_scripts.append((("list", n, "rset", a, b, m, as_str), src, ""))


def multibyte_rset_cases(ok_scripts, fail_scripts):
    """a string on the right of a range assignment contributes its *bytes* (as one-byte strings)"""
    for s in ["é", "aé", "€", "é€", "😀"]:
        nb = len(s.encode("utf-8"))
        for n in range(nb, nb + 3):
            xs = [10 + i for i in range(n)]
            for a in range(0, n - nb + 1):
                b = a + nb
                body = [f"xs := {lit_list(xs)}", f's := "{s}"', f"xs[{a}:{b}] = s"]
                exp = []
                for k in range(nb):
                    body.append(f"print(xs[{a + k}] == s[{k}])")
                    exp.append("true\n")
                for i in range(n):
                    if not a <= i < b:
                        body.append(f"print(xs[{i}])")
                        exp.append(f"{xs[i]}\n")
                body.append("n := 0\nfor [k, v] in xs {\n    n += 1\n}\nprint(n)")
                exp.append(f"{n}\n")
                ok_scripts.append((("list", n, "rset-bytes", s, a), "\n".join(body) + "\n", "".join(exp)))
            # as many *characters* as indices, but more bytes: must be rejected
            nc = len(s)
            if nc != nb and nc <= n:
                fail_scripts.append((("list", n, "rset-chars", s), f"xs := {lit_list(xs)}\nxs[0:{nc}] = \"{s}\"\nprint(\"unreachable\")\n", ""))


def concat_fresh_cases(ok_scripts):
    """`s + t` is a new sequence also when one operand is empty: updating it leaves the operands alone"""
    for n in range(0, 4):
        xs = [10 + i for i in range(n)]
        for form in ("xs + []", "[] + xs", "xs + xs[0:0]", "xs[0:0] + xs"):
            if n == 0:
                continue
            new = list(xs)
            new[0] = 99
            src = (f"xs := {lit_list(xs)}\nys := {form}\nys[0] = 99\nprint(xs)\nprint(ys)\nys[0:1] = [7]\nprint(xs)\n"
                   f"print(ys == xs)\n")
            ok_scripts.append((("list", n, "concat-fresh", form), src, render_list(xs) + render_list(new) + render_list(xs) + "false\n"))


def concat_target_cases(ok_scripts):
    """`t += rhs` is `t = t + rhs` (left operand first) whatever kind of target `t` is: variable, element, property, index
    with a string key, nested element; for lists and for strings; element k of the result is element k of the left operand
    for k < len(left), else element k - len(left) of the right one"""
    seqs = [("list", [1, 2], [3]), ("list", [], [7, 8]), ("list", [5], []), ("list", [1, 2, 3], [1, 2]),
            ("str", "ab", "cd"), ("str", "", "xy"), ("str", "q", ""), ("str", "é", "a€")]
    targets = [("var", "t := @L\n", "t"), ("elem", "xs := [0, @L, 0]\n", "xs[1]"), ("prop", 'o := {"k": @L, "z": 0}\n', "o.k"),
               ("index-key", 'o := {"k": @L, "z": 0}\n', 'o["k"]'), ("nested", "xs := [[@L], 0]\n", "xs[0][0]"),
               ("prop-of-elem", 'xs := [{"k": @L}]\n', "xs[0].k")]
    for kind, left, right in seqs:
        lit = (lambda v: lit_list(v)) if kind == "list" else (lambda v: '"' + v + '"')
        lb = left if kind == "list" else list(left.encode("utf-8"))
        rb = right if kind == "list" else list(right.encode("utf-8"))
        for tname, decl, t in targets:
            body = [decl.replace("@L", lit(left)).rstrip("\n"), f"l := {lit(left)}", f"r := {lit(right)}", f"{t} += r"]
            exp = []
            body.append(f"print({t} == (l + r))")
            exp.append("true\n")
            if kind == "list":
                body.append(f"print({t})")
                exp.append(render_list(left + right))
            elif all(ord(c) < 128 for c in left + right):
                body.append(f"print({t})")
                exp.append(left + right + "\n")
            for k in range(len(lb) + len(rb)):
                src = f"l[{k}]" if k < len(lb) else f"r[{k - len(lb)}]"
                body.append(f"print({t}[{k}] == {src})")
                exp.append("true\n")
            body.append(f"print(l == {lit(left)})\nprint(r == {lit(right)})")
            exp.append("true\ntrue\n")
            ok_scripts.append(((kind, len(lb), "concat-assign", tname, len(rb)), "\n".join(body) + "\n", "".join(exp)))
            # the same with the target holding the LEFT OPERAND ITSELF (not an equal copy): the concatenation is a new sequence,
            # the value `l` names keeps its length and its elements — also when the right operand is that same value
            for rname, rv in (("r", right), ("l", left)):
                rvb = rv if kind == "list" else list(rv.encode("utf-8"))
                body = [f"l := {lit(left)}", decl.replace("@L", "l").rstrip("\n"), f"r := {lit(right)}", f"{t} += {rname}"]
                exp = []
                body.append(f"print({t} == {lit(left + rv)})")
                exp.append("true\n")
                body.append(f"print(l == {lit(left)})\nprint(r == {lit(right)})")
                exp.append("true\ntrue\n")
                if kind == "list":
                    body.append(f"print(l)\nprint({t} === l)")
                    exp.append(render_list(left) + "false\n")
                    if left + rv:
                        body.append(f"{t}[0] = 77\nprint(l == {lit(left)})")
                        exp.append("true\n")
                for k in range(len(lb)):
                    body.append(f"print({t}[{k}] == l[{k}])")
                    exp.append("true\n" if not (kind == "list" and k == 0) else "false\n")
                body.append(f"n := 0\nfor [k, v] in l {{\n    n += 1\n}}\nprint(n)")
                exp.append(f"{len(lb)}\n")
                ok_scripts.append(((kind, len(lb), "concat-assign-aliased", tname, rname, len(rvb)), "\n".join(body) + "\n", "".join(exp)))


def self_referential_cases(ok_scripts):
    """index and range targets, bounds and right-hand sides that read the very list being updated: a destructuring assignment
    takes the items of the (live) right-hand side one by one, left to right; bounds are evaluated before the update"""
    import itertools as it
    for n in (2, 3):
        xs = [10 * (i + 1) for i in range(n)]
        for perm in it.permutations(range(n)):
            live = list(xs)
            for k, idx in enumerate(perm):
                live[idx] = live[k]
            tg = ", ".join(f"ys[{i}]" for i in perm)
            ok_scripts.append((("list", n, "destructure-into-self", perm), f"ys := {lit_list(xs)}\n[{tg}] = ys\nprint(ys)\n", render_list(live)))
            fresh = list(xs)
            vals = list(xs)
            for k, idx in enumerate(perm):
                fresh[idx] = vals[k]
            ok_scripts.append((("list", n, "destructure-into-self-copy", perm), f"ys := {lit_list(xs)}\n[{tg}] = ys[:]\nprint(ys)\n", render_list(fresh)))
    ln = "fn len(l) {\n    n := 0\n    for [i, v] in l {\n        n += 1\n    }\n    return n\n}\n"
    cases = [
        ("xs := [2, 0, 0, 0]\nxs[1:xs[0] + 1] = [5, 6]\nprint(xs)\n", [2, 5, 6, 0]),
        ("xs := [1, 0, 0]\nxs[xs[0]:] = [8, 9]\nprint(xs)\n", [1, 8, 9]),
        (ln + "xs := [1, 2, 3, 4]\nxs[2:len(xs)] = [7, 8]\nprint(xs)\n", [1, 2, 7, 8]),
        (ln + "xs := [1, 2, 3, 4]\nxs[len(xs) - 1] = 9\nprint(xs)\n", [1, 2, 3, 9]),
        ("xs := [1, 2, 3]\nxs[xs[0]] = xs[2]\nprint(xs)\n", [1, 3, 3]),
        ("xs := [0, 1, 2, 3]\nxs[0:2] = xs[2:4]\nprint(xs)\n", [2, 3, 2, 3]),
        ("xs := [0, 1, 2, 3]\nxs[0:4] = xs\nprint(xs)\n", [0, 1, 2, 3]),
        ("xs := [1, 2]\nxs[xs[0]] += xs[0]\nprint(xs)\n", [1, 3]),
        ("xs := [3, 1, 2]\n[xs[0], xs[1]] = [xs[1], xs[0]]\nprint(xs)\n", [1, 3, 2]),
        ("xs := [[1], [2]]\nxs[0][0:1] = xs[1]\nprint(xs[0])\n", [2]),
    ]
    for i, (src, exp) in enumerate(cases):
        ok_scripts.append((("list", len(exp), "self-referential", i), src, render_list(exp)))
    reads = [("perm := [2, 0, 1]\nprint(perm[perm[0]])\nprint(perm[perm[perm[0]]])\n", "1\n0\n"),
             ("xs := [1, 2, 3]\nfn last() {\n    xs[0] = 7\n    return 2\n}\nprint(xs[last()])\nprint(xs[0])\n", "3\n7\n"),
             ("xs := [0, 1, 2, 3]\nprint(xs[xs[1]:xs[3]])\n", render_list([1, 2])),
             ("s := \"abc\"\nidx := [2, 0]\nprint(s[idx[idx[1] + 1]])\n", "a\n"),
             ("o := {\"k\": [5, 6]}\nprint(o.k[o.k[0] - 5])\n", "5\n")]
    for i, (src, exp) in enumerate(reads):
        ok_scripts.append((("list", 3, "self-referential-read", i), src, exp))


def self_referential_failures(fail_scripts):
    """a range assignment whose right-hand side is the target list itself is checked like any other"""
    for i, stmt in enumerate(["xs[0:2] = xs", "xs[1:9] = xs", "xs[(0 - 1):] = xs", "xs[:\"two\"] = xs", "xs[3:1] = xs", "xs[1:] = xs", "ys[0:2] = xs"]):
        fail_scripts.append((("list", 3, "range-assign-self", i), f"xs := [1, 2, 3]\nys := xs\nprint(\"before\")\n{stmt}\nprint(\"unreachable\")\n", "before\n"))


def cases_for_str(chars, ok_scripts, fail_scripts):
    s = "".join(chars)
    bs = s.encode("utf-8")
    n = len(bs)
    grid = list(range(-2, n + 3))
    ascii_only = all(ord(c) < 128 for c in s)
    body = [f's := "{s}"', f"print(s->len() == {n})"]
    exp = ["true\n"]
    for i in grid:
        if 0 <= i < n:
            if ascii_only:
                body.append(f"print(s[{bound(i)}])")
                exp.append(chr(bs[i]) + "\n")
            body.append(f"print(s[{bound(i)}] == s[{bound(i)}:{i + 1}])")
            exp.append("true\n")
        else:
            fail_scripts.append((("str", s, "index", i), f's := "{s}"\nprint(s[{bound(i)}] == "a")\nprint("unreachable")\n', ""))
    for a, b in itertools.product([None] + grid, repeat=2):
        lo = 0 if a is None else a
        hi = n if b is None else b
        src = f"s[{bound(a)}:{bound(b)}]"
        if 0 <= lo <= hi <= n:
            if ascii_only:
                body.append(f"print({src})")
                exp.append(bs[lo:hi].decode() + "\n")
            # length and k-th element, byte-wise, in-language (works across multi-byte characters)
            body.append(f"n := 0\nfor [k, v] in {src} {{\n    n += 1\n    if v != s[{lo} + k] {{\n        print(\"wrong byte\")\n    }}\n}}\nprint(n)")
            exp.append(f"{hi - lo}\n")
            body.append(f"print(({src} + s[{bound(hi)}:]) == s[{bound(lo)}:])")
            exp.append("true\n")
        else:
            fail_scripts.append((("str", s, "range", a, b), f's := "{s}"\nprint({src} == "a")\nprint("unreachable")\n', ""))
    body.append('print((s + "xy") == $"${s}xy")')
    exp.append("true\n")
    # `n := 0` is declared repeatedly: wrap each loop in a block
    text = "\n".join(body)
    text = text.replace("n := 0\nfor", "{\nn := 0\nfor").replace("print(n)", "print(n)\n}")
    ok_scripts.append((("str", s, "reads"), text + "\n", "".join(exp)))
    fail_scripts.append((("str", s, "set"), f's := "{s}x"\ns[0] = "y"\nprint("unreachable")\n', ""))


def nonint_cases(fail_scripts):
    kinds = ['null', 'true', '"1"', '[1]', '{"a": 1}', 'print', 'fn () { return 1; }']
    for k in kinds:
        fail_scripts.append((("nonint", "index", k), f"xs := [1, 2, 3]\nprint(xs[{k}])\nprint(\"unreachable\")\n", ""))
        fail_scripts.append((("nonint", "lo", k), f"xs := [1, 2, 3]\nprint(xs[{k}:2])\nprint(\"unreachable\")\n", ""))
        fail_scripts.append((("nonint", "hi", k), f"xs := [1, 2, 3]\nprint(xs[0:{k}])\nprint(\"unreachable\")\n", ""))
        fail_scripts.append((("nonint", "set", k), f"xs := [1, 2, 3]\nxs[{k}] = 1\nprint(\"unreachable\")\n", ""))
        fail_scripts.append((("nonint", "rset", k), f"xs := [1, 2, 3]\nxs[{k}:2] = [1]\nprint(\"unreachable\")\n", ""))
        fail_scripts.append((("nonint", "sindex", k), f"s := \"abc\"\nprint(s[{k}])\nprint(\"unreachable\")\n", ""))


def oracle_one(ctx, src, r, expected=None):
    if expected is None:
        return True, ""
    exp_out, must_fail = expected
    if must_fail:
        if r["status"] != "103" or r["stdout"] != exp_out or not r["stderr"].startswith("t.sd:"):
            return False, f"expected a reported error with stdout {exp_out!r}; got status {r['status']}, stdout {r['stdout'][:120]!r}"
        return True, ""
    if r["status"] != "0" or r["stdout"] != exp_out:
        return False, f"expected stdout {exp_out[:200]!r} and success; got status {r['status']}, stdout {r['stdout'][:200]!r}, stderr {r['stderr'][:120]!r}"
    return True, ""


def run(ctx, model_ok):
    thorough = ctx.tier == "thorough"
    ok_scripts, fail_scripts = [], []
    for n in range(0, 6 if thorough else 5):
        cases_for_list(n, ok_scripts, fail_scripts, thorough)
    alpha = ["a", "é", "€"]
    for n in range(0, 4 if thorough else 3):
        for chars in itertools.product(alpha, repeat=n):
            cases_for_str(chars, ok_scripts, fail_scripts)
    nonint_cases(fail_scripts)
    multibyte_rset_cases(ok_scripts, fail_scripts)
    concat_fresh_cases(ok_scripts)
    concat_target_cases(ok_scripts)
    self_referential_cases(ok_scripts)
    self_referential_failures(fail_scripts)
    ctx.cov["exhaustive"] = True
    for label, cs, must_fail in (("succeeding", ok_scripts, False), ("failing", fail_scripts, True)):
        srcs = [c[1] for c in cs]
        impl, dis = tie.run(ctx, srcs, label, model_ok, project=tie.proj_out_pos)
        bad = []
        for (key, src, exp), r in zip(cs, impl):
            ctx.nontrivial((key[0], key[2] if len(key) > 2 else "", exp if not must_fail else ("fails", key[1] if len(key) > 1 else "")))
            ctx.dist(f"{key[0]}:{key[2] if len(key) > 2 else ''}:{'fail' if must_fail else 'ok'}")
            ok, why = oracle_one(ctx, src, r, (exp, must_fail))
            if not ok:
                bad.append((key, src, why, exp))
        bad.sort(key=lambda b: len(b[1]))
        reported = set()
        for key, src, why, exp in bad:
            sig = (key[0], key[2] if len(key) > 2 else "")
            if sig in reported:
                continue
            c = core.run_cli(src)
            ctx.cov["cli_reconfirmed"] += 1
            if oracle_one(ctx, src, c, (exp, must_fail))[0]:
                continue
            reported.add(sig)
            ctx.violation("sequence law violated: " + why, src, {"case": str(key), "cli": c, "failing_cases_in_stream": len(bad)})
        explained = {b[1] for b in bad}
        tie.report_disagreements(ctx, [d for d in dis if d[0] not in explained], label)
        if cs:
            k = len(cs) // 2
            ctx.sample({"case": str(cs[k][0]), "src": cs[k][1][:300], "expected": cs[k][2][:120], "impl": impl[k]})
