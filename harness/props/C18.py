"""C18 — reported positions are the true line and column of the offending token."""
import re

import core
import lib_positions as P
import lib_syntax as L
import progs
import tie

RULE = ("a known offending token is planted after generated preceding text (programs from progs that run to completion, "
        "hand-written preludes with tabs, CR LF, blank lines, comments with multi-byte text, multi-line string literals and "
        "multi-line list / object literals) and optional following text; kinds: lexical `&`, unexpected token, undefined name, "
        "operator type / overflow / zero-divisor error (binary; and through op-assignment `+= -= *= /= %=` to a variable, a list "
        "element, a property `.k` and an indexed property `[\"k\"]`, also nested targets and inside called functions: expected "
        "position = the op-assign token), call of a non-function and arity error "
        "(first token of the call expression), undefined name in an interpolation slot of an escape-free one-line literal, "
        "and call chains of depth 2..4 raising inside nested (also anonymous / method) functions; three generated families whose "
        "offending token is computed by the generator (lib_positions, model-free: three-tier left-associative parse of the flat "
        "chain + Python arithmetic, evaluation order lhs, rhs, apply): OPERATOR chains of 2..4 binary operators (all `+`; `+ -`; "
        "arithmetic; all 16 operators) over literals, names, calls, elements and properties of all types with one planted type "
        "mismatch / overflow / zero divisor at a chosen operator of the chain (also the op-assign token ending a chain), or one "
        "operand that fails by itself (undefined name, call of a non-function, arity error: expected = its first token), the chain "
        "standing as declaration / argument / item / value / condition / index / range end / `return` expression ...; KEYWORDS "
        "`break` / `continue` executed outside any loop of the function (or script) that contains them — inside 0..2 if / else / "
        "bare blocks, after a finished loop, the function called through 1..3 (fn / anonymous / method) calls from inside loops — "
        "and `return` outside any function: expected position = the keyword; ARGUMENTS of the wrong type or sign (index, object "
        "key, slice bound, range bound, condition of if / else-if / while, `for` iterable, spread operand in a list / call / "
        "object, property name; as expression and as assignment target, in chains of 2..4 subscripts / nested literals): expected "
        "position = the first token of that argument; each wrapped in 0..4 enclosing if / else / block / loop / function "
        "constructs (every function adds an expected stack-trace line); every program is re-rendered "
        "under random admissible layouts (C09's engine: terminator choice, blank lines, comments, CR LF, continuation breaks, "
        "inter-token blanks, `_` separators, \\xHH); expected line = 1 + number of newlines before the token, column = 1 + "
        "characters since the last newline (5-line reference on the rewritten text); the first diagnostic line and every "
        "stack-trace line must carry exactly those numbers.  Also: every position stored in the syntax tree is the start of a "
        "token, and an operator's stored position is the start of that operator's token.  Two fixed families exercise the known "
        "findings K2 (escape / line break inside the literal before a slot) and K4 (literal directly inside 1-3 pairs of "
        "parentheses, with and without a line break after the `(`), further ones K5 (a name directly inside parentheses) and K7 (a line "
        "break as the offending character or token): the true position of the name is expected; a report at "
        "exactly the position the known mechanism predicts is listed as KNOWN-FINDING, any other as a violation.  Non-trivial = distinct (kind, "
        "template, layout features before the token: tab / CR / comment / multi-byte / multi-line literal / line>1)")
ASSUMPTIONS = [
    "outside the two known-finding families nothing is planted inside interpolation slots whose literal has an escape or a "
    "line break before the slot (K2) or is directly inside parentheses (K4)",
    "the raising statement of a call chain is not a `return` expression (scheduled repair D7 changes that message's shape)",
    "a line break as the offending character / unexpected token is planted only in the K7 family (known finding: reported at "
    "(following line, column 0))",
    "operator chains: no failure is planted in a right operand of `&&` / `||` that a short-circuit reading would skip; nothing "
    "of the three generated families stands inside an interpolation slot or directly inside parentheses",
    "`break` / `continue` escaping a called function: the stack trace may omit the call of the function that contains the "
    "keyword (every line present must be the position of the corresponding call)",
]

M = "«%d»"      # «k» marks the token whose position is expected
MARK = re.compile("«(\\d)»")

TEMPLATES = [
    # kind, text with markers, expects stdout of the prelude (False: nothing may run)
    ("lex", "qq := 1 «0»& 2\n", False),
    ("lex", "print(\"é\" + \"€\") ; zz := [1, «0»| 2]\n", False),
    ("lex", "qq := \"ok\" «0»!\n", False),
    # lexical errors inside a literal, on a later line of it and after multi-byte text
    ("lex", "qq := \"line é\n  second \\«0»q rest\"\n", False),
    ("lex", "qq := \"a\n\tb\\x4«0»g\"\n", False),
    ("lex", "qq := \"€\n\n\\x«0»g1\"\n", False),
    ("lex", "qq := \"a\nb «0»$ c\"\n", False),
    ("lex", "qq := $\"a\né $«0»a\"\n", False),
    ("lex", "qq := $\"${1}\n\\«0»q\"\n", False),
    ("lex", "qq := \"é\\«0»q\"\n", False),
    ("parse", "qq := 1 + «0»)\n", False),
    ("parse", "print(1 «0»2)\n", False),
    ("parse", "qq := [1, 2 «0»3]\n", False),
    ("parse", "qq := {\"k\": 1 «0»\"j\": 2}\n", False),
    ("parse", "if true { print(1); } «0»in\n", False),
    ("undefined", "print(1 + «0»undefined_qq)\n", True),
    ("undefined", "qq := [1, \"é\", «0»nope_qq]\n", True),
    ("undefined", "«0»nope_qq = 1\n", True),
    ("undefined", "qq := {\"k\": [«0»nope_qq]}\n", True),
    ("undefined", "qq := \"é€😀\" + «0»nope_qq\n", True),
    # an undefined name in every kind of operand position (blanks before it keep it apart from the token in front)
    ("undefined", "qq := 0 ..   «0»nope_qq\n", True),
    ("undefined", "qq := «0»nope_qq .. 3\n", True),
    ("undefined", "for qi in 0 ..  «0»nope_qq {\n}\n", True),
    ("undefined", "for qi in  «0»nope_qq {\n}\n", True),
    ("undefined", "qq := [1, 2, 3][  «0»nope_qq]\n", True),
    ("undefined", "qq := [1, 2, 3][0 :  «0»nope_qq]\n", True),
    ("undefined", "qq := [1, 2, 3][  «0»nope_qq : 2]\n", True),
    ("undefined", "qq := \"é€\"[:  «0»nope_qq]\n", True),
    ("undefined", "print(1,  «0»nope_qq)\n", True),
    ("undefined", "print([1]..,  «0»nope_qq..)\n", True),
    ("undefined", "qq := {\"k\":   «0»nope_qq}\n", True),
    ("undefined", "qq := {  «0»nope_qq: 1}\n", True),
    ("undefined", "qq := {\"a\": 1,  «0»nope_qq..}\n", True),
    ("undefined", "qq := {  «0»nope_qq}\n", True),
    ("undefined", "if  «0»nope_qq {\n}\n", True),
    ("undefined", "if false {\n} else if   «0»nope_qq {\n}\n", True),
    ("undefined", "while  «0»nope_qq {\n}\n", True),
    ("undefined", "fn fq() {\n    return   «0»nope_qq\n}\n«1»fq()\n", True),
    ("undefined", "qq := 1\nqq +=   «0»nope_qq\n", True),
    ("undefined", "qq := 1\nqq =   «0»nope_qq\n", True),
    ("undefined", "[qa, qb] :=   «0»nope_qq\n", True),
    ("undefined", "qq := 1 - 2 *  «0»nope_qq\n", True),
    ("undefined", "qq := true &&  «0»nope_qq\n", True),
    ("undefined", "qq := 1 ==  «0»nope_qq\n", True),
    ("undefined", "qq :=  «0»nope_qq.k\n", True),
    ("undefined", "qq :=  «0»nope_qq[0]\n", True),
    ("undefined", "qq :=  «0»nope_qq->type()\n", True),
    ("undefined", "qq := [1,\n\t «0»nope_qq]\n", True),
    ("undefined", "qxs := [1]\nqxs[  «0»nope_qq] = 1\n", True),
    ("undefined", "qxs := [1]\nqxs[0:  «0»nope_qq] = [1]\n", True),
    ("undefined", "qo := {}\nqo[  «0»nope_qq] = 1\n", True),
    ("undefined", "qq := «1»fn() { return  «0»nope_qq; }()\n", True),
    ("undefined", "qa := 0\n[qa,   ..«0»nope_qq] = [1, 2]\n", True),
    ("undefined", "qa := 0\n{qa,   ..«0»nope_qq} = {\"qa\": 1}\n", True),
    ("undefined", "[  «0»nope_qq, qb] = [1, 2]\n", True),
    ("undefined", "{\"k\":   «0»nope_qq} = {\"k\": 1}\n", True),
    ("operator", "print(1 «0»+ \"a\")\n", True),
    ("operator", "print(9223372036854775807 «0»+ 1)\n", True),
    ("operator", "qq := 1\nqq «0»+= \"a\"\n", True),
    ("operator", "print(true «0»&& 1)\n", True),
    ("operator", "print(\"é😀\" «0»< 2)\n", True),
    ("operator", "print(1 «0»/ 0)\n", True),
    ("operator", "qq := [1] «0»=== 2\n", True),
    ("operator", "qq := 2 * (3 «0»- \"é\") + 1\n", True),
    ("call", "print(«0»1())\n", True),
    ("call", "qq := «0»[1][0](2)\n", True),
    ("call", "qq := «0»(1)(2)\n", True),
    ("call", "qq := \"é\" + «0»\"s\"(2)\n", True),
    ("call", "fn fq(a) { }\nqq := [«0»fq(1, 2)]\n", True),
    ("call", "qo := {\"m\": 1}\n«0»qo.m()\n", True),
    ("slot", "print($\"aé${«0»zz_q}b\")\n", True),
    ("slot", "qq := [$\"€😀 ${«0»zz_q + \"x\"}\"]\n", True),
]

# operator error through op-assignment: target form x failure class; expected position = the op-assign token
OPASSIGN_TARGETS = [
    ("var", "qv := {V}\n", "qv"),
    ("element", "qxs := [0, {V}]\n", "qxs[1]"),
    ("element", "qxs := [[{V}]]\n", "qxs[0][0]"),
    ("prop", "qo := {\"k\": {V}, \"é\": 0}\n", "qo.k"),
    ("prop", "qo := {\"n\": {\"k\": {V}}}\n", "qo.n.k"),
    ("index-prop", "qo := {\"k\": {V}}\n", "qo[\"k\"]"),
    ("index-prop", "qo := {\"é€\": [{V}]}\n", "qo[\"é€\"][0]"),
]
OPASSIGN_FAILS = [
    ("type", "1", "+=", "\"a\""), ("type", "1", "-=", "[]"), ("type", "\"é\"", "*=", "2"), ("type", "true", "/=", "1"),
    ("type", "[1]", "%=", "null"), ("type", "1", "+=", "\"é😀\" + \"b\""),
    ("overflow", "9223372036854775807", "+=", "1"), ("overflow", "9223372036854775807", "*=", "2"),
    ("overflow", "-9223372036854775807", "-=", "2"), ("overflow", "3037000500", "*=", "3037000500"),
    ("zero", "1", "/=", "0"), ("zero", "7", "%=", "0"), ("zero", "1", "/=", "2 - 2"),
]
for _form, _setup, _target in OPASSIGN_TARGETS:
    for _cls, _v, _op, _rhs in OPASSIGN_FAILS:
        for _sp in (" ", "   \t"):
            TEMPLATES.append((f"opassign-{_form}-{_cls}", _setup.replace("{V}", _v) + f"{_target}{_sp}«0»{_op} {_rhs}\n", True))
N_PLAIN_TEMPLATES = len(TEMPLATES) - len(OPASSIGN_TARGETS) * len(OPASSIGN_FAILS) * 2

RAISE = ["qxs := [n]\n\tqxs[0] «0»+= \"a\"", "qo := {\"k\": n}\n\tqo.k «0»/= 0", "qo := {\"k\": n + 1}\n\tqo[\"k\"] «0»*= 9223372036854775807",
         "t := n «0»+ \"a\"", "t := [«0»nope_qq]", "t := «0»n(1)", "t := 1 «0»/ (n - n)", "n «0»-= \"é\""]


def chain(rng):
    """a call chain of depth 2..4 raising in the innermost function; markers: 0 = offender, 1.. = calls, outermost last"""
    depth = rng.randrange(2, 5)
    lines = []
    names = []
    for k in range(depth):
        style = rng.choice(["fn", "fn", "anon", "method"])
        name = f"f{k}_q"
        if k == 0:
            body = rng.choice(RAISE)
        else:
            prev = names[-1]
            call = (f"{prev[1]}.m(n)" if prev[0] == "method" else f"{prev[1]}(n)")
            body = rng.choice(["u := [«%d»%s]", "«%d»%s", "u := 1 + «%d»%s", "if true { «%d»%s; }"]) % (k, call)
        ind = rng.choice(["    ", "\t", "  "])
        if style == "fn":
            lines += [f"fn {name}(n) {{", ind + body, "}"]
            names.append(("fn", name))
        elif style == "anon":
            lines += [f"{name} := fn (n) {{", ind + body, "}"]
            names.append(("anon", name))
        else:
            lines += [f"{name} := {{\"m\": fn (n) {{", ind + body, "}}"]
            names.append(("method", name))
    prev = names[-1]
    call = (f"{prev[1]}.m(1)" if prev[0] == "method" else f"{prev[1]}(1)")
    lines.append(rng.choice(["«%d»%s", "w_q := «%d»%s", "print(«%d»%s)"]) % (depth, call))
    return "\n".join(lines) + "\n", depth


PRELUDES = [
    "",
    "#!/usr/bin/env seed\n",
    "#!/usr/bin/env seed\n# é\n\n",
    "\n\n\n",
    "# comment é€😀\n\t# another\n",
    "s_q := \"multi\nline\n  é€ literal\"\n",
    "l_q := [\n\t1,\n\t2, # é\n\t3,\n]\n",
    "o_q := {\n    \"k\": 1,\n    \"é\": [\n        2,\n    ],\n}\n",
    "a_q := 1;\tb_q := 2;  \t c_q := \"é😀\" ; ",
    "d_q := 1\r\ne_q := 2\r\n\r\n",
    "print(\"x\") # 😀😀😀\n\t\t",
    "t_q := $\"é${\"a\"}\n€\"\n",
    "fn pre_q(a) {\n\treturn a\n}\n\n# é\n   ",
    "x_q := 1 +\n\t\t2 *\n  3\n",
]
FOLLOW = ["", "print(\"never\")\n", "# trailing é\n", "zz_q := [\n1,\n2]\n"]
FOLLOW_ANY = FOLLOW + ["&&&\n", "\"unterminated é\n", ") ] }\n"]      # after a lexical / syntax error anything may follow


# Known findings K2 / K4: a diagnostic raised inside an interpolation slot is positioned at
#   (line of the string node, its column + index of the slot in the decoded text + 4),
# and the string node of a literal directly inside parentheses carries the position of the outermost `(`.
# The true position of the name is still what is expected here; a case that reports exactly the position predicted by the
# known mechanism is handed to ctx.violation with the finding's flag (so it is listed as KNOWN-FINDING), any other wrong
# position is an ordinary violation.   «9» marks the anchor (literal start / outermost parenthesis).
def known_families():
    out = []
    for depth in (1, 2, 3):
        for brk in ("", "\n", "\n\t "):
            for pre in ("", "é ", "ab"):
                tail = "xk_q := «9»" + "(" * depth + brk + "$\"" + pre + "${«0»zz_q}\"" + ")" * depth + "\n"
                out.append(("K4", f"paren{depth}" + ("+break" if brk else ""), tail, len(pre) + 4))
    for pre, n in (("ab\\n", 3), ("\\x41", 1), ("\\\\", 1), ("\\$", 1), ("a\nb", 3), ("é\\\"", 2), ("€\n\n", 3)):
        out.append(("K2", "escape" if "\\" in pre else "line-break", "print(«9»$\"" + pre + "${«0»zz_q}\")\n", n + 4))
    # K5: the same root cause without a slot — an expression directly inside parentheses carries the position of the outermost
    # `(`, so an undefined name there is reported at the parenthesis
    for depth in (1, 2, 3):
        for brk in ("", "  ", "\n\t "):
            for use in ("xk_q := @", "print(1 + @)", "xk_q := [@]"):
                tail = use.replace("@", "«9»" + "(" * depth + brk + "«0»nope_qq" + ")" * depth) + "\n"
                out.append(("K5", f"name-paren{depth}" + ("+gap" if brk else "") + use[:6], tail, 0))
    # K7: a line break as the offending character / unexpected token is reported at (following line, column 0)
    for tag, tail in (("escape", "qq := \"ab\\«0»\n cd\"\n"), ("hex1", "qq := \"ab\\x«0»\n9\"\n"), ("hex2", "qq := \"é\\x9«0»\nz\"\n"),
                      ("interp-start", "qq := $\"ab$«0»\ncd\"\n"), ("unexpected-token", "print(1«0»\n)\n")):
        out.append(("K7", tag, tail, 0))
    return out


FLAG = {"K2": "inside_slot_after_escape", "K4": "slot_in_parenthesised_literal", "K5": "name_directly_in_parentheses",
        "K7": "line_break_offender_reported_at_next_line_column_0"}


def strip_markers(text):
    """-> (clean text, {k: offset})"""
    out = []
    marks = {}
    p = 0
    n = 0
    for m in MARK.finditer(text):
        out.append(text[p:m.start()])
        n += m.start() - p
        marks[int(m.group(1))] = n
        p = m.end()
    out.append(text[p:])
    return "".join(out), marks


def features(before):
    last = before[before.rfind("\n") + 1:]
    f = []
    if "\t" in last:
        f.append("tab")
    if "\r" in before:
        f.append("cr")
    if "#" in before:
        f.append("comment")
    if any(ord(c) > 127 for c in last):
        f.append("multibyte-on-line")
    if "\n" in before:
        f.append("line>1")
    if re.search(r'"[^"\n]*\n', before):
        f.append("multiline-literal?")
    return "+".join(f) or "plain"


AST_E = re.compile(r"\(E (\d+):(\d+) ")
OPTOK = {"Sum": ("Sum", "SumEquals"), "Sub": ("Sub", "SubEquals"), "Mul": ("Mul", "MulEquals"), "Div": ("Div", "DivEquals"),
         "Mod": ("Mod", "ModEquals"), "And": ("AmpAmp",), "Or": ("PipePipe",), "Eq": ("EqualsEquals",), "Ne": ("BangEquals",),
         "Gt": ("GreaterThan",), "Gte": ("GreaterThanEquals",), "Lt": ("LessThan",), "Lte": ("LessThanEquals",),
         "RefEq": ("EqualsEqualsEquals",), "RefNe": ("BangEqualsEquals",)}


def tree_positions_ok(astblock, tokblock):
    """every position stored in the tree is the start of a token; an operator's is the start of that operator's token"""
    toks, err = L.parse_tok_block(tokblock)
    starts = {t.start: t.kind for t in toks}
    for m in AST_E.finditer(astblock):
        p = (int(m.group(1)), int(m.group(2)))
        if p not in starts:
            return False, f"expression position {p[0]}:{p[1]} is not the start of a token"
    for m in re.finditer(r"\(BinaryOp (\w+) @(\d+):(\d+)", astblock):
        p = (int(m.group(2)), int(m.group(3)))
        if starts.get(p) not in OPTOK.get(m.group(1), ()):
            return False, f"operator {m.group(1)} stored at {p[0]}:{p[1]}, where the token is {starts.get(p)}"
    for m in re.finditer(r" (\w+) @(\d+):(\d+) \(E", astblock):
        p = (int(m.group(2)), int(m.group(3)))
        if m.group(1) in OPTOK and starts.get(p) not in OPTOK[m.group(1)]:
            return False, f"operator {m.group(1)} stored at {p[0]}:{p[1]}, where the token is {starts.get(p)}"
    for m in re.finditer(r"\(FuncStmt x[0-9a-f]* @(\d+):(\d+)", astblock):
        p = (int(m.group(1)), int(m.group(2)))
        if starts.get(p) != "Ident":
            return False, f"function name stored at {p[0]}:{p[1]}, where the token is {starts.get(p)}"
    for m in re.finditer(r"\((Break|Continue|Return) @(\d+):(\d+)", astblock):
        p = (int(m.group(2)), int(m.group(3)))
        if starts.get(p) != m.group(1):
            return False, f"keyword {m.group(1)} stored at {p[0]}:{p[1]}, where the token is {starts.get(p)}"
    return True, ""


def judge(case, r):
    """case: dict(src, expect=[(l,c)...] (first = diagnostic, rest = trace lines), runs_prelude, prelude_out)"""
    first, trace = L.diag_positions(r["stderr"])
    exp = case["expect"]
    if r["status"] != "103":
        return f"exit status {r['status']}, a diagnostic was expected"
    if first is None:
        return "the first line of the diagnostic carries no position: " + r["stderr"].split("\n")[0][:120]
    if first != exp[0]:
        return f"diagnostic at {first[0]}:{first[1]}, the offending token is at {exp[0][0]}:{exp[0][1]}"
    if trace != exp[1:] and not (case.get("trace_alt") and len(exp) > 1 and trace == exp[2:]):
        return f"stack-trace lines at {trace}, the calls are at {exp[1:]}"
    if not case["runs"] and r["stdout"] != "":
        return "a lexical / syntax error was reported after part of the program had run"
    return None


def build_cases(ctx, rng, n):
    gen = [p for p in progs.generate(rng, n // 3 + 10, max_depth=2, fail_rate=0.0)]
    ok = [p for p, r in zip(gen, core.run_batch("impl", gen)) if r["status"] == "0"]
    ctx.exclude("generated_prelude_does_not_run_to_completion", len(gen) - len(ok))
    bases = []
    for i in range(n):
        c = rng.random()
        if c < 0.45 and ok:
            pre = rng.choice(ok)
            if rng.random() < 0.5:
                pre = rng.choice(PRELUDES) + pre
        elif c < 0.9:
            pre = "".join(rng.sample(PRELUDES, rng.randrange(1, 4)))      # distinct: each declares its own names
        else:
            pre = ""
        if pre and not pre.endswith(("\n", " ", "\t")):
            pre += "\n"
        if rng.random() < 0.3:
            tail, depth = chain(rng)
            kind, runs = "chain", True
            tag = f"depth{depth}"
        else:
            if rng.random() < 0.35:
                kind, tail, runs = rng.choice(TEMPLATES[N_PLAIN_TEMPLATES:])
            else:
                kind, tail, runs = rng.choice(TEMPLATES[:N_PLAIN_TEMPLATES])
            tag = tail[:24] if not kind.startswith("opassign") else tail.split("\n")[1].split("«")[0].strip() + tail.split("»")[1][:2]
        lead = rng.choice(["", "", "\t", "  ", " \t "])
        text, marks = strip_markers(pre + lead + tail + rng.choice(FOLLOW_ANY if kind in ("lex", "parse") else FOLLOW))
        bases.append({"kind": kind, "tag": tag, "src": text, "marks": marks, "runs": runs})
    bases += computed_families(ctx, rng, max(45, n // 4), ok)
    for fam, tag, tail, slot_start in known_families():
        pre = rng.choice(PRELUDES) if rng.random() < 0.7 else ""
        if pre and not pre.endswith(("\n", " ", "\t")):
            pre += "\n"
        text, marks = strip_markers(pre + rng.choice(["", "\t", "  "]) + tail + rng.choice(FOLLOW))
        bases.append({"kind": "slot-" + fam, "tag": tag, "src": text, "marks": marks, "runs": True, "family": (fam, slot_start)})
    return bases


def computed_families(ctx, rng, n, ok):
    """operator chains / jump keywords / wrong arguments with generator-computed positions (lib_positions)"""
    out = []
    for i in range(n):
        alt = False
        if i % 3 == 0:
            c = P.opchain_case(rng)
            if c is None:
                ctx.exclude("operator_chain_without_a_predictable_failure")
                continue
            tag, stmt, needs_fn, info = c
            tail, m = P.nest(rng, stmt, P.plan_any(rng, rng.choice([0, 0, 1, 1, 2, 3]), need_fn=needs_fn))
            kind = "opchain"
            ctx.dist(f"opchain:{info['n']}ops-fails-at-{info['k']}")
            ctx.dist(f"opchain:{info['why']}:{info['ops']}")
        elif i % 3 == 1:
            tag, tail, info = P.jump_case(rng)
            kind, alt = "jump", True
            ctx.dist(f"jump:{info['kw']}:through-{info['fn']}-calls")
        else:
            tag, tail, info = P.argument_case(rng)
            kind = "argument"
            ctx.dist(f"argument:{info['bad']}")
        c = rng.random()
        if c < 0.35 and ok:
            pre = rng.choice(ok)
        elif c < 0.8:
            pre = "".join(rng.sample(PRELUDES, rng.randrange(1, 3)))
        else:
            pre = ""
        if pre and not pre.endswith(("\n", " ", "\t")):
            pre += "\n"
        text, marks = strip_markers(pre + rng.choice(["", "", "\t", "  "]) + P.setup_for(rng, tail) + tail + rng.choice(FOLLOW))
        out.append({"kind": kind, "tag": tag, "src": text, "marks": marks, "runs": True, "trace_alt": alt})
    return out


def run(ctx, model_ok):
    rng = ctx.rng
    thorough = ctx.tier == "thorough"
    n_base = 25000 if thorough else 1000
    n_layouts = 5 if thorough else 3
    chunk = 1500
    state = {"reported": {}, "sampled": set()}
    done = 0
    while done < n_base:
        k = min(chunk, n_base - done)
        process(ctx, rng, model_ok, build_cases(ctx, rng, k), n_layouts, state, thorough)
        done += k


def process(ctx, rng, model_ok, bases, n_layouts, state, thorough):
    tk = L.tokenize_many([b["src"] for b in bases])
    cases = []
    for b, (toks, err) in zip(bases, tk):
        src = b["src"]
        if err is not None and err[0] == "bounds":
            ctx.unproved("tok:boundaries", "a token's reported start/end does not delimit the token's text",
                         {"input": src, "why": err[1]})
            # no layout rewriting without token boundaries — but the planted token's expected position follows from the text
            # alone, so the case is still judged as written
            exp, offs, kw = [], [], None
            for k in sorted(b["marks"]):
                o = b["marks"][k]
                if k == 9:
                    al, ac = L.pos_of(src, o)
                    kw = (al, ac + b["family"][1])
                    continue
                offs.append(o)
                exp.append(L.pos_of(src, o))
            if b.get("family", (None,))[0] == "K7" and exp:
                kw = (exp[0][0] + 1, 0)
            if offs:
                cases.append({"kind": b["kind"], "tag": b["tag"], "src": src, "expect": exp, "runs": b["runs"], "how": "original",
                              "before": src[:offs[0]], "family": b.get("family", (None,))[0], "known_wrong": kw,
                              "trace_alt": b.get("trace_alt", False)})
            continue
        if err is not None and err[0] != "lex":
            ctx.exclude("token_dump_unusable")
            continue
        lay = L.Layout(src, toks, err)
        # which token (or offset in the unlexed rest) does each marker denote?
        anchors = {}
        by_start = {t.s: i for i, t in enumerate(toks)}
        usable = True
        for k, off in b["marks"].items():
            inside = [i for i, t in enumerate(toks) if t.s < off < t.e and t.kind == "InterpStrLiteral"]
            if off in by_start:
                anchors[k] = ("tok", by_start[off], 0)
            elif off >= lay.tail_start and err is not None:
                anchors[k] = ("tail", off - lay.tail_start, 0)
            elif inside:
                # inside an interpolated literal (never rewritten by the layout engine): offset from the literal's start
                anchors[k] = ("tok", inside[0], off - toks[inside[0]].s)
            else:
                usable = False
        if not usable:
            ctx.unproved("harness:marker", "a planted token is not a token of the dump", {"input": src, "marks": b["marks"]})
            continue
        variants = [(src, [t.s for t in toks], lay.tail_start, "original")]
        for _ in range(n_layouts):
            texts, gaps, tail, changed = lay.random(rng, p_keep=0.3)
            s2, starts, total = lay.render(texts, gaps, tail)
            variants.append((s2, starts, total, "layout"))      # `total` = where the text after the last token starts
        for s2, starts, tail_start, how in variants:
            exp = []
            offs = []
            known_wrong = None
            for k in sorted(anchors):
                a = anchors[k]
                o = starts[a[1]] + a[2] if a[0] == "tok" else tail_start + a[1]
                if k == 9:
                    al, ac = L.pos_of(s2, o)
                    known_wrong = (al, ac + b["family"][1])
                    continue
                offs.append(o)
                exp.append(L.pos_of(s2, o))
            if b.get("family", (None,))[0] == "K7" and exp:
                known_wrong = (exp[0][0] + 1, 0)
            cases.append({"kind": b["kind"], "tag": b["tag"], "src": s2, "expect": exp, "runs": b["runs"], "how": how,
                          "before": s2[:offs[0]], "family": b.get("family", (None,))[0], "known_wrong": known_wrong,
                          "trace_alt": b.get("trace_alt", False)})
    srcs = [c["src"] for c in cases]
    impl, dis = tie.run(ctx, srcs, "planted", model_ok, project=tie.proj_out_pos)
    failures = []
    for c, r in zip(cases, impl):
        why = judge(c, r)
        f = features(c["before"])
        ctx.dist(f"{c['kind']}:{c['how']}")
        for x in f.split("+"):
            ctx.dist("before-token:" + x)
        ctx.nontrivial((c["kind"], c["tag"], f))
        if why:
            failures.append((c, r, why))
    # through the unmodified CLI: every case (quick) / a fifth (thorough), and every failure
    pick = list(range(len(cases))) if not thorough else sorted(rng.sample(range(len(cases)), len(cases) // 5))
    fail_ids = {id(c) for c, _, _ in failures}
    cli = core.cli_batch([cases[i]["src"] for i in pick])
    ctx.count("planted:cli", len(pick))
    ctx.cov["cli_reconfirmed"] += len(pick)
    for i, r in zip(pick, cli):
        c = cases[i]
        why = judge(c, r)
        if why and id(c) not in fail_ids:
            failures.append((c, impl[i], why))
            fail_ids.add(id(c))
    failures.sort(key=lambda f: len(f[0]["src"]))
    reported = state["reported"]
    for c, r, why in failures:
        fam = c.get("family")
        key = (c["kind"], c["tag"]) if not fam else ("known", fam)
        if key in reported or len([k for k in reported if k[0] != "known"]) >= 8:
            continue
        cr = core.run_cli(c["src"])
        ctx.cov["cli_reconfirmed"] += 1
        w2 = judge(c, cr)
        if not w2:
            continue
        exp = " ".join(f"{l}:{col}" for l, col in c["expect"])
        details = {"cli": cr, "expected_positions": c["expect"], "layout": c["how"], "failing_in_chunk": len(failures)}
        if fam:
            first, _ = L.diag_positions(cr["stderr"])
            if first == c["known_wrong"]:
                # exactly the position the known mechanism predicts: listed as a known finding, not as a violation
                details[FLAG[fam]] = True
                details["position_predicted_by_the_known_mechanism"] = c["known_wrong"]
            else:
                key = (c["kind"], c["tag"])
        reported[key] = 1
        ctx.violation(f"C18 ({c['kind']}): {w2}",
                      c["src"] + ("" if c["src"].endswith("\n") else "\n") + (ALT_NOTE if c.get("trace_alt") else "")
                      + f"# C18 expect positions {exp}\n", details)
    bad_srcs = {c["src"] for c, _, _ in failures}
    tie.report_disagreements(ctx, [d for d in dis if d[0] not in bad_srcs], "planted")
    # ---- positions stored in the tree (unobservable through diagnostics for nodes that never fail)
    sample = [c["src"] for c in cases if c["kind"] not in ("lex", "parse")]
    if len(sample) > 1500:
        sample = rng.sample(sample, 1500)
    asts, _ = tie.front(ctx, "ast", sample, "planted", model_ok)
    toks_, _ = tie.front(ctx, "tok", sample, "planted", model_ok)
    nbad = 0
    for s, a, t in zip(sample, asts, toks_):
        ok, why = tree_positions_ok(a, t)
        if not ok:
            nbad += 1
            if nbad == 1 and "tree" not in reported:
                reported["tree"] = 1
                ctx.unproved("ast:positions", why, {"input": s})
    for c, r in zip(cases, impl):
        key = (c["kind"], c["how"])
        if key not in state["sampled"] and len(c["src"]) < 500 and c["how"] == "layout":
            state["sampled"].add(key)
            ctx.sample({"kind": c["kind"], "src": c["src"], "expected_positions": c["expect"], "stderr": r["stderr"]})


ALT_NOTE = "# C18 the call of the function containing the keyword may be absent from the stack trace\n"
EXPECT = re.compile(r"\n# C18 expect positions ((?:\d+:\d+ ?)+)\n\Z")
SLOT_UNDEF = re.compile(r"\A[^\n:]*:(\d+):(\d+):(?: in '[^']*':)? \d+:\d+: '(\w+)' is not defined")


def oracle_one(ctx, src, r):
    """usable on any script: judges (a) a script carrying a trailing `# C18 expect positions …` comment (replays of this
    check's own reports) and (b) an undefined name inside an interpolation slot, when the name occurs in exactly one slot:
    the diagnostic must carry the position of the name"""
    m = EXPECT.search(src)
    if m:
        exp = [tuple(int(x) for x in p.split(":")) for p in m.group(1).split()]
        c = r if r is not None and r.get("stderr") is not None else core.run_cli(src)
        why = judge({"expect": exp, "runs": True, "trace_alt": ALT_NOTE in src}, c)
        if why:
            return False, why + "\n" + c["stderr"]
        return True, ""
    m = SLOT_UNDEF.match((r or {}).get("stderr", ""))
    if m:
        name = m.group(3)
        hits = [x.start() for x in re.finditer(r"\$\{\s*" + re.escape(name) + r"\b", src)]
        if len(hits) == 1 and len(re.findall(r"\b" + re.escape(name) + r"\b", src)) == 1:
            o = src.index(name, hits[0])
            want = L.pos_of(src, o)
            got = (int(m.group(1)), int(m.group(2)))
            if got != want:
                return False, f"diagnostic at {got[0]}:{got[1]}, the undefined name '{name}' (inside an interpolation slot) is at {want[0]}:{want[1]}"
    return True, ""
