"""C16 — no implicit conversions: out-of-domain operands are type errors naming the types."""
import re
import core
import tie
import lib_ints as li

PID = "C16"
RULE = ("the finite matrix, run in full in both tiers: every binary operator (15, plus `..`) x every ordered pair of the 8 value "
        "kinds in plain form, the five op-assign operators x 64 kind pairs x {variable, element, property} target, and every "
        "typed context x every kind, each context also as the second evaluation of the same code (a loop that first feeds a documented kind), conditions that are not the first of their statement, `==`/`!=` with the operands one level down in a list / twice in a list / in an object (destructuring contexts at boundary sizes: empty, one-element and collect-only object and "
        "list patterns x {declaration, assignment, three parameter forms, nested in a list pattern, nested under an object "
        "key, nested twice, `for` target over a list / an object, whole `for` target}); two representatives per kind where it could matter (true/false, 7/0, \"ab\"/\"\", "
        "non-empty/empty list and object, declared/anonymous function, global/bound builtin) in all left/right combinations. "
        "The oracle is the allowed-operand table transcribed from the property statement: an allowed cell must produce its "
        "value (checked against Python for ints, bools, strings, equality and identity), every other cell must stop with a "
        "diagnostic naming the operator and both operand types in order, with nothing printed. non-trivial = distinct "
        "(operator or context, left kind, right kind, form) cell")
ASSUMPTIONS = ["an allowed integer cell whose exact result does not exist (7 / 0, 0 % 0) must fail, but not as a type error; "
               "its diagnostic is judged by C06",
               "for typed contexts the statement demands a type diagnostic but not its wording: the oracle requires status "
               "103, no output from the construct, and a message that names the offending type or the accepted types",
               "`v[i]` on an object is the property context (string index); indexing an object with an int is judged as that "
               "context, not as an indexed-value cell"]

KINDS = ["null", "bool", "int", "string", "list", "object", "func", "builtin"]
NAME = {"null": "null", "bool": "bool", "int": "int", "string": "string", "list": "list", "object": "object",
        "func": "func", "builtin": "func"}          # the names `->type()` returns, from the statement
REPS = {"null": ["null"], "bool": ["true", "false"], "int": ["7", "0"], "string": ['"ab"', '""'], "list": ["l1", "l0"],
        "object": ["o1", "o0"], "func": ["f", "g"], "builtin": ["print", "bt"]}
PY = {"null": None, "true": True, "false": False, "7": 7, "0": 0, "1": 1, '"ab"': "ab", '""': "", "l1": [1, 2], "l0": [],
      "o1": {"a": 1}, "o0": {}, "o2": {"ab": 1, "": 2}}
PRELUDE = ('fn f(a) { return 1; }\ng := fn(a) { return 2; }\nh := fn(..r) { return 0; }\nbt := 1->type\nl0 := []\nl1 := [1, 2]\n'
           'o0 := {}\no1 := {"a": 1}\no2 := {"ab": 1, "": 2}\n')
BIN_OPS = ["+", "-", "*", "/", "%", "==", "!=", "<", "<=", ">", ">=", "&&", "||", "===", "!==", ".."]
ASSIGN_OPS = ["+", "-", "*", "/", "%"]
TARGETS = ["var", "elem", "prop", "key"]


def allowed(op, l, r):
    """transcribed from the statement of C16"""
    if op == "+":
        return (l, r) in (("int", "int"), ("string", "string"), ("list", "list"))
    if op in ("-", "*", "/", "%", "<", "<=", ">", ">="):
        return l == "int" and r == "int"
    if op in ("&&", "||"):
        return l == "bool" and r == "bool"
    if op in ("==", "!="):
        return l == r and l not in ("func", "builtin")
    if op in ("===", "!=="):
        return l == r and l in ("list", "object", "func")
    if op == "..":
        return l == "int" and r == "int"
    raise ValueError(op)


def expected_value(op, lrep, rrep):
    """printed text of an allowed cell where Python can say it; None = only success is required; 'FAIL' = must fail (not as
    a type error)"""
    a, b = PY.get(lrep), PY.get(rrep)
    if op in li.ARITH and isinstance(a, int) and not isinstance(a, bool):
        e = li.exact(a, op, b)
        return "FAIL" if e is None else str(e) + "\n"
    if op == "+" and isinstance(a, str):
        return a + b + "\n"
    if op in ("<", "<=", ">", ">="):
        return ("true" if li.compare(a, op, b) else "false") + "\n"
    if op == "&&":
        return ("true" if a and b else "false") + "\n"
    if op == "||":
        return ("true" if a or b else "false") + "\n"
    if op in ("==", "!="):
        return ("true" if (a == b) == (op == "==") else "false") + "\n"
    if op in ("===", "!=="):
        return ("true" if (lrep == rrep) == (op == "===") else "false") + "\n"
    return None


def cell_script(spec):
    op, form, l, r = spec["op"], spec["form"], spec["l"], spec["r"]
    if form == "plain":
        body = f"print({l} {op} {r})\n"
    elif form == "var":
        body = f"x := {l}\nx {op}= {r}\nprint(x)\n"
    elif form == "if-condition":
        body = f"if {l} {op} {r} {{\n    print(true)\n}} else {{\n    print(false)\n}}\n"
    elif form == "while-condition":
        body = f"zr := false\nwhile {l} {op} {r} {{\n    zr = true\n    break\n}}\nprint(zr)\n"
    elif form == "else-if-condition":
        body = f"if false {{\n    print(0)\n}} else if {l} {op} {r} {{\n    print(true)\n}} else {{\n    print(false)\n}}\n"
    elif form == "aliased-nesting":
        if r == "alias":
            body = f"m := {l}\nprint(m {op} [m])\n"          # [[7]] vs [[[7]]]: 7 against [7]
        elif r == "alias-left":
            body = f"m := [[7]]\nprint([m] {op} m)\n"        # [7] against 7
        else:
            body = f"m := {l}\nprint(m {op} {{\"a\": m}})\n"   # 7 against {"a": 7}
    elif form == "in-list":
        body = f"print([{l}] {op} [{r}])\n"
    elif form == "in-list-twice":
        body = f"print([{l}, {l}] {op} [{r}, {r}])\n"
    elif form == "in-object":
        body = f"print({{\"k\": {l}}} {op} {{\"k\": {r}}})\n"
    elif form == "elem":
        body = f"xs := [{l}]\nxs[0] {op}= {r}\nprint(xs[0])\n"
    elif form == "key":
        body = f"o := {{\"k\": {l}}}\nkn := \"k\"\no[kn] {op}= {r}\nprint(o[kn])\n"
    else:
        body = f"o := {{\"k\": {l}}}\no.k {op}= {r}\nprint(o.k)\n"
    return PRELUDE + body + li.trailer(PID, spec)


TYPE_WORD = re.compile(r"\b(null|bool|int|string|list|object|func)\b")
OP_RUN = re.compile(r"[+\-*/%<>=!&|.]+")


def strip_head(err):
    return re.sub(r"^[^ ]*:\d+:\d+: ", "", err.split("\n")[0])


def is_subseq(want, have):
    it = iter(have)
    return all(w in it for w in want)


def judge_cell(spec, r):
    op, form, lk, rk = spec["op"], spec["form"], spec["lk"], spec["rk"]
    out, st, err = r["stdout"], r["status"], r["stderr"]
    what = f"{spec['l']} {op}{'=' if form in TARGETS else ''} {spec['r']} ({lk} {op} {rk}, {form})"
    if st not in ("0", "103"):
        return False, f"{what}: exit status {st}: {err[:200]}"
    if allowed(op, lk, rk):
        exp = expected_value(op, spec["l"], spec["r"])
        if exp == "FAIL":
            if st != "103" or out != "":
                return False, f"{what}: no exact result exists, yet status {st} printed {out!r}"
            if is_subseq([NAME[lk], NAME[rk]], TYPE_WORD.findall(strip_head(err))) and "apply" in err:
                return False, f"{what}: documented operand kinds rejected as a type error: {err[:160]}"
            return True, ""
        if st != "0":
            return False, f"{what}: documented operand kinds, but rejected: {err[:200]}"
        if exp is not None and out != exp:
            return False, f"{what}: expected {exp!r}, printed {out!r}"
        if out == "":
            return False, f"{what}: nothing printed"
        return True, ""
    if st != "103":
        return False, f"{what}: operand kinds outside the documented domain were accepted, printing {out[:80]!r}"
    if out != "":
        return False, f"{what}: rejected, yet {out[:80]!r} was printed"
    msg = strip_head(err)
    words = TYPE_WORD.findall(msg)
    if op == "..":
        off = NAME[lk] if lk != "int" else NAME[rk]
        if off not in words:
            return False, f"{what}: diagnostic does not name the offending type '{off}': {err[:200]!r}"
        return True, ""
    ops = OP_RUN.findall(msg.replace("can't", "cannot"))
    if op not in ops and (form not in TARGETS or op + "=" not in ops):
        return False, f"{what}: diagnostic does not name the operator: {err[:200]!r}"
    if not is_subseq([NAME[lk], NAME[rk]], words):
        return False, f"{what}: diagnostic does not name '{NAME[lk]}' and '{NAME[rk]}' in operand order: {err[:200]!r}"
    return True, ""


# ---------------------------------------------------------------------------- typed contexts
# (name, template with @V, allowed kinds, per-kind representative overrides, kinds not judged)
INT01 = {"int": ["1", "0"]}
CONTEXTS = [
    ("if-condition", "if @V {\n    print(1)\n}\nprint(2)\n", {"bool"}, {}, set()),
    ("while-condition", "while @V {\n    break\n}\nprint(2)\n", {"bool"}, {}, set()),
    ("list-index", "print([10, 20, 30][@V])\n", {"int"}, INT01, set()),
    ("string-index", "print(\"abc\"[@V])\n", {"int"}, INT01, set()),
    ("list-index-assign", "l1[@V] = 5\nprint(l1)\n", {"int"}, INT01, set()),
    ("range-index-start", "print([10, 20, 30][@V:2])\n", {"int"}, INT01, set()),
    ("range-index-end", "print(\"abc\"[0:@V])\n", {"int"}, INT01, set()),
    ("range-start", "print(@V .. 3)\n", {"int"}, INT01, set()),
    ("range-end", "print(0 .. @V)\n", {"int"}, INT01, set()),
    ("object-index", "print(o2[@V])\n", {"string"}, {}, set()),
    ("object-index-assign", "o2[@V] = 5\nprint(o2)\n", {"string"}, {}, set()),
    ("object-literal-name", "k := @V\nprint({k: 1})\n", {"string"}, {}, set()),
    ("interpolation-slot", "k := @V\nprint($\"a${k}b\")\n", {"string"}, {}, set()),
    ("list-spread", "print([@V..])\n", {"list"}, {}, set()),
    ("call-spread", "print(h(@V..))\n", {"list"}, {}, set()),
    ("object-spread", "print({@V..})\n", {"object"}, {}, set()),
    ("list-destructure-source", "[..r] := @V\nprint(r)\n", {"list"}, {}, set()),
    ("object-destructure-source", "{..r} := @V\nprint(r)\n", {"object"}, {}, set()),
    ("for-iterable", "for [i, v] in @V {\n    print(i)\n}\nprint(2)\n", {"string", "list", "object"}, {}, set()),
    ("callee", "print(@V(1))\n", {"func", "builtin"}, {"builtin": ["print"]}, set()),
    ("property-access", "print(@V.a)\n", {"object"}, {"object": ["o1"]}, set()),
    ("property-assign", "t := @V\nt.a = 5\nprint(t)\n", {"object"}, {}, set()),
    ("indexed-value", "print(@V[0])\n", {"string", "list"}, {"string": ['"ab"'], "list": ["l1"]}, {"object"}),
    ("range-indexed-value", "print(@V[0:0])\n", {"string", "list"}, {}, set()),
    ("range-indexed-value-whole", "print(@V[:])\nprint(1)\n", {"string", "list"}, {}, set()),
    ("range-indexed-value-from", "print(@V[0:])\nprint(1)\n", {"string", "list"}, {}, set()),
    ("range-indexed-value-to", "print(@V[:0])\nprint(1)\n", {"string", "list"}, {}, set()),
    ("type-function", "print(@V->type())\n", set(KINDS) - {"null"}, {}, set()),
    # the right-hand side of a range assignment is a list or a string — of the right size here for every kind that has a size,
    # so that the kind is the only thing wrong (an object with as many properties as the range is long, …)
    ("range-assign-rhs-2", "t := [7, 8, 9]\nt[0:2] = @V\nprint(t)\n", {"string", "list"},
     {"string": ['"ab"'], "list": ["l1", "[o1, o1]"], "object": ["o2", "o1", "o0"]}, set()),
    ("range-assign-rhs-1", "t := [7, 8, 9]\nt[1:2] = @V\nprint(t)\n", {"string", "list"},
     {"string": ['"a"'], "list": ["[9]", "[l1]"], "object": ["o1", "o2"]}, set()),
    ("range-assign-rhs-all", "t := [7, 8]\nt[:] = @V\nprint(t)\n", {"string", "list"},
     {"string": ['"ab"'], "list": ["l1"], "object": ["o2"]}, set()),
    ("range-assign-target", "t := @V\nt[0:2] = [5, 6]\nprint(t)\n", {"list"}, {"list": ["l1", "[1, 2, 3]"], "string": ['"ab"'], "object": ["o2"]}, set()),
    # a condition that is not the first one evaluated by its statement
    ("while-condition-later", "zq := [true, @V, false]\nzi := 0\nwhile zq[zi] {\n    zi += 1\n}\nprint(2)\n", {"bool"}, {}, set()),
    ("else-if-condition", "if false {\n    print(0)\n} else if @V {\n    print(1)\n}\nprint(2)\n", {"bool"}, {}, set()),
    ("else-if-condition-third", "if false {\n    print(0)\n} else if false {\n    print(3)\n} else if @V {\n    print(1)\n}\nprint(2)\n",
     {"bool"}, {}, set()),
    ("and-right-operand-later", "for [zi, zv] in [true, @V] {\n    print(true && zv)\n}\n", {"bool"}, {}, set()),
]

# destructuring contexts at boundary sizes: pattern (empty, one element, collect only) x binding position x source kind.
# (pattern text, matching kind, representatives of the matching kind for which the binding itself succeeds)
PATTERNS = [
    ("{}", "object", ["o1", "o0"]), ("{a}", "object", ["o1"]), ("{\"a\": w}", "object", ["o1"]), ("{..r}", "object", ["o1", "o0"]),
    ("[]", "list", ["l0"]), ("[e]", "list", ["[9]"]), ("[..r]", "list", ["l1", "l0"]),
]
PREDECL = "a := 0\ne := 0\nw := 0\nr := 0\nn1 := 0\n"
POSITIONS = [
    ("declare", "@P := @V\nprint(2)\n"),
    ("assign", PREDECL + "@P = @V\nprint(2)\n"),
    ("fn-parameter", "fn p(@P) {\n    return 1\n}\nprint(p(@V))\n"),
    ("fn-second-parameter", "fn p([x, y], @P) {\n    return x + y\n}\nprint(p([1, 2], @V))\n"),
    ("anonymous-fn-parameter", "q := fn(@P) {\n    return 1\n}\nprint(q(@V))\n"),
    ("nested-in-list-pattern", "[n1, @P] := [1, @V]\nprint(2)\n"),
    ("nested-in-list-pattern-assign", PREDECL + "[n1, @P] = [1, @V]\nprint(2)\n"),
    ("nested-under-object-key", "{\"k\": @P} := {\"k\": @V}\nprint(2)\n"),
    ("nested-twice", "[n1, {\"k\": [@P]}] := [1, {\"k\": [@V]}]\nprint(2)\n"),
    ("for-target-over-list", "for [i, @P] in [@V] {\n    print(i)\n}\nprint(2)\n"),
    ("for-target-over-object", "for [k, @P] in {\"k\": @V} {\n    print(k)\n}\nprint(2)\n"),
]
for _pat, _kind, _reps in PATTERNS:
    for _pos, _tmpl in POSITIONS:
        CONTEXTS.append((f"destructure:{_pos}:{_pat}", _tmpl.replace("@P", _pat), {_kind}, {_kind: _reps}, set()))
# the whole `for` target receives the [key, value] pair, a list: an object pattern there is a kind mismatch for every iterable
for _pat in ("{}", "{a}", "{..r}"):
    CONTEXTS.append((f"destructure:for-whole-target:{_pat}", "for " + _pat + " in @V {\n    print(1)\n}\nprint(2)\n", set(),
                     {"list": ["l1"], "object": ["o1"], "string": ['"ab"']}, {"null", "bool", "int", "func", "builtin"}))
# every context once more as the SECOND evaluation of the same piece of code: the construct sits in a loop body that first
# receives a value of a documented kind and then @V.  (`@2` contexts are judged against the output of the first round alone.)
GOOD = {"bool": "true", "int": "1", "string": '"ab"', "list": "l1", "object": "o1", "func": "f", "builtin": "print"}
LATER = {}


def _indent(t):
    return "".join("    " + l + "\n" for l in t.rstrip("\n").split("\n"))


for _c in list(CONTEXTS):
    _name, _tmpl, _ok, _over, _skip = _c
    if _name in ("while-condition-later", "and-right-operand-later") or not _ok:
        continue
    _gk = sorted(_ok, key=KINDS.index)[0]
    _good = (_over.get(_gk) or [GOOD[_gk]])[0]
    _body = _indent(_tmpl.replace("@V", "zv"))
    LATER[_name + "@2"] = (_good, "for [zi, zv] in [" + _good + "@REST] {\n" + _body + "}\n")
    CONTEXTS.append((_name + "@2", LATER[_name + "@2"][1].replace("@REST", ", @V"), _ok, _over, _skip))
CTX = {c[0]: c for c in CONTEXTS}


def later_baseline_script(name):
    """the same loop with the first (well-kinded) round only"""
    return PRELUDE + LATER[name][1].replace("@REST", "")


_BASE_OUT = {}


def later_baseline(name):
    if name not in _BASE_OUT:
        _BASE_OUT[name] = core.run_cli(later_baseline_script(name))["stdout"]
    return _BASE_OUT[name]


def ctx_script(spec):
    return PRELUDE + CTX[spec["ctx"]][1].replace("@V", spec["v"]) + li.trailer(PID, spec)


def judge_ctx(spec, r):
    name, _, ok_kinds, _, _ = CTX[spec["ctx"]]
    k, v = spec["vk"], spec["v"]
    out, st, err = r["stdout"], r["status"], r["stderr"]
    what = f"{name} with {v} ({k})"
    if st not in ("0", "103"):
        return False, f"{what}: exit status {st}: {err[:200]}"
    if k in ok_kinds:
        if st != "0" or out == "":
            return False, f"{what}: documented kind, but status {st}, printed {out!r}: {err[:160]}"
        if name == "type-function" and out != NAME[k] + "\n":
            return False, f"{what}: `->type()` returned {out!r}, documented name is '{NAME[k]}'"
        return True, ""
    if st != "103":
        return False, f"{what}: a value of the wrong kind was accepted, printing {out[:80]!r}"
    before = later_baseline(name) if name in LATER else ("true\n" if name == "and-right-operand-later" else "")
    if out != before:
        return False, f"{what}: rejected, yet {out[:80]!r} was printed (the well-kinded part prints {before[:40]!r})"
    words = set(TYPE_WORD.findall(strip_head(err)))
    if name.startswith("destructure:for-whole-target"):
        words |= {NAME[k]} if "list" in words or "object" in words else set()
    if not (NAME[k] in words or words & {NAME[o] for o in ok_kinds} or ("function" in err and "func" in {NAME[o] for o in ok_kinds})):
        return False, f"{what}: not a type diagnostic (names neither '{NAME[k]}' nor an accepted type): {err[:200]!r}"
    return True, ""


# ---------------------------------------------------------------------------- driver
def build(spec):
    return ctx_script(spec) if "ctx" in spec else cell_script(spec)


def judge(spec, r):
    return judge_ctx(spec, r) if "ctx" in spec else judge_cell(spec, r)


def oracle_one(ctx, src, r):
    spec = li.spec_of(PID, src)
    if spec is None or build(spec) != src:
        ok = r["status"] in ("0", "103")
        return ok, "" if ok else f"exit status {r['status']}"
    return judge(spec, r)


def all_specs():
    specs = []
    for op in BIN_OPS:
        for lk in KINDS:
            for rk in KINDS:
                for l in REPS[lk]:
                    for r in REPS[rk]:
                        specs.append({"op": op, "form": "plain", "lk": lk, "rk": rk, "l": l, "r": r})
    for op in ("&&", "||", "<", "=="):      # the operator as the outermost expression of a condition: same cell, same outcome
        for form in ("if-condition", "while-condition", "else-if-condition"):
            for lk in KINDS:
                for rk in KINDS:
                    for l in REPS[lk]:
                        for r in REPS[rk]:
                            specs.append({"op": op, "form": form, "lk": lk, "rk": rk, "l": l, "r": r})
    for op in ("==", "!="):                 # the same operands one level down: the element comparison is the same cell
        for form in ("in-list", "in-list-twice", "in-object"):
            for lk in KINDS:
                for rk in KINDS:
                    for l in REPS[lk]:
                        for r in REPS[rk]:
                            specs.append({"op": op, "form": form, "lk": lk, "rk": rk, "l": l, "r": r})
    for op in ("==", "!="):                 # a container compared with a container that holds it: the cell reached is (list, int) / …
        for lk, l, rk, r in (("int", "[[7]]", "list", "alias"), ("list", "[[[7]]]", "int", "alias-left"), ("int", "{\"a\": {\"a\": 7}}", "object", "alias-obj")):
            specs.append({"op": op, "form": "aliased-nesting", "lk": lk, "rk": rk, "l": l, "r": r})
    for op in ASSIGN_OPS:
        for form in TARGETS:
            for lk in KINDS:
                for rk in KINDS:
                    for l in REPS[lk]:
                        for r in REPS[rk]:
                            specs.append({"op": op, "form": form, "lk": lk, "rk": rk, "l": l, "r": r})
    for name, _, _, over, skip in CONTEXTS:
        for k in KINDS:
            if k in skip:
                continue
            for v in over.get(k, REPS[k]):
                specs.append({"ctx": name, "vk": k, "v": v})
    return specs


def proj(r):
    """stdout, status, and the diagnostic with its position (the statement constrains operator and type names)"""
    return tie.proj_full(r)


def run(ctx, model_ok):
    specs = all_specs()
    ctx.cov["exhaustive"] = True
    ctx.exclude("indexed-value:object (judged as the property context)", 2)
    srcs = [build(s) for s in specs]
    impl, dis = tie.run(ctx, srcs, "matrix", model_ok, project=proj)
    bad = []
    cells = set()
    for spec, src, r in zip(specs, srcs, impl):
        if "ctx" in spec:
            cell = ("ctx", spec["ctx"], spec["vk"])
            ok_cell = spec["vk"] in CTX[spec["ctx"]][2]
            ctx.dist("context:" + ("accepted" if ok_cell else "rejected"))
        else:
            cell = (spec["op"], spec["form"], spec["lk"], spec["rk"])
            ok_cell = allowed(spec["op"], spec["lk"], spec["rk"])
            ctx.dist(("plain" if spec["form"] == "plain" else "op-assign" if spec["form"] in TARGETS else "nested") + ":" +
                     ("allowed" if ok_cell else "rejected"))
        cells.add(cell)
        ctx.nontrivial(cell)
        ok, why = judge(spec, r)
        if not ok:
            bad.append((spec, src, r, why))
    ctx.cov["matrix_cells"] = {"plain": sum(1 for c in cells if c[1] == "plain"),
                               "op_assign": sum(1 for c in cells if c[0] != "ctx" and c[1] in TARGETS),
                               "nested_equality": sum(1 for c in cells if c[0] != "ctx" and c[1].startswith("in-")),
                               "as_condition": sum(1 for c in cells if c[0] != "ctx" and c[1].endswith("-condition")),
                               "contexts": sum(1 for c in cells if c[0] == "ctx")}
    seen = set()
    failing = set()
    for spec, src, r, why in bad:
        failing.add(src)
        key = (spec.get("ctx"), spec.get("op"), spec.get("form"), spec.get("lk", spec.get("vk")), spec.get("rk"))
        if key in seen or len(seen) >= 8:
            continue
        c = core.run_cli(src)
        ctx.cov["cli_reconfirmed"] += 1
        ok, why_cli = judge(spec, c)
        if ok:
            continue
        seen.add(key)
        ctx.violation(why_cli, src, {"cli": c, "failing_cells": len(bad), "spec": spec})
    tie.report_disagreements(ctx, [d for d in dis if d[0] not in failing], "matrix")
    for i in (7, len(specs) // 2, len(specs) - 40, len(specs) - 400):
        ctx.sample({"spec": specs[i], "src": srcs[i][len(PRELUDE):][:160], "impl": {k: v[:140] for k, v in impl[i].items()}})
