"""C14 — calls bind arguments to fresh parameters; `this` follows the access path."""
import itertools

import lib_objects as L

RULE = ("self-describing scripts; the generator tracks, for every function value in a variable / list slot / object slot / "
        "getter, the object it was last *read from* (its source) and plants the tag that `print(this.tag)` must show. Stream "
        "`this_routes`: random histories of <= 5 / <= 7 steps out of {attach to an object by `.k` or `[\"k\"]` (identifier and "
        "non-identifier keys), read through `.`/`[]` chains of depth 1..3 (also through an object reached via a list or via "
        "another object), copy to a variable, reassign, put in a list / replace a list slot / append, return from a getter, pass "
        "as an argument to a runner, run through a runner that is itself a method, list-destructure, make a closure inside a "
        "method, keep a list in an object and index it there (`o.hs[i]`: the item is what was stored, the list's own source gives it "
        "nothing), take the item of a `for` over a list (pattern target and pair target), call — directly, through runners, "
        "through spreads, as the loop item of a `for`} over 3 objects + 1 nested object and functions of arity 0..2 with/without a rest parameter, every call "
        "with tracing arguments; functions with no source and no enclosing `this` are predicted to fail. Stream `arity`: "
        "arities 0..4 +/- rest x argument counts 0..5 x plain/spread splits, every argument a tracing call (each printed once, "
        "left to right, also when the count check then fails), direct and method calls. Stream `params`: assignment / "
        "op-assignment / in-place mutation of parameters (plain, rest, destructured) against the caller's variables, recursion "
        "and closures over parameters. non-trivial = distinct (step-kind sequence, outcome class)")
ASSUMPTIONS = ["`this` is not used as a parameter name; no error is raised inside a `return` expression (both are the subject "
               "of C17 repairs)",
               "object destructuring and `for` over an OBJECT are not used to move function values: the statement says nothing "
               "about the source they carry"]

TAGS = {"o1": "T1", "o2": "T2", "o3": "T3", "inner": "T2i"}


def oracle_one(ctx, src, r):
    return L.judge(src, r)


class FV:
    """a function value as the interpreter carries it: which function, the object it was last read from, and the
    `this` visible through its closure (for functions made inside a method call)"""
    def __init__(self, fid, src=None, cthis=None):
        self.fid, self.src, self.cthis = fid, src, cthis

    def read_from(self, obj):
        return FV(self.fid, obj, self.cthis)


class Obj:
    def __init__(self, name, tag):
        self.name, self.tag = name, tag
        self.slots = {}        # key -> FV | Obj


class World:
    def __init__(self, rng, maxsteps):
        self.rng = rng
        self.sc = L.Script()
        self.maxsteps = maxsteps
        self.objs = {}
        self.vars = {}         # name -> FV
        self.lists = {}        # name -> [FV]
        self.getters = {}      # name -> thunk returning (FV)
        self.funcs = {}        # fid -> (nparams, rest)
        self.n = 0

    def fresh(self, p):
        self.n += 1
        return f"{p}{self.n}"

    # ------------------------------------------------------------------ setup
    def setup(self):
        rng, sc = self.rng, self.sc
        sc.stmt("fn t(x) { print(x); return x; }")
        sc.stmt("fn run(g, ..a) { g(a..); }")
        for name in ("o1", "o2", "o3"):
            self.objs[name] = Obj(name, TAGS[name])
            sc.stmt(f"{name} := {{\"tag\": \"{TAGS[name]}\"}}")
        inner = Obj("inner", TAGS["inner"])
        self.objs["inner"] = inner
        sc.stmt("o2.inner = {\"tag\": \"T2i\"}")
        self.objs["o2"].slots["inner"] = inner
        sc.stmt("holder := [o1, o3]")
        sc.stmt("o3.friend = o1")
        self.objs["o3"].slots["friend"] = self.objs["o1"]
        # the functions
        for i in range(rng.randrange(1, 3)):
            npar = rng.randrange(0, 3)
            rest = rng.random() < 0.4
            fid = f"f{i}"
            params = [f"p{j}" for j in range(npar)]
            plist = ", ".join(params + (["..r"] if rest else []))
            body = (f"print(this.tag); " if rng.random() < 0.6 else 'print($"${this.tag}"); ') + f"print([{', '.join(params)}]);" + (" print(r);" if rest else "")
            if rng.random() < 0.5:
                sc.stmt(f"fn {fid}({plist}) {{ {body} }}")
            else:
                sc.stmt(f"{fid} := fn ({plist}) {{ {body} }}")
            self.funcs[fid] = (npar, rest)
            self.vars[fid] = FV(fid)
        # a function that makes a function inside itself: the inner one sees the maker's `this` through its closure
        sc.stmt("mk := fn () { return fn (..r) { print(this.tag); print([]); print(r); }; }")
        self.funcs["mk"] = "maker"
        self.funcs["inner"] = (0, True)
        self.vars["mk"] = FV("mk")
        # start with a few attachments so that most histories have sourced values to move around
        for _ in range(rng.randrange(1, 4)):
            self.attach(maker=rng.random() < 0.3)

    def refs(self):
        """expression text -> Obj: every path of at most 3 hops from a root, `.k` / `["k"]` chosen at random per hop"""
        rng = self.rng
        out = {}
        frontier = [("o1", self.objs["o1"]), ("o2", self.objs["o2"]), ("o3", self.objs["o3"]),
                    ("holder[0]", self.objs["o1"]), ("holder[1]", self.objs["o3"])]
        for _ in range(3):
            nxt = []
            for text, obj in frontier:
                out[text] = obj
                for key, v in obj.slots.items():
                    if isinstance(v, Obj):
                        nxt.append((f"{text}.{key}" if rng.random() < 0.5 else f"{text}[{L.str_lit(key)}]", v))
            frontier = nxt
        for text, obj in frontier:
            out[text] = obj
        return out

    # ------------------------------------------------------------------ expressions denoting function values
    def fexpr(self, want_maker=False, for_call=False):
        """(text, FV) of a random expression whose value is a function"""
        rng = self.rng
        cands = []
        for name, fv in self.vars.items():
            cands.append((name, fv))
        for ref, obj in self.refs().items():
            for key, v in obj.slots.items():
                if isinstance(v, FV):
                    dot = L.is_ident(key) and rng.random() < 0.5
                    text = f"{ref}.{key}" if dot else f"{ref}[{L.str_lit(key)}]"
                    cands.append((text, v.read_from(obj)))
        for name, items in self.lists.items():
            for i, fv in enumerate(items):
                cands.append((f"{name}[{i}]", fv))
        # a list kept in an object: the ITEM is what was stored (with the source it had then); that the list itself was
        # read from an object gives its items nothing
        for ref, obj in self.refs().items():
            for key, v in obj.slots.items():
                if isinstance(v, list):
                    dot = L.is_ident(key) and rng.random() < 0.5
                    ltext = f"{ref}.{key}" if dot else f"{ref}[{L.str_lit(key)}]"
                    for i, fv in enumerate(v):
                        cands.append((f"{ltext}[{i}]", fv))
        for name, thunk in self.getters.items():
            fv = thunk()
            if fv is not None:
                cands.append((f"{name}()", fv))
        cands = [c for c in cands if (self.funcs[c[1].fid] == "maker" if want_maker else isinstance(self.funcs[c[1].fid], tuple))]
        if not cands:
            return None
        if for_call or want_maker:
            # mostly values with a `this` (a predicted failure ends the script)
            good = [c for c in cands if c[1].src is not None or c[1].cthis is not None]
            if good and rng.random() < 0.9:
                cands = good
        # prefer values that have travelled
        far = [c for c in cands if c[1].src is not None or "[" in c[0] or "(" in c[0]]
        return rng.choice(far if far and rng.random() < 0.7 else cands)

    def args_for(self, fv):
        """tracing arguments fitting the function (or not: the arity stream covers mismatches)"""
        rng = self.rng
        npar, rest = self.funcs[fv.fid]
        n = npar + (rng.randrange(0, 3) if rest else 0)
        vals = [rng.randrange(10, 99) for _ in range(n)]
        texts = []
        i = 0
        while i < n:
            if rng.random() < 0.25:
                j = rng.randrange(i + 1, n + 1)
                texts.append("[" + ", ".join(f"t({v})" for v in vals[i:j]) + "]..")
                i = j
            else:
                texts.append(f"t({vals[i]})")
                i += 1
        if rng.random() < 0.15:
            texts.insert(rng.randrange(len(texts) + 1), "[]..")
        return texts, vals

    def call(self, text, fv, via):
        """emit a call of the function value denoted by `text` and the predicted output"""
        sc = self.sc
        if not isinstance(self.funcs[fv.fid], tuple):
            return
        texts, vals = self.args_for(fv)
        npar, rest = self.funcs[fv.fid]
        if via == "direct":
            stmt = f"{text}({', '.join(texts)})"
        elif via == "runner":
            stmt = f"run({', '.join([text] + texts)})"
        elif via == "spread-runner":   # the function value travels through a spread argument
            stmt = f"run({', '.join(['[' + text + ']..'] + texts)})"
        elif via == "spread-list":     # … or through a spread list item
            stmt = f"[[{text}]..][0]({', '.join(texts)})"
        elif via == "for-item":        # … or as the item of a `for` over a list that holds it
            stmt = f"for [i_, j_] in [0, {text}] {{ if i_ == 1 {{ j_({', '.join(texts)}); }}; }}"
        else:   # the runner is itself reached through an object: its own `this` must not leak into the callee
            stmt = f"o3.go({', '.join([text] + texts)})"
        for v in vals:
            sc.expect(v)
        this = fv.src if fv.src is not None else fv.cthis
        if this is None:
            sc.fail(stmt, "`this` used in a function that was not read from an object")
            return
        sc.stmt(stmt)
        sc.expect(this.tag)
        sc.expect(vals[:npar])
        if rest:
            sc.expect(vals[npar:])

    # ------------------------------------------------------------------ steps
    def attach(self, maker):
        rng, sc = self.rng, self.sc
        fe = self.fexpr(want_maker=maker)
        if fe is None:
            return
        text, fv = fe
        refs = self.refs()
        ref = rng.choice(sorted(refs))
        obj = refs[ref]
        key = rng.choice(["m", "m2", "m n", "_f"])
        dot = L.is_ident(key) and rng.random() < 0.5
        sc.stmt(f"{ref}.{key} = {text}" if dot else f"{ref}[{L.str_lit(key)}] = {text}")
        obj.slots[key] = fv
        sc.tags.append("attach-" + ("dot" if dot else "idx"))

    def step(self):
        rng, sc = self.rng, self.sc
        c = rng.randrange(100)
        if c < 20:                                    # attach
            self.attach(maker=rng.random() < 0.15)
        elif c < 32:                                  # variable
            fe = self.fexpr(want_maker=rng.random() < 0.1)
            if fe is None:
                return
            text, fv = fe
            movable = [v for v in self.vars if v.startswith("g")]
            if movable and rng.random() < 0.3:
                name = rng.choice(movable)
                if not isinstance(self.funcs[self.vars[name].fid], tuple) or not isinstance(self.funcs[fv.fid], tuple):
                    return
                sc.stmt(f"{name} = {text}")
                sc.tags.append("reassign")
            else:
                name = self.fresh("g")
                sc.stmt(f"{name} := {text}")
                sc.tags.append("variable")
            self.vars[name] = fv
        elif c < 42:                                  # lists
            fe = self.fexpr()
            if fe is None:
                return
            text, fv = fe
            r = rng.randrange(5)
            if r == 3 and self.lists:                 # a range of one item replaced: the new item travels like any other
                name = rng.choice(sorted(self.lists))
                i = rng.randrange(len(self.lists[name]))
                sc.stmt(f"{name}[{i}:{i + 1}] = [{text}]")
                self.lists[name][i] = fv
                sc.tags.append("list-range-set")
            elif r == 4 and self.lists:               # a slice is a list of the same items
                src_l = rng.choice(sorted(self.lists))
                name = self.fresh("l")
                k = rng.randrange(1, len(self.lists[src_l]) + 1)
                sc.stmt(f"{name} := {src_l}[0:{k}]")
                self.lists[name] = list(self.lists[src_l][:k])
                sc.tags.append("list-slice")
            elif r == 0 or not self.lists:
                name = self.fresh("l")
                fe2 = self.fexpr()
                sc.stmt(f"{name} := [{text}, {fe2[0]}]")
                self.lists[name] = [fv, fe2[1]]
                sc.tags.append("list-new")
            elif r == 1:
                name = rng.choice(sorted(self.lists))
                i = rng.randrange(len(self.lists[name]))
                sc.stmt(f"{name}[{i}] = {text}")
                self.lists[name][i] = fv
                sc.tags.append("list-set")
            elif r in (2, 3) and rng.random() < 0.5:
                src_l = rng.choice(sorted(self.lists))
                name = self.fresh("l")
                sc.stmt(f"{name} := [{src_l}.., {text}]")
                self.lists[name] = list(self.lists[src_l]) + [fv]
                sc.tags.append("list-spread")
            else:
                name = rng.choice(sorted(self.lists))
                sc.stmt(f"{name} += [{text}]")
                self.lists[name] = self.lists[name] + [fv]
                sc.tags.append("list-append")
        elif c < 50:                                  # getter: the expression is evaluated when the getter is called
            kind = rng.randrange(3)
            name = self.fresh("get")
            if kind == 0:
                vs = [v for v in self.vars if isinstance(self.funcs[self.vars[v].fid], tuple)]
                v = rng.choice(sorted(vs))
                sc.stmt(f"fn {name}() {{ return {v}; }}")
                self.getters[name] = lambda v=v: self.vars[v]
            elif kind == 1:
                ref = rng.choice(["o1", "o2", "o3"])        # roots: the path means the same object whenever it is called
                obj = self.objs[ref]
                key = rng.choice(["m", "m2"])
                sc.stmt(f"fn {name}() {{ return {ref}.{key}; }}")

                def thunk(obj=obj, key=key):
                    v = obj.slots.get(key)
                    return v.read_from(obj) if isinstance(v, FV) and isinstance(self.funcs[v.fid], tuple) else None
                self.getters[name] = thunk
            else:
                if not self.lists:
                    return
                ln = rng.choice(sorted(self.lists))
                sc.stmt(f"fn {name}() {{ return {ln}[0]; }}")
                self.getters[name] = lambda ln=ln: self.lists[ln][0]
            sc.tags.append("getter%d" % kind)
        elif c < 56:                                  # list destructuring keeps the source
            fe = self.fexpr()
            if fe is None:
                return
            text, fv = fe
            name = self.fresh("g")
            if rng.random() < 0.5:
                sc.stmt(f"[{name}] := [{text}]")
            else:
                sc.stmt(f"[_, ..rs{name}] := [0, {text}]")
                sc.stmt(f"{name} := rs{name}[0]")
            self.vars[name] = fv
            sc.tags.append("destructure")
        elif c < 62:                                  # object reachable by a new path
            refs = self.refs()
            ref = rng.choice(sorted(refs))
            obj = refs[ref]
            tgt = rng.choice(["o1", "o2", "o3"])
            if obj is self.objs[tgt]:
                return
            key = rng.choice(["peer", "friend"])
            # no cycles: only o3 and o2 may point to others, and only to o1 / inner
            if tgt == "o1" or obj.name not in ("o1", "inner"):
                return
            sc.stmt(f"{tgt}.{key} = {ref}")
            self.objs[tgt].slots[key] = obj
            sc.tags.append("object-path")
        elif c < 70:                                  # a closure made inside a method
            fe = self.fexpr(want_maker=True)
            if fe is None:
                return
            text, fv = fe
            name = self.fresh("g")
            sc.stmt(f"{name} := {text}()")
            self.vars[name] = FV("inner", None, fv.src if fv.src is not None else fv.cthis)
            sc.tags.append("closure-in-method" if fv.src is not None else "closure-no-this")
        elif c < 75 and self.lists:                   # a list kept in an object (the same list, not a copy)
            refs = self.refs()
            ref = rng.choice(sorted(refs))
            obj = refs[ref]
            ln = rng.choice(sorted(self.lists))
            key = rng.choice(["hs", "h s", "jobs"])
            dot = L.is_ident(key) and rng.random() < 0.5
            sc.stmt(f"{ref}.{key} = {ln}" if dot else f"{ref}[{L.str_lit(key)}] = {ln}")
            obj.slots[key] = self.lists[ln]
            if rng.random() < 0.5:                    # … and read back into a variable: still the same list
                name = self.fresh("l")
                sc.stmt(f"{name} := {ref}.{key}" if dot else f"{name} := {ref}[{L.str_lit(key)}]")
                self.lists[name] = self.lists[ln]
            sc.tags.append("list-in-object")
        elif c < 80 and self.lists:                   # the item of a `for` over a list is the stored item
            ln = rng.choice(sorted(self.lists))
            k = rng.randrange(len(self.lists[ln]))
            name = self.fresh("g")
            sc.stmt(f"{name} := null")
            if rng.random() < 0.5:
                sc.stmt(f"for [i_, j_] in {ln} {{ if i_ == {k} {{ {name} = j_; }}; }}")
            else:
                sc.stmt(f"for pr_ in {ln} {{ if pr_[0] == {k} {{ {name} = pr_[1]; }}; }}")
            self.vars[name] = self.lists[ln][k]
            sc.tags.append("for-item")
        else:                                         # call
            fe = self.fexpr(for_call=True)
            if fe is None:
                return
            text, fv = fe
            via = rng.choice(["direct", "direct", "runner", "method-runner", "spread-runner", "spread-list", "for-item"])
            if via == "method-runner" and "go" not in self.objs["o3"].slots:
                sc.stmt("o3.go = run")
                self.objs["o3"].slots["go"] = FV("run")
                self.funcs["run"] = "runner"         # never picked as a callee
            self.call(text, fv, via)
            sc.tags.append("call-" + via + ("" if fv.src is None else "-sourced") +
                           ("-closure" if fv.src is None and fv.cthis is not None else ""))

    def build(self):
        self.setup()
        steps = self.rng.randrange(2, self.maxsteps + 1)
        for _ in range(steps):
            if self.sc.failed:
                break
            self.step()
        if not self.sc.failed:                        # always end with calls of two travelled values
            for _ in range(2):
                fe = self.fexpr(for_call=True)
                if fe and not self.sc.failed:
                    self.call(fe[0], fe[1], "direct")
                    self.sc.tags.append("final-call" + ("" if fe[1].src is None else "-sourced"))
        return self.sc


def route_scripts(rng, n, maxsteps):
    out = []
    for _ in range(n):
        w = World(rng, maxsteps)
        sc = w.build()
        out.append(sc.source({"tags": sc.tags}))
    return out


# ---------------------------------------------------------------------------- arity and argument order
def arity_scripts(rng, thorough):
    import props.C13 as C13
    out = []
    maxn = 5
    for arity in range(0, 5):
        for rest in (False, True):
            if rest and arity == 0:
                continue
            params = [f"p{i}" for i in range(arity - (1 if rest else 0))]
            plist = ", ".join(params + (["..r"] if rest else []))
            for n in range(0, maxn + 1):
                vals = list(range(10, 10 + n))
                sp = C13.splits(vals, rng, False)
                if not thorough and len(sp) > 6:
                    sp = rng.sample(sp, 6)
                for split in sp:
                    for method in (False, True):
                        sc = L.Script()
                        sc.stmt("fn t(x) { print(x); return x; }")
                        body = f"print([{', '.join(params)}]);" + (" print(r);" if rest else "")
                        if method:
                            body = "print(this.tag); " + body
                            sc.stmt(f"o := {{\"tag\": \"T\", \"f\": fn ({plist}) {{ {body} }}}}")
                            callee = rng.choice(["o.f", "o[\"f\"]"])
                        else:
                            sc.stmt(f"fn f({plist}) {{ {body} }}")
                            callee = "f"
                        args = []
                        for kind, x in split:
                            if kind == "plain":
                                args.append(f"t({x})")
                            else:
                                args.append("[" + ", ".join(f"t({y})" for y in x) + "]..")
                        ok = (n >= len(params)) if rest else (n == arity)
                        for v in vals:
                            sc.expect(v)
                        stmt = f"{callee}({', '.join(args)})"
                        if ok:
                            sc.stmt(stmt)
                            if method:
                                sc.expect("T")
                            sc.expect(vals[:len(params)])
                            if rest:
                                sc.expect(vals[len(params):])
                            sc.stmt("print(\"end\")")
                            sc.expect("end")
                        else:
                            sc.fail(stmt, f"{n} arguments for ({plist})")
                        sc.tags = ["arity", f"{arity}{'+rest' if rest else ''}", n, "method" if method else "plain",
                                   "ok" if ok else "err"]
                        out.append(sc.source({"tags": sc.tags}))
    return out


# ---------------------------------------------------------------------------- parameters are fresh variables
def param_scripts():
    out = []

    def add(lines, outs, tag):
        sc = L.Script()
        for l in lines:
            sc.stmt(l)
        for o in outs:
            sc.expect(o)
        sc.tags = ["params", tag, "ok"]
        out.append(sc.source({"tags": sc.tags}))

    kinds = {"int": (1, "2", 2), "str": ("s", "\"u\"", "u"), "list": ([1, 2], "[7]", [7]), "obj": ({"a": 1}, "{\"b\": 2}", {"b": 2}),
             "null": (None, "3", 3)}
    for k, (v, newt, newv) in kinds.items():
        for same_name in (False, True):
            p = "x" if same_name else "p"
            # reassigning the parameter never reaches the caller's variable
            add([f"x := {L.lit(v)}", f"fn f({p}) {{ {p} = {newt}; print({p}); }}", "f(x)", "print(x)"], [newv, v],
                f"assign-{k}-{'same' if same_name else 'other'}-name")
            add([f"x := {L.lit(v)}", f"fn f(a, {p}, ..r) {{ {p} = {newt}; r = [0]; a = 0; print([a, {p}, r]); }}",
                 "ys := [5, 6]", "f(0, x, ys..)", "print([x, ys])"], [[0, newv, [0]], [v, [5, 6]]], f"assign-mid-{k}")
            add([f"x := {L.lit(v)}", f"f := fn ([{p}, q]) {{ {p} = {newt}; q = 0; print([{p}, q]); }}",
                 "pair := [x, 9]", "f(pair)", "print([x, pair])"], [[newv, 0], [v, [v, 9]]], f"assign-destructured-{k}")
    for same_name in (False, True):
        p = "x" if same_name else "p"
        # op-assignment builds a new value: the caller's list is untouched; writing *into* the list is shared
        add(["x := [1, 2]", f"fn f({p}) {{ {p} += [3]; print({p}); }}", "f(x)", "print(x)"], [[1, 2, 3], [1, 2]], "opassign-list")
        add(["x := 5", f"fn f({p}) {{ {p} *= 3; print({p}); }}", "f(x)", "print(x)"], [15, 5], "opassign-int")
        add(["x := [1, 2]", f"fn f({p}) {{ {p}[0] = 9; }}", "f(x)", "print(x)"], [[9, 2]], "mutate-list")
        add(["x := {\"a\": 1}", f"fn f({p}) {{ {p}.a = 9; {p}.b = 8; }}", "f(x)", "print(x)"], [{"a": 9, "b": 8}], "mutate-object")
        add(["x := [[1], 2]", f"fn f({p}) {{ {p}[0][0] = 9; {p} = []; }}", "f(x)", "print(x)"], [[[9], 2]], "mutate-then-assign")
        add(["x := [1, 2]", f"fn f(..{p}) {{ {p}[0] = 9; print({p}); }}", "f(x..)", "print(x)"], [[9, 2], [1, 2]], "rest-is-fresh")
        add(["x := [1, 2]", f"fn f(..{p}) {{ {p}[0][0] = 9; }}", "y := [x]", "f(y..)", "print(x)"], [[9, 2]], "rest-elements-shared")
    # every call has its own parameters
    add(["fn rec(n, acc) { if n > 0 { rec(n - 1, acc + [n]); }; print([n, acc]); }", "rec(2, [])"],
        [[0, [2, 1]], [1, [2]], [2, []]], "recursion")
    add(["fn mk(x) { return fn () { x += 1; return x; }; }", "c1 := mk(1)", "c2 := mk(10)", "print(c1())", "print(c1())",
         "print(c2())", "print(c1())"], [2, 3, 11, 4], "closure-over-parameter")
    add(["x := 1", "fn f(x) { fn g() { x = 7; }; g(); print(x); }", "f(2)", "print(x)"], [7, 1], "inner-assigns-parameter")
    add(["fn f(a, b) { a = b; b = 0; return [a, b]; }", "x := 1", "y := 2", "print(f(x, y))", "print([x, y])"],
        [[2, 0], [1, 2]], "swap-inside")
    add(["fn f(a) { a = 5; }", "o := {\"k\": 1}", "f(o.k)", "xs := [1]", "f(xs[0])", "print([o, xs])"], [[{"k": 1}, [1]]],
        "slot-argument")
    add(["fn f(p) { p = 1; return p; }", "fn g(p) { f(p); return p; }", "print(g(9))"], [9], "same-name-other-function")
    # arguments are evaluated once each, left to right, and a spread argument contributes what its list holds when it is
    # reached; the leftmost failing argument is the one reported
    add(["xs := [1, 2]", "fn bump() { xs[0] = 100; return 0; }", "fn show(a, b, c) { print([a, b, c]); }", "show(xs.., bump())", "print(xs)"],
        [[1, 2, 0], [100, 2]], "spread-then-mutating-argument")
    add(["xs := [1, 2]", "fn bump() { xs[0] = 100; return 0; }", "fn show(a, b, c) { print([a, b, c]); }", "show(bump(), xs..)"],
        [[0, 100, 2]], "mutating-argument-then-spread")
    add(["fn t(x) { print(x); return x; }", "fn show(..r) { print(r); }", "show(t(1), [t(2), t(3)].., t(4), [].., [t(5)]..)"],
        [1, 2, 3, 4, 5, [1, 2, 3, 4, 5]], "each-argument-once-in-order")
    sc = L.Script()
    sc.stmt("fn t(x) { print(x); return x; }")
    sc.stmt("fn show(..r) { print(r); }")
    sc.expect(1)
    sc.fail("show(t(1), 2.., t(3), zz_undefined)", "spread of a non-list is the leftmost failing argument")
    sc.tags = ["params", "leftmost-failing-argument", "err"]
    out.append(sc.source({"tags": sc.tags}))
    add(["o := {\"name\": \"b\", \"hi\": fn () { return $\"I am ${this.name}\"; }}", "print(o.hi())", "p := {\"name\": \"c\", \"hi\": o.hi}",
         "print(p.hi())", "h := p.hi", "print(h())"], ["I am b", "I am c", "I am c"], "this-only-in-slots")
    return out


def classify(src, r):
    p = L.prediction(src) or {}
    t = p.get("tags", [])
    return (tuple(str(x) for x in t[:9]), L.err_class(r))


def run(ctx, model_ok):
    rng = ctx.rng
    thorough = ctx.tier == "thorough"
    L.run_stream(ctx, "corpus", L.corpus_scripts("C14"), model_ok, classify=classify)
    nroutes, maxsteps = (800000, 7) if thorough else (30000, 5)
    done = 0
    while done < nroutes:
        k = min(100000, nroutes - done)
        routes = route_scripts(rng, k, maxsteps)
        L.run_stream(ctx, "this_routes", routes, model_ok, classify=classify)
        for s in routes:
            for t in (L.prediction(s) or {}).get("tags", []):
                ctx.dist("step:" + str(t))
        done += k
    L.run_stream(ctx, "arity", arity_scripts(rng, thorough), model_ok, classify=classify)
    L.run_stream(ctx, "params", param_scripts(), model_ok, classify=classify)
