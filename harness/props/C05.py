"""C05 — containers are shared by reference; building operations return fresh ones; scalars are immutable values."""
import itertools
import core
import tie
import lib_scope_alias as A

RULE = ("[identity stream: every ordered pair of list-building / object-building expressions, empty results included (empty slices, "
        "empty rest / collect results, empty ranges, empty concatenations), must give two different containers (`===` false), the same "
        "expression evaluated twice too; a container stored into one of its own slots (directly, through an alias, inside a new "
        "container, by range assignment, destructuring, op-assignment, a call) is stored as itself] "
        "histories of alias / copy / mutate operations over three variables holding lists and objects (<= 4 live containers), each "
        "operation followed by a full observation (print of every variable, === / !== between every two variables of one kind "
        "and between every stored child and every variable): breadth-first over distinct heap shapes — histories of up to "
        "3 (quick; 2 for the all-objects initial heap) / 4 (thorough) operations: from every distinct shape reachable with one "
        "operation fewer, every applicable operation is tried (exhaustive to that bound) — from three initial heaps, plus random histories of 5..12 operations; scalar histories: every sequence of <= 3 (strings in quick: <= 2) / <= 4 "
        "(length 4: 60000 sampled) operations on two scalar variables, a list and an object (ints, strings); every expected line comes from running the same "
        "history on Python lists/dicts/ints/strs; non-trivial = distinct (heap shape before the last operation, operation) / "
        "distinct operation sequence")
ASSUMPTIONS = ["the Python reference encodes the statement: alias sites bind the same object, building operations make a new "
               "list/dict holding the same element objects, `x += [k]` makes a new list, element/property/range updates are in "
               "place; `is` stands for `===`",
               "histories that would make a container reach itself are not generated (printing has no finite result)",
               "heaps with more than 4 live containers and lists longer than 3 are cut off"]


def key(r):
    return (r["stdout"], r["status"])


def oracle_one(ctx, src, r):
    e = A.expected_of(src)
    if e is not None:
        return (True, "") if key(r) == (e[1], "0") else (False, first_diff(e[1], r))
    e = A.scalar_expected_of(src)
    if e is not None:
        return (True, "") if key(r) == (e[0], "0") else (False, first_diff(e[0], r))
    return True, "not a history script"


def first_diff(exp, r):
    if r["status"] != "0":
        return f"the history cannot fail, but exit status {r['status']}: {r['stderr'][:200]}"
    a, b = exp.split("\n"), r["stdout"].split("\n")
    for i, (x, y) in enumerate(zip(a, b)):
        if x != y:
            return f"output line {i + 1}: the reference on Python objects gives {x!r}, the implementation {y!r}"
    return f"output has {len(b)} lines, the reference {len(a)}"


def shrink_history(src):
    """the shortest prefix of the history on which the CLI still disagrees with the reference"""
    n = 1
    while True:
        e = A.expected_of(src, n)
        if e is None:
            return src
        r = core.run_cli(e[0])
        if key(r) != (e[1], "0"):
            return e[0]
        if e[0] == src or n > 40:
            return src
        n += 1


def judge(ctx, label, scripts, impl, dis, reported):
    """scripts: [(tags, src, expected)]"""
    bad = set()
    for (tags, src, exp), r in zip(scripts, impl):
        if key(r) == (exp, "0"):
            continue
        bad.add(src)
        cls = tags[-1] if r["status"] == "0" else "status"
        if cls in reported or len(reported) >= 6:
            continue
        c = core.run_cli(src)
        ctx.cov["cli_reconfirmed"] += 1
        if key(c) == (exp, "0"):
            continue
        reported.add(cls)
        small = shrink_history(src)
        cs = core.run_cli(small)
        es = A.expected_of(small)
        ctx.violation("aliasing/copying history: " + first_diff(es[1] if es else exp, cs), small,
                      {"cli": cs, "reference_stdout": es[1] if es else exp, "operations": tags, "stream": label})
    tie.report_disagreements(ctx, [d for d in dis if d[0] not in bad], label)


def render_seq(xs):
    return "[\n" + "".join(f"    {x},\n" for x in xs) + "]\n"


def repeated_evaluation_scripts():
    """an expression that builds a container builds a NEW one every time it is evaluated (loop iterations, calls), and `for`
    binds a pair of its own in every iteration: containers kept from different evaluations are distinct and independent"""
    builders = [
        ("list-literal", "[0, 1]", "[0]", "9", "0"), ("object-literal", '{"k": 0}', '["k"]', "9", "0"),
        ("nested-literal", "[[0], [1]]", "[0][0]", "9", "0"), ("range", "0 .. 3", "[0]", "9", "0"),
        ("slice", "src[0:2]", "[0]", "9", "5"), ("concat", "src + src", "[0]", "9", "5"), ("spread", "[src..]", "[0]", "9", "5"),
        ("object-spread", '{osrc..}', '["k"]', "9", "7"), ("call-rest", "rest(5, 6)", "[0]", "9", "5"),
    ]
    pre = 'src := [5, 6, 7]\nosrc := {"k": 7}\nfn rest(..r) { return r; }\n'
    out = []
    for name, expr, path, newv, oldv in builders:
        # twice in a loop
        out.append(((name, "loop"), pre + f"keep := []\nfor [i, v] in [1, 2] {{\n    c := {expr}\n    keep += [c]\n}}\nprint(keep[0] === keep[1])\n"
                    f"keep[0]{path} = {newv}\nprint(keep[1]{path})\nprint(keep[0]{path})\n", f"false\n{oldv}\n{newv}\n"))
        # twice through a function
        out.append(((name, "call"), pre + f"fn mk() {{ return {expr}; }}\na := mk()\nb := mk()\nprint(a === b)\na{path} = {newv}\nprint(b{path})\n"
                    f"print(mk(){path})\n", f"false\n{oldv}\n{oldv}\n"))
        # twice in a while loop, the first one updated while the second is built
        out.append(((name, "while"), pre + f"keep := []\nn := 0\nwhile n < 2 {{\n    n += 1\n    keep += [{expr}]\n    keep[0]{path} = {newv}\n}}\n"
                    f"print(keep[1]{path})\n", f"{oldv}\n"))
    for it, first, second in [('["a", "b", "c"]', "[\n    0,\n    a,\n]\n", "b"), ('"xyz"', "[\n    0,\n    x,\n]\n", "y"),
                              ('{"p": 1, "q": 2}', "[\n    p,\n    1,\n]\n", "2"), ("5 .. 8", "[\n    0,\n    5,\n]\n", "6")]:
        out.append((("for-pair", it[:5]), f"keep := []\nfor p in {it} {{\n    keep += [p]\n}}\nprint(keep[0] === keep[1])\nprint(keep[0])\n"
                    f"keep[0][1] = \"w\"\nprint(keep[1][1])\n", f"false\n{first}{second}\n"))
        out.append((("for-pair-closure", it[:5]), f"fs := []\nfor p in {it} {{\n    fs += [fn() {{ return p; }}]\n}}\nprint(fs[0]() === fs[1]())\n"
                    f"print(fs[0]() === fs[0]())\nprint(fs[0]())\n", f"false\ntrue\n{first}"))
    out.append((("collect", "loop"), "src := [1, 2, 3]\nkeep := []\nfor [i, v] in [1, 2] {\n    [h, ..t] := src\n    keep += [t]\n}\nprint(keep[0] === keep[1])\n"
                "keep[0][0] = 9\nprint(keep[1][0])\nprint(src)\n", "false\n2\n[\n    1,\n    2,\n    3,\n]\n"))
    # an update of a copy that has the SAME NAME as the original (parameter, loop variable, block-local, closure parameter)
    # stays in the copy: `x op= …` and `x = …` act on the nearest declaration
    kinds = [("int", "5", "+= 1", "6", "5"), ("int", "5", "-= 2", "3", "5"), ("str", '"s"', '+= "!"', "s!", "s"),
             ("list", "[1]", "+= [2]", render_seq([1, 2]), render_seq([1])), ("int", "5", "= 9", "9", "5"),
             ("list", "[1]", "= [7]", render_seq([7]), render_seq([1]))]
    for kind, init, upd, newv, oldv in kinds:
        nl = "" if newv.endswith("\n") else "\n"
        ol = "" if oldv.endswith("\n") else "\n"
        out.append(((kind + upd[:2], "same-name-parameter"), f"x := {init}\nfn f(x) {{\n    x {upd}\n    print(x)\n    return 0\n}}\nf(x)\nprint(x)\n",
                    f"{newv}{nl}{oldv}{ol}"))
        out.append(((kind + upd[:2], "same-name-closure-parameter"), f"x := {init}\ng := fn(x) {{\n    x {upd}\n    return x\n}}\nprint(g(x))\nprint(x)\n",
                    f"{newv}{nl}{oldv}{ol}"))
        out.append(((kind + upd[:2], "same-name-for-variable"), f"x := {init}\nfor [i, x] in [{init}] {{\n    x {upd}\n    print(x)\n}}\nprint(x)\n",
                    f"{newv}{nl}{oldv}{ol}"))
        out.append(((kind + upd[:2], "same-name-block-local"), f"x := {init}\n{{\n    x := {init}\n    x {upd}\n    print(x)\n}}\nprint(x)\n",
                    f"{newv}{nl}{oldv}{ol}"))
        out.append(((kind + upd[:2], "same-name-nested-call"), f"x := {init}\nfn outer() {{\n    x := {init}\n    fn inner() {{\n        x {upd}\n        return 0\n    }}\n"
                    f"    inner()\n    print(x)\n    return 0\n}}\nouter()\nprint(x)\n", f"{newv}{nl}{oldv}{ol}"))
    # a destructuring assignment reads the (live) right-hand list item by item: a target that writes into an alias of that list
    # is seen by the items read after it
    out.append((("destructure", "targets-write-into-alias-of-source"), "xs := [1, 2]\nys := xs\n[ys[1], ys[0]] = xs\nprint(xs)\nprint(ys === xs)\n",
                render_seq([1, 1]) + "true\n"))
    out.append((("destructure", "targets-write-into-source"), "xs := [1, 2, 3]\n[xs[2], xs[1], xs[0]] = xs\nprint(xs)\n", render_seq([1, 2, 1])))
    out.append((("destructure", "targets-write-into-copy-of-source"), "xs := [1, 2]\nys := [xs..]\n[ys[1], ys[0]] = xs\nprint(xs)\nprint(ys)\n",
                render_seq([1, 2]) + render_seq([2, 1])))
    out.append((("destructure", "object-targets-write-into-alias"), "o := {\"a\": 1, \"b\": 2}\np := o\n{\"a\": p.b, \"b\": p.a} = o\nprint(o)\n",
                "{\n    \"a\": 1,\n    \"b\": 1,\n}\n"))
    out.append((("spread", "later-item-mutates-the-spread-list"), "xs := [1, 2, 3]\nfn poke() {\n    xs[0] = 9\n    return 0\n}\nys := [xs.., poke()]\nprint(ys)\nprint(xs)\n",
                render_seq([1, 2, 3, 0]) + render_seq([9, 2, 3])))
    out.append((("spread", "later-argument-mutates-the-spread-list"), "zs := [4, 5]\nfn poke2() {\n    zs[1] = 0\n    return 7\n}\nfn show(..args) {\n    return args\n}\n"
                "print(show(zs.., poke2()))\nprint(zs)\n", render_seq([4, 5, 7]) + render_seq([4, 0])))
    out.append((("spread", "earlier-item-mutates-the-spread-list"), "xs := [1, 2]\nfn poke() {\n    xs[0] = 9\n    return 0\n}\nprint([poke(), xs..])\n", render_seq([0, 9, 2])))
    return [((k[0], k[1], "repeated-evaluation"), s, o) for k, s, o in out]


def identity_scripts():
    """(1) two evaluations of a building operation never give the SAME container — also when the result is empty (an empty
    result is still a new container: `===` tells).  (2) a container stored into one of its own slots is stored as itself
    (shared by reference like any other value): the slot `===` the container and an update through one path shows through
    the other.  Self-containing values are never printed or compared with `==` here."""
    pre = ('xs := [1, 2]\nys := []\no := {"k": 1}\neo := {}\nfn rest(..r) { return r; }\nfn orest({..r}) { return r; }\n'
           '[h_, ..t_] := [1]\n{"k": k_, ..or_} := o\n')
    lists = ["[]", "xs[1:1]", "xs[0:0]", "xs[2:]", "xs[:0]", "ys[:]", "ys[0:0]", "rest()", "0 .. 0", "3 .. 1", "[] + []", "ys + ys", "[ys..]",
             "xs[0:1]", "xs[:]", "rest(1)", "[xs..]", "xs + ys", "0 .. 1", "[1]"]
    objs = ["{}", "{eo..}", "orest(eo)", "orest({})", "{o..}", '{"k": 1}', "orest(o)"]
    out = []
    for fam, es, held in (("list", lists, ["t_", "ys"]), ("object", objs, ["or_", "eo"])):
        for e1 in es:
            for e2 in es + held:
                out.append(((fam, f"{e1} vs {e2}", "fresh-identity"),
                            pre + f"a := {e1}\nb := {e2}\nprint(a === b)\nprint(a !== b)\nprint(a === a)\nc := a\nprint(c === a)\n", "false\ntrue\ntrue\ntrue\n"))
            # the same expression twice: in a loop, through a function
            out.append(((fam, f"{e1} twice", "fresh-identity"),
                        pre + f"keep := []\nfor i in 0 .. 2 {{\n    keep += [{e1}]\n}}\nprint(keep[0] === keep[1])\nfn mk() {{ return {e1}; }}\nprint(mk() === mk())\n", "false\nfalse\n"))
    selfs = [
        ("list-slot", "v := [1, 2, 3]\nv[0] = v\nprint(v[0] === v)\nv[1] = 5\nprint(v[0][1])\nprint(v[0][0][0] === v)\nv[0][2] = 6\nprint(v[2])\n", "true\n5\ntrue\n6\n"),
        ("list-slot-alias", "v := [1, 2, 3]\nw := v\nv[2] = w\nprint(v[2] === v)\nprint(w[2] === w)\nw[0] = 8\nprint(v[2][0])\n", "true\ntrue\n8\n"),
        ("object-prop", 'p := {"a": 1}\np.self = p\nprint(p.self === p)\np.a = 7\nprint(p.self.a)\nprint(p["self"]["self"].a)\np.self.b = 2\nprint(p.b)\n', "true\n7\n7\n2\n"),
        ("object-index", 'p := {"a": 1}\np["me"] = p\nprint(p["me"] === p)\np["me"]["a"] = 3\nprint(p.a)\n', "true\n3\n"),
        ("list-in-own-item", "v := [1, 2]\nv[0] = [v]\nprint(v[0][0] === v)\nv[1] = 9\nprint(v[0][0][1])\n", "true\n9\n"),
        ("object-in-own-list", 'p := {"a": 1}\np.l = [p]\nprint(p.l[0] === p)\np.a = 4\nprint(p.l[0].a)\n', "true\n4\n"),
        ("list-in-own-object", 'v := [1, 2]\nv[0] = {"back": v}\nprint(v[0].back === v)\nv[1] = 6\nprint(v[0].back[1])\n', "true\n6\n"),
        ("range-assign-self", "v := [1, 2, 3]\nv[0:1] = [v]\nprint(v[0] === v)\nv[1] = 5\nprint(v[0][1])\n", "true\n5\n"),
        ("destructure-self", "v := [1, 2]\n[v[0], v[1]] = [v, 7]\nprint(v[0] === v)\nprint(v[0][1])\n", "true\n7\n"),
        ("opassign-self", "v := [1, []]\nv[1] += [v]\nprint(v[1][0] === v)\nv[0] = 3\nprint(v[1][0][0])\n", "true\n3\n"),
        ("param-self", "fn tie(a, b) {\n    a[0] = b\n    return 0\n}\nv := [1, 2]\ntie(v, v)\nprint(v[0] === v)\nv[1] = 4\nprint(v[0][1])\n", "true\n4\n"),
        ("two-cycle", 'v := [1]\np := {"l": v}\nv[0] = p\nprint(v[0].l === v)\nprint(p.l[0] === p)\np.x = 2\nprint(v[0].l[0].x)\n', "true\ntrue\n2\n"),
    ]
    for name, src, exp in selfs:
        out.append((("self", name, "self-reference"), src, exp))
    return out


def run(ctx, model_ok):
    thorough = ctx.tier == "thorough"
    bound = 4 if thorough else 3
    ctx.cov["exhaustive"] = True
    ctx.cov["exhaustive_bound"] = f"every operation from every heap shape reachable within {bound - 1} operations; scalar sequences <= {4 if thorough else 3}"
    reported = set()
    for init in A.INITS:
        ex = A.Explorer(init, bound if (thorough or init != "objects") else bound - 1)
        batch = []

        def flush():
            nonlocal batch
            if not batch:
                return
            srcs = [b[1] for b in batch]
            impl, dis = tie.run(ctx, srcs, "alias_hist", model_ok, project=tie.proj_full)
            judge(ctx, "alias_hist", [(b[0], b[1], b[2]) for b in batch], impl, dis, reported)
            batch = []

        first = True
        for tags, src, exp, before in ex.scripts():
            ctx.nontrivial((init, before, tags[-1]))
            ctx.dist("last_operation:" + tags[-1])
            ctx.dist("containers_before:" + str(len(before[1])))
            ctx.dist("aliased_variable_pairs_before:" + str(3 - len(set(before[0])) if len(set(before[0])) > 1 else 3))
            batch.append((tags, src, exp))
            if first and len(tags) == 2:
                ctx.sample({"stream": "alias_hist", "init": init, "operations": tags, "src": src[len(A.PRELUDE):], "expected": exp})
                first = False
            if len(batch) >= 50000:
                flush()
        flush()
        ctx.dist("distinct_heap_shapes:" + init, ex.shapes)
        ctx.exclude("heap_larger_than_4_containers", ex.too_big)
    # the same builder evaluated repeatedly
    rep = repeated_evaluation_scripts()
    for tags, src, exp in rep:
        ctx.nontrivial(("repeated", tags))
        ctx.dist("repeated_evaluation:" + tags[1])
    impl, dis = tie.run(ctx, [s[1] for s in rep], "repeated_evaluation", model_ok, project=tie.proj_full)
    judge(ctx, "repeated_evaluation", rep, impl, dis, reported)
    # identity of results of building operations (empty results too); containers stored into their own slots
    ident = identity_scripts()
    for tags, src, exp in ident:
        ctx.nontrivial(("identity", tags))
        ctx.dist("identity:" + tags[2] + ":" + tags[0])
    impl, dis = tie.run(ctx, [s[1] for s in ident], "identity", model_ok, project=tie.proj_full)
    judge(ctx, "identity", ident, impl, dis, reported)
    ctx.sample({"stream": "identity", "case": ident[1][0], "src": ident[1][1], "expected": ident[1][2]})
    # random longer histories
    n = 40000 if thorough else 4000
    rh = [A.random_history(ctx.rng, ctx.rng.choice(list(A.INITS)), ctx.rng.randrange(5, 13)) for _ in range(n)]
    for tags, src, exp in rh:
        ctx.nontrivial(("random", tuple(tags)))
        for t in tags:
            ctx.dist("random_operation:" + t.split(":")[0])
    impl, dis = tie.run(ctx, [s[1] for s in rh], "alias_random", model_ok, project=tie.proj_full)
    judge(ctx, "alias_random", rh, impl, dis, reported)
    ctx.sample({"stream": "alias_random", "operations": rh[0][0], "src": rh[0][1][len(A.PRELUDE):][:400]})
    # scalars
    maxlen = 4 if thorough else 3
    for kind in ("int", "str"):
        nops = len(A.scalar_ops(kind))
        if kind == "str" and not thorough:
            maxlen = 2
        if maxlen == 4:
            # length 4: every sequence whose last two operations touch both an operator and a copy (the rest sampled)
            seqs = [idx for L in (1, 2, 3) for idx in itertools.product(range(nops), repeat=L)]
            seqs += [tuple(ctx.rng.randrange(nops) for _ in range(4)) for _ in range(60000)]
            seqs = list(dict.fromkeys(seqs))
        else:
            seqs = [idx for L in range(1, maxlen + 1) for idx in itertools.product(range(nops), repeat=L)]
        scripts = [A.scalar_script(kind, idx) for idx in seqs]
        for tags, src, exp in scripts:
            ctx.nontrivial(("scalar", kind, tuple(tags)))
            ctx.dist("scalar_last_operation:" + tags[-1])
        impl, dis = tie.run(ctx, [s[1] for s in scripts], "scalar_hist:" + kind, model_ok, project=tie.proj_full)
        bad = set()
        for (tags, src, exp), r in zip(scripts, impl):
            if key(r) == (exp, "0"):
                continue
            bad.add(src)
            if ("scalar", tags[-1]) in reported or len(reported) >= 8:
                continue
            c = core.run_cli(src)
            ctx.cov["cli_reconfirmed"] += 1
            if key(c) == (exp, "0"):
                continue
            reported.add(("scalar", tags[-1]))
            ctx.violation("scalar history (an operation on a copy must not be visible through the original): " + first_diff(exp, c),
                          src, {"cli": c, "reference_stdout": exp, "operations": tags})
        tie.report_disagreements(ctx, [d for d in dis if d[0] not in bad], "scalar_hist:" + kind)
    t, s, e = A.scalar_script("int", [2, 3, 20])
    ctx.sample({"stream": "scalar_hist:int", "operations": t, "src": s, "expected": e})
