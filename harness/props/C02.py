"""C02 — evaluation never crashes: it completes or reports a diagnostic."""
import itertools
import core
import progs
import shrink
import streams
import tie

RULE = ("[scale stream (lib_scale): about 30 constructs — names, literals, printed lines, keys with a multi-byte character at the boundary, statements, items, iterations, jumps followed by calls, nesting and recursion depth, trace depth — each at 24, 25, 40, 41, … 4096 (… 65,536 thorough) units of size, with the output computed in Python] " 
        "model-free oracle status in {0,103} (no panic, no signal, finishes) on: every operator / binding form x every alias shape "
        "(exhaustive product), extreme-integer grid x {+ - * / %} in plain and op-assign forms and as range bounds, indices and slice "
        "bounds (read and assignment), interpolated and plain literals over an alphabet with 2/3/4-byte characters, every byte-wise "
        "piece of strings with multi-byte characters x 24 consumers of strings (print, key, property name, slot, concatenation, "
        "comparison, iteration, call, ...), targets / indices / bounds / right-hand sides that read or change the container being "
        "updated (directly, through a function, through a method), long quoted text with multi-byte characters at every offset, and generated programs (with objects whose methods use `this`); non-trivial = distinct (stream tag, outcome class, "
        "first diagnostic text with numbers erased)")
ASSUMPTIONS = ["values that contain themselves (cyclic) are generated, counted and excluded: rendering or comparing them has no "
               "finite result and the statement restricts to depths that fit the host stack",
               "stack and memory exhaustion are outside the statement"]


def status_class(r):
    return "ok" if r["status"] == "0" else "diag" if r["status"] == "103" else "crash:" + r["status"]


def proj(r):
    return status_class(r)


def oracle_one(ctx, src, r):
    if r["status"] == "timeout":
        return True, ""        # still running after the limit: not a crash (long runs are outside the statement); counted as excluded
    if r["status"] in ("0", "103") and "panicked at" not in r["stderr"]:
        return True, ""
    return False, f"exit status {r['status']}: {r['stderr'][:300]}"


def int_scripts(grid):
    out = []
    for a, b in itertools.product(grid, repeat=2):
        la, lb = streams.int_lit(a), streams.int_lit(b)
        for op in ["+", "-", "*", "/", "%"]:
            out.append(f"print({la} {op} {lb})\n")
        out.append(f"x := {la}\nx %= {lb}\nprint(x)\nxs := [{la}]\nxs[0] /= {lb}\nprint(xs)\no := {{\"k\": {la}}}\no.k %= {lb}\nprint(o)\n")
        # integers as range bounds, indices and slice bounds (ranges that would be long are only built when empty or short)
        if b <= a or b - a <= 3:
            out.append(f"print({la} .. {lb})\nfor [i, v] in {la} .. {lb} {{\n    print(v)\n}}\n")
        out.append(f"xs := [1, 2, 3]\nprint(xs[{la}:{lb}])\n")
        out.append(f"print(\"abc\"[{la}:{lb}])\n")
        out.append(f"xs := [1, 2, 3]\nxs[{la}:{lb}] = []\nprint(xs)\n")
    for a in grid:
        la = streams.int_lit(a)
        out += [f"print([1, 2, 3][{la}])\n", f"print(\"abc\"[{la}])\n", f"xs := [1, 2, 3]\nxs[{la}] = 0\nprint(xs)\n",
                f"print([1, 2, 3][{la}:])\n", f"print([1, 2, 3][:{la}])\n", f"print({la}->type())\n", f"print($\"${{{la}}}\")\n" if False else
                f"print([{la}, {la}] == [{la}, {la}])\n"]
    return out


def piece_scripts():
    """byte-wise pieces of strings with multi-byte characters (some are not valid UTF-8) handed to every consumer of strings"""
    out = []
    consumers = ["print(p)", "print([p])", "print({\"k\": p})", "o := {}\no[p] = 1\nprint(o)", "print({p: 1})",
                 "o := {\"a\": 1}\nprint(o[p])", "print($\"<${p}>\")", "print(p + p)", "print(p == p)", "print(p->len())",
                 "print(p->type())", "for [k, v] in p {\n    print(v == p)\n}", "xs := [1, 2]\nxs[0:1] = p\nprint(xs)",
                 "{p: x} := {\"a\": 1}\nprint(x)", "o := {\"a\": 1}\no[p] += 1\nprint(o)", "counts := {}\nfor [_, c] in s {\n    counts[c] = 0\n}\nprint(counts)",
                 "print(p[0])", "print(p[0:1])", "fn f(a) {\n    return a\n}\nprint(f(p))", "q := p\nq += p\nprint(q)", "print(p < p)",
                 "print([p] == [p])", "print({\"k\": p} == {\"k\": p})", "o := {}\no[p] = 1\nfor [k, v] in o {\n    print(k)\n}"]
    for t in ["é", "aé", "€x", "😀", "naïve"]:
        nb = len(t.encode("utf-8"))
        for i in range(nb):
            for j in sorted({i + 1, min(nb, i + 2), nb}):
                if j <= i:
                    continue
                for cns in consumers:
                    out.append(f's := "{t}"\np := s[{i}:{j}]\n{cns}\n')
    return out


def string_scripts(maxlen):
    al = streams.utf8_alphabet()
    out = []
    for n in range(0, maxlen + 1):
        for p in itertools.product(al, repeat=n):
            t = "".join(p)
            if "{" in t or "}" in t:
                out.append(f'x := "v"\nprint("{t}")\n')
                continue
            out.append(f'x := "v"\nprint("{t}")\nprint($"{t}${{x}}{t}")\nprint($"${{x}}{t}${{x + x}}")\nprint("{t}"->len())\n')
    return out


def typefn_scripts():
    """type functions (`->len`, `->type`) taken as values and called with another `this`, or none"""
    out = []
    recv = ['"abc"', '"é"[0]', "7", "true", "[1]", '{"k": 1}', "print", "fn() { return 1; }"]
    hosts = ['o := {{"f": {f}}}\nprint(o.f())', 'o := {{"f": {f}, "g": 1}}\nprint(o["f"]())', 'xs := [{f}]\nprint(xs[0]())', 'g := {f}\nprint(g())',
             'fn ap(h) {{\n    return h()\n}}\nprint(ap({f}))', 'o := {{"n": 5, "f": {f}}}\nprint(o.f(1))', 'print({f}(1, 2))',
             'o := {{"f": {f}}}\np := {{"f": o.f}}\nprint(p.f())', 'o := {{"len": {f}, "type": {f}}}\nprint(o->type())\nprint(o.len())']
    for r in recv:
        for fn in ("len", "type"):
            f = f"({r})->{fn}"
            for h in hosts:
                out.append(h.format(f=f) + "\n")
    return out


def selfread_scripts():
    """targets, indices, bounds and right-hand sides that read (or change) the very container being read or updated, directly,
    through a function and through a method: no lock may be held across an expression the program wrote"""
    pre = ('buf := [3, 1, 2, 0]\no := {"k": "k", "buf": buf, "n": 2}\nfn n() {\n    return buf[0]\n}\nfn bump() {\n    buf[3] += 1\n    o.n += 1\n    return 1\n}\n'
           'o.get = fn() { return this.n; }\n')
    ints = ["buf[1]", "buf[0]", "n()", "bump()", "o.get()", "o.n", "buf[buf[1]]", "o.buf[1]"]
    rhs = ["buf", "buf[0]", "[n()]", "[buf]", "o", "o.buf", "[bump(), buf[3]]", '"ab"']
    out = []
    for i in ints:
        out += [pre + f"print(buf[{i}])\n", pre + f"print(o.buf[{i}])\n", pre + f'print("abcd"[{i}])\n']
        for r in rhs:
            out += [pre + f"buf[{i}] = {r}\nprint(buf)\n", pre + f"o.buf[{i}] = {r}\nprint(buf)\n"]
        for r in ["buf[0]", "n()", "bump()", "o.get()", "buf", "[n()]"]:
            out.append(pre + f"buf[{i}] += {r}\nprint(buf)\n")
        for j in ints:
            out += [pre + f"print(buf[{i}:{j}])\n", pre + f'print("abcd"[{i}:{j}])\n']
            for r in rhs[:4] + rhs[5:]:
                out.append(pre + f"buf[{i}:{j}] = {r}\nprint(buf)\n")
    keys = ['o.k', 'o["k"]', '"" + o.k', "o.get2()"]
    pre2 = pre + 'o.get2 = fn() { this.n += 1; return "k"; }\n'
    for k in keys:
        out += [pre2 + f"print(o[{k}])\n", pre2 + f"o[{k}] = o\nprint(o.n)\n", pre2 + f"o[{k}] += o.k\nprint(o.n)\n", pre2 + f"o[{k}] = o[{k}]\nprint(o.n)\n",
                pre2 + f"{{{k}: x}} := o\nprint(x)\n", pre2 + f"{{{k}: o.n}} = o\nprint(o.n)\n", pre2 + f"print({{{k}: o, o..}}->type())\n"]
    return out


def longtext_scripts():
    """program text that diagnostics quote (property names, slot text), long and with 2/3/4-byte characters at every offset"""
    out = []
    for n in range(0, 101):
        for tail in ("é", "€😀", "ßz"):
            k = "k" * n + tail
            out += [f'o := {{}}\nprint(o["{k}"])\n', f'o := {{}}\no["{k}"] += 1\n', f'{{"{k}": x}} := {{}}\nprint(x)\n',
                    f'print($"${{"{k}" +}}")\n', f'o := {{"{k}": 1}}\nprint(o["{k}z"])\n']
    return out


def run(ctx, model_ok):
    thorough = ctx.tier == "thorough"
    sets = []
    sets.append(("selfread", selfread_scripts()))
    sets.append(("longtext", longtext_scripts()))
    sets.append(("alias", [s for _, s in streams.alias_shapes()]))
    sets.append(("ints", int_scripts(streams.INT_GRID_FULL if thorough else streams.INT_GRID_QUICK)))
    sets.append(("strings", string_scripts(3 if thorough else 2)))
    sets.append(("pieces", piece_scripts()))
    sets.append(("lookalike-pairs", [s_ for s_, _ in streams.lookalike_pair_scripts(ctx.rng, 1500 if thorough else 400)]))
    sets.append(("number-like", streams.number_like_sources()))
    sets.append(("typefns", typefn_scripts()))
    sets.append(("progs", progs.generate(ctx.rng, 40000 if thorough else 2500)))
    # the same constructs at every SIZE on both sides of the powers of two and round numbers (names, literals, keys with a
    # multi-byte character at the boundary, statements, items, iterations, jumps, nesting, recursion, trace depth)
    import lib_scale

    def scale_judge(c, r):
        ok_, why_ = oracle_one(ctx, c[2], r)
        return ok_, why_
    lib_scale.run_stream(ctx, core, "the process died instead of completing or reporting a diagnostic", scale_judge)
    cyc = ["xs := [1]\nxs[0] = xs\nprint(xs)\n", "xs := [1]\nxs[0] = xs\nprint(xs == [xs])\n",
           "o := {\"k\": 1}\no.k = o\nprint(o)\n", "a := [1]\nb := [a]\na[0] = b\nprint(a)\n"]
    ctx.exclude("cyclic_values_generated_not_judged", len(cyc))
    import re
    for label, srcs in sets:
        srcs = list(dict.fromkeys(srcs))
        impl, dis = tie.run(ctx, srcs, label, model_ok, project=proj)
        bad = []
        model = ctx.last_model or [None] * len(srcs)
        for s, r, m in zip(srcs, impl, model):
            if r["status"] == "101" and "WouldBlock" in r["stderr"] and m is not None and m["status"] == "101" \
                    and m["stderr"] == "lock":
                # a container that contains itself is being rendered: no finite result exists (excluded by the statement);
                # the model establishes the cycle by executing the same program
                ctx.exclude("cyclic_value_rendered")
                continue
            cls = status_class(r)
            if r["status"] == "timeout":
                ctx.exclude("still_running_after_limit")
            ctx.dist(label + ":" + cls.split(":")[0])
            ctx.nontrivial((label, cls, re.sub(r"\d+", "N", r["stderr"].split("\n")[0])[:60]))
            ok, why = oracle_one(ctx, s, r)
            if not ok:
                bad.append((s, r, why))
        # confirm through the CLI, shrink, report (one violation per distinct failure message)
        seen = set()
        for s, r, why in sorted(bad, key=lambda t: len(t[0])):
            key = re.sub(r"\d+", "N", r["stderr"])[:50] + ("|" + s.split("\n")[-3][:12] if label == "alias" else "")
            if key in seen:
                continue
            c = core.run_cli(s)
            ctx.cov["cli_reconfirmed"] += 1
            if oracle_one(ctx, s, c)[0]:
                continue
            seen.add(key)
            small = shrink.shrink_lines(s, lambda t: not oracle_one(ctx, t, core.run_cli(t))[0]) if len(s) > 200 else s
            ctx.violation("the process died instead of completing or reporting a diagnostic: " + why, small,
                          {"cli": core.run_cli(small), "stream": label, "failing_inputs_in_stream": len(bad)})
            if len(seen) >= 6:
                break
        # disagreements not explained by an oracle failure
        rest = [d for d in dis if oracle_one(ctx, d[0], d[1])[0]]
        tie.report_disagreements(ctx, rest, label)
        if srcs:
            ctx.sample({"stream": label, "src": srcs[len(srcs) // 3][:200], "impl": impl[len(srcs) // 3]})
