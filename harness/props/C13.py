"""C13 — destructuring, spread and collect are inverse, lossless rearrangements."""
import itertools

import lib_objects as L

RULE = ("self-describing scripts judged against a Python destructuring reference; every successful bind also evaluates the "
        "round-trip law in-language (`[p0, p1, rest..] == xs`, `{\"a\": a, \"k\": b, rest..} == o`, with `_` slots rebuilt from "
        "the source path) and the freshness of the collected rest. Stream `patterns`: list patterns (slots: name, `_`, 5 nested "
        "list patterns, 5 nested object patterns; with/without `..rest`) of width <= 2 exhaustively (quick) / <= 3 exhaustively "
        "(thorough) plus a sample of width 3..4, against sources of length 0..5 whose nested slots fit or are perturbed (wrong "
        "length, wrong kind, missing property); object patterns (shorthand, rename, `_`, nested list/object, `..rest`) of "
        "width <= 3 / <= 4 over identifier and non-identifier keys against sources of 0..5 properties; each in declaration, "
        "assignment, `for`-target, anonymous-parameter and named-parameter position. Stream `dup-names`: random patterns in which one bound name (plain, nested, or the name of a list / object `..rest`) is renamed to another name of the same pattern, in every position (in assignment position only the once-per-pattern rule can reject it). Stream `for-targets`: the `for` target itself as a list pattern of width 0..3 (slots name, `_`, nested list / object with and without rest) with and without `..rest`, and with a spread marker on one slot, against lists, objects and strings of 0..2 elements; the rest of one iteration is mutated to show it is a list of that iteration only. Stream `shape`: the shape errors (non-list "
        "/ non-object sources, spread in a pattern, collect in an expression, collect not last, name bound twice, literal as "
        "target). Stream `calls`: arities 0..4 with and without a rest parameter x every split of an argument list of length "
        "0..4 (quick) / 0..5 (thorough) into plain and spread arguments (empty spreads included), `f(xs..)` against "
        "`f(xs[0], ..)`, freshness of the rest list, `[xs.., ys..] == xs + ys` for lengths 0..3. non-trivial = distinct "
        "(position, pattern text, outcome class)")
ASSUMPTIONS = ["the shorthand `{_}` (discard without lookup) is not generated in the random patterns; pairs whose key is `_` are (defect D10, repaired)",
               "patterns have depth <= 2; computed (non-literal) keys in patterns are covered only by the shape stream"]


def oracle_one(ctx, src, r):
    return L.judge(src, r)


# ---------------------------------------------------------------------------- patterns
class BindError(Exception):
    pass


class Names:
    def __init__(self):
        self.n = 0

    def fresh(self):
        self.n += 1
        return "v%d" % self.n


def p_text(p):
    k = p[0]
    if k == "name":
        return p[1]
    if k == "skip":
        return "_"
    if k == "list":
        items = [p_text(x) for x in p[1]]
        if p[2]:
            items.append(".." + p[2])
        return "[" + ", ".join(items) + "]"
    items = []
    for it in p[1]:
        if it[0] == "short":
            items.append(it[1])
        else:
            items.append(f"{L.str_lit(it[1])}: {p_text(it[2])}")
    if p[2]:
        items.append(".." + p[2])
    return "{" + ", ".join(items) + "}"


def p_names(p):
    """names in binding order"""
    k = p[0]
    if k == "name":
        return [p[1]]
    if k == "skip":
        return []
    out = []
    if k == "list":
        for x in p[1]:
            out += p_names(x)
    else:
        for it in p[1]:
            out += [it[1]] if it[0] == "short" else p_names(it[2])
    if p[2]:
        out.append(p[2])
    return out


def bind(p, v, env, seen):
    """the reference: binds into env (dict) or raises BindError"""
    k = p[0]
    if k == "skip":
        return
    if k == "name":
        if p[1] in seen:
            raise BindError("name bound twice: " + p[1])
        seen.add(p[1])
        env[p[1]] = v
        return
    if k == "list":
        if not isinstance(v, list):
            raise BindError("list pattern against a non-list")
        n = len(p[1])
        if p[2] is None and len(v) != n:
            raise BindError(f"{n} patterns against {len(v)} elements")
        if p[2] is not None and len(v) < n:
            raise BindError(f"{n} patterns and a rest against {len(v)} elements")
        for x, y in zip(p[1], v):
            bind(x, y, env, seen)
        if p[2] is not None:
            bind(("name", p[2]), list(v[n:]), env, seen)
        return
    if not isinstance(v, dict):
        raise BindError("object pattern against a non-object")
    used = []
    for it in p[1]:
        key = it[1]
        if key not in v:
            raise BindError("missing property " + key)
        used.append(key)
        bind(("name", key) if it[0] == "short" else it[2], v[key], env, seen)
    if p[2] is not None:
        bind(("name", p[2]), {a: b for a, b in v.items() if a not in used}, env, seen)


def recon(p, path, env, srcv):
    """(expression text, value) rebuilding the source from the bound names; `_` slots are read back through `path`"""
    k = p[0]
    if k == "name":
        return p[1], env[p[1]]
    if k == "skip":
        return path, srcv
    if k == "list":
        ts, vs = [], []
        for i, x in enumerate(p[1]):
            t, v = recon(x, f"{path}[{i}]", env, srcv[i])
            ts.append(t)
            vs.append(v)
        if p[2]:
            ts.append(p[2] + "..")
            vs += env[p[2]]
        return "[" + ", ".join(ts) + "]", vs
    ts, d = [], {}
    for it in p[1]:
        key = it[1]
        sub = ("name", key) if it[0] == "short" else it[2]
        t, v = recon(sub, f"{path}[{L.str_lit(key)}]", env, srcv[key])
        ts.append(f"{L.str_lit(key)}: {t}")
        d[key] = v
    if p[2]:
        ts.append(p[2] + "..")
        d.update(env[p[2]])
    return "{" + ", ".join(ts) + "}", d


POSITIONS = ["decl", "assign", "for", "param", "named-param"]


def script_for(p, srcv, pos, extra_tags=()):
    """one script: bind pattern p to the value srcv in the given position; print every bound name, the law, freshness"""
    sc = L.Script()
    sc.stmt("src := " + L.lit(srcv))
    env = {}
    try:
        bind(p, srcv, env, set())
        err = None
    except BindError as e:
        err = str(e)
    pt = p_text(p)
    names = p_names(p)
    body = []

    def emit_body():
        for n in dict.fromkeys(names):
            body.append(f"print({n})")
            sc.expect(env[n])
        t, v = recon(p, "src", env, srcv)
        body.append(f"print({t} == src)")
        sc.expect(v == srcv)
        if p[0] in ("list", "obj") and p[2]:
            body.append(f"print({p[2]} === src)")
            sc.expect(False)

    if pos == "decl":
        head = f"{pt} := src"
    elif pos == "assign":
        for n in dict.fromkeys(names):
            sc.stmt(f"{n} := null")
        head = f"{pt} = src"
    if pos in ("decl", "assign"):
        if err:
            sc.fail(head, err)
        else:
            sc.stmt(head)
            emit_body()
            for b in body:
                sc.stmt(b)
    elif pos == "for":
        if err:
            sc.fail(f"for [ix, {pt}] in [src] {{ print(ix); }}", err)
        else:
            sc.expect(0)
            emit_body()
            sc.stmt(f"for [ix, {pt}] in [src] {{ print(ix); " + " ".join(b + ";" for b in body) + " }")
    else:
        if not err:
            emit_body()
        inner = " ".join(b + ";" for b in body) if body else "print(0);"
        if err and not body:
            inner = "print(0);"
        if pos == "param":
            sc.stmt(f"f := fn ({pt}) {{ {inner} }}")
        else:
            # a named function validates its parameter names when it is defined: still before anything is printed
            if err:
                sc.fail(f"fn f({pt}) {{ {inner} }}\nf(src)", err)
            else:
                sc.stmt(f"fn f({pt}) {{ {inner} }}")
        if not sc.failed:
            if err:
                sc.fail("f(src)", err)
            else:
                sc.stmt("f(src)")
    sc.tags = [pos, pt, "ok" if not err else "err:" + err.split(":")[0][:30]] + list(extra_tags)
    return sc.source({"tags": sc.tags})


# ---------------------------------------------------------------------------- pattern enumeration
def nested_list_slots(nm):
    a, b, r = nm.fresh(), nm.fresh(), nm.fresh()
    return [("list", [("name", a)], None), ("list", [("name", a), ("name", b)], None), ("list", [("name", a)], r),
            ("list", [("skip",), ("name", a)], None), ("list", [], r)]


def nested_obj_slots(nm):
    a, r = nm.fresh(), nm.fresh()
    return [("obj", [("short", "k")], None), ("obj", [("pair", "k", ("name", a))], None), ("obj", [("short", "k")], r),
            ("obj", [("pair", "k 1", ("skip",))], r), ("obj", [("pair", "k", ("name", a)), ("pair", "j", ("skip",))], None)]


def slot_choices(nm, i):
    """all the alternatives for one slot; names are made unique per slot by suffixing"""
    def uniq(p):
        k = p[0]
        if k == "name":
            return ("name", f"{p[1]}s{i}")
        if k == "skip":
            return p
        if k == "list":
            return ("list", [uniq(x) for x in p[1]], f"{p[2]}s{i}" if p[2] else None)
        items = []
        for it in p[1]:
            if it[0] == "short":
                # a shorthand binds the key's own name: make the *key* unique instead
                items.append(("short", f"{it[1]}s{i}"))
            else:
                items.append(("pair", it[1], uniq(it[2])))
        return ("obj", items, f"{p[2]}s{i}" if p[2] else None)
    base = [("name", "n"), ("skip",)] + nested_list_slots(Names()) + nested_obj_slots(Names())
    return [uniq(p) for p in base]


def fit_value(p, rng, counter):
    """a value the pattern accepts"""
    k = p[0]
    if k in ("name", "skip"):
        counter[0] += 1
        return counter[0]
    if k == "list":
        v = [fit_value(x, rng, counter) for x in p[1]]
        if p[2]:
            for _ in range(rng.randrange(0, 3)):
                counter[0] += 1
                v.append(counter[0])
        return v
    d = {}
    extra = rng.sample(["z", "y 2"], rng.randrange(0, 3)) if p[2] or rng.random() < 0.3 else []
    keys = [it[1] for it in p[1]] + extra
    rng.shuffle(keys)
    for key in keys:
        it = next((x for x in p[1] if x[1] == key), None)
        if it is None or it[0] == "short":
            counter[0] += 1
            d[key] = counter[0]
        else:
            d[key] = fit_value(it[2], rng, counter)
    return d


def perturb(v, rng):
    """a value of another shape"""
    if isinstance(v, list):
        c = rng.randrange(4)
        if c == 0 and v:
            return v[:-1]
        if c == 1:
            return v + [77]
        if c == 2:
            return {"k": 1}
        return rng.choice([5, "ab", None])
    if isinstance(v, dict):
        c = rng.randrange(3)
        if c == 0 and v:
            d = dict(v)
            del d[sorted(d)[0]]
            return d
        if c == 1:
            return [1, 2]
        return rng.choice([5, "ab", None, True])
    return v


def list_sources(p, rng):
    """sources of length 0..5 for a top-level list pattern: nested slots fit, or (second variant) one is perturbed"""
    out = []
    for n in range(0, 6):
        c = [0]
        v = []
        for i in range(n):
            if i < len(p[1]):
                v.append(fit_value(p[1][i], rng, c))
            else:
                c[0] += 1
                v.append(c[0])
        out.append(v)
        if n == len(p[1]) or (p[2] and n == len(p[1]) + 2):
            out.append(list(v))                 # the fitting lengths twice (other positions are drawn for the copy)
        nested = [i for i in range(min(n, len(p[1]))) if p[1][i][0] in ("list", "obj")]
        if nested and rng.random() < 0.5:
            w = list(v)
            i = rng.choice(nested)
            w[i] = perturb(w[i], rng)
            out.append(w)
    return out


def list_patterns(width, rng=None, sample=None):
    pats = []
    combos = itertools.product(*[range(12) for _ in range(width)])
    combos = list(combos)
    if sample is not None and len(combos) > sample:
        combos = rng.sample(combos, sample)
    for combo in combos:
        slots = [slot_choices(None, i)[c] for i, c in enumerate(combo)]
        pats.append(("list", slots, None))
        pats.append(("list", slots, "rest"))
    return pats


OBJ_KEYS = ["a", "b", "k 1", "c", "é", "_"]


def obj_patterns(width, rng, sample=None):
    """top-level object patterns over `width` keys"""
    pats = []
    keysets = list(itertools.permutations(OBJ_KEYS, width))
    if sample is not None and len(keysets) > sample:
        keysets = rng.sample(keysets, sample)
    for ks in keysets:
        items = []
        for i, key in enumerate(ks):
            c = rng.randrange(6)
            if c == 0 and L.is_ident(key) and key != "_":
                items.append(("short", key))
            elif c <= 2:
                items.append(("pair", key, ("name", f"w{i}")))
            elif c == 3:
                items.append(("pair", key, ("skip",)))
            elif c == 4:
                items.append(("pair", key, slot_choices(None, i)[2 + rng.randrange(5)]))
            else:
                items.append(("pair", key, slot_choices(None, i)[7 + rng.randrange(5)]))
        pats.append(("obj", items, None))
        pats.append(("obj", items, "rest"))
    return pats


def obj_sources(p, rng):
    out = []
    c = [0]
    fit = fit_value(p, rng, c)
    out.append(fit)
    # extra keys up to 5 properties
    big = dict(fit)
    for key in ["z", "y 2", "x", "_w", "0"]:
        if len(big) >= 5:
            break
        c[0] += 1
        big[key] = c[0]
    out.append(big)
    if fit:
        small = dict(fit)
        del small[rng.choice(sorted(small))]
        out.append(small)
        nested = [it[1] for it in p[1] if it[0] == "pair" and it[2][0] in ("list", "obj")]
        if nested:
            w = dict(fit)
            key = rng.choice(nested)
            w[key] = perturb(w[key], rng)
            out.append(w)
    out.append({})
    return out


def all_name_sites(p, path=()):
    """paths of the places where a plain name is bound: ("name" nodes and rest names)"""
    k = p[0]
    out = []
    if k == "name":
        return [path]
    if k == "skip":
        return []
    if k == "list":
        for i, x in enumerate(p[1]):
            out += all_name_sites(x, path + (i,))
    else:
        for i, it in enumerate(p[1]):
            if it[0] == "pair":
                out += all_name_sites(it[2], path + (i,))
    if p[2]:
        out.append(path + ("rest",))
    return out


def rename_site(p, path, new):
    k = p[0]
    if not path:
        return ("name", new)
    if path[0] == "rest":
        return (k, p[1], new)
    i = path[0]
    if k == "list":
        items = list(p[1])
        items[i] = rename_site(items[i], path[1:], new)
        return (k, items, p[2])
    items = list(p[1])
    it = items[i]
    items[i] = ("pair", it[1], rename_site(it[2], path[1:], new))
    return (k, items, p[2])


def dup_variant(p, rng):
    """the same pattern with one bound name (possibly a rest name, possibly nested) renamed to another name of the
    pattern: the name is then bound twice"""
    sites = all_name_sites(p)
    names = p_names(p)
    if len(sites) < 1 or len(set(names)) < 2:
        return None
    site = rng.choice(sites)
    cur = p_names(rename_site(p, site, "\0"))
    others = sorted(set(n for n in cur if n != "\0"))
    if not others:
        return None
    return rename_site(p, site, rng.choice(others))


def dup_scripts(rng, n):
    """patterns that bind one name twice, against sources that fit the shape, in every position"""
    out = []
    tries = 0
    while len(out) < n * len(POSITIONS) and tries < n * 20:
        tries += 1
        if rng.random() < 0.5:
            w = rng.randrange(1, 4)
            slots = [slot_choices(None, i)[rng.randrange(12)] for i in range(w)]
            p = ("list", slots, rng.choice([None, "rest"]))
        else:
            p = rng.choice(obj_patterns(rng.randrange(1, 4), rng, 1))
        q = dup_variant(p, rng)
        if q is None:
            continue
        srcv = fit_value(p, rng, [0])
        for pos in POSITIONS:
            out.append(script_for(q, srcv, pos, extra_tags=("dup",)))
    return out


# ---------------------------------------------------------------------------- the for-target is a pattern of its own
def for_target_scripts(rng, thorough):
    """`for P in it` binds P to the fresh pair [key, value] of every iteration: list patterns of every width (0..3)
    with and without `..rest`, with a spread marker (an error), nested, against lists, objects and strings"""
    out = []
    slot_kinds = [0, 1, 2, 4, 7, 9]            # name, `_`, [a], [a, ..r], {k}, {k, ..r}
    iterables = []
    for w in range(0, 4):
        for combo in itertools.product(slot_kinds, repeat=w):
            if not thorough and w == 3 and rng.random() < 0.6:
                continue
            slots = [slot_choices(None, i)[c] for i, c in enumerate(combo)]
            for rest in (None, "rest"):
                p = ("list", slots, rest)
                vfit = fit_value(slots[1], rng, [10]) if w >= 2 else 5
                its = [[vfit, vfit], {"k1": vfit, "k 2": vfit}, [], "xy", [vfit]]
                if w >= 2 and slots[1][0] in ("list", "obj"):
                    its.append([vfit, perturb(vfit, rng)])
                for it in its:
                    out.append(for_script(p, it, None))
                if w >= 1:
                    out.append(for_script(p, [vfit, vfit], rng.randrange(w)))
    return out


def for_script(p, it, spread_at):
    sc = L.Script()
    sc.stmt("it := " + L.lit(it))
    pt = p_text(p)
    if spread_at is not None:
        items = [p_text(x) for x in p[1]]
        items[spread_at] += ".."
        if p[2]:
            items.append(".." + p[2])
        pt = "[" + ", ".join(items) + "]"
    if isinstance(it, dict):
        pairs = [[k, it[k]] for k in sorted(it, key=L.key_order)]
    elif isinstance(it, str):
        pairs = [[i, c] for i, c in enumerate(it)]
    else:
        pairs = [[i, x] for i, x in enumerate(it)]
    names = list(dict.fromkeys(p_names(p)))
    body = " ".join(f"print({n});" for n in names) + " print(\"-\");"
    if p[2]:
        body += f" {p[2]} += [1];"              # the rest is a list of this iteration only
    stmt = f"for {pt} in it {{ {body} }}"
    err = None
    for pair in pairs:
        env = {}
        try:
            if spread_at is not None:
                raise BindError("spread marker in a for-target")
            bind(p, pair, env, set())
        except BindError as e:
            err = str(e)
            break
        for n in names:
            sc.expect(env[n])
        sc.expect("-")
    if err:
        sc.fail(stmt, err)
    else:
        sc.stmt(stmt)
        sc.stmt("print(it)")
        sc.expect(it)
    sc.tags = ["for-target", pt, type(it).__name__ + str(len(it)), "ok" if not err else "err:" + err.split(":")[0][:30]]
    return sc.source({"tags": sc.tags})


def pattern_parts(rng, thorough):
    """yields the pattern stream in slices (lists of scripts), to bound memory"""
    def scripts_of(pats, sources, all_pos):
        out = []
        for p in pats:
            for srcv in sources(p, rng):
                poss = POSITIONS if all_pos(p) else rng.sample(POSITIONS, 2)
                for pos in poss:
                    out.append(script_for(p, srcv, pos))
        return out

    if thorough:
        for w in [0, 1, 2, 3]:
            yield scripts_of(list_patterns(w), list_sources, lambda p: True)
        for _ in range(8):
            yield scripts_of(list_patterns(4, rng, 1600), list_sources, lambda p: True)
        for _ in range(6):
            op = []
            for w in [0, 1, 2, 3, 4]:
                for _ in range(4):
                    op += obj_patterns(w, rng, 120)
            yield scripts_of(op, obj_sources, lambda p: True)
    else:
        lp = []
        for w in [0, 1, 2]:
            lp += list_patterns(w)
        lp += list_patterns(3, rng, 350) + list_patterns(4, rng, 200)
        yield scripts_of(lp, list_sources, lambda p: len(p[1]) <= 2)
        op = []
        for w in [0, 1, 2, 3]:
            for _ in range(3):
                op += obj_patterns(w, rng, 40)
        yield scripts_of(op, obj_sources, lambda p: False)


# ---------------------------------------------------------------------------- shape errors
def shape_scripts():
    cases = []           # (setup lines, failing statement, why)
    nonlists = ["1", "null", "true", "\"ab\"", "{\"a\": 1}", "fn () { return 1; }"]
    nonobjs = ["1", "null", "false", "\"ab\"", "[1, 2]", "fn () { return 1; }"]
    for v in nonlists:
        for pt in ["[a]", "[]", "[a, ..r]", "[..r]", "[_]"]:
            cases.append(([f"src := {v}"], f"{pt} := src", "list pattern against a non-list"))
    for v in nonobjs:
        for pt in ["{a}", "{}", "{\"a\": b}", "{..r}", "{a, ..r}"]:
            if pt == "{}":
                continue                      # `{} := v` is the statement `{}` ... not a pattern
            cases.append(([f"src := {v}"], f"{pt} := src", "object pattern against a non-object"))
    cases += [
        (["src := [1, 2]"], "[a.., b] := src", "spread in a list pattern"),
        (["src := [[1], 2]"], "[a.., b] := src", "spread in a list pattern"),
        (["src := {\"a\": 1}"], "{a..} := src", "spread in an object pattern"),
        (["src := [1, 2]"], "x := [..src]", "collect in a list expression"),
        (["src := [1, 2]"], "print([1, ..src])", "collect in a list expression"),
        (["src := {\"a\": 1}"], "x := {..src}", "collect in an object expression"),
        (["src := {\"a\": 1}"], "x := {\"b\": 2, ..src}", "collect in an object expression"),
        (["src := {\"a\": 1, \"b\": 2}"], "{..r, a} := src", "object collect is not last"),
        (["src := {\"a\": 1, \"b\": 2}"], "{a, ..r, b} := src", "object collect is not last"),
        (["src := [1, 2]"], "[a, a] := src", "name bound twice"),
        (["src := [1, [2]]"], "[a, [a]] := src", "name bound twice"),
        (["src := [1, 2]"], "[a, ..a] := src", "name bound twice"),
        (["src := {\"a\": 1, \"b\": 2}"], "{a, \"b\": a} := src", "name bound twice"),
        (["src := {\"a\": 1, \"b\": 2}"], "{a, ..a} := src", "name bound twice"),
        (["src := [1, 2]", "a := 0"], "[a, a] = src", "name bound twice"),
        (["src := [1, 2]", "a := 0"], "[a, ..a] = src", "name bound twice (list collect)"),
        (["src := {\"a\": 1, \"b\": 2, \"c\": 3}", "a := 0"], "{a, ..a} = src", "name bound twice (object collect)"),
        (["src := {\"a\": 1, \"b\": 2}", "a := 0"], "{\"b\": a, ..a} = src", "name bound twice (object collect)"),
        (["src := [1, {\"b\": 2, \"c\": 3}]", "a := 0", "b := 0"], "[a, {b, ..a}] = src", "name bound twice (nested object collect)"),
        (["src := {\"p\": [1], \"q\": 2}", "a := 0"], "{\"p\": [a], ..a} = src", "name bound twice (nested, object collect)"),
        (["src := [[1, 2], 3]", "a := 0"], "[[..a], a] = src", "name bound twice (nested list collect)"),
        (["src := [1, [2, 3]]", "a := 0"], "[a, [_, ..a]] = src", "name bound twice (nested list collect)"),
        (["src := {\"a\": 1, \"b\": 2}", "a := 0"], "{a, \"b\": a} = src", "name bound twice"),
        (["src := [\"x\", \"y\"]"], "for [i.., item] in src { print(item); }", "spread marker in a for-target"),
        (["src := [\"x\", \"y\"]"], "for [i, item..] in src { print(item); }", "spread marker in a for-target"),
        (["src := {\"k\": 1}"], "for [k..] in src { print(k); }", "spread marker in a for-target"),
        (["src := [1]"], "[1] := src", "literal as a target"),
        (["src := [1]", "a := 0"], "[a + 1] = src", "operation as a target"),
        (["src := {\"a\": 1}"], "{\"a\": 2} := src", "literal as a target"),
        (["src := {\"a\": 1}"], "{1: b} := src", "key is not a string"),
        (["src := [1]"], "[a] += src", "op-assign to a pattern"),
        (["src := {\"a\": 1}", "a := 0"], "{a} += src", "op-assign to a pattern"),
        (["src := [1]"], "[a] = src", "assignment to an undeclared name"),
        (["src := [1]", "a := 0"], "[a] := src", "declaration of an existing name"),
        (["src := [1, 2]"], "fn f(a, a) { print(a); }\nf(src..)", "name bound twice"),
        (["src := [1, 2]"], "f := fn (a, a) { print(a); }\nf(src..)", "name bound twice"),
        (["src := [1, 2]"], "for [a, a] in src { print(a); }", "name bound twice"),
        # `..name` collects in a PATTERN; among the arguments of a call it is not a form of the language (a spread is `name..`)
        (["src := [1, 2]", "fn f(..r) { return r; }"], "print(f(1, ..src))", "collect marker in an argument list"),
        (["src := [1, 2]", "fn f(..r) { return r; }"], "print(f(..src))", "collect marker in an argument list"),
        (["src := [1, 2]"], "print(..src)", "collect marker in an argument list"),
        (["src := [1, 2]", "o := {\"m\": fn (..r) { return r; }}"], "print(o.m(0, ..src))", "collect marker in an argument list"),
        (["src := [1, 2]", "fn f(..r) { return r; }"], "print(f(src.., ..src))", "collect marker in an argument list"),
        (["src := [1, 2]", "fn f(..r) { return r; }"], "print([f(..src)])", "collect marker in an argument list"),
    ]
    out = []
    for setup, stmt, why in cases:
        sc = L.Script()
        for s in setup:
            sc.stmt(s)
        sc.fail(stmt, why)
        sc.tags = ["shape", stmt, "err:" + why]
        out.append(sc.source({"tags": sc.tags}))
    # the same things that are fine: `_` may repeat, computed keys, empty patterns
    fine = [
        (["for [i, ..rest] in [\"x\", \"y\"] { print(rest); }"], [["x"], ["y"]]),
        (["for [..rest] in {\"k\": 1} { print(rest); }", "print(0)"], [["k", 1], 0]),
        (["for [i, v, ..rest] in \"ab\" { print([i, v, rest]); }", "print(0)"], [[0, "a", []], [1, "b", []], 0]),
        (["a := 0", "r := 0", "{a, ..r} = {\"a\": 1, \"b\": 2}", "print([a, r])"], [[1, {"b": 2}]]),
        (["src := [1, 2]", "[_, _] := src", "print(src)"], [[1, 2]]),
        (["src := [1, 2]", "[] := []", "[..r] := src", "print(r)", "print(r === src)"], [[1, 2], False]),
        (["src := {\"a\": 1, \"b\": 2}", "{..r} := src", "print(r)", "print(r == src)", "print(r === src)"],
         [{"a": 1, "b": 2}, True, False]),
        (["src := {\"a\": 1, \"b\": 2}", "k := \"a\"", "{k: x, ..r} := src", "print(x)", "print(r)"], [1, {"b": 2}]),
        (["src := {\"a b\": 1, \"b\": 2}", "fn key() { return \"a \" + \"b\"; }", "{key(): x, ..r} := src", "print([x, r])"],
         [[1, {"b": 2}]]),
        (["src := [[1, 2], {\"k\": [3]}]", "[[a, ..b], {\"k\": [c]}] := src", "print([a, b, c])"], [[1, [2], 3]]),
        (["x := 0", "y := 0", "[x, y] = [1, 2]", "[x, y] = [y, x]", "print([x, y])"], [[2, 1]]),
        (["xs := [1, 2, 3]", "[xs[0], xs[2]] = [xs[2], xs[0]]", "print(xs)"], [[3, 2, 1]]),
        (["o := {\"a\": 1}", "[o.a, o.b] = [5, 6]", "print(o)"], [{"a": 5, "b": 6}]),
        (["o := {\"a\": 1}", "{\"a\": o.z} = o", "print(o)"], [{"a": 1, "z": 1}]),
        # the shorthand `_` names the property `_` (and discards it): the rest is what the pattern did not name, whether or not
        # the source has that property — in every binding position
        (["{_, ..r} := {\"_\": 1, \"a\": 2}", "print(r)"], [{"a": 2}]),
        (["{_, a, ..r} := {\"_\": 1, \"a\": 2, \"b\": 3}", "print([a, r])"], [[2, {"b": 3}]]),
        (["{a, _, ..r} := {\"_\": 1, \"a\": 2, \"b\": 3}", "print([a, r])"], [[2, {"b": 3}]]),
        (["{_, ..r} := {\"a\": 2}", "print(r)"], [{"a": 2}]),
        (["{_, ..r} := {\"_\": 1}", "print(r)"], [{}]),
        (["r := 0", "{_, ..r} = {\"_\": 5, \"z\": 6}", "print(r)"], [{"z": 6}]),
        (["fn f({_, ..r}) { return r; }", "print(f({\"_\": 1, \"k\": 2}))", "print(f({\"k\": 2}))"], [{"k": 2}, {"k": 2}]),
        (["for [i, {_, ..r}] in [{\"_\": 1, \"k\": 2}] { print(r); }", "print(0)"], [{"k": 2}, 0]),
        (["[x, {_, ..r}] := [1, {\"_\": 1, \"k\": 2}]", "print(r)"], [{"k": 2}]),
        (["{\"_\": u, ..r} := {\"_\": 1, \"k\": 2}", "print([u, r])"], [[1, {"k": 2}]]),
        (["{_, ..r} := {\"_\": 1, \"__\": 2, \"_a\": 3}", "print(r)"], [{"__": 2, "_a": 3}]),
    ]
    for lines, outs in fine:
        sc = L.Script()
        for s in lines:
            sc.stmt(s)
        for o in outs:
            sc.expect(o)
        sc.tags = ["shape", lines[max(0, len(lines) - 2)][:30], "ok"]
        out.append(sc.source({"tags": sc.tags}))
    return out


# ---------------------------------------------------------------------------- calls and spreads
def splits(vals, rng, with_empty):
    """all ways to write the argument list `vals` as plain and spread arguments: consecutive chunks, a chunk of one
    value being plain or spread; optionally one empty spread inserted somewhere"""
    n = len(vals)
    res = []
    for cuts in itertools.product([0, 1], repeat=max(0, n - 1)):
        chunks, cur = [], [vals[0]] if n else []
        for i, c in enumerate(cuts):
            if c:
                chunks.append(cur)
                cur = []
            cur.append(vals[i + 1])
        if n:
            chunks.append(cur)
        singles = [i for i, ch in enumerate(chunks) if len(ch) == 1]
        for mask in itertools.product([0, 1], repeat=len(singles)):
            plain = {singles[i] for i, m in enumerate(mask) if m}
            split = [("plain", ch[0]) if i in plain else ("spread", ch) for i, ch in enumerate(chunks)]
            res.append(split)
            if with_empty:
                j = rng.randrange(len(split) + 1)
                res.append(split[:j] + [("spread", [])] + split[j:])
    return res


def call_scripts(rng, thorough):
    out = []
    maxn = 5 if thorough else 4
    for arity in range(0, 5):
        for rest in (False, True):
            if rest and arity == 0:
                continue
            params = [f"p{i}" for i in range(arity - (1 if rest else 0))]
            plist = ", ".join(params + (["..r"] if rest else []))
            for n in range(0, maxn + 1):
                vals = list(range(10, 10 + n))
                for split in splits(vals, rng, True):
                    sc = L.Script()
                    ret = "[" + ", ".join(params) + "]" + (" + r" if rest else "")
                    prints = " ".join(f"print({p});" for p in params) + (" print(r);" if rest else "")
                    sc.stmt(f"fn f({plist}) {{ {prints} return {ret}; }}")
                    args = []
                    for i, (kind, x) in enumerate(split):
                        if kind == "plain":
                            args.append(str(x))
                        else:
                            sc.stmt(f"s{i} := {L.lit(x)}")
                            args.append(f"s{i}..")
                    ok = (n >= len(params)) if rest else (n == arity)
                    call = f"f({', '.join(args)})"
                    if not ok:
                        sc.fail(f"print({call})", f"{n} arguments for {plist or 'no parameters'}")
                    else:
                        sc.stmt(f"got := {call}")
                        for i, p in enumerate(params):
                            sc.expect(vals[i])
                        if rest:
                            sc.expect(vals[len(params):])
                        sc.stmt("print(got)")
                        sc.expect(vals)
                        # the same call written with plain arguments
                        sc.stmt(f"all := {L.lit(vals)}")
                        plain_call = "f(" + ", ".join(f"all[{i}]" for i in range(n)) + ")"
                        sc.stmt(f"print({plain_call} == got)")
                        for i, p in enumerate(params):
                            sc.expect(vals[i])
                        if rest:
                            sc.expect(vals[len(params):])
                        sc.expect(True)
                    sc.tags = ["call", f"arity{arity}{'+rest' if rest else ''}", f"args{n}",
                               "".join("p" if k == "plain" else "s%d" % len(x) for k, x in split), "ok" if ok else "err"]
                    out.append(sc.source({"tags": sc.tags}))
    # a spread hands over the ITEMS, whatever they are: function values that were read from objects arrive exactly as
    # `xs[0], xs[1], …` would hand them over (callable with the same `this`), in calls and in list literals
    pre = ('fn who() { return this.tag; }\na := {"tag": "A", "who": who}\nb := {"tag": "B", "who": who}\n'
           'c := {"tag": "C", "mk": fn () { return fn () { return this.tag; }; }}\n')
    items = [("a.who", "A"), ('b["who"]', "B"), ("c.mk()", "C"), ("a.who", "A")]
    for n in range(1, 5):
        for np, rest in ((n, False), (0, True), (1, True), (n - 1, True)):
            if np < 0 or np > n or (not rest and np != n):
                continue
            params = [f"p{i}" for i in range(np)]
            plist = ", ".join(params + (["..r"] if rest else []))
            body = " ".join(f"print({p}());" for p in params) + (" for [i, g] in r { print(g()); };" if rest else "") + " return 0;"
            for form in ("call-spread", "call-plain", "call-mixed", "list-spread", "list-of-spread-call"):
                sc = L.Script()
                sc.stmt(pre.rstrip("\n"))
                sc.stmt(f"fn f({plist}) {{ {body} }}")
                sc.stmt("xs := [" + ", ".join(t for t, _ in items[:n]) + "]")
                if form == "call-spread":
                    sc.stmt("f(xs..)")
                elif form == "call-plain":
                    sc.stmt("f(" + ", ".join(f"xs[{i}]" for i in range(n)) + ")")
                elif form == "call-mixed":
                    sc.stmt("f(" + ", ".join(["xs[0]"] + (["xs[1:].."] if n > 1 else [])) + ")")
                elif form == "list-spread":
                    sc.stmt("ys := [xs..]")
                    sc.stmt("f(ys..)")
                else:
                    sc.stmt("ys := [[xs..]..]")
                    sc.stmt("f(" + ", ".join(f"ys[{i}]" for i in range(n)) + ")")
                for _, tag in items[:n]:
                    sc.expect_text(tag)
                sc.tags = ["call", "spread-of-methods", form, n, np, rest, "ok"]
                out.append(sc.source({"tags": sc.tags}))
    # the rest parameter is a fresh list: writing into it leaves the spread source alone
    for n in range(1, 4):
        for np in range(0, n + 1):
            sc = L.Script()
            params = [f"p{i}" for i in range(np)]
            sc.stmt(f"fn g({', '.join(params + ['..r'])}) {{ r += [99]; if {n - np} > 0 {{ r[0] = 98; }}; return r; }}")
            xs = list(range(1, n + 1))
            sc.stmt(f"xs := {L.lit(xs)}")
            sc.stmt("r2 := g(xs..)")
            sc.stmt("print(xs)")
            sc.expect(xs)
            sc.stmt("print(r2)")
            r = xs[np:] + [99]
            if n - np > 0:
                r[0] = 98
            sc.expect(r)
            sc.stmt("print(r2 === xs)")
            sc.expect(False)
            sc.tags = ["call", "rest-fresh", n, np, "ok"]
            out.append(sc.source({"tags": sc.tags}))
    # list literals
    for a in range(0, 4):
        for b in range(0, 4):
            xs, ys = list(range(1, a + 1)), list(range(21, 21 + b))
            sc = L.Script()
            sc.stmt(f"xs := {L.lit(xs)}")
            sc.stmt(f"ys := {L.lit(ys)}")
            sc.stmt("print([xs.., ys..] == (xs + ys))")
            sc.expect(True)
            sc.stmt("print([xs.., ys..])")
            sc.expect(xs + ys)
            sc.stmt("print([xs.., 7, ys.., xs..] == (xs + [7] + ys + xs))")
            sc.expect(True)
            sc.stmt("zs := [xs..]")
            sc.stmt("print(zs === xs)")
            sc.expect(False)
            sc.stmt("zs += [5]")
            sc.stmt("print(xs)")
            sc.expect(xs)
            sc.stmt("print([[xs..].., [ys..]..])")
            sc.expect(xs + ys)
            sc.tags = ["spread-list", a, b, "ok"]
            out.append(sc.source({"tags": sc.tags}))
    # items are evaluated left to right and a spread contributes the elements its list has WHEN IT IS REACHED: a later sibling
    # that changes that list (through an alias, by a call) does not change what the spread contributed; an earlier one does
    for n in range(1, 4):
        xs = list(range(1, n + 1))
        for where in ("list", "call"):
            for order in ("spread-first", "mutator-first", "between"):
                sc = L.Script()
                sc.stmt(f"xs := {L.lit(xs)}")
                sc.stmt("fn bump(l) { l[0] = 99; return 0; }")
                sc.stmt("fn grow(l) { l += [7]; return 0; }")
                sc.stmt("fn f(..r) { return r; }")
                items, want = {
                    "spread-first": ("xs.., bump(xs)", xs + [0]),
                    "mutator-first": ("bump(xs), xs..", [0, 99] + xs[1:]),
                    "between": ("xs.., bump(xs), xs..", xs + [0, 99] + xs[1:]),
                }[order]
                expr = f"[{items}]" if where == "list" else f"f({items})"
                sc.stmt(f"print({expr})")
                sc.expect(want)
                sc.stmt("print(xs)")
                sc.expect([99] + xs[1:])
                sc.stmt(f"ys := {L.lit(xs)}")
                e2 = "[ys.., grow(ys), ys..]" if where == "list" else "f(ys.., grow(ys), ys..)"
                sc.stmt(f"print({e2})")
                sc.expect(xs + [0] + xs)          # `l += [7]` rebinds the parameter: the caller's list is untouched
                sc.tags = ["spread-order", where, order, n, "ok"]
                out.append(sc.source({"tags": sc.tags}))
    # an object pattern is processed item by item, left to right: a computed key may read a name that an earlier item of the
    # same pattern has just bound
    for mode, pre in ((":=", ""), ("=", "k := \"none\"\nv := 0\nrest := 0\n")):
        sc = L.Script()
        sc.stmt("o := {\"tag\": \"r\", \"r\": 3, \"s\": 4, \"none\": 9}")
        if pre:
            for ln in pre.strip().split("\n"):
                sc.stmt(ln)
        sc.stmt(f"{{\"tag\": k, [k][0]: v, ..rest}} {mode} o" if False else f"{{\"tag\": k, k: v, ..rest}} {mode} o")
        sc.stmt("print(k)")
        sc.expect("r")
        sc.stmt("print(v)")
        sc.expect(3)
        sc.stmt("print(rest)")
        sc.expect({"s": 4, "none": 9})
        sc.stmt("print({\"tag\": k, k: v, rest..} == o)")
        sc.expect(True)
        sc.tags = ["computed-key-reads-earlier-binding", mode, "ok"]
        out.append(sc.source({"tags": sc.tags}))
    for bad in ["1", "\"ab\"", "null", "{\"a\": 1}", "true"]:
        for form in ["print([1, q..])", "print([q..])", "f := fn (..r) { return r; }\nprint(f(1, q..))"]:
            sc = L.Script()
            sc.stmt(f"q := {bad}")
            sc.fail(form, f"spread of the non-list {bad}")
            sc.tags = ["spread-list", form[:12], bad, "err"]
            out.append(sc.source({"tags": sc.tags}))
    return out


def classify(src, r):
    p = L.prediction(src) or {}
    t = p.get("tags", [])
    return (tuple(str(x) for x in t[:4]), L.err_class(r))


def run(ctx, model_ok):
    rng = ctx.rng
    thorough = ctx.tier == "thorough"
    L.run_stream(ctx, "corpus", L.corpus_scripts("C13"), model_ok, classify=classify)
    for part in pattern_parts(rng, thorough):
        part = list(dict.fromkeys(part))
        for i in range(0, len(part), 100000):
            L.run_stream(ctx, "patterns", part[i:i + 100000], model_ok, classify=classify)
        for s in part:
            t = (L.prediction(s) or {}).get("tags", ["?", "?", "?"])
            ctx.dist("position:" + str(t[0]))
            ctx.dist("bind:" + ("ok" if t[2] == "ok" else "err:" + str(t[2])[4:].lstrip("0123456789 ")[:40]))
    L.run_stream(ctx, "dup-names", dup_scripts(rng, 4000 if thorough else 500), model_ok, classify=classify)
    L.run_stream(ctx, "for-targets", for_target_scripts(rng, thorough), model_ok, classify=classify)
    L.run_stream(ctx, "shape", shape_scripts(), model_ok, classify=classify)
    L.run_stream(ctx, "calls", call_scripts(rng, thorough), model_ok, classify=classify)
