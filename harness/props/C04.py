"""C04 — lexical scoping; closures capture their defining scope by reference; consistent renaming never changes output."""
import re
import core
import progs
import tie
import lib_scope as L

RULE = ("scope-operation programs over tokens {declare, assign, read (every third as object shorthand), open block, define "
        "function, loop, close, call, return closure, invoke result} on two names: every token sequence up to length 6 (quick) / "
        "7 (thorough) after pruning symmetric and referent-less ones (exhaustive), every sequence up to length 7 / 8 over {loop, "
        "define function, declare, assign, read, read the loop variable, close, keep the first closure in an outer variable, call the "
        "kept closure} (closures of one iteration called during later iterations and after the loop), random structured programs with nested "
        "functions returning closures that are invoked from scopes holding same-named variables, and progs.generate programs; "
        "each is run as written, with every variable renamed to its own fresh name at once, and with each variable renamed alone "
        "(object shorthand expanded); non-trivial = distinct (set of tokens / stream, outcome, scoping situations met: shadowing, "
        "assignment to an outer scope, captured local, capture of a later declaration, closure outliving its scope, recursion, loop)")
ASSUMPTIONS = ["a variable = a set of identifier occurrences connected by 'this use resolved to this declaration' in an independent "
               "reference interpreter with lexical scoping (two declarations that clash in one scope are one variable); uses that "
               "never execute keep their name",
               "function names are renamed too: nothing these programs print shows them (stderr is not compared)",
               "progs.generate programs use every generated name for one declaration, so a whole-word replacement is a consistent "
               "renaming"]

GEN_NAME = re.compile(r"\b[vckefp]\d+\b")


def key(r):
    return (r["stdout"], r["status"])


def regex_rename(src, names, suffix="_rn"):
    pat = re.compile(r"\b(" + "|".join(re.escape(n) for n in names) + r")\b")
    return pat.sub(lambda m: m.group(1) + suffix, src)


def oracle_one(ctx, src, r):
    """replay: reference interpreter and renaming for our own programs, whole-word renaming for generated ones"""
    p = L.parse_text(src)
    if p is not None:
        ast, nocc = p
        out, st, kind, ref = L.reference(ast, nocc)
        if (out, st) != key(r):
            return False, f"reference interpreter (lexical scoping) predicts status {st} and stdout {out!r}"
        allr, singles = L.renamings(ast, ref)
        for tag, ren in [("all", allr)] + singles:
            r2 = core.run_cli(L.render(ast, ren))
            if key(r2) != key(r):
                return False, f"renaming variable(s) {tag} changes the outcome to status {r2['status']} stdout {r2['stdout']!r}"
        return True, ""
    names = sorted(set(GEN_NAME.findall(src)))
    for sub in [names] + [[n] for n in names]:
        if not sub:
            continue
        r2 = core.run_cli(regex_rename(src, sub))
        if key(r2) != key(r):
            return False, f"renaming {sub} changes the outcome to status {r2['status']} stdout {r2['stdout']!r}"
    return True, ""


class Reporter:
    def __init__(self, ctx):
        self.ctx = ctx
        self.seen = set()

    def report(self, what, cls, src, variant=None, expect=None):
        """confirm through the plain CLI, then report (a few per class)"""
        if sum(1 for c in self.seen if c[0] == cls) >= 3:
            return
        ctx = self.ctx
        r = core.run_cli(src)
        ctx.cov["cli_reconfirmed"] += 1
        det = {"cli": r}
        if expect is not None:
            if key(r) == expect:
                return
            det["reference"] = {"stdout": expect[0], "status": expect[1]}
        if variant is not None:
            r2 = core.run_cli(variant)
            ctx.cov["cli_reconfirmed"] += 1
            if key(r2) == key(r):
                return
            det["renamed_program"] = variant
            det["cli_renamed"] = r2
        self.seen.add((cls, src))
        ctx.violation(what, src, det)


def scope_stream(ctx, label, items, model_ok, rep):
    """items: [(tokens-or-None, ast, nocc)]"""
    srcs, refs = [], []
    for toks, ast, nocc in items:
        out, st, kind, ref = L.reference(ast, nocc)
        srcs.append(L.render(ast))
        refs.append((out, st, kind, ref))
    impl, dis = tie.run(ctx, srcs, label, model_ok, project=tie.proj_full)
    # oracle 1: the reference interpreter
    bad_src = set()
    for (toks, ast, nocc), s, (out, st, kind, ref), r in zip(items, srcs, refs, impl):
        sit = tuple(sorted(ref.flags))
        ctx.dist("outcome:" + (kind or "completes"))
        for f in ref.flags:
            ctx.dist("situation:" + f)
        ctx.nontrivial((tuple(sorted(set(toks))) if toks else label, kind, sit))
        if (out, st) != key(r):
            bad_src.add(s)
            rep.report(f"lexical scoping predicts status {st} and stdout {out!r}; the implementation gives status "
                       f"{r['status']} and stdout {r['stdout']!r}", "reference", s, expect=(out, st))
    # oracle 2: renaming
    variants, owner = [], []
    nall = none = 0
    for i, ((toks, ast, nocc), (out, st, kind, ref)) in enumerate(zip(items, refs)):
        allr, singles = L.renamings(ast, ref)
        ctx.dist("variables_per_program:" + str(min(len(singles), 8)))
        variants.append(L.render(ast, allr))
        owner.append((i, "every variable"))
        nall += 1
        if len(singles) > 1:
            for name, ren in singles:
                variants.append(L.render(ast, ren))
                owner.append((i, "variable " + name))
                none += 1
    res = core.run_batch("impl", variants)
    ctx.count(label + ":renamed-all", nall)
    ctx.count(label + ":renamed-one", none)
    for (i, tag), v, r2 in zip(owner, variants, res):
        if key(r2) != key(impl[i]):
            bad_src.add(srcs[i])
            rep.report(f"renaming {tag} to a fresh name changes the outcome: status {impl[i]['status']} -> {r2['status']}, "
                       f"stdout {impl[i]['stdout']!r} -> {r2['stdout']!r}", "rename", srcs[i], variant=v)
    tie.report_disagreements(ctx, [d for d in dis if d[0] not in bad_src], label)
    return srcs, impl


def run(ctx, model_ok):
    thorough = ctx.tier == "thorough"
    rep = Reporter(ctx)
    maxlen = 7 if thorough else 6
    ctx.cov["exhaustive"] = True
    ctx.cov["exhaustive_bound"] = f"token sequences of length <= {maxlen}"
    chunk = []
    first = True

    def flush():
        nonlocal chunk, first
        if chunk:
            srcs, impl = scope_stream(ctx, "scope_ops", chunk, model_ok, rep)
            if first:
                k = len(srcs) // 2
                ctx.sample({"stream": "scope_ops", "tokens": " ".join(chunk[k][0]), "src": srcs[k], "impl": impl[k]})
                first = False
        chunk = []

    for seq in L.sequences(maxlen):
        b = L.build(seq)
        if b is None:
            ctx.exclude("pruned_prefix_or_unobservable")
            continue
        chunk.append((seq, b[0], b[1]))
        if len(chunk) >= 40000:
            flush()
    flush()

    # closures created in loop iterations that are kept and called during later iterations and after the loop:
    # every sequence over the loop-closure tokens (the kept closure is the one of the FIRST iteration)
    lmax = 8 if thorough else 7
    ctx.cov["exhaustive_bound"] += f"; loop-closure token sequences of length <= {lmax}"
    first = True
    for seq in L.sequences(lmax, L.TOKENS_LOOP):
        if "L" not in seq:
            continue
        b = L.build(seq)
        if b is None:
            ctx.exclude("pruned_prefix_or_unobservable")
            continue
        chunk.append((seq, b[0], b[1]))
        if len(chunk) >= 40000:
            flush()
    flush()

    # random structured programs
    n = 60000 if thorough else 8000
    done = 0
    while done < n:
        ps = L.random_programs(ctx.rng, min(20000, n - done))
        done += len(ps)
        srcs, impl = scope_stream(ctx, "scope_random", [(None, p[0], p[1]) for p in ps], model_ok, rep)
        picks = [i for i, p in enumerate(ps) if "closure-outlives-scope" in p[5].flags and p[3] == "0"]
        if picks:
            ctx.sample({"stream": "scope_random", "src": srcs[picks[0]], "impl": impl[picks[0]]})

    # generated programs of the shared generator: whole-word renaming
    srcs = progs.generate(ctx.rng, 20000 if thorough else 3000)
    srcs = list(dict.fromkeys(srcs))
    impl, dis = tie.run(ctx, srcs, "progs", model_ok, project=tie.proj_full)
    variants, owner = [], []
    for i, s in enumerate(srcs):
        names = sorted(set(GEN_NAME.findall(s)))
        ctx.dist("outcome:progs:" + ("completes" if impl[i]["status"] == "0" else "diagnostic"))
        ctx.nontrivial(("progs", impl[i]["status"], min(len(names), 12)))
        if not names:
            ctx.exclude("progs_without_generated_names")
            continue
        variants.append(regex_rename(s, names))
        owner.append((i, "every variable"))
        for nm in ctx.rng.sample(names, min(2, len(names))):
            variants.append(regex_rename(s, [nm]))
            owner.append((i, "variable " + nm))
    res = core.run_batch("impl", variants)
    ctx.count("progs:renamed", len(variants))
    bad_src = set()
    for (i, tag), v, r2 in zip(owner, variants, res):
        if key(r2) != key(impl[i]):
            bad_src.add(srcs[i])
            rep.report(f"renaming {tag} to a fresh name changes the outcome: status {impl[i]['status']} -> {r2['status']}, "
                       f"stdout {impl[i]['stdout'][-200:]!r} -> {r2['stdout'][-200:]!r}", "rename-progs", srcs[i], variant=v)
    tie.report_disagreements(ctx, [d for d in dis if d[0] not in bad_src], "progs")
    if srcs:
        ctx.sample({"stream": "progs", "src": srcs[0][:300], "renamed": variants[0][:300]})
