"""C04 — lexical scoping; closures capture their defining scope by reference; consistent renaming never changes output."""
import re
import core
import progs
import tie
import lib_scope as L
import lib_closure_forms as CF

RULE = ("scope-operation programs over tokens {declare, assign, read (every third as object shorthand), open block, define "
        "function, loop, close, call, return closure, invoke result} on two names: every token sequence up to length 6 (quick) / "
        "7 (thorough) after pruning symmetric and referent-less ones (exhaustive), every sequence up to length 7 / 8 over {loop, "
        "define function, declare, assign, read, read the loop variable, close, keep the first closure in an outer variable, call the "
        "kept closure} (closures of one iteration called during later iterations and after the loop), random structured programs with nested "
        "functions returning closures that are invoked from scopes holding same-named variables, and progs.generate programs; "
        "closure-forms grid (planted outputs): a function whose body reaches the enclosing variable through one syntactic form only "
        "(36 read forms: interpolation slots alone / with text / nested literals / in nested functions, object shorthand, index, "
        "property, spread, operand, condition, callee, for-iterable, pattern key, nested functions; 22 write forms: assignment, "
        "op-assignment, destructuring, index / property / range targets, shadowing declarations) x 20 scopes (call local / "
        "parameter / parameter pattern, anonymous and method calls, blocks, branches, loop iterations, top level, declared before "
        "or after the function: then the same text uses the global until the declaration has run) x 6 wrappers x 4 function kinds, used while the scope is alive, after it ended, from a caller "
        "holding its own same-named variable, two activations kept apart; recursion-levels grid: closures made at each level "
        "of a recursion (14 positions of the recursive call: tail, in branches / loops / blocks, bound, operand, argument, alias, "
        "spread, mutual; x 5 captured things x 4 ways of collecting x 4 ways of naming the function) keep their own level; "
        "each is run as written, with every variable renamed to its own fresh name at once, and with each variable renamed alone "
        "(object shorthand expanded); non-trivial = distinct (set of tokens / stream, outcome, scoping situations met: shadowing, "
        "assignment to an outer scope, captured local, capture of a later declaration, closure outliving its scope, recursion, loop)")
ASSUMPTIONS = ["a variable = a set of identifier occurrences connected by 'this use resolved to this declaration' in an independent "
               "reference interpreter with lexical scoping (two declarations that clash in one scope are one variable); uses that "
               "never execute keep their name",
               "function names are renamed too: nothing these programs print shows them (stderr is not compared)",
               "progs.generate programs use every generated name for one declaration, so a whole-word replacement is a consistent "
               "renaming"]

GEN_NAME = re.compile(r"\b[vckefp]\d+\b")


def key(r):
    return (r["stdout"], r["status"])


def regex_rename(src, names, suffix="_rn"):
    pat = re.compile(r"\b(" + "|".join(re.escape(n) for n in names) + r")\b")
    return pat.sub(lambda m: m.group(1) + suffix, src)


def oracle_one(ctx, src, r):
    """replay: reference interpreter and renaming for our own programs, whole-word renaming for generated ones"""
    p = L.parse_text(src)
    if p is not None:
        ast, nocc = p
        out, st, kind, ref = L.reference(ast, nocc)
        if (out, st) != key(r):
            return False, f"reference interpreter (lexical scoping) predicts status {st} and stdout {out!r}"
        allr, singles = L.renamings(ast, ref)
        for tag, ren in [("all", allr)] + singles:
            r2 = core.run_cli(L.render(ast, ren))
            if key(r2) != key(r):
                return False, f"renaming variable(s) {tag} changes the outcome to status {r2['status']} stdout {r2['stdout']!r}"
        return True, ""
    names = sorted(set(GEN_NAME.findall(src)))
    for sub in [names] + [[n] for n in names]:
        if not sub:
            continue
        r2 = core.run_cli(regex_rename(src, sub))
        if key(r2) != key(r):
            return False, f"renaming {sub} changes the outcome to status {r2['status']} stdout {r2['stdout']!r}"
    return True, ""


class Reporter:
    def __init__(self, ctx):
        self.ctx = ctx
        self.seen = set()

    def report(self, what, cls, src, variant=None, expect=None):
        """confirm through the plain CLI, then report (a few per class)"""
        if sum(1 for c in self.seen if c[0] == cls) >= 3:
            return
        ctx = self.ctx
        r = core.run_cli(src)
        ctx.cov["cli_reconfirmed"] += 1
        det = {"cli": r}
        if expect is not None:
            if key(r) == expect:
                return
            det["reference"] = {"stdout": expect[0], "status": expect[1]}
        if variant is not None:
            r2 = core.run_cli(variant)
            ctx.cov["cli_reconfirmed"] += 1
            if key(r2) == key(r):
                return
            det["renamed_program"] = variant
            det["cli_renamed"] = r2
        self.seen.add((cls, src))
        ctx.violation(what, src, det)


def scope_stream(ctx, label, items, model_ok, rep):
    """items: [(tokens-or-None, ast, nocc)]"""
    srcs, refs = [], []
    for toks, ast, nocc in items:
        out, st, kind, ref = L.reference(ast, nocc)
        srcs.append(L.render(ast))
        refs.append((out, st, kind, ref))
    impl, dis = tie.run(ctx, srcs, label, model_ok, project=tie.proj_full)
    # oracle 1: the reference interpreter
    bad_src = set()
    for (toks, ast, nocc), s, (out, st, kind, ref), r in zip(items, srcs, refs, impl):
        sit = tuple(sorted(ref.flags))
        ctx.dist("outcome:" + (kind or "completes"))
        for f in ref.flags:
            ctx.dist("situation:" + f)
        ctx.nontrivial((tuple(sorted(set(toks))) if toks else label, kind, sit))
        if (out, st) != key(r):
            bad_src.add(s)
            rep.report(f"lexical scoping predicts status {st} and stdout {out!r}; the implementation gives status "
                       f"{r['status']} and stdout {r['stdout']!r}", "reference", s, expect=(out, st))
    # oracle 2: renaming
    variants, owner = [], []
    nall = none = 0
    for i, ((toks, ast, nocc), (out, st, kind, ref)) in enumerate(zip(items, refs)):
        allr, singles = L.renamings(ast, ref)
        ctx.dist("variables_per_program:" + str(min(len(singles), 8)))
        variants.append(L.render(ast, allr))
        owner.append((i, "every variable"))
        nall += 1
        if len(singles) > 1:
            for name, ren in singles:
                variants.append(L.render(ast, ren))
                owner.append((i, "variable " + name))
                none += 1
    res = core.run_batch("impl", variants)
    ctx.count(label + ":renamed-all", nall)
    ctx.count(label + ":renamed-one", none)
    for (i, tag), v, r2 in zip(owner, variants, res):
        if key(r2) != key(impl[i]):
            bad_src.add(srcs[i])
            rep.report(f"renaming {tag} to a fresh name changes the outcome: status {impl[i]['status']} -> {r2['status']}, "
                       f"stdout {impl[i]['stdout']!r} -> {r2['stdout']!r}", "rename", srcs[i], variant=v)
    tie.report_disagreements(ctx, [d for d in dis if d[0] not in bad_src], label)
    return srcs, impl


def fixed_scope_programs():
    """(tag, script, expected stdout, expected status) — situations the token languages do not reach"""
    out = []
    # destructuring ASSIGNMENT updates the nearest enclosing declarations (also the collected rest) from any nested scope;
    # destructuring DECLARATION there shadows them
    pats = [("[a, ..r]", "[1, 2, 3]", "1\n[\n    2,\n    3,\n]\n"), ("{k, ..r}", '{"k": 1, "x": 2}', '1\n{\n    "x": 2,\n}\n'),
            ("[a, [r]]", "[1, [2]]", "1\n2\n"), ('{"k": a, "m": {"n": r}}', '{"k": 1, "m": {"n": 2}}', "1\n2\n"),
            ("{..r}", '{"x": 2}', '0\n{\n    "x": 2,\n}\n'), ("[..r]", "[2]", "0\n[\n    2,\n]\n")]
    scopes = [("function", "fn load(v) {\n    @S\n    return 0\n}\nload(@V)\n"), ("if-block", "if true {\n    @S\n}\n"),
              ("for-body", "for [zi, zv] in [0] {\n    @S\n}\n"), ("while-body", "zn := 0\nwhile zn < 1 {\n    zn += 1\n    @S\n}\n"),
              ("bare-block", "{\n    {\n        @S\n    }\n}\n"), ("closure", "g := fn() {\n    @S\n    return 0\n}\ng()\n")]
    for pat, val, shown in pats:
        first = "a" if "a" in pat.replace('"k": a', "a") and "[a" in pat or '"k": a' in pat else ("k" if "{k" in pat else None)
        names = [n for n in ("a", "k", "r") if n in [first, "r"]]
        decl = "".join(f"{n} := 0\n" for n in names)
        show = "".join(f"print({n})\n" for n in names)
        for sname, tmpl in scopes:
            src_v = "v" if sname == "function" else val
            body = tmpl.replace("@S", f"{pat} = {src_v}").replace("@V", val)
            exp = shown if first else shown[2:]
            out.append((("destructuring-assignment", pat, sname), decl + body + show, exp if first else shown.split("\n", 1)[1], "0"))
            body = tmpl.replace("@S", f"{pat} := {src_v}").replace("@V", val)
            out.append((("destructuring-declaration-shadows", pat, sname), decl + body + show, "0\n" * len(names), "0"))
    # every `while` iteration has its own scope: closures of different iterations keep their own variables, and a
    # declaration of one iteration is not there in the next
    out.append((("while-iteration-closures",), "fs := []\ni := 0\nwhile i < 3 {\n    j := i * 10\n    fs += [fn() {\n        return j\n    }]\n    i += 1\n}\n"
                "for [_, f] in fs {\n    print(f())\n}\n", "0\n10\n20\n", "0"))
    out.append((("while-iteration-redeclare",), "k := 0\nseen := \"outer\"\nwhile k < 2 {\n    if k == 1 {\n        print(seen)\n    }\n    seen := \"inner\"\n    k += 1\n}\n"
                "print(seen)\n", "outer\nouter\n", "0"))
    out.append((("while-iteration-counter-closures",), "cs := []\ni := 0\nwhile i < 2 {\n    n := 0\n    cs += [fn() {\n        n += 1\n        return n\n    }]\n    i += 1\n}\n"
                "print(cs[0]())\nprint(cs[0]())\nprint(cs[1]())\n", "1\n2\n1\n", "0"))
    # a scope that ends stays alive for the closures that captured it, whatever else it holds (also closures made elsewhere)
    mk = "fn make_step(k) {\n    return fn() {\n        return k\n    }\n}\n"
    out.append((("scope-holds-foreign-closure",), mk + "fn make() {\n    step := make_step(10)\n    n := 0\n    return fn() {\n        n += step()\n        return n\n    }\n}\n"
                "d := make()\nprint(d())\nprint(d())\n", "10\n20\n", "0"))
    out.append((("scope-holds-only-closures",), mk + "fn make() {\n    s1 := make_step(1)\n    s2 := make_step(2)\n    return fn() {\n        return s1() + s2()\n    }\n}\n"
                "print(make()())\nf := make()\ng := make()\nprint(f() + g())\n", "3\n6\n", "0"))
    out.append((("block-scope-captured",), mk + "keep := [0]\n{\n    step := make_step(5)\n    keep[0] = fn() {\n        return step()\n    }\n}\nprint(keep[0]())\n", "5\n", "0"))
    out.append((("loop-scope-captured",), mk + "keep := []\nfor [i, v] in [1, 2] {\n    step := make_step(v)\n    keep += [fn() {\n        return step() * 10\n    }]\n}\n"
                "print(keep[0]())\nprint(keep[1]())\n", "10\n20\n", "0"))
    # a `fn name` statement declares `name` in the defining scope and nowhere else: a self-reference inside the body is that live
    # binding (re-assigning the name redirects the recursion; the body can re-assign it too)
    out.append((("fn-self-reference-live",), "calls := 0\nfn walk(n) {\n    if n == 0 {\n        return 0\n    }\n    return walk(n - 1)\n}\nold := walk\n"
                "walk = fn(n) {\n    calls += 1\n    return old(n)\n}\nwalk(3)\nprint(calls)\n", "4\n", "0"))
    out.append((("fn-self-assign",), "fn f() {\n    f = 1\n    return 0\n}\nf()\nprint(f)\n", "1\n", "0"))
    out.append((("fn-self-reference-in-block",), "{\n    fn step(n) {\n        if n == 0 {\n            return \"base of the old step\"\n        }\n        return step(n - 1)\n    }\n"
                "    first := step\n    step = fn(n) {\n        return \"the new step\"\n    }\n    print(first(2))\n}\n", "the new step\n", "0"))
    out.append((("fn-mutual-live",), "fn even(n) {\n    if n == 0 {\n        return true\n    }\n    return odd(n - 1)\n}\nfn odd(n) {\n    if n == 0 {\n        return false\n    }\n"
                "    return even(n - 1)\n}\nprint(even(4))\nodd = fn(n) {\n    return \"patched\"\n}\nprint(even(4))\n", "true\npatched\n", "0"))
    return out


def run(ctx, model_ok):
    thorough = ctx.tier == "thorough"
    rep = Reporter(ctx)
    maxlen = 7 if thorough else 6
    ctx.cov["exhaustive"] = True
    ctx.cov["exhaustive_bound"] = f"token sequences of length <= {maxlen}"
    chunk = []
    first = True

    def flush():
        nonlocal chunk, first
        if chunk:
            srcs, impl = scope_stream(ctx, "scope_ops", chunk, model_ok, rep)
            if first:
                k = len(srcs) // 2
                ctx.sample({"stream": "scope_ops", "tokens": " ".join(chunk[k][0]), "src": srcs[k], "impl": impl[k]})
                first = False
        chunk = []

    for seq in L.sequences(maxlen):
        b = L.build(seq)
        if b is None:
            ctx.exclude("pruned_prefix_or_unobservable")
            continue
        chunk.append((seq, b[0], b[1]))
        if len(chunk) >= 40000:
            flush()
    flush()

    # named functions declared inside blocks / loop bodies / function bodies and called after those constructs ended (a call
    # needs a seventh token in the shortest such program with an observable read): one length further over the tokens
    # that matter for it
    if not thorough:
        ctx.cov["exhaustive_bound"] += "; sequences of length 7 over {declare a, read a, block, function, loop, close, call} with a function, a call and a block or loop"
        for seq in L.sequences(7, ["Da", "Ra", "{", "F", "W", "}", "C"]):
            if len(seq) != 7 or "F" not in seq or "C" not in seq or not ("{" in seq or "W" in seq):
                continue
            b = L.build(seq)
            if b is None:
                ctx.exclude("pruned_prefix_or_unobservable")
                continue
            chunk.append((seq, b[0], b[1]))
        flush()

    # closures created in loop iterations that are kept and called during later iterations and after the loop:
    # every sequence over the loop-closure tokens (the kept closure is the one of the FIRST iteration)
    lmax = 8 if thorough else 7
    ctx.cov["exhaustive_bound"] += f"; loop-closure token sequences of length <= {lmax}"
    first = True
    for seq in L.sequences(lmax, L.TOKENS_LOOP):
        if "L" not in seq:
            continue
        b = L.build(seq)
        if b is None:
            ctx.exclude("pruned_prefix_or_unobservable")
            continue
        chunk.append((seq, b[0], b[1]))
        if len(chunk) >= 40000:
            flush()
    flush()

    # fixed situations
    fx = fixed_scope_programs()
    fimpl, fdis = tie.run(ctx, [f[1] for f in fx], "scope_fixed", model_ok, project=tie.proj_full)
    fbad = set()
    for (tag, src, out, st), r in zip(fx, fimpl):
        ctx.nontrivial(("fixed",) + tag)
        if (r["stdout"], r["status"]) != (out, st):
            c = core.run_cli(src)
            if (c["stdout"], c["status"]) != (out, st):
                fbad.add(src)
                rep.report(f"{' / '.join(tag)}: lexical scoping predicts status {st} and stdout {out!r}; the implementation gives status "
                           f"{c['status']} and stdout {c['stdout']!r}", "fixed-" + tag[0], src)
    tie.report_disagreements(ctx, [d for d in fdis if d[0] not in fbad], "scope_fixed")

    # closures that reach the enclosing variable through one syntactic form; closures of every level of a recursion (planted outputs)
    for label, cases in (("closure_forms", CF.programs(ctx.rng, thorough)), ("recursion_levels", CF.rec_programs())):
        cimpl, cdis = tie.run(ctx, [c[1] for c in cases], label, model_ok, project=tie.proj_full)
        cbad = set()
        for (tag, src, out), r in zip(cases, cimpl):
            ctx.nontrivial((label,) + tag[:5])
            ctx.dist(f"{label}:{tag[1]}")
            if (r["stdout"], r["status"]) != (out, "0"):
                cbad.add(src)
                rep.report(f"{label} ({' / '.join(str(t) for t in tag)}): lexical scoping predicts status 0 and stdout {out!r}; the implementation "
                           f"gives status {r['status']} and stdout {r['stdout']!r} ({r['stderr'][:120]!r})", label, src, expect=(out, "0"))
        tie.report_disagreements(ctx, [d for d in cdis if d[0] not in cbad], label)
        k = len(cases) // 2
        ctx.sample({"stream": label, "tag": list(cases[k][0]), "src": cases[k][1], "expected": cases[k][2], "impl": cimpl[k]})

    # a use refers to the innermost declaration that HAS BEEN EXECUTED: a declaration later in the same block (`:=`, `fn`, a
    # pattern) does not capture the uses before it; and a scope ends however its block is left (normally, by break,
    # continue, return): its declarations are gone afterwards, the outer ones are visible again
    order = []
    DECLS = [("var", 'N := "inner"', "N"), ("fn", 'fn N() {\n        return "inner"\n    }', "N()"), ("pattern", '[N, z_] := ["inner", 0]', "N"),
             ("object-pattern", '{N} := {"N": "inner"}', "N"), ("fn-expression", 'N := fn () {\n        return "inner"\n    }', "N()")]
    BLOCKS = [("bare-block", "{\n@B}\n"), ("if", "if true {\n@B}\n"), ("else", "if false {\n    print(0)\n} else {\n@B}\n"),
              ("while-once", "once := true\nwhile once {\n    once = false\n@B}\n"), ("for", "for [i_, v_] in [1] {\n@B}\n"),
              ("function", "fn run_() {\n@B    return 0\n}\nrun_()\n"), ("method", 'o_ := {"m": fn () {\n@B    return 0\n}}\no_.m()\n'),
              ("nested", "{\n    {\n@B    }\n}\n")]
    for dk, decl, use in DECLS:
        for outer_fn in (False, True):
            outer = 'fn N() {\n    return "outer"\n}\n' if outer_fn else 'N := "outer"\n'
            ouse = "N()" if outer_fn else "N"
            for bk, tmpl in BLOCKS:
                body = f"    print({ouse})\n    {decl}\n    print({use})\n"
                src = (outer + tmpl.replace("@B", body) + f"print({ouse})\n").replace("N", "tag")
                order.append((("declaration-order", dk, "outer-fn" if outer_fn else "outer-var", bk), src, "outer\ninner\nouter\n"))
    LEAVES = [("normal", ""), ("break", "        break\n"), ("continue", "        continue\n")]
    for lk, leave in LEAVES:
        for loop, head in (("while", "n := 0\nwhile n < 2 {\n    n += 1\n"), ("for", "for [i_, v_] in [1, 2] {\n")):
            src = ('tmp := "outer"\n' + head + '    print(tmp)\n    {\n        tmp := "body"\n        print(tmp)\n    }\n    tmp2 := "it"\n    if true {\n'
                   + '        shadow := tmp2\n' + leave + '    }\n}\nprint(tmp)\n')
            n_it = 1 if lk == "break" else 2
            order.append((("loop-scope", lk, loop, "outer-visible-again"), src, "outer\nbody\n" * n_it + "outer\n"))
            src2 = (head + '    tmp := "it"\n    if true {\n' + leave + '    }\n}\nprint("after")\nprint(tmp)\n')
            order.append((("loop-scope", lk, loop, "body-local-gone"), src2, None))
    oimpl, odis = tie.run(ctx, [c[1] for c in order], "declaration_order", model_ok, project=tie.proj_full)
    obad = set()
    for (tag, src, out), r in zip(order, oimpl):
        ctx.nontrivial(tag)
        ctx.dist("declaration_order:" + tag[0])
        if out is None:
            ok = r["status"] == "103" and r["stdout"] == "after\n" and "'tmp' is not defined" in r["stderr"]
            exp = ("after\n", "103")
        else:
            ok = (r["stdout"], r["status"]) == (out, "0")
            exp = (out, "0")
        if not ok:
            obad.add(src)
            rep.report(f"{' / '.join(tag)}: lexical scoping predicts status {exp[1]} and stdout {exp[0]!r}; the implementation gives status "
                       f"{r['status']} and stdout {r['stdout']!r} ({r['stderr'][:120]!r})", "declaration-order", src,
                       expect=exp if out is not None else None)
    tie.report_disagreements(ctx, [d for d in odis if d[0] not in obad], "declaration_order")

    # random structured programs
    n = 60000 if thorough else 8000
    done = 0
    while done < n:
        ps = L.random_programs(ctx.rng, min(20000, n - done))
        done += len(ps)
        srcs, impl = scope_stream(ctx, "scope_random", [(None, p[0], p[1]) for p in ps], model_ok, rep)
        picks = [i for i, p in enumerate(ps) if "closure-outlives-scope" in p[5].flags and p[3] == "0"]
        if picks:
            ctx.sample({"stream": "scope_random", "src": srcs[picks[0]], "impl": impl[picks[0]]})

    # generated programs of the shared generator: whole-word renaming
    srcs = progs.generate(ctx.rng, 20000 if thorough else 3000)
    srcs = list(dict.fromkeys(srcs))
    impl, dis = tie.run(ctx, srcs, "progs", model_ok, project=tie.proj_full)
    variants, owner = [], []
    for i, s in enumerate(srcs):
        names = sorted(set(GEN_NAME.findall(s)))
        ctx.dist("outcome:progs:" + ("completes" if impl[i]["status"] == "0" else "diagnostic"))
        ctx.nontrivial(("progs", impl[i]["status"], min(len(names), 12)))
        if not names:
            ctx.exclude("progs_without_generated_names")
            continue
        variants.append(regex_rename(s, names))
        owner.append((i, "every variable"))
        for nm in ctx.rng.sample(names, min(2, len(names))):
            variants.append(regex_rename(s, [nm]))
            owner.append((i, "variable " + nm))
    res = core.run_batch("impl", variants)
    ctx.count("progs:renamed", len(variants))
    bad_src = set()
    for (i, tag), v, r2 in zip(owner, variants, res):
        if key(r2) != key(impl[i]):
            bad_src.add(srcs[i])
            rep.report(f"renaming {tag} to a fresh name changes the outcome: status {impl[i]['status']} -> {r2['status']}, "
                       f"stdout {impl[i]['stdout'][-200:]!r} -> {r2['stdout'][-200:]!r}", "rename-progs", srcs[i], variant=v)
    tie.report_disagreements(ctx, [d for d in dis if d[0] not in bad_src], "progs")
    if srcs:
        ctx.sample({"stream": "progs", "src": srcs[0][:300], "renamed": variants[0][:300]})
